import FGVerif.Model.C05
import FGVerif.Generated.C05
/-!
  C05 — functional-group query results are justified, most specific and covering.

  Everything is proved for the model `Model/C05.lean` **relative to an arbitrary matcher `M`**
  (`M H a P` = `map_subgraph(H, a, P, mapper)`); the model of the code is the instance
  `M := modelMatcher mapper`.  Layers (DESIGN §6/C05), all for every molecule graph (any node ids),
  every hierarchy (passed as data; `t.topo` = topologically numbered, true for every extracted tree and
  proved for the generated default tree: `defaultTree_topo`), both values of `require_implicit_hydrogen`:

  * `C05.justified`              every returned entry names a configured group, lists sorted ids and is
                                 `Witnessed M` at an anchoring atom that is one of its ids and a non-C non-H
                                 atom of the input
  * `C05.ids_are_input_atoms`    listed ids are atoms of the input molecule, from `FreshIds` (= `C12.fresh_ids`,
                                 proved here: `C05.fresh_ids`) and `MapsIntoHost` (proved for the model matcher:
                                 `modelMatcher_mapsIntoHost`); `C05.ids_are_input_atoms_model` has no hypothesis
                                 left but `Closed g` (adjacency mentions nodes only — any networkx graph)
  * `C05.locally_most_specific`  no child of the returned group is witnessed at the anchoring atom
  * `C05.most_specific`          no strict descendant, under the explicit hypothesis `WitnessPathClosed`
                                 (decidable; evaluated by the harness on every query: 0 failing instances)
  * `C05.covering`               worklist invariant: every hetero atom with a witnessed root is listed
  * `C05.specCheck_sound`        the executable checker the driver applies to IMPLEMENTATION outputs implies
                                 `SpecStar`, the statement of the property with TRUE embeddings (`Witnessed⋆`);
                                 uses soundness and completeness of the pruned embedding enumeration
                                 (`existsEmbAt_sound`, `existsEmbAt_complete`)
  * `C05.bridge_sound` / `bridge_complete` / `bridge_acyclic`
                                 `Witnessed (model matcher)` vs `Witnessed⋆` given C03 (completeness) and
                                 C04_partial (soundness on forests) as the explicit hypotheses `MatcherComplete`
                                 / `MatcherSound`; capstone: on that domain the model's output satisfies
                                 `SpecStar`, i.e. the property verbatim
  * `C05.known_finding_K3_thf`   the full statement `SpecStar (model output)` for ALL molecules is FALSE for the
                                 model (and the code): tetrahydrofuran is reported as `epoxid` and the checker
                                 rejects it (kernel evaluation on the generated default hierarchy) — K3,
                                 a consequence of the matcher's unsoundness on cycles (C04/K2)

  * `C05.most_specific_false_witness`
                                 without `WitnessPathClosed` the most-specific clause is FALSE for user-supplied
                                 hierarchies (oxygen > ether > ester on `O=C(C)OC`: the carbonyl oxygen is listed
                                 as `oxygen` although `ester` is witnessed there) — finding K4; the hypothesis
                                 holds on every instance met with the DEFAULT hierarchy (harness evidence)

  Not proved here (other builders): `MatcherComplete` (C03), `MatcherSound` on forests (C04_partial), that the
  extracted hierarchy is the specificity order (C07).
-/
namespace C05
open Perm Sub

/-! ### sorting -/

theorem mem_insertInt {x y : Int} {l : List Int} : y ∈ insertInt x l ↔ y = x ∨ y ∈ l := by
  induction l with
  | nil => simp [insertInt]
  | cons z zs ih =>
    simp only [insertInt]
    split
    · simp
    · simp only [List.mem_cons, ih]
      constructor
      · rintro (h | h | h) <;> simp [h]
      · rintro (h | h | h) <;> simp [h]

theorem mem_sortInts {y : Int} {l : List Int} : y ∈ sortInts l ↔ y ∈ l := by
  induction l with
  | nil => simp [sortInts]
  | cons z zs ih =>
    have : sortInts (z :: zs) = insertInt z (sortInts zs) := rfl
    rw [this, mem_insertInt, ih]; simp

theorem pairwise_insertInt {x : Int} {l : List Int} (h : l.Pairwise (· ≤ ·)) :
    (insertInt x l).Pairwise (· ≤ ·) := by
  induction l with
  | nil => simp [insertInt]
  | cons z zs ih =>
    simp only [insertInt]
    split
    · rename_i hxz
      refine List.Pairwise.cons ?_ h
      intro a ha
      rcases List.mem_cons.mp ha with rfl | ha
      · exact hxz
      · have := (List.pairwise_cons.mp h).1 a ha; omega
    · rename_i hxz
      have hz := List.pairwise_cons.mp h
      refine List.Pairwise.cons ?_ (ih hz.2)
      intro a ha
      rcases mem_insertInt.mp ha with rfl | ha
      · omega
      · exact hz.1 a ha

theorem sortInts_sorted (l : List Int) : (sortInts l).Pairwise (· ≤ ·) := by
  induction l with
  | nil => simp [sortInts]
  | cons z zs ih => exact pairwise_insertInt ih

/-! ### anti-pattern loops -/

theorem vetoInner_eq (l : List (Bool × List (Int × Int))) (b : Bool) :
    vetoInner l b = (b && l.all fun r => !r.1) := by
  induction l generalizing b with
  | nil => simp [vetoInner]
  | cons r rs ih =>
    obtain ⟨ok, mp⟩ := r
    simp only [vetoInner, List.all_cons]
    split
    · rename_i h
      cases b <;> cases ok <;> simp_all
    · rename_i h
      rw [ih]
      cases b <;> cases ok <;> simp_all

theorem vetoOuter_eq (M : Matcher) (g : Graph) (idx : Int) (aps : List Graph) (b : Bool) :
    vetoOuter M g idx aps b = (b && aps.all fun ap => (M g idx ap).all fun r => !r.1) := by
  induction aps generalizing b with
  | nil => simp [vetoOuter]
  | cons ap rest ih =>
    simp only [vetoOuter, List.all_cons, ih, vetoInner_eq]
    cases b <;> simp

theorem mem_insertBySize {x y : Graph} {l : List Graph} : y ∈ insertBySize x l ↔ y = x ∨ y ∈ l := by
  induction l with
  | nil => simp [insertBySize]
  | cons z zs ih =>
    simp only [insertBySize]
    split
    · simp
    · simp only [List.mem_cons, ih]
      constructor
      · rintro (h | h | h) <;> simp [h]
      · rintro (h | h | h) <;> simp [h]

theorem mem_sortBySizeDesc_aux {y : Graph} (l acc : List Graph) :
    y ∈ l.foldl (fun acc x => insertBySize x acc) acc ↔ y ∈ l ∨ y ∈ acc := by
  induction l generalizing acc with
  | nil => simp
  | cons z zs ih =>
    simp only [List.foldl_cons, ih, mem_insertBySize, List.mem_cons]
    constructor
    · rintro (h | h | h) <;> simp [h]
    · rintro ((h | h) | h) <;> simp [h]

theorem mem_sortBySizeDesc {y : Graph} {l : List Graph} : y ∈ sortBySizeDesc l ↔ y ∈ l := by
  simp [sortBySizeDesc, mem_sortBySizeDesc_aux]

theorem all_sortBySizeDesc (l : List Graph) (p : Graph → Bool) :
    (sortBySizeDesc l).all p = l.all p := by
  rw [Bool.eq_iff_iff]
  simp only [List.all_eq_true, mem_sortBySizeDesc]

/-! ### the specification relative to a matcher -/

/-- `Witnessed M cfg H maxId a atoms`: the matcher `M`, asked for the group's pattern at atom `a` of
    `H`, yields (for some pattern anchor) a mapping whose group-atom images `≤ maxId`, sorted, are
    exactly `atoms` and contain `a`; and `M` reports no anti-pattern of the group at `a`. -/
def Witnessed (M : Matcher) (cfg : FGConfig) (H : Graph) (maxId a : Int) (atoms : List Int) : Prop :=
  (∃ r ∈ M H a cfg.pattern, r.1 = true ∧ atoms = sortInts (groupIds cfg.groupAtoms maxId r.2) ∧ a ∈ atoms) ∧
  ∀ ap ∈ cfg.antiPatterns, ∀ r ∈ M H a ap, r.1 = false

theorem matchLoop_true {idx : Int} {ga : List Int} {mx : Int} {l : List (Bool × List (Int × Int))}
    {st : Bool × List Int} {ids : List Int} (h : matchLoop idx ga mx l st = (true, ids)) :
    st = (true, ids) ∨ ∃ r ∈ l, r.1 = true ∧ ids = groupIds ga mx r.2 ∧ idx ∈ ids := by
  induction l generalizing st with
  | nil => left; simpa [matchLoop] using h
  | cons r rs ih =>
    obtain ⟨ok, mp⟩ := r
    cases ok with
    | false =>
      simp only [matchLoop] at h
      rcases ih h with h' | ⟨r, hr, h'⟩
      · exact Or.inl h'
      · exact Or.inr ⟨r, List.mem_cons_of_mem _ hr, h'⟩
    | true =>
      simp only [matchLoop] at h
      split at h
      · rename_i hc
        right
        refine ⟨(true, mp), List.mem_cons_self, rfl, ?_, ?_⟩
        · simpa using (Prod.mk.inj h).2.symm
        · have := (Prod.mk.inj h).2; subst this; simpa using hc
      · rcases ih h with h' | ⟨r, hr, h'⟩
        · simp at h'
        · exact Or.inr ⟨r, List.mem_cons_of_mem _ hr, h'⟩

theorem matchLoop_complete {idx : Int} {ga : List Int} {mx : Int} {l : List (Bool × List (Int × Int))}
    (st : Bool × List Int) (h : ∃ r ∈ l, r.1 = true ∧ idx ∈ groupIds ga mx r.2) :
    (matchLoop idx ga mx l st).1 = true := by
  induction l generalizing st with
  | nil => obtain ⟨r, hr, _⟩ := h; simp at hr
  | cons r rs ih =>
    obtain ⟨ok, mp⟩ := r
    obtain ⟨r', hr', hok, hin⟩ := h
    cases ok with
    | false =>
      simp only [matchLoop]
      rcases List.mem_cons.mp hr' with rfl | hr'
      · simp at hok
      · exact ih _ ⟨r', hr', hok, hin⟩
    | true =>
      simp only [matchLoop]
      split
      · rfl
      · rename_i hc
        rcases List.mem_cons.mp hr' with rfl | hr'
        · exact absurd (by simpa using hin) hc
        · exact ih _ ⟨r', hr', hok, hin⟩

/-- what a positive answer of `is_functional_group` means -/
theorem isFG_sound {M : Matcher} {g : Graph} {idx : Int} {cfg : FGConfig} {mx : Option Int} {ids : List Int}
    (h : isFunctionalGroupM M g idx cfg mx = (true, ids)) :
    Witnessed M cfg g (mx.getD g.maxId) idx ids := by
  simp only [isFunctionalGroupM] at h
  obtain ⟨h1, h2⟩ := Prod.mk.inj h
  generalize hst : matchLoop idx cfg.groupAtoms (mx.getD g.maxId) (M g idx cfg.pattern) (false, []) = st at h1 h2
  obtain ⟨b, raw⟩ := st
  cases b with
  | false => simp at h1
  | true =>
    simp only [if_true, vetoOuter_eq, all_sortBySizeDesc, Bool.true_and] at h1
    rcases matchLoop_true hst with h' | ⟨r, hr, hok, hids, hin⟩
    · simp at h'
    · refine ⟨⟨r, hr, hok, ?_, ?_⟩, ?_⟩
      · rw [← h2, hids]
      · rw [← h2]; exact mem_sortInts.mpr hin
      · intro ap hap r' hr'
        have := List.all_eq_true.mp (List.all_eq_true.mp h1 ap hap) r' hr'
        simpa using this

/-- `is_functional_group` answers yes whenever the group is witnessed (for some atom list) -/
theorem isFG_complete {M : Matcher} {g : Graph} {idx : Int} {cfg : FGConfig} {mx : Option Int} {atoms : List Int}
    (h : Witnessed M cfg g (mx.getD g.maxId) idx atoms) :
    (isFunctionalGroupM M g idx cfg mx).1 = true := by
  obtain ⟨⟨r, hr, hok, hat, hin⟩, hanti⟩ := h
  have hm : (matchLoop idx cfg.groupAtoms (mx.getD g.maxId) (M g idx cfg.pattern) (false, [])).1 = true :=
    matchLoop_complete _ ⟨r, hr, hok, by rw [hat] at hin; exact mem_sortInts.mp hin⟩
  simp only [isFunctionalGroupM, hm, if_true, vetoOuter_eq, all_sortBySizeDesc, Bool.true_and]
  rw [List.all_eq_true]
  intro ap hap
  rw [List.all_eq_true]
  intro r' hr'
  simp [hanti ap hap r' hr']

/-- the anchoring atom is always among the returned ids (the `assert` of the query never fires) -/
theorem isFG_anchor_mem {M : Matcher} {g : Graph} {idx : Int} {cfg : FGConfig} {mx : Option Int} {ids : List Int}
    (h : isFunctionalGroupM M g idx cfg mx = (true, ids)) : idx ∈ ids := (isFG_sound h).1.choose_spec.2.2.2

/-! ### `__find_best_node_rec` -/

section findBest
variable (M : Matcher) (t : Tree) (g : Graph) (idx : Int) (mx : Option Int)

/-- where the value of the sibling loop comes from -/
theorem foldl_bestStep_some (rec : List Nat → Option (Nat × List Int)) (nodes : List Nat)
    (init : Option (Nat × List Int)) (x : Nat × List Int)
    (h : nodes.foldl (bestStep M t g idx mx rec) init = some x) :
    init = some x ∨ ∃ ni ∈ nodes, ∃ nd, t.nodes[ni]? = some nd ∧
      (isFunctionalGroupM M g idx nd.cfg mx).1 = true ∧
      ((rec nd.children = none ∧ x = (ni, (isFunctionalGroupM M g idx nd.cfg mx).2)) ∨ rec nd.children = some x) := by
  induction nodes generalizing init with
  | nil => left; simpa using h
  | cons n ns ih =>
    simp only [List.foldl_cons] at h
    rcases ih _ h with h' | ⟨ni, hni, nd, h1, h2, h3⟩
    · -- the value was produced at `n` (or was already there)
      unfold bestStep at h'
      split at h'
      · exact Or.inl h'
      · rename_i nd hnd
        simp only at h'
        split at h'
        · rename_i hfg
          right
          refine ⟨n, List.mem_cons_self, nd, hnd, hfg, ?_⟩
          split at h'
          · rename_i hrec
            left; exact ⟨hrec, (Option.some.inj h').symm⟩
          · rename_i y hrec
            right; rw [hrec, h']
        · exact Or.inl h'
    · exact Or.inr ⟨ni, List.mem_cons_of_mem _ hni, nd, h1, h2, h3⟩

/-- the sibling loop ends with `None` only if no sibling matched -/
theorem foldl_bestStep_none (rec : List Nat → Option (Nat × List Int)) (nodes : List Nat)
    (init : Option (Nat × List Int))
    (h : nodes.foldl (bestStep M t g idx mx rec) init = none) :
    init = none ∧ ∀ ni ∈ nodes, ∀ nd, t.nodes[ni]? = some nd → (isFunctionalGroupM M g idx nd.cfg mx).1 = false := by
  induction nodes generalizing init with
  | nil => simpa using h
  | cons n ns ih =>
    simp only [List.foldl_cons] at h
    obtain ⟨h0, hrest⟩ := ih _ h
    unfold bestStep at h0
    split at h0
    · rename_i hnone
      refine ⟨h0, ?_⟩
      intro ni hni nd hnd
      rcases List.mem_cons.mp hni with rfl | hni
      · rw [hnone] at hnd; cases hnd
      · exact hrest ni hni nd hnd
    · rename_i nd hnd
      simp only at h0
      split at h0
      · split at h0 <;> cases h0
      · rename_i hfg
        refine ⟨h0, ?_⟩
        intro ni hni nd' hnd'
        rcases List.mem_cons.mp hni with rfl | hni
        · rw [hnd] at hnd'; cases hnd'; simpa using hfg
        · exact hrest ni hni nd' hnd'

/-- a returned node answered yes to `is_functional_group`, with exactly the returned ids -/
theorem findBest_sound : ∀ (fuel : Nat) (nodes : List Nat) (ni : Nat) (ids : List Int),
    findBestNodeRecM M t g idx mx fuel nodes = some (ni, ids) →
    ∃ nd, t.nodes[ni]? = some nd ∧ isFunctionalGroupM M g idx nd.cfg mx = (true, ids) := by
  intro fuel
  induction fuel with
  | zero => intro nodes ni ids h; simp [findBestNodeRecM] at h
  | succ fuel ih =>
    intro nodes ni ids h
    simp only [findBestNodeRecM] at h
    rcases foldl_bestStep_some M t g idx mx _ nodes none (ni, ids) h with h' | ⟨n, _, nd, h1, h2, h3⟩
    · cases h'
    · rcases h3 with ⟨_, hx⟩ | hrec
      · obtain ⟨rfl, rfl⟩ := Prod.mk.inj hx
        exact ⟨nd, h1, Prod.ext h2 rfl⟩
      · exact ih _ _ _ hrec

/-- `None` at positive fuel: no node of the list matches -/
theorem findBest_none {fuel : Nat} {nodes : List Nat}
    (h : findBestNodeRecM M t g idx mx (fuel + 1) nodes = none) :
    ∀ ni ∈ nodes, ∀ nd, t.nodes[ni]? = some nd → (isFunctionalGroupM M g idx nd.cfg mx).1 = false := by
  simp only [findBestNodeRecM] at h
  exact (foldl_bestStep_none M t g idx mx _ nodes none h).2

theorem topo_child_gt {t : Tree} (ht : t.topo = true) {i : Nat} {nd : TreeNode} (hnd : t.nodes[i]? = some nd)
    {c : Nat} (hc : c ∈ nd.children) : i < c ∧ c < t.nodes.length := by
  have hi : i < t.nodes.length := by
    rcases Nat.lt_or_ge i t.nodes.length with h | h
    · exact h
    · rw [List.getElem?_eq_none h] at hnd; cases hnd
  unfold Tree.topo at ht
  have := List.all_eq_true.mp ht i (List.mem_range.mpr hi)
  have hch : t.children i = nd.children := by simp [Tree.children, hnd]
  rw [hch] at this
  have := List.all_eq_true.mp this c hc
  simpa using this

/-- with enough fuel (always the case for `Tree.fuel` on a topologically numbered tree) no child
    of the returned node matches -/
theorem findBest_children_fail (ht : t.topo = true) : ∀ (fuel : Nat) (nodes : List Nat) (ni : Nat) (ids : List Int),
    (∀ i ∈ nodes, t.nodes.length < i + fuel) →
    findBestNodeRecM M t g idx mx fuel nodes = some (ni, ids) →
    ∀ c ∈ t.children ni, ∀ nd, t.nodes[c]? = some nd → (isFunctionalGroupM M g idx nd.cfg mx).1 = false := by
  intro fuel
  induction fuel with
  | zero => intro nodes ni ids _ h; simp [findBestNodeRecM] at h
  | succ fuel ih =>
    intro nodes ni ids hf h
    simp only [findBestNodeRecM] at h
    rcases foldl_bestStep_some M t g idx mx _ nodes none (ni, ids) h with h' | ⟨n, hn, nd, h1, h2, h3⟩
    · cases h'
    · have hn_lt : n < t.nodes.length := by
        rcases Nat.lt_or_ge n t.nodes.length with h | h
        · exact h
        · rw [List.getElem?_eq_none h] at h1; cases h1
      have hfn := hf n hn
      rcases h3 with ⟨hnone, hx⟩ | hrec
      · obtain ⟨rfl, _⟩ := Prod.mk.inj hx
        have hch : t.children ni = nd.children := by simp [Tree.children, h1]
        rw [hch]
        cases fuel with
        | zero => omega
        | succ fuel' => exact findBest_none M t g idx mx hnone
      · refine ih nd.children ni ids ?_ hrec
        intro c hc
        have := (topo_child_gt ht h1 hc).1
        omega

end findBest

/-! ### the worklist -/

theorem mem_removeCovered_cands {x : Int} : ∀ (ids : List Int) (st : List Int × List Int),
    x ∈ (removeCovered ids st).1 → x ∈ st.1 := by
  intro ids
  induction ids with
  | nil => intro st h; simpa [removeCovered] using h
  | cons i is ih =>
    intro st h
    obtain ⟨c, u⟩ := st
    simp only [removeCovered] at h
    split at h
    · exact List.mem_of_mem_erase (ih (c.erase i, u) h)
    · split at h
      · exact ih (c, u.erase i) h
      · exact ih (c, u) h

theorem removeCovered_length : ∀ (ids : List Int) (st : List Int × List Int),
    (removeCovered ids st).1.length ≤ st.1.length := by
  intro ids
  induction ids with
  | nil => intro st; simp [removeCovered]
  | cons i is ih =>
    intro st
    obtain ⟨c, u⟩ := st
    simp only [removeCovered]
    split
    · exact Nat.le_trans (ih _) (by simp [List.length_erase]; split <;> omega)
    · split <;> exact ih _

theorem removeCovered_keeps {x : Int} : ∀ (ids : List Int) (st : List Int × List Int), x ∉ ids →
    (x ∈ st.1 → x ∈ (removeCovered ids st).1) ∧ (x ∈ st.2 → x ∈ (removeCovered ids st).2) := by
  intro ids
  induction ids with
  | nil => intro st _; simp [removeCovered]
  | cons i is ih =>
    intro st hx
    obtain ⟨c, u⟩ := st
    have hxi : x ≠ i := fun h => hx (h ▸ List.mem_cons_self)
    have hxis : x ∉ is := fun h => hx (List.mem_cons_of_mem _ h)
    simp only [removeCovered]
    split
    · have := ih (c.erase i, u) hxis
      exact ⟨fun h => this.1 ((List.mem_erase_of_ne hxi).mpr h), fun h => this.2 h⟩
    · split
      · have := ih (c, u.erase i) hxis
        exact ⟨fun h => this.1 h, fun h => this.2 ((List.mem_erase_of_ne hxi).mpr h)⟩
      · exact ih (c, u) hxis

section worklist
variable (find : Int → Option (Nat × List Int)) (name : Nat → String)

/-- every returned entry was produced by `find` at some candidate atom -/
theorem worklist_mem : ∀ (fuel : Nat) (cands unid : List Int) (groups : List (String × List Int)) (e : String × List Int),
    e ∈ worklist find name fuel cands unid groups →
    e ∈ groups ∨ ∃ a ∈ cands, ∃ ni ids, find a = some (ni, ids) ∧ e = (name ni, ids) := by
  intro fuel
  induction fuel with
  | zero => intro cands unid groups e h; left; simpa [worklist] using h
  | succ fuel ih =>
    intro cands unid groups e h
    cases cands with
    | nil => left; simpa [worklist] using h
    | cons a cs =>
      simp only [worklist] at h
      split at h
      · rcases ih _ _ _ _ h with h' | ⟨b, hb, h'⟩
        · exact Or.inl h'
        · exact Or.inr ⟨b, List.mem_cons_of_mem _ hb, h'⟩
      · rename_i ni ids hfind
        rcases ih _ _ _ _ h with h' | ⟨b, hb, h'⟩
        · rcases List.mem_append.mp h' with h'' | h''
          · exact Or.inl h''
          · right
            refine ⟨a, List.mem_cons_self, ni, ids, hfind, ?_⟩
            simpa using h''
        · exact Or.inr ⟨b, List.mem_cons_of_mem _ (mem_removeCovered_cands _ _ hb), h'⟩

/-- loop invariant of the worklist: an atom is still a candidate, or was set aside because `find`
    found nothing on it, or is listed in an entry already produced.  At the end of the loop every
    atom satisfying the invariant is either unidentified-for-cause or listed in a returned entry. -/
theorem worklist_covers (hanchor : ∀ a ni ids, find a = some (ni, ids) → a ∈ ids) :
    ∀ (fuel : Nat) (cands unid : List Int) (groups : List (String × List Int)) (x : Int),
    cands.length ≤ fuel →
    (x ∈ cands ∨ (x ∈ unid ∧ find x = none) ∨ ∃ e ∈ groups, x ∈ e.2) →
    find x = none ∨ ∃ e ∈ worklist find name fuel cands unid groups, x ∈ e.2 := by
  intro fuel
  induction fuel with
  | zero =>
    intro cands unid groups x hl h
    have : cands = [] := List.eq_nil_of_length_eq_zero (by omega)
    subst this
    rcases h with h | h | h
    · simp at h
    · exact Or.inl h.2
    · right; simpa [worklist] using h
  | succ fuel ih =>
    intro cands unid groups x hl h
    cases cands with
    | nil =>
      rcases h with h | h | h
      · simp at h
      · exact Or.inl h.2
      · right; simpa [worklist] using h
    | cons a cs =>
      simp only [worklist]
      simp only [List.length_cons] at hl
      split
      · rename_i hfind
        refine ih cs (unid ++ [a]) groups x (by omega) ?_
        rcases h with h | h | h
        · rcases List.mem_cons.mp h with rfl | h
          · exact Or.inr (Or.inl ⟨by simp, hfind⟩)
          · exact Or.inl h
        · exact Or.inr (Or.inl ⟨List.mem_append_left _ h.1, h.2⟩)
        · exact Or.inr (Or.inr h)
      · rename_i ni ids hfind
        refine ih _ _ _ x (Nat.le_trans (removeCovered_length ids (cs, unid)) (by simp; omega)) ?_
        by_cases hx : x ∈ ids
        · exact Or.inr (Or.inr ⟨(name ni, ids), by simp, hx⟩)
        · have hk := removeCovered_keeps ids (cs, unid) hx
          rcases h with h | h | h
          · rcases List.mem_cons.mp h with rfl | h
            · exact absurd (hanchor _ _ _ hfind) hx
            · exact Or.inl (hk.1 h)
          · exact Or.inr (Or.inl ⟨hk.2 h.1, h.2⟩)
          · obtain ⟨e, he, hxe⟩ := h
            exact Or.inr (Or.inr ⟨e, List.mem_append_left _ he, hxe⟩)

end worklist

/-! ## The property theorems -/

/-- the graph the query searches in (`H`: hydrogen-completed copy, or the input itself) -/
abbrev queryH (g : Graph) (requireH : Bool) : Graph := (queryGraph g requireH).2

/-- the effective `max_id` is the largest id of the INPUT molecule in both modes -/
theorem queryMaxId (g : Graph) (requireH : Bool) :
    (queryGraph g requireH).1.getD (queryGraph g requireH).2.maxId = g.maxId := by
  cases requireH <;> simp [queryGraph]

/-- `WitnessedAt M t H maxId a i`: node `i` of the hierarchy is witnessed at atom `a` (for some atom list) -/
def WitnessedAt (M : Matcher) (t : Tree) (H : Graph) (maxId a : Int) (i : Nat) : Prop :=
  ∃ nd, t.nodes[i]? = some nd ∧ ∃ atoms, Witnessed M nd.cfg H maxId a atoms

/-- strict descendants in the hierarchy -/
inductive Desc (t : Tree) : Nat → Nat → Prop
  | child {p c : Nat} : c ∈ t.children p → Desc t p c
  | step {p c d : Nat} : c ∈ t.children p → Desc t c d → Desc t p d

/-- the hypothesis `most_specific` needs (the one its proof forces): at atom `a`, a witnessed group
    that has a witnessed strict descendant has a witnessed child — the descent of
    `__find_best_node_rec` cannot get stuck above a witnessed, more specific group.  Decidable;
    evaluated by the harness on every query it generates (`Model.pathClosedViolations`). -/
def WitnessPathClosed (M : Matcher) (t : Tree) (H : Graph) (maxId a : Int) : Prop :=
  ∀ p d, Desc t p d → WitnessedAt M t H maxId a p → WitnessedAt M t H maxId a d →
    ∃ c ∈ t.children p, WitnessedAt M t H maxId a c

/-- a stronger, simpler condition: every parent of a witnessed group is witnessed at the same atom.
    It FAILS on the default hierarchy (formamide, atom O: `amide` is witnessed, its parent `amine`
    is not — group atoms differ), which is why `WitnessPathClosed` is stated path-wise. -/
def WitnessParentsClosed (M : Matcher) (t : Tree) (H : Graph) (maxId a : Int) : Prop :=
  ∀ p c, c ∈ t.children p → WitnessedAt M t H maxId a c → WitnessedAt M t H maxId a p

section main
variable (M : Matcher) (t : Tree) (g : Graph) (requireH : Bool)

/-- where an entry of the output comes from: the search from the roots at some candidate atom -/
theorem entry_origin {e : String × List Int} (he : e ∈ getFunctionalGroupsM M t g requireH) :
    ∃ a ∈ candidates g, ∃ ni ids,
      findBestNodeRecM M t (queryH g requireH) a (queryGraph g requireH).1 t.fuel t.roots = some (ni, ids) ∧
      e = (t.name ni, ids) := by
  unfold getFunctionalGroupsM at he
  rcases worklist_mem _ _ _ _ _ _ _ he with h | h
  · simp at h
  · exact h

theorem name_eq {ni : Nat} {nd : TreeNode} (h : t.nodes[ni]? = some nd) : t.name ni = nd.cfg.name := by
  simp [Tree.name, h]

/-- **C05.justified** — every returned entry names a configured group, lists sorted ids, and is
    witnessed (relative to the matcher `M`) at an anchoring atom `a` that is one of the listed ids
    and a non-C non-H atom of the input molecule. -/
theorem justified : ∀ e ∈ getFunctionalGroupsM M t g requireH,
    ∃ (ni : Nat) (nd : TreeNode), t.nodes[ni]? = some nd ∧ e.1 = nd.cfg.name ∧ e.2.Pairwise (· ≤ ·) ∧
      ∃ a ∈ e.2, a ∈ candidates g ∧ Witnessed M nd.cfg (queryH g requireH) g.maxId a e.2 := by
  intro e he
  obtain ⟨a, ha, ni, ids, hfind, rfl⟩ := entry_origin M t g requireH he
  obtain ⟨nd, hnd, hfg⟩ := findBest_sound M t _ a _ _ _ _ _ hfind
  have hw := isFG_sound hfg
  rw [queryMaxId] at hw
  refine ⟨ni, nd, hnd, name_eq t hnd, ?_, a, isFG_anchor_mem hfg, ha, hw⟩
  obtain ⟨⟨r, _, _, hat, _⟩, _⟩ := hw
  simp only [hat]
  exact sortInts_sorted _

theorem mem_dedup {α} [BEq α] {x : α} : ∀ (l seen : List α), x ∈ dedup l seen → x ∈ l := by
  intro l
  induction l with
  | nil => intro seen h; simp [dedup] at h
  | cons y ys ih =>
    intro seen h
    simp only [dedup] at h
    split at h
    · exact List.mem_cons_of_mem _ (ih _ h)
    · rcases List.mem_cons.mp h with rfl | h
      · exact List.mem_cons_self
      · exact List.mem_cons_of_mem _ (ih _ h)

theorem mem_groupIds {i : Int} {ga : List Int} {mx : Int} {mp : List (Int × Int)} (h : i ∈ groupIds ga mx mp) :
    i ≤ mx ∧ ∃ x ∈ mp, x.1 = i := by
  simp only [groupIds, List.mem_map, List.mem_filter] at h
  obtain ⟨x, ⟨hx, hc⟩, rfl⟩ := h
  simp only [Bool.and_eq_true, decide_eq_true_eq] at hc
  exact ⟨hc.2, x, mem_dedup _ _ hx, rfl⟩

/-- host ids reported by the matcher are the anchor or nodes of the host -/
def MapsIntoHost (M : Matcher) (H : Graph) : Prop :=
  ∀ (a : Int) (p : Graph), ∀ r ∈ M H a p, ∀ x ∈ r.2, x.1 = a ∨ x.1 ∈ H.nodeIds

/-- the fact about hydrogen completion that the `m_id <= max_id` filter relies on
    (`C12.fresh_ids`: new ids are larger than every old id) -/
def FreshIds (g H : Graph) : Prop := ∀ n ∈ H.nodeIds, n ∈ g.nodeIds ∨ g.maxId < n

theorem candidates_sub (g : Graph) : ∀ a ∈ candidates g, a ∈ g.nodeIds := by
  intro a ha
  simp only [candidates, List.mem_filterMap] at ha
  obtain ⟨x, hx, h⟩ := ha
  have : x.1 = a := by
    split at h
    · split at h
      · cases h
      · exact Option.some.inj h
    · exact Option.some.inj h
  exact this ▸ List.mem_map_of_mem hx

/-- **C05.ids_are_input_atoms** — every listed id is an atom of the INPUT molecule (never an added
    hydrogen), for any node ids.  `hC12` is `C12.fresh_ids`; `hM` holds for the model matcher on
    every graph whose adjacency only mentions its nodes (`modelMatcher_mapsIntoHost`). -/
theorem ids_are_input_atoms (hM : MapsIntoHost M (queryH g requireH))
    (hC12 : FreshIds g (C12.addImplicitHydrogens g)) :
    ∀ e ∈ getFunctionalGroupsM M t g requireH, ∀ i ∈ e.2, i ∈ g.nodeIds := by
  intro e he i hi
  obtain ⟨ni, nd, _, _, _, a, _, hac, hw⟩ := justified M t g requireH e he
  obtain ⟨⟨r, hr, _, hat, _⟩, _⟩ := hw
  rw [hat] at hi
  obtain ⟨hle, x, hx, rfl⟩ := mem_groupIds (mem_sortInts.mp hi)
  rcases hM a _ r hr x hx with h | h
  · rw [h]; exact candidates_sub g a hac
  · cases requireH with
    | false => simpa [queryH, queryGraph] using h
    | true =>
      have h' : x.1 ∈ (C12.addImplicitHydrogens g).nodeIds := by simpa [queryH, queryGraph] using h
      rcases hC12 _ h' with h'' | h''
      · exact h''
      · omega

/-- **C05.locally_most_specific** — the returned group has no child in the hierarchy that is
    witnessed at the anchoring atom. -/
theorem locally_most_specific (ht : t.topo = true) : ∀ e ∈ getFunctionalGroupsM M t g requireH,
    ∃ (ni : Nat) (nd : TreeNode), t.nodes[ni]? = some nd ∧ e.1 = nd.cfg.name ∧
      ∃ a ∈ e.2, a ∈ candidates g ∧ Witnessed M nd.cfg (queryH g requireH) g.maxId a e.2 ∧
        ∀ c ∈ t.children ni, ¬ WitnessedAt M t (queryH g requireH) g.maxId a c := by
  intro e he
  obtain ⟨a, ha, ni, ids, hfind, rfl⟩ := entry_origin M t g requireH he
  obtain ⟨nd, hnd, hfg⟩ := findBest_sound M t _ a _ _ _ _ _ hfind
  have hw := isFG_sound hfg
  rw [queryMaxId] at hw
  refine ⟨ni, nd, hnd, name_eq t hnd, a, isFG_anchor_mem hfg, ha, hw, ?_⟩
  intro c hc ⟨ndc, hndc, atoms, hwc⟩
  have hfail := findBest_children_fail M t _ a _ ht t.fuel t.roots ni ids
    (by intro i _; simp [Tree.fuel]; omega) hfind c hc ndc hndc
  rw [← queryMaxId g requireH] at hwc
  have := isFG_complete hwc
  rw [hfail] at this
  cases this

theorem witnessPathClosed_of_parents {M : Matcher} {t : Tree} {H : Graph} {mx a : Int}
    (hcl : WitnessParentsClosed M t H mx a) : WitnessPathClosed M t H mx a := by
  have key : ∀ p d, Desc t p d → WitnessedAt M t H mx a d → ∃ c ∈ t.children p, WitnessedAt M t H mx a c := by
    intro p d hd hw
    induction hd with
    | child hc => exact ⟨_, hc, hw⟩
    | step hc _ ih =>
      obtain ⟨c', hc', hw'⟩ := ih hw
      exact ⟨_, hc, hcl _ _ hc' hw'⟩
  intro p d hd _ hw
  exact key p d hd hw

/-- **C05.most_specific** — under `WitnessPathClosed` no strict descendant of the returned group is
    witnessed at the anchoring atom. -/
theorem most_specific (ht : t.topo = true)
    (hcl : ∀ a ∈ candidates g, WitnessPathClosed M t (queryH g requireH) g.maxId a) :
    ∀ e ∈ getFunctionalGroupsM M t g requireH,
    ∃ (ni : Nat) (nd : TreeNode), t.nodes[ni]? = some nd ∧ e.1 = nd.cfg.name ∧
      ∃ a ∈ e.2, a ∈ candidates g ∧ Witnessed M nd.cfg (queryH g requireH) g.maxId a e.2 ∧
        ∀ d, Desc t ni d → ¬ WitnessedAt M t (queryH g requireH) g.maxId a d := by
  intro e he
  obtain ⟨ni, nd, hnd, hname, a, hae, hac, hw, hloc⟩ := locally_most_specific M t g requireH ht e he
  refine ⟨ni, nd, hnd, hname, a, hae, hac, hw, ?_⟩
  intro d hd hwd
  obtain ⟨c, hc, hwc⟩ := hcl a hac ni d hd ⟨nd, hnd, e.2, hw⟩ hwd
  exact hloc c hc hwc

/-- **C05.covering** — every non-C non-H atom of the molecule on which some root group is witnessed
    appears in some returned entry (worklist loop invariant `worklist_covers`). -/
theorem covering : ∀ x ∈ candidates g,
    (∃ r ∈ t.roots, WitnessedAt M t (queryH g requireH) g.maxId x r) →
    ∃ e ∈ getFunctionalGroupsM M t g requireH, x ∈ e.2 := by
  intro x hx ⟨r, hr, nd, hnd, atoms, hw⟩
  unfold getFunctionalGroupsM
  have hanchor : ∀ a ni ids,
      findBestNodeRecM M t (queryGraph g requireH).2 a (queryGraph g requireH).1 t.fuel t.roots = some (ni, ids) →
      a ∈ ids := by
    intro a ni ids h
    obtain ⟨nd', _, hfg⟩ := findBest_sound M t _ a _ _ _ _ _ h
    exact isFG_anchor_mem hfg
  rcases worklist_covers _ t.name hanchor (candidates g).length (candidates g) [] [] x (Nat.le_refl _)
    (Or.inl hx) with h | h
  · exfalso
    have hfail := findBest_none M t _ x _ (fuel := t.nodes.length) h r hr nd hnd
    rw [← queryMaxId g requireH] at hw
    have := isFG_complete hw
    rw [hfail] at this
    cases this
  · exact h

end main

/-! ### hydrogen completion only adds ids above every old id (`C12.fresh_ids`, proved here from
    `Model/C12.lean` and `Model/Graph.lean`) -/

theorem hasNode_iff {g : Graph} {n : Int} : g.hasNode n = true ↔ n ∈ g.nodeIds := by
  simp [Graph.hasNode, Graph.nodeIds, List.any_eq_true]

theorem nodeIds_addNode (g : Graph) (n : Int) (a : NodeAttr) :
    (g.addNode n a).nodeIds = if g.hasNode n then g.nodeIds else g.nodeIds ++ [n] := by
  unfold Graph.addNode
  split
  · simp only [Graph.nodeIds, List.map_map]
    apply List.map_congr_left
    intro x _
    simp only [Function.comp]
    split <;> rfl
  · simp [Graph.nodeIds]

theorem mem_nodeIds_addNode {g : Graph} {n m : Int} {a : NodeAttr} :
    m ∈ (g.addNode n a).nodeIds ↔ m ∈ g.nodeIds ∨ m = n := by
  rw [nodeIds_addNode]
  split
  · rename_i h
    have := hasNode_iff.mp h
    constructor
    · exact Or.inl
    · rintro (h | rfl) <;> assumption
  · simp

/-- `add_edge` first creates a missing end node -/
def ensure (g : Graph) (w : Int) : Graph := if g.hasNode w then g else g.addNode w {}

theorem mem_nodeIds_ensure {g : Graph} {w m : Int} : m ∈ (ensure g w).nodeIds ↔ m ∈ g.nodeIds ∨ m = w := by
  unfold ensure
  split
  · rename_i h
    have := hasNode_iff.mp h
    constructor
    · exact Or.inl
    · rintro (h | rfl) <;> assumption
  · exact mem_nodeIds_addNode

theorem nodeIds_addEdge (g : Graph) (u v : Int) (l : Label) :
    (g.addEdge u v l).nodeIds = (ensure (ensure g u) v).nodeIds := by
  simp only [Graph.addEdge, Graph.nodeIds, ensure]
  rfl

theorem mem_nodeIds_addEdge {g : Graph} {u v m : Int} {l : Label} :
    m ∈ (g.addEdge u v l).nodeIds ↔ m ∈ g.nodeIds ∨ m = u ∨ m = v := by
  rw [nodeIds_addEdge, mem_nodeIds_ensure, mem_nodeIds_ensure]
  constructor
  · rintro ((h | h) | h) <;> simp [h]
  · rintro (h | h | h) <;> simp [h]

theorem foldl_max_ge_init (xs : List Int) (a : Int) : a ≤ xs.foldl max a := by
  induction xs generalizing a with
  | nil => simp
  | cons x xs ih => simp only [List.foldl_cons]; exact Int.le_trans (Int.le_max_left a x) (ih _)

theorem foldl_max_ge_mem (xs : List Int) (a : Int) : ∀ x ∈ xs, x ≤ xs.foldl max a := by
  induction xs generalizing a with
  | nil => simp
  | cons y ys ih =>
    intro x hx
    simp only [List.foldl_cons]
    rcases List.mem_cons.mp hx with rfl | h
    · exact Int.le_trans (Int.le_max_right a x) (foldl_max_ge_init ys _)
    · exact ih _ x h

theorem foldl_max_mem (xs : List Int) (a : Int) : xs.foldl max a = a ∨ xs.foldl max a ∈ xs := by
  induction xs generalizing a with
  | nil => simp
  | cons y ys ih =>
    simp only [List.foldl_cons]
    rcases ih (max a y) with h | h
    · rw [h]
      rcases Int.le_total a y with h' | h'
      · right; rw [Int.max_eq_right h']; exact List.mem_cons_self
      · left; exact Int.max_eq_left h'
    · right; exact List.mem_cons_of_mem _ h

theorem le_maxId {g : Graph} {n : Int} (h : n ∈ g.nodeIds) : n ≤ g.maxId :=
  foldl_max_ge_mem _ _ n h

theorem maxId_mem {g : Graph} (h : g.nodeIds ≠ []) : g.maxId ∈ g.nodeIds := by
  unfold Graph.maxId
  cases hl : g.nodeIds with
  | nil => exact absurd hl h
  | cons x xs =>
    simp only [List.headD_cons]
    rcases foldl_max_mem (x :: xs) x with h' | h'
    · rw [h']; exact List.mem_cons_self
    · exact h'

theorem addHs_nodes (n : Int) : ∀ (k : Nat) (g : Graph) (next : Int), n ∈ g.nodeIds →
    (∀ m ∈ g.nodeIds, m ∈ (C12.addHs g n k next).nodeIds) ∧
    (∀ m ∈ (C12.addHs g n k next).nodeIds, m ∈ g.nodeIds ∨ next ≤ m) := by
  intro k
  induction k with
  | zero => intro g next _; simp only [C12.addHs]; exact ⟨fun m h => h, fun m h => Or.inl h⟩
  | succ k ih =>
    intro g next hn
    simp only [C12.addHs]
    have hstep : ∀ m, m ∈ ((g.addNode next { symbol := some "H" }).addEdge n next (.s 2)).nodeIds ↔
        m ∈ g.nodeIds ∨ m = next := by
      intro m
      rw [mem_nodeIds_addEdge, mem_nodeIds_addNode]
      constructor
      · rintro ((h | h) | h | h)
        · exact Or.inl h
        · exact Or.inr h
        · exact Or.inl (h ▸ hn)
        · exact Or.inr h
      · rintro (h | h)
        · exact Or.inl (Or.inl h)
        · exact Or.inl (Or.inr h)
    have := ih ((g.addNode next { symbol := some "H" }).addEdge n next (.s 2)) (next + 1)
      ((hstep n).mpr (Or.inl hn))
    refine ⟨fun m hm => this.1 m ((hstep m).mpr (Or.inl hm)), ?_⟩
    intro m hm
    rcases this.2 m hm with h | h
    · rcases (hstep m).mp h with h' | h'
      · exact Or.inl h'
      · right; omega
    · right; omega

theorem heavy_mem {g : Graph} {x : Int × String} (h : x ∈ C12.heavy g) : x.1 ∈ g.nodeIds := by
  simp only [C12.heavy, List.mem_filterMap] at h
  obtain ⟨y, hy, h⟩ := h
  have : y.1 = x.1 := by
    split at h
    · split at h
      · cases h
      · cases h; rfl
    · cases h
  exact this ▸ List.mem_map_of_mem hy

/-- **C12.fresh_ids** (any node ids): the completed graph keeps every node and every added node
    has an id larger than every id of the input graph -/
theorem fresh_ids_with (rows : List (String × Int)) (g : Graph) :
    (∀ m ∈ g.nodeIds, m ∈ (C12.addImplicitHydrogensWith rows g).nodeIds) ∧
    FreshIds g (C12.addImplicitHydrogensWith rows g) := by
  unfold C12.addImplicitHydrogensWith FreshIds
  have inv : ∀ (hs : List (Int × String)) (g' : Graph), (∀ x ∈ hs, x.1 ∈ g.nodeIds) →
      (∀ m ∈ g.nodeIds, m ∈ g'.nodeIds) → (∀ m ∈ g'.nodeIds, m ∈ g.nodeIds ∨ g.maxId < m) →
      (∀ m ∈ g.nodeIds, m ∈ (hs.foldl (C12.step rows) g').nodeIds) ∧
      (∀ m ∈ (hs.foldl (C12.step rows) g').nodeIds, m ∈ g.nodeIds ∨ g.maxId < m) := by
    intro hs
    induction hs with
    | nil => intro g' _ h1 h2; exact ⟨h1, h2⟩
    | cons x xs ih =>
      intro g' hx h1 h2
      simp only [List.foldl_cons]
      have hxg : x.1 ∈ g.nodeIds := hx x List.mem_cons_self
      apply ih _ (fun y hy => hx y (List.mem_cons_of_mem _ hy))
      · intro m hm
        unfold C12.step
        split
        · exact h1 m hm
        · exact (addHs_nodes x.1 _ g' _ (h1 _ hxg)).1 m (h1 m hm)
      · intro m hm
        unfold C12.step at hm
        split at hm
        · exact h2 m hm
        · rcases (addHs_nodes x.1 _ g' _ (h1 _ hxg)).2 m hm with h | h
          · exact h2 m h
          · right
            have hne : g.nodeIds ≠ [] := List.ne_nil_of_mem hxg
            have : g.maxId ≤ g'.maxId := le_maxId (h1 _ (maxId_mem hne))
            omega
  exact inv (C12.heavy g) g (fun x hx => heavy_mem hx) (fun m hm => hm) (fun m hm => Or.inl hm)

theorem fresh_ids (g : Graph) : FreshIds g (C12.addImplicitHydrogens g) := (fresh_ids_with _ g).2

theorem completion_keeps_nodes (g : Graph) : ∀ m ∈ g.nodeIds, m ∈ (C12.addImplicitHydrogens g).nodeIds :=
  (fresh_ids_with _ g).1

/-! ### the model matcher only reports nodes of the host (on graphs whose adjacency mentions nodes only) -/

/-- every neighbour listed in an adjacency row is a node (networkx guarantees this) -/
def Closed (g : Graph) : Prop := ∀ row ∈ g.adj, ∀ nb ∈ row.2, nb.1 ∈ g.nodeIds

def closedB (g : Graph) : Bool := g.adj.all fun row => row.2.all fun nb => g.hasNode nb.1

theorem closed_of_closedB {g : Graph} (h : closedB g = true) : Closed g := by
  intro row hrow nb hnb
  have := List.all_eq_true.mp (List.all_eq_true.mp h row hrow) nb hnb
  simpa [Graph.hasNode, Graph.nodeIds] using this

theorem neighbors_mem {g : Graph} (hc : Closed g) {u v : Int} (h : v ∈ g.neighbors u) : v ∈ g.nodeIds := by
  simp only [Graph.neighbors, Graph.adjRow] at h
  split at h
  · rename_i r hr
    obtain ⟨nb, hnb, rfl⟩ := List.mem_map.mp h
    exact hc r (List.mem_of_find?_eq_some hr) nb hnb
  · simp at h

section fit
variable (H p : Graph) (m : Mapper) (a : Int)

/-- "good" host ids: the anchor of the query or a node of the host -/
def Good (h : Int) : Prop := h = a ∨ h ∈ H.nodeIds

theorem tryPairs_good (idx pidx : Int) (rec : Int → Int → FitResult)
    : ∀ (pairs : List (Int × Option Int)) (acc res : List (Int × Int) × List Int × List Int),
    (∀ q, ∀ nn, (q, some nn) ∈ pairs → ∀ x ∈ (rec nn q).mapping, Good H a x.1) →
    (∀ x ∈ acc.1, Good H a x.1) →
    tryPairs H p idx pidx rec pairs acc = some res → ∀ x ∈ res.1, Good H a x.1 := by
  intro pairs
  induction pairs with
  | nil =>
    intro acc res _ hacc h
    simp only [tryPairs] at h
    cases h; exact hacc
  | cons pr rest ih =>
    intro acc res hrec hacc h
    obtain ⟨q, o⟩ := pr
    obtain ⟨mp, vn, vpn⟩ := acc
    cases o with
    | none =>
      simp only [tryPairs] at h
      exact ih (mp, vn, addSet q vpn) res (fun q' nn hm => hrec q' nn (List.mem_cons_of_mem _ hm)) hacc h
    | some nn =>
      simp only [tryPairs] at h
      split at h
      · split at h
        · refine ih _ res (fun q' nn' hm => hrec q' nn' (List.mem_cons_of_mem _ hm)) ?_ h
          intro x hx
          rcases List.mem_append.mp hx with hx | hx
          · exact hacc x hx
          · exact hrec q nn List.mem_cons_self x hx
        · cases h
      · cases h

theorem fit_good (hc : Closed H) : ∀ (fuel : Nat) (idx pidx : Int) (vis pvis : List Int),
    Good H a idx → ∀ x ∈ (fit H p m fuel idx pidx vis pvis).mapping, Good H a x.1 := by
  intro fuel
  induction fuel with
  | zero =>
    intro idx pidx vis pvis hg x hx
    simp only [fit, List.mem_singleton] at hx
    subst hx; exact hg
  | succ fuel ih =>
    intro idx pidx vis pvis hg x hx
    simp only [fit] at hx
    split at hx
    · simp only [List.mem_singleton] at hx
      subst hx; exact hg
    · split at hx
      · rename_i mp vn vpn hfs
        rcases List.mem_cons.mp hx with rfl | hx
        · exact hg
        · obtain ⟨asg, _, hasg⟩ := List.exists_of_findSome?_eq_some hfs
          refine tryPairs_good H p a idx pidx _ _ ([], [], []) (mp, vn, vpn) ?_ (by simp) hasg x hx
          intro q nn hmem y hy
          refine ih nn q _ _ (Or.inr ?_) y hy
          -- `nn` is a neighbour of `idx`
          have h2 := (List.of_mem_zip hmem).2
          obtain ⟨si, _, hsi⟩ := List.mem_map.mp h2
          split at hsi
          · cases hsi
          · have hsome : ((nbrs H idx (addSet idx vis))[si.toNat]?).map (·.1) = some nn := hsi
            cases hget : (nbrs H idx (addSet idx vis))[si.toNat]? with
            | none => rw [hget] at hsome; cases hsome
            | some e =>
              rw [hget] at hsome
              have he : e ∈ nbrs H idx (addSet idx vis) := List.mem_of_getElem? hget
              simp only [nbrs, List.mem_map, List.mem_filter] at he
              obtain ⟨w, ⟨hw, _⟩, rfl⟩ := he
              have : w = nn := Option.some.inj hsome
              subst this
              exact neighbors_mem hc hw
      · simp only [List.mem_singleton] at hx
        subst hx; exact hg

/-- the model matcher only reports the anchor and nodes of the host -/
theorem modelMatcher_mapsIntoHost (hc : Closed H) : MapsIntoHost (modelMatcher m) H := by
  intro a p r hr x hx
  simp only [modelMatcher, mapSubgraph] at hr
  split at hr
  · simp only [List.mem_singleton] at hr
    subst hr; simp at hx
  · obtain ⟨pidx, _, rfl⟩ := List.mem_map.mp hr
    simp only [mapAnchored] at hx
    split at hx
    · exact fit_good H p m a hc _ _ _ _ _ (Or.inl rfl) x hx
    · simp at hx

end fit

/-! ### hydrogen completion keeps the adjacency closed -/

theorem closed_addNode {g : Graph} (hc : Closed g) (n : Int) (a : NodeAttr) : Closed (g.addNode n a) := by
  intro row hrow nb hnb
  rw [mem_nodeIds_addNode]
  unfold Graph.addNode at hrow
  split at hrow
  · exact Or.inl (hc row hrow nb hnb)
  · simp only [List.mem_append, List.mem_singleton] at hrow
    rcases hrow with hrow | rfl
    · exact Or.inl (hc row hrow nb hnb)
    · simp at hnb

theorem closed_ensure {g : Graph} (hc : Closed g) (w : Int) : Closed (ensure g w) := by
  unfold ensure; split
  · exact hc
  · exact closed_addNode hc _ _

theorem mem_addHalfEdge {multi : Bool} {row : List (Int × List (Nat × Label))} {v : Int} {key : Nat} {l : Label}
    {nb : Int × List (Nat × Label)} (h : nb ∈ Graph.addHalfEdge multi row v key l) :
    nb.1 = v ∨ ∃ nb' ∈ row, nb'.1 = nb.1 := by
  unfold Graph.addHalfEdge at h
  split at h
  · obtain ⟨r, hr, rfl⟩ := List.mem_map.mp h
    right
    refine ⟨r, hr, ?_⟩
    split
    · split <;> rfl
    · rfl
  · rcases List.mem_append.mp h with h | h
    · exact Or.inr ⟨nb, h, rfl⟩
    · left; simp only [List.mem_singleton] at h; rw [h]

theorem closed_addEdge {g : Graph} (hc : Closed g) (u v : Int) (l : Label) : Closed (g.addEdge u v l) := by
  have hc2 : Closed (ensure (ensure g u) v) := closed_ensure (closed_ensure hc u) v
  have hu : u ∈ (ensure (ensure g u) v).nodeIds := by
    rw [mem_nodeIds_ensure, mem_nodeIds_ensure]; simp
  have hv : v ∈ (ensure (ensure g u) v).nodeIds := by
    rw [mem_nodeIds_ensure]; simp
  intro row hrow nb hnb
  have hids : (g.addEdge u v l).nodeIds = (ensure (ensure g u) v).nodeIds := by
    simp only [Graph.addEdge, Graph.nodeIds, ensure]; rfl
  rw [hids]
  -- the adjacency of the result: rows of `g2` with `v` added to row `u` and `u` to row `v`
  generalize hg2 : ensure (ensure g u) v = g2 at hc2 hu hv
  have hadj : ∃ key, (g.addEdge u v l).adj =
      (if u == v then (g2.adj.map fun r => if r.1 == u then (r.1, Graph.addHalfEdge g2.multi r.2 v key l) else r)
       else (g2.adj.map fun r => if r.1 == u then (r.1, Graph.addHalfEdge g2.multi r.2 v key l) else r).map
          fun r => if r.1 == v then (r.1, Graph.addHalfEdge g2.multi r.2 u key l) else r) := by
    subst hg2
    exact ⟨_, by simp only [Graph.addEdge, ensure]; rfl⟩
  obtain ⟨key, hadj⟩ := hadj
  rw [hadj] at hrow
  have step1 : ∀ r ∈ (g2.adj.map fun r => if r.1 == u then (r.1, Graph.addHalfEdge g2.multi r.2 v key l) else r),
      ∀ nb ∈ r.2, nb.1 ∈ g2.nodeIds := by
    intro r hr nb hnb
    obtain ⟨r0, hr0, rfl⟩ := List.mem_map.mp hr
    split at hnb
    · rcases mem_addHalfEdge hnb with h | ⟨nb', hnb', h⟩
      · rw [h]; exact hv
      · rw [← h]; exact hc2 r0 hr0 nb' hnb'
    · exact hc2 r0 hr0 nb hnb
  split at hrow
  · exact step1 row hrow nb hnb
  · obtain ⟨r1, hr1, rfl⟩ := List.mem_map.mp hrow
    split at hnb
    · rcases mem_addHalfEdge hnb with h | ⟨nb', hnb', h⟩
      · rw [h]; exact hu
      · rw [← h]; exact step1 r1 hr1 nb' hnb'
    · exact step1 r1 hr1 nb hnb

theorem closed_addHs (n : Int) : ∀ (k : Nat) (g : Graph) (next : Int), Closed g → Closed (C12.addHs g n k next) := by
  intro k
  induction k with
  | zero => intro g next h; exact h
  | succ k ih =>
    intro g next h
    simp only [C12.addHs]
    exact ih _ _ (closed_addEdge (closed_addNode h _ _) _ _ _)

theorem closed_completion {g : Graph} (hc : Closed g) : Closed (C12.addImplicitHydrogens g) := by
  unfold C12.addImplicitHydrogens C12.addImplicitHydrogensWith
  generalize C12.heavy g = hs
  induction hs generalizing g with
  | nil => exact hc
  | cons x xs ih =>
    simp only [List.foldl_cons]
    apply ih
    unfold C12.step
    split
    · exact hc
    · exact closed_addHs _ _ _ _ hc

/-! ## The specification with true embeddings -/

/-- a true embedding of pattern `P` into host `H`: injective on the pattern's nodes, into the host's
    nodes, symbols admitted by the mapper, every pattern bond present with the same label -/
structure IsEmbedding (m : Mapper) (P H : Graph) (f : Int → Int) : Prop where
  nodes : ∀ p ∈ P.nodeIds, f p ∈ H.nodeIds
  syms : ∀ p ∈ P.nodeIds, admits m (symOf P p) (symOf H (f p)) = true
  inj : ∀ p ∈ P.nodeIds, ∀ q ∈ P.nodeIds, f p = f q → p = q
  bonds : ∀ p ∈ P.nodeIds, ∀ q ∈ P.nodeIds, P.hasEdge p q = true →
    H.hasEdge (f p) (f q) = true ∧ H.bond? (f p) (f q) = P.bond? p q

/-- the function denoted by an association list -/
def toFun (fl : List (Int × Int)) : Int → Int := fun p => (lookup fl p).getD 0

theorem lookup_cons (p h q : Int) (acc : List (Int × Int)) :
    lookup ((p, h) :: acc) q = if p = q then some h else lookup acc q := by
  simp only [lookup, List.find?_cons]
  by_cases hpq : p = q
  · simp [hpq]
  · have : (p == q) = false := by simpa using hpq
    simp [hpq, this]

theorem lookup_none_of_not_any {acc : List (Int × Int)} {p : Int} (h : acc.any (·.1 == p) = false) :
    lookup acc p = none := by
  simp only [lookup, Option.map_eq_none_iff, List.find?_eq_none]
  intro x hx
  have := List.any_eq_false.mp h x hx
  simpa using this

theorem lookup_some_of_any {acc : List (Int × Int)} {p : Int} (h : acc.any (·.1 == p) = true) :
    ∃ hh, lookup acc p = some hh := by
  obtain ⟨x, hx, hxp⟩ := List.any_eq_true.mp h
  cases hl : lookup acc p with
  | some v => exact ⟨v, rfl⟩
  | none =>
    simp only [lookup, Option.map_eq_none_iff, List.find?_eq_none] at hl
    exact absurd hxp (hl x hx)

theorem lookup_mem {acc : List (Int × Int)} {p hh : Int} (h : lookup acc p = some hh) : (p, hh) ∈ acc := by
  simp only [lookup, Option.map_eq_some_iff] at h
  obtain ⟨x, hx, rfl⟩ := h
  have h1 := List.mem_of_find?_eq_some hx
  have h2 := List.find?_some hx
  have : x.1 = p := by simpa using h2
  rw [← this]; exact h1

section enum
variable (m : Mapper) (P H : Graph)

theorem anyExt_sound (pred : List (Int × Int) → Bool) : ∀ (order : List Int) (acc : List (Int × Int)),
    anyExt m P H pred order acc = true →
    ∃ fl, pred fl = true ∧ ∀ q hq, lookup acc q = some hq → lookup fl q = some hq := by
  intro order
  induction order with
  | nil => intro acc h; exact ⟨acc, by simpa [anyExt] using h, fun _ _ h => h⟩
  | cons p ps ih =>
    intro acc h
    simp only [anyExt] at h
    split at h
    · exact ih acc h
    · rename_i hna
      obtain ⟨hh, _, hc⟩ := List.any_eq_true.mp h
      simp only [Bool.and_eq_true] at hc
      obtain ⟨fl, hpred, hext⟩ := ih _ hc.2
      refine ⟨fl, hpred, ?_⟩
      intro q hq hl
      apply hext
      rw [lookup_cons]
      split
      · rename_i hpq
        subst hpq
        rw [lookup_none_of_not_any (Bool.eq_false_iff.mpr hna)] at hl
        cases hl
      · exact hl

theorem embOK_sound {fl : List (Int × Int)} (h : embOK m P H fl = true) : IsEmbedding m P H (toFun fl) := by
  simp only [embOK, Bool.and_eq_true, List.all_eq_true] at h
  obtain ⟨h1, h2⟩ := h
  have tot : ∀ p ∈ P.nodeIds, ∃ hh, lookup fl p = some hh ∧ H.hasNode hh = true ∧
      admits m (symOf P p) (symOf H hh) = true := by
    intro p hp
    have := h1 p hp
    split at this
    · rename_i hh hl
      simp only [Bool.and_eq_true] at this
      exact ⟨hh, hl, this.1, this.2⟩
    · cases this
  have tf : ∀ p hh, lookup fl p = some hh → toFun fl p = hh := by
    intro p hh hl; simp [toFun, hl]
  have pair : ∀ p ∈ P.nodeIds, ∀ q ∈ P.nodeIds, (p = q ∨ toFun fl p ≠ toFun fl q) ∧
      bondKept P H p q (toFun fl p) (toFun fl q) = true := by
    intro p hp q hq
    obtain ⟨hp', hlp, _, _⟩ := tot p hp
    obtain ⟨hq', hlq, _, _⟩ := tot q hq
    have := h2 p hp q hq
    rw [hlp, hlq] at this
    simp only [Bool.and_eq_true, Bool.or_eq_true, beq_iff_eq, bne_iff_ne] at this
    rw [tf p _ hlp, tf q _ hlq]
    exact this
  refine ⟨?_, ?_, ?_, ?_⟩
  · intro p hp
    obtain ⟨hh, hl, hn, _⟩ := tot p hp
    rw [tf p hh hl]; exact hasNode_iff.mp hn
  · intro p hp
    obtain ⟨hh, hl, _, ha⟩ := tot p hp
    rw [tf p hh hl]; exact ha
  · intro p hp q hq hfq
    rcases (pair p hp q hq).1 with h | h
    · exact h
    · exact absurd hfq h
  · intro p hp q hq he
    have := (pair p hp q hq).2
    simp only [bondKept, he, Bool.not_true, Bool.false_or, Bool.and_eq_true, beq_iff_eq] at this
    exact this

theorem existsEmbAt_sound {p0 a : Int} {pred : List (Int × Int) → Bool}
    (h : existsEmbAt m P H p0 a pred = true) :
    ∃ fl, embOK m P H fl = true ∧ pred fl = true ∧ lookup fl p0 = some a ∧ p0 ∈ P.nodeIds := by
  simp only [existsEmbAt, Bool.and_eq_true] at h
  obtain ⟨⟨⟨_, hp0⟩, _⟩, hany⟩ := h
  obtain ⟨fl, hpred, hext⟩ := anyExt_sound m P H _ _ _ hany
  simp only [Bool.and_eq_true] at hpred
  refine ⟨fl, hpred.1, hpred.2, hext p0 a (by simp [lookup]), hasNode_iff.mp hp0⟩

/-- an association list that agrees with the embedding `f` and is total on the pattern passes `embOK` -/
theorem embOK_of_agrees {f : Int → Int} (hf : IsEmbedding m P H f) {acc : List (Int × Int)}
    (hag : ∀ p ∈ P.nodeIds, lookup acc p = some (f p)) : embOK m P H acc = true := by
  simp only [embOK, Bool.and_eq_true, List.all_eq_true]
  refine ⟨?_, ?_⟩
  · intro p hp
    rw [hag p hp]
    simp only [Bool.and_eq_true]
    exact ⟨hasNode_iff.mpr (hf.nodes p hp), hf.syms p hp⟩
  · intro p hp q hq
    rw [hag p hp, hag q hq]
    simp only [Bool.and_eq_true, Bool.or_eq_true, beq_iff_eq, bne_iff_ne]
    refine ⟨?_, ?_⟩
    · by_cases hpq : p = q
      · exact Or.inl hpq
      · exact Or.inr (fun h => hpq (hf.inj p hp q hq h))
    · simp only [bondKept, Bool.or_eq_true, Bool.not_eq_true', Bool.and_eq_true, beq_iff_eq]
      cases he : P.hasEdge p q with
      | false => exact Or.inl rfl
      | true => exact Or.inr (hf.bonds p hp q hq he)

theorem anyExt_complete {f : Int → Int} (hf : IsEmbedding m P H f) :
    ∀ (order : List Int) (acc : List (Int × Int)),
    (∀ p ∈ order, p ∈ P.nodeIds) →
    (∀ q hq, (q, hq) ∈ acc → q ∈ P.nodeIds ∧ hq = f q) →
    (∀ p ∈ P.nodeIds, p ∈ order ∨ acc.any (·.1 == p) = true) →
    anyExt m P H (fun fl => embOK m P H fl && true) order acc = true := by
  intro order
  induction order with
  | nil =>
    intro acc _ hag hcov
    simp only [anyExt, Bool.and_true]
    apply embOK_of_agrees m P H hf
    intro p hp
    rcases hcov p hp with h | h
    · simp at h
    · obtain ⟨hh, hl⟩ := lookup_some_of_any h
      rw [hl, (hag p hh (lookup_mem hl)).2]
  | cons p ps ih =>
    intro acc hord hag hcov
    simp only [anyExt]
    have hpP : p ∈ P.nodeIds := hord p List.mem_cons_self
    split
    · rename_i has
      refine ih acc (fun q hq => hord q (List.mem_cons_of_mem _ hq)) hag ?_
      intro q hq
      rcases hcov q hq with h | h
      · rcases List.mem_cons.mp h with rfl | h
        · exact Or.inr has
        · exact Or.inl h
      · exact Or.inr h
    · rename_i hna
      rw [List.any_eq_true]
      refine ⟨f p, hf.nodes p hpP, ?_⟩
      simp only [Bool.and_eq_true]
      refine ⟨?_, ?_⟩
      · -- compatible
        simp only [compatible, Bool.and_eq_true, Bool.not_eq_true', List.all_eq_true]
        refine ⟨⟨hf.syms p hpP, ?_⟩, ?_⟩
        · rw [List.any_eq_false]
          intro x hx
          obtain ⟨hxP, hxf⟩ := hag x.1 x.2 hx
          simp only [beq_iff_eq]
          intro heq
          have : x.1 = p := hf.inj x.1 hxP p hpP (by rw [← hxf, heq])
          have hany : acc.any (·.1 == p) = true := List.any_eq_true.mpr ⟨x, hx, by simp [this]⟩
          exact absurd hany hna
        · intro x hx
          obtain ⟨hxP, hxf⟩ := hag x.1 x.2 hx
          rw [hxf]
          simp only [bondKept, Bool.or_eq_true, Bool.not_eq_true', Bool.and_eq_true, beq_iff_eq]
          refine ⟨?_, ?_⟩
          · cases he : P.hasEdge p x.1 with
            | false => exact Or.inl rfl
            | true => exact Or.inr (hf.bonds p hpP x.1 hxP he)
          · cases he : P.hasEdge x.1 p with
            | false => exact Or.inl rfl
            | true => exact Or.inr (hf.bonds x.1 hxP p hpP he)
      · refine ih _ (fun q hq => hord q (List.mem_cons_of_mem _ hq)) ?_ ?_
        · intro q hq hmem
          rcases List.mem_cons.mp hmem with h | h
          · cases h; exact ⟨hpP, rfl⟩
          · exact hag q hq h
        · intro q hq
          rcases hcov q hq with h | h
          · rcases List.mem_cons.mp h with rfl | h
            · right; simp
            · exact Or.inl h
          · right
            simp only [List.any_cons, h, Bool.or_true]

theorem existsEmbAt_complete {f : Int → Int} (hf : IsEmbedding m P H f) {p0 : Int} (hp0 : p0 ∈ P.nodeIds) :
    existsEmbAt m P H p0 (f p0) (fun _ => true) = true := by
  simp only [existsEmbAt, Bool.and_eq_true]
  refine ⟨⟨⟨hasNode_iff.mpr (hf.nodes p0 hp0), hasNode_iff.mpr hp0⟩, ?_⟩, ?_⟩
  · simp only [compatible, List.any_nil, Bool.not_false, Bool.and_true, List.all_nil]
    exact hf.syms p0 hp0
  · refine anyExt_complete m P H hf _ _ ?_ ?_ ?_
    · intro p hp
      simp only [searchOrder, List.mem_append, List.mem_filter] at hp
      rcases hp with ⟨_, h⟩ | h
      · exact hasNode_iff.mp h
      · exact h
    · intro q hq hmem
      simp only [List.mem_singleton] at hmem
      cases hmem; exact ⟨hp0, rfl⟩
    · intro p hp
      left
      simp only [searchOrder, List.mem_append]
      exact Or.inr hp

end enum

/-- sorted host images (≤ `maxId`) of the pattern's group atoms under `f` -/
def groupImage (cfg : FGConfig) (maxId : Int) (f : Int → Int) : List Int :=
  sortInts (((cfg.pattern.nodeIds.filter cfg.groupAtoms.contains).map f).filter fun h => decide (h ≤ maxId))

/-- no anti-pattern of the group embeds with `a` in its image -/
def AntiFree (m : Mapper) (cfg : FGConfig) (H : Graph) (a : Int) : Prop :=
  ∀ ap ∈ cfg.antiPatterns, ¬ ∃ f, IsEmbedding m ap H f ∧ ∃ p ∈ ap.nodeIds, f p = a

/-- `Witnessed⋆`: the group's pattern embeds into `H` with a group atom on `a`, the group-atom
    images `≤ maxId` are exactly `atoms`, and no anti-pattern embeds on `a` -/
def WitnessedStar (m : Mapper) (cfg : FGConfig) (H : Graph) (maxId a : Int) (atoms : List Int) : Prop :=
  a ≤ maxId ∧
  (∃ f, IsEmbedding m cfg.pattern H f ∧ (∃ p0 ∈ cfg.pattern.nodeIds, p0 ∈ cfg.groupAtoms ∧ f p0 = a) ∧
    atoms = groupImage cfg maxId f) ∧
  AntiFree m cfg H a

section star
variable (m : Mapper) (cfg : FGConfig) (H : Graph) (maxId a : Int)

theorem antiFree_sound (h : antiFree m cfg H a = true) : AntiFree m cfg H a := by
  intro ap hap ⟨f, hf, p, hp, hfa⟩
  simp only [antiFree, List.all_eq_true] at h
  have := h ap hap p hp
  rw [← hfa, existsEmbAt_complete m ap H hf hp] at this
  cases this

theorem antiFree_complete (h : AntiFree m cfg H a) : antiFree m cfg H a = true := by
  simp only [antiFree, List.all_eq_true]
  intro ap hap p0 _
  cases hx : existsEmbAt m ap H p0 a (fun _ => true) with
  | false => rfl
  | true =>
    exfalso
    obtain ⟨fl, hok, _, hl, hp0⟩ := existsEmbAt_sound m ap H hx
    exact h ap hap ⟨toFun fl, embOK_sound m ap H hok, p0, hp0, by simp [toFun, hl]⟩

theorem filterMap_lookup_eq_map {fl : List (Int × Int)} : ∀ (l : List Int),
    (∀ p ∈ l, ∃ hh, lookup fl p = some hh) → l.filterMap (lookup fl) = l.map (toFun fl) := by
  intro l
  induction l with
  | nil => intro _; rfl
  | cons x xs ih =>
    intro h
    obtain ⟨hh, hl⟩ := h x List.mem_cons_self
    rw [List.filterMap_cons, hl, List.map_cons, ih (fun p hp => h p (List.mem_cons_of_mem _ hp))]
    simp [toFun, hl]

theorem embOK_total {P : Graph} {fl : List (Int × Int)} (h : embOK m P H fl = true) :
    ∀ p ∈ P.nodeIds, ∃ hh, lookup fl p = some hh := by
  simp only [embOK, Bool.and_eq_true, List.all_eq_true] at h
  intro p hp
  have := h.1 p hp
  split at this
  · rename_i hh hl; exact ⟨hh, hl⟩
  · cases this

theorem witnessAtoms_eq {fl : List (Int × Int)} (h : embOK m cfg.pattern H fl = true) :
    witnessAtoms cfg maxId fl = groupImage cfg maxId (toFun fl) := by
  simp only [witnessAtoms, groupImage]
  rw [filterMap_lookup_eq_map]
  intro p hp
  exact embOK_total m H h p (List.mem_filter.mp hp).1

theorem witnessedStar_sound {atoms : List Int} (h : witnessedStar m cfg H maxId a atoms = true) :
    WitnessedStar m cfg H maxId a atoms := by
  simp only [witnessedStar, Bool.and_eq_true, decide_eq_true_eq, List.any_eq_true] at h
  obtain ⟨⟨hle, p0, hp0, hex⟩, hanti⟩ := h
  obtain ⟨fl, hok, hpred, hl, hp0n⟩ := existsEmbAt_sound m cfg.pattern H hex
  refine ⟨hle, ⟨toFun fl, embOK_sound m _ H hok, ⟨p0, hp0n, ?_, by simp [toFun, hl]⟩, ?_⟩,
    antiFree_sound m cfg H a hanti⟩
  · have := (List.mem_filter.mp hp0).2
    simpa using this
  · rw [← witnessAtoms_eq m cfg H maxId hok]
    have : witnessAtoms cfg maxId fl = atoms := by simpa using hpred
    exact this.symm

theorem witnessedStarAny_complete {atoms : List Int} (h : WitnessedStar m cfg H maxId a atoms) :
    witnessedStarAny m cfg H maxId a = true := by
  obtain ⟨hle, ⟨f, hf, ⟨p0, hp0, hga, hfa⟩, _⟩, hanti⟩ := h
  simp only [witnessedStarAny, Bool.and_eq_true, decide_eq_true_eq, List.any_eq_true]
  refine ⟨⟨hle, p0, List.mem_filter.mpr ⟨hp0, by simpa using hga⟩, ?_⟩, antiFree_complete m cfg H a hanti⟩
  rw [← hfa]
  exact existsEmbAt_complete m cfg.pattern H hf hp0

end star

/-! ### the statement of C05 with true embeddings, and the soundness of its executable checker -/

/-- node `i` of the hierarchy is `Witnessed⋆` at atom `a` (for some atom list) -/
def WitnessedStarAt (m : Mapper) (t : Tree) (H : Graph) (maxId a : Int) (i : Nat) : Prop :=
  ∃ nd, t.nodes[i]? = some nd ∧ ∃ atoms, WitnessedStar m nd.cfg H maxId a atoms

/-- **the property C05, verbatim**: every entry names a configured group, lists sorted ids of atoms of
    the input molecule, is witnessed by a true embedding at an anchoring atom among its ids with no
    anti-pattern embedding there and no more specific group of the hierarchy witnessed there; every
    non-C non-H atom on which some root group is witnessed is listed. -/
structure SpecStar (m : Mapper) (t : Tree) (mol : Graph) (requireH : Bool) (out : List (String × List Int)) : Prop where
  entries : ∀ e ∈ out, ∃ (ni : Nat) (nd : TreeNode), t.nodes[ni]? = some nd ∧ nd.cfg.name = e.1 ∧
    e.2.Pairwise (· ≤ ·) ∧ (∀ i ∈ e.2, i ∈ mol.nodeIds) ∧
    ∃ a ∈ e.2, WitnessedStar m nd.cfg (queryH mol requireH) mol.maxId a e.2 ∧
      ∀ d, Desc t ni d → ¬ WitnessedStarAt m t (queryH mol requireH) mol.maxId a d
  covering : ∀ x ∈ candidates mol,
    (∃ r ∈ t.roots, WitnessedStarAt m t (queryH mol requireH) mol.maxId x r) → ∃ e ∈ out, x ∈ e.2

theorem isSorted_pairwise : ∀ (l : List Int), isSorted l = true → l.Pairwise (· ≤ ·) := by
  intro l
  induction l with
  | nil => intro _; exact List.Pairwise.nil
  | cons x xs ih =>
    intro h
    cases xs with
    | nil => simp
    | cons y ys =>
      simp only [isSorted, Bool.and_eq_true, decide_eq_true_eq] at h
      have hp := ih h.2
      refine List.Pairwise.cons ?_ hp
      intro z hz
      rcases List.mem_cons.mp hz with rfl | hz
      · exact h.1
      · have := (List.pairwise_cons.mp hp).1 z hz; omega

theorem desc_mem_of_closed {t : Tree} {ni : Nat} {D : List Nat} (h : descClosed t ni D = true) :
    ∀ p d, (p = ni ∨ p ∈ D) → Desc t p d → d ∈ D := by
  simp only [descClosed, Bool.and_eq_true, List.all_eq_true] at h
  have hch : ∀ p c, (p = ni ∨ p ∈ D) → c ∈ t.children p → c ∈ D := by
    intro p c hp hc
    rcases hp with rfl | hp
    · simpa using h.1 c hc
    · simpa using h.2 p hp c hc
  intro p d hp hd
  induction hd with
  | child hc => exact hch _ _ hp hc
  | step hc _ ih => exact ih (Or.inr (hch _ _ hp hc))

theorem cfg?_eq {t : Tree} {i : Nat} {cfg : FGConfig} (h : t.cfg? i = some cfg) :
    ∃ nd, t.nodes[i]? = some nd ∧ nd.cfg = cfg := by
  simp only [Tree.cfg?, Option.map_eq_some_iff] at h
  exact h

theorem entryOK_sound {m : Mapper} {t : Tree} {mol H : Graph} {maxId : Int} {e : String × List Int}
    (h : entryOK m t mol H maxId e = true) :
    ∃ (ni : Nat) (nd : TreeNode), t.nodes[ni]? = some nd ∧ nd.cfg.name = e.1 ∧
      e.2.Pairwise (· ≤ ·) ∧ (∀ i ∈ e.2, i ∈ mol.nodeIds) ∧
      ∃ a ∈ e.2, WitnessedStar m nd.cfg H maxId a e.2 ∧
        ∀ d, Desc t ni d → ¬ WitnessedStarAt m t H maxId a d := by
  simp only [entryOK, Bool.and_eq_true, List.any_eq_true] at h
  obtain ⟨⟨⟨_, hsorted⟩, hnodes⟩, na, hna, hdesc⟩ := h
  simp only [entryWitnesses, List.mem_flatMap] at hna
  obtain ⟨ni, hni, hmem⟩ := hna
  split at hmem
  · simp at hmem
  · rename_i cfg hcfg
    obtain ⟨a, haf, rfl⟩ := List.mem_map.mp hmem
    obtain ⟨ha, hw⟩ := List.mem_filter.mp haf
    obtain ⟨nd, hnd, rfl⟩ := cfg?_eq hcfg
    refine ⟨ni, nd, hnd, ?_, isSorted_pairwise _ hsorted, ?_, a, ha, witnessedStar_sound m _ H maxId a hw, ?_⟩
    · have := (List.mem_filter.mp hni).2
      rw [name_eq t hnd] at this
      simpa using this
    · intro i hi
      exact hasNode_iff.mp (List.all_eq_true.mp hnodes i hi)
    · intro d hd ⟨ndd, hndd, atoms, hwd⟩
      simp only [noDescWitnessed, Bool.and_eq_true, List.all_eq_true] at hdesc
      have hdD := desc_mem_of_closed hdesc.1 ni d (Or.inl rfl) hd
      have := hdesc.2 d hdD
      have hc : t.cfg? d = some ndd.cfg := by simp [Tree.cfg?, hndd]
      rw [hc] at this
      simp only [Bool.not_eq_true'] at this
      rw [witnessedStarAny_complete m ndd.cfg H maxId a hwd] at this
      cases this

/-- **C05.specCheck_sound** — the executable checker that the driver applies to implementation
    outputs implies the statement of the property with true embeddings -/
theorem specCheck_sound {m : Mapper} {t : Tree} {mol : Graph} {requireH : Bool} {out : List (String × List Int)}
    (h : specCheck m t mol requireH out = true) : SpecStar m t mol requireH out := by
  simp only [specCheck, Bool.and_eq_true, List.all_eq_true] at h
  refine ⟨fun e he => entryOK_sound (h.1 e he), ?_⟩
  intro x hx ⟨r, hr, nd, hnd, atoms, hw⟩
  have := h.2
  simp only [coverOK, List.all_eq_true, Bool.or_eq_true, Bool.not_eq_true', List.any_eq_true] at this
  rcases this x hx with ⟨e, he, hc⟩ | hno
  · exact ⟨e, he, by simpa using hc⟩
  · exfalso
    have hrw : rootWitnessed m t (queryGraph mol requireH).2 mol.maxId x = true := by
      simp only [rootWitnessed, List.any_eq_true]
      refine ⟨r, hr, ?_⟩
      have hc : t.cfg? r = some nd.cfg := by simp [Tree.cfg?, hnd]
      rw [hc]
      exact witnessedStarAny_complete m nd.cfg _ _ x hw
    rw [hrw] at hno
    cases hno

/-- the itemised failure list (written into replays) is empty exactly when the checker accepts -/
theorem entryFailures_nil_iff (m : Mapper) (t : Tree) (mol H : Graph) (maxId : Int) (k : Nat) (e : String × List Int) :
    entryFailures m t mol H maxId k e = [] ↔ entryOK m t mol H maxId e = true := by
  unfold entryFailures entryOK
  by_cases h1 : (t.named e.1).isEmpty = true
  · simp [h1]
  · by_cases h2 : isSorted e.2 = true <;> by_cases h3 : e.2.all mol.hasNode = true <;>
      by_cases h4 : (entryWitnesses m t H maxId e).any (noDescWitnessed m t H maxId) = true <;>
      by_cases h5 : (entryWitnesses m t H maxId e).isEmpty = true <;>
      simp [h1, h2, h3, h4, h5]
    all_goals
      (rw [List.isEmpty_iff] at h5; rw [h5] at h4; simp at h4)

/-! ### bridge: on the domain where the matcher is exact, `Witnessed (model matcher)` and `Witnessed⋆` agree -/

theorem perm_insertInt (x : Int) (l : List Int) : (insertInt x l).Perm (x :: l) := by
  induction l with
  | nil => simp [insertInt]
  | cons y ys ih =>
    simp only [insertInt]
    split
    · exact List.Perm.refl _
    · exact (List.Perm.cons y ih).trans (List.Perm.swap x y ys)

theorem perm_sortInts (l : List Int) : (sortInts l).Perm l := by
  induction l with
  | nil => exact List.Perm.refl _
  | cons x xs ih => exact (perm_insertInt x (sortInts xs)).trans (List.Perm.cons x ih)

theorem sortInts_perm {l₁ l₂ : List Int} (h : l₁.Perm l₂) : sortInts l₁ = sortInts l₂ := by
  apply List.Perm.eq_of_pairwise (le := (· ≤ ·)) _ (sortInts_sorted _) (sortInts_sorted _)
    ((perm_sortInts l₁).trans (h.trans (perm_sortInts l₂).symm))
  intro a b _ _ h1 h2
  exact Int.le_antisymm h1 h2

theorem dedup_of_nodup {α} [BEq α] [LawfulBEq α] : ∀ (l seen : List α), l.Nodup → (∀ x ∈ l, x ∉ seen) →
    dedup l seen = l := by
  intro l
  induction l with
  | nil => intro _ _ _; rfl
  | cons x xs ih =>
    intro seen hnd hdis
    have hx : seen.contains x = false := by
      rw [Bool.eq_false_iff]; intro hc
      exact hdis x List.mem_cons_self (List.contains_iff_mem.mp hc)
    simp only [dedup, hx, Bool.false_eq_true, if_false]
    rw [List.nodup_cons] at hnd
    congr 1
    apply ih _ hnd.2
    intro y hy hys
    rcases List.mem_cons.mp hys with rfl | hys
    · exact hnd.1 hy
    · exact hdis y (List.mem_cons_of_mem _ hy) hys

/-- if the reported mapping is the graph of `f` on the pattern's nodes (in any order), the sorted
    group ids computed by the code are the sorted group-atom images of `f` -/
theorem groupIds_of_perm {cfg : FGConfig} {maxId : Int} {f : Int → Int} {mp : List (Int × Int)}
    (hnd : cfg.pattern.nodeIds.Nodup)
    (hp : mp.Perm (cfg.pattern.nodeIds.map fun p => (f p, p))) :
    sortInts (groupIds cfg.groupAtoms maxId mp) = groupImage cfg maxId f := by
  have hL : (cfg.pattern.nodeIds.map fun p => (f p, p)).Nodup := by
    rw [List.Nodup, List.pairwise_map]
    exact List.Pairwise.imp (fun hne heq => hne (Prod.mk.inj heq).2) hnd
  have hmp : mp.Nodup := hp.nodup_iff.mpr hL
  unfold groupIds groupImage
  rw [dedup_of_nodup mp [] hmp (by simp)]
  apply sortInts_perm
  refine ((hp.filter _).map _).trans ?_
  rw [List.filter_map, List.map_map, List.filter_map, List.filter_filter]
  apply List.Perm.of_eq
  congr 1
  apply List.filter_congr
  intro p _
  simp [Function.comp, Bool.and_comm]

/-- C03 for one pattern on host `H`: anchored matching finds every embedding -/
def MatcherComplete (m : Mapper) (H P : Graph) : Prop :=
  ∀ (f : Int → Int) (p0 : Int), IsEmbedding m P H f → p0 ∈ P.nodeIds → (mapAnchored H (f p0) P p0 m).ok = true

/-- C04_partial for one pattern on host `H` (forests): a reported match is the graph of an embedding -/
def MatcherSound (m : Mapper) (H P : Graph) : Prop :=
  ∀ (a p0 : Int), p0 ∈ P.nodeIds → (mapAnchored H a P p0 m).ok = true →
    ∃ f, IsEmbedding m P H f ∧ f p0 = a ∧
      (mapAnchored H a P p0 m).mapping.Perm (P.nodeIds.map fun p => (f p, p))

theorem mem_mapSubgraph {H P : Graph} {m : Mapper} {a : Int} (hne : P.nodes.isEmpty = false)
    {r : Bool × List (Int × Int)} :
    r ∈ mapSubgraph H a P m ↔ ∃ pidx ∈ P.nodeIds, r = ((mapAnchored H a P pidx m).ok, (mapAnchored H a P pidx m).mapping) := by
  simp only [mapSubgraph, hne, Bool.false_eq_true, if_false, List.mem_map]
  constructor
  · rintro ⟨p, hp, rfl⟩; exact ⟨p, hp, rfl⟩
  · rintro ⟨p, hp, rfl⟩; exact ⟨p, hp, rfl⟩

section bridge
variable {m : Mapper} {cfg : FGConfig} {H : Graph} {maxId a : Int}

/-- **C05.bridge_acyclic**, first half: what the model matcher witnesses is witnessed by a true
    embedding, with exactly the same atoms — given C04 (soundness, proved on forests) for the pattern
    and C03 (completeness) for the anti-patterns -/
theorem bridge_sound (hnd : cfg.pattern.nodeIds.Nodup) (hpne : cfg.pattern.nodes.isEmpty = false)
    (hane : ∀ ap ∈ cfg.antiPatterns, ap.nodes.isEmpty = false)
    (hC04 : MatcherSound m H cfg.pattern) (hC03a : ∀ ap ∈ cfg.antiPatterns, MatcherComplete m H ap)
    {atoms : List Int} (h : Witnessed (modelMatcher m) cfg H maxId a atoms) :
    WitnessedStar m cfg H maxId a atoms := by
  obtain ⟨⟨r, hr, hok, hat, hin⟩, hanti⟩ := h
  obtain ⟨pidx, hpidx, rfl⟩ := (mem_mapSubgraph hpne).mp hr
  obtain ⟨f, hf, _, hperm⟩ := hC04 a pidx hpidx hok
  have hatoms : atoms = groupImage cfg maxId f := by rw [hat]; exact groupIds_of_perm hnd hperm
  have hin' : a ∈ groupImage cfg maxId f := hatoms ▸ hin
  simp only [groupImage] at hin'
  have hin'' := mem_sortInts.mp hin'
  simp only [List.mem_filter, List.mem_map, decide_eq_true_eq] at hin''
  obtain ⟨⟨p0, ⟨hp0, hga⟩, hfp⟩, hle⟩ := hin''
  refine ⟨hle, ⟨f, hf, ⟨p0, hp0, by simpa using hga, hfp⟩, hatoms⟩, ?_⟩
  intro ap hap ⟨f', hf', p, hp, hfa⟩
  have hok' := hC03a ap hap f' p hf' hp
  rw [hfa] at hok'
  have hmem : ((mapAnchored H a ap p m).ok, (mapAnchored H a ap p m).mapping) ∈ modelMatcher m H a ap :=
    (mem_mapSubgraph (hane ap hap)).mpr ⟨p, hp, rfl⟩
  have := hanti ap hap _ hmem
  simp only at this
  rw [hok'] at this
  cases this

/-- **C05.bridge_acyclic**, second half: what a true embedding witnesses, the model matcher witnesses
    too (for the atom list of the embedding it happens to return) — given C03 and C04 for the pattern
    and C04 for the anti-patterns -/
theorem bridge_complete (hnd : cfg.pattern.nodeIds.Nodup) (hpne : cfg.pattern.nodes.isEmpty = false)
    (hane : ∀ ap ∈ cfg.antiPatterns, ap.nodes.isEmpty = false)
    (hC03 : MatcherComplete m H cfg.pattern) (hC04 : MatcherSound m H cfg.pattern)
    (hC04a : ∀ ap ∈ cfg.antiPatterns, MatcherSound m H ap)
    {atoms : List Int} (h : WitnessedStar m cfg H maxId a atoms) :
    ∃ atoms', Witnessed (modelMatcher m) cfg H maxId a atoms' := by
  obtain ⟨hle, ⟨f, hf, ⟨p0, hp0, hga, hfa⟩, _⟩, hanti⟩ := h
  have hok := hC03 f p0 hf hp0
  rw [hfa] at hok
  obtain ⟨f', hf', hfa', hperm⟩ := hC04 a p0 hp0 hok
  refine ⟨groupImage cfg maxId f', ⟨⟨_, (mem_mapSubgraph hpne).mpr ⟨p0, hp0, rfl⟩, hok,
    (groupIds_of_perm hnd hperm).symm, ?_⟩, ?_⟩⟩
  · simp only [groupImage]
    rw [mem_sortInts]
    simp only [List.mem_filter, List.mem_map, decide_eq_true_eq]
    exact ⟨⟨p0, ⟨hp0, by simpa using hga⟩, hfa'⟩, hle⟩
  · intro ap hap r hr
    obtain ⟨pidx, hpidx, rfl⟩ := (mem_mapSubgraph (hane ap hap)).mp hr
    cases hokr : (mapAnchored H a ap pidx m).ok with
    | false => rfl
    | true =>
      exfalso
      obtain ⟨g, hg, hga', _⟩ := hC04a ap hap a pidx hpidx hokr
      exact hanti ap hap ⟨g, hg, pidx, hpidx, hga'⟩

end bridge


/-! ## Corollaries for the model of the code (`M := modelMatcher mapper`) -/

section model
variable (t : Tree) (g : Graph) (mapper : Mapper) (requireH : Bool)

theorem closed_queryH (hc : Closed g) : Closed (queryH g requireH) := by
  cases requireH
  · exact hc
  · exact closed_completion hc

/-- **C05.ids_are_input_atoms** for the model of the code, without further hypotheses than that the
    input is a graph (its adjacency mentions nodes only): `C12.fresh_ids` and the matcher's
    host-closure are proved above -/
theorem ids_are_input_atoms_model (hc : Closed g) :
    ∀ e ∈ getFunctionalGroups t g mapper requireH, ∀ i ∈ e.2, i ∈ g.nodeIds :=
  ids_are_input_atoms (modelMatcher mapper) t g requireH
    (modelMatcher_mapsIntoHost _ mapper (closed_queryH g requireH hc)) (fresh_ids g)

/-- the matcher is exact (C03 complete, C04 sound) on host `H` for every pattern and anti-pattern of
    the hierarchy — what C03 and C04_partial establish when host and patterns are forests -/
structure ExactOn (m : Mapper) (t : Tree) (H : Graph) : Prop where
  nodup : ∀ nd ∈ t.nodes, nd.cfg.pattern.nodeIds.Nodup
  pne : ∀ nd ∈ t.nodes, nd.cfg.pattern.nodes.isEmpty = false
  ane : ∀ nd ∈ t.nodes, ∀ ap ∈ nd.cfg.antiPatterns, ap.nodes.isEmpty = false
  c03 : ∀ nd ∈ t.nodes, MatcherComplete m H nd.cfg.pattern
  c04 : ∀ nd ∈ t.nodes, MatcherSound m H nd.cfg.pattern
  c03a : ∀ nd ∈ t.nodes, ∀ ap ∈ nd.cfg.antiPatterns, MatcherComplete m H ap
  c04a : ∀ nd ∈ t.nodes, ∀ ap ∈ nd.cfg.antiPatterns, MatcherSound m H ap

theorem witnessedAt_of_star {m : Mapper} {t : Tree} {H : Graph} {mx a : Int} (hex : ExactOn m t H) {i : Nat}
    (h : WitnessedStarAt m t H mx a i) : WitnessedAt (modelMatcher m) t H mx a i := by
  obtain ⟨nd, hnd, atoms, hw⟩ := h
  have hmem : nd ∈ t.nodes := List.mem_of_getElem? hnd
  exact ⟨nd, hnd, bridge_complete (hex.nodup nd hmem) (hex.pne nd hmem) (hex.ane nd hmem)
    (hex.c03 nd hmem) (hex.c04 nd hmem) (hex.c04a nd hmem) hw⟩

/-- **C05.bridge_acyclic** (capstone): wherever the matcher is exact — by C03 and C04_partial: molecule
    and patterns forests — the model's output satisfies the property verbatim (true embeddings),
    under the path-closure hypothesis of `most_specific`. -/
theorem bridge_acyclic (ht : t.topo = true) (hc : Closed g)
    (hex : ExactOn mapper t (queryH g requireH))
    (hcl : ∀ a ∈ candidates g, WitnessPathClosed (modelMatcher mapper) t (queryH g requireH) g.maxId a) :
    SpecStar mapper t g requireH (getFunctionalGroups t g mapper requireH) := by
  refine ⟨?_, ?_⟩
  · intro e he
    obtain ⟨ni, nd, hnd, hname, a, hae, hac, hw, hdesc⟩ :=
      most_specific (modelMatcher mapper) t g requireH ht hcl e he
    obtain ⟨_, _, _, _, hsorted, _⟩ := justified (modelMatcher mapper) t g requireH e he
    have hmem : nd ∈ t.nodes := List.mem_of_getElem? hnd
    refine ⟨ni, nd, hnd, hname.symm, hsorted, ids_are_input_atoms_model t g mapper requireH hc e he, a, hae,
      bridge_sound (hex.nodup nd hmem) (hex.pne nd hmem) (hex.ane nd hmem) (hex.c04 nd hmem)
        (hex.c03a nd hmem) hw, ?_⟩
    intro d hd hwd
    exact hdesc d hd (witnessedAt_of_star hex hwd)
  · intro x hx ⟨r, hr, hwr⟩
    exact covering (modelMatcher mapper) t g requireH x hx ⟨r, hr, witnessedAt_of_star hex hwr⟩

end model

/-! ## Non-vacuity: concrete molecules against the GENERATED default hierarchy (tests, by kernel evaluation) -/

/-- the hierarchy of the default configuration, from the table regenerated from the source -/
def defaultTree : Tree :=
  { nodes := Gen.C05.defaultTreeNodes.map fun r =>
      { cfg := { name := r.1, pattern := r.2.1, groupAtoms := r.2.2.1, antiPatterns := r.2.2.2.1,
                 maxPatternSize := r.2.2.2.2.1 }, children := r.2.2.2.2.2 },
    roots := Gen.C05.defaultTreeRoots }

def defaultMapper : Mapper := { wildcard := some "R", ignoreCase := true }

def mkMol (syms : List String) (bonds : List (Int × Int × Int)) : Graph :=
  bonds.foldl (fun g b => g.addEdge b.1 b.2.1 (.s b.2.2))
    ((List.range syms.length).zip syms |>.foldl (fun g x => g.addNode (x.1 : Int) { symbol := some x.2 }) {})

/-- acetic acid `CC(=O)O` as RDKit numbers it -/
def aceticAcid : Graph := mkMol ["C", "C", "O", "O"] [(0, 1, 2), (1, 2, 4), (1, 3, 2)]
/-- methyl acetate `COC(C)=O` -/
def methylAcetate : Graph := mkMol ["C", "O", "C", "C", "O"] [(0, 1, 2), (1, 2, 2), (2, 3, 2), (2, 4, 4)]
/-- methanol with offset ids 1, 2 (the witness of the repaired defect F9) -/
def methanolOffset : Graph :=
  (({} : Graph).addNode 1 { symbol := some "C" }).addNode 2 { symbol := some "O" } |>.addEdge 1 2 (.s 2)
/-- tetrahydrofuran `C1CCOC1` (known finding K3) -/
def thf : Graph := mkMol ["C", "C", "C", "O", "C"] [(0, 1, 2), (1, 2, 2), (2, 3, 2), (3, 4, 2), (4, 0, 2)]

/-- the generated default hierarchy is topologically numbered (hypothesis `ht` of the theorems) -/
theorem defaultTree_topo : defaultTree.topo = true := by decide +kernel

-- test (non-vacuity of `justified`/`covering`): acetic acid is a carboxylic acid on atoms 1,2,3
example : getFunctionalGroups defaultTree aceticAcid defaultMapper true = [("carboxylic_acid", [1, 2, 3])] := by
  decide +kernel
-- test: an ester
example : getFunctionalGroups defaultTree methylAcetate defaultMapper true = [("ester", [1, 2, 4])] := by
  decide +kernel
-- test: the executable statement with true embeddings accepts both (so `SpecStar` holds by `specCheck_sound`)
example : SpecStar defaultMapper defaultTree aceticAcid true [("carboxylic_acid", [1, 2, 3])] :=
  specCheck_sound (by decide +kernel)
example : SpecStar defaultMapper defaultTree methylAcetate true [("ester", [1, 2, 4])] :=
  specCheck_sound (by decide +kernel)
-- test: the specification is not trivially true — it rejects a wrong name, a missing entry and an added hydrogen id
example : specCheck defaultMapper defaultTree aceticAcid true [("ester", [1, 2, 3])] = false := by decide +kernel
example : specCheck defaultMapper defaultTree aceticAcid true [] = false := by decide +kernel
example : specCheck defaultMapper defaultTree methanolOffset true [("alcohol", [2, 3])] = false := by decide +kernel
-- test (ids_are_input_atoms with offset ids): methanol numbered 1,2 lists the oxygen only
example : getFunctionalGroups defaultTree methanolOffset defaultMapper true = [("alcohol", [2])] := by
  decide +kernel
example : closedB aceticAcid = true ∧ closedB methanolOffset = true := by decide +kernel
-- test (most specific): for acetic acid the parent groups alcohol / ester / carbonyl are witnessed but not reported
example : (defaultTree.nodes.find? (·.cfg.name == "alcohol")).map
    (fun nd => (isFunctionalGroup (queryH aceticAcid true) 3 nd.cfg defaultMapper (some 3)).1) = some true := by
  decide +kernel

/-- **K3, on the model**: tetrahydrofuran is reported as `epoxid`, and the statement with true
    embeddings rejects that output (the matcher's unsoundness on rings, C04/K2, leaks through) -/
theorem known_finding_K3_thf :
    getFunctionalGroups defaultTree thf defaultMapper true = [("epoxid", [0, 1, 2, 3, 4])] ∧
    specCheck defaultMapper defaultTree thf true [("epoxid", [0, 1, 2, 3, 4])] = false := by
  decide +kernel

/-- the hierarchy of the user configuration oxygen `O` / ether `ROR` / ester `RC(=O)OR`, from the generated table -/
def stuckTree : Tree :=
  { nodes := Gen.C05.stuckTreeNodes.map fun r =>
      { cfg := { name := r.1, pattern := r.2.1, groupAtoms := r.2.2.1, antiPatterns := r.2.2.2.1,
                 maxPatternSize := r.2.2.2.2.1 }, children := r.2.2.2.2.2 },
    roots := Gen.C05.stuckTreeRoots }

/-- methyl acetate written `O=C(C)OC` (the carbonyl oxygen is atom 0, so it is queried first) -/
def methylAcetate' : Graph := mkMol ["O", "C", "C", "O", "C"] [(0, 1, 4), (1, 2, 2), (1, 3, 2), (3, 4, 2)]

/-- **C05.most_specific is FALSE without `WitnessPathClosed`** (finding K4, user-supplied configurations):
    for the hierarchy oxygen > ether > ester the query lists the carbonyl oxygen of methyl acetate as
    `oxygen` although the more specific `ester` is witnessed on that very atom — `ether`, the only
    child of `oxygen`, is not witnessed there, so the greedy descent of `__find_best_node_rec` stops.
    The statement with true embeddings rejects the output with exactly that clause; molecule and
    patterns are acyclic, so this is independent of K2/K3.  (Kernel evaluation, generated table.) -/
theorem most_specific_false_witness :
    stuckTree.topo = true ∧
    getFunctionalGroups stuckTree methylAcetate' defaultMapper true = [("oxygen", [0]), ("ester", [0, 1, 3])] ∧
    specFailures defaultMapper stuckTree methylAcetate' true [("oxygen", [0]), ("ester", [0, 1, 3])]
      = [.moreSpecific 0] ∧
    pathClosedViolations (modelMatcher defaultMapper) stuckTree (queryH methylAcetate' true) 4 [0, 3]
      stuckTree.descendantsOf = [(0, 0, 2)] := by
  decide +kernel

/-- `specFailures` (replay diagnostics) and `specCheck` (verdict) agree -/
theorem specFailures_nil_iff (m : Mapper) (t : Tree) (mol : Graph) (requireH : Bool) (out : List (String × List Int)) :
    specFailures m t mol requireH out = [] ↔ specCheck m t mol requireH out = true := by
  simp only [specFailures, specCheck, List.append_eq_nil_iff, Bool.and_eq_true, List.all_eq_true]
  have hcov : coverFailures m t mol (queryGraph mol requireH).2 mol.maxId out = [] ↔
      coverOK m t mol (queryGraph mol requireH).2 mol.maxId out = true := by
    simp only [coverFailures, coverOK, List.filterMap_eq_nil_iff, List.all_eq_true]
    constructor
    · intro h x hx
      have := h x hx
      split at this
      · assumption
      · cases this
    · intro h x hx
      rw [if_pos (h x hx)]
  have henum : ∀ (l : List (String × List Int)) (k : Nat),
      ((enumFrom k l).flatMap fun ke => entryFailures m t mol (queryGraph mol requireH).2 mol.maxId ke.1 ke.2) = [] ↔
      ∀ e ∈ l, entryOK m t mol (queryGraph mol requireH).2 mol.maxId e = true := by
    intro l
    induction l with
    | nil => intro k; simp [enumFrom]
    | cons e es ih =>
      intro k
      simp only [enumFrom, List.flatMap_cons, List.append_eq_nil_iff, ih, entryFailures_nil_iff, List.mem_cons,
        forall_eq_or_imp]
  rw [henum, hcov]


end C05
