/-!
  C18 — walks and adjacency-power sums (own copy of the radius lemma; a reusable version is
  being written for C11 by another builder).

  Everything is about a function `A : Nat → Nat → Nat` read on indices `< n`, with sums over
  `List.range n`:  `(Σ_{k ≤ r} A^k) i j > 0  ↔  there is a walk of length ≤ r from i to j`.
  Core Lean only.
-/
namespace C18.Reach

/-- `Σ_{m < n} f m` -/
def sumR (n : Nat) (f : Nat → Nat) : Nat := ((List.range n).map f).sum

theorem sum_map_pos_iff {α} (f : α → Nat) : ∀ l : List α, 0 < (l.map f).sum ↔ ∃ a ∈ l, 0 < f a := by
  intro l
  induction l with
  | nil => simp
  | cons a l ih =>
    simp only [List.map_cons, List.sum_cons, List.mem_cons, exists_eq_or_imp]
    rw [← ih]
    omega

theorem sumR_pos_iff (n : Nat) (f : Nat → Nat) : 0 < sumR n f ↔ ∃ m, m < n ∧ 0 < f m := by
  unfold sumR
  rw [sum_map_pos_iff]
  simp [List.mem_range]

theorem sumR_congr (n : Nat) (f g : Nat → Nat) (h : ∀ m, m < n → f m = g m) : sumR n f = sumR n g := by
  unfold sumR
  congr 1
  apply List.map_congr_left
  intro m hm
  exact h m (List.mem_range.mp hm)

theorem mul_pos_iff' (a b : Nat) : 0 < a * b ↔ 0 < a ∧ 0 < b := by
  constructor
  · intro h
    refine ⟨Nat.pos_of_ne_zero ?_, Nat.pos_of_ne_zero ?_⟩
    · intro e; simp [e] at h
    · intro e; simp [e] at h
  · intro ⟨h1, h2⟩
    exact Nat.mul_pos h1 h2

/-- `(A^k) i j`: the matrix power by the recursion `A^(k+1) = A^k · A` -/
def pw (n : Nat) (A : Nat → Nat → Nat) : Nat → Nat → Nat → Nat
  | 0, i, j => if i = j then 1 else 0
  | k + 1, i, j => sumR n fun m => pw n A k i m * A m j

/-- `(Σ_{k ≤ r} A^k) i j` -/
def powsum (n : Nat) (A : Nat → Nat → Nat) : Nat → Nat → Nat → Nat
  | 0, i, j => pw n A 0 i j
  | r + 1, i, j => powsum n A r i j + pw n A (r + 1) i j

/-- a walk of length `k` from `i` to `j` whose steps `m → j'` have `A m j' > 0` and leave from
    nodes `m < n` -/
inductive Walk (n : Nat) (A : Nat → Nat → Nat) : Nat → Nat → Nat → Prop
  | refl (i : Nat) : Walk n A 0 i i
  | snoc {k i m j : Nat} : Walk n A k i m → m < n → 0 < A m j → Walk n A (k + 1) i j

/-- an entry of the `k`-th power is positive iff there is a walk of length exactly `k` -/
theorem pw_pos_iff_walk (n : Nat) (A : Nat → Nat → Nat) :
    ∀ (k i j : Nat), 0 < pw n A k i j ↔ Walk n A k i j := by
  intro k
  induction k with
  | zero =>
    intro i j
    simp only [pw]
    constructor
    · intro h
      by_cases e : i = j
      · subst e; exact Walk.refl i
      · simp [e] at h
    · intro h
      cases h
      simp
  | succ k ih =>
    intro i j
    simp only [pw]
    rw [sumR_pos_iff]
    constructor
    · rintro ⟨m, hm, hpos⟩
      obtain ⟨h1, h2⟩ := (mul_pos_iff' _ _).mp hpos
      exact Walk.snoc ((ih i m).mp h1) hm h2
    · intro h
      cases h with
      | snoc w hm hA => exact ⟨_, hm, (mul_pos_iff' _ _).mpr ⟨(ih i _).mpr w, hA⟩⟩

/-- **radius lemma**: an entry of `Σ_{k ≤ r} A^k` is positive iff there is a walk of length `≤ r` -/
theorem powsum_pos_iff_walk (n : Nat) (A : Nat → Nat → Nat) :
    ∀ (r i j : Nat), 0 < powsum n A r i j ↔ ∃ k, k ≤ r ∧ Walk n A k i j := by
  intro r
  induction r with
  | zero =>
    intro i j
    simp only [powsum]
    rw [pw_pos_iff_walk]
    constructor
    · intro h; exact ⟨0, Nat.le_refl _, h⟩
    · rintro ⟨k, hk, h⟩
      have : k = 0 := by omega
      subst this; exact h
  | succ r ih =>
    intro i j
    simp only [powsum]
    constructor
    · intro h
      have : 0 < powsum n A r i j ∨ 0 < pw n A (r + 1) i j := by omega
      rcases this with h | h
      · obtain ⟨k, hk, w⟩ := (ih i j).mp h
        exact ⟨k, by omega, w⟩
      · exact ⟨r + 1, Nat.le_refl _, (pw_pos_iff_walk n A _ i j).mp h⟩
    · rintro ⟨k, hk, w⟩
      by_cases hk' : k ≤ r
      · have := (ih i j).mpr ⟨k, hk', w⟩; omega
      · have : k = r + 1 := by omega
        subst this
        have := (pw_pos_iff_walk n A _ i j).mpr w; omega

/-! non-vacuity (tests): the path 0 → 1 → 2 -/
example : powsum 3 (fun i j => if (i, j) = (0, 1) ∨ (i, j) = (1, 2) then 1 else 0) 2 0 2 = 1 := by decide
example : powsum 3 (fun i j => if (i, j) = (0, 1) ∨ (i, j) = (1, 2) then 1 else 0) 1 0 2 = 0 := by decide

end C18.Reach
