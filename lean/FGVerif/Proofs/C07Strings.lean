import FGVerif.Proofs.C07
import FGVerif.Generated.C07
/-!
  C07 / C06 — from pairwise distinct pattern strings to an injective sort key.

  The repaired sort key `order_id()` = `(pattern_len, |V|, |E|, pattern_str)` ENDS in the pattern
  string, so two configurations with equal keys have equal pattern strings; on a list whose pattern
  strings are pairwise distinct the key is therefore injective (no two list entries tie), which is
  the hypothesis of `C06.env_independent_ofKey`.  Core Lean only.

  * `C07.key_eq_patternStr`                    `a.key = b.key → a.patternStr = b.patternStr`
  * `C07.key_injective_of_distinct_strings`    the key is injective on a list with pairwise distinct
                                               pattern strings
  * `C07.default_strings_distinct`             the generated default list has pairwise distinct pattern
                                               strings (kernel evaluation)
-/
namespace C07

theorem charToNat_injective : ∀ a b : Char, a.toNat = b.toNat → a = b := by
  intro a b h
  apply Char.ext
  apply UInt32.toNat_inj.mp
  exact h

theorem map_charToNat_injective : ∀ s t : List Char, s.map Char.toNat = t.map Char.toNat → s = t
  | [], [], _ => rfl
  | [], _ :: _, h => by simp at h
  | _ :: _, [], h => by simp at h
  | a :: s, b :: t, h => by
      simp only [List.map_cons, List.cons.injEq] at h
      rw [charToNat_injective a b h.1, map_charToNat_injective s t h.2]

/-- the sort key ends in the pattern string: equal keys have equal pattern strings -/
theorem key_eq_patternStr (a b : FGConfig) (h : a.key = b.key) : a.patternStr = b.patternStr := by
  unfold FGConfig.key at h
  simp only [List.cons_append, List.nil_append, List.cons.injEq] at h
  exact String.toList_inj.mp (map_charToNat_injective _ _ h.2.2.2)

/-- a function whose values on a list are pairwise distinct is injective on the list -/
theorem inj_on_of_nodup_map {α β} (f : α → β) :
    ∀ (l : List α), (l.map f).Nodup → ∀ a, a ∈ l → ∀ b, b ∈ l → f a = f b → a = b := by
  intro l
  induction l with
  | nil => intro _ a ha; simp at ha
  | cons x xs ih =>
    intro hnd a ha b hb hab
    rw [List.map_cons, List.nodup_cons] at hnd
    rcases List.mem_cons.mp ha with rfl | ha'
    · rcases List.mem_cons.mp hb with rfl | hb'
      · rfl
      · exact absurd (hab ▸ List.mem_map_of_mem hb') hnd.1
    · rcases List.mem_cons.mp hb with rfl | hb'
      · exact absurd (hab ▸ List.mem_map_of_mem ha') hnd.1
      · exact ih hnd.2 a ha' b hb' hab

/-- **C07.key_injective_of_distinct_strings** — the real key
    `(pattern_len, node count, edge count, pattern string)` is injective on a list of configurations
    with pairwise distinct pattern strings.  (`proj` lets the statement be used for any record that
    carries an `FGConfig`; take `proj := id` for `FGConfig` itself.) -/
theorem key_injective_of_distinct_strings {α} (proj : α → FGConfig) (l : List α)
    (h : (l.map fun a => (proj a).patternStr).Nodup) :
    ∀ a, a ∈ l → ∀ b, b ∈ l → (proj a).key = (proj b).key → a = b := by
  intro a ha b hb hk
  exact inj_on_of_nodup_map (fun a => (proj a).patternStr) l h a ha b hb (key_eq_patternStr _ _ hk)

/-- hence no two distinct entries tie under the key comparison `fgKlt` -/
theorem fgKlt_total_of_distinct_strings {α} (proj : α → FGConfig) (l : List α)
    (h : (l.map fun a => (proj a).patternStr).Nodup) :
    ∀ a, a ∈ l → ∀ b, b ∈ l → fgKlt (proj a) (proj b) = false → fgKlt (proj b) (proj a) = false → a = b := by
  intro a ha b hb h1 h2
  exact key_injective_of_distinct_strings proj l h a ha b hb (lexLt_total _ _ h1 h2)

/-- the hypothesis as an executable check -/
def distinctStrings (l : List FGConfig) : Bool := decide (l.map (·.patternStr)).Nodup

/-- **C07.default_strings_distinct** — the default list (regenerated from the source on every run)
    has pairwise distinct pattern strings. -/
theorem default_strings_distinct : (Gen.C07.configs.map (·.patternStr)).Nodup := by decide +kernel

/-- non-vacuity (test): two different configs with the same three counts are separated by the string -/
example : (Gen.C07.configs.any fun a => Gen.C07.configs.any fun b =>
    a.key != b.key && a.key.take 3 == b.key.take 3) = true := by decide +kernel

end C07
