import FGVerif.Proofs.C07Hasse
/-!
  C07 — the group hierarchy is the specificity order, however the list is given.

  Property theorems (about `Model/C07.lean`; order-theoretic core, independent of chemistry):

  * `C07.hasse`                  for every list of distinct items on which `sub` is transitive and
                                 every pair of `sub` strictly increases the sort key, `buildTree`
                                 yields: child links = exactly the covering pairs of `sub`,
                                 roots = exactly the minimal items, ancestor = `sub`, no item its
                                 own ancestor — for EVERY set-iteration order (`Env`);
  * `C07.permutation_invariant`  hence the parent/child relation and the set of roots are the same
                                 for every permutation of the list and every `Env`;
  * `C07.sub_irrefl`             irreflexivity of `sub` on the list follows from the hypotheses;
  * `C07.specCheck_sound`        the executable checker the harness applies to implementation
                                 outputs implies "links = covering pairs, roots = minimal positions".

  (`C07.key_strict` is in `Proofs/C07Key.lean`, `C07.default_instance` in `Proofs/C07Default.lean`.)
-/
namespace C07

/-! ### the declarative specification -/

/-- `b` covers `a` in the strict order `sub` restricted to the list -/
def Covers {α} (sub : α → α → Bool) (l : List α) (a b : α) : Prop :=
  a ∈ l ∧ b ∈ l ∧ sub a b = true ∧ ∀ c, c ∈ l → ¬ (sub a c = true ∧ sub c b = true)

/-- nothing in the list is below `a` -/
def Minimal {α} (sub : α → α → Bool) (l : List α) (a : α) : Prop :=
  a ∈ l ∧ ∀ c, c ∈ l → sub c a = false

/-- `(parent, child)` link of the built hierarchy, on items -/
def Tree.Link {α} (t : Tree α) (a b : α) : Prop :=
  ∃ i j, t.items[i]? = some a ∧ t.items[j]? = some b ∧ j ∈ ch t.st.nodes i

/-- the same link read off the child's `parents` list -/
def Tree.LinkByParents {α} (t : Tree α) (a b : α) : Prop :=
  ∃ i j, t.items[i]? = some a ∧ t.items[j]? = some b ∧ i ∈ pa t.st.nodes j

def Tree.IsRoot {α} (t : Tree α) (a : α) : Prop := ∃ i, t.items[i]? = some a ∧ i ∈ t.st.roots

/-- reachability along child links (positions) -/
inductive Reach (nodes : List Node) : Nat → Nat → Prop
  | base {i j} : j ∈ ch nodes i → Reach nodes i j
  | step {i j k} : j ∈ ch nodes i → Reach nodes j k → Reach nodes i k

/-- `a` is an ancestor of `b` -/
def Tree.Anc {α} (t : Tree α) (a b : α) : Prop :=
  ∃ i j, t.items[i]? = some a ∧ t.items[j]? = some b ∧ Reach t.st.nodes i j

/-- the sort key comparison is a strict weak order (every key function into a strict total order
    gives one) -/
structure KeyOrder {α} (klt : α → α → Bool) : Prop where
  asymm : ∀ a b, klt a b = true → klt b a = false
  negTrans : ∀ a b c, klt a b = false → klt b c = false → klt a c = false

/-- the hypotheses of `hasse` -/
structure HasseHyps {α} (c : Cfg α) (l : List α) : Prop where
  nodup : l.Nodup
  key : KeyOrder c.klt
  trans : ∀ a, a ∈ l → ∀ b, b ∈ l → ∀ d, d ∈ l → c.sub a b = true → c.sub b d = true → c.sub a d = true
  strict : ∀ a, a ∈ l → ∀ b, b ∈ l → c.sub a b = true → c.klt a b = true

/-! ### sorting: sortedness -/

theorem KeyOrder.irrefl {α} {klt : α → α → Bool} (h : KeyOrder klt) (a : α) : klt a a = false := by
  cases hv : klt a a with
  | false => rfl
  | true => have := h.asymm a a hv; rw [hv] at this; exact absurd this (by simp)

theorem insertAsc_sorted {α} {klt : α → α → Bool} (h : KeyOrder klt) (x : α) (l : List α)
    (hs : l.Pairwise (fun a b => klt b a = false)) :
    (insertAsc klt x l).Pairwise (fun a b => klt b a = false) := by
  induction l with
  | nil => simp [insertAsc]
  | cons y ys ih =>
    rw [List.pairwise_cons] at hs
    simp only [insertAsc]
    split
    · rename_i hyx
      rw [List.pairwise_cons]
      refine ⟨?_, ih hs.2⟩
      intro z hz
      rcases List.mem_cons.mp ((insertAsc_perm klt x ys).mem_iff.mp hz) with rfl | hz'
      · exact h.asymm _ _ hyx
      · exact hs.1 z hz'
    · rename_i hyx
      have hyx' : klt y x = false := by simpa using hyx
      rw [List.pairwise_cons]
      refine ⟨?_, List.pairwise_cons.mpr hs⟩
      intro z hz
      rcases List.mem_cons.mp hz with rfl | hz'
      · exact hyx'
      · exact h.negTrans z y x (hs.1 z hz') hyx'

theorem sortByKey_sorted {α} {klt : α → α → Bool} (h : KeyOrder klt) (l : List α) :
    (sortByKey klt l).Pairwise (fun a b => klt b a = false) := by
  induction l with
  | nil => simp [sortByKey]
  | cons x xs ih => simp only [sortByKey, List.foldr_cons]; exact insertAsc_sorted h x _ ih

/-! ### from items to positions -/

theorem relOn_true_iff {α} (r : α → α → Bool) (s : List α) (i j : Nat) :
    relOn r s i j = true ↔ i ≠ j ∧ ∃ a b, s[i]? = some a ∧ s[j]? = some b ∧ r a b = true := by
  unfold relOn
  cases hi : s[i]? with
  | none => simp
  | some a =>
    cases hj : s[j]? with
    | none => simp
    | some b => simp

/-- on the sorted list the relation on positions satisfies the hypotheses of the position-level
    proof -/
theorem relHyps_of {α} {c : Cfg α} {l : List α} (hy : HasseHyps c l) :
    RelHyps (relOn c.sub (sortByKey c.klt l)) := by
  have hperm := sortByKey_perm c.klt l
  have hsorted := sortByKey_sorted hy.key l
  have hmem : ∀ {i : Nat} {a : α}, (sortByKey c.klt l)[i]? = some a → a ∈ l := fun hh =>
    hperm.mem_iff.mp (List.mem_of_getElem? hh)
  constructor
  · intro i j hij
    obtain ⟨hne, a, b, ha, hb, hab⟩ := (relOn_true_iff _ _ _ _).mp hij
    have hk := hy.strict a (hmem ha) b (hmem hb) hab
    by_cases hlt : i < j
    · exact hlt
    · exfalso
      have hji : j < i := by omega
      obtain ⟨hi', hai⟩ := List.getElem?_eq_some_iff.mp ha
      obtain ⟨hj', hbj⟩ := List.getElem?_eq_some_iff.mp hb
      have := (List.pairwise_iff_getElem.mp hsorted) j i hj' hi' hji
      rw [hai, hbj, hk] at this
      exact absurd this (by simp)
  · intro i j k hij hjk
    obtain ⟨hne1, a, b, ha, hb, hab⟩ := (relOn_true_iff _ _ _ _).mp hij
    obtain ⟨hne2, b', d, hb', hd, hbd⟩ := (relOn_true_iff _ _ _ _).mp hjk
    have : b' = b := by rw [hb] at hb'; exact (Option.some.inj hb').symm
    subst this
    have had := hy.trans a (hmem ha) b' (hmem hb) d (hmem hd) hab hbd
    refine (relOn_true_iff _ _ _ _).mpr ⟨?_, a, d, ha, hd, had⟩
    intro e
    subst e
    rw [ha] at hd
    have : a = d := Option.some.inj hd
    subst this
    have h1 := hy.strict a (hmem ha) b' (hmem hb) hab
    have h2 := hy.strict b' (hmem hb) a (hmem ha) hbd
    have := hy.key.asymm _ _ h1
    rw [h2] at this
    exact absurd this (by simp)

/-- irreflexivity of `sub` on the list is a consequence of key strictness -/
theorem sub_irrefl {α} {c : Cfg α} {l : List α} (hy : HasseHyps c l) (a : α) (ha : a ∈ l) :
    c.sub a a = false := by
  cases hv : c.sub a a with
  | false => rfl
  | true =>
    have := hy.strict a ha a ha hv
    rw [hy.key.irrefl a] at this
    exact absurd this (by simp)

/-- reachability along child links = the relation itself, when the DAG is the Hasse diagram -/
theorem reach_iff {R : Nat → Nat → Bool} (h : RelHyps R) {n : Nat} {st : State} (inv : Inv R n st) :
    ∀ i j, Reach st.nodes i j ↔ (j < n ∧ R i j = true) := by
  intro i j
  constructor
  · intro hr
    induction hr with
    | base hc => obtain ⟨hj, hcov⟩ := (inv.chi _ _).mp hc; exact ⟨hj, hcov.1⟩
    | step hc _ ih =>
      obtain ⟨_, hcov⟩ := (inv.chi _ _).mp hc
      exact ⟨ih.1, h.trans _ _ _ hcov.1 ih.2⟩
  · rintro ⟨hj, hij⟩
    -- induction on the distance j - i
    suffices hs : ∀ d i, j - i ≤ d → R i j = true → Reach st.nodes i j from hs (j - i) i (Nat.le_refl _) hij
    intro d
    induction d with
    | zero => intro i hd hij; have := h.lt _ _ hij; omega
    | succ d ih =>
      intro i hd hij
      obtain ⟨k, hk, hcov, hkj⟩ := chain h n j i hj hij
      have hik : i < k := h.lt _ _ hcov.1
      have hc : k ∈ ch st.nodes i := (inv.chi i k).mpr ⟨hk, hcov⟩
      rcases hkj with rfl | hkj
      · exact Reach.base hc
      · exact Reach.step hc (ih k (by omega) hkj)

/-! ### the property -/

/-- **C07.hasse** — `build_config_tree_from_list` computes the Hasse diagram of `sub`, for every
    order of the list and every set-iteration order. -/
theorem hasse {α} (c : Cfg α) (env : Env) (henv : env.Valid) (l : List α) (hy : HasseHyps c l) :
    (∀ a b, (buildTree c env l).Link a b ↔ Covers c.sub l a b) ∧
    (∀ a, (buildTree c env l).IsRoot a ↔ Minimal c.sub l a) ∧
    (∀ a b, (buildTree c env l).Anc a b ↔ (a ∈ l ∧ b ∈ l ∧ c.sub a b = true)) ∧
    (∀ a, ¬ (buildTree c env l).Anc a a) ∧
    (∀ a b, (buildTree c env l).LinkByParents a b ↔ (buildTree c env l).Link a b) ∧
    (buildTree c env l).items.Perm l := by
  have hperm := sortByKey_perm c.klt l
  have hR := relHyps_of hy
  have inv := buildIdx_inv hR (relOn c.klt (sortByKey c.klt l)) env henv (sortByKey c.klt l).length
  have hnd : (sortByKey c.klt l).Nodup := hperm.nodup_iff.mpr hy.nodup
  -- abbreviations
  have hmem : ∀ {i : Nat} {a : α}, (sortByKey c.klt l)[i]? = some a → a ∈ l := fun hh =>
    hperm.mem_iff.mp (List.mem_of_getElem? hh)
  have hidx : ∀ {a : α}, a ∈ l → ∃ i, (sortByKey c.klt l)[i]? = some a := fun ha =>
    List.getElem?_of_mem (hperm.mem_iff.mpr ha)
  have hlt : ∀ {i : Nat} {a : α}, (sortByKey c.klt l)[i]? = some a → i < (sortByKey c.klt l).length := fun hh =>
    (List.getElem?_eq_some_iff.mp hh).1
  have hinj : ∀ {i j : Nat} {a : α}, (sortByKey c.klt l)[i]? = some a → (sortByKey c.klt l)[j]? = some a → i = j := by
    intro i j a hi hj
    exact (List.getElem?_inj (hlt hi) hnd).mp (hi.trans hj.symm)
  have hne : ∀ {a b : α}, a ∈ l → b ∈ l → c.sub a b = true → a ≠ b := by
    intro a b ha hb hab e
    subst e
    rw [sub_irrefl hy a ha] at hab
    exact absurd hab (by simp)
  -- the relation on positions, read on items
  have hrel : ∀ {i j : Nat} {a b : α}, (sortByKey c.klt l)[i]? = some a → (sortByKey c.klt l)[j]? = some b →
      (relOn c.sub (sortByKey c.klt l) i j = true ↔ c.sub a b = true) := by
    intro i j a b hi hj
    rw [relOn_true_iff]
    constructor
    · rintro ⟨_, a', b', ha', hb', hab⟩
      rw [hi] at ha'; rw [hj] at hb'
      cases ha'; cases hb'
      exact hab
    · intro hab
      refine ⟨?_, a, b, hi, hj, hab⟩
      intro e
      subst e
      rw [hi] at hj
      cases hj
      exact hne (hmem hi) (hmem hi) hab rfl
  have hcov : ∀ {i j : Nat} {a b : α}, (sortByKey c.klt l)[i]? = some a → (sortByKey c.klt l)[j]? = some b →
      (Cov (relOn c.sub (sortByKey c.klt l)) (sortByKey c.klt l).length i j ↔
        (c.sub a b = true ∧ ∀ d, d ∈ l → ¬ (c.sub a d = true ∧ c.sub d b = true))) := by
    intro i j a b hi hj
    unfold Cov
    rw [hrel hi hj]
    constructor
    · rintro ⟨hab, hno⟩
      refine ⟨hab, ?_⟩
      intro d hd hh
      obtain ⟨z, hz⟩ := hidx hd
      exact hno z (hlt hz) ⟨(hrel hi hz).mpr hh.1, (hrel hz hj).mpr hh.2⟩
    · rintro ⟨hab, hno⟩
      refine ⟨hab, ?_⟩
      intro z hz hh
      have hzs : (sortByKey c.klt l)[z]? = some (sortByKey c.klt l)[z] := List.getElem?_eq_getElem hz
      exact hno _ (hmem hzs) ⟨(hrel hi hzs).mp hh.1, (hrel hzs hj).mp hh.2⟩
  have hlink : ∀ a b, (buildTree c env l).Link a b ↔ Covers c.sub l a b := by
    intro a b
    constructor
    · rintro ⟨i, j, hi, hj, hc⟩
      obtain ⟨_, hcv⟩ := (inv.chi i j).mp hc
      obtain ⟨hab, hno⟩ := (hcov hi hj).mp hcv
      exact ⟨hmem hi, hmem hj, hab, hno⟩
    · rintro ⟨ha, hb, hab, hno⟩
      obtain ⟨i, hi⟩ := hidx ha
      obtain ⟨j, hj⟩ := hidx hb
      exact ⟨i, j, hi, hj, (inv.chi i j).mpr ⟨hlt hj, (hcov hi hj).mpr ⟨hab, hno⟩⟩⟩
  have hanc : ∀ a b, (buildTree c env l).Anc a b ↔ (a ∈ l ∧ b ∈ l ∧ c.sub a b = true) := by
    intro a b
    constructor
    · rintro ⟨i, j, hi, hj, hr⟩
      obtain ⟨_, hij⟩ := (reach_iff hR inv i j).mp hr
      exact ⟨hmem hi, hmem hj, (hrel hi hj).mp hij⟩
    · rintro ⟨ha, hb, hab⟩
      obtain ⟨i, hi⟩ := hidx ha
      obtain ⟨j, hj⟩ := hidx hb
      exact ⟨i, j, hi, hj, (reach_iff hR inv i j).mpr ⟨hlt hj, (hrel hi hj).mpr hab⟩⟩
  refine ⟨hlink, ?_, hanc, ?_, ?_, hperm⟩
  · intro a
    constructor
    · rintro ⟨i, hi, hr⟩
      obtain ⟨_, hmin⟩ := (inv.rts i).mp hr
      refine ⟨hmem hi, ?_⟩
      intro d hd
      obtain ⟨z, hz⟩ := hidx hd
      cases hv : c.sub d a with
      | false => rfl
      | true =>
        have := hmin z (hlt hz)
        rw [(hrel hz hi).mpr hv] at this
        exact absurd this (by simp)
    · rintro ⟨ha, hmin⟩
      obtain ⟨i, hi⟩ := hidx ha
      refine ⟨i, hi, (inv.rts i).mpr ⟨hlt hi, ?_⟩⟩
      intro z hz
      have hzs : (sortByKey c.klt l)[z]? = some (sortByKey c.klt l)[z] := List.getElem?_eq_getElem hz
      cases hv : relOn c.sub (sortByKey c.klt l) z i with
      | false => rfl
      | true =>
        have := (hrel hzs hi).mp hv
        rw [hmin _ (hmem hzs)] at this
        exact absurd this (by simp)
  · intro a hh
    obtain ⟨ha, _, haa⟩ := (hanc a a).mp hh
    rw [sub_irrefl hy a ha] at haa
    exact absurd haa (by simp)
  · intro a b
    constructor
    · rintro ⟨i, j, hi, hj, hp⟩; exact ⟨i, j, hi, hj, (inv.par i j).mp hp⟩
    · rintro ⟨i, j, hi, hj, hc⟩; exact ⟨i, j, hi, hj, (inv.par i j).mpr hc⟩

theorem HasseHyps.perm {α} {c : Cfg α} {l₁ l₂ : List α} (hp : l₁.Perm l₂) (hy : HasseHyps c l₁) :
    HasseHyps c l₂ where
  nodup := hp.nodup_iff.mp hy.nodup
  key := hy.key
  trans := fun a ha b hb d hd => hy.trans a (hp.mem_iff.mpr ha) b (hp.mem_iff.mpr hb) d (hp.mem_iff.mpr hd)
  strict := fun a ha b hb => hy.strict a (hp.mem_iff.mpr ha) b (hp.mem_iff.mpr hb)

/-- **C07.permutation_invariant** — the parent/child relation and the set of roots are the same
    for every permutation of the list and every set-iteration order. -/
theorem permutation_invariant {α} (c : Cfg α) (env₁ env₂ : Env) (h₁ : env₁.Valid) (h₂ : env₂.Valid)
    (l₁ l₂ : List α) (hp : l₁.Perm l₂) (hy : HasseHyps c l₁) :
    (∀ a b, (buildTree c env₁ l₁).Link a b ↔ (buildTree c env₂ l₂).Link a b) ∧
    (∀ a, (buildTree c env₁ l₁).IsRoot a ↔ (buildTree c env₂ l₂).IsRoot a) ∧
    (∀ a b, (buildTree c env₁ l₁).Anc a b ↔ (buildTree c env₂ l₂).Anc a b) := by
  obtain ⟨hl1, hr1, ha1, _, _, _⟩ := hasse c env₁ h₁ l₁ hy
  obtain ⟨hl2, hr2, ha2, _, _, _⟩ := hasse c env₂ h₂ l₂ (hy.perm hp)
  refine ⟨?_, ?_, ?_⟩
  · intro a b
    rw [hl1, hl2]
    unfold Covers
    simp only [hp.mem_iff]
  · intro a
    rw [hr1, hr2]
    unfold Minimal
    simp only [hp.mem_iff]
  · intro a b
    rw [ha1, ha2]
    simp only [hp.mem_iff]

/-! ### the concrete key order -/

theorem lexLt_irrefl : ∀ a : List Nat, lexLt a a = false
  | [] => rfl
  | x :: xs => by simp [lexLt, lexLt_irrefl xs]

theorem lexLt_asymm : ∀ a b : List Nat, lexLt a b = true → lexLt b a = false
  | [], [], h => by simp [lexLt] at h
  | [], _ :: _, _ => by simp [lexLt]
  | _ :: _, [], h => by simp [lexLt] at h
  | x :: xs, y :: ys, h => by
      simp only [lexLt, Bool.or_eq_true, decide_eq_true_eq, Bool.and_eq_true, beq_iff_eq] at h
      simp only [lexLt, Bool.or_eq_false_iff, decide_eq_false_iff_not, Bool.and_eq_false_imp, beq_iff_eq]
      rcases h with h | ⟨rfl, h⟩
      · exact ⟨by omega, fun e => by omega⟩
      · exact ⟨by omega, fun _ => lexLt_asymm xs ys h⟩

theorem lexLt_negTrans : ∀ a b c : List Nat, lexLt a b = false → lexLt b c = false → lexLt a c = false
  | [], [], c, _, h2 => h2
  | [], _ :: _, _, h1, _ => by simp [lexLt] at h1
  | _ :: _, [], [], _, _ => by simp [lexLt]
  | _ :: _, [], _ :: _, _, h2 => by simp [lexLt] at h2
  | _ :: _, _ :: _, [], _, _ => by simp [lexLt]
  | x :: xs, y :: ys, z :: zs, h1, h2 => by
      simp only [lexLt, Bool.or_eq_false_iff, decide_eq_false_iff_not, Bool.and_eq_false_imp, beq_iff_eq] at h1 h2 ⊢
      refine ⟨by omega, ?_⟩
      intro e
      subst e
      have hxy : x = y := by omega
      subst hxy
      exact lexLt_negTrans xs ys zs (h1.2 rfl) (h2.2 rfl)

theorem lexLt_total : ∀ a b : List Nat, lexLt a b = false → lexLt b a = false → a = b
  | [], [], _, _ => rfl
  | [], _ :: _, h, _ => by simp [lexLt] at h
  | _ :: _, [], _, h => by simp [lexLt] at h
  | x :: xs, y :: ys, h1, h2 => by
      simp only [lexLt, Bool.or_eq_false_iff, decide_eq_false_iff_not, Bool.and_eq_false_imp, beq_iff_eq] at h1 h2
      have hxy : x = y := by omega
      subst hxy
      rw [lexLt_total xs ys (h1.2 rfl) (h2.2 rfl)]

/-- every key function into tuples of naturals compared lexicographically gives a `KeyOrder` -/
theorem keyOrder_ofKey {α} (sub : α → α → Bool) (key : α → List Nat) :
    KeyOrder (Cfg.ofKey sub key lexLt).klt where
  asymm := fun a b h => lexLt_asymm (key a) (key b) h
  negTrans := fun a b c h1 h2 => lexLt_negTrans (key a) (key b) (key c) h1 h2

/-- the iteration orders the driver uses are permutations (so the theorems apply to them) -/
theorem ofSeed_valid (s : Nat) : (Env.ofSeed s).Valid := by
  intro k l
  simp only [Env.ofSeed]
  split
  · exact List.Perm.refl _
  · split
    · exact List.reverse_perm l
    · exact sortByKey_perm _ l

/-! ### the executable checker is sound -/

theorem mem_sortPairsN_ins (le : Nat × Nat → Nat × Nat → Bool) (x y : Nat × Nat) (l : List (Nat × Nat)) :
    y ∈ sortPairsN.ins le x l ↔ y = x ∨ y ∈ l := by
  induction l with
  | nil => simp [sortPairsN.ins]
  | cons z zs ih =>
    simp only [sortPairsN.ins]
    split
    · split
      · rename_i _ hxz
        have : x = z := by simpa using hxz
        subst this
        simp
      · simp
    · simp only [List.mem_cons, ih]
      constructor
      · rintro (h | h | h)
        · exact Or.inr (Or.inl h)
        · exact Or.inl h
        · exact Or.inr (Or.inr h)
      · rintro (h | h | h)
        · exact Or.inr (Or.inl h)
        · exact Or.inl h
        · exact Or.inr (Or.inr h)

theorem mem_sortPairsN (y : Nat × Nat) (l : List (Nat × Nat)) : y ∈ sortPairsN l ↔ y ∈ l := by
  unfold sortPairsN
  induction l with
  | nil => simp
  | cons x xs ih => simp only [List.foldr_cons, mem_sortPairsN_ins, ih, List.mem_cons]

theorem mem_sortNats_ins (x y : Nat) (l : List Nat) : y ∈ sortNats.ins x l ↔ y = x ∨ y ∈ l := by
  induction l with
  | nil => simp [sortNats.ins]
  | cons z zs ih =>
    simp only [sortNats.ins]
    split
    · split
      · rename_i _ hxz
        have : x = z := by simpa using hxz
        subst this
        simp
      · simp
    · simp only [List.mem_cons, ih]
      constructor
      · rintro (h | h | h)
        · exact Or.inr (Or.inl h)
        · exact Or.inl h
        · exact Or.inr (Or.inr h)
      · rintro (h | h | h)
        · exact Or.inr (Or.inl h)
        · exact Or.inl h
        · exact Or.inr (Or.inr h)

theorem mem_sortNats (y : Nat) (l : List Nat) : y ∈ sortNats l ↔ y ∈ l := by
  unfold sortNats
  induction l with
  | nil => simp
  | cons x xs ih => simp only [List.foldr_cons, mem_sortNats_ins, ih, List.mem_cons]

theorem mem_coverPairs (n : Nat) (r : Nat → Nat → Bool) (i j : Nat) :
    (i, j) ∈ coverPairs n r ↔
      (i < n ∧ j < n ∧ r i j = true ∧ ∀ z, z < n → ¬ (r i z = true ∧ r z j = true)) := by
  unfold coverPairs
  simp only [List.mem_flatMap, List.mem_filterMap, List.mem_range]
  constructor
  · rintro ⟨a, ha, b, hb, hab⟩
    split at hab
    · rename_i hc
      simp only [Option.some.injEq, Prod.mk.injEq] at hab
      obtain ⟨rfl, rfl⟩ := hab
      simp only [Bool.and_eq_true, Bool.not_eq_true', List.any_eq_false, List.mem_range] at hc
      refine ⟨ha, hb, hc.1, ?_⟩
      intro z hz hh
      have := hc.2 z hz
      rw [hh.1, hh.2] at this
      exact absurd this (by simp)
    · simp at hab
  · rintro ⟨hi, hj, hij, hno⟩
    refine ⟨i, hi, j, hj, ?_⟩
    have : (r i j && !(List.range n).any fun z => r i z && r z j) = true := by
      simp only [Bool.and_eq_true, Bool.not_eq_true', List.any_eq_false, List.mem_range]
      refine ⟨hij, ?_⟩
      intro z hz
      have := hno z hz
      cases h1 : r i z <;> cases h2 : r z j <;> simp [h1, h2] at this ⊢
    simp [this]

theorem mem_minimalIdx (n : Nat) (r : Nat → Nat → Bool) (j : Nat) :
    j ∈ minimalIdx n r ↔ (j < n ∧ ∀ i, i < n → r i j = false) := by
  unfold minimalIdx
  simp only [List.mem_filter, List.mem_range, Bool.not_eq_true', List.any_eq_false]
  constructor
  · rintro ⟨hj, h⟩
    refine ⟨hj, ?_⟩
    intro i hi
    have := h i hi
    simpa using this
  · rintro ⟨hj, h⟩
    refine ⟨hj, ?_⟩
    intro i hi
    simp [h i hi]

/-- **C07.specCheck_sound** — what the executable specification accepts *is* the Hasse diagram:
    the observed links are exactly the covering pairs of `r` on `0 … n-1` and the observed roots
    exactly the minimal positions.  (The checker's third clause, acyclicity of the observed links, is
    an additional run-time test whose soundness is not part of this statement; for a transitive
    irreflexive `r` it follows from the first clause.) -/
theorem specCheck_sound (n : Nat) (r : Nat → Nat → Bool) (links : List (Nat × Nat)) (roots : List Nat)
    (h : specCheck n r links roots = true) :
    (∀ i j, (i, j) ∈ links ↔
      (i < n ∧ j < n ∧ r i j = true ∧ ∀ z, z < n → ¬ (r i z = true ∧ r z j = true))) ∧
    (∀ j, j ∈ roots ↔ (j < n ∧ ∀ i, i < n → r i j = false)) := by
  unfold specCheck at h
  simp only [Bool.and_eq_true, beq_iff_eq] at h
  obtain ⟨⟨h1, h2⟩, _⟩ := h
  constructor
  · intro i j
    rw [← mem_sortPairsN, h1, mem_sortPairsN, mem_coverPairs]
  · intro j
    rw [← mem_sortNats, h2, mem_sortNats, mem_minimalIdx]

/-! ### non-vacuity (tests): carbonyl < {ketone, acid chloride} < ester-like item, and a chain/ring pair -/

/-- items 0..4 with keys that are *not* in list order; `sub` = divisibility-like table -/
def exSub : Nat → Nat → Bool := fun a b =>
  (a, b) ∈ [(0, 1), (0, 2), (0, 3), (1, 3), (2, 3), (4, 2), (4, 3)]
def exKey : Nat → List Nat := fun a => [[2, 2, 1], [3, 4, 3], [3, 4, 3, 7], [4, 5, 4], [1, 1, 0]].getD a []
def exCfg : Cfg Nat := Cfg.ofKey exSub exKey lexLt

example : HasseHyps exCfg [3, 1, 4, 0, 2] where
  nodup := by decide
  key := keyOrder_ofKey _ _
  trans := by decide
  strict := by decide

/-- test: the built links are the covering pairs `0→1, 0→2, 1→3, 2→3, 4→2` (not `0→3`, `4→3`),
    under two different set-iteration orders and two list orders -/
example : (buildTree exCfg (Env.ofSeed 0) [3, 1, 4, 0, 2]).items = [4, 0, 1, 2, 3] := by decide
example : ((buildTree exCfg (Env.ofSeed 0) [3, 1, 4, 0, 2]).st.links,
           (buildTree exCfg (Env.ofSeed 0) [3, 1, 4, 0, 2]).st.roots) =
          ([(0, 3), (1, 3), (1, 2), (2, 4), (3, 4)], [0, 1]) := by decide
example : (buildTree exCfg (Env.ofSeed 1) [0, 1, 2, 3, 4]).st.links =
          (buildTree exCfg (Env.ofSeed 0) [3, 1, 4, 0, 2]).st.links := by decide

end C07
