import FGVerif.Proofs.C13
/-!
  C13 — node substitution for parents whose ids `0..n-1` appear in ANY node order (`inDomainAny`).

  `relabel_graph` / `nx.relabel_nodes` keep the node order and turn ids into ranks, so a graph that was
  built in an arbitrary insertion order and then relabelled has contiguous ids in shuffled node order.
  The edge-level development (`Proofs/C13Edges*.lean`, `E.Dom0`) only needs the ids to be a permutation
  of `0..n-1` (`E.Dom0.cg : g.nodeIds.Perm (upto n)`); this file adds the node-level half from the same
  library (no use of the ordered proof in `C13Nodes.lean`) and states the property theorems on the full
  domain:

  * `C13.replace_exact_any`      `Spec g x sub anchors (replaceNode g x sub anchors)` — EVERY clause of the
                                 specification, verbatim: graph kind; the node list (all other parent nodes in
                                 the parent's node order with attributes under `u ↦ u / u − 1`, then the
                                 sub-pattern's nodes in its order under `j ↦ n − 1 + j`); the bond labels between
                                 any two names (`specLabels`, where the k-th incident bond is counted in the
                                 order `incSpec`, which is itself defined from the parent's node order)
  * `C13.replace_labels_any`, `C13.compose_incident_order_any`   the label lists, in key order
  * `C13.replace_wf_any`, `C13.replace_contiguousAny`, `C13.replace_ids_perm`   the result is well-formed and its
                                 ids are `0..n+m-2` in some order, so the step iterates on the full domain
  * `C13.replace_empty_any`, `C13.specCheck_sound_any`, `C13.replace_specCheck_any`
  * `C13.inDomainAny_of_inDomain`  the ordered domain is a special case

  `replaceNode` is the repaired model (`idx_offset = max id + 1`); on `inDomainAny` that offset is `len(graph.nodes)`
  (`C13.offset_eq_of_inDomainAny`, `C13.replaceNode_eq_len`, Proofs/C13Offset.lean), the lemmas in `namespace E` below are
  about `replaceNodeLen` and are transferred through that equation.  Arbitrary ids: Proofs/C13Ids.lean.

  What depends on node order is therefore only (a) the *order* of the result's node list (stated by
  `Spec.nodes`: it is inherited from the parent) and with it `contiguous` (ids in node order:
  `C13.replace_contiguous`, ordered parents only; witness `order_witness` below), and (b) the incident order
  `incSpec`, declaratively a function of the parent's node order.  Node set with attributes, bond labels for
  all pairs, well-formedness and contiguity as a set hold without the order assumption.
-/
set_option linter.unusedSimpArgs false
namespace C13
open Graph

namespace E

variable {g : Graph} {x : Int} {sub : Graph} {anchors : List Nat}

theorem contiguousAny_of_perm {g : Graph} {N : Nat} (h : g.nodeIds.Perm (upto N)) : contiguousAny g = true := by
  have hlen : g.nodes.length = N := by
    have := h.length_eq
    simpa [Graph.nodeIds, upto] using this
  unfold contiguousAny
  rw [beq_iff_eq, hlen]
  exact List.Perm.eq_of_pairwise (le := (· ≤ ·)) (fun a b _ _ h1 h2 => by omega)
    (sortAsc_sortedLE _) ((upto_pairwise N).imp (fun h => by omega)) ((sortAsc_perm _).trans h)

theorem dom_of_inDomainAny (h : inDomainAny g x sub anchors = true) : Dom g x sub anchors := by
  unfold inDomainAny at h
  simp only [Bool.and_eq_true, Bool.not_eq_true', beq_iff_eq] at h
  obtain ⟨⟨⟨⟨⟨⟨⟨h1, h2⟩, h3⟩, h4⟩, h5⟩, h6⟩, h7⟩, h8⟩ := h
  refine ⟨⟨WF_of_wf h1, perm_of_contiguousAny h2, (hasNode_iff g x).mp h3, WF_of_wf h5,
    perm_of_contiguousAny h6⟩, ?_, ?_, h8⟩
  · intro hm
    have := (hasEdge_iff g x x).mpr hm
    rw [this] at h4; cases h4
  · intro hm i
    unfold anchorsOk at h7
    simp only [Bool.or_eq_true, Bool.and_eq_true, Bool.not_eq_true', List.all_eq_true, decide_eq_true_eq,
      List.isEmpty_iff] at h7
    rcases h7 with h7 | h7
    · rw [h7] at hm; simp at hm
    · apply anchorAt_lt _ h7.2
      intro e; rw [e] at h7; simp at h7

theorem ren_unren (x a : Int) : ren x (unren x a) = a := by
  unfold ren unren
  by_cases h : a < x
  · simp [h]
  · have : ¬ (a + 1 < x) := by omega
    simp only [h, this, if_false]; omega

theorem unren_ren' {x u : Int} (h : u ≠ x) : unren x (ren x u) = u := by
  unfold unren ren
  by_cases h1 : u < x
  · simp [h1]
  · have h2 : ¬ (u - 1 < x) := by omega
    simp only [h1, h2, if_false]; omega

/-- the node list before the renumbering: the parent's other nodes in the parent's order, then the shifted
    sub-pattern's nodes -/
theorem Dom.G3_nodes (d : Dom g x sub anchors) :
    ((G2 g x sub anchors).removeNode x).nodes = g.nodes.filter (·.1 != x) ++ (hOf g sub).nodes := by
  have h2 : (G2 g x sub anchors).nodes = g.nodes ++ (hOf g sub).nodes := by
    unfold G2; rw [addNewFrom_nodes d.TT_ends]; exact compose_nodes d.composeOk
  show (G2 g x sub anchors).nodes.filter (·.1 != x) = _
  rw [h2, List.filter_append]
  congr 1
  apply List.filter_eq_self.mpr
  intro p hp
  have hm : p.1 ∈ (hOf g sub).nodeIds := List.mem_map.mpr ⟨p, hp, rfl⟩
  rw [d.h_nodeIds.mem_iff, mem_map_add, mem_upto] at hm
  have := d.x_range
  simp; omega

/-- on the nodes that are left the renumbering is `ren x` -/
theorem Dom.mapId_eq (d : Dom g x sub anchors) {u : Int} (hu : u ∈ ((G2 g x sub anchors).removeNode x).nodeIds) :
    mapId (relabelMapping ((G2 g x sub anchors).removeNode x) 0) u = ren x u := by
  have hne : u ≠ x := by
    have := d.G3_nodeIds.mem_iff.mp hu
    simpa using (List.mem_filter.mp this).2
  exact (d.inverts u hu (ren x u)).mpr (unren_ren' hne).symm

/-- the node list of the result, for a parent in any node order -/
theorem Dom.nodes (d : Dom g x sub anchors) : (replaceNodeLen g x sub anchors).nodes = specNodes g x sub := by
  rw [replaceNodeLen_eq]
  unfold relabelGraph
  rw [relabelCopy_nodes d.w3]
  have hmap : ∀ p ∈ ((G2 g x sub anchors).removeNode x).nodes,
      (mapId (relabelMapping ((G2 g x sub anchors).removeNode x) 0) p.1, p.2) = (ren x p.1, p.2) := by
    intro p hp
    rw [d.mapId_eq (List.mem_map.mpr ⟨p, hp, rfl⟩)]
  rw [List.map_congr_left hmap, d.G3_nodes, List.map_append]
  unfold specNodes
  congr 1
  show ((shiftGraph sub (g.nodes.length : Int)).nodes.map fun p => (ren x p.1, p.2)) = _
  unfold shiftGraph
  simp only [List.map_map]
  apply List.map_congr_left
  intro p hp
  have hm : p.1 ∈ sub.nodeIds := List.mem_map.mpr ⟨p, hp, rfl⟩
  rw [d.s_mem] at hm
  have := d.x_range
  simp only [Function.comp, ren]
  have : ¬ (p.1 + (g.nodes.length : Int) < x) := by omega
  simp only [this, if_false]
  congr 1; omega

/-- the ids of the result are `0..n+m-2` in some order -/
theorem Dom.result_ids (d : Dom g x sub anchors) :
    (replaceNodeLen g x sub anchors).nodeIds.Perm (upto (g.nodes.length + sub.nodes.length - 1)) := by
  have h1 : (replaceNodeLen g x sub anchors).nodeIds = ((G2 g x sub anchors).removeNode x).nodeIds.map (ren x) := by
    rw [replaceNodeLen_eq]
    unfold relabelGraph Graph.nodeIds
    rw [relabelCopy_nodes d.w3, List.map_map, List.map_map]
    apply List.map_congr_left
    intro p hp
    exact d.mapId_eq (List.mem_map.mpr ⟨p, hp, rfl⟩)
  rw [h1]
  have hx := d.x_range
  have hp := d.G3_nodeIds.map (ren x)
  rw [filter_upto_lt _ x hx.1 (by simp only [Int.natCast_add]; omega), List.map_map] at hp
  refine hp.trans (List.Perm.of_eq ?_)
  unfold upto
  apply List.map_congr_left
  intro i _
  exact ren_unren x i

end E

/-! ### property theorems on the full domain -/

/-- the ordered domain is a special case of the full one -/
theorem inDomainAny_of_inDomain (g : Graph) (x : Int) (sub : Graph) (anchors : List Nat)
    (h : inDomain g x sub anchors = true) : inDomainAny g x sub anchors = true := by
  have hc : ∀ k : Graph, contiguous k = true → contiguousAny k = true := by
    intro k hk
    unfold contiguous at hk
    exact E.contiguousAny_of_perm (N := k.nodes.length) (List.Perm.of_eq (beq_iff_eq.mp hk))
  unfold inDomain at h
  unfold inDomainAny
  simp only [Bool.and_eq_true] at h ⊢
  obtain ⟨⟨⟨⟨⟨⟨⟨h1, h2⟩, h3⟩, h4⟩, h5⟩, h6⟩, h7⟩, h8⟩ := h
  exact ⟨⟨⟨⟨⟨⟨⟨h1, hc g h2⟩, h3⟩, h4⟩, h5⟩, hc sub h6⟩, h7⟩, h8⟩

/-- T3 on the full domain: the incident order after the composition step is `incSpec` -/
theorem compose_incident_order_any (g : Graph) (x : Int) (sub : Graph) (anchors : List Nat)
    (hd : inDomainAny g x sub anchors = true) : incOfCompose g x sub = incSpec g x :=
  (E.dom_of_inDomainAny hd).toDom0.incident_order

/-- T2+T3 on the full domain: exactly the specified bond labels (in key order) between any two new names -/
theorem replace_labels_any (g : Graph) (x : Int) (sub : Graph) (anchors : List Nat)
    (hd : inDomainAny g x sub anchors = true) (a b : Int) :
    labelsBetween (replaceNode g x sub anchors) a b = specLabels g x sub anchors a b := by
  rw [replaceNode_eq_len g x sub anchors hd, (E.dom_of_inDomainAny hd).labels a b, specLabels_eq,
    (E.dom_of_inDomainAny hd).toDom0.incident_order]

/-- **`replace_node` meets its specification for every parent on ids `0..n-1` in any node order** -/
theorem replace_exact_any (g : Graph) (x : Int) (sub : Graph) (anchors : List Nat)
    (hd : inDomainAny g x sub anchors = true) : Spec g x sub anchors (replaceNode g x sub anchors) where
  multi := replaceNode_multi g x sub anchors
  nodes := by rw [replaceNode_eq_len g x sub anchors hd]; exact (E.dom_of_inDomainAny hd).nodes
  labels := fun a b => by rw [replace_labels_any g x sub anchors hd a b]

theorem replace_wf_any (g : Graph) (x : Int) (sub : Graph) (anchors : List Nat)
    (hd : inDomainAny g x sub anchors = true) : wf (replaceNode g x sub anchors) = true := by
  rw [replaceNode_eq_len g x sub anchors hd]; exact E.wf_of_WF (E.dom_of_inDomainAny hd).w4

/-- the ids of the result are `0..n+m-2` in some order … -/
theorem replace_ids_perm (g : Graph) (x : Int) (sub : Graph) (anchors : List Nat)
    (hd : inDomainAny g x sub anchors = true) :
    (replaceNode g x sub anchors).nodeIds.Perm (E.upto (g.nodes.length + sub.nodes.length - 1)) := by
  rw [replaceNode_eq_len g x sub anchors hd]; exact (E.dom_of_inDomainAny hd).result_ids

/-- … so the result is in the full domain again (the step iterates) -/
theorem replace_contiguousAny (g : Graph) (x : Int) (sub : Graph) (anchors : List Nat)
    (hd : inDomainAny g x sub anchors = true) : contiguousAny (replaceNode g x sub anchors) = true :=
  E.contiguousAny_of_perm (replace_ids_perm g x sub anchors hd)

/-- an empty sub-pattern deletes the node together with its bonds (any node order) -/
theorem replace_empty_any (g : Graph) (x : Int) (sub : Graph) (anchors : List Nat)
    (hd : inDomainAny g x sub anchors = true) (he : sub.nodes = []) :
    (replaceNode g x sub anchors).nodes = (g.nodes.filter (·.1 != x)).map (fun p => (ren x p.1, p.2)) ∧
    ∀ a b : Int, labelsBetween (replaceNode g x sub anchors) a b =
      if a < (g.nodes.length : Int) - 1 ∧ b < (g.nodes.length : Int) - 1
      then labelsBetween g (unren x a) (unren x b) else [] := by
  constructor
  · rw [(replace_exact_any g x sub anchors hd).nodes]; simp [specNodes, he]
  · intro a b
    rw [replace_labels_any g x sub anchors hd a b]
    unfold specLabels
    simp only [he, List.isEmpty_nil, if_true]
    split
    · rfl
    · split
      · have hs : wf sub = true := by
          simp only [inDomainAny, Bool.and_eq_true] at hd; exact hd.1.1.1.2
        have hrows : sub.adj.map (·.1) = sub.nodeIds := by
          simp only [wf, Bool.and_eq_true] at hs; exact eq_of_beq hs.1.1
        have : sub.adj = [] := by
          have : sub.adj.map (·.1) = [] := by rw [hrows]; simp [Graph.nodeIds, he]
          simpa using this
        simp [labelsBetween, Graph.edgeData, Graph.adjRow, this]
      · rfl

/-- the executable checker the driver runs on implementation outputs implies `Spec` on the full domain -/
theorem specCheck_sound_any (g : Graph) (x : Int) (sub : Graph) (anchors : List Nat) (out : Graph)
    (hd : inDomainAny g x sub anchors = true) (h : specCheck g x sub anchors out = true) :
    Spec g x sub anchors out := by
  simp only [specCheck, Bool.and_eq_true, List.all_eq_true] at h
  obtain ⟨⟨⟨hm, hn⟩, hcl⟩, hall⟩ := h
  have hnodes : out.nodes = specNodes g x sub := eq_of_beq hn
  refine ⟨eq_of_beq hm, hnodes, ?_⟩
  intro a b
  by_cases hab : a ∈ out.nodeIds ∧ b ∈ out.nodeIds
  · exact List.isPerm_iff.mp (hall a hab.1 b hab.2)
  · have hout : out.hasNode a = false ∨ out.hasNode b = false := by
      by_cases ha : a ∈ out.nodeIds
      · right
        cases hb : out.hasNode b with
        | false => rfl
        | true => exact absurd ⟨ha, (hasNode_iff out b).mp hb⟩ hab
      · left
        cases hb : out.hasNode a with
        | false => rfl
        | true => exact absurd ((hasNode_iff out a).mp hb) ha
    have h1 : labelsBetween out a b = [] := by
      unfold labelsBetween; rw [edgeData_nil_of_closed out (closed_of_closedB out hcl) a b hout]; rfl
    have hmn : (replaceNode g x sub anchors).nodes = out.nodes := by
      rw [hnodes]; exact (replace_exact_any g x sub anchors hd).nodes
    have hmodel : (replaceNode g x sub anchors).hasNode a = false ∨ (replaceNode g x sub anchors).hasNode b = false := by
      rw [hasNode_of_nodes_eq hmn, hasNode_of_nodes_eq hmn]; exact hout
    have h2 : specLabels g x sub anchors a b = [] := by
      rw [← replace_labels_any g x sub anchors hd a b]
      unfold labelsBetween
      rw [edgeData_nil_of_closed _ (replaceNode_closed g x sub anchors) a b hmodel]; rfl
    rw [h1, h2]

/-- the model passes the checker on the full domain -/
theorem replace_specCheck_any (g : Graph) (x : Int) (sub : Graph) (anchors : List Nat)
    (hd : inDomainAny g x sub anchors = true) : specCheck g x sub anchors (replaceNode g x sub anchors) = true := by
  have hs := replace_exact_any g x sub anchors hd
  have hw := replace_wf_any g x sub anchors hd
  simp only [specCheck, Bool.and_eq_true, List.all_eq_true, beq_iff_eq]
  refine ⟨⟨⟨hs.multi, hs.nodes⟩, ?_⟩, ?_⟩
  · have hc := closed_of_wf _ hw
    simp only [closedB, List.all_eq_true, Bool.and_eq_true]
    intro r hr
    exact ⟨by simpa using (hasNode_iff _ _).mp (hc r hr).1, fun e he => by simpa using (hasNode_iff _ _).mp ((hc r hr).2 e he)⟩
  · intro a _ b _
    exact List.isPerm_iff.mpr (hs.labels a b)

/-! ### tests (non-vacuity on concrete inputs; these are tests, not part of the proofs) -/
section Tests

private def mkG (multi : Bool) (nodes : List (Int × NodeAttr)) (es : List Edge) : Graph :=
  addEdgesFrom { multi := multi, nodes := nodes, adj := nodes.map fun n => (n.1, []) } es
private def atom (i : Int) (s : String) : Int × NodeAttr := (i, { symbol := some s, labels := some [], isLabeled := some false })
private def lab (i : Int) (l : String) : Int × NodeAttr := (i, { symbol := some "#", labels := some [l], isLabeled := some true })

/-- the ring `C1C{g}(C)1` with its nodes inserted in the order 3, 0, 2, 1 and a parallel bond 2=0 -/
private def ringS : Graph :=
  mkG true [atom 3 "C", atom 0 "C", lab 2 "g", atom 1 "C"]
    [(2,3,0,.s 6), (0,1,0,.s 2), (2,0,0,.s 8), (1,2,0,.s 4), (2,0,1,.s 10)]
private def no : Graph := mkG true [atom 0 "N", atom 1 "O"] [(0,1,0,.s 3)]

example : inDomainAny ringS 2 no [0, 1] = true ∧ inDomain ringS 2 no [0, 1] = false := by decide +kernel
-- the incident order follows the shuffled node order: 3 and 0 precede the node, 1 follows
example : incSpec ringS 2 = [(3, .s 6), (0, .s 8), (0, .s 10), (1, .s 4)] := by decide +kernel
-- the result keeps the parent's node order (3 ↦ 2, 0, 1), then the sub-pattern: not `contiguous`, but `contiguousAny`
example : (replaceNode ringS 2 no [0, 1]).nodeIds = [2, 0, 1, 3, 4] := by decide +kernel
theorem order_witness : ∃ g x sub anchors, inDomainAny g x sub anchors = true ∧
    contiguous (replaceNode g x sub anchors) = false ∧ contiguousAny (replaceNode g x sub anchors) = true :=
  ⟨ringS, 2, no, [0, 1], by decide +kernel, by decide +kernel, by decide +kernel⟩
-- bond of 3 → anchor 0 (N = 3), first bond of 0 → anchor 1 (O = 4), overflow: second bond of 0 and bond of 1 → O
example : labelsBetween (replaceNode ringS 2 no [0, 1]) 2 3 = [.s 6]
    ∧ labelsBetween (replaceNode ringS 2 no [0, 1]) 0 4 = [.s 8, .s 10]
    ∧ labelsBetween (replaceNode ringS 2 no [0, 1]) 1 4 = [.s 4]
    ∧ labelsBetween (replaceNode ringS 2 no [0, 1]) 0 3 = [] := by decide +kernel
example : specCheck ringS 2 no [0, 1] (replaceNode ringS 2 no [0, 1]) = true := by decide +kernel
-- the theorem applies
example : Spec ringS 2 no [0, 1] (replaceNode ringS 2 no [0, 1]) :=
  replace_exact_any ringS 2 no [0, 1] (by decide +kernel)

end Tests

end C13
