import FGVerif.Proofs.C14EnumMultiset
/-!
  C14 — the SET of choice combinations, as a predicate, and `allChoices` as its duplicate-free enumeration.

  `Model/C14Choice.lean` defines `ValidChoice cfg name c` / `ValidCombo cfg rg cs` inductively (no lists of
  combinations, no depth bound): a choice `node i subs` is valid for a node labelled `name` iff `name` is a configured
  group, `i` is the index of one of its graphs and `subs` is a valid combination for the group nodes of that graph; a
  combination is valid for a list of group nodes iff it has one valid choice per node, each node carrying exactly one
  group label.  Theorems:

  * `C14.allChoices_sound`      every element of `allChoices cfg p` is a valid combination (any configuration)
  * `C14.allChoices_complete`   for a configuration with an acyclicity certificate every valid combination is in `allChoices cfg p`
  * `C14.mem_allChoices_iff`    both
  * `C14.allChoices_nodup`      `allChoices cfg p` lists no combination twice (any configuration)
  * `C14.enumeration_bijective` the summary: `res ~ (allChoices cfg core).map (expand cfg core)`, `allChoices cfg core` is
                                duplicate-free and its elements are exactly the valid combinations — so the results of
                                `build_graphs` are in one-to-one correspondence with the valid choice combinations of the core.
-/
namespace C14.N
open C13 C14 C14.P

/-! ### soundness: what the lists contain is valid -/

theorem nodes_sound {cfg : Config} {d : Nat}
    (hd : ∀ name c, c ∈ groupChoices cfg d name → ValidChoice cfg name c) :
    ∀ (rg : RefGraph) (cs : List Choice), cs ∈ nodesChoices cfg d rg → ValidCombo cfg rg cs := by
  intro rg
  induction rg with
  | nil =>
    intro cs h
    have h' : cs ∈ prodL ([] : List (List Choice)) := by simpa [nodesChoices] using h
    rw [mem_prodL_nil h']
    exact ValidCombo.nil
  | cons ls rg ih =>
    intro cs h
    have h' : cs ∈ prodL (oneLabelL (groupChoices cfg d) ls :: rg.map (oneLabelL (groupChoices cfg d))) := by
      simpa [nodesChoices] using h
    obtain ⟨c, q, rfl, hc, hq⟩ := mem_prodL_cons h'
    obtain ⟨name, rfl, hc'⟩ := mem_oneLabelL hc
    exact ValidCombo.cons (hd name c hc') (ih q hq)

theorem group_sound (cfg : Config) : ∀ d name c, c ∈ groupChoices cfg d name → ValidChoice cfg name c := by
  intro d
  induction d with
  | zero => intro name c h; cases h
  | succ d ih =>
    intro name c h
    cases hlk : lookup cfg name with
    | none => rw [groupChoices_lookup_none hlk] at h; cases h
    | some grp =>
      simp only [groupChoices, hlk, List.mem_flatMap, List.mem_map] at h
      obtain ⟨p, hp, s, hs, rfl⟩ := h
      exact ValidChoice.node hlk (List.mem_zipIdx_iff_getElem?.mp hp) (nodes_sound ih _ s hs)

/-! ### completeness under an acyclicity certificate -/

theorem groupChoices_stable_le {cfg : Config} {ranks : List (String × Nat)}
    (hac : acyclicWith ranks (toRef cfg) = true) (l : String) (d : Nat) (hd : rankFn ranks l + 1 ≤ d) :
    ∀ k, groupChoices cfg (d + k) l = groupChoices cfg d l := by
  intro k
  induction k with
  | zero => rfl
  | succ k ih =>
    rw [← Nat.add_assoc, ← groupChoices_stable hac (d + k) l (by omega), ih]

theorem mem_prodL_of {α : Type} {xs : List α} {rest : List (List α)} {c : α} {q : List α}
    (hc : c ∈ xs) (hq : q ∈ prodL rest) : c :: q ∈ prodL (xs :: rest) := by
  simp only [prodL, List.mem_flatMap, List.mem_map]
  exact ⟨c, hc, q, hq, rfl⟩

/-- a valid choice for `name` is listed at depth `rank name + 1` already -/
theorem group_complete {cfg : Config} {ranks : List (String × Nat)}
    (hac : acyclicWith ranks (toRef cfg) = true) :
    ∀ (n : Nat) (c : Choice), c.size ≤ n → ∀ name, ValidChoice cfg name c →
      c ∈ groupChoices cfg (rankFn ranks name + 1) name := by
  intro n
  induction n with
  | zero =>
    intro c hc
    obtain ⟨i, subs⟩ := c
    simp only [Choice.size] at hc
    omega
  | succ n ih =>
    intro c hc name hv
    cases hv with
    | @node _ grp i sg subs hlk hidx hcombo =>
      have hk : grp.key = name := (lookup_mem hlk).2
      have hspec := (acyclicWith_spec hac) _ (toRef_mem hlk)
      have hsg : sg ∈ grp.graphs := List.mem_of_getElem? hidx
      simp only [groupChoices, hlk, List.mem_flatMap, List.mem_map]
      refine ⟨(sg, i), List.mem_zipIdx_iff_getElem?.mpr hidx, subs, ?_, rfl⟩
      -- the sub-choices, one group node of the chosen graph at a time
      have hsz : sizeL subs ≤ n := by simp only [Choice.size] at hc; omega
      have hrefs : ∀ ls ∈ refsOf cfg sg.pattern, ∀ l ∈ ls, rankFn ranks l + 1 ≤ rankFn ranks name := by
        intro ls hls l hl
        have := hspec.2 (refsOf cfg sg.pattern) (List.mem_map.mpr ⟨sg, hsg, rfl⟩) ls hls l hl
        simp only [hk] at this
        omega
      clear hc hidx hsg
      generalize refsOf cfg sg.pattern = rg at hcombo hrefs
      induction subs generalizing rg with
      | nil =>
        cases hcombo
        exact List.mem_singleton.mpr rfl
      | cons c' cs' ihs =>
        cases hcombo with
        | @cons name' _ rg' _ hv' hrest =>
          have hc's : c'.size ≤ n := by simp only [sizeL] at hsz; omega
          have hcs's : sizeL cs' ≤ n := by simp only [sizeL] at hsz; omega
          have h1 := ih c' hc's name' hv'
          have hr := hrefs [name'] List.mem_cons_self name' List.mem_cons_self
          have h2 : c' ∈ groupChoices cfg (rankFn ranks name) name' := by
            have := groupChoices_stable_le hac name' (rankFn ranks name' + 1) (Nat.le_refl _)
              (rankFn ranks name - (rankFn ranks name' + 1))
            rw [show rankFn ranks name' + 1 + (rankFn ranks name - (rankFn ranks name' + 1)) = rankFn ranks name by omega]
              at this
            rw [this]
            exact h1
          exact mem_prodL_of h2 (ihs hcs's rg' hrest fun ls hls => hrefs ls (List.mem_cons_of_mem _ hls))

theorem group_complete_depth {cfg : Config} (hac : acyclicB (toRef cfg) = true) {name : String} {c : Choice}
    (hv : ValidChoice cfg name c) : c ∈ groupChoices cfg (depthOf (toRef cfg)) name := by
  have hac' : acyclicWith (ranksOf (toRef cfg)) (toRef cfg) = true := hac
  have h1 := group_complete hac' c.size c (Nat.le_refl _) name hv
  cases hv with
  | @node _ grp i sg subs hlk hidx hcombo =>
    have hk : grp.key = name := (lookup_mem hlk).2
    have h0 := ((acyclicWith_spec hac') _ (toRef_mem hlk)).1
    simp only [hk] at h0
    have := groupChoices_stable_le hac' name (rankFn (ranksOf (toRef cfg)) name + 1) (Nat.le_refl _)
      ((toRef cfg).length - (rankFn (ranksOf (toRef cfg)) name))
    rw [show rankFn (ranksOf (toRef cfg)) name + 1 + ((toRef cfg).length - rankFn (ranksOf (toRef cfg)) name)
      = depthOf (toRef cfg) by unfold depthOf; omega] at this
    rw [this]
    exact h1

theorem nodes_complete {cfg : Config} (hac : acyclicB (toRef cfg) = true) :
    ∀ (rg : RefGraph) (cs : List Choice), ValidCombo cfg rg cs → cs ∈ nodesChoices cfg (depthOf (toRef cfg)) rg := by
  intro rg cs
  induction cs generalizing rg with
  | nil =>
    intro h
    cases h
    exact List.mem_singleton.mpr rfl
  | cons c cs ih =>
    intro h
    cases h with
    | @cons name _ rg' _ hv hrest =>
      exact mem_prodL_of (group_complete_depth hac hv) (ih rg' hrest)

/-! ### no combination is listed twice -/

theorem nodup_prodL {α : Type} (ls : List (List α)) (h : ∀ xs ∈ ls, xs.Nodup) : (prodL ls).Nodup := by
  induction ls with
  | nil => simp [prodL]
  | cons xs rest ih =>
    have hrest := ih fun ys hys => h ys (List.mem_cons_of_mem _ hys)
    have hxs := h xs List.mem_cons_self
    show List.Pairwise (· ≠ ·) (xs.flatMap fun x => (prodL rest).map fun q => x :: q)
    rw [List.pairwise_flatMap]
    refine ⟨fun x _ => ?_, ?_⟩
    · rw [List.pairwise_map]
      exact hrest.imp fun hne heq => hne (List.cons.inj heq).2
    · refine hxs.imp ?_
      intro a b hab x hx y hy heq
      obtain ⟨q, _, rfl⟩ := List.mem_map.mp hx
      obtain ⟨q', _, rfl⟩ := List.mem_map.mp hy
      exact hab (List.cons.inj heq).1

theorem nodup_oneLabelL {α : Type} {f : String → List α} (h : ∀ l, (f l).Nodup) (ls : List String) :
    (oneLabelL f ls).Nodup := by
  match ls with
  | [] => exact List.Pairwise.nil
  | [l] => exact h l
  | _ :: _ :: _ => exact List.Pairwise.nil

theorem zipIdx_pairwise_snd {α : Type} (l : List α) (k : Nat) : (l.zipIdx k).Pairwise fun a b => a.2 ≠ b.2 := by
  induction l generalizing k with
  | nil => exact List.Pairwise.nil
  | cons x l ih =>
    rw [List.zipIdx_cons, List.pairwise_cons]
    refine ⟨fun b hb => ?_, ih (k + 1)⟩
    have := List.le_snd_of_mem_zipIdx hb
    show k ≠ b.2
    omega

theorem nodup_groupChoices (cfg : Config) : ∀ d name, (groupChoices cfg d name).Nodup := by
  intro d
  induction d with
  | zero => intro name; exact List.Pairwise.nil
  | succ d ih =>
    intro name
    cases hlk : lookup cfg name with
    | none => rw [groupChoices_lookup_none hlk]; exact List.Pairwise.nil
    | some grp =>
      simp only [groupChoices, hlk]
      show List.Pairwise (· ≠ ·) _
      rw [List.pairwise_flatMap]
      refine ⟨fun p _ => ?_, ?_⟩
      · rw [List.pairwise_map]
        have := nodup_prodL ((refsOf cfg p.1.pattern).map (oneLabelL (groupChoices cfg d))) (by
          intro xs hxs
          obtain ⟨ls, _, rfl⟩ := List.mem_map.mp hxs
          exact nodup_oneLabelL ih ls)
        exact this.imp fun hne heq => hne (Choice.node.inj heq).2
      · refine (zipIdx_pairwise_snd grp.graphs 0).imp ?_
        intro a b hab x hx y hy heq
        obtain ⟨s, _, rfl⟩ := List.mem_map.mp hx
        obtain ⟨s', _, rfl⟩ := List.mem_map.mp hy
        exact hab (Choice.node.inj heq).1

end C14.N

namespace C14
open C13

/-- every listed combination is valid (any configuration) -/
theorem allChoices_sound (cfg : Config) (g : Graph) (cs : Combo) (h : cs ∈ allChoices cfg g) :
    ValidCombo cfg (refsOf cfg g) cs :=
  N.nodes_sound (N.group_sound cfg _) _ cs h

/-- every valid combination is listed (acyclic configuration) -/
theorem allChoices_complete (cfg : Config) (hac : acyclicB (toRef cfg) = true) (g : Graph) (cs : Combo)
    (h : ValidCombo cfg (refsOf cfg g) cs) : cs ∈ allChoices cfg g :=
  N.nodes_complete hac _ cs h

/-- **`allChoices cfg p` enumerates exactly the valid choice combinations of `p`** -/
theorem mem_allChoices_iff (cfg : Config) (hac : acyclicB (toRef cfg) = true) (g : Graph) (cs : Combo) :
    cs ∈ allChoices cfg g ↔ ValidCombo cfg (refsOf cfg g) cs :=
  ⟨allChoices_sound cfg g cs, allChoices_complete cfg hac g cs⟩

/-- **… each of them once** (any configuration) -/
theorem allChoices_nodup (cfg : Config) (g : Graph) : (allChoices cfg g).Nodup := by
  unfold allChoices nodesChoices
  apply N.nodup_prodL
  intro xs hxs
  obtain ⟨ls, _, rfl⟩ := List.mem_map.mp hxs
  exact N.nodup_oneLabelL (N.nodup_groupChoices cfg _) ls

/-- **one graph per combination of choices**: the results of `build_graphs` are (up to order) the expansions of the
    elements of a duplicate-free list whose elements are exactly the valid choice combinations of the core -/
theorem enumeration_bijective (cfg : Config) (fuel : Nat) (core : Graph) (res : List Graph)
    (hcfg : cfgOk cfg = true) (hac : acyclicB (toRef cfg) = true)
    (hcore : closedB core = true ∧ contiguous core = true)
    (h : buildGraphs cfg fuel core = .ok res) :
    res.Perm ((allChoices cfg core).map (expand cfg core)) ∧ (allChoices cfg core).Nodup ∧
    ∀ cs, cs ∈ allChoices cfg core ↔ ValidCombo cfg (refsOf cfg core) cs :=
  ⟨enumeration_exact cfg fuel core res hcfg hac hcore h, allChoices_nodup cfg core, mem_allChoices_iff cfg hac core⟩

/-! ### non-vacuity (tests on concrete inputs; labelled as tests) -/
section Examples

private def atom (s : String) : PGraph :=
  { pattern := { nodes := [(0, { symbol := some s })], adj := [(0, [])] }, anchors := [0] }

private def lbl (l : String) : NodeAttr := { symbol := some "#", labels := some [l], isLabeled := some true }

/-- `a` is `C-{b}` or `N`, `b` is `O` or `S`; core `{a}-{b}` -/
private def cfg2 : Config :=
  [{ key := "a", name := "a", graphs :=
      [{ pattern := { nodes := [(0, { symbol := some "C" }), (1, lbl "b")],
                      adj := [(0, [(1, [(0, .s 2)])]), (1, [(0, [(0, .s 2)])])] }, anchors := [0] },
       atom "N"] },
   { key := "b", name := "b", graphs := [atom "O", atom "S"] }]

private def core2 : Graph :=
  { nodes := [(0, lbl "a"), (1, lbl "b")],
    adj := [(0, [(1, [(0, .s 2)])]), (1, [(0, [(0, .s 2)])])] }

private theorem refs2 : refsOf cfg2 core2 = [["a"], ["b"]] := by decide

/-- `{a}` → graph 0 with its `{b}` → S, `{b}` → O is a valid combination … -/
example : ValidCombo cfg2 (refsOf cfg2 core2) [.node 0 [.node 1 []], .node 0 []] := by
  rw [refs2]
  refine ValidCombo.cons (ValidChoice.node (grp := cfg2[0]) (sg := cfg2[0].graphs[0]) rfl rfl ?_)
    (ValidCombo.cons (ValidChoice.node (grp := cfg2[1]) (sg := cfg2[1].graphs[0]) rfl rfl ValidCombo.nil) ValidCombo.nil)
  exact ValidCombo.cons (ValidChoice.node (grp := cfg2[1]) (sg := cfg2[1].graphs[1]) rfl rfl ValidCombo.nil) ValidCombo.nil

/-- … hence listed (`cfg2` is acyclic) … -/
example : [Choice.node 0 [.node 1 []], .node 0 []] ∈ allChoices cfg2 core2 := by
  apply allChoices_complete cfg2 (by decide)
  rw [refs2]
  refine ValidCombo.cons (ValidChoice.node (grp := cfg2[0]) (sg := cfg2[0].graphs[0]) rfl rfl ?_)
    (ValidCombo.cons (ValidChoice.node (grp := cfg2[1]) (sg := cfg2[1].graphs[0]) rfl rfl ValidCombo.nil) ValidCombo.nil)
  exact ValidCombo.cons (ValidChoice.node (grp := cfg2[1]) (sg := cfg2[1].graphs[1]) rfl rfl ValidCombo.nil) ValidCombo.nil

/-- … a combination that leaves a group node without a choice, or picks a graph the group does not have, is not -/
example : ¬ ValidCombo cfg2 (refsOf cfg2 core2) [.node 0 [.node 1 []]] := by
  rw [refs2]
  intro h
  cases h with
  | cons _ h2 => cases h2

example : ¬ ValidChoice cfg2 "b" (.node 2 []) := by
  intro h
  cases h with
  | @node _ grp i sg subs hlk hidx _ =>
    have : grp = cfg2[1] := by
      have h' : lookup cfg2 "b" = some cfg2[1] := rfl
      rw [h'] at hlk
      exact (Option.some.inj hlk).symm
    subst this
    have h'' : (cfg2[1].graphs[2]? : Option PGraph) = none := rfl
    rw [h''] at hidx
    cases hidx

end Examples

end C14
