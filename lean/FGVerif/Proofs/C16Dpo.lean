import FGVerif.Proofs.C16Match
namespace C16

/-! ### `DPORule.to_rc_graph` -/

theorem lastHit_eq_lookupE (ts : List (E Int)) (hn : NodupPairs ts) (u v : Int) :
    lastHit ts u v = lookupE ts u v := by
  cases hl : lastHit ts u v with
  | some d =>
    obtain ⟨t, ht, hh, hd⟩ := lastHit_some _ _ _ _ hl
    rw [lookupE_of_mem ts hn t ht u v hh, hd]
  | none =>
    cases hr : lookupE ts u v with
    | none => rfl
    | some d =>
      obtain ⟨t, ht, hh, _⟩ := lookupE_some_mem _ _ _ _ hr
      have := lastHit_isSome ts u v t ht hh
      rw [hl] at this; simp at this

/-- **C16.rc_of_dpo** — the reaction-centre graph of a DPO rule `L ← C → R` carries between any
    two nodes the label `[left order or 0, right order or 0]` -/
theorem rc_of_dpo (L C R : MolGraph) (hR : NodupPairs R.edges) (o : RcOut)
    (h : toRcGraph L C R = .ok o) (u v : Int) :
    lookupE o.edges u v = combineLR (L.bond? u v) (R.bond? u v) := by
  unfold toRcGraph at h
  split at h
  · exact absurd h (by simp)
  · split at h
    · exact absurd h (by simp)
    · simp only [Except.ok.injEq] at h
      subst h
      simp only
      rw [lookupE_foldl_overlayEdge, lastHit_eq_lookupE _ hR]
      have hl : lookupE (L.edges.map fun e => (e.1, e.2.1, (e.2.2, (0 : Int)))) u v
          = (L.bond? u v).map fun b => (b, 0) := by
        rw [lookupE_map (fun e => (e.2.2, (0 : Int)))]
        unfold MolGraph.bond? lookupE
        cases L.edges.find? fun e => hit e.1 e.2.1 u v <;> rfl
      rw [hl]
      unfold combineLR MolGraph.bond?
      cases lookupE L.edges u v <;> cases lookupE R.edges u v <;> simp

/-- a left node outside the context is refused with `ValueError` -/
theorem rc_of_dpo_refuses (L C R : MolGraph) (hC : C.edges = [])
    (hbad : ∃ n ∈ L.nodes, ∀ c ∈ C.nodes, c.1 ≠ n.1) :
    toRcGraph L C R = .error .valueError := by
  unfold toRcGraph
  obtain ⟨n, hn, hc⟩ := hbad
  have : L.nodes.any (fun n => !(C.nodes.any (·.1 == n.1))) = true := by
    rw [List.any_eq_true]
    refine ⟨n, hn, ?_⟩
    simp only [Bool.not_eq_true', List.any_eq_false, beq_iff_eq]
    intro c hcm; exact hc c hcm
  simp [hC, this]

/-- and a rule whose left nodes are all in the (edge-free) context is accepted -/
theorem rc_of_dpo_accepts (L C R : MolGraph) (hC : C.edges = [])
    (hok : ∀ n ∈ L.nodes, ∃ c ∈ C.nodes, c.1 = n.1) : ∃ o, toRcGraph L C R = .ok o := by
  unfold toRcGraph
  have : L.nodes.any (fun n => !(C.nodes.any (·.1 == n.1))) = false := by
    rw [List.any_eq_false]
    intro n hn
    obtain ⟨c, hc, e⟩ := hok n hn
    have : C.nodes.any (fun x => x.1 == n.1) = true := List.any_eq_true.mpr ⟨c, hc, by simp [e]⟩
    simp [this]
  simp [hC, this]

theorem combineLR_some (l r : Option Int) (a : Int × Int) (h : combineLR l r = some a) :
    l.isSome = true ∨ r.isSome = true := by
  unfold combineLR at h
  cases l <;> cases r <;> simp at h ⊢

/-- the executable statement for `to_rc_graph` (applied to the implementation's rc graph) implies
    the declarative one: between any two nodes the label is `[left or 0, right or 0]` -/
theorem rcSpecB_sound (L C R : MolGraph) (nodes : List (Int × Option String)) (edges : List (E (Int × Int)))
    (h : rcSpecB L C R nodes edges = true) (u v : Int) :
    lookupE edges u v = combineLR (L.bond? u v) (R.bond? u v) := by
  unfold rcSpecB at h
  simp only [Bool.and_eq_true, List.all_eq_true, decide_eq_true_eq] at h
  obtain ⟨⟨⟨⟨h1, h2⟩, h3⟩, _⟩, _⟩ := h
  have hsymm : ∀ a b, combineLR (L.bond? a b) (R.bond? a b) = combineLR (L.bond? b a) (R.bond? b a) := by
    intro a b; unfold MolGraph.bond?; rw [lookupE_symm L.edges, lookupE_symm R.edges]
  have transfer : ∀ (e1 e2 : Int), hit e1 e2 u v = true →
      lookupE edges e1 e2 = combineLR (L.bond? e1 e2) (R.bond? e1 e2) →
      lookupE edges u v = combineLR (L.bond? u v) (R.bond? u v) := by
    intro e1 e2 hh he
    rw [hit_iff] at hh
    rcases hh with ⟨a1, a2⟩ | ⟨a1, a2⟩
    · rw [← a1, ← a2]; exact he
    · rw [← a1, ← a2, lookupE_symm, hsymm]; exact he
  cases hc : combineLR (L.bond? u v) (R.bond? u v) with
  | none =>
    cases hl : lookupE edges u v with
    | none => rfl
    | some a =>
      obtain ⟨e, he, hh, _⟩ := lookupE_some_mem _ _ _ _ hl
      have := transfer e.1 e.2.1 hh (h1 e he)
      rw [hl, hc] at this; exact this
  | some a =>
    rw [← hc]
    rcases combineLR_some _ _ a hc with hL | hR
    · cases hb : L.bond? u v with
      | none => rw [hb] at hL; simp at hL
      | some b =>
        obtain ⟨e, he, hh, _⟩ := lookupE_some_mem _ _ _ _ hb
        rw [← hb]; exact transfer e.1 e.2.1 hh (h2 e he)
    · cases hb : R.bond? u v with
      | none => rw [hb] at hR; simp at hR
      | some b =>
        obtain ⟨e, he, hh, _⟩ := lookupE_some_mem _ _ _ _ hb
        rw [← hb]; exact transfer e.1 e.2.1 hh (h3 e he)

end C16
