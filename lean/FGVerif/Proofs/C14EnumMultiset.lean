import FGVerif.Proofs.C14Enum
import FGVerif.Proofs.C14Iter
/-!
  C14 — "… so that over the whole enumeration the multiset of such results equals the one computed
  combinatorially from the configuration".

  For a combination `cs` of a pattern, `Model/C14Choice.lean` computes FROM THE CONFIGURATION ALONE (no graph is
  built) the list `chosen cfg pattern cs` of the graphs the combination selects (`chosenQ`: walk the choice trees,
  look the group of each label up, take the graph with the chosen index; the labels of the pending nodes are kept in
  the same queue discipline as the choices), hence `chosenSymbols` / `chosenBonds` (symbols / bond labels of the
  pattern and of all chosen graphs) and `sizeL cs` (number of replaced label nodes, each of which removes one "#").

  * `C14.expandT_trace`          for every `cs ∈ allChoices cfg core` the bookkeeping of the traced expansion IS the
                                 combinatorial one: `symbols = chosenSymbols`, `bonds = chosenBonds`,
                                 `replaced = sizeL cs`, and `dropped = []` when no pattern of the configuration is empty
  * `C14.enumeration_multiset`   `buildGraphs cfg fuel core = .ok res →`
        `res ~ (allChoices cfg core).map (expand cfg core)`  and for every `cs ∈ allChoices cfg core`:
        `symbolsOf (expand … cs) ++ replicate (sizeL cs) "#" ~ chosenSymbols cfg core cs`,
        `bondLabelsOf (expand … cs) ++ droppedBonds cfg core cs ~ chosenBonds cfg core cs`,
        `noEmptyPattern cfg → droppedBonds cfg core cs = []`
    i.e. the results are in bijection with the choice combinations and the result of a combination has exactly the
    symbol multiset and the bond-label multiset computed from the configuration for that combination (bonds of nodes
    replaced by the empty pattern removed).
  * `C14.enumeration_multiset_matched`  the same as ONE statement about the two lists: some reordering `res'` of the
    results matches the list `allChoices cfg core` position by position (`Matched`).

  The only non-combinatorial ingredient is `droppedBonds` (the bonds that die with a node replaced by the empty
  pattern): which bonds are incident to that node at that moment depends on the re-attachments made before, so it is
  read off the combination's own expansion (`expandT`, one path, no working set); it vanishes for configurations
  without empty patterns (`noEmptyPattern`, decidable).

  Derived from `enumeration_exact_traced` (part (2)) and the conservation theorems `conservation_symbols` /
  `conservation_bonds` (C14Cons).  Hypotheses: those of `conservation` plus `acyclicB`.
-/
namespace C14.N
open C13 C14 C14.P

/-! ### membership in the product -/

theorem mem_prodL_nil {α : Type} {cs : List α} (h : cs ∈ prodL ([] : List (List α))) : cs = [] := by
  simpa [prodL] using h

theorem mem_prodL_cons {α : Type} {xs : List α} {rest : List (List α)} {cs : List α} (h : cs ∈ prodL (xs :: rest)) :
    ∃ c q, cs = c :: q ∧ c ∈ xs ∧ q ∈ prodL rest := by
  simp only [prodL, List.mem_flatMap, List.mem_map] at h
  obtain ⟨c, hc, q, hq, rfl⟩ := h
  exact ⟨c, q, rfl, hc, hq⟩

theorem mem_prodL_append {α : Type} {a b : List (List α)} {q s : List α} (hq : q ∈ prodL a) (hs : s ∈ prodL b) :
    q ++ s ∈ prodL (a ++ b) := by
  rw [prodL_append]
  simp only [List.mem_flatMap, List.mem_map]
  exact ⟨q, hq, s, hs, rfl⟩

theorem mem_oneLabelL {α : Type} {f : String → List α} {ls : List String} {c : α} (h : c ∈ oneLabelL f ls) :
    ∃ name, ls = [name] ∧ c ∈ f name := by
  match ls, h with
  | [], h => simp [oneLabelL] at h
  | [name], h => exact ⟨name, rfl, h⟩
  | _ :: _ :: _, h => simp [oneLabelL] at h

/-- the first entry of the reference list belongs to the first group node -/
theorem refs_cons_next {cfg : Config} {g : Graph} {ls : List String} {t : RefGraph}
    (h : refsOf cfg g = ls :: t) : ∃ x a, nextGroupNode cfg g = some (x, a) ∧ groupLabels cfg a = ls := by
  cases hn : nextGroupNode cfg g with
  | none => rw [refs_none hn] at h; cases h
  | some p =>
    obtain ⟨x, a⟩ := p
    refine ⟨x, a, rfl, ?_⟩
    obtain ⟨pre, post, hs, hpre⟩ := next_split hn
    have hg := (Q.nextGroupNode_some hn).2
    rw [refsOf_eq, hs, refsL_append, refsL_nil_of_no_group cfg pre hpre] at h
    unfold isGroupNode at hg
    simp only [refsL, List.map_cons, List.filter_cons, hg, if_true, List.nil_append] at h
    injection h

theorem groupChoices_lookup_none {cfg : Config} {name : String} (h : lookup cfg name = none) (d : Nat) :
    groupChoices cfg d name = [] := by
  cases d with
  | zero => rfl
  | succ d => simp only [groupChoices, h]

theorem noEmpty_at {cfg : Config} (h : noEmptyPattern cfg = true) {grp : Group} (hg : grp ∈ cfg) {sg : PGraph}
    (hs : sg ∈ grp.graphs) : sg.pattern.nodes.isEmpty = false := by
  simp only [noEmptyPattern, List.all_eq_true] at h
  simpa using h grp hg sg hs

theorem chosenQ_cons {cfg : Config} {name : String} {grp : Group} {i : Nat} {sg : PGraph}
    (hlk : lookup cfg name = some grp) (hi : grp.graphs[i]? = some sg) (f : Nat) (t : RefGraph) (subs q : List Choice) :
    chosenQ cfg (f + 1) ([name] :: t) (Choice.node i subs :: q)
      = sg :: chosenQ cfg f (t ++ refsOf cfg sg.pattern) (q ++ subs) := by
  simp only [chosenQ, hlk, hi]

/-- what the bookkeeping of a traced expansion contains, for a combination that belongs to the graph -/
theorem expandFrom_trace {cfg : Config} (hcfg : cfgOk cfg = true) (hac : acyclicB (toRef cfg) = true) :
    ∀ (n : Nat) (gt : Graph × Trace) (cs : List Choice), sizeL cs = n → Inv gt.1 →
      cs ∈ nodesChoices cfg (depthOf (toRef cfg)) (refsOf cfg gt.1) →
      (expandFrom cfg gt cs).2.symbols
        = gt.2.symbols ++ (chosenQ cfg (sizeL cs) (refsOf cfg gt.1) cs).flatMap (fun sg => symbolsOf sg.pattern) ∧
      (expandFrom cfg gt cs).2.bonds
        = gt.2.bonds ++ (chosenQ cfg (sizeL cs) (refsOf cfg gt.1) cs).flatMap (fun sg => bondLabelsOf sg.pattern) ∧
      (expandFrom cfg gt cs).2.replaced = gt.2.replaced + sizeL cs ∧
      (noEmptyPattern cfg = true → (expandFrom cfg gt cs).2.dropped = gt.2.dropped) := by
  intro n
  induction n with
  | zero =>
    intro gt cs hn _ _
    match cs, hn with
    | [], _ =>
      rw [expandFrom_nil]
      simp [sizeL, chosenQ]
    | c :: q, hn =>
      obtain ⟨i, subs⟩ := c
      rw [sizeL_cons_node] at hn
      omega
  | succ n ih =>
    intro gt cs hn hi hmem
    match cs, hn, hmem with
    | [], hn, _ => simp [sizeL] at hn
    | c :: q, hn, hmem =>
      -- the reference list cannot be empty
      cases hrefs : refsOf cfg gt.1 with
      | nil =>
        rw [hrefs] at hmem
        have := mem_prodL_nil (by simpa [nodesChoices] using hmem)
        cases this
      | cons ls t =>
        rw [hrefs] at hmem
        obtain ⟨c', q', hcq, hc, hq⟩ := mem_prodL_cons (by simpa [nodesChoices] using hmem)
        injection hcq with h1 h2
        subst h1; subst h2
        obtain ⟨name, hls, hc2⟩ := mem_oneLabelL hc
        subst hls
        cases hlk : lookup cfg name with
        | none => rw [groupChoices_lookup_none hlk] at hc2; cases hc2
        | some grp =>
          rw [groupChoices_fix hac hlk] at hc2
          simp only [List.mem_flatMap, List.mem_map] at hc2
          obtain ⟨p, hp, s, hs, rfl⟩ := hc2
          have hidx : grp.graphs[p.2]? = some p.1 := List.mem_zipIdx_iff_getElem?.mp hp
          have hsg : p.1 ∈ grp.graphs := List.mem_of_getElem? hidx
          obtain ⟨x, a, hnx, hl⟩ := refs_cons_next hrefs
          have hng := nextGroup_of hnx hl hlk
          have hdom := nodeDom_of hcfg hi hnx hlk hsg
          have hstep := refs_step' hnx hl hdom
          rw [hrefs] at hstep
          have hstep' : refsOf cfg (substT gt x p.1).1 = t ++ refsOf cfg p.1.pattern := hstep
          have hinv' : Inv (substT gt x p.1).1 :=
            ⟨replaceNode_contiguous _ _ _ _ hdom, replaceNode_closed _ _ _ _⟩
          have hmem' : q ++ s ∈ nodesChoices cfg (depthOf (toRef cfg)) (refsOf cfg (substT gt x p.1).1) := by
            rw [hstep']
            unfold nodesChoices
            rw [List.map_append]
            exact mem_prodL_append hq hs
          rw [sizeL_cons_node] at hn
          have hsz : sizeL (q ++ s) = n := by omega
          have ih' := ih (substT gt x p.1) (q ++ s) hsz hinv' hmem'
          rw [hstep'] at ih'
          rw [expandFrom_cons hng hidx s q, sizeL_cons_node, chosenQ_cons hlk hidx]
          obtain ⟨e1, e2, e3, e4⟩ := ih'
          refine ⟨?_, ?_, ?_, ?_⟩
          · rw [e1]
            simp only [substT, List.flatMap_cons, List.append_assoc]
          · rw [e2]
            simp only [substT, List.flatMap_cons, List.append_assoc]
          · rw [e3]
            simp only [substT]
            omega
          · intro hne
            rw [e4 hne]
            simp only [substT, noEmpty_at hne (lookup_mem hlk).1 hsg, Bool.false_eq_true, if_false]

/-- position-by-position matching of two lists -/
inductive Matched {α β : Type} (R : α → β → Prop) : List α → List β → Prop where
  | nil : Matched R [] []
  | cons {a : α} {b : β} {as : List α} {bs : List β} : R a b → Matched R as bs → Matched R (a :: as) (b :: bs)

theorem matched_map {α β : Type} (R : α → β → Prop) (f : β → α) (l : List β) (h : ∀ b ∈ l, R (f b) b) :
    Matched R (l.map f) l := by
  induction l with
  | nil => exact Matched.nil
  | cons b l ih =>
    exact Matched.cons (h b List.mem_cons_self) (ih fun b' hb' => h b' (List.mem_cons_of_mem _ hb'))

end C14.N

namespace C14
open C13

/-- the bookkeeping of the traced expansion of a combination of the core is the combinatorial one -/
theorem expandT_trace (cfg : Config) (core : Graph) (hcfg : cfgOk cfg = true) (hac : acyclicB (toRef cfg) = true)
    (hcore : closedB core = true ∧ contiguous core = true) (cs : Combo) (hcs : cs ∈ allChoices cfg core) :
    (expandT cfg core cs).2.symbols = chosenSymbols cfg core cs ∧
    (expandT cfg core cs).2.bonds = chosenBonds cfg core cs ∧
    (expandT cfg core cs).2.replaced = sizeL cs ∧
    (noEmptyPattern cfg = true → droppedBonds cfg core cs = []) := by
  obtain ⟨e1, e2, e3, e4⟩ := N.expandFrom_trace hcfg hac (sizeL cs) (core, trace0 core) cs rfl
    (P.inv_of_core hcore) hcs
  refine ⟨e1, e2, ?_, e4⟩
  rw [show (expandT cfg core cs).2.replaced = (expandFrom cfg (core, trace0 core) cs).2.replaced from rfl, e3]
  show 0 + sizeL cs = sizeL cs
  omega

/-- the signature a combination must produce, as a relation between a result and a combination -/
def HasChosenSignature (cfg : Config) (core : Graph) (g : Graph) (cs : Combo) : Prop :=
  (symbolsOf g ++ List.replicate (sizeL cs) "#").Perm (chosenSymbols cfg core cs) ∧
  (bondLabelsOf g ++ droppedBonds cfg core cs).Perm (chosenBonds cfg core cs)

/-- **the multiset of results is the one computed combinatorially from the configuration**: the results of
    `build_graphs` are (up to order) the expansions of the choice combinations, and the expansion of a combination has
    exactly the symbols of the core and of the graphs the combination selects minus one "#" per replaced label node, and
    exactly their bond labels minus the bonds of nodes replaced by the empty pattern (multisets) -/
theorem enumeration_multiset (cfg : Config) (fuel : Nat) (core : Graph) (res : List Graph)
    (hcfg : cfgOk cfg = true) (hedge : cfgEdgeOk cfg core.multi = true) (hac : acyclicB (toRef cfg) = true)
    (hhash : hashOk cfg core = true ∧ cfg.all (fun grp => grp.graphs.all fun pg => hashOk cfg pg.pattern) = true)
    (hcore : wf core = true ∧ contiguous core = true ∧ noLoopOnGroupNodes cfg core = true)
    (h : buildGraphs cfg fuel core = .ok res) :
    res.Perm ((allChoices cfg core).map (expand cfg core)) ∧
    ∀ cs ∈ allChoices cfg core,
      HasChosenSignature cfg core (expand cfg core cs) cs ∧
      (noEmptyPattern cfg = true → droppedBonds cfg core cs = []) := by
  have hcl : closedB core = true ∧ contiguous core = true :=
    ⟨P.closedB_of_closed core (closed_of_wf core hcore.1), hcore.2.1⟩
  refine ⟨enumeration_exact cfg fuel core res hcfg hac hcl h, ?_⟩
  intro cs hcs
  -- the traced run exists and contains the traced expansion of `cs`
  have hp := traced_projection cfg fuel core
  rw [h] at hp
  cases ht : buildGraphsT cfg fuel core with
  | error e => rw [ht] at hp; cases hp
  | ok ts =>
    have hperm := enumeration_exact_traced cfg fuel core ts hcfg hac hcl ht
    have hmem : expandT cfg core cs ∈ ts := hperm.mem_iff.mpr (List.mem_map.mpr ⟨cs, hcs, rfl⟩)
    have hs := conservation_symbols cfg fuel core ts hcfg hedge hhash hcore ht _ hmem
    have hb := conservation_bonds cfg fuel core ts hcfg hedge hhash hcore ht _ hmem
    obtain ⟨e1, e2, e3, e4⟩ := expandT_trace cfg core hcfg hac hcl cs hcs
    rw [e1, e3, N.expandT_fst] at hs
    rw [e2, N.expandT_fst] at hb
    exact ⟨⟨hs, hb⟩, e4⟩

/-- the same as one statement about the list of results and the list of combinations: a reordering of the results
    matches `allChoices cfg core` position by position, each result carrying the signature computed for its combination -/
theorem enumeration_multiset_matched (cfg : Config) (fuel : Nat) (core : Graph) (res : List Graph)
    (hcfg : cfgOk cfg = true) (hedge : cfgEdgeOk cfg core.multi = true) (hac : acyclicB (toRef cfg) = true)
    (hhash : hashOk cfg core = true ∧ cfg.all (fun grp => grp.graphs.all fun pg => hashOk cfg pg.pattern) = true)
    (hcore : wf core = true ∧ contiguous core = true ∧ noLoopOnGroupNodes cfg core = true)
    (h : buildGraphs cfg fuel core = .ok res) :
    ∃ res', res.Perm res' ∧ N.Matched (HasChosenSignature cfg core) res' (allChoices cfg core) := by
  obtain ⟨hperm, hsig⟩ := enumeration_multiset cfg fuel core res hcfg hedge hac hhash hcore h
  exact ⟨_, hperm, N.matched_map _ _ _ fun cs hcs => (hsig cs hcs).1⟩

/-- at the `iter(Proxy)` level: the samples are (up to order) the finished expansions of all combinations of all cores;
    symbols are conserved for every sample, bond labels whenever the expansion has no parallel bonds to collapse
    (`sideOk`; known finding K7 otherwise) -/
theorem enumeration_multiset_iter (cfg : Config) (fuel : Nat) (aam : Bool) (cores : List Graph) (out : List Graph)
    (hcfg : cfgOk cfg = true) (hac : acyclicB (toRef cfg) = true)
    (hpat : cfg.all (fun grp => grp.graphs.all fun pg => hashOk cfg pg.pattern) = true)
    (hcores : ∀ c ∈ cores, coreOk cfg c = true)
    (h : generate cfg fuel aam cores = .ok out) :
    out.Perm (allSamples cfg aam cores) ∧
    ∀ c ∈ cores, ∀ cs ∈ allChoices cfg c,
      (symbolsOf (finish aam (expand cfg c cs)) ++ List.replicate (sizeL cs) "#").Perm (chosenSymbols cfg c cs) ∧
      (sideOk (expand cfg c cs) = true →
        (bondLabelsOf (finish aam (expand cfg c cs)) ++ droppedBonds cfg c cs).Perm (chosenBonds cfg c cs)) := by
  have hco : ∀ c ∈ cores, cfgEdgeOk cfg c.multi = true ∧ hashOk cfg c = true ∧ wf c = true ∧ contiguous c = true ∧
      noLoopOnGroupNodes cfg c = true := by
    intro c hc
    have := hcores c hc
    simp only [coreOk, Bool.and_eq_true] at this
    obtain ⟨⟨⟨⟨h1, h2⟩, h3⟩, h4⟩, h5⟩ := this
    exact ⟨h1, h2, h3, h4, h5⟩
  have hcl : ∀ c ∈ cores, closedB c = true ∧ contiguous c = true := fun c hc =>
    ⟨P.closedB_of_closed c (closed_of_wf c (hco c hc).2.2.1), (hco c hc).2.2.2.1⟩
  refine ⟨enumeration_total cfg fuel aam cores out hcfg hac hcl h, ?_⟩
  intro c hc cs hcs
  obtain ⟨h1, h2, h3, h4, h5⟩ := hco c hc
  -- `build_graphs` succeeds on every core of a successful enumeration
  have hb : ∃ gs, buildGraphs cfg fuel c = .ok gs := by
    clear hcl hco hcores
    induction cores generalizing out with
    | nil => cases hc
    | cons c0 rest ih =>
      simp only [generate, bind, Except.bind] at h
      cases hb0 : buildGraphs cfg fuel c0 with
      | error e => rw [hb0] at h; cases h
      | ok gs0 =>
        rw [hb0] at h
        cases hg : generate cfg fuel aam rest with
        | error e => rw [hg] at h; cases h
        | ok more =>
          rcases List.mem_cons.mp hc with rfl | hc'
          · exact ⟨gs0, hb0⟩
          · exact ih more hg hc'
  obtain ⟨gs, hgs⟩ := hb
  obtain ⟨hperm, hsig⟩ := enumeration_multiset cfg fuel c gs hcfg h1 hac ⟨h2, hpat⟩ ⟨h3, h4, h5⟩ hgs
  obtain ⟨⟨hs, hbd⟩, _⟩ := hsig cs hcs
  -- the expansion is a `build_graphs` result, hence well-formed
  have hmem : expand cfg c cs ∈ gs := hperm.mem_iff.mpr (List.mem_map.mpr ⟨cs, hcs, rfl⟩)
  obtain ⟨ts, hts, hproj, _⟩ := conservation_plain cfg fuel c gs hcfg h1 ⟨h2, hpat⟩ ⟨h3, h4, h5⟩ hgs
  rw [← hproj] at hmem
  obtain ⟨gt, hgt, hgt1⟩ := List.mem_map.mp hmem
  have hwf : wf (expand cfg c cs) = true := by
    rw [← hgt1]
    exact (Q.inv_results cfg fuel c ts hcfg h1 ⟨h2, hpat⟩ ⟨h3, h4, h5⟩ hts gt hgt).1.wf
  refine ⟨?_, fun hside => ?_⟩
  · rw [finish_symbols _ hwf aam]; exact hs
  · exact ((finish_bonds _ hwf aam hside).append_right _).trans hbd

/-! ### non-vacuity (tests on concrete inputs; labelled as tests) -/
section Examples

private def atom (s : String) : PGraph :=
  { pattern := { nodes := [(0, { symbol := some s })], adj := [(0, [])] }, anchors := [0] }

private def lbl (l : String) : NodeAttr := { symbol := some "#", labels := some [l], isLabeled := some true }

private def emptyP : PGraph := { pattern := {}, anchors := [0] }

/-- `a` is `C={b}` or `N`; `b` is `O`, `S` or the empty pattern; core `{a}-{b}` -/
private def cfg5 : Config :=
  [{ key := "a", name := "a", graphs :=
      [{ pattern := { nodes := [(0, { symbol := some "C" }), (1, lbl "b")],
                      adj := [(0, [(1, [(0, .s 4)])]), (1, [(0, [(0, .s 4)])])] }, anchors := [0] },
       atom "N"] },
   { key := "b", name := "b", graphs := [atom "O", emptyP] }]

private def core5 : Graph :=
  { nodes := [(0, lbl "a"), (1, lbl "b")],
    adj := [(0, [(1, [(0, .s 2)])]), (1, [(0, [(0, .s 2)])])] }

example : cfgOk cfg5 = true ∧ cfgEdgeOk cfg5 core5.multi = true ∧ acyclicB (toRef cfg5) = true ∧
    hashOk cfg5 core5 = true ∧ cfg5.all (fun grp => grp.graphs.all fun pg => hashOk cfg5 pg.pattern) = true ∧
    wf core5 = true ∧ contiguous core5 = true ∧ noLoopOnGroupNodes cfg5 core5 = true ∧
    noEmptyPattern cfg5 = false := by decide

/-- the six combinations `({a} → C={b'} with b' → O | ∅, or N) × ({b} → O | ∅)`: symbols computed from the
    configuration (with the "#" of the replaced nodes) and number of replaced nodes … -/
example : (allChoices cfg5 core5).map (fun cs => (chosenSymbols cfg5 core5 cs, sizeL cs))
    = [(["#", "#", "C", "#", "O", "O"], 3), (["#", "#", "C", "#", "O"], 3), (["#", "#", "C", "#", "O"], 3),
       (["#", "#", "C", "#"], 3), (["#", "#", "N", "O"], 2), (["#", "#", "N"], 2)] := by decide

/-- … bond labels computed from the configuration and the bonds lost with empty patterns … -/
example : (allChoices cfg5 core5).map (fun cs => (chosenBonds cfg5 core5 cs, droppedBonds cfg5 core5 cs))
    = [([.s 2, .s 4], []), ([.s 2, .s 4], [.s 2]), ([.s 2, .s 4], [.s 4]), ([.s 2, .s 4], [.s 2, .s 4]),
       ([.s 2], []), ([.s 2], [.s 2])] := by decide

/-- … and the expansions -/
example : (allChoices cfg5 core5).map (fun cs => (symbolsOf (expand cfg5 core5 cs), bondLabelsOf (expand cfg5 core5 cs)))
    = [(["C", "O", "O"], [.s 2, .s 4]), (["C", "O"], [.s 4]), (["C", "O"], [.s 2]), (["C"], []),
       (["N", "O"], [.s 2]), (["N"], [])] := by decide

end Examples

end C14
