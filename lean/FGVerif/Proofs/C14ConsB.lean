import FGVerif.Proofs.C14ConsA
/-!
  C14 conservation, part B: the invariant on a traced working item, node/symbol half (`InvS`), and
  its preservation by one replacement: the anchor is a group node of a well-formed graph without a
  self-loop, so `C13.inDomain` holds and the C13 theorems describe the result.
-/
set_option linter.unusedSimpArgs false
namespace C14
open C13


end C14

namespace C14.Q
open C13 C14

/-- the hypotheses of the conservation theorem on the configuration, for graph kind `m` -/
structure CfgOk (cfg : Config) (m : Bool) : Prop where
  ok : cfgOk cfg = true
  edge : cfgEdgeOk cfg m = true
  hash : cfg.all (fun grp => grp.graphs.all fun pg => hashOk cfg pg.pattern) = true

/-- what one pattern of the configuration satisfies -/
structure PatOk (cfg : Config) (m : Bool) (pg : PGraph) : Prop where
  wf : wf pg.pattern = true
  cont : contiguous pg.pattern = true
  anch : anchorsOk pg.pattern pg.anchors = true
  multi : pg.pattern.multi = m
  noloop : noLoopOnGroupNodes cfg pg.pattern = true
  hash : hashOk cfg pg.pattern = true

theorem CfgOk.pat {cfg : Config} {m : Bool} (c : CfgOk cfg m) {grp : Group} (hg : grp ∈ cfg)
    {pg : PGraph} (hp : pg ∈ grp.graphs) : PatOk cfg m pg := by
  have h1 := c.ok
  have h2 := c.edge
  have h3 := c.hash
  simp only [cfgOk, cfgEdgeOk, List.all_eq_true, Bool.and_eq_true, beq_iff_eq] at h1 h2 h3
  obtain ⟨⟨a, b⟩, d⟩ := (h1 grp hg).2 pg hp
  obtain ⟨e, f⟩ := h2 grp hg pg hp
  have k := h3 grp hg pg hp
  exact ⟨a, b, d, e, f, by simpa [List.all_eq_true] using k⟩

/-- what a successful replacement step looked at -/
theorem replaceNextNodeT_some {cfg : Config} {gt : Graph × Trace} {gs : List (Graph × Trace)}
    (h : replaceNextNodeT cfg gt = .ok (some gs)) :
    ∃ anchor a name grp, nextGroupNode cfg gt.1 = some (anchor, a) ∧ groupLabels cfg a = [name] ∧
      lookup cfg name = some grp ∧
      gs = grp.graphs.map fun sg =>
        (replaceNode gt.1 anchor sg.pattern sg.anchors,
         { symbols := gt.2.symbols ++ symbolsOf sg.pattern
           bonds := gt.2.bonds ++ bondLabelsOf sg.pattern
           replaced := gt.2.replaced + 1
           dropped := if sg.pattern.nodes.isEmpty
                      then gt.2.dropped ++ (gt.1.edgesOf anchor).map (·.2.2.2) else gt.2.dropped }) := by
  unfold replaceNextNodeT at h
  cases hn : nextGroupNode cfg gt.1 with
  | none => rw [hn] at h; cases h
  | some p =>
    obtain ⟨anchor, a⟩ := p
    rw [hn] at h
    simp only at h
    split at h
    · rename_i name hl
      cases hk : lookup cfg name with
      | none => rw [hk] at h; cases h
      | some grp =>
        rw [hk] at h
        simp only at h
        split at h
        · cases h
        · refine ⟨anchor, a, name, grp, rfl, hl, hk, ?_⟩
          cases h; rfl
    · cases h

theorem nextGroupNode_some {cfg : Config} {g : Graph} {x : Int} {a : NodeAttr}
    (h : nextGroupNode cfg g = some (x, a)) : (x, a) ∈ g.nodes ∧ isGroupNode cfg a = true := by
  unfold nextGroupNode at h
  exact ⟨List.mem_of_find?_eq_some h, by simpa using List.find?_some h⟩

theorem lookup_some {cfg : Config} {k : String} {grp : Group} (h : lookup cfg k = some grp) : grp ∈ cfg := by
  unfold lookup at h; exact List.mem_of_find?_eq_some h

/-! ### small facts about graphs -/

theorem edgeData_nil_of_not_hasEdge {g : Graph} {u v : Int} (h : g.hasEdge u v = false) : g.edgeData u v = [] := by
  rw [E.edgeData_row]
  apply E.lk_eq_nil
  intro hm
  have := (E.hasEdge_iff g u v).mpr hm
  rw [this] at h; cases h

theorem hasEdge_false_of_edgeData_nil {g : Graph} (w : E.WF g) {u v : Int} (h : g.edgeData u v = []) :
    g.hasEdge u v = false := by
  cases he : g.hasEdge u v with
  | false => rfl
  | true => exact absurd h (w.nonempty u v ((E.hasEdge_iff g u v).mp he))

theorem unren_ren {x u : Int} (h : u ≠ x) : unren x (ren x u) = u := by
  unfold unren ren
  by_cases h1 : u < x
  · simp [h1]
  · have h2 : ¬ (u - 1 < x) := by omega
    simp only [h1, h2, if_false]; omega

theorem noLoop_at {cfg : Config} {g : Graph} (h : noLoopOnGroupNodes cfg g = true) {p : Int × NodeAttr}
    (hp : p ∈ g.nodes) (hg : isGroupNode cfg p.2 = true) : g.hasEdge p.1 p.1 = false := by
  simp only [noLoopOnGroupNodes, List.all_eq_true] at h
  have := h p hp
  rw [hg] at this
  simpa using this

theorem hash_at {cfg : Config} {g : Graph} (h : hashOk cfg g = true) {p : Int × NodeAttr}
    (hp : p ∈ g.nodes) (hg : isGroupNode cfg p.2 = true) : p.2.symbol = some "#" := by
  simp only [hashOk, List.all_eq_true] at h
  have := h p hp
  rw [hg] at this
  simpa using this

/-- the domain of C13 at the next group node -/
theorem inDomain_of {cfg : Config} {m : Bool} {g : Graph} {x : Int} {a : NodeAttr} {pg : PGraph}
    (hw : wf g = true) (hc : contiguous g = true) (hl : noLoopOnGroupNodes cfg g = true) (hm : g.multi = m)
    (hx : (x, a) ∈ g.nodes) (hg : isGroupNode cfg a = true) (p : PatOk cfg m pg) :
    inDomain g x pg.pattern pg.anchors = true := by
  have h1 : g.hasNode x = true := (E.hasNode_iff g x).mpr (List.mem_map_of_mem (f := (·.1)) hx)
  have h2 : g.hasEdge x x = false := noLoop_at hl hx hg
  simp only [inDomain, Bool.and_eq_true, Bool.not_eq_true', beq_iff_eq]
  exact ⟨⟨⟨⟨⟨⟨⟨hw, hc⟩, h1⟩, h2⟩, p.wf⟩, p.cont⟩, p.anch⟩, by rw [p.multi, hm]⟩

/-! ### the nodes of the result -/

theorem mem_specNodes {g : Graph} {x : Int} {sub : Graph} {p : Int × NodeAttr} (h : p ∈ specNodes g x sub) :
    (∃ q ∈ g.nodes, q.1 ≠ x ∧ p = (ren x q.1, q.2)) ∨
    (∃ q ∈ sub.nodes, p = (q.1 + ((g.nodes.length : Int) - 1), q.2)) := by
  unfold specNodes at h
  rcases List.mem_append.mp h with h | h
  · obtain ⟨q, hq, rfl⟩ := List.mem_map.mp h
    have := List.mem_filter.mp hq
    exact Or.inl ⟨q, this.1, by simpa using this.2, rfl⟩
  · obtain ⟨q, hq, rfl⟩ := List.mem_map.mp h
    exact Or.inr ⟨q, hq, rfl⟩

theorem symbolsOf_specNodes (g : Graph) (x : Int) (sub : Graph) :
    (specNodes g x sub).map (fun p => p.2.symbol.getD "")
      = (g.nodes.filter (·.1 != x)).map (fun p => p.2.symbol.getD "") ++ symbolsOf sub := by
  simp [specNodes, symbolsOf, Function.comp_def]

/-- splitting off the node `x` of a list with distinct ids -/
theorem perm_split_node {β : Type} (f : Int × NodeAttr → β) (l : List (Int × NodeAttr)) (x : Int) (a : NodeAttr)
    (hn : (l.map (·.1)).Nodup) (hx : (x, a) ∈ l) :
    (l.map f).Perm ((l.filter (·.1 != x)).map f ++ [f (x, a)]) := by
  induction l with
  | nil => cases hx
  | cons y l ih =>
    rw [List.map_cons, List.nodup_cons] at hn
    rcases List.mem_cons.mp hx with rfl | hx
    · have hf : l.filter (·.1 != x) = l := by
        apply List.filter_eq_self.mpr
        intro q hq
        simp only [bne_iff_ne, ne_eq]
        intro e
        exact hn.1 (e ▸ List.mem_map_of_mem (f := (·.1)) hq)
      simp only [List.filter_cons, bne_self_eq_false, Bool.false_eq_true, if_false, hf, List.map_cons]
      exact (List.perm_append_singleton _ _).symm
    · have hne : y.1 ≠ x := by
        intro e
        exact hn.1 (e ▸ List.mem_map_of_mem (f := (·.1)) hx)
      have hb : (y.1 != x) = true := by simpa using hne
      simp only [List.filter_cons, hb, if_true, List.map_cons, List.cons_append]
      exact (ih hn.2 hx).cons _

/-! ### the invariant, node/symbol half -/

structure InvS (cfg : Config) (m : Bool) (gt : Graph × Trace) : Prop where
  wf : wf gt.1 = true
  cont : contiguous gt.1 = true
  noloop : noLoopOnGroupNodes cfg gt.1 = true
  hash : hashOk cfg gt.1 = true
  multi : gt.1.multi = m
  syms : (symbolsOf gt.1 ++ List.replicate gt.2.replaced "#").Perm gt.2.symbols

theorem contiguous_range {g : Graph} (hc : contiguous g = true) {p : Int × NodeAttr} (hp : p ∈ g.nodes) :
    0 ≤ p.1 ∧ p.1 < (g.nodes.length : Int) := by
  have : g.nodeIds = E.upto g.nodes.length := by unfold contiguous at hc; exact beq_iff_eq.mp hc
  have hm : p.1 ∈ g.nodeIds := List.mem_map_of_mem (f := (·.1)) hp
  rw [this] at hm
  exact E.mem_upto.mp hm

/-- the result of one replacement: graph-level facts -/
theorem replace_facts {cfg : Config} {m : Bool} {g : Graph} {x : Int} {a : NodeAttr} {pg : PGraph}
    (hw : wf g = true) (hc : contiguous g = true) (hl : noLoopOnGroupNodes cfg g = true)
    (hh : hashOk cfg g = true) (hm : g.multi = m)
    (hx : (x, a) ∈ g.nodes) (hg : isGroupNode cfg a = true) (p : PatOk cfg m pg) :
    wf (replaceNode g x pg.pattern pg.anchors) = true ∧
    contiguous (replaceNode g x pg.pattern pg.anchors) = true ∧
    noLoopOnGroupNodes cfg (replaceNode g x pg.pattern pg.anchors) = true ∧
    hashOk cfg (replaceNode g x pg.pattern pg.anchors) = true ∧
    (replaceNode g x pg.pattern pg.anchors).multi = m := by
  have hd := inDomain_of hw hc hl hm hx hg p
  have hnodes := (replace_exact g x pg.pattern pg.anchors hd).nodes
  have hwr := replace_wf g x pg.pattern pg.anchors hd
  refine ⟨hwr, replace_contiguous g x pg.pattern pg.anchors hd, ?_, ?_, ?_⟩
  · -- no self-loop on a group node of the result
    simp only [noLoopOnGroupNodes, List.all_eq_true, Bool.not_eq_true', Bool.and_eq_false_iff]
    intro q hq
    by_cases hgq : isGroupNode cfg q.2 = true
    · right
      apply hasEdge_false_of_edgeData_nil (E.WF_of_wf hwr)
      have hlab := replace_labels g x pg.pattern pg.anchors hd q.1 q.1
      have hnil : specLabels g x pg.pattern pg.anchors q.1 q.1 = [] := by
        rw [hnodes] at hq
        rcases mem_specNodes hq with ⟨q0, hq0, hne, rfl⟩ | ⟨q0, hq0, rfl⟩
        · have hr := contiguous_range hc hq0
          have hxr := contiguous_range hc hx
          have hlt : ren x q0.1 < (g.nodes.length : Int) - 1 := by
            unfold ren; simp only at hxr; split <;> omega
          unfold specLabels
          simp only [hlt, and_self, if_true, unren_ren hne, labelsBetween]
          rw [edgeData_nil_of_not_hasEdge (noLoop_at hl hq0 hgq)]; rfl
        · have hr := contiguous_range p.cont hq0
          have hge : ¬ (q0.1 + ((g.nodes.length : Int) - 1) < (g.nodes.length : Int) - 1) := by omega
          have hge' : (g.nodes.length : Int) - 1 ≤ q0.1 + ((g.nodes.length : Int) - 1) := by omega
          unfold specLabels
          simp only [hge, and_self, if_false, hge', if_true, labelsBetween]
          have e : q0.1 + ((g.nodes.length : Int) - 1) - ((g.nodes.length : Int) - 1) = q0.1 := by omega
          rw [e, edgeData_nil_of_not_hasEdge (noLoop_at p.noloop hq0 hgq)]; rfl
      rw [hnil] at hlab
      unfold labelsBetween at hlab
      exact List.map_eq_nil_iff.mp hlab
    · left; simpa using hgq
  · -- group nodes of the result carry "#"
    simp only [hashOk, List.all_eq_true, Bool.or_eq_true, Bool.not_eq_true', beq_iff_eq]
    intro q hq
    by_cases hgq : isGroupNode cfg q.2 = true
    · right
      rw [hnodes] at hq
      rcases mem_specNodes hq with ⟨q0, hq0, _, rfl⟩ | ⟨q0, hq0, rfl⟩
      · exact hash_at hh hq0 (p := q0) hgq
      · exact hash_at p.hash hq0 (p := q0) hgq
    · left; simpa using hgq
  · rw [replaceNode_multi]; exact hm

/-- the symbols of the result of one replacement -/
theorem replace_symbols {cfg : Config} {m : Bool} {g : Graph} {x : Int} {a : NodeAttr} {pg : PGraph}
    (hw : wf g = true) (hc : contiguous g = true) (hl : noLoopOnGroupNodes cfg g = true)
    (hh : hashOk cfg g = true) (hm : g.multi = m)
    (hx : (x, a) ∈ g.nodes) (hg : isGroupNode cfg a = true) (p : PatOk cfg m pg) :
    (symbolsOf (replaceNode g x pg.pattern pg.anchors) ++ ["#"]).Perm (symbolsOf g ++ symbolsOf pg.pattern) := by
  have hd := inDomain_of hw hc hl hm hx hg p
  have hnodes := (replace_exact g x pg.pattern pg.anchors hd).nodes
  have hsym : a.symbol = some "#" := hash_at hh hx hg
  have hnd : (g.nodes.map (·.1)).Nodup := (E.WF_of_wf hw).nodup
  have hsplit := perm_split_node (fun p => p.2.symbol.getD "") g.nodes x a hnd hx
  simp only [hsym, Option.getD_some] at hsplit
  have e1 : symbolsOf (replaceNode g x pg.pattern pg.anchors)
      = (g.nodes.filter (·.1 != x)).map (fun p => p.2.symbol.getD "") ++ symbolsOf pg.pattern := by
    unfold symbolsOf; rw [hnodes]; exact symbolsOf_specNodes g x pg.pattern
  rw [e1]
  have e2 : symbolsOf g = g.nodes.map (fun p => p.2.symbol.getD "") := rfl
  rw [e2]
  refine List.Perm.trans ?_ (List.Perm.append_right _ hsplit.symm)
  simp only [List.append_assoc]
  exact List.Perm.append_left _ List.perm_append_comm

theorem InvS_preserved {cfg : Config} {m : Bool} (c : CfgOk cfg m) : Preserved cfg (InvS cfg m) := by
  intro gt gs hinv hstep g' hg'
  obtain ⟨anchor, a, name, grp, hn, _, hk, rfl⟩ := replaceNextNodeT_some hstep
  obtain ⟨sg, hsg, rfl⟩ := List.mem_map.mp hg'
  have hp := c.pat (lookup_some hk) hsg
  obtain ⟨hx, hgn⟩ := nextGroupNode_some hn
  obtain ⟨f1, f2, f3, f4, f5⟩ := replace_facts hinv.wf hinv.cont hinv.noloop hinv.hash hinv.multi hx hgn hp
  refine ⟨f1, f2, f3, f4, f5, ?_⟩
  have hs := replace_symbols hinv.wf hinv.cont hinv.noloop hinv.hash hinv.multi hx hgn hp
  show (symbolsOf (replaceNode gt.1 anchor sg.pattern sg.anchors) ++ List.replicate (gt.2.replaced + 1) "#").Perm
    (gt.2.symbols ++ symbolsOf sg.pattern)
  rw [List.replicate_succ]
  -- r ++ "#" :: rep  ~  (r ++ ["#"]) ++ rep ~ (g ++ sub) ++ rep ~ (g ++ rep) ++ sub
  have h1 : (symbolsOf (replaceNode gt.1 anchor sg.pattern sg.anchors) ++ "#" :: List.replicate gt.2.replaced "#").Perm
      ((symbolsOf gt.1 ++ symbolsOf sg.pattern) ++ List.replicate gt.2.replaced "#") := by
    have : symbolsOf (replaceNode gt.1 anchor sg.pattern sg.anchors) ++ "#" :: List.replicate gt.2.replaced "#"
        = (symbolsOf (replaceNode gt.1 anchor sg.pattern sg.anchors) ++ ["#"]) ++ List.replicate gt.2.replaced "#" := by
      simp
    rw [this]
    exact List.Perm.append_right _ hs
  refine h1.trans ?_
  have h2 : ((symbolsOf gt.1 ++ symbolsOf sg.pattern) ++ List.replicate gt.2.replaced "#").Perm
      ((symbolsOf gt.1 ++ List.replicate gt.2.replaced "#") ++ symbolsOf sg.pattern) := by
    simp only [List.append_assoc]
    exact List.Perm.append_left _ List.perm_append_comm
  exact h2.trans (List.Perm.append_right _ hinv.syms)

end C14.Q
