import FGVerif.Model.C16
namespace C16

/-! ### the loop of `apply_rule` in closed form -/

/-- `connected_only` filter -/
def keep (connectedOnly : Bool) (its : ITSGraph) : Bool := !connectedOnly || isConnected its

/-- keep the first element of every hash class -/
def dedupFirst {α : Type} (key : α → Hash) : List Hash → List α → List α
  | _, [] => []
  | seen, x :: xs =>
      if seen.contains (key x) then dedupFirst key seen xs else x :: dedupFirst key (key x :: seen) xs

def takeOpt {α : Type} (n : Option Nat) (l : List α) : List α :=
  match n with
  | none => l
  | some n => l.take n

/-- the entries the loop body appends, given the keys already present -/
def accepted (wl : ITSGraph → Hash) (unique connectedOnly : Bool) : List (Option Hash) → List ITSGraph → Acc
  | _, [] => []
  | keys, x :: xs =>
      if connectedOnly && !isConnected x then accepted wl unique connectedOnly keys xs
      else if unique then
        if keys.any (· == some (wl x)) then accepted wl unique connectedOnly keys xs
        else (some (wl x), x) :: accepted wl unique connectedOnly (keys ++ [some (wl x)]) xs
      else (none, x) :: accepted wl unique connectedOnly (keys ++ [none]) xs

theorem loop_eq (wl : ITSGraph → Hash) (g : MolGraph) (rule : Rule) (n : Option Nat) (unique conn : Bool)
    (ms : List Match) (acc : Acc) (hacc : ∀ k, n = some k → acc.length ≤ k) :
    loop wl g rule n unique conn ms acc
      = takeOpt n (acc ++ accepted wl unique conn (acc.map (·.1)) (ms.map (applyMatch g rule))) := by
  induction ms generalizing acc with
  | nil =>
    simp only [loop, List.map_nil, accepted, List.append_nil]
    cases n with
    | none => rfl
    | some k => exact (List.take_of_length_le (hacc k rfl)).symm
  | cons m ms ih =>
    rw [loop]
    by_cases hl : limitReached n acc.length = true
    · simp only [hl, if_true]
      cases n with
      | none => simp [limitReached] at hl
      | some k =>
        have h1 := hacc k rfl
        have h2 : k ≤ acc.length := by simpa [limitReached] using hl
        have : k = acc.length := by omega
        subst this
        simp [takeOpt]
    · simp only [hl]
      have hlt : ∀ k, n = some k → acc.length < k := by
        intro k hk; subst hk; simp [limitReached] at hl; omega
      rw [List.map_cons, accepted]
      unfold step
      by_cases hc : (conn && !isConnected (applyMatch g rule m)) = true
      · simp only [hc, if_true]
        exact ih acc hacc
      · simp only [hc]
        cases unique with
        | true =>
          simp only [if_true]
          rw [List.any_map]
          by_cases hk : acc.any ((fun x => x == some (wl (applyMatch g rule m))) ∘ fun x => x.1) = true
          · have hk' : acc.any (fun p => p.1 == some (wl (applyMatch g rule m))) = true := hk
            simp only [hk, hk', if_true]
            exact ih acc hacc
          · have hk' : ¬ acc.any (fun p => p.1 == some (wl (applyMatch g rule m))) = true := hk
            simp only [hk, hk']
            rw [ih _ (by intro k hk; have := hlt k hk; simp; omega)]
            simp [List.append_assoc]
        | false =>
          simp only [Bool.false_eq_true, if_false]
          rw [ih _ (by intro k hk; have := hlt k hk; simp; omega)]
          simp [List.append_assoc]

theorem keep_false (conn : Bool) (x : ITSGraph) (hc : (conn && !isConnected x) = true) : keep conn x = false := by
  unfold keep; cases conn <;> cases hx : isConnected x <;> simp_all

theorem keep_true (conn : Bool) (x : ITSGraph) (hc : ¬ (conn && !isConnected x) = true) : keep conn x = true := by
  unfold keep; cases conn <;> cases hx : isConnected x <;> simp_all

theorem accepted_nonunique (wl : ITSGraph → Hash) (conn : Bool) (keys : List (Option Hash)) (xs : List ITSGraph) :
    (accepted wl false conn keys xs).map (·.2) = xs.filter (keep conn) := by
  induction xs generalizing keys with
  | nil => rfl
  | cons x xs ih =>
    rw [accepted, List.filter_cons]
    by_cases hc : (conn && !isConnected x) = true
    · simp only [hc, if_true, keep_false conn x hc, Bool.false_eq_true, if_false]
      exact ih keys
    · simp only [hc, keep_true conn x hc, if_true, Bool.false_eq_true, if_false, List.map_cons]
      rw [ih]

theorem accepted_unique (wl : ITSGraph → Hash) (conn : Bool) (keys : List (Option Hash)) (seen : List Hash)
    (hks : ∀ h, keys.any (· == some h) = seen.contains h) (xs : List ITSGraph) :
    (accepted wl true conn keys xs).map (·.2) = dedupFirst wl seen (xs.filter (keep conn)) := by
  induction xs generalizing keys seen with
  | nil => rfl
  | cons x xs ih =>
    rw [accepted, List.filter_cons]
    by_cases hc : (conn && !isConnected x) = true
    · simp only [hc, if_true, keep_false conn x hc, Bool.false_eq_true, if_false]
      exact ih keys seen hks
    · simp only [hc, keep_true conn x hc, if_true, dedupFirst, hks, Bool.false_eq_true, if_false]
      by_cases hs : seen.contains (wl x) = true
      · simp only [hs, if_true]
        exact ih keys seen hks
      · simp only [hs, Bool.false_eq_true, if_false]
        rw [List.map_cons, ih (keys ++ [some (wl x)]) (wl x :: seen)]
        intro h
        rw [List.any_append, hks h]
        by_cases e : h = wl x
        · subst e; simp
        · have e' : ¬ wl x = h := fun c => e c.symm
          simp [e, e']

/-- the ITS graphs `apply_rule` is offered: one per mapping, then the `connected_only` filter -/
def candidates (g : MolGraph) (rule : Rule) (ms : List Match) (conn : Bool) : List ITSGraph :=
  (ms.map (applyMatch g rule)).filter (keep conn)

/-- `apply_rule` in closed form -/
theorem applyRule_eq (wl : ITSGraph → Hash) (g : MolGraph) (rule : Rule) (ms : List Match) (n : Option Nat)
    (unique conn : Bool) :
    applyRule wl g rule ms n unique conn
      = takeOpt n (if unique then dedupFirst wl [] (candidates g rule ms conn) else candidates g rule ms conn) := by
  unfold applyRule
  rw [loop_eq wl g rule n unique conn ms [] (by intro k _; simp)]
  simp only [List.nil_append, List.map_nil]
  have hmap : ∀ (l : Acc), (takeOpt n l).map (·.2) = takeOpt n (l.map (·.2)) := by
    intro l; cases n <;> simp [takeOpt, List.map_take]
  rw [hmap]
  cases unique with
  | true => simp only [if_true]; rw [accepted_unique wl conn [] [] (by intro h; simp)]; rfl
  | false => simp only [Bool.false_eq_true, if_false]; rw [accepted_nonunique]; rfl


/-! ### `dedupFirst`: one representative per hash class, the first one -/

theorem dedupFirst_sublist {α : Type} (key : α → Hash) (seen : List Hash) (xs : List α) :
    (dedupFirst key seen xs).Sublist xs := by
  induction xs generalizing seen with
  | nil => exact List.Sublist.slnil
  | cons x xs ih =>
    rw [dedupFirst]
    split
    · exact (ih seen).cons x
    · exact (ih _).cons_cons x

theorem dedupFirst_fresh {α : Type} (key : α → Hash) (seen : List Hash) (xs : List α) :
    ∀ y ∈ dedupFirst key seen xs, key y ∉ seen := by
  induction xs generalizing seen with
  | nil => intro y hy; simp [dedupFirst] at hy
  | cons x xs ih =>
    intro y hy
    rw [dedupFirst] at hy
    by_cases hs : seen.contains (key x) = true
    · simp only [hs, if_true] at hy; exact ih seen y hy
    · simp only [hs, Bool.false_eq_true, if_false] at hy
      rcases List.mem_cons.mp hy with rfl | hm
      · simpa using hs
      · have := ih _ y hm
        intro hc; exact this (List.mem_cons_of_mem _ hc)

theorem dedupFirst_nodup {α : Type} (key : α → Hash) (seen : List Hash) (xs : List α) :
    ((dedupFirst key seen xs).map key).Nodup := by
  induction xs generalizing seen with
  | nil => simp [dedupFirst]
  | cons x xs ih =>
    rw [dedupFirst]
    by_cases hs : seen.contains (key x) = true
    · simp only [hs, if_true]; exact ih seen
    · simp only [hs, Bool.false_eq_true, if_false]
      rw [List.map_cons, List.nodup_cons]
      refine ⟨?_, ih _⟩
      intro hc
      obtain ⟨y, hy, hk⟩ := List.mem_map.mp hc
      have := dedupFirst_fresh key (key x :: seen) xs y hy
      rw [hk] at this
      exact this (by simp)

theorem dedupFirst_covers {α : Type} (key : α → Hash) (seen : List Hash) (xs : List α) :
    ∀ x ∈ xs, key x ∈ seen ∨ key x ∈ (dedupFirst key seen xs).map key := by
  induction xs generalizing seen with
  | nil => intro x hx; simp at hx
  | cons x xs ih =>
    intro z hz
    rw [dedupFirst]
    by_cases hs : seen.contains (key x) = true
    · simp only [hs, if_true]
      rcases List.mem_cons.mp hz with rfl | hm
      · left; simpa using hs
      · exact ih seen z hm
    · simp only [hs, Bool.false_eq_true, if_false, List.map_cons]
      rcases List.mem_cons.mp hz with rfl | hm
      · right; simp
      · rcases ih (key x :: seen) z hm with h | h
        · rcases List.mem_cons.mp h with h | h
          · right; rw [h]; simp
          · left; exact h
        · right; exact List.mem_cons_of_mem _ h

theorem dedupFirst_first {α : Type} (key : α → Hash) (seen : List Hash) (xs : List α) :
    ∀ y ∈ dedupFirst key seen xs, xs.find? (fun x => key x == key y) = some y := by
  induction xs generalizing seen with
  | nil => intro y hy; simp [dedupFirst] at hy
  | cons x xs ih =>
    intro y hy
    have hfresh := dedupFirst_fresh key seen (x :: xs) y hy
    rw [dedupFirst] at hy
    by_cases hs : seen.contains (key x) = true
    · simp only [hs, if_true] at hy
      have hne : ¬ key x = key y := by
        intro hc; apply hfresh; rw [← hc]; simpa using hs
      rw [List.find?_cons]
      have hb : (key x == key y) = false := by simpa using hne
      simp only [hb]
      exact ih seen y hy
    · simp only [hs, Bool.false_eq_true, if_false] at hy
      rcases List.mem_cons.mp hy with rfl | hm
      · simp
      · have := dedupFirst_fresh key (key x :: seen) xs y hm
        have hne : ¬ key x = key y := by
          intro hc; apply this; rw [hc]; simp
        rw [List.find?_cons]
        have hb : (key x == key y) = false := by simpa using hne
        simp only [hb]
        exact ih _ y hm

end C16
