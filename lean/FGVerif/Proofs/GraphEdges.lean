import FGVerif.Proofs.C11Rc
/-!
  Reusable facts about networkx's edge view `Graph.edges` (Model/Graph.lean: for every node in
  adjacency order, every neighbour not yet seen as a source) on a well-formed simple undirected
  graph.  Core Lean only.

  The hypotheses are the ones of the C11 proofs: `C11.WF g` and `C11.Simple g`, obtained from the
  decidable predicates `C11.wellFormed g`, `C11.simple g` (Model/C11.lean) through
  `C11.wf_of_wellFormed`, `C11.simple_of_simple`.  The membership half rests on the C11 lemmas
  `C11.mem_edges_go`, `C11.edges_good`, `C11.bond_in_edges` (Proofs/C11Rc.lean; imported, not
  duplicated).  New here: every listed edge has key 0 and joins two nodes, **no unordered pair is
  listed twice** (`edges_pairwise`, `edges_count_pair`), and the link between the adjacency
  entries of a graph and its bond function `bond?` (`Tidy`, `hasEntry_iff_bond?`), with the
  preservation of `Tidy` by `add_edge`.

  * `edges_iff`            (u,v,0,l) ∈ g.edges ∨ (v,u,0,l) ∈ g.edges ↔ bond? u v = some l ∧ v ∈ neighbors u
  * `mem_edges_entry`      what a listed edge is: key 0, both ends nodes, the bond in both directions
  * `edges_pairwise`       no two positions of `g.edges` carry the same unordered pair
  * `edges_count_pair`     an adjacent pair is listed exactly once (in one of its two orientations)
  * `edges_count_pair_zero` a non-adjacent pair is never listed
  * `edges_nodup`          `g.edges` has no duplicates
  * `hasEntry_iff_bond?`   on a `Tidy` graph: adjacency entry (a, b, l) ↔ `bond? a b = some l`
  * `tidy_of_wf`, `addEdge_tidy`
-/
namespace Graph
open C11 (WF Simple)

/-- `e` is listed on the unordered pair `{a, b}` -/
def onPair (a b : Int) (e : Int × Int × Nat × Label) : Bool :=
  (e.1 == a && e.2.1 == b) || (e.1 == b && e.2.1 == a)

/-- two listed edges carry the same unordered pair -/
def SamePair (e f : Int × Int × Nat × Label) : Prop :=
  (e.1 = f.1 ∧ e.2.1 = f.2.1) ∨ (e.1 = f.2.1 ∧ e.2.1 = f.1)

theorem onPair_iff (a b : Int) (e : Int × Int × Nat × Label) :
    onPair a b e = true ↔ (e.1 = a ∧ e.2.1 = b) ∨ (e.1 = b ∧ e.2.1 = a) := by
  simp [onPair]

theorem samePair_of_onPair {a b : Int} {e f : Int × Int × Nat × Label}
    (he : onPair a b e = true) (hf : onPair a b f = true) : SamePair e f := by
  rw [onPair_iff] at he hf
  unfold SamePair
  omega

theorem keys_nodup (g : Graph) (hw : WF g) : (g.adj.map (·.1)).Nodup := by
  have := hw.keys; unfold keys at this; rw [this]; exact hw.nodup

/-! ### membership -/

/-- what a listed edge is: key 0, source a node, target a neighbour (hence a node), and the label
    is the bond in both directions -/
theorem mem_edges_entry (g : Graph) (hw : WF g) (hs : Simple g) {a b : Int} {k : Nat} {l : Label}
    (h : (a, b, k, l) ∈ g.edges) :
    k = 0 ∧ a ∈ g.nodeIds ∧ b ∈ g.nodeIds ∧ b ∈ g.neighbors a ∧ g.bond? a b = some l ∧ g.bond? b a = some l := by
  obtain ⟨hab, hba⟩ := C11.edges_good g hw hs a b k l h
  have hnb : b ∈ g.neighbors a := (C11.bond?_isSome_iff g hs a b).mp ⟨l, hab⟩
  obtain ⟨pre, row, post, e, -, -, kds, hb, hk⟩ := (C11.mem_edges_go g.adj [] a b k l).mp h
  have hrow : g.adjRow a = row := by
    rw [adjRow_eq]; exact rowOf_of_mem _ (keys_nodup g hw) a row (by rw [e]; simp)
  have hd : g.edgeData a b = kds := C11.edgeData_of_mem_row g hw a (b, kds) (hrow ▸ hb)
  have hk0 : k = 0 := by
    rw [C11.edgeData_of_bond? g hs a b l hab] at hd
    subst hd
    simp only [List.mem_singleton, Prod.mk.injEq] at hk
    exact hk.1
  have ha : a ∈ g.nodeIds := by
    rw [← hw.keys]
    show a ∈ g.adj.map (·.1)
    rw [e]; simp
  exact ⟨hk0, ha, hw.nbrNode a b hnb, hnb, hab, hba⟩

/-- **membership characterisation**: a bond is listed, in one of its two orientations, iff it is
    an adjacency entry -/
theorem edges_iff (g : Graph) (hw : WF g) (hs : Simple g) (u v : Int) (l : Label) :
    ((u, v, 0, l) ∈ g.edges ∨ (v, u, 0, l) ∈ g.edges) ↔ (g.bond? u v = some l ∧ v ∈ g.neighbors u) := by
  constructor
  · rintro (h | h)
    · obtain ⟨-, -, -, hn, hb, -⟩ := mem_edges_entry g hw hs h
      exact ⟨hb, hn⟩
    · obtain ⟨-, -, -, -, -, hb⟩ := mem_edges_entry g hw hs h
      exact ⟨hb, (C11.bond?_isSome_iff g hs u v).mp ⟨l, hb⟩⟩
  · rintro ⟨hb, -⟩
    exact C11.bond_in_edges g hw hs u v l hb

/-- every bond of the graph is on the list under `onPair` -/
theorem exists_onPair (g : Graph) (hw : WF g) (hs : Simple g) {u v : Int} {l : Label} (h : g.bond? u v = some l) :
    ∃ e ∈ g.edges, onPair u v e = true ∧ e.2.2 = (0, l) := by
  rcases C11.bond_in_edges g hw hs u v l h with h | h
  · exact ⟨_, h, by simp [onPair], rfl⟩
  · exact ⟨_, h, by simp [onPair], rfl⟩

/-- a listed edge on the pair `{u, v}` carries the bond of `u – v` -/
theorem label_of_onPair (g : Graph) (hw : WF g) (hs : Simple g) {u v : Int} {e : Int × Int × Nat × Label}
    (he : e ∈ g.edges) (hp : onPair u v e = true) : g.bond? u v = some e.2.2.2 ∧ g.bond? v u = some e.2.2.2 := by
  obtain ⟨a, b, k, l⟩ := e
  obtain ⟨-, -, -, -, hab, hba⟩ := mem_edges_entry g hw hs he
  rcases (onPair_iff u v _).1 hp with ⟨h1, h2⟩ | ⟨h1, h2⟩
  · simp only at h1 h2; subst h1; subst h2; exact ⟨hab, hba⟩
  · simp only at h1 h2; subst h1; subst h2; exact ⟨hba, hab⟩

/-! ### each unordered pair at most once -/

theorem mem_go_src_tgt (adj : List (Int × Row)) (seen : List Int) (f : Int × Int × Nat × Label)
    (h : f ∈ Graph.edges.go adj seen) : f.1 ∈ adj.map (·.1) ∧ f.2.1 ∉ seen := by
  obtain ⟨a, b, k, l⟩ := f
  obtain ⟨pre, row, post, e, hs, -, -⟩ := (C11.mem_edges_go adj seen a b k l).mp h
  exact ⟨by rw [e]; simp, hs⟩

/-- the seen-set iteration never lists an unordered pair twice; needs only distinct row keys,
    distinct neighbours inside a row and at most one key per neighbour (no symmetry) -/
theorem go_pairwise (adj : List (Int × Row)) (seen : List Int) (hk : (adj.map (·.1)).Nodup)
    (hr : ∀ r ∈ adj, (r.2.map (·.1)).Nodup ∧ ∀ e ∈ r.2, e.2.length ≤ 1) :
    (Graph.edges.go adj seen).Pairwise (fun e f => ¬ SamePair e f) := by
  induction adj generalizing seen with
  | nil => simp [Graph.edges.go]
  | cons c adj ih =>
    obtain ⟨u, row⟩ := c
    simp only [List.map_cons, List.nodup_cons] at hk
    have hrow := hr (u, row) List.mem_cons_self
    simp only [Graph.edges.go]
    refine List.pairwise_append.2 ⟨?_, ih (u :: seen) hk.2 (fun r h => hr r (List.mem_cons_of_mem _ h)), ?_⟩
    · -- inside one row: same source, distinct targets
      refine List.pairwise_flatMap.2 ⟨?_, ?_⟩
      · intro r hrm
        have hrm' : r ∈ row := (List.mem_filter.1 hrm).1
        have hlen := hrow.2 r hrm'
        match hd : r.2, hlen with
        | [], _ => simp
        | [kd], _ => simp
      · have hnd : (row.filter fun r => !seen.contains r.1).Pairwise (fun r1 r2 => r1.1 ≠ r2.1) :=
          (List.pairwise_map.1 hrow.1).sublist List.filter_sublist
        refine hnd.imp ?_
        intro r1 r2 hne x hx y hy hsame
        obtain ⟨kd1, -, rfl⟩ := List.mem_map.1 hx
        obtain ⟨kd2, -, rfl⟩ := List.mem_map.1 hy
        unfold SamePair at hsame
        simp only at hsame
        omega
    · intro e he f hf
      have hsrc : e.1 = u := by
        obtain ⟨r, -, hx⟩ := List.mem_flatMap.1 he
        obtain ⟨kd, -, rfl⟩ := List.mem_map.1 hx
        rfl
      obtain ⟨hf1, hf2⟩ := mem_go_src_tgt adj (u :: seen) f hf
      have hfu : f.2.1 ≠ u := fun h => hf2 (h ▸ List.mem_cons_self)
      have hfk : f.1 ≠ u := fun h => hk.1 (h ▸ hf1)
      unfold SamePair
      omega

theorem length_le_one_of_pairwise {α : Type} {R : α → α → Prop} {l : List α} (hp : l.Pairwise R)
    (h : ∀ x ∈ l, ∀ y ∈ l, ¬ R x y) : l.length ≤ 1 := by
  match l, hp, h with
  | [], _, _ => simp
  | [_], _, _ => simp
  | x :: y :: t, hp, h =>
    have := (List.pairwise_cons.1 hp).1 y List.mem_cons_self
    exact absurd this (h x List.mem_cons_self y (List.mem_cons_of_mem _ List.mem_cons_self))

theorem pairwise_forall_ne {α : Type} {R : α → α → Prop} (hsym : ∀ x y, R x y → R y x) {l : List α}
    (hp : l.Pairwise R) : ∀ x ∈ l, ∀ y ∈ l, x ≠ y → R x y := by
  induction l with
  | nil => intro x hx; simp at hx
  | cons a t ih =>
    obtain ⟨h1, h2⟩ := List.pairwise_cons.1 hp
    intro x hx y hy hne
    rcases List.mem_cons.1 hx with hxa | hxt <;> rcases List.mem_cons.1 hy with hya | hyt
    · exact absurd (hxa.trans hya.symm) hne
    · exact hxa ▸ h1 y hyt
    · exact hya ▸ hsym _ _ (h1 x hxt)
    · exact ih h2 x hxt y hyt hne

theorem samePair_symm {e f : Int × Int × Nat × Label} (h : SamePair e f) : SamePair f e := by
  unfold SamePair at h ⊢
  omega

/-- structural form of the hypotheses of `go_pairwise`, from `WF`/`Simple` -/
theorem rows_of_wf (g : Graph) (hw : WF g) (hs : Simple g) :
    ∀ r ∈ g.adj, (r.2.map (·.1)).Nodup ∧ ∀ e ∈ r.2, e.2.length = 1 := by
  intro r hr
  have hrow : g.adjRow r.1 = r.2 := by
    rw [adjRow_eq]; exact rowOf_of_mem _ (keys_nodup g hw) r.1 r.2 hr
  refine ⟨hrow ▸ hw.rowNodup r.1, ?_⟩
  intro e he
  have he' : e ∈ g.adjRow r.1 := hrow ▸ he
  have hn : e.1 ∈ g.neighbors r.1 := List.mem_map.2 ⟨e, he', rfl⟩
  obtain ⟨l, hl⟩ := hs.single r.1 e.1 hn
  rw [C11.edgeData_of_mem_row g hw r.1 e he'] at hl
  rw [hl]; rfl

/-- **no unordered pair twice**: two different positions of `g.edges` never carry the same
    unordered pair of atoms -/
theorem edges_pairwise (g : Graph) (hw : WF g) (hs : Simple g) :
    g.edges.Pairwise (fun e f => ¬ SamePair e f) := by
  unfold Graph.edges
  apply go_pairwise g.adj [] (keys_nodup g hw)
  intro r hr
  obtain ⟨h1, h2⟩ := rows_of_wf g hw hs r hr
  exact ⟨h1, fun e he => by rw [h2 e he]; exact Nat.le_refl 1⟩

/-- **each adjacent unordered pair is listed exactly once** (in one of its two orientations) -/
theorem edges_count_pair (g : Graph) (hw : WF g) (hs : Simple g) {u v : Int} (h : v ∈ g.neighbors u) :
    g.edges.countP (onPair u v) = 1 := by
  obtain ⟨l, hl⟩ := (C11.bond?_isSome_iff g hs u v).mpr h
  obtain ⟨e, he, hp, -⟩ := exists_onPair g hw hs hl
  rw [List.countP_eq_length_filter]
  have h1 : (g.edges.filter (onPair u v)).length ≤ 1 := by
    apply length_le_one_of_pairwise ((edges_pairwise g hw hs).filter _)
    intro x hx y hy hn
    exact hn (samePair_of_onPair (List.mem_filter.1 hx).2 (List.mem_filter.1 hy).2)
  have h2 : 0 < (g.edges.filter (onPair u v)).length :=
    List.length_pos_of_mem (List.mem_filter.2 ⟨he, hp⟩)
  omega

/-- a non-adjacent pair is never listed -/
theorem edges_count_pair_zero (g : Graph) (hw : WF g) (hs : Simple g) {u v : Int} (h : v ∉ g.neighbors u) :
    g.edges.countP (onPair u v) = 0 := by
  rw [List.countP_eq_zero]
  intro e he hp
  have := (label_of_onPair g hw hs he hp).1
  exact h ((C11.bond?_isSome_iff g hs u v).mp ⟨_, this⟩)

/-- the edge list has no duplicates -/
theorem edges_nodup (g : Graph) (hw : WF g) (hs : Simple g) : g.edges.Nodup := by
  refine (edges_pairwise g hw hs).imp ?_
  intro e f h heq
  exact h (heq ▸ Or.inl ⟨rfl, rfl⟩)

/-- the exactly-once statement with the listed element named: for an adjacent pair there is one
    listed edge on it, it has key 0 and the bond as label, and every listed edge on the pair is it -/
theorem edges_unique (g : Graph) (hw : WF g) (hs : Simple g) {u v : Int} {l : Label} (h : g.bond? u v = some l) :
    ∃ e ∈ g.edges, onPair u v e = true ∧ e.2.2 = (0, l) ∧ ∀ f ∈ g.edges, onPair u v f = true → f = e := by
  obtain ⟨e, he, hp, hl⟩ := exists_onPair g hw hs h
  refine ⟨e, he, hp, hl, ?_⟩
  intro f hf hpf
  obtain ⟨a, b, k, l1⟩ := e
  obtain ⟨a', b', k', l2⟩ := f
  obtain ⟨hk, -, -, -, -, -⟩ := mem_edges_entry g hw hs he
  obtain ⟨hk', -, -, -, -, -⟩ := mem_edges_entry g hw hs hf
  have hl1 := (label_of_onPair g hw hs he hp).1
  have hl2 := (label_of_onPair g hw hs hf hpf).1
  simp only at hl1 hl2
  have hll : l2 = l1 := by rw [hl1] at hl2; exact (Option.some.inj hl2).symm
  -- same orientation, otherwise the two positions would carry the same pair twice
  have hnodup := edges_pairwise g hw hs
  have hsame : SamePair (a', b', k', l2) (a, b, k, l1) := samePair_of_onPair hpf hp
  rcases hsame with ⟨h1, h2⟩ | ⟨h1, h2⟩
  · simp only at h1 h2
    subst h1 h2 hk hk' hll; rfl
  · simp only at h1 h2
    subst h1 h2 hk hk' hll
    by_cases hab : a' = b'
    · subst hab; rfl
    · -- (a', b') and (b', a') both listed: two different elements on the same pair
      exfalso
      have hne : ((a', b', 0, l2) : Int × Int × Nat × Label) ≠ (b', a', 0, l2) := by
        intro heq
        simp only [Prod.mk.injEq] at heq
        exact hab heq.1
      exact pairwise_forall_ne (fun x y hxy hyx => hxy (samePair_symm hyx)) hnodup _ hf _ he hne
        (Or.inr ⟨rfl, rfl⟩)

/-! ### adjacency entries and the bond function -/

/-- rows are keyed by distinct ids, neighbours inside a row are distinct, one key per neighbour -/
structure Tidy (g : Graph) : Prop where
  keysNodup : (g.adj.map (·.1)).Nodup
  rows : ∀ r ∈ g.adj, (r.2.map (·.1)).Nodup ∧ ∀ e ∈ r.2, e.2.length = 1

theorem tidy_of_wf (g : Graph) (hw : WF g) (hs : Simple g) : Tidy g :=
  ⟨keys_nodup g hw, rows_of_wf g hw hs⟩

/-- `(a, b, l)` is an entry of the adjacency structure -/
def HasEntry (g : Graph) (a b : Int) (l : Label) : Prop :=
  ∃ r ∈ g.adj, r.1 = a ∧ ∃ e ∈ r.2, e.1 = b ∧ ∃ kd ∈ e.2, kd.2 = l

theorem rowOf_ne_nil_mem {β : Type} (adj : List (Int × List β)) (x : Int) (h : rowOf adj x ≠ []) :
    (x, rowOf adj x) ∈ adj := by
  apply rowOf_mem_of_key
  apply Classical.byContradiction
  intro hn
  exact h (rowOf_of_not_mem adj x hn)

/-- what `bond?` reads is an adjacency entry (any graph) -/
theorem hasEntry_of_bond? (g : Graph) {a b : Int} {l : Label} (h : g.bond? a b = some l) : HasEntry g a b l := by
  unfold bond? at h
  cases hd : (g.edgeData a b).head? with
  | none => simp [hd] at h
  | some kd =>
    simp only [hd, Option.map_some, Option.some.injEq] at h
    have hkd : kd ∈ g.edgeData a b := List.mem_of_mem_head? (by simp [hd])
    have hne : g.edgeData a b ≠ [] := List.ne_nil_of_mem hkd
    have hrowne : g.adjRow a ≠ [] := by
      intro h0
      rw [edgeData_eq, h0] at hne
      exact hne rfl
    have h1 : (a, g.adjRow a) ∈ g.adj := by rw [adjRow_eq] at hrowne ⊢; exact rowOf_ne_nil_mem _ _ hrowne
    have h2 : (b, g.edgeData a b) ∈ g.adjRow a := by
      rw [edgeData_eq] at hne ⊢; exact rowOf_ne_nil_mem _ _ hne
    exact ⟨_, h1, rfl, _, h2, rfl, kd, hkd, h⟩

/-- on a tidy graph an adjacency entry is what `bond?` reads -/
theorem bond?_of_hasEntry (g : Graph) (ht : Tidy g) {a b : Int} {l : Label} (h : HasEntry g a b l) :
    g.bond? a b = some l := by
  obtain ⟨r, hr, rfl, e, he, rfl, kd, hkd, rfl⟩ := h
  have hrow : g.adjRow r.1 = r.2 := by
    rw [adjRow_eq]; exact rowOf_of_mem _ ht.keysNodup r.1 r.2 hr
  have hdata : g.edgeData r.1 e.1 = e.2 := by
    rw [edgeData_eq, hrow]; exact rowOf_of_mem _ (ht.rows r hr).1 e.1 e.2 he
  obtain ⟨kd', hkd'⟩ := List.length_eq_one_iff.1 ((ht.rows r hr).2 e he)
  rw [hkd'] at hkd
  simp only [List.mem_singleton] at hkd
  subst hkd
  simp [bond?, hdata, hkd']

/-- **adjacency entries = bond function** on a tidy graph -/
theorem hasEntry_iff_bond? (g : Graph) (ht : Tidy g) (a b : Int) (l : Label) :
    HasEntry g a b l ↔ g.bond? a b = some l :=
  ⟨bond?_of_hasEntry g ht, hasEntry_of_bond? g⟩

/-- the ends of an adjacency entry of a well-formed graph are nodes -/
theorem hasEntry_nodes (g : Graph) (hw : WF g) {a b : Int} {l : Label} (h : HasEntry g a b l) :
    a ∈ g.nodeIds ∧ b ∈ g.nodeIds := by
  obtain ⟨r, hr, rfl, e, he, rfl, -⟩ := h
  have hk : r.1 ∈ g.adj.map (·.1) := List.mem_map.2 ⟨r, hr, rfl⟩
  have hrow : g.adjRow r.1 = r.2 := by
    rw [adjRow_eq]; exact rowOf_of_mem _ (keys_nodup g hw) r.1 r.2 hr
  refine ⟨?_, hw.nbrNode r.1 e.1 (List.mem_map.2 ⟨e, hrow ▸ he, rfl⟩)⟩
  rw [← hw.keys]; exact hk

/-! ### `add_edge` keeps a simple graph tidy -/

def RowTidy (row : Row) : Prop := (row.map (·.1)).Nodup ∧ ∀ e ∈ row, e.2.length = 1

theorem addHalfEdge_rowTidy (row : Row) (v : Int) (l : Label) (h : RowTidy row) :
    RowTidy (addHalfEdge false row v 0 l) := by
  refine ⟨?_, ?_⟩
  · rw [keys_addHalfEdge]
    split
    · exact h.1
    · next hn =>
      refine List.nodup_append.2 ⟨h.1, by simp, ?_⟩
      intro a ha b hb
      simp only [List.mem_singleton] at hb
      subst hb
      intro hab
      exact hn (hab ▸ ha)
  · intro e he
    by_cases hmem : v ∈ row.map (·.1)
    · rw [addHalfEdge_old row v l hmem] at he
      obtain ⟨e0, he0, rfl⟩ := List.mem_map.1 he
      simp only
      split
      · rfl
      · exact h.2 e0 he0
    · rw [addHalfEdge_new row v l hmem] at he
      rcases List.mem_append.1 he with he | he
      · exact h.2 e he
      · simp only [List.mem_singleton] at he
        subst he; rfl

theorem mapRows_rowTidy (f : Int → Row → Row) (adj : List (Int × Row)) (hf : ∀ k d, RowTidy d → RowTidy (f k d))
    (h : ∀ r ∈ adj, RowTidy r.2) : ∀ r ∈ mapRows f adj, RowTidy r.2 := by
  intro r hr
  obtain ⟨r0, hr0, rfl⟩ := List.mem_map.1 hr
  exact hf r0.1 r0.2 (h r0 hr0)

/-- `add_edge(u, v, bond=l)` between existing nodes of a simple graph keeps it tidy -/
theorem addEdge_tidy (g : Graph) (u v : Int) (l : Label) (hu : u ∈ g.nodeIds) (hv : v ∈ g.nodeIds)
    (hm : g.multi = false) (ht : Tidy g) : Tidy (g.addEdge u v l) := by
  have hstep : ∀ (w x : Int) (k : Int) (d : Row), RowTidy d →
      RowTidy (if k = w then addHalfEdge false d x 0 l else d) := by
    intro w x k d hd
    split
    · exact addHalfEdge_rowTidy d x l hd
    · exact hd
  rw [addEdge_eq g u v l hu hv hm]
  refine ⟨?_, ?_⟩
  · dsimp only
    split <;> simp only [keys_mapRows] <;> exact ht.keysNodup
  · dsimp only
    show ∀ r ∈ (if u = v then _ else _), RowTidy (Prod.snd r)
    split
    · exact mapRows_rowTidy _ _ (hstep u v) ht.rows
    · exact mapRows_rowTidy _ _ (hstep v u) (mapRows_rowTidy _ _ (hstep u v) ht.rows)

end Graph
