import FGVerif.Model.C02
import FGVerif.Proofs.C01
/-!
  C02 — on plain SMILES the pattern parser computes the SMILES reading.

  * `C02.denote_eq_smilesDenote : Plain c → WFcore c → denote c 0 false false = smilesDenote c`
  * `C02.parse_eq_smiles : Plain c → WF false c → parse ⟨false,false⟩ (renderStr c) 0 = .ok (smilesDenote c)`
    (corollary of `C01.parse_faithful`)
  * table obligation `tbl_smiles_orders`: the generated `bond_to_order_map` agrees with SMILES on `- = # : .`

  The one place the two readings differ — a bond symbol before an *opening* ring digit, which
  FGUtils applies to the next atom — is excluded by `WF` (`marksOKFrom`); `opening_bond_differs`
  shows the difference on a witness.  That RDKit computes `smilesDenote` is an assumption (harness).
-/
namespace C02
open C01

/-- the parser's bond table agrees with SMILES on the plain bond symbols -/
theorem tbl_smiles_orders : (['-', '=', '#', ':', '.'].all fun c => bondOrder? c == smilesOrder c) = true := by decide

theorem labelOf_plain (low : Bool) (b : Option Bond) (h : plainLink b = true) :
    labelOf false low b = smilesLabel low b := by
  have ht := tbl_smiles_orders
  simp only [List.all_cons, List.all_nil, Bool.and_true, Bool.and_eq_true, beq_iff_eq] at ht
  obtain ⟨h1, h2, h3, h4, h5⟩ := ht
  cases b with
  | none => simp [labelOf, smilesLabel, liftOrder]
  | some b =>
    cases b with
    | rc g hh => simp [plainLink, plainBond] at h
    | sym c =>
      have hc : c = '.' ∨ c = '-' ∨ c = '=' ∨ c = '#' ∨ c = ':' := by
        by_cases hd : c = '.'
        · exact Or.inl hd
        · right
          have : plainLink (some (.sym c)) = plainBond (some (.sym c)) := by
            unfold plainLink
            split
            · rename_i heq; simp at heq; exact absurd heq hd
            · rfl
          rw [this] at h
          have h' : ((c = '-' ∨ c = '=') ∨ c = '#') ∨ c = ':' := by simpa [plainBond] using h
          rcases h' with ((h' | h') | h') | h'
          · exact Or.inl h'
          · exact Or.inr (Or.inl h')
          · exact Or.inr (Or.inr (Or.inl h'))
          · exact Or.inr (Or.inr (Or.inr h'))
      rcases hc with rfl | rfl | rfl | rfl | rfl
      · simp [labelOf, smilesLabel, h5, liftOrder]; rfl
      · simp [labelOf, smilesLabel, h1, liftOrder]; rfl
      · simp [labelOf, smilesLabel, h2, liftOrder]; rfl
      · simp [labelOf, smilesLabel, h3, liftOrder]; rfl
      · simp [labelOf, smilesLabel, h4, liftOrder]; rfl

/-! ### plainness of the event lists -/

def plainEv : Ev → Bool
  | .node _ a => plainAtom a
  | .link _ _ _ b => plainLink b
  | .mark _ _ b _ => plainLink b

def plainREv : REv → Bool
  | .node _ a => plainAtom a
  | .edge _ _ _ b => plainLink b

theorem plainLink_of_plainBond {b : Option Bond} (h : plainBond b = true) : plainLink b = true := by
  unfold plainLink
  split
  · rfl
  · exact h

def parPlain : Option (Nat × Bool × Option Bond) → Bool
  | none => true
  | some (_, _, b) => plainLink b

mutual
  theorem plain_chain_events (c : Chain) (n : Nat) (par : Option (Nat × Bool × Option Bond))
      (h : PlainC c = true) (hp : parPlain par = true) : ((c.events n par).all plainEv) = true := by
    match c with
    | .mk a its =>
      simp only [PlainC, Bool.and_eq_true] at h
      have := plain_items_events its (n + 1) n a.low h.2
      cases par with
      | none => simp [Chain.events, plainEv, h.1, this]
      | some p =>
        obtain ⟨p, l, b⟩ := p
        simp only [parPlain] at hp
        simp [Chain.events, plainEv, h.1, hp, this]
  theorem plain_items_events (its : Items) (n u : Nat) (lowU : Bool)
      (h : PlainI its = true) : ((its.events n u lowU).all plainEv) = true := by
    match its with
    | .nil => rfl
    | .ring b id r =>
      simp only [PlainI, Bool.and_eq_true] at h
      simp [Items.events, plainEv, plainLink_of_plainBond h.1.1, plain_items_events r n u lowU h.2]
    | .branch b c r =>
      simp only [PlainI, Bool.and_eq_true] at h
      have h1 := plain_chain_events c n (some (u, lowU, b)) h.1.2 (plainLink_of_plainBond h.1.1)
      have h2 := plain_items_events r (n + c.size) u lowU h.2
      simp [Items.events, List.all_append, h1, h2]
    | .next b c =>
      simp only [PlainI, Bool.and_eq_true] at h
      exact plain_chain_events c n (some (u, lowU, b)) h.2 h.1
end

mutual
  theorem plain_chain_noRc (c : Chain) (h : PlainC c = true) : c.hasRc = false := by
    match c with
    | .mk a its =>
      simp only [PlainC, Bool.and_eq_true] at h
      simpa [Chain.hasRc] using plain_items_noRc its h.2
  theorem plain_items_noRc (its : Items) (h : PlainI its = true) : its.hasRc = false := by
    match its with
    | .nil => rfl
    | .ring b id r =>
      simp only [PlainI, Bool.and_eq_true] at h
      have : optIsRc b = false := by
        cases b with
        | none => rfl
        | some b => cases b <;> simp_all [plainBond, optIsRc, Bond.isRc]
      simp [Items.hasRc, this, plain_items_noRc r h.2]
    | .branch b c r =>
      simp only [PlainI, Bool.and_eq_true] at h
      have : optIsRc b = false := by
        cases b with
        | none => rfl
        | some b => cases b <;> simp_all [plainBond, optIsRc, Bond.isRc]
      simp [Items.hasRc, this, plain_items_noRc r h.2, plain_chain_noRc c h.1.2]
    | .next b c =>
      simp only [PlainI, Bool.and_eq_true] at h
      have : optIsRc b = false := by
        cases b with
        | none => rfl
        | some b =>
          cases b with
          | rc g hh => simp [plainLink, plainBond] at h
          | sym c => rfl
      simp [Items.hasRc, this, plain_chain_noRc c h.2]
end

theorem tableEvs_plain (evs : List Ev) : ∀ T : Table, (evs.all plainEv) = true →
    ((tableEvs T evs).all plainREv) = true := by
  induction evs with
  | nil => intros; rfl
  | cons e evs ih =>
    intro T h
    simp only [List.all_cons, Bool.and_eq_true] at h
    cases e with
    | node i a =>
      simp only [tableEvs, List.all_cons, Bool.and_eq_true]
      exact ⟨h.1, ih T h.2⟩
    | link u v low b =>
      simp only [tableEvs, List.all_cons, Bool.and_eq_true]
      exact ⟨h.1, ih T h.2⟩
    | mark u lowU b id =>
      simp only [tableEvs]
      cases T.lookup id with
      | none => exact ih _ h.2
      | some pl =>
        obtain ⟨p, l⟩ := pl
        simp only [List.all_cons, Bool.and_eq_true]
        exact ⟨h.1, ih _ h.2⟩

/-! ### the two ring tables agree when no bond is written at an opening digit -/

def liftT (T : Table) : STable := T.map fun e => (e.1, e.2.1, e.2.2, none)

theorem lookup_liftT (T : Table) (id : Str) :
    (liftT T).lookup id = (T.lookup id).map fun pl => (pl.1, pl.2, none) := by
  induction T with
  | nil => rfl
  | cons e T ih =>
    obtain ⟨k, p, l⟩ := e
    simp only [liftT, List.map_cons, List.lookup] at ih ⊢
    cases id == k <;> simp [ih]

theorem filter_liftT (T : Table) (id : Str) :
    (liftT T).filter (fun e => e.1 != id) = liftT (T.filter fun e => e.1 != id) := by
  induction T with
  | nil => rfl
  | cons e T ih =>
    obtain ⟨k, p, l⟩ := e
    simp only [liftT, List.map_cons, List.filter_cons] at ih ⊢
    cases (k != id) <;> simp [ih]

theorem smilesEvs_eq_tableEvs (evs : List Ev) : ∀ T : Table, marksGood T evs = true →
    smilesEvs (liftT T) evs = tableEvs T evs := by
  induction evs with
  | nil => intros; rfl
  | cons e evs ih =>
    intro T h
    cases e with
    | node i a => simp [smilesEvs, tableEvs, ih T (by simpa [marksGood] using h)]
    | link u v low b => simp [smilesEvs, tableEvs, ih T (by simpa [marksGood] using h)]
    | mark u lowU b id =>
      simp only [smilesEvs, tableEvs, marksGood, lookup_liftT] at h ⊢
      cases hl : T.lookup id with
      | none =>
        simp only [hl, Bool.and_eq_true] at h
        have hb : b = none := by simpa using h.1
        subst hb
        simp only [Option.map_none]
        have : liftT T ++ [(id, u, lowU, none)] = liftT (T ++ [(id, u, lowU)]) := by simp [liftT]
        rw [this]
        exact ih _ h.2
      | some pl =>
        obtain ⟨p, lowP⟩ := pl
        simp only [hl] at h
        simp only [Option.map_some, filter_liftT]
        rw [ih _ h]
        cases b <;> rfl

theorem foldl_plain (revs : List REv) : ∀ g : Graph, (revs.all plainREv) = true →
    revs.foldl smilesApply g = revs.foldl (applyREv false false 0) g := by
  induction revs with
  | nil => intros; rfl
  | cons e revs ih =>
    intro g h
    simp only [List.all_cons, Bool.and_eq_true] at h
    simp only [List.foldl_cons]
    have : smilesApply g e = applyREv false false 0 g e := by
      cases e with
      | node i a =>
        cases a with
        | elem s => simp [smilesApply, applyREv, nodeAttr, AtomTok.labelList, AtomTok.isLabeled]
        | wild => simp [plainREv, plainAtom] at h
        | labels ls => simp [plainREv, plainAtom] at h
      | edge u v low b =>
        simp only [smilesApply, applyREv, labelOf_plain low b h.1, Int.add_zero]
        rfl
    rw [this]
    exact ih _ h.2

/-- on plain, well-formed writings the pattern denotation is the SMILES reading -/
theorem denote_eq_smilesDenote (c : Chain) (hp : Plain c = true) (hw : WFcore c = true) :
    denote c 0 false false = smilesDenote c := by
  simp only [WFcore, Bool.and_eq_true] at hw
  have hm := marksGood_of_marksOK _ hw.2
  have he := plain_chain_events c 0 none hp rfl
  simp only [denote, smilesDenote, buildGraph, plain_chain_noRc c hp]
  rw [← ring_table_pairs]
  have := smilesEvs_eq_tableEvs (c.events 0 none) [] hm
  simp only [liftT, List.map_nil] at this
  rw [this]
  exact (foldl_plain _ _ (tableEvs_plain _ [] he)).symm

/-- **C02 (model level): on every plain SMILES that is a valid writing, the parser builds exactly
    the graph the SMILES denotes** — same atoms in the same order, same bonded pairs, same orders -/
theorem parse_eq_smiles (c : Chain) (hp : Plain c = true) (hw : WF false c = true) :
    parse ⟨false, false⟩ (renderStr c) 0 = .ok (smilesDenote c) := by
  have hc : WFcore c = true := by
    simp only [WF, Bool.and_eq_true] at hw; exact hw.1.1
  rw [parse_faithful c 0 false false hw, denote_eq_smilesDenote c hp hc]

/-! ### non-vacuity (tests) -/

/-- tetralin `C1CCCc2c1cccc2` -/
def tetralin : Chain :=
  (.mk (.elem ['C']) (.ring none ['1'] (.next none (.mk (.elem ['C']) (.next none (.mk (.elem ['C']) (.next none (.mk (.elem ['C']) (.next none (.mk (.elem ['c']) (.ring none ['2'] (.next none (.mk (.elem ['c']) (.ring none ['1'] (.next none (.mk (.elem ['c']) (.next none (.mk (.elem ['c']) (.next none (.mk (.elem ['c']) (.next none (.mk (.elem ['c']) (.ring none ['2'] .nil)))))))))))))))))))))))

example : Plain tetralin = true ∧ WF false tetralin = true := by decide
example : parse ⟨false, false⟩ (renderStr tetralin) 0 = .ok (smilesDenote tetralin) :=
  parse_eq_smiles tetralin (by decide) (by decide)
/-- the ring closure 0–5 is single (the F3 defect made it aromatic), 4–9 aromatic -/
example : (smilesDenote tetralin).edges.map (fun e => (e.1, e.2.1, e.2.2.2)) =
    [(0, 1, .s 2), (0, 5, .s 2), (1, 2, .s 2), (2, 3, .s 2), (3, 4, .s 2), (4, 5, .s 3), (4, 9, .s 3),
     (5, 6, .s 3), (6, 7, .s 3), (7, 8, .s 3), (8, 9, .s 3)] := by decide

/-- excluded syntax: a bond symbol before an *opening* ring digit (`C=1CCCCC1`, valid SMILES: the
    closure 0–5 is double) is applied by FGUtils to the next atom (0–1 double, 0–5 single) -/
def openingBond : Chain :=
  (.mk (.elem ['C']) (.ring (some (.sym '=')) ['1'] (.next none (.mk (.elem ['C']) (.next none (.mk (.elem ['C']) (.ring none ['1'] .nil)))))))

theorem opening_bond_differs :
    WFcore openingBond = false ∧
    (smilesDenote openingBond).bond? 2 0 = some (.s 4) ∧
    (match parse ⟨false, false⟩ (renderStr openingBond) 0 with
      | .ok g => (g.bond? 2 0, g.bond? 0 1)
      | .error _ => (none, none)) = (some (.s 2), some (.s 4)) := by decide

end C02
