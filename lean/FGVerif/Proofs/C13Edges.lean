import FGVerif.Proofs.C13EdgesH
import FGVerif.Proofs.C13Offset
/-!
  C13, edge level — "node substitution re-attaches each bond to the right anchor, nothing else moves".

  Final theorems about `Model/C13.lean` (lemmas: `C13EdgesA` … `C13EdgesH`, namespace `C13.E`):

  * `C13.replace_labels_of_inc` (T2)  for all new names `a b : Int`, the bond labels of the result between
    `a` and `b` (exact list, parallel bonds in key order) are the declared ones, relative to the order
    in which networkx reports the incident bonds of the replaced node after the composition step;
  * `C13.compose_incident_order` (T3)  that order is the declarative `incSpec`;
  * `C13.replace_labels` (T2+T3)  the result has exactly `specLabels`;
  * `C13.replace_wf`  the result is a well-formed networkx graph again (`wf`), so the step iterates.

  `incOfCompose` and `specLabelsOf` are defined in `C13EdgesG.lean`.

  The lemma files are about `replaceNodeLen` (`idx_offset = len(graph.nodes)`, the function before the repair);
  on this domain the repaired model `replaceNode` (`idx_offset = max id + 1`) is the same function
  (`C13.replaceNode_eq_len_of_dom0`, Proofs/C13Offset.lean), which is how the theorems below are stated for it.

  Proof chain (all at the level of `edgeData`, the key dict of a pair of nodes):
  `addEdgeKey` (A) → `Graph.edges` enumerates every key dict once (`E.sel_edges`) → fold with fresh
  keys appends (`E.edgeData_addEdgesFrom`) → `compose` concatenates, `relabelCopy` transports along a
  bijection → the re-attachment loop appends the re-attached labels (`E.labels_addNewFrom`; fresh keys
  by `E.newEdgeKey_not_mem` on a multigraph, by distinct neighbours on a simple graph) →
  `removeNode` → the renumbering is `ren x` with inverse `unren x` (`E.relabel_inverts`).
-/
namespace C13
open Graph

/-- T2: the bonds of the result, relative to the incident order of the composed graph -/
theorem replace_labels_of_inc (g : Graph) (x : Int) (sub : Graph) (anchors : List Nat)
    (hd : inDomain g x sub anchors = true) (a b : Int) :
    labelsBetween (replaceNode g x sub anchors) a b
      = specLabelsOf (incOfCompose g x sub) g x sub anchors a b := by
  rw [replaceNode_eq_len_of_dom0 (E.dom_of_inDomain hd).toDom0]
  exact (E.dom_of_inDomain hd).labels a b

/-- T3: the incident order after the composition step is the declarative one -/
theorem compose_incident_order (g : Graph) (x : Int) (sub : Graph)
    (hg : wf g = true) (hx : g.hasNode x = true) (hs : wf sub = true)
    (hdisj : contiguous g = true ∧ contiguous sub = true) :
    incOfCompose g x sub = incSpec g x := by
  have d : E.Dom0 g x sub :=
    ⟨E.WF_of_wf hg, by have := hdisj.1; unfold contiguous at this; exact List.Perm.of_eq (beq_iff_eq.mp this),
      (E.hasNode_iff g x).mp hx, E.WF_of_wf hs,
      by have := hdisj.2; unfold contiguous at this; exact List.Perm.of_eq (beq_iff_eq.mp this)⟩
  exact d.incident_order

/-- T2+T3: the result has exactly the specified bond labels between any two new names -/
theorem replace_labels (g : Graph) (x : Int) (sub : Graph) (anchors : List Nat)
    (hd : inDomain g x sub anchors = true) (a b : Int) :
    labelsBetween (replaceNode g x sub anchors) a b = specLabels g x sub anchors a b := by
  rw [replace_labels_of_inc g x sub anchors hd a b, specLabels_eq,
    (E.dom_of_inDomain hd).toDom0.incident_order]

/-- the invariant is preserved (needed to iterate, C14) -/
theorem replace_wf (g : Graph) (x : Int) (sub : Graph) (anchors : List Nat)
    (hd : inDomain g x sub anchors = true) : wf (replaceNode g x sub anchors) = true := by
  rw [replaceNode_eq_len_of_dom0 (E.dom_of_inDomain hd).toDom0]
  exact E.wf_of_WF (E.dom_of_inDomain hd).w4

/-! ### tests (non-vacuity on concrete inputs; these are tests, not part of the proof) -/
section Tests

private def mk (multi : Bool) (n : Nat) (es : List Edge) : Graph :=
  addEdgesFrom { multi := multi, nodes := (List.range n).map fun i => (Int.ofNat i, {}),
                 adj := (List.range n).map fun i => (Int.ofNat i, []) } es

/-- a multigraph with parallel bonds, a ring 0-1-4, and a self-loop on node 2 -/
private def gT : Graph :=
  mk true 5 [(3,1,0,.s 1),(0,1,0,.s 2),(1,2,0,.s 3),(1,2,1,.s 4),(2,2,0,.s 9),(2,2,5,.s 10),
    (1,4,0,.s 5),(4,0,0,.s 6),(3,1,1,.s 7),(1,0,3,.s 8)]
private def sT : Graph := mk true 3 [(0,1,0,.s 20),(1,2,0,.s 21),(1,2,1,.s 22),(2,0,0,.s 23),(1,1,0,.s 24)]

example : inDomain gT 1 sT [0, 2, 1] = true := by decide
-- the key lemma statements on the concrete multigraph
example : E.sel 1 2 gT.edges = gT.edgeData 1 2 ∧ E.sel 2 2 gT.edges = gT.edgeData 2 2
    ∧ E.sel 0 1 gT.edges = gT.edgeData 1 0 := by decide
example : (addEdgeKey gT 2 1 7 (.s 11)).edgeData 1 2 = setKey (gT.edgeData 1 2) 7 (.s 11)
    ∧ (addEdgeKey gT 2 1 1 (.s 11)).edgeData 2 1 = setKey (gT.edgeData 2 1) 1 (.s 11)
    ∧ (addEdgeKey gT 2 1 7 (.s 11)).edgeData 0 1 = gT.edgeData 0 1 := by decide
example : (compose gT (shiftGraph sT 5)).edgeData 1 2 = gT.edgeData 1 2
    ∧ (compose gT (shiftGraph sT 5)).edgeData 6 7 = sT.edgeData 1 2 := by decide
example : incOfCompose gT 1 sT = incSpec gT 1 := by decide +kernel
example : labelsBetween (replaceNode gT 1 sT [0, 2, 1]) 0 6 = [.s 8]
    ∧ specLabels gT 1 sT [0, 2, 1] 0 6 = [.s 8]
    ∧ labelsBetween (replaceNode gT 1 sT [0, 2, 1]) 2 5 = [.s 1, .s 7]
    ∧ specLabels gT 1 sT [0, 2, 1] 5 2 = [.s 1, .s 7]
    ∧ labelsBetween (replaceNode gT 1 sT [0, 2, 1]) 1 1 = [.s 9, .s 10] := by decide +kernel

end Tests

end C13
