import FGVerif.Model.C07
/-!
  C07 — the insertion algorithm computes the Hasse diagram: the proof on positions.

  Setting (after `sortByKey`): items are positions `0 … n-1`, `R i j` is the answer of
  `is_subgroup` for the configs at positions `i`, `j`, and the hypotheses are
    `hlt : R i j → i < j`      (a subsumer is inserted earlier: key strictness + sorting)
    `htr : R i j → R j k → R i k`.
  Invariant over the inserted prefix `0 … n-1` (`Inv`): the DAG is the Hasse diagram of `R` on the
  prefix.  `searchParents` returns exactly the maximal inserted subsumers of the new position
  (`sp_spec`), because every tree ancestor of a subsumer is a subsumer (transitivity) and later
  items never sit between earlier ones (`hlt`).
-/
namespace C07

/-! ### small list lemmas -/

theorem mem_addSet {x y : Nat} {s : List Nat} : y ∈ addSet x s ↔ y = x ∨ y ∈ s := by
  unfold addSet
  split
  · rename_i h
    have hx : x ∈ s := by simpa using h
    constructor
    · intro hy; exact Or.inr hy
    · rintro (rfl | hy)
      · exact hx
      · exact hy
  · simp [List.mem_append, or_comm]

theorem nodup_addSet {x : Nat} {s : List Nat} (h : s.Nodup) : (addSet x s).Nodup := by
  unfold addSet
  split
  · exact h
  · rename_i hc
    have hx : x ∉ s := by simpa using hc
    rw [List.nodup_append]
    refine ⟨h, by simp, ?_⟩
    intro a ha b hb
    simp at hb
    subst hb
    intro e; subst e; exact hx ha

theorem mem_unionSet {y : Nat} {s t : List Nat} : y ∈ unionSet s t ↔ y ∈ s ∨ y ∈ t := by
  unfold unionSet
  induction t generalizing s with
  | nil => simp
  | cons x xs ih =>
    simp only [List.foldl_cons]
    rw [ih, mem_addSet]
    simp only [List.mem_cons]
    constructor
    · rintro ((h | h) | h)
      · exact Or.inr (Or.inl h)
      · exact Or.inl h
      · exact Or.inr (Or.inr h)
    · rintro (h | h | h)
      · exact Or.inl (Or.inr h)
      · exact Or.inl (Or.inl h)
      · exact Or.inr h

theorem nodup_unionSet {s t : List Nat} (h : s.Nodup) : (unionSet s t).Nodup := by
  unfold unionSet
  induction t generalizing s with
  | nil => simpa
  | cons x xs ih => simp only [List.foldl_cons]; exact ih (nodup_addSet h)

/-! ### sorting: permutation (all that the relation-level results need) -/

theorem insertAsc_perm {α} (klt : α → α → Bool) (x : α) (l : List α) :
    (insertAsc klt x l).Perm (x :: l) := by
  induction l with
  | nil => simp [insertAsc]
  | cons y ys ih =>
    simp only [insertAsc]
    split
    · exact (List.Perm.cons y ih).trans (List.Perm.swap x y ys)
    · exact List.Perm.refl _

theorem sortByKey_perm {α} (klt : α → α → Bool) (l : List α) : (sortByKey klt l).Perm l := by
  induction l with
  | nil => simp [sortByKey]
  | cons x xs ih =>
    simp only [sortByKey, List.foldr_cons]
    exact (insertAsc_perm klt x _).trans (List.Perm.cons x ih)

theorem insertDesc_perm {α} (klt : α → α → Bool) (x : α) (l : List α) :
    (insertDesc klt x l).Perm (x :: l) := by
  induction l with
  | nil => simp [insertDesc]
  | cons y ys ih =>
    simp only [insertDesc]
    split
    · exact (List.Perm.cons y ih).trans (List.Perm.swap x y ys)
    · exact List.Perm.refl _

theorem sortDesc_perm {α} (klt : α → α → Bool) (l : List α) : (sortDesc klt l).Perm l := by
  induction l with
  | nil => simp [sortDesc]
  | cons x xs ih =>
    simp only [sortDesc, List.foldr_cons]
    exact (insertDesc_perm klt x _).trans (List.Perm.cons x ih)

theorem mem_sortDesc {α} (klt : α → α → Bool) (l : List α) (x : α) : x ∈ sortDesc klt l ↔ x ∈ l :=
  (sortDesc_perm klt l).mem_iff

/-! ### `updAt`, `ch`, `pa`, `addChild` -/

theorem length_updAt {β} (f : β → β) (i : Nat) (l : List β) : (updAt f i l).length = l.length := by
  induction l generalizing i with
  | nil => simp [updAt]
  | cons x xs ih => cases i <;> simp [updAt, ih]

theorem getElem?_updAt {β} (f : β → β) (i j : Nat) (l : List β) :
    (updAt f i l)[j]? = if j = i then (l[j]?).map f else l[j]? := by
  induction l generalizing i j with
  | nil => simp [updAt]
  | cons x xs ih =>
    cases i with
    | zero =>
      cases j with
      | zero => simp [updAt]
      | succ j => simp [updAt]
    | succ i =>
      cases j with
      | zero => simp [updAt]
      | succ j => simp [updAt, ih]

theorem length_addChild (K : Nat → Nat → Bool) (nodes : List Node) (p k : Nat) :
    (addChild K nodes p k).length = nodes.length := by
  simp [addChild, length_updAt]

theorem ch_updAt (f : Node → Node) (i j : Nat) (l : List Node) :
    ch (updAt f i l) j = if j = i ∧ i < l.length then (f (l[i]?.getD default)).children else ch l j := by
  unfold ch
  rw [getElem?_updAt]
  by_cases h : j = i
  · subst h
    by_cases hl : j < l.length
    · have hn : l[j]? = some l[j] := by simp [hl]
      simp [hn, hl]
    · have hn : l[j]? = none := by simp at hl; simp [hl]
      simp [hn, hl]
  · simp [h]

theorem pa_updAt (f : Node → Node) (i j : Nat) (l : List Node) :
    pa (updAt f i l) j = if j = i ∧ i < l.length then (f (l[i]?.getD default)).parents else pa l j := by
  unfold pa
  rw [getElem?_updAt]
  by_cases h : j = i
  · subst h
    by_cases hl : j < l.length
    · have hn : l[j]? = some l[j] := by simp [hl]
      simp [hn, hl]
    · have hn : l[j]? = none := by simp at hl; simp [hl]
      simp [hn, hl]
  · simp [h]

theorem getD_children (l : List Node) (i : Nat) (h : i < l.length) : (l[i]?.getD default).children = ch l i := by
  unfold ch
  have hn : l[i]? = some l[i] := by simp [h]
  simp [hn]

theorem getD_parents (l : List Node) (i : Nat) (h : i < l.length) : (l[i]?.getD default).parents = pa l i := by
  unfold pa
  have hn : l[i]? = some l[i] := by simp [h]
  simp [hn]

theorem ch_addChild (K : Nat → Nat → Bool) (nodes : List Node) (p k i : Nat) :
    ch (addChild K nodes p k) i =
      if i = p ∧ p < nodes.length then sortDesc K (ch nodes p ++ [k]) else ch nodes i := by
  unfold addChild
  simp only
  rw [ch_updAt, length_updAt]
  have h1 : ∀ j, ch (updAt (fun n => { n with parents := n.parents ++ [p] }) k nodes) j = ch nodes j := by
    intro j
    rw [ch_updAt]
    split
    · rename_i h
      obtain ⟨rfl, hl⟩ := h
      simp only
      exact getD_children nodes j hl
    · rfl
  by_cases h : i = p ∧ p < nodes.length
  · simp only [h, and_self, if_true]
    have := getD_children (updAt (fun n => { n with parents := n.parents ++ [p] }) k nodes) p (by rw [length_updAt]; exact h.2)
    rw [this, h1]
  · simp only [h, if_false]
    exact h1 i

theorem mem_ch_addChild (K : Nat → Nat → Bool) (nodes : List Node) (p k i j : Nat) :
    j ∈ ch (addChild K nodes p k) i ↔ j ∈ ch nodes i ∨ (i = p ∧ p < nodes.length ∧ j = k) := by
  rw [ch_addChild]
  split
  · rename_i h
    obtain ⟨rfl, hl⟩ := h
    rw [mem_sortDesc]
    simp [hl]
  · rename_i h
    constructor
    · intro hj; exact Or.inl hj
    · rintro (hj | ⟨h1, h2, _⟩)
      · exact hj
      · exact absurd ⟨h1, h2⟩ h

theorem pa_addChild (K : Nat → Nat → Bool) (nodes : List Node) (p k j : Nat) (hpk : p ≠ k) :
    pa (addChild K nodes p k) j =
      if j = p ∧ p < nodes.length then sortDesc K (pa nodes p)
      else if j = k ∧ k < nodes.length then pa nodes k ++ [p] else pa nodes j := by
  unfold addChild
  simp only
  rw [pa_updAt, length_updAt]
  have h1 : ∀ j, pa (updAt (fun n => { n with parents := n.parents ++ [p] }) k nodes) j =
      if j = k ∧ k < nodes.length then pa nodes k ++ [p] else pa nodes j := by
    intro j
    rw [pa_updAt]
    split
    · rename_i h
      obtain ⟨rfl, hl⟩ := h
      simp only
      rw [getD_parents nodes j hl]
    · rfl
  by_cases h : j = p ∧ p < nodes.length
  · simp only [h, and_self, if_true]
    have := getD_parents (updAt (fun n => { n with parents := n.parents ++ [p] }) k nodes) p (by rw [length_updAt]; exact h.2)
    rw [this, h1]
    have : ¬ (p = k ∧ k < nodes.length) := fun e => hpk e.1
    simp only [this, if_false]
  · simp only [h, if_false]
    exact h1 j

theorem mem_pa_addChild (K : Nat → Nat → Bool) (nodes : List Node) (p k i j : Nat) (hpk : p ≠ k) :
    i ∈ pa (addChild K nodes p k) j ↔ i ∈ pa nodes j ∨ (j = k ∧ k < nodes.length ∧ i = p) := by
  rw [pa_addChild K nodes p k j hpk]
  split
  · rename_i h
    obtain ⟨rfl, hl⟩ := h
    rw [mem_sortDesc]
    constructor
    · intro h; exact Or.inl h
    · rintro (h | ⟨h1, _, _⟩)
      · exact h
      · exact absurd h1 hpk
  · split
    · rename_i h1 h2
      obtain ⟨rfl, hl⟩ := h2
      simp [hl]
    · rename_i h1 h2
      constructor
      · intro h; exact Or.inl h
      · rintro (h | ⟨ha, hb, _⟩)
        · exact h
        · exact absurd ⟨ha, hb⟩ h2

/-- the loop `for parent in parents: parent.add_child(node)` -/
def addChildren (K : Nat → Nat → Bool) (k : Nat) (nodes : List Node) (P : List Nat) : List Node :=
  P.foldl (fun ns p => addChild K ns p k) nodes

theorem length_addChildren (K : Nat → Nat → Bool) (k : Nat) (nodes : List Node) (P : List Nat) :
    (addChildren K k nodes P).length = nodes.length := by
  unfold addChildren
  induction P generalizing nodes with
  | nil => rfl
  | cons p ps ih => simp only [List.foldl_cons]; rw [ih, length_addChild]

theorem mem_ch_addChildren (K : Nat → Nat → Bool) (k : Nat) (nodes : List Node) (P : List Nat) (i j : Nat) :
    j ∈ ch (addChildren K k nodes P) i ↔ j ∈ ch nodes i ∨ (i ∈ P ∧ i < nodes.length ∧ j = k) := by
  unfold addChildren
  induction P generalizing nodes with
  | nil => simp
  | cons p ps ih =>
    simp only [List.foldl_cons]
    rw [ih, mem_ch_addChild, length_addChild]
    simp only [List.mem_cons]
    constructor
    · rintro ((h | ⟨h1, h2, h3⟩) | ⟨h1, h2, h3⟩)
      · exact Or.inl h
      · exact Or.inr ⟨Or.inl h1, h1 ▸ h2, h3⟩
      · exact Or.inr ⟨Or.inr h1, h2, h3⟩
    · rintro (h | ⟨h1 | h1, h2, h3⟩)
      · exact Or.inl (Or.inl h)
      · exact Or.inl (Or.inr ⟨h1, h1 ▸ h2, h3⟩)
      · exact Or.inr ⟨h1, h2, h3⟩

theorem mem_pa_addChildren (K : Nat → Nat → Bool) (k : Nat) (nodes : List Node) (P : List Nat) (i j : Nat)
    (hk : k ∉ P) :
    i ∈ pa (addChildren K k nodes P) j ↔ i ∈ pa nodes j ∨ (j = k ∧ k < nodes.length ∧ i ∈ P) := by
  unfold addChildren
  induction P generalizing nodes with
  | nil => simp
  | cons p ps ih =>
    simp only [List.foldl_cons]
    have hpk : p ≠ k := fun e => hk (by simp [e])
    have hk' : k ∉ ps := fun h => hk (List.mem_cons_of_mem _ h)
    rw [ih _ hk', mem_pa_addChild K nodes p k i j hpk, length_addChild]
    simp only [List.mem_cons]
    constructor
    · rintro ((h | ⟨h1, h2, h3⟩) | ⟨h1, h2, h3⟩)
      · exact Or.inl h
      · exact Or.inr ⟨h1, h2, Or.inl h3⟩
      · exact Or.inr ⟨h1, h2, Or.inr h3⟩
    · rintro (h | ⟨h1, h2, h3 | h3⟩)
      · exact Or.inl (Or.inl h)
      · exact Or.inl (Or.inr ⟨h1, h2, h3⟩)
      · exact Or.inr ⟨h1, h2, h3⟩

theorem ch_append_new (nodes : List Node) (i : Nat) : ch (nodes ++ [Node.mk [] []]) i = ch nodes i := by
  unfold ch
  by_cases h : i < nodes.length
  · rw [List.getElem?_append_left h]
  · have h' : nodes.length ≤ i := Nat.le_of_not_lt h
    rw [List.getElem?_append_right h', List.getElem?_eq_none h']
    cases hh : i - nodes.length with
    | zero => simp
    | succ m => simp

theorem pa_append_new (nodes : List Node) (i : Nat) : pa (nodes ++ [Node.mk [] []]) i = pa nodes i := by
  unfold pa
  by_cases h : i < nodes.length
  · rw [List.getElem?_append_left h]
  · have h' : nodes.length ≤ i := Nat.le_of_not_lt h
    rw [List.getElem?_append_right h', List.getElem?_eq_none h']
    cases hh : i - nodes.length with
    | zero => simp
    | succ m => simp

/-! ### `searchParents`: membership -/

/-- what one root contributes: its deepest matching descendants, or itself -/
def res (R : Nat → Nat → Bool) (nodes : List Node) (c fuel r : Nat) : List Nat :=
  let ps := searchParents R nodes c fuel (ch nodes r)
  if ps.isEmpty then [r] else ps

theorem res_ne_nil (R : Nat → Nat → Bool) (nodes : List Node) (c fuel r : Nat) : res R nodes c fuel r ≠ [] := by
  unfold res
  simp only
  split
  · simp
  · rename_i h; simpa [List.isEmpty_iff] using h

theorem res_of_empty (R : Nat → Nat → Bool) (nodes : List Node) (c fuel r : Nat)
    (h : (searchParents R nodes c fuel (ch nodes r)).isEmpty = true) : res R nodes c fuel r = [r] := by
  simp [res, h]

theorem res_of_nonempty (R : Nat → Nat → Bool) (nodes : List Node) (c fuel r : Nat)
    (h : ¬ (searchParents R nodes c fuel (ch nodes r)).isEmpty = true) :
    res R nodes c fuel r = searchParents R nodes c fuel (ch nodes r) := by
  simp [res, h]

theorem mem_sp_fold (R : Nat → Nat → Bool) (nodes : List Node) (c fuel : Nat) (L acc : List Nat) (m : Nat) :
    m ∈ L.foldl (fun parents r =>
        if R r c then
          let ps := searchParents R nodes c fuel (ch nodes r)
          if ps.isEmpty then addSet r parents else unionSet parents ps
        else parents) acc ↔
      m ∈ acc ∨ ∃ r, r ∈ L ∧ R r c = true ∧ m ∈ res R nodes c fuel r := by
  induction L generalizing acc with
  | nil => simp
  | cons x xs ih =>
    simp only [List.foldl_cons]
    rw [ih]
    by_cases hx : R x c = true
    · simp only [hx, if_true]
      by_cases he : (searchParents R nodes c fuel (ch nodes x)).isEmpty = true
      · have hres := res_of_empty R nodes c fuel x he
        simp only [he, if_true, mem_addSet]
        constructor
        · rintro ((h | h) | ⟨r, hr, h1, h2⟩)
          · exact Or.inr ⟨x, by simp, hx, by rw [hres, h]; simp⟩
          · exact Or.inl h
          · exact Or.inr ⟨r, List.mem_cons_of_mem _ hr, h1, h2⟩
        · rintro (h | ⟨r, hr, h1, h2⟩)
          · exact Or.inl (Or.inr h)
          · rcases List.mem_cons.mp hr with rfl | hr
            · rw [hres] at h2
              exact Or.inl (Or.inl (by simpa using h2))
            · exact Or.inr ⟨r, hr, h1, h2⟩
      · have hres := res_of_nonempty R nodes c fuel x he
        have he' : (searchParents R nodes c fuel (ch nodes x)).isEmpty = false := by simpa using he
        simp only [he', Bool.false_eq_true, if_false, mem_unionSet]
        constructor
        · rintro ((h | h) | ⟨r, hr, h1, h2⟩)
          · exact Or.inl h
          · exact Or.inr ⟨x, by simp, hx, by rw [hres]; exact h⟩
          · exact Or.inr ⟨r, List.mem_cons_of_mem _ hr, h1, h2⟩
        · rintro (h | ⟨r, hr, h1, h2⟩)
          · exact Or.inl (Or.inl h)
          · rcases List.mem_cons.mp hr with rfl | hr
            · rw [hres] at h2
              exact Or.inl (Or.inr h2)
            · exact Or.inr ⟨r, hr, h1, h2⟩
    · simp only [hx]
      constructor
      · rintro (h | ⟨r, hr, h1, h2⟩)
        · exact Or.inl h
        · exact Or.inr ⟨r, List.mem_cons_of_mem _ hr, h1, h2⟩
      · rintro (h | ⟨r, hr, h1, h2⟩)
        · exact Or.inl h
        · rcases List.mem_cons.mp hr with rfl | hr
          · exact absurd h1 hx
          · exact Or.inr ⟨r, hr, h1, h2⟩

theorem mem_sp_succ (R : Nat → Nat → Bool) (nodes : List Node) (c fuel : Nat) (L : List Nat) (m : Nat) :
    m ∈ searchParents R nodes c (fuel + 1) L ↔ ∃ r, r ∈ L ∧ R r c = true ∧ m ∈ res R nodes c fuel r := by
  simp only [searchParents]
  rw [mem_sp_fold]
  simp

theorem nodup_sp (R : Nat → Nat → Bool) (nodes : List Node) (c fuel : Nat) (L : List Nat) :
    (searchParents R nodes c fuel L).Nodup := by
  cases fuel with
  | zero => simp [searchParents]
  | succ f =>
    simp only [searchParents]
    suffices h : ∀ acc : List Nat, acc.Nodup → (L.foldl (fun parents r =>
        if R r c then
          let ps := searchParents R nodes c f (ch nodes r)
          if ps.isEmpty then addSet r parents else unionSet parents ps
        else parents) acc).Nodup from h [] (by simp)
    induction L with
    | nil => intro acc h; simpa
    | cons x xs ih =>
      intro acc h
      simp only [List.foldl_cons]
      apply ih
      split
      · split
        · exact nodup_addSet h
        · exact nodup_unionSet h
      · exact h

end C07
