import FGVerif.Proofs.C03
/-!
  C04 — a reported match is a genuine embedding of the whole pattern.

  FULL STATEMENT (FALSE on the current tree, known finding K2; negation proved below on two
  concrete witnesses):
      `(mapAnchored H a P pa m).ok = true → IsEmbeddingPairs m P H pa a (mapAnchored H a P pa m).mapping`
  for all well-formed hosts and patterns.

  Proved (about `Model/Subgraph.lean`, every mapper with `canMapToNothing = []`, no size bound):

  * `C04.local_sound`             all graphs: success ⇒ the anchor pair is in the mapping, every pair
                                  has admitted symbols, every pair other than the anchor pair hangs
                                  off a parent pair of the mapping with equal bond labels, and every
                                  pattern node of the anchor's component occurs (totality)
  * `C04.anchored_sound_partial`  PARTIAL — restricted to acyclic host and acyclic pattern
                                  (`IsForest H`, `IsForest P`): success ⇒ the mapping is an embedding
                                  (`IsEmbeddingPairs`: function, injective, all pattern bonds on equal
                                  host bonds, anchor pair, admitted symbols).  What is missing for the
                                  full statement is exactly the cyclic case, where it is false.
  * `C04.anchored_sound_connected` the same as a function on *all* pattern nodes when `P` is connected
  * `C04.anchored_exact_acyclic`  with C03: on acyclic host and pattern the flag is *exactly*
                                  "an anchored embedding exists" (failure ⇒ no embedding)
  * `C04.unsound_witness_host_cycle`, `C04.unsound_witness_pattern_cycle`  (`decide` on the model;
                                  the harness replays both against the implementation on every run)
-/
namespace C04
open Perm Sub C03

/-! ### list helpers -/

theorem inj_of_nodup_map {α β} (f : α → β) : ∀ (l : List α), (l.map f).Nodup →
    ∀ x ∈ l, ∀ y ∈ l, f x = f y → x = y
  | [], _, x, hx, _, _, _ => by simp at hx
  | z :: zs, h, x, hx, y, hy, hxy => by
    rw [List.map_cons, List.nodup_cons] at h
    rcases List.mem_cons.mp hx with hxz | hx'
    · rcases List.mem_cons.mp hy with hyz | hy'
      · exact hxz.trans hyz.symm
      · exact absurd (List.mem_map.mpr ⟨y, hy', by rw [← hxy, hxz]⟩) h.1
    · rcases List.mem_cons.mp hy with hyz | hy'
      · exact absurd (List.mem_map.mpr ⟨x, hx', by rw [hxy, hyz]⟩) h.1
      · exact inj_of_nodup_map f zs h.2 x hx' y hy' hxy

/-! ### `tryPairs` on an assignment without "nothing" entries -/

theorem tryPairs_some (g p : Graph) (idx pidx : Int) (rec : Int → Int → FitResult) :
    ∀ (l : List (Int × Int)) (acc res : List (Int × Int) × List Int × List Int),
      tryPairs g p idx pidx rec (l.map fun x => (x.1, some x.2)) acc = some res →
      (∀ x ∈ l, g.bond? idx x.2 = p.bond? pidx x.1 ∧ (rec x.2 x.1).ok = true) ∧
      (∀ y, y ∈ res.1 ↔ y ∈ acc.1 ∨ ∃ x ∈ l, y ∈ (rec x.2 x.1).mapping)
  | [], acc, res, h => by
    simp only [List.map_nil, tryPairs, Option.some.injEq] at h
    subst h
    simp
  | x :: rest, (mp, vn, vpn), res, h => by
    simp only [List.map_cons, tryPairs] at h
    split at h
    · rename_i hb
      split at h
      · rename_i hr
        obtain ⟨h1, h2⟩ := tryPairs_some g p idx pidx rec rest _ res h
        refine ⟨?_, ?_⟩
        · intro y hy
          rcases List.mem_cons.mp hy with rfl | hy
          · exact ⟨by simpa using hb, hr⟩
          · exact h1 y hy
        · intro y
          rw [h2 y]
          simp only [List.mem_append, List.mem_cons, exists_eq_or_imp]
          constructor
          · rintro ((h | h) | h)
            · exact Or.inl h
            · exact Or.inr (Or.inl h)
            · exact Or.inr (Or.inr h)
          · rintro (h | h | h)
            · exact Or.inl (Or.inl h)
            · exact Or.inl (Or.inr h)
            · exact Or.inr h
      · simp at h
    · simp at h

/-! ### one level of a successful `fit`, as an interface -/

/-- What a successful call `fit (fuel+1) idx pidx vis pvis` consists of: a list `l` of
    `(pattern neighbour, host neighbour)` pairs that covers all unvisited pattern neighbours of
    `pidx` in order, uses distinct unvisited host neighbours of `idx`, each with admitted symbols,
    equal bond labels and a successful recursive call; the mapping is the pair `(idx, pidx)` plus
    the mappings of the recursive calls. -/
theorem fit_ok_cases (m : Mapper) (P H : Graph) (hcm : m.canMapToNothing = [])
    (fuel : Nat) (idx pidx : Int) (vis pvis : List Int)
    (h : (fit H P m (fuel + 1) idx pidx vis pvis).ok = true) :
    ∃ l : List (Int × Int),
      l.map (·.1) = freeNbrs P pidx (addSet pidx pvis) ∧
      (∀ x ∈ l, x.2 ∈ freeNbrs H idx (addSet idx vis)) ∧
      ((H.neighbors idx).Nodup → (l.map (·.2)).Nodup) ∧
      (∀ x ∈ l, admit1 m (sym P x.1) (sym H x.2) = true ∧ H.bond? idx x.2 = P.bond? pidx x.1 ∧
        (fit H P m fuel x.2 x.1 (addSet idx vis) (addSet pidx pvis)).ok = true) ∧
      (∀ y, y ∈ (fit H P m (fuel + 1) idx pidx vis pvis).mapping ↔
        y = (idx, pidx) ∨ ∃ x ∈ l, y ∈ (fit H P m fuel x.2 x.1 (addSet idx vis) (addSet pidx pvis)).mapping) := by
  rw [fit_succ] at h ⊢
  split at h
  · rename_i hemp
    have : freeNbrs P pidx (addSet pidx pvis) = [] := by
      rw [nbrs_eq] at hemp
      simpa using hemp
    refine ⟨[], by simp [this], by simp, by simp, by simp, ?_⟩
    intro y
    simp [hemp]
  · rename_i hne
    rw [if_neg hne]
    split at h
    · rename_i mp vn vpn hfind
      obtain ⟨a, ha, hatt⟩ := List.exists_of_findSome?_eq_some hfind
      obtain ⟨a', rfl, hlen, hnd, hrange, hadm⟩ := permute_sound m hcm _ _ _ ha
      -- the chosen pairs
      let hq := freeNbrs H idx (addSet idx vis)
      let pq := freeNbrs P pidx (addSet pidx pvis)
      let z := pq.zip a'
      let l : List (Int × Int) := z.map fun x => (x.1, (hq[x.2]?).getD 0)
      have hlen' : a'.length = pq.length := by simpa [nbrs_snd] using hlen
      have hrange' : ∀ i ∈ a', i < hq.length := by simpa [nbrs_snd] using hrange
      have hz2 : ∀ x ∈ z, x.2 < hq.length := fun x hx => hrange' _ (List.of_mem_zip hx).2
      have hpairs : ((nbrs P pidx (addSet pidx pvis)).map (·.1)).zip
            ((toInts a').map fun si => if si < 0 then none else ((nbrs H idx (addSet idx vis))[si.toNat]?).map (·.1)) =
          l.map fun x => (x.1, some x.2) := by
        rw [nbrs_fst]
        have hmap : (toInts a').map (fun si : Int => if si < 0 then none else
            ((nbrs H idx (addSet idx vis))[si.toNat]?).map (·.1)) = a'.map fun i => hq[i]? := by
          unfold toInts
          rw [List.map_map]
          apply List.map_congr_left
          intro i _
          simp only [Function.comp, Int.toNat_natCast]
          have hneg : ¬ ((i : Nat) : Int) < 0 := by omega
          rw [if_neg hneg, ← List.getElem?_map, nbrs_fst]
        rw [hmap, List.zip_map_right]
        simp only [l, List.map_map]
        apply List.map_congr_left
        intro x hx
        have := hz2 x hx
        simp [Prod.map, List.getElem?_eq_getElem this]
      unfold attempt at hatt
      rw [hpairs] at hatt
      obtain ⟨h1, h2⟩ := tryPairs_some H P idx pidx _ l _ _ hatt
      refine ⟨l, ?_, ?_, ?_, ?_, ?_⟩
      · simp only [l, List.map_map]
        have : ((fun x : Int × Int => x.1) ∘ fun x : Int × Nat => (x.1, (hq[x.2]?).getD 0)) = fun x => x.1 := rfl
        rw [this]
        exact List.map_fst_zip (by omega)
      · intro x hx
        simp only [l, List.mem_map] at hx
        obtain ⟨y, hy, rfl⟩ := hx
        have := hz2 y hy
        simp only [this, List.getElem?_eq_getElem, Option.getD_some]
        exact List.getElem_mem _
      · intro hHnd
        have hqnd : hq.Nodup := hHnd.filter _
        have : l.map (·.2) = a'.map fun i => (hq[i]?).getD 0 := by
          simp only [l, List.map_map]
          have e : ((fun x : Int × Int => x.2) ∘ fun x : Int × Nat => (x.1, (hq[x.2]?).getD 0)) =
              (fun i => (hq[i]?).getD 0) ∘ fun x : Int × Nat => x.2 := rfl
          rw [e, ← List.map_map, List.map_snd_zip (by omega)]
        rw [this]
        refine nodup_map_on ?_ hnd
        intro i hi j hj hij
        have hi' := hrange' i hi
        have hj' := hrange' j hj
        simp only [hi', hj', List.getElem?_eq_getElem, Option.getD_some] at hij
        exact (List.getElem?_inj hi' hqnd).mp (by simp [hi', hj', hij])
      · intro x hx
        obtain ⟨hb, hr⟩ := h1 x hx
        refine ⟨?_, hb, hr⟩
        simp only [l, List.mem_map] at hx
        obtain ⟨y, hy, rfl⟩ := hx
        have hyl := hz2 y hy
        have hmem : (sym P y.1, y.2) ∈ ((nbrs P pidx (addSet pidx pvis)).map (·.2)).zip a' := by
          rw [nbrs_snd, List.zip_map_left, List.mem_map]
          exact ⟨y, hy, rfl⟩
        obtain ⟨ss, hss, hadm1⟩ := hadm _ hmem
        rw [nbrs_snd, List.getElem?_map] at hss
        have hss' : (hq[y.2]?).map (sym H) = some ss := hss
        rw [List.getElem?_eq_getElem hyl, Option.map_some, Option.some.injEq] at hss'
        simp only [hyl, List.getElem?_eq_getElem, Option.getD_some]
        rw [hss']
        exact hadm1
      · intro y
        simp only [List.mem_cons]
        rw [h2 y]
        simp
    · simp at h

/-! ### reachability lemmas -/

theorem _root_.C03.Reach.mono {g : Graph} {av1 av2 : List Int} (hsub : ∀ x, x ∈ av2 → x ∈ av1) {a b : Int}
    (h : Reach g av1 a b) : Reach g av2 a b := by
  induction h with
  | refl ha => exact .refl (fun hm => ha (hsub _ hm))
  | step ha hab _ ih => exact .step (fun hm => ha (hsub _ hm)) hab ih

theorem _root_.C03.Reach.tail_not_avoid {g : Graph} {avoid : List Int} {a b : Int} (h : Reach g avoid a b) :
    b ∉ avoid := by
  induction h with
  | refl ha => exact ha
  | step _ _ _ ih => exact ih

theorem _root_.C03.Reach.split_aux {g : Graph} {avoid av' : List Int} {x : Int}
    (hav : ∀ y, y ∈ av' ↔ y = x ∨ y ∈ avoid) {b c : Int} (h : Reach g avoid b c) :
    Reach g av' b c ∨ (∃ y ∈ g.neighbors x, Reach g av' y c) ∨ x = c := by
  induction h with
  | @refl b hb =>
    by_cases hbx : b = x
    · exact Or.inr (Or.inr hbx.symm)
    · exact Or.inl (.refl (by rw [hav]; simp [hbx, hb]))
  | @step b b' c hb hbb' _ ih =>
    rcases ih with h1 | h2 | h3
    · by_cases hbx : b = x
      · subst hbx; exact Or.inr (Or.inl ⟨b', hbb', h1⟩)
      · exact Or.inl (.step (by rw [hav]; simp [hbx, hb]) hbb' h1)
    · exact Or.inr (Or.inl h2)
    · exact Or.inr (Or.inr h3)

/-- a walk from `a` either stays at `a` or leaves through a neighbour and never comes back -/
theorem _root_.C03.Reach.split {g : Graph} {avoid av' : List Int} {a c : Int}
    (hav : ∀ y, y ∈ av' ↔ y = a ∨ y ∈ avoid) (h : Reach g avoid a c) :
    a = c ∨ ∃ b ∈ g.neighbors a, Reach g av' b c := by
  cases h with
  | refl _ => exact Or.inl rfl
  | step _ hab hbc =>
    rcases Reach.split_aux hav hbc with h1 | h2 | h3
    · exact Or.inr ⟨_, hab, h1⟩
    · exact Or.inr h2
    · exact Or.inl h3

/-! ### C04.local_sound -/

/-- what a reported match guarantees on *all* graphs -/
structure LocalSound (m : Mapper) (P H : Graph) (pa a : Int) (M : List (Int × Int)) : Prop where
  anchor : (a, pa) ∈ M
  admitted : ∀ x ∈ M, admits m (sym P x.2) (sym H x.1) = true
  parent : ∀ x ∈ M, x = (a, pa) ∨ ∃ y ∈ M, x.2 ∈ P.neighbors y.2 ∧ x.1 ∈ H.neighbors y.1 ∧
    H.bond? y.1 x.1 = P.bond? y.2 x.2
  total : ∀ q, Reach P [] pa q → ∃ x ∈ M, x.2 = q

theorem fit_local (m : Mapper) (P H : Graph) (hcm : m.canMapToNothing = []) :
    ∀ (fuel : Nat) (idx pidx : Int) (vis pvis : List Int),
      (fit H P m fuel idx pidx vis pvis).ok = true →
      (idx, pidx) ∈ (fit H P m fuel idx pidx vis pvis).mapping ∧
      (∀ x ∈ (fit H P m fuel idx pidx vis pvis).mapping, x = (idx, pidx) ∨
        (admit1 m (sym P x.2) (sym H x.1) = true ∧
          ∃ y ∈ (fit H P m fuel idx pidx vis pvis).mapping, x.2 ∈ P.neighbors y.2 ∧
            x.1 ∈ H.neighbors y.1 ∧ H.bond? y.1 x.1 = P.bond? y.2 x.2)) ∧
      (∀ q, Reach P pvis pidx q → ∃ x ∈ (fit H P m fuel idx pidx vis pvis).mapping, x.2 = q) := by
  intro fuel
  induction fuel with
  | zero => intro idx pidx vis pvis h; simp [fit] at h
  | succ k ih =>
    intro idx pidx vis pvis hok
    obtain ⟨l, hl1, hl2, _, hl4, hmap⟩ := fit_ok_cases m P H hcm k idx pidx vis pvis hok
    have hroot : (idx, pidx) ∈ (fit H P m (k + 1) idx pidx vis pvis).mapping := (hmap _).mpr (Or.inl rfl)
    refine ⟨hroot, ?_, ?_⟩
    · intro x hx
      rcases (hmap x).mp hx with rfl | ⟨e, he, hxe⟩
      · exact Or.inl rfl
      · right
        obtain ⟨hadm, hbond, hrec⟩ := hl4 e he
        obtain ⟨ih1, ih2, _⟩ := ih e.2 e.1 _ _ hrec
        rcases ih2 x hxe with rfl | ⟨hxa, y, hy, hy1, hy2, hy3⟩
        · refine ⟨hadm, (idx, pidx), hroot, ?_, ?_, hbond⟩
          · have : e.1 ∈ freeNbrs P pidx (addSet pidx pvis) := by rw [← hl1]; exact List.mem_map.mpr ⟨e, he, rfl⟩
            exact ((mem_freeNbrs _ _ _ _).mp this).1
          · exact ((mem_freeNbrs _ _ _ _).mp (hl2 e he)).1
        · exact ⟨hxa, y, (hmap y).mpr (Or.inr ⟨e, he, hy⟩), hy1, hy2, hy3⟩
    · intro q hq
      rcases Reach.split (av' := addSet pidx pvis) (fun y => mem_addSet pidx y pvis) hq with rfl | ⟨b, hb, hbq⟩
      · exact ⟨_, hroot, rfl⟩
      · have hbfree : b ∈ freeNbrs P pidx (addSet pidx pvis) :=
          (mem_freeNbrs _ _ _ _).mpr ⟨hb, hbq.head_not_avoid⟩
        rw [← hl1, List.mem_map] at hbfree
        obtain ⟨e, he, rfl⟩ := hbfree
        obtain ⟨_, _, hrec⟩ := hl4 e he
        obtain ⟨_, _, ih3⟩ := ih e.2 e.1 _ _ hrec
        obtain ⟨x, hx, hxq⟩ := ih3 q hbq
        exact ⟨x, (hmap x).mpr (Or.inr ⟨e, he, hx⟩), hxq⟩

theorem mapAnchored_ok (m : Mapper) (P H : Graph) (pa a : Int)
    (h : (mapAnchored H a P pa m).ok = true) :
    admits m (sym P pa) (sym H a) = true ∧ mapAnchored H a P pa m = fit H P m (fuelFor P) a pa [] [] := by
  by_cases hadm : admits m (sym P pa) (sym H a) = true
  · refine ⟨hadm, ?_⟩
    unfold admits sym at hadm
    unfold mapAnchored
    simp only [hadm, ↓reduceIte]
  · exfalso
    unfold admits sym at hadm
    unfold mapAnchored at h
    simp [hadm] at h

/-- **C04.local_sound** (all graphs, cyclic or not): a reported match contains the anchor pair,
    admits every pair's symbols, hangs every other pair off a parent pair with equal bond labels,
    and covers every pattern node of the anchor's component. -/
theorem local_sound (m : Mapper) (P H : Graph) (pa a : Int) (hcm : m.canMapToNothing = [])
    (h : (mapAnchored H a P pa m).ok = true) :
    LocalSound m P H pa a (mapAnchored H a P pa m).mapping := by
  obtain ⟨hadm, heq⟩ := mapAnchored_ok m P H pa a h
  rw [heq] at h ⊢
  obtain ⟨h1, h2, h3⟩ := fit_local m P H hcm _ a pa [] [] h
  refine ⟨h1, ?_, ?_, h3⟩
  · intro x hx
    rcases h2 x hx with rfl | ⟨hx1, _⟩
    · exact hadm
    · rw [admits_eq_admit1 m hcm]; exact hx1
  · intro x hx
    rcases h2 x hx with rfl | ⟨_, hy⟩
    · exact Or.inl rfl
    · exact Or.inr hy

/-! ### acyclic host and pattern: the mapping is an embedding -/

theorem fit_forest (m : Mapper) (P H : Graph) (hcm : m.canMapToNothing = [])
    (hH : WF H) (hP : WF P) (hHf : IsForest H) (hPf : IsForest P) :
    ∀ (fuel : Nat) (idx pidx : Int) (vis pvis : List Int),
      (fit H P m fuel idx pidx vis pvis).ok = true → idx ∉ vis → pidx ∉ pvis →
      (∀ x ∈ (fit H P m fuel idx pidx vis pvis).mapping, Reach P pvis pidx x.2 ∧ Reach H vis idx x.1) ∧
      (∀ x ∈ (fit H P m fuel idx pidx vis pvis).mapping, ∀ y ∈ (fit H P m fuel idx pidx vis pvis).mapping,
        (x.2 = y.2 → x.1 = y.1) ∧ (x.1 = y.1 → x.2 = y.2)) ∧
      (∀ x ∈ (fit H P m fuel idx pidx vis pvis).mapping, ∀ q ∈ P.neighbors x.2, q ∉ pvis →
        ∃ y ∈ (fit H P m fuel idx pidx vis pvis).mapping, y.2 = q ∧ y.1 ∈ H.neighbors x.1 ∧
          H.bond? x.1 y.1 = P.bond? x.2 q) := by
  intro fuel
  induction fuel with
  | zero => intro idx pidx vis pvis h; simp [fit] at h
  | succ k ih =>
    intro idx pidx vis pvis hok hidx hpidx
    obtain ⟨l, hl1, hl2, hl3, hl4, hmap⟩ := fit_ok_cases m P H hcm k idx pidx vis pvis hok
    have hl3 := hl3 (hH.nbrNodup idx)
    have hl1nd : (l.map (·.1)).Nodup := by rw [hl1]; exact (hP.nbrNodup pidx).filter _
    have hroot : (idx, pidx) ∈ (fit H P m (k + 1) idx pidx vis pvis).mapping := (hmap _).mpr (Or.inl rfl)
    -- facts about one chosen pair
    have hfree : ∀ e ∈ l, e.1 ∈ P.neighbors pidx ∧ e.1 ∉ addSet pidx pvis ∧
        e.2 ∈ H.neighbors idx ∧ e.2 ∉ addSet idx vis := by
      intro e he
      have h1 : e.1 ∈ freeNbrs P pidx (addSet pidx pvis) := by rw [← hl1]; exact List.mem_map.mpr ⟨e, he, rfl⟩
      have h2 := hl2 e he
      rw [mem_freeNbrs] at h1 h2
      exact ⟨h1.1, h1.2, h2.1, h2.2⟩
    have hsub : ∀ e ∈ l, _ := fun e he =>
      ih e.2 e.1 (addSet idx vis) (addSet pidx pvis) (hl4 e he).2.2 (hfree e he).2.2.2 (hfree e he).2.1
    have hsubroot : ∀ e ∈ l, (e.2, e.1) ∈ (fit H P m k e.2 e.1 (addSet idx vis) (addSet pidx pvis)).mapping :=
      fun e he => (fit_local m P H hcm k e.2 e.1 _ _ (hl4 e he).2.2).1
    have hmonoP : ∀ {a b}, Reach P (addSet pidx pvis) a b → Reach P [pidx] a b :=
      fun h => h.mono (fun x hx => by rw [mem_addSet]; exact Or.inl (by simpa using hx))
    have hmonoH : ∀ {a b}, Reach H (addSet idx vis) a b → Reach H [idx] a b :=
      fun h => h.mono (fun x hx => by rw [mem_addSet]; exact Or.inl (by simpa using hx))
    -- two chosen pairs whose sub-mappings share a pattern node / a host node coincide
    have hsameP : ∀ e ∈ l, ∀ e' ∈ l, ∀ q, Reach P (addSet pidx pvis) e.1 q →
        Reach P (addSet pidx pvis) e'.1 q → e = e' := by
      intro e he e' he' q hq hq'
      apply inj_of_nodup_map (·.1) l hl1nd e he e' he'
      apply Classical.byContradiction
      intro hne
      exact hPf pidx e.1 e'.1 q (hfree e he).1 (hfree e' he').1 hne (hmonoP hq) (hmonoP hq')
    have hsameH : ∀ e ∈ l, ∀ e' ∈ l, ∀ h, Reach H (addSet idx vis) e.2 h →
        Reach H (addSet idx vis) e'.2 h → e = e' := by
      intro e he e' he' q hq hq'
      apply inj_of_nodup_map (·.2) l hl3 e he e' he'
      apply Classical.byContradiction
      intro hne
      exact hHf idx e.2 e'.2 q (hfree e he).2.2.1 (hfree e' he').2.2.1 hne (hmonoH hq) (hmonoH hq')
    have hreach : ∀ x ∈ (fit H P m (k + 1) idx pidx vis pvis).mapping,
        Reach P pvis pidx x.2 ∧ Reach H vis idx x.1 := by
      intro x hx
      rcases (hmap x).mp hx with rfl | ⟨e, he, hxe⟩
      · exact ⟨.refl hpidx, .refl hidx⟩
      · obtain ⟨hr1, hr2⟩ := (hsub e he).1 x hxe
        exact ⟨.step hpidx (hfree e he).1 (hr1.mono (fun y hy => (mem_addSet _ _ _).mpr (Or.inr hy))),
               .step hidx (hfree e he).2.2.1 (hr2.mono (fun y hy => (mem_addSet _ _ _).mpr (Or.inr hy)))⟩
    refine ⟨hreach, ?_, ?_⟩
    · -- functional and injective
      intro x hx y hy
      rcases (hmap x).mp hx with rfl | ⟨e, he, hxe⟩
      · rcases (hmap y).mp hy with rfl | ⟨e', he', hye⟩
        · exact ⟨fun _ => rfl, fun _ => rfl⟩
        · obtain ⟨hr1, hr2⟩ := (hsub e' he').1 y hye
          refine ⟨fun h => ?_, fun h => ?_⟩
          · exact absurd ((mem_addSet _ _ _).mpr (Or.inl h.symm)) hr1.tail_not_avoid
          · exact absurd ((mem_addSet _ _ _).mpr (Or.inl h.symm)) hr2.tail_not_avoid
      · obtain ⟨hx1, hx2⟩ := (hsub e he).1 x hxe
        rcases (hmap y).mp hy with rfl | ⟨e', he', hye⟩
        · refine ⟨fun h => ?_, fun h => ?_⟩
          · exact absurd ((mem_addSet _ _ _).mpr (Or.inl h)) hx1.tail_not_avoid
          · exact absurd ((mem_addSet _ _ _).mpr (Or.inl h)) hx2.tail_not_avoid
        · obtain ⟨hy1, hy2⟩ := (hsub e' he').1 y hye
          refine ⟨fun h => ?_, fun h => ?_⟩
          · have := hsameP e he e' he' x.2 hx1 (h ▸ hy1)
            subst this
            exact ((hsub e he).2.1 x hxe y hye).1 h
          · have := hsameH e he e' he' x.1 hx2 (h ▸ hy2)
            subst this
            exact ((hsub e he).2.1 x hxe y hye).2 h
    · -- every pattern bond at a mapped node that does not lead back into the path is preserved
      intro x hx q hq hqv
      rcases (hmap x).mp hx with rfl | ⟨e, he, hxe⟩
      · have hqne : q ≠ pidx := fun h => hP.noLoop pidx (h ▸ hq)
        have hqfree : q ∈ freeNbrs P pidx (addSet pidx pvis) := by
          rw [mem_freeNbrs, mem_addSet]
          exact ⟨hq, fun h => h.elim hqne hqv⟩
        rw [← hl1, List.mem_map] at hqfree
        obtain ⟨e, he, rfl⟩ := hqfree
        exact ⟨(e.2, e.1), (hmap _).mpr (Or.inr ⟨e, he, hsubroot e he⟩), rfl, (hfree e he).2.2.1, (hl4 e he).2.1⟩
      · by_cases hqv' : q ∈ addSet pidx pvis
        · -- the bond leads back to `pidx`: then `x` is the chosen pair itself
          have hqp : q = pidx := by
            rcases (mem_addSet _ _ _).mp hqv' with h | h
            · exact h
            · exact absurd h hqv
          subst hqp
          obtain ⟨hx1, _⟩ := (hsub e he).1 x hxe
          have hx2nbr : x.2 ∈ P.neighbors q := (hP.symm x.2 q hq).1
          have hx2free : x.2 ∈ freeNbrs P q (addSet q pvis) :=
            (mem_freeNbrs _ _ _ _).mpr ⟨hx2nbr, hx1.tail_not_avoid⟩
          rw [← hl1, List.mem_map] at hx2free
          obtain ⟨e', he', he'x⟩ := hx2free
          have hee' : e = e' := hsameP e he e' he' x.2 hx1 (he'x ▸ .refl (hfree e' he').2.1)
          subst hee'
          have hx1e : x.1 = e.2 := ((hsub e he).2.1 x hxe (e.2, e.1) (hsubroot e he)).1 he'x.symm
          have hsymH := hH.symm idx e.2 (hfree e he).2.2.1
          have hsymP := hP.symm q e.1 (hfree e he).1
          refine ⟨(idx, q), hroot, rfl, ?_, ?_⟩
          · rw [hx1e]; exact hsymH.1
          · rw [hx1e, ← he'x, hsymH.2, hsymP.2]
            exact (hl4 e he).2.1
        · obtain ⟨y, hy, hy1, hy2, hy3⟩ := (hsub e he).2.2 x hxe q hq hqv'
          exact ⟨y, (hmap y).mpr (Or.inr ⟨e, he, hy⟩), hy1, hy2, hy3⟩

/-- **C04.anchored_sound_partial** — PARTIAL: proved for acyclic host and acyclic pattern only
    (for graphs with a cycle the statement is false, see the two witnesses below).
    On well-formed forests a reported match is an embedding of the anchor's component:
    a function, injective, containing the anchor pair, symbol-admitted on every pair, and every
    pattern bond at a mapped node lies on a host bond of equal label. -/
theorem anchored_sound_partial (m : Mapper) (P H : Graph) (pa a : Int) (hcm : m.canMapToNothing = [])
    (hH : WF H) (hP : WF P) (hHf : IsForest H) (hPf : IsForest P)
    (ha : a ∈ H.nodeIds) (hpa : pa ∈ P.nodeIds)
    (h : (mapAnchored H a P pa m).ok = true) :
    IsEmbeddingPairs m P H pa a (mapAnchored H a P pa m).mapping := by
  have hloc := local_sound m P H pa a hcm h
  obtain ⟨_, heq⟩ := mapAnchored_ok m P H pa a h
  rw [heq] at h hloc ⊢
  obtain ⟨h1, h2, h3⟩ := fit_forest m P H hcm hH hP hHf hPf _ a pa [] [] h (by simp) (by simp)
  refine ⟨hloc.anchor, ?_, hloc.admitted, ?_, ?_, ?_⟩
  · intro x hx
    obtain ⟨hr1, hr2⟩ := h1 x hx
    exact ⟨hr2.mem_nodes (fun u v h => (hH.nbrNode u v h).2) ha,
           hr1.mem_nodes (fun u v h => (hP.nbrNode u v h).2) hpa⟩
  · exact fun x hx y hy => (h2 x hx y hy).1
  · exact fun x hx y hy => (h2 x hx y hy).2
  · exact fun x hx q hq => h3 x hx q hq (by simp)

/-- for a connected pattern the reported pairs are the graph of an embedding of the *whole*
    pattern -/
theorem anchored_sound_connected (m : Mapper) (P H : Graph) (pa a : Int) (hcm : m.canMapToNothing = [])
    (hH : WF H) (hP : WF P) (hHf : IsForest H) (hPf : IsForest P)
    (ha : a ∈ H.nodeIds) (hpa : pa ∈ P.nodeIds)
    (hconn : ∀ q ∈ P.nodeIds, Reach P [] pa q)
    (h : (mapAnchored H a P pa m).ok = true) :
    ∃ f, IsEmbedding m P H f ∧ f pa = a ∧ ∀ q ∈ P.nodeIds, (f q, q) ∈ (mapAnchored H a P pa m).mapping := by
  have hE := embeddingPairs_embedding (anchored_sound_partial m P H pa a hcm hH hP hHf hPf ha hpa h)
  refine ⟨_, ?_, hE.1.2, fun q hq => hE.2 q (hconn q hq)⟩
  obtain ⟨hi, hr, hadm, hb⟩ := hE.1.1
  exact ⟨fun p q hp hq => hi p q (hconn p hp) (hconn q hq), fun p hp => hr p (hconn p hp),
    fun p hp => hadm p (hconn p hp), fun p q hp hq => hb p q (hconn p hp) hq⟩

/-- **exactness on the acyclic sub-domain** (C04 together with C03): for well-formed acyclic host
    and pattern the flag is true *iff* an embedding of the anchor's component with the anchor
    pair fixed exists; in particular failure means that no embedding exists. -/
theorem anchored_exact_acyclic (m : Mapper) (P H : Graph) (pa a : Int) (hcm : m.canMapToNothing = [])
    (hH : WF H) (hP : WF P) (hHf : IsForest H) (hPf : IsForest P)
    (ha : a ∈ H.nodeIds) (hpa : pa ∈ P.nodeIds) :
    (mapAnchored H a P pa m).ok = true ↔ ∃ f, IsAnchoredEmbedding m P H pa a f := by
  constructor
  · intro h
    exact ⟨_, (embeddingPairs_embedding (anchored_sound_partial m P H pa a hcm hH hP hHf hPf ha hpa h)).1⟩
  · rintro ⟨f, hf⟩
    exact anchored_complete_component m P H f pa a hP hcm hf hpa

theorem anchored_failure_acyclic (m : Mapper) (P H : Graph) (pa a : Int) (hcm : m.canMapToNothing = [])
    (hH : WF H) (hP : WF P) (hHf : IsForest H) (hPf : IsForest P)
    (ha : a ∈ H.nodeIds) (hpa : pa ∈ P.nodeIds)
    (h : (mapAnchored H a P pa m).ok = false) : ¬ ∃ f, IsAnchoredEmbedding m P H pa a f := by
  intro hex
  have := (anchored_exact_acyclic m P H pa a hcm hH hP hHf hPf ha hpa).mpr hex
  rw [h] at this
  exact absurd this (by simp)

/-- un-anchored exactness on the acyclic sub-domain: hosts with ids `0..n-1`, non-empty pattern -/
theorem unanchored_exact_acyclic (m : Mapper) (P H : Graph) (hcm : m.canMapToNothing = [])
    (hids : ∀ h, h ∈ H.nodeIds ↔ 0 ≤ h ∧ h < (H.numberOfNodes : Int)) (hne : P.nodes ≠ [])
    (hH : WF H) (hP : WF P) (hHf : IsForest H) (hPf : IsForest P) :
    mapSubgraphToGraph H P m = true ↔
      ∃ a ∈ H.nodeIds, ∃ pa ∈ P.nodeIds, ∃ f, IsAnchoredEmbedding m P H pa a f := by
  have hemp : P.nodes.isEmpty = false := by cases hn : P.nodes <;> simp_all
  unfold mapSubgraphToGraph mapSubgraph
  simp only [hemp, Bool.false_eq_true, ↓reduceIte, List.any_map, List.any_eq_true, Function.comp,
    List.mem_range]
  constructor
  · rintro ⟨i, hi, pa, hpa, hok⟩
    have ha : (i : Int) ∈ H.nodeIds := (hids _).mpr ⟨by omega, by omega⟩
    exact ⟨i, ha, pa, hpa, (anchored_exact_acyclic m P H pa i hcm hH hP hHf hPf ha hpa).mp hok⟩
  · rintro ⟨a, ha, pa, hpa, hf⟩
    obtain ⟨h0, h1⟩ := (hids a).mp ha
    have hok := (anchored_exact_acyclic m P H pa a hcm hH hP hHf hPf ha hpa).mpr hf
    refine ⟨a.toNat, by omega, pa, hpa, ?_⟩
    have hcast : ((a.toNat : Nat) : Int) = a := by omega
    rw [hcast]; exact hok

/-! ### the full statement is false: two concrete witnesses (known finding K2)

  The graphs are what `fgutils.parse.parse` builds (node order, adjacency order, doubled bond
  orders); the harness replays both inputs against the implementation on every run. -/

def mR : Mapper := { wildcard := some "R" }

/-- `parse('C1CC1')` -/
def cyclopropane : Graph :=
  { nodes := [(0, {symbol := some "C"}), (1, {symbol := some "C"}), (2, {symbol := some "C"})],
    adj := [(0, [(1, [(0, .s 2)]), (2, [(0, .s 2)])]), (1, [(0, [(0, .s 2)]), (2, [(0, .s 2)])]), (2, [(1, [(0, .s 2)]), (0, [(0, .s 2)])])] }

/-- `parse('C(CC)CC')` -/
def pentaneBranched : Graph :=
  { nodes := [(0, {symbol := some "C"}), (1, {symbol := some "C"}), (2, {symbol := some "C"}), (3, {symbol := some "C"}), (4, {symbol := some "C"})],
    adj := [(0, [(1, [(0, .s 2)]), (3, [(0, .s 2)])]), (1, [(0, [(0, .s 2)]), (2, [(0, .s 2)])]), (2, [(1, [(0, .s 2)])]), (3, [(0, [(0, .s 2)]), (4, [(0, .s 2)])]), (4, [(3, [(0, .s 2)])])] }

/-- `parse('CCCCC')` -/
def pentane : Graph :=
  { nodes := [(0, {symbol := some "C"}), (1, {symbol := some "C"}), (2, {symbol := some "C"}), (3, {symbol := some "C"}), (4, {symbol := some "C"})],
    adj := [(0, [(1, [(0, .s 2)])]), (1, [(0, [(0, .s 2)]), (2, [(0, .s 2)])]), (2, [(1, [(0, .s 2)]), (3, [(0, .s 2)])]), (3, [(2, [(0, .s 2)]), (4, [(0, .s 2)])]), (4, [(3, [(0, .s 2)])])] }

/-- **the full C04 statement fails on a cyclic host**: cyclopropane (3 atoms) is reported to
    contain the 5-atom pattern `C(CC)CC` at anchor pair (0, 0) — host and pattern are well-formed,
    the pattern is even acyclic — and the returned pairs are not an embedding. -/
theorem unsound_witness_host_cycle :
    WF cyclopropane ∧ WF pentaneBranched ∧ IsForest pentaneBranched ∧
    (mapAnchored cyclopropane 0 pentaneBranched 0 mR).ok = true ∧
    ¬ IsEmbeddingPairs mR pentaneBranched cyclopropane 0 0 (mapAnchored cyclopropane 0 pentaneBranched 0 mR).mapping := by
  refine ⟨wfB_sound _ (by decide), wfB_sound _ (by decide), isForestB_sound _ (by decide), by decide, ?_⟩
  intro h
  have := (isEmbedding_iff _ _ _ _ _ _).mpr h
  revert this
  decide

/-- **the full C04 statement fails on a cyclic pattern**: pentane (acyclic) is reported to contain
    the ring `C1CC1` at anchor pair (2, 0), and the returned pairs are not an embedding. -/
theorem unsound_witness_pattern_cycle :
    WF pentane ∧ WF cyclopropane ∧ IsForest pentane ∧
    (mapAnchored pentane 2 cyclopropane 0 mR).ok = true ∧
    ¬ IsEmbeddingPairs mR cyclopropane pentane 0 2 (mapAnchored pentane 2 cyclopropane 0 mR).mapping := by
  refine ⟨wfB_sound _ (by decide), wfB_sound _ (by decide), isForestB_sound _ (by decide), by decide, ?_⟩
  intro h
  have := (isEmbedding_iff _ _ _ _ _ _).mpr h
  revert this
  decide

/-! ### non-vacuity (tests on concrete inputs, labelled as such) -/

/-- `parse('CC(=O)OC')` (methyl acetate) -/
def ester : Graph :=
  { nodes := [(0, {symbol := some "C"}), (1, {symbol := some "C"}), (2, {symbol := some "O"}), (3, {symbol := some "O"}), (4, {symbol := some "C"})],
    adj := [(0, [(1, [(0, .s 2)])]), (1, [(0, [(0, .s 2)]), (2, [(0, .s 4)]), (3, [(0, .s 2)])]), (2, [(1, [(0, .s 4)])]), (3, [(1, [(0, .s 2)]), (4, [(0, .s 2)])]), (4, [(3, [(0, .s 2)])])] }

/-- `parse('RC(=O)OR')` -/
def esterPattern : Graph :=
  { nodes := [(0, {symbol := some "R"}), (1, {symbol := some "C"}), (2, {symbol := some "O"}), (3, {symbol := some "O"}), (4, {symbol := some "R"})],
    adj := [(0, [(1, [(0, .s 2)])]), (1, [(0, [(0, .s 2)]), (2, [(0, .s 4)]), (3, [(0, .s 2)])]), (2, [(1, [(0, .s 4)])]), (3, [(1, [(0, .s 2)]), (4, [(0, .s 2)])]), (4, [(3, [(0, .s 2)])])] }

/-- test: all hypotheses of `anchored_sound_partial` hold on methyl acetate ← `RC(=O)OR` at the
    carbonyl carbon, so the theorem yields an embedding there -/
example : IsEmbeddingPairs mR esterPattern ester 1 1 (mapAnchored ester 1 esterPattern 1 mR).mapping :=
  anchored_sound_partial mR esterPattern ester 1 1 rfl (wfB_sound _ (by decide)) (wfB_sound _ (by decide))
    (isForestB_sound _ (by decide)) (isForestB_sound _ (by decide)) (by decide) (by decide) (by decide)

/-- test: `local_sound` applies to the cyclic witness (where the full statement fails) -/
example : LocalSound mR pentaneBranched cyclopropane 0 0 (mapAnchored cyclopropane 0 pentaneBranched 0 mR).mapping :=
  local_sound mR pentaneBranched cyclopropane 0 0 rfl (by decide)

/-- test: exactness — the acid carbon of the ester does not match at the ether oxygen, hence no
    embedding exists there -/
example : ¬ ∃ f, IsAnchoredEmbedding mR esterPattern ester 1 3 f :=
  anchored_failure_acyclic mR esterPattern ester 1 3 rfl (wfB_sound _ (by decide)) (wfB_sound _ (by decide))
    (isForestB_sound _ (by decide)) (isForestB_sound _ (by decide)) (by decide) (by decide) (by decide)

end C04
