import FGVerif.Proofs.C15General
/-!
  C15 — the DIRECT check of the two halves of a sample (`Model/C15.lean: halfB`, `halvesB`), the clause of
  the driver's `sampleOk` that does not go through any `get_its` model (whose `orderOf` / `getD` are total
  and read a tuple label or a missing label as order 0).

  * `C15.halfB_sound`      what a `true` answer means (declaratively, `HalfSpec`): the half is a simple
                           closed graph, EVERY bond label is a scalar `≠ 0`, and between any two pattern
                           nodes the half carries exactly the labels that side keeps of the pattern's
                           labels there (`splitG` / `splitH`)
  * `C15.halvesB_sound`    the same for both halves
  * `C15.halfSpec_pair`    consequence, bond by bond, for a simple well-formed pattern and half: the pair is
                           bonded in the half iff the pattern's label there has a non-zero component on that
                           side, and then the half's label is that component as a scalar
  * `C15.halvesB_reaction` the model's halves `reaction x = split_its x` pass the direct check for every
                           well-formed simple pattern whose labels are `goodLabel` (same hypotheses as
                           `C15.superposition`; evaluated by the driver on every sample)
-/
set_option linter.unusedSimpArgs false
namespace C15
open Graph C13 C13.E C15.P

/-- declarative content of the direct check of one half `g` against the pattern `x` -/
structure HalfSpec (side : Label → List Label) (x g : Graph) : Prop where
  simple : g.multi = false
  closed : C13.Closed g
  scalar : ∀ e ∈ g.edges, ∃ o : Int, o ≠ 0 ∧ e.2.2.2 = .s o
  labels : ∀ a ∈ x.nodeIds, ∀ b ∈ x.nodeIds, labelsBetween g a b = (labelsBetween x a b).flatMap side

theorem scalarNZ_iff (l : Label) : scalarNZ l = true ↔ ∃ o : Int, o ≠ 0 ∧ l = .s o := by
  cases l with
  | s o => simp [scalarNZ]
  | p a b => simp [scalarNZ]
  | nil => simp [scalarNZ]

/-- soundness of the executable check of one half -/
theorem halfB_sound (side : Label → List Label) (x g : Graph) (h : halfB side x g = true) : HalfSpec side x g := by
  simp only [halfB, Bool.and_eq_true, Bool.not_eq_true', List.all_eq_true, beq_iff_eq] at h
  obtain ⟨⟨⟨hm, hc⟩, hs⟩, hl⟩ := h
  exact ⟨hm, C13.closed_of_closedB g hc, fun e he => (scalarNZ_iff _).mp (hs e he), hl⟩

/-- soundness of the executable check of both halves -/
theorem halvesB_sound (x g h : Graph) (hb : halvesB x g h = true) : HalfSpec splitG x g ∧ HalfSpec splitH x h := by
  simp only [halvesB, Bool.and_eq_true] at hb
  exact ⟨halfB_sound _ _ _ hb.1, halfB_sound _ _ _ hb.2⟩

/-- bond by bond (reactant side): where the pattern has the single label `l` between two of its nodes, the
    half has no bond if `l` is a pair with reactant component 0, the scalar `a` if `l = (a, _)`, `a ≠ 0`,
    and `l` itself if `l` is a scalar -/
theorem halfSpec_pair_G {x g : Graph} (hs : HalfSpec splitG x g) {a b : Int} (ha : a ∈ x.nodeIds) (hb : b ∈ x.nodeIds) :
    (labelsBetween x a b = [] → labelsBetween g a b = []) ∧
    (∀ p q : Int, labelsBetween x a b = [.p p q] → labelsBetween g a b = if p = 0 then [] else [.s p]) ∧
    (∀ o : Int, labelsBetween x a b = [.s o] → labelsBetween g a b = [.s o]) := by
  have h := hs.labels a ha b hb
  refine ⟨fun e => ?_, fun p q e => ?_, fun o e => ?_⟩
  · rw [h, e]; rfl
  · rw [h, e]; simp [splitG]
  · rw [h, e]; simp [splitG]

/-- bond by bond (product side) -/
theorem halfSpec_pair_H {x g : Graph} (hs : HalfSpec splitH x g) {a b : Int} (ha : a ∈ x.nodeIds) (hb : b ∈ x.nodeIds) :
    (labelsBetween x a b = [] → labelsBetween g a b = []) ∧
    (∀ p q : Int, labelsBetween x a b = [.p p q] → labelsBetween g a b = if q = 0 then [] else [.s q]) ∧
    (∀ o : Int, labelsBetween x a b = [.s o] → labelsBetween g a b = [.s o]) := by
  have h := hs.labels a ha b hb
  refine ⟨fun e => ?_, fun p q e => ?_, fun o e => ?_⟩
  · rw [h, e]; rfl
  · rw [h, e]; simp [splitH]
  · rw [h, e]; simp [splitH]

theorem closedB_of_wf {g : Graph} (hw : wf g = true) : closedB g = true := by
  have w := WF_of_wf hw
  obtain ⟨hr, _, hall⟩ := (wf_iff g).mp hw
  simp only [closedB, List.all_eq_true, Bool.and_eq_true, List.contains_eq_mem, decide_eq_true_eq]
  intro r hr'
  refine ⟨?_, fun e he => ?_⟩
  · have : r.1 ∈ ids g.adj := List.mem_map.mpr ⟨r, hr', rfl⟩
    rw [hr] at this; exact this
  · have hn : (ids g.adj).Nodup := by rw [w.rows]; exact w.nodup
    have hrow : g.adjRow r.1 = r.2 := by rw [adjRow_eq]; exact lk_of_mem_nodup hn hr'
    apply w.closed r.1 e.1
    unfold Graph.neighbors
    rw [hrow]
    exact List.mem_map.mpr ⟨e, he, rfl⟩

/-- what a side keeps of a good label is a non-zero scalar -/
theorem side_scalarNZ (k : Bool) {l0 l : Label} (hg : goodLabel l0 = true)
    (hl : l ∈ (if k then splitH l0 else splitG l0)) : scalarNZ l = true := by
  cases l0 with
  | nil => simp [goodLabel] at hg
  | s o =>
    have : l = .s o := by cases k <;> simpa [splitG, splitH] using hl
    subst this
    simpa [goodLabel, scalarNZ] using hg
  | p a b =>
    cases k
    · by_cases ha : a = 0
      · simp [splitG, ha] at hl
      · have : l = .s a := by simpa [splitG, ha] using hl
        subst this; simpa [scalarNZ] using ha
    · by_cases hb : b = 0
      · simp [splitH, hb] at hl
      · have : l = .s b := by simpa [splitH, hb] using hl
        subst this; simpa [scalarNZ] using hb

/-- one half of the model passes the direct check -/
theorem halfB_reaction (x : Graph) (hw : wf x = true) (hs : x.multi = false)
    (hl : x.edges.all (fun e => goodLabel e.2.2.2) = true) (k : Bool) :
    halfB (fun l => if k then splitH l else splitG l) x (if k then (reaction x).2 else (reaction x).1) = true := by
  have w := WF_of_wf hw
  have hgw : WF (if k then (reaction x).2 else (reaction x).1) := by
    have := WF_reaction w
    cases k
    · exact this.1
    · exact this.2
  have hgm : (if k then (reaction x).2 else (reaction x).1).multi = false := by
    have := reaction_multi w
    cases k
    · exact this.1.trans hs
    · exact this.2.trans hs
  have hlab : ∀ a b : Int, labelsBetween (if k then (reaction x).2 else (reaction x).1) a b
      = (labelsBetween x a b).flatMap (fun l => if k then splitH l else splitG l) := by
    intro a b
    have := halves_labels x hw hs a b
    cases k
    · simpa using this.1
    · simpa using this.2
  simp only [halfB, Bool.and_eq_true, Bool.not_eq_true', List.all_eq_true, beq_iff_eq]
  refine ⟨⟨⟨hgm, closedB_of_wf (wf_of_WF hgw)⟩, fun e he => ?_⟩, fun a _ b _ => hlab a b⟩
  have hmem : e.2.2.2 ∈ labelsBetween (if k then (reaction x).2 else (reaction x).1) e.1 e.2.1 :=
    (G.mem_labels_iff hgw _ _ _).mpr ⟨e, he, Or.inl ⟨rfl, rfl⟩, rfl⟩
  rw [hlab] at hmem
  obtain ⟨l0, hl0, hl1⟩ := List.mem_flatMap.mp hmem
  obtain ⟨e0, he0, _, rfl⟩ := (G.mem_labels_iff w _ _ _).mp hl0
  exact side_scalarNZ k (List.all_eq_true.mp hl e0 he0) hl1

/-- **the model's halves pass the direct check**: for every well-formed simple pattern whose labels are
    scalars ≠ 0 or pairs ≠ (0,0), `split_its` leaves on each side exactly the bonded pairs with a non-zero
    component on that side, each labelled with that component as a scalar -/
theorem halvesB_reaction (x : Graph) (hw : wf x = true) (hs : x.multi = false)
    (hl : x.edges.all (fun e => goodLabel e.2.2.2) = true) :
    halvesB x (reaction x).1 (reaction x).2 = true := by
  have h1 := halfB_reaction x hw hs hl false
  have h2 := halfB_reaction x hw hs hl true
  simp only [Bool.false_eq_true, if_false, if_true] at h1 h2
  simp only [halvesB, Bool.and_eq_true]
  exact ⟨h1, h2⟩

/-- test (non-vacuity): a forming, a breaking and an unchanged bond -/
example :
    let x : Graph := addEdgeKey (addEdgeKey (addEdgeKey
      { multi := false,
        nodes := [(0, { symbol := some "C", aam := some 1 }), (1, { symbol := some "C", aam := some 2 }),
                  (2, { symbol := some "O", aam := some 3 }), (3, { symbol := some "C", aam := some 4 })],
        adj := [(0, []), (1, []), (2, []), (3, [])] } 0 1 0 (.p 0 2)) 1 2 0 (.p 2 0)) 2 3 0 (.s 2)
    halvesB x (reaction x).1 (reaction x).2 = true ∧
    -- a reactant half that keeps the unformed bond under its tuple label is rejected
    halvesB x x (reaction x).2 = false := by decide

end C15
