import FGVerif.Proofs.C18Lemmas
/-!
  C18 — `node_induced_subgraph` / `edge_induced_subgraph` on the tensor form of an ITS graph equal
  the tensor form of the corresponding induced subgraph, under the stated renumbering.
-/
namespace C18

/-- row `pos s` of the feature matrix carries the features of node `s` -/
theorem x_getD_pos (nf : NF) : ∀ (l : List (Int × String)) (s : Int), s ∈ l.map (·.1) →
    (l.map fun n => nf n.2).getD ((l.map (·.1)).idxOf s) [] = nf ((l.lookup s).getD "") := by
  intro l
  induction l with
  | nil => intro s h; simp at h
  | cons a l ih =>
    obtain ⟨a, sym⟩ := a
    intro s h
    by_cases has : a = s
    · subst has; simp
    · have hs : s ∈ l.map (·.1) := by
        rcases List.mem_cons.mp h with e | h
        · exact absurd e.symm has
        · exact h
      have hne : (s == a) = false := by simpa using fun e => has e.symm
      simp only [List.map_cons, idxOf_cons_ne _ has, List.getD_cons_succ, List.lookup_cons, hne]
      exact ih s hs

theorem contains_map_pos (I : ITS) (S : List Int) (hS : ∀ s ∈ S, s ∈ I.ids) (u : Int) :
    (S.map I.pos).contains (I.pos u) = S.contains u := by
  rw [List.contains_eq_mem, List.contains_eq_mem]
  congr 1
  apply propext
  constructor
  · intro h
    obtain ⟨s, hs, e⟩ := List.mem_map.mp h
    have := pos_inj I (hS s hs) e
    exact this ▸ hs
  · intro h
    exact List.mem_map.mpr ⟨u, h, rfl⟩

theorem nodeSub_pos (I : ITS) (S : List Int) (u : Int) : (nodeSub I S).pos u = S.idxOf u := by
  simp [ITS.pos, ITS.ids, nodeSub, List.map_map, Function.comp_def]

/-- **C18.node_induced**: for node ids `S ⊆ I` (the order of `S` fixes the renumbering `S[k] ↦ k`),
    the node-induced tensor subgraph of the tensor form of `I` on the rows of `S` is the tensor
    form of the induced subgraph `I[S]` — same feature rows, same columns, same edge features. -/
theorem node_induced (nf : NF) (ef : EF) (I : ITS) (S : List Int)
    (hS : ∀ s ∈ S, s ∈ I.ids) :
    nodeInduced (toTorchWith nf ef I) (S.map I.pos) = toTorchWith nf ef (nodeSub I S) := by
  have hcols : (toTorchWith nf ef I).ei.zip (toTorchWith nf ef I).ea
      = I.edges.flatMap fun e =>
          [((I.pos e.u, I.pos e.v), ef e.g e.h), ((I.pos e.v, I.pos e.u), ef e.g e.h)] :=
    zip_flatMap_pair I.edges _ _ _ _
  have hkept := filter_flatMap_pair
    (fun e : Edge => ((I.pos e.u, I.pos e.v), ef e.g e.h)) (fun e => ((I.pos e.v, I.pos e.u), ef e.g e.h))
    (fun c => (S.map I.pos).contains c.1.1 && (S.map I.pos).contains c.1.2)
    (fun e => S.contains e.u && S.contains e.v) I.edges (by
      intro e _
      simp only [contains_map_pos I S hS]
      exact ⟨trivial, Bool.and_comm _ _⟩)
  have hx : (S.map I.pos).map (fun i => (toTorchWith nf ef I).x.getD i [])
      = (nodeSub I S).nodes.map fun n => nf n.2 := by
    simp only [nodeSub, toTorchWith, List.map_map]
    apply List.map_congr_left
    intro s hs
    exact x_getD_pos nf I.nodes s (hS s hs)
  have hidx : ∀ e ∈ I.edges.filter (fun e => S.contains e.u && S.contains e.v),
      (S.map I.pos).idxOf (I.pos e.u) = S.idxOf e.u ∧ (S.map I.pos).idxOf (I.pos e.v) = S.idxOf e.v := by
    intro e he
    have hm := (List.mem_filter.mp he).1
    have hq := (List.mem_filter.mp he).2
    simp only [Bool.and_eq_true, List.contains_iff_mem] at hq
    exact ⟨idxOf_map_inj I.pos e.u S (fun a ha h => pos_inj I (hS a ha) h),
           idxOf_map_inj I.pos e.v S (fun a ha h => pos_inj I (hS a ha) h)⟩
  unfold nodeInduced
  rw [hcols, hkept, hx]
  simp only [List.map_flatMap, List.map_cons, List.map_nil]
  have hei : ((I.edges.filter fun e => S.contains e.u && S.contains e.v).flatMap fun e =>
        [((S.map I.pos).idxOf (I.pos e.u), (S.map I.pos).idxOf (I.pos e.v)),
         ((S.map I.pos).idxOf (I.pos e.v), (S.map I.pos).idxOf (I.pos e.u))])
      = (nodeSub I S).edges.flatMap fun e =>
          [((nodeSub I S).pos e.u, (nodeSub I S).pos e.v), ((nodeSub I S).pos e.v, (nodeSub I S).pos e.u)] := by
    simp only [nodeSub_pos]
    apply flatMap_congr_mem
    intro e he
    rw [(hidx e he).1, (hidx e he).2]
  rw [hei]
  rfl

/-! non-vacuity (test): ids from 1, the subset listed in a permuted order -/
example :
    nodeInduced (toTorchWith (nfDefault sym2num) efDefault
        ⟨[(1, "C"), (2, "O"), (3, "N")], [⟨1, 2, some 2, some 4⟩, ⟨2, 3, some 2, none⟩]⟩) [2, 1]
      = ⟨[[7], [8]], [(1, 0), (0, 1)], [[2, 0], [2, 0]]⟩ := by decide +kernel

/-! ### edge-induced -/

theorem getD_edgeCols {α β} (l : List α) (f1 f2 : α → β) (d : β) :
    ∀ (E : List Nat), (∀ k ∈ E, k < l.length) →
      (edgeCols E).map (fun c => (l.flatMap fun e => [f1 e, f2 e]).getD c d)
        = (E.filterMap fun k => l[k]?).flatMap fun e => [f1 e, f2 e] := by
  intro E
  induction E with
  | nil => intro _; rfl
  | cons k E ih =>
    intro h
    have hk : k < l.length := h k List.mem_cons_self
    have ih' := ih (fun j hj => h j (List.mem_cons_of_mem _ hj))
    obtain ⟨h1, h2⟩ := getD_flatMap_pair f1 f2 d l k hk
    have hc : edgeCols (k :: E) = 2 * k :: (2 * k + 1) :: edgeCols E := by
      simp [edgeCols, List.flatMap_cons]
    have he : l[k]? = some l[k] := List.getElem?_eq_getElem hk
    simp only [hc, List.map_cons, h1, h2, ih', List.filterMap_cons, he, List.flatMap_cons,
      List.cons_append, List.nil_append]

theorem lookup_of_mem_nodup : ∀ (l : List (Int × String)) (n : Int × String),
    (l.map (·.1)).Nodup → n ∈ l → l.lookup n.1 = some n.2 := by
  intro l
  induction l with
  | nil => intro n _ h; simp at h
  | cons a l ih =>
    obtain ⟨a, sym⟩ := a
    intro n hnd hn
    simp only [List.map_cons, List.nodup_cons] at hnd
    rcases List.mem_cons.mp hn with e | hn
    · subst e; simp
    · have hne : n.1 ≠ a := by
        intro e
        exact hnd.1 (e ▸ List.mem_map.mpr ⟨n, hn, rfl⟩)
      have : (n.1 == a) = false := by simpa using hne
      rw [List.lookup_cons, this]
      exact ih n hnd.2 hn

theorem mem_filterMap_getElem? {α} (l : List α) (E : List Nat) (e : α)
    (h : e ∈ E.filterMap fun k => l[k]?) : e ∈ l := by
  obtain ⟨k, _, hk⟩ := List.mem_filterMap.mp h
  exact List.mem_of_getElem? hk

/-- **C18.edge_induced**: for a selection `E` of edges of `I` (by index, any order), the
    edge-induced tensor subgraph on the columns `2k, 2k+1 (k ∈ E)` is the tensor form of the
    subgraph formed by these edges, whose nodes are their end nodes in the node order of `I`. -/
theorem edge_induced (nf : NF) (ef : EF) (I : ITS) (E : List Nat) (hnd : I.ids.Nodup)
    (hE : ∀ e ∈ I.edges, e.u ∈ I.ids ∧ e.v ∈ I.ids) (hk : ∀ k ∈ E, k < I.edges.length) :
    edgeInduced (toTorchWith nf ef I) (edgeCols E) = toTorchWith nf ef (edgeSub I E) := by
  -- the selected edges, the sub-ITS and its ids
  let es := E.filterMap fun k => I.edges[k]?
  have hJe : (edgeSub I E).edges = es := rfl
  have hJn : (edgeSub I E).nodes = I.nodes.filter fun n => es.any fun e => e.u == n.1 || e.v == n.1 := rfl
  have hes : ∀ e ∈ es, e ∈ I.edges := fun e he => mem_filterMap_getElem? _ _ _ he
  have hsub : (edgeSub I E).ids.Sublist I.ids := by
    simp only [ITS.ids, hJn]
    exact List.Sublist.map _ List.filter_sublist
  have hJids : ∀ a ∈ (edgeSub I E).ids, a ∈ I.ids := fun a ha => hsub.subset ha
  -- A: selected columns and attributes
  have hcols : (edgeCols E).map (fun c => (toTorchWith nf ef I).ei.getD c (0, 0))
      = es.flatMap fun e => [(I.pos e.u, I.pos e.v), (I.pos e.v, I.pos e.u)] :=
    getD_edgeCols I.edges _ _ _ E hk
  have hattr : (edgeCols E).map (fun c => (toTorchWith nf ef I).ea.getD c [])
      = es.flatMap fun e => [ef e.g e.h, ef e.g e.h] :=
    getD_edgeCols I.edges _ _ _ E hk
  -- B: the selected rows
  have hsel : uniqueSorted
      ((es.flatMap fun e => [(I.pos e.u, I.pos e.v), (I.pos e.v, I.pos e.u)]).map (·.1) ++
       (es.flatMap fun e => [(I.pos e.u, I.pos e.v), (I.pos e.v, I.pos e.u)]).map (·.2))
      = (edgeSub I E).ids.map I.pos := by
    apply uniqueSorted_eq
    · exact map_idxOf_sublist I.ids _ hnd hsub
    · intro x
      simp only [List.mem_append, List.mem_map, List.mem_flatMap, List.mem_cons, List.not_mem_nil,
        or_false, ITS.ids, hJn, List.mem_filter, List.any_eq_true, Bool.or_eq_true, beq_iff_eq]
      constructor
      · rintro ⟨a, ⟨n, ⟨hn, e, he, hen⟩, rfl⟩, rfl⟩
        rcases hen with h | h
        · left; exact ⟨(I.pos e.u, I.pos e.v), ⟨e, he, Or.inl rfl⟩, by simp [h]⟩
        · right; exact ⟨(I.pos e.u, I.pos e.v), ⟨e, he, Or.inl rfl⟩, by simp [h]⟩
      · rintro (⟨c, ⟨e, he, hc⟩, rfl⟩ | ⟨c, ⟨e, he, hc⟩, rfl⟩)
        · have hmem := hE e (hes e he)
          rcases hc with rfl | rfl
          · obtain ⟨n, hn, hn1⟩ := List.mem_map.mp hmem.1
            exact ⟨n.1, ⟨n, ⟨hn, e, he, Or.inl hn1.symm⟩, rfl⟩, by simp [hn1]⟩
          · obtain ⟨n, hn, hn1⟩ := List.mem_map.mp hmem.2
            exact ⟨n.1, ⟨n, ⟨hn, e, he, Or.inr hn1.symm⟩, rfl⟩, by simp [hn1]⟩
        · have hmem := hE e (hes e he)
          rcases hc with rfl | rfl
          · obtain ⟨n, hn, hn1⟩ := List.mem_map.mp hmem.2
            exact ⟨n.1, ⟨n, ⟨hn, e, he, Or.inr hn1.symm⟩, rfl⟩, by simp [hn1]⟩
          · obtain ⟨n, hn, hn1⟩ := List.mem_map.mp hmem.1
            exact ⟨n.1, ⟨n, ⟨hn, e, he, Or.inl hn1.symm⟩, rfl⟩, by simp [hn1]⟩
  -- C: feature rows
  have hx : ((edgeSub I E).ids.map I.pos).map (fun i => (toTorchWith nf ef I).x.getD i [])
      = (edgeSub I E).nodes.map fun n => nf n.2 := by
    simp only [ITS.ids, List.map_map]
    apply List.map_congr_left
    intro n hn
    have hnI : n ∈ I.nodes := by
      rw [hJn] at hn
      exact (List.mem_filter.mp hn).1
    have := x_getD_pos nf I.nodes n.1 (List.mem_map.mpr ⟨n, hnI, rfl⟩)
    rw [lookup_of_mem_nodup I.nodes n hnd hnI] at this
    simpa [toTorchWith, ITS.pos, ITS.ids] using this
  -- D: renumbering of the columns
  have hidx : ∀ u : Int, ((edgeSub I E).ids.map I.pos).idxOf (I.pos u) = (edgeSub I E).pos u :=
    fun u => idxOf_map_inj I.pos u _ (fun a ha h => pos_inj I (hJids a ha) h)
  unfold edgeInduced
  simp only [hcols, hattr, hsel, hx]
  simp only [List.map_flatMap, List.map_cons, List.map_nil, hidx]
  rfl

/-! non-vacuity (test): sparse ids, the second edge only -/
example :
    edgeInduced (toTorchWith (nfDefault sym2num) efDefault
        ⟨[(7, "C"), (2, "O"), (30, "N")], [⟨7, 2, some 2, some 4⟩, ⟨30, 2, some 2, none⟩]⟩) (edgeCols [1])
      = ⟨[[8], [7]], [(1, 0), (0, 1)], [[2, 0], [2, 0]]⟩ := by decide +kernel

end C18
