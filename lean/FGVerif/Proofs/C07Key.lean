import Mathlib.Data.Finset.Card
import Mathlib.Data.Finset.Image
/-!
  C07 — why the repaired sort key suffices (`C07.key_strict`).

  Abstract finite labelled graphs (no reference to the code): nodes `V`, bonds `E` (ordered pairs;
  an undirected bond is present in both orientations, so `|E|` is twice the number of bonds and
  comparing `|E|` is comparing bond counts), symbols, bond labels.  Symbol admission is that of
  `PermutationMapper(wildcard, ignore_case)`: a pattern symbol admits a host symbol iff it is the
  wildcard or both are equal up to an equivalence (case).

  `key_strict`: if `A` embeds into `B` (injective on nodes, symbol-admitted, every bond of `A`
  present in `B` with the same label) and `B` does not embed into `A`, then
    nonWildcardCount, nodeCount, bondCount  all weakly increase and not all three are equal,
  hence ANY lexicographic arrangement of the three counts increases strictly — in particular the
  repaired key `(pattern_len, |V|, |E|, …)`.  The unrepaired key `(pattern_len, |V|, hash)`
  lacks the third count: propane/cyclopropane have equal first two components.
  (Uses Mathlib's `Finset.card` lemmas; axioms: propext, Classical.choice, Quot.sound.)
-/
namespace C07

/-- a finite labelled graph -/
structure PGraph (ν σ β : Type) where
  V : Finset ν
  E : Finset (ν × ν)
  sym : ν → σ
  bond : ν → ν → β

/-- every bond joins nodes of the graph -/
def PGraph.WF {ν σ β} (G : PGraph ν σ β) : Prop := ∀ e, e ∈ G.E → e.1 ∈ G.V ∧ e.2 ∈ G.V

/-- symbol admission: `wild` (is the wildcard), `eqv` (equal up to case) -/
structure Admission (σ : Type) where
  wild : σ → Prop
  eqv : σ → σ → Prop
  symm : ∀ a b, eqv a b → eqv b a
  wild_congr : ∀ a b, eqv a b → (wild a ↔ wild b)

def Admission.admits {σ} (A : Admission σ) (p h : σ) : Prop := A.wild p ∨ A.eqv p h

/-- `f` embeds the pattern `P` into the host `H` -/
structure IsEmb {ν σ β} (A : Admission σ) (P H : PGraph ν σ β) (f : ν → ν) : Prop where
  maps : ∀ p, p ∈ P.V → f p ∈ H.V
  inj : ∀ p, p ∈ P.V → ∀ q, q ∈ P.V → f p = f q → p = q
  adm : ∀ p, p ∈ P.V → A.admits (P.sym p) (H.sym (f p))
  edge : ∀ e, e ∈ P.E → (f e.1, f e.2) ∈ H.E ∧ H.bond (f e.1) (f e.2) = P.bond e.1 e.2

section
open Classical

/-- `FGConfig.pattern_len`: the number of non-wildcard nodes -/
noncomputable def nonWild {ν σ β} (A : Admission σ) (G : PGraph ν σ β) : Finset ν :=
  G.V.filter fun v => ¬ A.wild (G.sym v)

variable {ν σ β : Type}

theorem emb_counts_le (A : Admission σ) (P H : PGraph ν σ β) (f : ν → ν) (hP : P.WF)
    (hf : IsEmb A P H f) :
    (nonWild A P).card ≤ (nonWild A H).card ∧ P.V.card ≤ H.V.card ∧ P.E.card ≤ H.E.card := by
  refine ⟨?_, ?_, ?_⟩
  · apply Finset.card_le_card_of_injOn f
    · intro p hp
      have hp' := Finset.mem_filter.mp (Finset.mem_coe.mp hp)
      apply Finset.mem_coe.mpr
      refine Finset.mem_filter.mpr ⟨hf.maps p hp'.1, ?_⟩
      rcases hf.adm p hp'.1 with hw | he
      · exact absurd hw hp'.2
      · intro hw; exact hp'.2 ((A.wild_congr _ _ he).mpr hw)
    · intro a ha b hb hab
      exact hf.inj a (Finset.mem_filter.mp (Finset.mem_coe.mp ha)).1 b (Finset.mem_filter.mp (Finset.mem_coe.mp hb)).1 hab
  · apply Finset.card_le_card_of_injOn f
    · intro p hp; exact Finset.mem_coe.mpr (hf.maps p (Finset.mem_coe.mp hp))
    · intro a ha b hb hab; exact hf.inj a (Finset.mem_coe.mp ha) b (Finset.mem_coe.mp hb) hab
  · apply Finset.card_le_card_of_injOn (fun e : ν × ν => (f e.1, f e.2))
    · intro e he; exact Finset.mem_coe.mpr (hf.edge e (Finset.mem_coe.mp he)).1
    · intro a ha b hb hab
      have ha' := hP a (Finset.mem_coe.mp ha)
      have hb' := hP b (Finset.mem_coe.mp hb)
      have h1 : f a.1 = f b.1 := congrArg Prod.fst hab
      have h2 : f a.2 = f b.2 := congrArg Prod.snd hab
      exact Prod.ext (hf.inj _ ha'.1 _ hb'.1 h1) (hf.inj _ ha'.2 _ hb'.2 h2)

/-- an embedding between graphs with equal counts can be inverted -/
theorem emb_invertible (A : Admission σ) (P H : PGraph ν σ β) (f : ν → ν) (hP : P.WF)
    (hf : IsEmb A P H f)
    (h1 : (nonWild A P).card = (nonWild A H).card) (h2 : P.V.card = H.V.card) (h3 : P.E.card = H.E.card) :
    ∃ g, IsEmb A H P g := by
  -- f is onto the nodes, the non-wildcard nodes and the bonds of H
  have hinjV : Set.InjOn f ↑P.V := fun a ha b hb hab => hf.inj a (Finset.mem_coe.mp ha) b (Finset.mem_coe.mp hb) hab
  have imgV : P.V.image f = H.V := by
    apply Finset.eq_of_subset_of_card_le
    · intro u hu
      obtain ⟨p, hp, rfl⟩ := Finset.mem_image.mp hu
      exact hf.maps p hp
    · rw [Finset.card_image_of_injOn hinjV, h2]
  have hinjN : Set.InjOn f ↑(nonWild A P) := fun a ha b hb hab =>
    hf.inj a (Finset.mem_filter.mp (Finset.mem_coe.mp ha)).1 b (Finset.mem_filter.mp (Finset.mem_coe.mp hb)).1 hab
  have imgN : (nonWild A P).image f = nonWild A H := by
    apply Finset.eq_of_subset_of_card_le
    · intro u hu
      obtain ⟨p, hp, rfl⟩ := Finset.mem_image.mp hu
      have hp' := Finset.mem_filter.mp hp
      refine Finset.mem_filter.mpr ⟨hf.maps p hp'.1, ?_⟩
      rcases hf.adm p hp'.1 with hw | he
      · exact absurd hw hp'.2
      · intro hw; exact hp'.2 ((A.wild_congr _ _ he).mpr hw)
    · rw [Finset.card_image_of_injOn hinjN, h1]
  have hinjE : Set.InjOn (fun e : ν × ν => (f e.1, f e.2)) ↑P.E := by
    intro a ha b hb hab
    have ha' := hP a (Finset.mem_coe.mp ha)
    have hb' := hP b (Finset.mem_coe.mp hb)
    have e1 : f a.1 = f b.1 := congrArg Prod.fst hab
    have e2 : f a.2 = f b.2 := congrArg Prod.snd hab
    exact Prod.ext (hf.inj _ ha'.1 _ hb'.1 e1) (hf.inj _ ha'.2 _ hb'.2 e2)
  have imgE : P.E.image (fun e : ν × ν => (f e.1, f e.2)) = H.E := by
    apply Finset.eq_of_subset_of_card_le
    · intro u hu
      obtain ⟨e, he, rfl⟩ := Finset.mem_image.mp hu
      exact (hf.edge e he).1
    · rw [Finset.card_image_of_injOn hinjE, h3]
  -- the inverse
  let g : ν → ν := fun u => if h : ∃ p, p ∈ P.V ∧ f p = u then h.choose else u
  have hg : ∀ u, u ∈ H.V → g u ∈ P.V ∧ f (g u) = u := by
    intro u hu
    rw [← imgV] at hu
    obtain ⟨p, hp, hpu⟩ := Finset.mem_image.mp hu
    have hex : ∃ p, p ∈ P.V ∧ f p = u := ⟨p, hp, hpu⟩
    have : g u = hex.choose := by simp only [g, dif_pos hex]
    rw [this]
    exact hex.choose_spec
  have hgf : ∀ p, p ∈ P.V → g (f p) = p := by
    intro p hp
    obtain ⟨h1', h2'⟩ := hg (f p) (hf.maps p hp)
    exact hf.inj _ h1' _ hp h2'
  refine ⟨g, ⟨fun u hu => (hg u hu).1, ?_, ?_, ?_⟩⟩
  · intro u hu v hv huv
    have := congrArg f huv
    rw [(hg u hu).2, (hg v hv).2] at this
    exact this
  · intro u hu
    obtain ⟨hp, hfu⟩ := hg u hu
    rcases hf.adm (g u) hp with hw | he
    · left
      by_contra hnw
      have hu' : u ∈ nonWild A H := Finset.mem_filter.mpr ⟨hu, hnw⟩
      rw [← imgN] at hu'
      obtain ⟨p', hp', hp'u⟩ := Finset.mem_image.mp hu'
      have hp'' := Finset.mem_filter.mp hp'
      have : p' = g u := hf.inj _ hp''.1 _ hp (hp'u.trans hfu.symm)
      subst this
      exact hp''.2 hw
    · right
      rw [hfu] at he
      exact A.symm _ _ he
  · intro e he
    rw [← imgE] at he
    obtain ⟨e', he', hee⟩ := Finset.mem_image.mp he
    have hw := hP e' he'
    have e1 : f e'.1 = e.1 := congrArg Prod.fst hee
    have e2 : f e'.2 = e.2 := congrArg Prod.snd hee
    have g1 : g e.1 = e'.1 := by rw [← e1]; exact hgf _ hw.1
    have g2 : g e.2 = e'.2 := by rw [← e2]; exact hgf _ hw.2
    rw [g1, g2]
    refine ⟨by simpa using he', ?_⟩
    have := (hf.edge e' he').2
    rw [e1, e2] at this
    exact this.symm

/-- **C07.key_strict** — a proper specialisation strictly increases the three counts taken
    together: each count weakly increases and they are not all equal. -/
theorem key_strict (A : Admission σ) (P H : PGraph ν σ β) (f : ν → ν) (hP : P.WF)
    (hf : IsEmb A P H f) (hno : ¬ ∃ g, IsEmb A H P g) :
    (nonWild A P).card ≤ (nonWild A H).card ∧ P.V.card ≤ H.V.card ∧ P.E.card ≤ H.E.card ∧
      ¬ ((nonWild A P).card = (nonWild A H).card ∧ P.V.card = H.V.card ∧ P.E.card = H.E.card) := by
  obtain ⟨a, b, c⟩ := emb_counts_le A P H f hP hf
  refine ⟨a, b, c, ?_⟩
  rintro ⟨h1, h2, h3⟩
  exact hno (emb_invertible A P H f hP hf h1 h2 h3)

/-- the repaired key order `(pattern_len, |V|, |E|)` increases strictly … -/
theorem key_strict_lex (A : Admission σ) (P H : PGraph ν σ β) (f : ν → ν) (hP : P.WF)
    (hf : IsEmb A P H f) (hno : ¬ ∃ g, IsEmb A H P g) :
    (nonWild A P).card < (nonWild A H).card ∨
    ((nonWild A P).card = (nonWild A H).card ∧ (P.V.card < H.V.card ∨ (P.V.card = H.V.card ∧ P.E.card < H.E.card))) := by
  obtain ⟨a, b, c, d⟩ := key_strict A P H f hP hf hno
  omega

/-- … and so does the arrangement `(|V|, pattern_len, |E|)` of mutant m14: with the bond count in
    the key, swapping the first two components cannot break the hierarchy (an equivalent mutant
    as far as C07's relation is concerned) -/
theorem key_strict_lex_swapped (A : Admission σ) (P H : PGraph ν σ β) (f : ν → ν) (hP : P.WF)
    (hf : IsEmb A P H f) (hno : ¬ ∃ g, IsEmb A H P g) :
    P.V.card < H.V.card ∨
    (P.V.card = H.V.card ∧ ((nonWild A P).card < (nonWild A H).card ∨
      ((nonWild A P).card = (nonWild A H).card ∧ P.E.card < H.E.card))) := by
  obtain ⟨a, b, c, d⟩ := key_strict A P H f hP hf hno
  omega

end

/-- the unrepaired key `(pattern_len, |V|)` does NOT suffice: propane embeds into cyclopropane,
    not conversely, and both counts agree (test / witness on concrete data) -/
def propane : PGraph Nat Unit Unit :=
  { V := {0, 1, 2}, E := {(0, 1), (1, 0), (1, 2), (2, 1)}, sym := fun _ => (), bond := fun _ _ => () }
def cyclopropane : PGraph Nat Unit Unit :=
  { V := {0, 1, 2}, E := {(0, 1), (1, 0), (1, 2), (2, 1), (0, 2), (2, 0)}, sym := fun _ => (), bond := fun _ _ => () }

example : propane.V.card = cyclopropane.V.card ∧ propane.E.card < cyclopropane.E.card := by decide

end C07
