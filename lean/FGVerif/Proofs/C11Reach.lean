import FGVerif.Model.C11
/-!
  Reach — walks, adjacency-power sums and breadth-first distance.  Reusable library (C11, C18).

  Part 1 (any vertex type `α`): a (multi)graph is a vertex predicate `V` and an adjacency count
  `adj : α → α → Nat` (number of parallel edges, `0` = no edge).
    * `Walk V adj k s v`      a walk with `k` edges from `s` to `v` through vertices of `V`
    * `DistLe V adj s v r`    "the shortest-path distance from `s` to `v` is at most `r`"
                              := there is a walk of length `≤ r`
    * `IsDist V adj s v d`    `d` is the length of a shortest walk (the distance)
    * `Within V adj S r v`    breadth-first: `within 0 = S`, `within (r+1) = within r ∪ neighbours`
    * `within_iff_distLe`, `walk_le_iff_dist`, `not_distLe_iff_dist_gt`, `Walk.map`

  Part 2 (indices `< n`): matrices as functions `Nat → Nat → Nat`, sums over `k < n`
    * `pow_pos_iff_walk`, `powsum_pos_iff_walk : 0 < (Σ_{k≤r} A^k) s v ↔ ∃ walk s→v of length ≤ r`
    * `powsum_eq_zero_iff_not_within`

  Part 3: the executable `List (List Nat)` matrices of `Model/C11.lean` (`tab`, `matMul`, `matAdd`,
  `powLoop`) represent these functions (`entry_tab`, `powSumMat_entry`, `powSumMat_entry_oob`).

  Core Lean only.
-/
namespace Reach

/-! ### finite sums -/

theorem sumTo_pos_iff (n : Nat) (f : Nat → Nat) : 0 < sumTo n f ↔ ∃ k, k < n ∧ 0 < f k := by
  induction n with
  | zero => simp [sumTo]
  | succ n ih =>
    simp only [sumTo]
    constructor
    · intro h
      by_cases hf : 0 < f n
      · exact ⟨n, Nat.lt_succ_self n, hf⟩
      · have : 0 < sumTo n f := by omega
        obtain ⟨k, hk, hfk⟩ := ih.mp this
        exact ⟨k, Nat.lt_succ_of_lt hk, hfk⟩
    · rintro ⟨k, hk, hfk⟩
      by_cases hkn : k = n
      · subst hkn; omega
      · have : 0 < sumTo n f := ih.mpr ⟨k, by omega, hfk⟩
        omega

theorem sumTo_eq_zero_iff (n : Nat) (f : Nat → Nat) : sumTo n f = 0 ↔ ∀ k, k < n → f k = 0 := by
  constructor
  · intro h k hk
    by_cases hf : 0 < f k
    · have := (sumTo_pos_iff n f).mpr ⟨k, hk, hf⟩; omega
    · omega
  · intro h
    by_cases hp : 0 < sumTo n f
    · obtain ⟨k, hk, hfk⟩ := (sumTo_pos_iff n f).mp hp
      have := h k hk; omega
    · omega

theorem sumTo_congr (n : Nat) (f g : Nat → Nat) (h : ∀ k, k < n → f k = g k) : sumTo n f = sumTo n g := by
  induction n with
  | zero => rfl
  | succ n ih =>
    simp only [sumTo]
    rw [ih (fun k hk => h k (Nat.lt_succ_of_lt hk)), h n (Nat.lt_succ_self n)]

/-- `sumTo` is the sum over `List.range n` -/
theorem sumTo_eq_range (n : Nat) (f : Nat → Nat) : sumTo n f = ((List.range n).map f).sum := by
  induction n with
  | zero => rfl
  | succ n ih => simp [sumTo, List.range_succ, ih]

theorem list_sum_eq_zero_iff (l : List Nat) : l.sum = 0 ↔ ∀ x ∈ l, x = 0 := by
  induction l with
  | nil => simp
  | cons a l ih =>
    simp only [List.sum_cons, List.mem_cons, forall_eq_or_imp]
    rw [← ih]; omega

/-! ### Part 1: walks, distance, breadth-first layers (any vertex type) -/
section Walks
variable {α : Type}

/-- a walk with `k` edges from `s` to `v`; every vertex on it satisfies `V` -/
inductive Walk (V : α → Prop) (adj : α → α → Nat) : Nat → α → α → Prop
  | zero {s : α} : V s → Walk V adj 0 s s
  | snoc {k : Nat} {s m v : α} : Walk V adj k s m → V v → 0 < adj m v → Walk V adj (k + 1) s v

/-- the shortest-path distance from `s` to `v` is at most `r` -/
def DistLe (V : α → Prop) (adj : α → α → Nat) (s v : α) (r : Nat) : Prop :=
  ∃ k, k ≤ r ∧ Walk V adj k s v

/-- `d` is the shortest-path distance from `s` to `v` -/
def IsDist (V : α → Prop) (adj : α → α → Nat) (s v : α) (d : Nat) : Prop :=
  Walk V adj d s v ∧ ∀ k, k < d → ¬ Walk V adj k s v

/-- breadth-first layers: `within 0` = the start set, `within (r+1)` = `within r` and its neighbours -/
def Within (V : α → Prop) (adj : α → α → Nat) (S : α → Prop) : Nat → α → Prop
  | 0, v => S v ∧ V v
  | r + 1, v => Within V adj S r v ∨ (V v ∧ ∃ u, Within V adj S r u ∧ 0 < adj u v)

variable {V : α → Prop} {adj : α → α → Nat}

theorem Walk.right_mem {k : Nat} {s v : α} (w : Walk V adj k s v) : V v := by
  cases w with
  | zero h => exact h
  | snoc _ h _ => exact h

theorem Walk.left_mem {k : Nat} {s v : α} (w : Walk V adj k s v) : V s := by
  induction w with
  | zero h => exact h
  | snoc _ _ _ ih => exact ih

theorem Walk.zero_iff {s v : α} : Walk V adj 0 s v ↔ s = v ∧ V s := by
  constructor
  · intro w; cases w with | zero h => exact ⟨rfl, h⟩
  · rintro ⟨rfl, h⟩; exact .zero h

theorem Walk.succ_iff {k : Nat} {s v : α} :
    Walk V adj (k + 1) s v ↔ ∃ m, Walk V adj k s m ∧ V v ∧ 0 < adj m v := by
  constructor
  · intro w; cases w with | snoc w hv ha => exact ⟨_, w, hv, ha⟩
  · rintro ⟨m, w, hv, ha⟩; exact .snoc w hv ha

/-- walks compose -/
theorem Walk.trans {k l : Nat} {s m v : α} (w1 : Walk V adj k s m) (w2 : Walk V adj l m v) :
    Walk V adj (k + l) s v := by
  induction w2 with
  | zero _ => exact w1
  | snoc _ hv ha ih => exact .snoc (ih w1) hv ha

/-- prepend an edge -/
theorem Walk.cons {k : Nat} {s m v : α} (hs : V s) (ha : 0 < adj s m) (w : Walk V adj k m v) :
    Walk V adj (k + 1) s v := by
  have h1 : Walk V adj 1 s m := .snoc (.zero hs) w.left_mem ha
  have := h1.trans w
  rwa [Nat.add_comm] at this

/-- a walk is transported along a map that preserves vertices and edges -/
theorem Walk.map {β : Type} {V' : β → Prop} {adj' : β → β → Nat} (f : α → β)
    (hV : ∀ a, V a → V' (f a))
    (hA : ∀ a b, V a → V b → 0 < adj a b → 0 < adj' (f a) (f b))
    {k : Nat} {s v : α} (w : Walk V adj k s v) : Walk V' adj' k (f s) (f v) := by
  induction w with
  | zero h => exact .zero (hV _ h)
  | snoc w hv ha ih => exact .snoc ih (hV _ hv) (hA _ _ w.right_mem hv ha)

theorem DistLe.mono {s v : α} {r r' : Nat} (h : DistLe V adj s v r) (hr : r ≤ r') : DistLe V adj s v r' := by
  obtain ⟨k, hk, w⟩ := h
  exact ⟨k, Nat.le_trans hk hr, w⟩

/-- a vertex is at distance 0 from itself, hence within every radius -/
theorem DistLe.refl {s : α} (hs : V s) (r : Nat) : DistLe V adj s s r := ⟨0, Nat.zero_le r, .zero hs⟩

theorem distLe_zero_iff {s v : α} : DistLe V adj s v 0 ↔ s = v ∧ V s := by
  constructor
  · rintro ⟨k, hk, w⟩
    have : k = 0 := by omega
    subst this; exact Walk.zero_iff.mp w
  · rintro ⟨rfl, h⟩; exact DistLe.refl h 0

theorem distLe_succ_iff {s v : α} {r : Nat} :
    DistLe V adj s v (r + 1) ↔ DistLe V adj s v r ∨ (V v ∧ ∃ u, DistLe V adj s u r ∧ 0 < adj u v) := by
  constructor
  · rintro ⟨k, hk, w⟩
    cases k with
    | zero => exact .inl ⟨0, Nat.zero_le r, w⟩
    | succ k =>
      obtain ⟨m, w', hv, ha⟩ := Walk.succ_iff.mp w
      exact .inr ⟨hv, m, ⟨k, by omega, w'⟩, ha⟩
  · rintro (h | ⟨hv, u, ⟨k, hk, w⟩, ha⟩)
    · exact h.mono (Nat.le_succ r)
    · exact ⟨k + 1, by omega, .snoc w hv ha⟩

theorem Within.mem {S : α → Prop} {r : Nat} {v : α} (h : Within V adj S r v) : V v := by
  cases r with
  | zero => exact h.2
  | succ r =>
    rcases h with h | ⟨hv, _⟩
    · exact Within.mem h
    · exact hv

theorem Within.mono {S : α → Prop} {r r' : Nat} {v : α} (h : Within V adj S r v) (hr : r ≤ r') :
    Within V adj S r' v := by
  induction hr with
  | refl => exact h
  | step _ ih => exact .inl ih

/-- **breadth-first layers are distance balls**: `v` is within `r` steps of the start set iff some
    start vertex has distance at most `r` to `v` -/
theorem within_iff_distLe {S : α → Prop} {r : Nat} {v : α} :
    Within V adj S r v ↔ ∃ s, S s ∧ DistLe V adj s v r := by
  induction r generalizing v with
  | zero =>
    simp only [Within]
    constructor
    · rintro ⟨hs, hv⟩; exact ⟨v, hs, DistLe.refl hv 0⟩
    · rintro ⟨s, hs, hd⟩
      obtain ⟨rfl, hv⟩ := distLe_zero_iff.mp hd
      exact ⟨hs, hv⟩
  | succ r ih =>
    simp only [Within]
    constructor
    · rintro (h | ⟨hv, u, hu, ha⟩)
      · obtain ⟨s, hs, hd⟩ := ih.mp h
        exact ⟨s, hs, hd.mono (Nat.le_succ r)⟩
      · obtain ⟨s, hs, hd⟩ := ih.mp hu
        exact ⟨s, hs, distLe_succ_iff.mpr (.inr ⟨hv, u, hd, ha⟩)⟩
    · rintro ⟨s, hs, hd⟩
      rcases distLe_succ_iff.mp hd with h | ⟨hv, u, hu, ha⟩
      · exact .inl (ih.mpr ⟨s, hs, h⟩)
      · exact .inr ⟨hv, u, ih.mpr ⟨s, hs, hu⟩, ha⟩

/-- every walk is at least as long as a shortest one: a distance exists whenever a walk exists -/
theorem exists_isDist_of_walk {s v : α} : ∀ {k : Nat}, Walk V adj k s v → ∃ d, d ≤ k ∧ IsDist V adj s v d := by
  intro k
  induction k using Nat.strongRecOn with
  | _ k ih =>
    intro w
    by_cases h : ∃ k', k' < k ∧ Walk V adj k' s v
    · obtain ⟨k', hk', w'⟩ := h
      obtain ⟨d, hd, hdist⟩ := ih k' hk' w'
      exact ⟨d, by omega, hdist⟩
    · exact ⟨k, Nat.le_refl k, w, fun k' hk' w' => h ⟨k', hk', w'⟩⟩

/-- `Reach.walk_le_iff_dist`: a walk of length `≤ r` exists iff the shortest-path distance is `≤ r` -/
theorem walk_le_iff_dist {s v : α} {r : Nat} :
    (∃ k, k ≤ r ∧ Walk V adj k s v) ↔ ∃ d, d ≤ r ∧ IsDist V adj s v d := by
  constructor
  · rintro ⟨k, hk, w⟩
    obtain ⟨d, hd, h⟩ := exists_isDist_of_walk w
    exact ⟨d, by omega, h⟩
  · rintro ⟨d, hd, h⟩; exact ⟨d, hd, h.1⟩

theorem isDist_unique {s v : α} {d d' : Nat} (h : IsDist V adj s v d) (h' : IsDist V adj s v d') : d = d' := by
  rcases Nat.lt_trichotomy d d' with h1 | h1 | h1
  · exact absurd h.1 (h'.2 d h1)
  · exact h1
  · exact absurd h'.1 (h.2 d' h1)

/-- "not within `r`" reads "the distance, if there is one, exceeds `r`" -/
theorem not_distLe_iff_dist_gt {s v : α} {r : Nat} :
    ¬ DistLe V adj s v r ↔ ∀ d, IsDist V adj s v d → r < d := by
  constructor
  · intro h d hd
    by_cases hle : d ≤ r
    · exact absurd ⟨d, hle, hd.1⟩ h
    · omega
  · intro h hd
    obtain ⟨d, hd', hdist⟩ := walk_le_iff_dist.mp hd
    have := h d hdist; omega

end Walks

/-! ### Part 2: adjacency matrices as functions on indices `< n` -/

/-- identity matrix -/
def ident (i j : Nat) : Nat := if i = j then 1 else 0

/-- matrix product over indices `< n` -/
def mul (n : Nat) (F G : Nat → Nat → Nat) (i j : Nat) : Nat := sumTo n fun k => F i k * G k j

/-- `A^k` -/
def pow (n : Nat) (A : Nat → Nat → Nat) : Nat → Nat → Nat → Nat
  | 0 => ident
  | k + 1 => mul n (pow n A k) A

/-- `Σ_{k ≤ r} A^k` -/
def powsum (n : Nat) (A : Nat → Nat → Nat) : Nat → Nat → Nat → Nat
  | 0 => ident
  | r + 1 => fun i j => powsum n A r i j + pow n A (r + 1) i j

/-- walks on the indices `0 … n-1` -/
abbrev IWalk (n : Nat) (A : Nat → Nat → Nat) := Walk (fun i => i < n) A

/-- the `(i,j)` entry of `A^k` is positive iff there is a walk with exactly `k` edges from `i` to `j` -/
theorem pow_pos_iff_walk (n : Nat) (A : Nat → Nat → Nat) (k : Nat) {i : Nat} (hi : i < n) :
    ∀ {j : Nat}, j < n → (0 < pow n A k i j ↔ IWalk n A k i j) := by
  induction k with
  | zero =>
    intro j hj
    simp only [pow, ident]
    show _ ↔ Walk _ _ 0 i j
    rw [Walk.zero_iff]
    by_cases h : i = j
    · subst h; simp [hi]
    · simp [h]
  | succ k ih =>
    intro j hj
    simp only [pow, mul]
    show _ ↔ Walk _ _ (k + 1) i j
    rw [sumTo_pos_iff, Walk.succ_iff]
    constructor
    · rintro ⟨m, hm, hpos⟩
      have h1 : 0 < pow n A k i m := Nat.pos_of_mul_pos_right hpos
      have h2 : 0 < A m j := Nat.pos_of_mul_pos_left hpos
      exact ⟨m, (ih hm).mp h1, hj, h2⟩
    · rintro ⟨m, w, _, ha⟩
      have hm : m < n := w.right_mem
      exact ⟨m, hm, Nat.mul_pos ((ih hm).mpr w) ha⟩

/-- **`Reach.powsum_pos_iff_walk`**: the `(s,v)` entry of `I + A + … + A^r` is positive iff there is a
    walk from `s` to `v` with at most `r` edges -/
theorem powsum_pos_iff_walk (n : Nat) (A : Nat → Nat → Nat) (r : Nat) {s v : Nat} (hs : s < n) (hv : v < n) :
    0 < powsum n A r s v ↔ ∃ k, k ≤ r ∧ IWalk n A k s v := by
  induction r with
  | zero =>
    have := pow_pos_iff_walk n A 0 hs hv
    simp only [pow] at this
    simp only [powsum]
    rw [this]
    constructor
    · intro w; exact ⟨0, Nat.le_refl 0, w⟩
    · rintro ⟨k, hk, w⟩
      have : k = 0 := by omega
      subst this; exact w
  | succ r ih =>
    simp only [powsum]
    constructor
    · intro h
      by_cases h1 : 0 < powsum n A r s v
      · obtain ⟨k, hk, w⟩ := ih.mp h1
        exact ⟨k, by omega, w⟩
      · have h2 : 0 < pow n A (r + 1) s v := by omega
        exact ⟨r + 1, Nat.le_refl _, (pow_pos_iff_walk n A (r + 1) hs hv).mp h2⟩
    · rintro ⟨k, hk, w⟩
      by_cases hkr : k ≤ r
      · have := ih.mpr ⟨k, hkr, w⟩; omega
      · have hk' : k = r + 1 := by omega
        subst hk'
        have := (pow_pos_iff_walk n A (r + 1) hs hv).mpr w; omega

theorem powsum_pos_iff_distLe (n : Nat) (A : Nat → Nat → Nat) (r : Nat) {s v : Nat} (hs : s < n) (hv : v < n) :
    0 < powsum n A r s v ↔ DistLe (fun i => i < n) A s v r := powsum_pos_iff_walk n A r hs hv

/-- the start vertex itself always has a positive entry (the identity is in the sum for every `r`) -/
theorem powsum_self_pos (n : Nat) (A : Nat → Nat → Nat) (r : Nat) {s : Nat} (hs : s < n) :
    0 < powsum n A r s s := (powsum_pos_iff_distLe n A r hs hs).mpr (DistLe.refl (V := fun i => i < n) hs r)

/-- the summed start rows vanish in column `v` iff `v` is not within `r` breadth-first steps of the
    start set -/
theorem powsum_eq_zero_iff_not_within (n : Nat) (A : Nat → Nat → Nat) (r : Nat) (S : List Nat)
    (hS : ∀ s ∈ S, s < n) {v : Nat} (hv : v < n) :
    (S.map fun s => powsum n A r s v).sum = 0 ↔ ¬ Within (fun i => i < n) A (fun s => s ∈ S) r v := by
  rw [list_sum_eq_zero_iff, within_iff_distLe]
  constructor
  · rintro h ⟨s, hs, hd⟩
    have := h (powsum n A r s v) (List.mem_map.mpr ⟨s, hs, rfl⟩)
    have := (powsum_pos_iff_distLe n A r (hS s hs) hv).mpr hd
    omega
  · intro h x hx
    obtain ⟨s, hs, rfl⟩ := List.mem_map.mp hx
    by_cases hp : 0 < powsum n A r s v
    · exact absurd ⟨s, hs, (powsum_pos_iff_distLe n A r (hS s hs) hv).mp hp⟩ h
    · omega

/-! ### Part 3: the executable `List (List Nat)` matrices represent these functions -/

theorem getD_map_range {β : Type} (n : Nat) (f : Nat → β) (d : β) (i : Nat) :
    ((List.range n).map f).getD i d = if i < n then f i else d := by
  by_cases h : i < n
  · simp [h, List.getD_eq_getElem?_getD]
  · have : n ≤ i := Nat.le_of_not_lt h
    simp [h, List.getD_eq_getElem?_getD]

/-- lookup in a tabulated matrix -/
theorem entry_tab (n : Nat) (f : Nat → Nat → Nat) {i j : Nat} (hi : i < n) (hj : j < n) :
    entry (tab n f) i j = f i j := by
  simp only [entry, tab]
  rw [getD_map_range, if_pos hi, getD_map_range, if_pos hj]

/-- outside the matrix the lookup gives `0` (row index) -/
theorem entry_tab_row_oob (n : Nat) (f : Nat → Nat → Nat) {i : Nat} (j : Nat) (hi : n ≤ i) :
    entry (tab n f) i j = 0 := by
  simp only [entry, tab]
  rw [getD_map_range, if_neg (by omega)]
  simp

/-- `M` holds the values of `f` on `[0,n) × [0,n)` -/
def Represents (n : Nat) (M : Mat) (f : Nat → Nat → Nat) : Prop :=
  ∀ i j, i < n → j < n → entry M i j = f i j

theorem represents_tab (n : Nat) (f : Nat → Nat → Nat) : Represents n (tab n f) f :=
  fun _ _ hi hj => entry_tab n f hi hj

theorem represents_identity (n : Nat) : Represents n (identity n) ident :=
  fun _ _ hi hj => by simp [identity, entry_tab n _ hi hj, ident]

theorem represents_matMul {n : Nat} {D A : Mat} {d a : Nat → Nat → Nat}
    (hD : Represents n D d) (hA : Represents n A a) : Represents n (matMul n D A) (mul n d a) := by
  intro i j hi hj
  simp only [matMul, entry_tab n _ hi hj, mul]
  exact sumTo_congr n _ _ fun k hk => by rw [hD i k hi hk, hA k j hk hj]

theorem represents_matAdd {n : Nat} {S D : Mat} {s d : Nat → Nat → Nat}
    (hS : Represents n S s) (hD : Represents n D d) :
    Represents n (matAdd n S D) (fun i j => s i j + d i j) := by
  intro i j hi hj
  simp only [matAdd, entry_tab n _ hi hj, hS i j hi hj, hD i j hi hj]

/-- loop invariant of `for _ in range(r): D = D·A; D_sum += D` -/
theorem powLoop_represents {n : Nat} {A : Mat} {a : Nat → Nat → Nat} (hA : Represents n A a) :
    ∀ (r k : Nat) (D S : Mat), Represents n D (pow n a k) → Represents n S (powsum n a k) →
      Represents n (powLoop n A r (D, S)).1 (pow n a (k + r)) ∧
      Represents n (powLoop n A r (D, S)).2 (powsum n a (k + r)) := by
  intro r
  induction r with
  | zero => intro k D S hD hS; exact ⟨hD, hS⟩
  | succ r ih =>
    intro k D S hD hS
    simp only [powLoop]
    have hD' : Represents n (matMul n D A) (pow n a (k + 1)) := represents_matMul hD hA
    have hS' : Represents n (matAdd n S (matMul n D A)) (powsum n a (k + 1)) := represents_matAdd hS hD'
    have := ih (k + 1) _ _ hD' hS'
    have e : k + 1 + r = k + (r + 1) := by omega
    rw [e] at this
    exact this

/-- the matrix the code sums the start rows of is `Σ_{k ≤ r} A^k` -/
theorem powSumMat_entry {n : Nat} {A : Mat} {a : Nat → Nat → Nat} (hA : Represents n A a) (r : Nat)
    {i j : Nat} (hi : i < n) (hj : j < n) : entry (powSumMat n A r) i j = powsum n a r i j := by
  have := (powLoop_represents hA r 0 (identity n) (identity n) (represents_identity n) (represents_identity n)).2
  simp only [Nat.zero_add] at this
  exact this i j hi hj

theorem powLoop_snd_tab (n : Nat) (A : Mat) : ∀ (r : Nat) (D S : Mat), (∃ f, S = tab n f) →
    ∃ f, (powLoop n A r (D, S)).2 = tab n f := by
  intro r
  induction r with
  | zero => intro D S h; exact h
  | succ r ih => intro D S _; simp only [powLoop]; exact ih _ _ ⟨_, rfl⟩

/-- a row index outside the matrix (a start node that is not a node) contributes nothing -/
theorem powSumMat_entry_oob (n : Nat) (A : Mat) (r : Nat) {i : Nat} (j : Nat) (hi : n ≤ i) :
    entry (powSumMat n A r) i j = 0 := by
  obtain ⟨f, hf⟩ := powLoop_snd_tab n A r (identity n) (identity n) ⟨_, rfl⟩
  simp only [powSumMat, hf]
  exact entry_tab_row_oob n f j hi

end Reach
