import FGVerif.Proofs.C15SplitC
/-!
  C15 — generated reactions are balanced and mapped; the superposition of the two halves is the
  expanded ITS pattern.

  General theorems about `Model/C15.lean` (`reaction = splitIts`, `getIts`), for every pattern graph:

  * `C15.balanced_mapped_of`      both halves have the pattern's nodes (ids, order), symbols and the
                                  atom map `id + 1` (adjacency closed, ids distinct, `aam = id + 1`)
  * `C15.superposition_pointwise` for a well-formed simple pattern whose labels are `goodLabel`:
                                  the ITS of the two halves has the nodes `liftNodes x`, is a
                                  well-formed (`wf`) closed simple graph, and between the map numbers of
                                  any two `a b : Int` carries exactly the lifted labels of the pattern
  * `C15.superposition`           the executable check `superpositionB` (the one the driver applies
                                  to implementation outputs) holds for the model
  * `C15.halves_labels`           the labels of the two halves: a pair label `(g, h)` leaves `g` on
                                  the reactant side and `h` on the product side (none for order 0),
                                  every other label stays on both sides
  * `C15.super_label`             the label-level algebra `super (split l) = liftLabel l`
  * `C15.getIts_labels`           `get_its` of any two well-formed graphs on the same nodes superposes
                                  the labels pair by pair (`superLabels`)

  Lemmas: `C15SplitA` (node level; `setBond`/`removeEdge` on `edgeData`, `WF`), `C15SplitB`
  (`copyGraph`, the loop of `split_its`), `C15SplitC` (`getIts`); namespace `C15.P`.  They reuse the
  C13 library (`C13.E.WF`, `sel_edges`, `edgeData_addEdgeKey`, `edgeData_addEdgesFrom`, `stage`).
-/
set_option linter.unusedSimpArgs false
namespace C15
open Graph C13 C13.E C15.P

/-! ### balanced and mapped -/

/-- both halves of a reaction have the expanded pattern's nodes, symbols and atom map -/
theorem balanced_mapped_of (x : Graph) (hc : closedB x = true) (hnd : nodupB x.nodeIds = true)
    (haam : x.nodes.all (fun p => p.2.aam == some (p.1 + 1)) = true) :
    balancedMappedB x (reaction x).1 (reaction x).2 = true := by
  have h := reaction_nodes x (closed_of_closedB x hc) ((nodupB_iff _).mp hnd)
  simp only [balancedMappedB, Graph.nodeIds, h.1, h.2, haam, beq_self_eq_true, Bool.and_self]

/-- the node lists themselves (ids, order, all attributes) are those of the pattern -/
theorem reaction_nodes_eq (x : Graph) (hc : closedB x = true) (hnd : nodupB x.nodeIds = true) :
    (reaction x).1.nodes = x.nodes ∧ (reaction x).2.nodes = x.nodes :=
  reaction_nodes x (closed_of_closedB x hc) ((nodupB_iff _).mp hnd)

/-! ### the labels of the halves -/

/-- labels the halves can carry: a scalar of non-zero order or a pair that is not (0,0) -/
def goodLabel : Label → Bool
  | .s o => o != 0
  | .p a b => !(a == 0 && b == 0)
  | .nil => false

/- `splitG` / `splitH` (reactant-side / product-side labels of a bond with label `l`) are defined in
   `Model/C15.lean` (the driver's direct check `halvesB` uses them). -/

/-- `get_its` on the label level: `(e_G, e_H or 0)`, or `(0, e_H)` when the reactant has no bond -/
def superLabels (lg lh : List Label) : List Label :=
  match lg, lh with
  | [], lh => lh.map fun l => .p 0 (orderOf l)
  | l :: _, lh => [.p (orderOf l) (orderOf (lh.head?.getD .nil))]

/-- label-level algebra: superposing the two halves of a good label gives the lifted label -/
theorem super_label (l : Label) (hl : goodLabel l = true) :
    superLabels (splitG l) (splitH l) = [liftLabel l] := by
  cases l with
  | s o => simp [splitG, splitH, superLabels, liftLabel, orderOf]
  | nil => simp [goodLabel] at hl
  | p a b =>
    by_cases ha : a = 0 <;> by_cases hb : b = 0 <;>
      simp_all [splitG, splitH, superLabels, liftLabel, orderOf, goodLabel]

/-- the same on key dicts, as `getIts_edgeData` states it -/
theorem super_keydict (l : Label) (hl : goodLabel l = true) :
    (if stepG l [(0, l)] = [] then (stepH l [(0, l)]).map G2
      else ((stepG l [(0, l)]).map (G1 (ordAt (stepH l [(0, l)])))).take 1) = [(0, liftLabel l)] := by
  cases l with
  | s o => simp [stepG, stepH, G1, ordAt, liftLabel, orderOf]
  | nil => simp [goodLabel] at hl
  | p a b =>
    by_cases ha : a = 0 <;> by_cases hb : b = 0 <;>
      simp_all [stepG, stepH, rcData, relab, G1, G2, ordAt, liftLabel, orderOf, goodLabel]

/-- the bonds of the two halves of the reaction of a well-formed simple pattern -/
theorem halves_labels (x : Graph) (hw : wf x = true) (hs : x.multi = false) (a b : Int) :
    labelsBetween (reaction x).1 a b = (labelsBetween x a b).flatMap splitG ∧
    labelsBetween (reaction x).2 a b = (labelsBetween x a b).flatMap splitH := by
  have w := WF_of_wf hw
  unfold labelsBetween
  rcases simple_edgeData w hs a b with h | ⟨l, h⟩
  · have := reaction_edgeData_nil w h
    rw [this.1, this.2, h]; exact ⟨rfl, rfl⟩
  · have := reaction_edgeData_simple w h
    rw [this.1, this.2, h]
    cases l with
    | s o => exact ⟨rfl, rfl⟩
    | nil => exact ⟨rfl, rfl⟩
    | p g k =>
      by_cases hg : g = 0 <;> by_cases hk : k = 0 <;>
        simp [stepG, stepH, rcData, relab, splitG, splitH, hg, hk]

/-- the halves are well-formed simple graphs again -/
theorem halves_wf (x : Graph) (hw : wf x = true) : wf (reaction x).1 = true ∧ wf (reaction x).2 = true := by
  have := WF_reaction (WF_of_wf hw)
  exact ⟨wf_of_WF this.1, wf_of_WF this.2⟩

/-! ### superposition -/

/-- `get_its` on two well-formed graphs with the same node list (the product simple): the ITS has
    the reactant's nodes under their map numbers and between the map numbers of any two ids the
    superposed label of the two sides -/
theorem getIts_labels (g h : Graph) (hg : wf g = true) (hh : wf h = true) (hn : h.nodes = g.nodes)
    (hs : h.multi = false) :
    (getIts g h).nodes = liftNodes g ∧
    ∀ a b : Int, labelsBetween (getIts g h) (a + 1) (b + 1) = superLabels (labelsBetween g a b) (labelsBetween h a b) := by
  have o : ItsOk g h := ⟨WF_of_wf hg, WF_of_wf hh, hn, hs⟩
  refine ⟨getIts_nodes o, fun a b => ?_⟩
  unfold labelsBetween
  rw [getIts_edgeData o a b]
  cases hd : g.edgeData a b with
  | nil => simp [superLabels, G2, Function.comp_def]
  | cons x xs => simp [superLabels, G1, ordAt, List.head?_map]

theorem reaction_itsOk {x : Graph} (w : WF x) (hs : x.multi = false) : ItsOk (reaction x).1 (reaction x).2 := by
  have hw := WF_reaction w
  have hn := reaction_nodes' w
  exact ⟨hw.1, hw.2, hn.2.trans hn.1.symm, (reaction_multi w).2.trans hs⟩

theorem closedB_of_closed {g : Graph} (hc : C13.Closed g) : closedB g = true := by
  simp only [closedB, List.all_eq_true, Bool.and_eq_true]
  intro r hr
  exact ⟨by simpa using (C13.hasNode_iff _ _).mp (hc r hr).1,
    fun e he => by simpa using (C13.hasNode_iff _ _).mp ((hc r hr).2 e he)⟩

/-- superposition, pointwise: `get_its(split_its X)` has the nodes of `X` named by map number (symbol
    and map number only), is a well-formed simple graph, and between the map numbers of any two ids
    carries exactly the lifted labels of `X` -/
theorem superposition_pointwise (x : Graph) (hw : wf x = true) (hs : x.multi = false)
    (hl : x.edges.all (fun e => goodLabel e.2.2.2) = true) :
    (getIts (reaction x).1 (reaction x).2).nodes = liftNodes x ∧
    (getIts (reaction x).1 (reaction x).2).multi = false ∧
    wf (getIts (reaction x).1 (reaction x).2) = true ∧
    C13.Closed (getIts (reaction x).1 (reaction x).2) ∧
    ∀ a b : Int, labelsBetween (getIts (reaction x).1 (reaction x).2) (a + 1) (b + 1)
      = (labelsBetween x a b).map liftLabel := by
  have w := WF_of_wf hw
  have o := reaction_itsOk w hs
  have wi := WF_getIts o
  have hwf := wf_of_WF wi
  refine ⟨?_, ?_, hwf, closed_of_wf _ hwf, ?_⟩
  · rw [getIts_nodes o, (reaction_nodes' w).1]; rfl
  · rw [getIts_eq', E.addEdgesFrom_multi (endsIn_T2 o)]; exact (its1_inv o).2.1
  · intro a b
    unfold labelsBetween
    rw [getIts_edgeData o a b]
    rcases simple_edgeData w hs a b with h | ⟨l, h⟩
    · have := reaction_edgeData_nil w h
      rw [this.1, this.2, h]; rfl
    · have hg : goodLabel l = true := by
        rcases label_mem_edges w (h ▸ List.mem_singleton.mpr rfl : (0, l) ∈ x.edgeData a b) with ⟨e, he, rfl⟩
        exact List.all_eq_true.mp hl e he
      have := reaction_edgeData_simple w h
      rw [this.1, this.2, h, super_keydict l hg]; rfl

/-- superposition: get_its (split_its X) is X with scalar labels lifted to pairs and nodes named by map number -/
theorem superposition (x : Graph) (hw : wf x = true) (hs : x.multi = false)
    (hl : x.edges.all (fun e => goodLabel e.2.2.2) = true) :
    superpositionB x (getIts (reaction x).1 (reaction x).2) = true := by
  obtain ⟨hn, _, _, hc, hlab⟩ := superposition_pointwise x hw hs hl
  simp only [superpositionB, Bool.and_eq_true, List.all_eq_true, beq_iff_eq]
  exact ⟨⟨hn, closedB_of_closed hc⟩, fun a _ b _ => hlab a b⟩

/-! ### tests (non-vacuity on concrete inputs; these are tests, not part of the proofs) -/
section Tests

private def mkG (nodes : List (Int × NodeAttr)) (es : List Edge) : Graph :=
  addEdgesFrom { multi := false, nodes := nodes, adj := nodes.map fun n => (n.1, []) } es

private def atom (i : Int) (s : String) : Int × NodeAttr :=
  (i, { symbol := some s, labels := some [], isLabeled := some false, aam := some (i + 1) })

/-- a ring 0-1-2-3 with labels (2,1), (0,1), (1,0), (1,1) (doubled), a chord with the aromatic scalar 3,
    a pendant atom on a scalar single bond and an atom without bonds -/
private def xT : Graph :=
  mkG [atom 0 "C", atom 1 "C", atom 2 "C", atom 3 "O", atom 4 "N", atom 5 "H"]
    [(0,1,0,.p 4 2), (1,2,0,.p 0 2), (2,3,0,.p 2 0), (3,0,0,.p 2 2), (0,4,0,.s 2), (2,0,0,.s 3)]

/-- ids neither contiguous nor ordered -/
private def xU : Graph := mkG [atom 7 "C", atom 3 "C", atom 10 "C"] [(10,3,0,.p 0 2), (7,10,0,.s 2), (3,7,0,.p 2 4)]

-- the hypotheses hold on the test patterns
example : wf xT = true ∧ xT.multi = false ∧ xT.edges.all (fun e => goodLabel e.2.2.2) = true := by decide +kernel
example : closedB xT = true ∧ nodupB xT.nodeIds = true ∧ xT.nodes.all (fun p => p.2.aam == some (p.1 + 1)) = true := by
  decide +kernel
example : wf xU = true ∧ xU.edges.all (fun e => goodLabel e.2.2.2) = true := by decide +kernel

-- the two halves: (2,1) ↦ double / single, (0,1) only in the product, (1,0) only in the reactant
example : (reaction xT).1.edges
    = [(0,1,0,.s 4), (0,3,0,.s 2), (0,4,0,.s 2), (0,2,0,.s 3), (2,3,0,.s 2)] := by decide +kernel
example : (reaction xT).2.edges
    = [(0,1,0,.s 2), (0,3,0,.s 2), (0,4,0,.s 2), (0,2,0,.s 3), (1,2,0,.s 2)] := by decide +kernel
example : labelsBetween (reaction xT).1 2 1 = [] ∧ labelsBetween (reaction xT).2 2 1 = [.s 2] := by decide +kernel

-- the superposition: nodes named by map number, scalars lifted, the (0,1) bond is back
example : (getIts (reaction xT).1 (reaction xT).2).edges
    = [(1,2,0,.p 4 2), (1,4,0,.p 2 2), (1,5,0,.p 2 2), (1,3,0,.p 3 3), (2,3,0,.p 0 2), (3,4,0,.p 2 0)] := by
  decide +kernel
example : (getIts (reaction xT).1 (reaction xT).2).nodeIds = [1, 2, 3, 4, 5, 6] := by decide +kernel

-- the theorems, instantiated
example : balancedMappedB xT (reaction xT).1 (reaction xT).2 = true :=
  balanced_mapped_of xT (by decide +kernel) (by decide +kernel) (by decide +kernel)
example : superpositionB xT (getIts (reaction xT).1 (reaction xT).2) = true :=
  superposition xT (by decide +kernel) (by decide +kernel) (by decide +kernel)
example : superpositionB xU (getIts (reaction xU).1 (reaction xU).2) = true :=
  superposition xU (by decide +kernel) (by decide +kernel) (by decide +kernel)
-- … and evaluated directly
example : superpositionB xT (getIts (reaction xT).1 (reaction xT).2) = true := by decide +kernel
example : balancedMappedB xU (reaction xU).1 (reaction xU).2 = true := by decide +kernel

-- the label hypothesis is needed: a (0,0) bond vanishes from both halves, a missing label comes back as (0,0)
example : superpositionB (mkG [atom 0 "C", atom 1 "C"] [(0,1,0,.p 0 0)])
    (getIts (reaction (mkG [atom 0 "C", atom 1 "C"] [(0,1,0,.p 0 0)])).1
            (reaction (mkG [atom 0 "C", atom 1 "C"] [(0,1,0,.p 0 0)])).2) = false := by decide +kernel
example : superpositionB (mkG [atom 0 "C", atom 1 "C"] [(0,1,0,.nil)])
    (getIts (reaction (mkG [atom 0 "C", atom 1 "C"] [(0,1,0,.nil)])).1
            (reaction (mkG [atom 0 "C", atom 1 "C"] [(0,1,0,.nil)])).2) = false := by decide +kernel
-- the checker rejects a wrong ITS (the halves swapped)
example : superpositionB xT (getIts (reaction xT).2 (reaction xT).1) = false := by decide +kernel
-- `get_its` of two arbitrary graphs on the same nodes: a bond changes order, one forms
example : wf (mkG [atom 0 "C", atom 1 "C", atom 2 "O"] [(0,1,0,.s 2)]) = true
    ∧ wf (mkG [atom 0 "C", atom 1 "C", atom 2 "O"] [(1,2,0,.s 2), (1,0,0,.s 4)]) = true := by decide +kernel
example : (getIts (mkG [atom 0 "C", atom 1 "C", atom 2 "O"] [(0,1,0,.s 2)])
    (mkG [atom 0 "C", atom 1 "C", atom 2 "O"] [(1,2,0,.s 2), (1,0,0,.s 4)])).edges
      = [(1,2,0,.p 2 4), (2,3,0,.p 0 2)] := by decide +kernel
-- label algebra
example : superLabels (splitG (.p 4 2)) (splitH (.p 4 2)) = [.p 4 2] ∧ superLabels (splitG (.p 0 2)) (splitH (.p 0 2)) = [.p 0 2]
    ∧ superLabels (splitG (.p 2 0)) (splitH (.p 2 0)) = [.p 2 0] ∧ superLabels (splitG (.s 3)) (splitH (.s 3)) = [.p 3 3]
    ∧ superLabels (splitG (.p 0 0)) (splitH (.p 0 0)) = [] := by decide

end Tests

end C15

