import FGVerif.Model.C15General
import FGVerif.Proofs.C15Split
import FGVerif.Proofs.C10
import FGVerif.Proofs.C14Iter
/-!
  C15 — the superposition statement for the GENERAL `get_its` / `split_its` models (`Model/C09.lean`,
  `Model/C10.lean`, validated against `fgutils.its` by the checks C09/C10), through the adapter of
  `Model/C15General.lean` (`toGr`, `toMolG`, `itsOfGraph`, `liftedIts`).

  For every well-formed simple pattern `x` whose labels are scalars ≠ 0 or pairs ≠ (0,0), whose ids are `≥ 0`
  and whose nodes carry a symbol and `aam = id + 1` (`generalOk`, decidable; the driver evaluates it on
  every sample):

  * `C15.superposition_general`   the general `get_its(*split_its(x))` (`C10.resuper (toGr x)`) is defined and
        is `x` as an ITS graph named by map number (`liftedIts x`: same atoms with symbols, every bond with
        its label, scalars `o` read `(o, o)`) — from `C10.its_of_split`;
        AND the general `get_its` (`C09.getIts`) applied to the two halves the C15 model of `ReactionProxy`
        yields (`reaction x`) is the same ITS — from `C10.smiles_roundtrip_modulo_rdkit` with the identity
        renaming (`halves_renamed`: C15's `split_its` on `Graph` and C10's on `Gr` produce the same halves up
        to the order and orientation of the edge list);
        AND C15's small self-contained `getIts` gives the same ITS on these halves (`small_getIts_view`).
  * `C15.getIts_small_eq_general` hence, on C15's domain, the small `getIts` and the general `C09.getIts`
        agree (as sets of nodes and undirected labelled edges) on the halves of every sample
  * `C15.superGeneralB_reaction`, `C15.resuperGeneralB_ok`   the executable checks the driver applies to
        model and implementation samples hold for the model
  * `C15.halves_dom`              the halves are in the domain `C09.Dom` of `C09.its_exact`

  Lemmas (namespace `C15.G`): `mem_labels_iff` (a label lies between `a` and `b` iff `Graph.edges` lists an
  edge with it on that pair), `UE_edgesBy` (the undirected-edge relation of an extracted edge list in terms
  of `labelsBetween`), `edges_pairwise_simple` (a simple graph lists no unordered pair twice).
-/
set_option linter.unusedSimpArgs false
namespace C15
open Graph C13 C13.E C15.P

namespace G

/-! ### `Graph.edges` and `labelsBetween` -/

/-- a label lies between `a` and `b` iff the edge enumeration lists an edge on that pair carrying it -/
theorem mem_labels_iff {g : Graph} (w : WF g) (a b : Int) (l : Label) :
    l ∈ labelsBetween g a b ↔
      ∃ e ∈ g.edges, ((e.1 = a ∧ e.2.1 = b) ∨ (e.1 = b ∧ e.2.1 = a)) ∧ e.2.2.2 = l := by
  unfold labelsBetween
  rw [← sel_edges w a b]
  constructor
  · intro h
    obtain ⟨kd, hkd, rfl⟩ := List.mem_map.mp h
    unfold sel at hkd
    obtain ⟨e, he, hx⟩ := List.mem_filterMap.mp hkd
    split at hx
    · rename_i hc
      simp only [Option.some.injEq] at hx
      subst hx
      exact ⟨e, he, hc, rfl⟩
    · cases hx
  · rintro ⟨e, he, hc, rfl⟩
    refine List.mem_map.mpr ⟨(e.2.2.1, e.2.2.2), ?_, rfl⟩
    unfold sel
    exact List.mem_filterMap.mpr ⟨e, he, if_pos hc⟩

/-- the edge list extracted from a graph: labels through `F`, end points shifted by `k` -/
def edgesBy {β : Type} (F : Label → Option β) (k : Int) (g : Graph) : List (Int × Int × β) :=
  g.edges.filterMap fun e => (F e.2.2.2).map fun t => (e.1 + k, e.2.1 + k, t)

theorem mem_edgesBy {β : Type} (F : Label → Option β) (k : Int) (g : Graph) (a b : Int) (t : β) :
    (a, b, t) ∈ edgesBy F k g ↔ ∃ e ∈ g.edges, F e.2.2.2 = some t ∧ e.1 + k = a ∧ e.2.1 + k = b := by
  unfold edgesBy
  rw [List.mem_filterMap]
  constructor
  · rintro ⟨e, he, hx⟩
    cases hF : F e.2.2.2 with
    | none => rw [hF] at hx; cases hx
    | some t' =>
      rw [hF] at hx
      simp only [Option.map_some, Option.some.injEq, Prod.mk.injEq] at hx
      obtain ⟨h1, h2, h3⟩ := hx
      exact ⟨e, he, by rw [hF, h3], h1, h2⟩
  · rintro ⟨e, he, hF, h1, h2⟩
    exact ⟨e, he, by rw [hF, h1, h2]; rfl⟩

/-- the undirected-edge relation of an extracted edge list, in terms of `labelsBetween` -/
theorem UE_edgesBy {β : Type} {g : Graph} (w : WF g) (F : Label → Option β) (k : Int) (a b : Int) (t : β) :
    C09.UE (edgesBy F k g) a b t ↔ ∃ l ∈ labelsBetween g (a - k) (b - k), F l = some t := by
  unfold C09.UE
  rw [mem_edgesBy, mem_edgesBy]
  constructor
  · rintro (⟨e, he, hF, h1, h2⟩ | ⟨e, he, hF, h1, h2⟩)
    · exact ⟨e.2.2.2, (mem_labels_iff w _ _ _).mpr ⟨e, he, Or.inl ⟨by omega, by omega⟩, rfl⟩, hF⟩
    · exact ⟨e.2.2.2, (mem_labels_iff w _ _ _).mpr ⟨e, he, Or.inr ⟨by omega, by omega⟩, rfl⟩, hF⟩
  · rintro ⟨l, hl, hF⟩
    obtain ⟨e, he, hc, rfl⟩ := (mem_labels_iff w _ _ _).mp hl
    rcases hc with ⟨h1, h2⟩ | ⟨h1, h2⟩
    · exact Or.inl ⟨e, he, hF, by omega, by omega⟩
    · exact Or.inr ⟨e, he, hF, by omega, by omega⟩

theorem toGr_edges (x : Graph) : (toGr x).edges = edgesBy labOf 0 x := by
  unfold toGr edgesBy; simp only [Int.add_zero]

theorem toMolG_edges (g : Graph) : (toMolG g).edges = edgesBy scalarOf 0 g := by
  unfold toMolG edgesBy; simp only [Int.add_zero]

theorem itsOfGraph_edges (j : Graph) : (itsOfGraph j).edges = edgesBy pairOfL 0 j := by
  unfold itsOfGraph edgesBy; simp only [Int.add_zero]

theorem liftedIts_edges (x : Graph) : (liftedIts x).edges = edgesBy (fun l => (labOf l).map C10.pairOf) 1 x := rfl

/-! ### a simple graph lists no unordered pair twice -/

theorem pairwise_of_sel (E : List Edge) (h : ∀ a b, (sel a b E).length ≤ 1) :
    E.Pairwise (fun e f => ¬ C09.samePair e.1 e.2.1 f.1 f.2.1 = true) := by
  induction E with
  | nil => exact List.Pairwise.nil
  | cons e E ih =>
    rw [List.pairwise_cons]
    constructor
    · intro f hf hsp
      have hc : (f.1 = e.1 ∧ f.2.1 = e.2.1) ∨ (f.1 = e.2.1 ∧ f.2.1 = e.1) := by
        simp only [C09.samePair, Bool.or_eq_true, Bool.and_eq_true, beq_iff_eq] at hsp
        omega
      have hmem : (f.2.2.1, f.2.2.2) ∈ sel e.1 e.2.1 E := by
        unfold sel
        exact List.mem_filterMap.mpr ⟨f, hf, if_pos hc⟩
      have hlen := h e.1 e.2.1
      rw [sel_cons, if_pos (Or.inl ⟨rfl, rfl⟩)] at hlen
      have : 0 < (sel e.1 e.2.1 E).length := List.length_pos_of_mem hmem
      simp only [List.length_append, List.length_cons, List.length_nil] at hlen
      omega
    · apply ih
      intro a b
      have := h a b
      rw [sel_cons, List.length_append] at this
      omega

theorem edges_pairwise_simple {g : Graph} (w : WF g) (hm : g.multi = false) :
    g.edges.Pairwise (fun e f => ¬ C09.samePair e.1 e.2.1 f.1 f.2.1 = true) := by
  apply pairwise_of_sel
  intro a b
  rw [sel_edges w]
  rcases simple_edgeData w hm a b with h | ⟨l, h⟩ <;> rw [h] <;> simp

theorem edgesBy_pairwise {β : Type} {g : Graph} (w : WF g) (hm : g.multi = false) (F : Label → Option β) :
    (edgesBy F 0 g).Pairwise (fun e f => ¬ C09.samePair e.1 e.2.1 f.1 f.2.1 = true) := by
  unfold edgesBy
  refine List.Pairwise.filterMap _ ?_ (edges_pairwise_simple w hm)
  intro e f hef e' he' f' hf'
  cases hF : F e.2.2.2 with
  | none => rw [hF] at he'; cases he'
  | some t =>
    cases hG : F f.2.2.2 with
    | none => rw [hG] at hf'; cases hf'
    | some t' =>
      rw [hF] at he'; rw [hG] at hf'
      simp only [Option.map_some, Option.some.injEq] at he' hf'
      subst he'; subst hf'
      simpa only [Int.add_zero] using hef

/-! ### the hypotheses -/

/-- the hypotheses of the general superposition theorem, in `Prop` form -/
structure GenOk (x : Graph) : Prop where
  w : WF x
  simple : x.multi = false
  good : ∀ e ∈ x.edges, goodLabel e.2.2.2 = true
  nn : ∀ p ∈ x.nodes, 0 ≤ p.1
  aam : ∀ p ∈ x.nodes, p.2.aam = some (p.1 + 1)
  sym : ∀ p ∈ x.nodes, p.2.symbol = some (p.2.symbol.getD "")

theorem genOk_of_generalOk {x : Graph} (h : generalOk x = true) : GenOk x := by
  simp only [generalOk, Bool.and_eq_true, List.all_eq_true, Bool.not_eq_true', decide_eq_true_eq, beq_iff_eq] at h
  obtain ⟨⟨⟨h1, h2⟩, h3⟩, h4⟩ := h
  refine ⟨WF_of_wf h1, h2, ?_, fun p hp => (h4 p hp).1.1, fun p hp => (h4 p hp).1.2, ?_⟩
  · intro e he
    have := h3 e he
    cases hl : e.2.2.2 with
    | s o => rw [hl] at this; simpa [goodLabel] using this
    | p a b => rw [hl] at this; simpa [goodLabel] using this
    | nil => rw [hl] at this; simp at this
  · intro p hp
    have := (h4 p hp).2
    cases hs : p.2.symbol with
    | none => rw [hs] at this; simp at this
    | some s => rfl

variable {x : Graph}

theorem GenOk.good_of_mem (h : GenOk x) {a b : Int} {l : Label} (hl : l ∈ labelsBetween x a b) : goodLabel l = true := by
  obtain ⟨e, he, _, rfl⟩ := (mem_labels_iff h.w a b l).mp hl
  exact h.good e he

/-! ### the node lists -/

theorem ids_pairwise_nodeOf {L : List (Int × NodeAttr)} (hn : (L.map (·.1)).Nodup) :
    (L.map nodeOf).Pairwise (fun a b => a.1 ≠ b.1) := by
  rw [List.pairwise_map]
  have : L.Pairwise (fun a b => a.1 ≠ b.1) := by
    unfold List.Nodup at hn
    rw [List.pairwise_map] at hn
    exact hn
  exact this

theorem mapNums_nodeOf (L : List (Int × NodeAttr)) (ha : ∀ p ∈ L, p.2.aam = some (p.1 + 1)) :
    ((L.map nodeOf).filterMap fun y => y.2.2) = L.map (·.1 + 1) := by
  induction L with
  | nil => rfl
  | cons p L ih =>
    rw [List.map_cons, List.filterMap_cons, ih fun q hq => ha q (List.mem_cons_of_mem _ hq)]
    simp only [nodeOf, ha p List.mem_cons_self, List.map_cons]

theorem pos_of_nodes {L : List (Int × NodeAttr)} (hnn : ∀ p ∈ L, 0 ≤ p.1) :
    ∀ a ∈ L.map (·.1 + 1), (1 : Int) ≤ a := by
  intro a ha
  obtain ⟨p, hp, rfl⟩ := List.mem_map.mp ha
  have := hnn p hp; omega

theorem inj_of_nodes {L : List (Int × NodeAttr)} (hn : (L.map (·.1)).Nodup) :
    (L.map (·.1 + 1)).Pairwise (fun a b => a ≠ b) := by
  unfold List.Nodup at hn
  rw [List.pairwise_map] at hn ⊢
  exact hn.imp (fun h => by omega)

/-! ### `ItsOK (toGr x)` and `nameByAam (toGr x) = liftedIts x` -/

theorem itsOK_toGr (h : GenOk x) : C10.ItsOK (toGr x) := by
  have hnd : (x.nodes.map (·.1)).Nodup := h.w.nodup
  refine ⟨ids_pairwise_nodeOf hnd, ?_, ?_, ?_, ?_⟩
  · show ∀ a ∈ (x.nodes.map nodeOf).filterMap (fun y => y.2.2), 1 ≤ a
    rw [mapNums_nodeOf _ h.aam]; exact pos_of_nodes h.nn
  · show ((x.nodes.map nodeOf).filterMap (fun y => y.2.2)).Pairwise _
    rw [mapNums_nodeOf _ h.aam]; exact inj_of_nodes hnd
  · unfold C10.Simple
    rw [toGr_edges]; exact edgesBy_pairwise h.w h.simple _
  · intro e he
    rw [toGr_edges] at he
    obtain ⟨u, v, lab⟩ := e
    obtain ⟨f, hf, hF, _, _⟩ := (mem_edgesBy labOf 0 x u v lab).mp he
    have hg := h.good f hf
    cases hl : f.2.2.2 with
    | nil => rw [hl] at hg; simp [goodLabel] at hg
    | s o =>
      rw [hl] at hg hF
      simp only [labOf, Option.some.injEq] at hF; subst hF
      simp only [goodLabel, bne_iff_ne, ne_eq] at hg
      simp only [C10.pairOf, ne_eq, Prod.mk.injEq, and_self]; exact hg
    | p a b =>
      rw [hl] at hg hF
      simp only [labOf, Option.some.injEq] at hF; subst hF
      simp only [goodLabel, Bool.not_eq_true', Bool.and_eq_false_iff, beq_eq_false_iff_ne, ne_eq] at hg
      simp only [C10.pairOf, ne_eq, Prod.mk.injEq, not_and]
      intro h1 h2; rcases hg with hg | hg
      · exact hg h1
      · exact hg h2

theorem aamOfI_toGr (h : GenOk x) {u : Int} (hu : u ∈ x.nodeIds) : C10.aamOfI (toGr x) u = some (u + 1) := by
  unfold C10.aamOfI
  cases hf : (toGr x).nodes.find? (fun y => y.1 == u) with
  | none =>
    rw [List.find?_eq_none] at hf
    obtain ⟨p, hp, rfl⟩ := List.mem_map.mp hu
    have := hf (nodeOf p) (List.mem_map.mpr ⟨p, hp, rfl⟩)
    simp [nodeOf] at this
  | some y =>
    have hy := List.mem_of_find?_eq_some hf
    have hyu : y.1 = u := by simpa using List.find?_some hf
    obtain ⟨p, hp, rfl⟩ := List.mem_map.mp hy
    simp only [Option.bind_some, nodeOf] at hyu ⊢
    rw [h.aam p hp, hyu]

theorem gr_ext {σ β : Type} (A B : C09.Gr σ β) (h1 : A.nodes = B.nodes) (h2 : A.edges = B.edges) : A = B := by
  cases A; cases B; simp_all

theorem nameByAam_toGr (h : GenOk x) : C10.nameByAam (toGr x) = liftedIts x := by
  apply gr_ext
  · show ((x.nodes.map nodeOf).filterMap _) = x.nodes.map _
    have : ∀ L : List (Int × NodeAttr), (∀ p ∈ L, p.2.aam = some (p.1 + 1)) →
        ((L.map nodeOf).filterMap fun y => y.2.2.map fun a => (a, some y.2.1, some a))
          = L.map fun p => (p.1 + 1, some (p.2.symbol.getD ""), some (p.1 + 1)) := by
      intro L hL
      induction L with
      | nil => rfl
      | cons p L ih =>
        rw [List.map_cons, List.filterMap_cons, ih fun q hq => hL q (List.mem_cons_of_mem _ hq)]
        simp only [nodeOf, hL p List.mem_cons_self, Option.map_some, List.map_cons]
    exact this _ h.aam
  · show (List.filterMap _ (toGr x).edges) = (liftedIts x).edges
    rw [liftedIts_edges, toGr_edges]
    unfold edgesBy
    rw [List.filterMap_filterMap]
    apply filterMap_congr'
    intro e he
    have hends := edges_endsIn h.w e he
    cases hl : labOf e.2.2.2 with
    | none => simp only [hl, Option.map_none, Option.bind_none]
    | some lab =>
      simp only [hl, Option.map_some, Option.bind_some, Int.add_zero, aamOfI_toGr h hends.1, aamOfI_toGr h hends.2]

/-! ### the two halves of the C15 model against the two halves of the general `split_its` -/

theorem half_nodes (h : GenOk x) (k : Bool) :
    (toMolG (if k then (reaction x).2 else (reaction x).1)).nodes = (toGr x).nodes := by
  have := reaction_nodes' h.w
  cases k
  · show (reaction x).1.nodes.map nodeOf = x.nodes.map nodeOf; rw [this.1]
  · show (reaction x).2.nodes.map nodeOf = x.nodes.map nodeOf; rw [this.2]

/-- label algebra: what side `k` keeps of a label, C15's way and C10's way -/
theorem split_algebra (k : Bool) (l0 : Label) (o : Int) :
    (∃ l ∈ (if k then splitH l0 else splitG l0), scalarOf l = some o) ↔ (labOf l0).bind (C10.comp k) = some o := by
  cases l0 with
  | nil => cases k <;> simp [splitG, splitH, scalarOf, labOf]
  | s o' => cases k <;> simp [splitG, splitH, scalarOf, labOf, C10.comp]
  | p a b =>
    cases k
    · by_cases ha : a = 0 <;> simp [splitG, scalarOf, labOf, C10.comp, ha]
    · by_cases hb : b = 0 <;> simp [splitH, scalarOf, labOf, C10.comp, hb]

theorem half_labels (h : GenOk x) (k : Bool) (a b : Int) :
    labelsBetween (if k then (reaction x).2 else (reaction x).1) a b
      = (labelsBetween x a b).flatMap (fun l => if k then splitH l else splitG l) := by
  have := halves_labels x (wf_of_WF h.w) h.simple a b
  cases k
  · simpa using this.1
  · simpa using this.2

theorem half_WF (h : GenOk x) (k : Bool) : WF (if k then (reaction x).2 else (reaction x).1) := by
  have := WF_reaction h.w
  cases k
  · exact this.1
  · exact this.2

theorem half_simple (h : GenOk x) (k : Bool) : (if k then (reaction x).2 else (reaction x).1).multi = false := by
  have := reaction_multi h.w
  cases k
  · exact this.1.trans h.simple
  · exact this.2.trans h.simple

theorem mside_edges (k : Bool) (x : Graph) :
    (C10.mside k (toGr x)).edges = edgesBy (fun l => (labOf l).bind (C10.comp k)) 0 x := by
  unfold C10.mside
  simp only
  rw [toGr_edges]
  unfold edgesBy
  rw [List.filterMap_filterMap]
  apply filterMap_congr'
  intro e _
  cases hl : labOf e.2.2.2 with
  | none => simp only [hl, Option.map_none, Option.bind_none]
  | some lab => simp only [hl, Option.map_some, Option.bind_some]

/-- the undirected scalar bonds of side `k`: the same in C15's half and in C10's half -/
theorem half_UE (h : GenOk x) (k : Bool) (u v o : Int) :
    C09.UE (toMolG (if k then (reaction x).2 else (reaction x).1)).edges u v o
      ↔ C09.UE (C10.mside k (toGr x)).edges u v o := by
  rw [toMolG_edges, mside_edges, UE_edgesBy (half_WF h k), UE_edgesBy h.w, half_labels h k]
  simp only [Int.sub_zero, List.mem_flatMap]
  constructor
  · rintro ⟨l, ⟨l0, hl0, hl⟩, hs⟩
    exact ⟨l0, hl0, (split_algebra k l0 o).mp ⟨l, hl, hs⟩⟩
  · rintro ⟨l0, hl0, hs⟩
    obtain ⟨l, hl, hs'⟩ := (split_algebra k l0 o).mpr hs
    exact ⟨l, ⟨l0, hl0, hl⟩, hs'⟩

/-- C15's `split_its` on `Graph` and C10's on `Gr` produce the same halves (identity renaming; the node
    lists are equal, the edge lists agree up to order and orientation) -/
theorem halves_renamed (h : GenOk x) (k : Bool) :
    C09.Renamed id (C10.mside k (toGr x)) (toMolG (if k then (reaction x).2 else (reaction x).1)) := by
  refine ⟨fun _ _ e => e, ?_, ?_⟩
  · intro n s a
    rw [half_nodes h k]
    constructor
    · intro hm; exact ⟨n, hm, rfl⟩
    · rintro ⟨m, hm, rfl⟩; exact hm
  · intro u v l
    rw [half_UE h k]
    constructor
    · intro hm; exact ⟨u, v, hm, rfl, rfl⟩
    · rintro ⟨u0, v0, hm, rfl, rfl⟩; exact hm

/-- the halves of a sample are in the domain of the general `get_its` theorem `C09.its_exact` -/
theorem half_dom (h : GenOk x) (k : Bool) : C09.Dom (toMolG (if k then (reaction x).2 else (reaction x).1)) := by
  have hnd : (x.nodes.map (·.1)).Nodup := h.w.nodup
  have hN := half_nodes h k
  refine ⟨?_, ?_, ?_, ?_, ?_⟩
  · rw [hN]; exact ids_pairwise_nodeOf hnd
  · unfold C09.mapNums
    rw [hN]
    show ∀ a ∈ (x.nodes.map nodeOf).filterMap (fun y => y.2.2), 1 ≤ a
    rw [mapNums_nodeOf _ h.aam]; exact pos_of_nodes h.nn
  · unfold C09.mapNums
    rw [hN]
    show ((x.nodes.map nodeOf).filterMap (fun y => y.2.2)).Pairwise _
    rw [mapNums_nodeOf _ h.aam]; exact inj_of_nodes hnd
  · rw [toMolG_edges]; exact edgesBy_pairwise (half_WF h k) (half_simple h k) _
  · intro e he
    obtain ⟨u, v, o⟩ := e
    have hue : C09.UE (toMolG (if k then (reaction x).2 else (reaction x).1)).edges u v o := Or.inl he
    rw [toMolG_edges, UE_edgesBy (half_WF h k), half_labels h k] at hue
    simp only [Int.sub_zero, List.mem_flatMap] at hue
    obtain ⟨l, ⟨l0, hl0, hl⟩, hs⟩ := hue
    have hg := h.good_of_mem hl0
    show o ≠ 0
    cases l0 with
    | nil => simp [goodLabel] at hg
    | s o' =>
      have : l = .s o' := by cases k <;> simpa [splitG, splitH] using hl
      subst this
      simp only [scalarOf, Option.some.injEq] at hs; subst hs
      simpa [goodLabel] using hg
    | p a b =>
      cases k
      · by_cases ha : a = 0
        · simp [splitG, ha] at hl
        · have : l = .s a := by simpa [splitG, ha] using hl
          subst this
          simp only [scalarOf, Option.some.injEq] at hs; subst hs; exact ha
      · by_cases hb : b = 0
        · simp [splitH, hb] at hl
        · have : l = .s b := by simpa [splitH, hb] using hl
          subst this
          simp only [scalarOf, Option.some.injEq] at hs; subst hs; exact hb

/-! ### the small `getIts` of C15 in the general representation -/

theorem lift_algebra (l0 : Label) : pairOfL (liftLabel l0) = (labOf l0).map C10.pairOf := by
  cases l0 <;> rfl

/-- C15's small `get_its` on the halves of a sample, read as a general ITS value, is the lifted pattern -/
theorem small_getIts_view (h : GenOk x) :
    C09.view (itsOfGraph (getIts (reaction x).1 (reaction x).2)) = C09.view (liftedIts x) := by
  have hgood : x.edges.all (fun e => goodLabel e.2.2.2) = true := List.all_eq_true.mpr h.good
  obtain ⟨hn, _, hwf, _, hlab⟩ := superposition_pointwise x (wf_of_WF h.w) h.simple hgood
  have wj := WF_of_wf hwf
  rw [C09.view_eq_iff]
  constructor
  · intro y
    have : (itsOfGraph (getIts (reaction x).1 (reaction x).2)).nodes = (liftedIts x).nodes := by
      show (getIts (reaction x).1 (reaction x).2).nodes.map _ = x.nodes.map _
      rw [hn]
      unfold liftNodes
      rw [List.map_map]
      apply List.map_congr_left
      intro p hp
      simp only [Function.comp]
      rw [← h.sym p hp]
    rw [this]
  · intro a b t
    rw [itsOfGraph_edges, liftedIts_edges, UE_edgesBy wj, UE_edgesBy h.w]
    have e1 : labelsBetween (getIts (reaction x).1 (reaction x).2) (a - 0) (b - 0)
        = (labelsBetween x (a - 1) (b - 1)).map liftLabel := by
      have := hlab (a - 1) (b - 1)
      have ea : a - 1 + 1 = a - 0 := by omega
      have eb : b - 1 + 1 = b - 0 := by omega
      rw [ea, eb] at this; exact this
    rw [e1]
    constructor
    · rintro ⟨l, hl, hp⟩
      obtain ⟨l0, hl0, rfl⟩ := List.mem_map.mp hl
      exact ⟨l0, hl0, by rw [← lift_algebra]; exact hp⟩
    · rintro ⟨l0, hl0, hp⟩
      exact ⟨liftLabel l0, List.mem_map_of_mem hl0, by rw [lift_algebra]; exact hp⟩

end G

open G

/-! ### property theorems -/

/-- the halves of a sample lie in the domain of `C09.its_exact` (so the general `get_its` on them is exactly
    its declarative specification `C09.itsSpec`) -/
theorem halves_dom (x : Graph) (h : generalOk x = true) :
    C09.Dom (toMolG (reaction x).1) ∧ C09.Dom (toMolG (reaction x).2) :=
  ⟨half_dom (genOk_of_generalOk h) false, half_dom (genOk_of_generalOk h) true⟩

/-- **superposition for the general `get_its` / `split_its` models.**  For a sample `x` in the domain
    `generalOk`:
    1. the general `get_its(*split_its(x))` is defined and equals `x` as an ITS graph named by map number;
    2. the general `get_its` applied to the two halves the C15 model of `ReactionProxy` yields equals it too;
    3. so does C15's small self-contained `getIts` on these halves
    (equalities of node sets and of sets of undirected labelled edges, `C09.view`). -/
theorem superposition_general (x : Graph) (h : generalOk x = true) :
    (∃ J, C10.resuper (toGr x) = some J ∧ C09.view J = C09.view (liftedIts x)) ∧
    C09.view (C09.getIts (toMolG (reaction x).1) (toMolG (reaction x).2)) = C09.view (liftedIts x) ∧
    C09.view (itsOfGraph (getIts (reaction x).1 (reaction x).2)) = C09.view (liftedIts x) := by
  have g := genOk_of_generalOk h
  have hI := itsOK_toGr g
  refine ⟨?_, ?_, small_getIts_view g⟩
  · obtain ⟨J, h1, h2⟩ := C10.its_of_split hI
    exact ⟨J, h1, by rw [h2, nameByAam_toGr g]⟩
  · have := C10.smiles_roundtrip_modulo_rdkit hI (half_dom g false) (half_dom g true)
      (halves_renamed g false) (halves_renamed g true)
    rw [nameByAam_toGr g] at this
    exact this

/-- on the halves of every sample, C15's small `getIts` and the general `C09.getIts` agree -/
theorem getIts_small_eq_general (x : Graph) (h : generalOk x = true) :
    C09.view (itsOfGraph (getIts (reaction x).1 (reaction x).2))
      = C09.view (C09.getIts (toMolG (reaction x).1) (toMolG (reaction x).2)) := by
  obtain ⟨_, h2, h3⟩ := superposition_general x h
  rw [h2, h3]

/-- the executable check against the general `get_its` holds for the model's halves -/
theorem superGeneralB_reaction (x : Graph) (h : generalOk x = true) :
    superGeneralB x (reaction x).1 (reaction x).2 = true := by
  unfold superGeneralB
  rw [C10.sameIts_iff]
  exact (superposition_general x h).2.1

/-- the executable check against the general `get_its ∘ split_its` holds for every sample -/
theorem resuperGeneralB_ok (x : Graph) (h : generalOk x = true) : resuperGeneralB x = true := by
  obtain ⟨J, h1, h2⟩ := (superposition_general x h).1
  unfold resuperGeneralB
  rw [h1]
  exact (C10.sameIts_iff J _).mpr h2

/-- samples of a reaction proxy are in the domain: a finished sample (`aam` enabled) of a well-formed graph on
    non-negative ids whose nodes carry symbols and whose labels are good -/
theorem generalOk_finish (g : Graph) (hw : wf g = true) (hs : C14.sideOk g = true)
    (hnn : g.nodes.all (fun p => decide (0 ≤ p.1) && p.2.symbol.isSome) = true)
    (hl : g.edges.all (fun e => goodLabel e.2.2.2) = true) :
    generalOk (C14.finish true g) = true := by
  have hwf := C14.finish_wf g hw true
  have w := WF_of_wf hw
  have hnodes : (C14.finish true g).nodes = (C14.setAam g).nodes := by
    rw [C14.I.finish_nodes w]; rfl
  have hmulti : (C14.finish true g).multi = false := by
    unfold C14.finish
    simp only [if_true]
    split
    · exact C14.I.collapse_multi (C14.I.WF_setAam w)
    · rename_i hm; simpa using hm
  have hlab : ∀ e ∈ (C14.finish true g).edges, goodLabel e.2.2.2 = true := by
    intro e he
    have wf' := WF_of_wf hwf
    have hm : e.2.2.2 ∈ labelsBetween (C14.finish true g) e.1 e.2.1 :=
      (mem_labels_iff wf' _ _ _).mpr ⟨e, he, Or.inl ⟨rfl, rfl⟩, rfl⟩
    rw [C14.finish_labels g hw true hs] at hm
    obtain ⟨e0, he0, _, hl0⟩ := (mem_labels_iff w _ _ _).mp hm
    rw [← hl0]
    exact List.all_eq_true.mp hl e0 he0
  simp only [generalOk, Bool.and_eq_true, List.all_eq_true, Bool.not_eq_true', decide_eq_true_eq, beq_iff_eq]
  refine ⟨⟨⟨hwf, hmulti⟩, ?_⟩, ?_⟩
  · intro e he
    have := hlab e he
    cases hl' : e.2.2.2 with
    | s o => rw [hl'] at this; simpa [goodLabel] using this
    | p a b => rw [hl'] at this; simpa [goodLabel] using this
    | nil => rw [hl'] at this; simp [goodLabel] at this
  · intro p hp
    rw [hnodes] at hp
    simp only [C14.setAam, List.mem_map] at hp
    obtain ⟨q, hq, rfl⟩ := hp
    have := List.all_eq_true.mp hnn q hq
    simp only [Bool.and_eq_true, decide_eq_true_eq] at this
    exact ⟨⟨this.1, rfl⟩, this.2⟩

/-! ### tests (non-vacuity on concrete inputs; these are tests, not part of the proofs) -/
section Tests

private def mkG (nodes : List (Int × NodeAttr)) (es : List Edge) : Graph :=
  addEdgesFrom { multi := false, nodes := nodes, adj := nodes.map fun n => (n.1, []) } es

private def atom (i : Int) (s : String) : Int × NodeAttr :=
  (i, { symbol := some s, labels := some [], isLabeled := some false, aam := some (i + 1) })

/-- a ring 0-1-2-3 with labels (2,1), (0,1), (1,0), (1,1) (doubled), a chord with the aromatic scalar 3,
    a pendant atom on a scalar single bond and an atom without bonds -/
private def xT : Graph :=
  mkG [atom 0 "C", atom 1 "C", atom 2 "C", atom 3 "O", atom 4 "N", atom 5 "H"]
    [(0,1,0,.p 4 2), (1,2,0,.p 0 2), (2,3,0,.p 2 0), (3,0,0,.p 2 2), (0,4,0,.s 2), (2,0,0,.s 3)]

example : generalOk xT = true := by decide +kernel
-- what the general models see
example : (toGr xT).edges = [(0,1,.p 4 2), (0,3,.p 2 2), (0,4,.s 2), (0,2,.s 3), (1,2,.p 0 2), (2,3,.p 2 0)] := by
  decide +kernel
example : (toMolG (reaction xT).1).edges = [(0,1,4), (0,3,2), (0,4,2), (0,2,3), (2,3,2)] := by decide +kernel
-- the general get_its on C15's halves, the general get_its ∘ split_its, and the expected lifted pattern
example : (C09.canonIts (C09.getIts (toMolG (reaction xT).1) (toMolG (reaction xT).2))).edges = (C09.canonIts (liftedIts xT)).edges
    ∧ (C09.canonIts (C09.getIts (toMolG (reaction xT).1) (toMolG (reaction xT).2))).nodes = (C09.canonIts (liftedIts xT)).nodes := by
  decide +kernel
example : (C09.canonIts (liftedIts xT)).edges
    = [(1,2,(4,2)), (1,3,(3,3)), (1,4,(2,2)), (1,5,(2,2)), (2,3,(0,2)), (3,4,(2,0))] := by decide +kernel
example : superGeneralB xT (reaction xT).1 (reaction xT).2 = true ∧ resuperGeneralB xT = true := by decide +kernel
-- the theorem applies
example : superGeneralB xT (reaction xT).1 (reaction xT).2 = true := superGeneralB_reaction xT (by decide +kernel)
-- the check rejects swapped halves
example : superGeneralB xT (reaction xT).2 (reaction xT).1 = false := by decide +kernel

end Tests

end C15
