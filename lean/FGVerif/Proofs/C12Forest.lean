import FGVerif.Proofs.C12
import FGVerif.Proofs.GraphWF
/-!
  C12 — hydrogen completion preserves the hypotheses of C03 / C04 / C05.

  `Proofs/C12.lean` shows that the completed graph is `extend g new`: the input plus fresh leaves, each with
  one single bond to a node of the input (`spec_holds_with`, invariant `NewOK`).  Here the consequences for
  the predicates of `Model/C03Spec.lean`, proved about `extend` (no re-analysis of the loop):

  * `mem_neighbors_extend`            the neighbourhoods of `extend g new`
  * `wf03_extend`, `wf03_extend_iff`  `C03.WF` is preserved (and reflected)
  * `forest_extend`, `forest_extend_iff`  `C03.IsForest` is preserved (and reflected): pendant leaves close
                                      no cycle, and a cycle of the completed graph is a cycle of the input
  * `extension_with`                  `addImplicitHydrogensWith rows g = extend g new ∧ NewOK g new` for ANY
                                      valence table (the preservation theorems do not depend on the table)
  * **`addImplicitHydrogens_wf03`**   `C03.WF g → C03.WF (addImplicitHydrogens g)`  (no label hypothesis)
  * **`addImplicitHydrogens_forest`** `C03.WF g → C03.IsForest g → C03.IsForest (addImplicitHydrogens g)`
  * `addImplicitHydrogens_wf03_iff`, `addImplicitHydrogens_forest_iff`   the equivalences, under `C12.WF g`
  * `addImplicitHydrogens_wfB`, `addImplicitHydrogens_forest_of_checkers`  from the Boolean checkers on the INPUT

  Core Lean only.
-/
namespace C12
open Graph

/-! ### the list of (hydrogen, heavy atom) pairs -/

section pairs
variable {g : Graph} {new : List (Int × Int)}

theorem new_not_old (hnew : NewOK g new) {h a : Int} (hp : (h, a) ∈ new) : h ∉ g.nodeIds := by
  intro hh
  have := hnew.fresh (h, a) hp h hh
  simp at this

theorem new_parent_old (hnew : NewOK g new) {h a : Int} (hp : (h, a) ∈ new) : a ∈ g.nodeIds :=
  hnew.parent (h, a) hp

/-- a hydrogen has one heavy atom -/
theorem new_functional (hnew : NewOK g new) {h a b : Int} (hp : (h, a) ∈ new) (hq : (h, b) ∈ new) : a = b := by
  have h1 := find?_of_nodup_keys new hnew.distinct (h, a) hp
  have h2 := find?_of_nodup_keys new hnew.distinct (h, b) hq
  simp only at h1 h2
  rw [h1] at h2
  simpa using h2

theorem mem_filter_map_fst {a v : Int} : v ∈ (new.filter (·.2 == a)).map (·.1) ↔ (v, a) ∈ new := by
  simp only [List.mem_map, List.mem_filter, beq_iff_eq]
  constructor
  · rintro ⟨p, ⟨hp, rfl⟩, rfl⟩; exact hp
  · intro h; exact ⟨(v, a), ⟨h, rfl⟩, rfl⟩

end pairs

/-! ### neighbourhoods and bonds of `extend g new` -/

section ext
variable {g : Graph} {new : List (Int × Int)}

theorem neighbors_extend_old (hg : WF g) (hnew : NewOK g new) {a : Int} (ha : a ∈ g.nodeIds) :
    (extend g new).neighbors a = g.neighbors a ++ (new.filter (·.2 == a)).map (·.1) := by
  rw [neighbors_eq, adjRow_extend g new a (fun p hp => by have := hnew.fresh p hp a ha; omega)
    (by rw [hg.rows]; exact ha)]
  simp [neighbors_eq, List.map_map, Function.comp_def]

theorem neighbors_extend_new (hg : WF g) (hnew : NewOK g new) {h a : Int} (hp : (h, a) ∈ new) :
    (extend g new).neighbors h = [a] := by
  rw [neighbors_eq, adjRow_extend_new hg hnew (h, a) hp]
  rfl

theorem old_of_nbr (hg : WF g) {u v : Int} (h : v ∈ g.neighbors u) : u ∈ g.nodeIds ∧ v ∈ g.nodeIds :=
  ⟨by rw [← hg.rows]; exact GraphWF.mem_keys_of_nbr h, ((GraphWF.c12_iff g).mp hg).2.2 u v h⟩

/-- **the bonds of the completed graph**: the old bonds, and one bond per pair, seen from either end -/
theorem mem_neighbors_extend (hg : WF g) (hnew : NewOK g new) {u v : Int} :
    v ∈ (extend g new).neighbors u ↔ v ∈ g.neighbors u ∨ (v, u) ∈ new ∨ (u, v) ∈ new := by
  constructor
  · intro h
    have hu : u ∈ (extend g new).nodeIds := by
      rw [← (wf_extend hg hnew).rows]; exact GraphWF.mem_keys_of_nbr h
    rw [nodeIds_extend, List.mem_append] at hu
    rcases hu with hu | hu
    · rw [neighbors_extend_old hg hnew hu, List.mem_append, mem_filter_map_fst] at h
      rcases h with h | h
      · exact Or.inl h
      · exact Or.inr (Or.inl h)
    · obtain ⟨p, hp, rfl⟩ := List.mem_map.mp hu
      rw [neighbors_extend_new hg hnew (h := p.1) (a := p.2) hp, List.mem_singleton] at h
      subst h
      exact Or.inr (Or.inr hp)
  · rintro (h | h | h)
    · rw [neighbors_extend_old hg hnew (old_of_nbr hg h).1]
      exact List.mem_append_left _ h
    · rw [neighbors_extend_old hg hnew (new_parent_old hnew h)]
      exact List.mem_append_right _ (mem_filter_map_fst.mpr h)
    · rw [neighbors_extend_new hg hnew h]
      exact List.mem_singleton_self v

theorem rowOf_const_map (c : List (Nat × Label)) (l : List (Int × Int)) (x : Int) (hx : x ∈ l.map (·.1)) :
    rowOf (l.map fun p => (p.1, c)) x = c := by
  induction l with
  | nil => simp at hx
  | cons p l ih =>
    simp only [List.map_cons, rowOf_cons]
    by_cases h : p.1 = x
    · simp [h]
    · simp only [List.map_cons, List.mem_cons] at hx
      rcases hx with hx | hx
      · exact absurd hx.symm h
      · simp only [h, if_false]; exact ih hx

/-- an old bond keeps its label -/
theorem bond?_extend_old (hg : WF g) (hnew : NewOK g new) {u v : Int} (h : v ∈ g.neighbors u) :
    (extend g new).bond? u v = g.bond? u v := by
  have hu := (old_of_nbr hg h).1
  have h' : v ∈ (g.adjRow u).map (·.1) := h
  unfold Graph.bond?
  rw [edgeData_eq, edgeData_eq,
    adjRow_extend g new u (fun p hp => by have := hnew.fresh p hp u hu; omega) (by rw [hg.rows]; exact hu),
    rowOf_append, if_pos h']

/-- a new bond is a single bond, seen from the hydrogen … -/
theorem bond?_extend_new (hg : WF g) (hnew : NewOK g new) {h a : Int} (hp : (h, a) ∈ new) :
    (extend g new).bond? h a = some (.s 2) := by
  unfold Graph.bond?
  rw [edgeData_eq, adjRow_extend_new hg hnew (h, a) hp]
  simp [rowOf_cons, hBond]

/-- … and from the heavy atom -/
theorem bond?_extend_parent (hg : WF g) (hnew : NewOK g new) {h a : Int} (hp : (h, a) ∈ new) :
    (extend g new).bond? a h = some (.s 2) := by
  have ha := new_parent_old hnew hp
  have hh : h ∉ (g.adjRow a).map (·.1) := fun hm => new_not_old hnew hp (old_of_nbr hg hm).2
  unfold Graph.bond?
  rw [edgeData_eq,
    adjRow_extend g new a (fun p hp' => by have := hnew.fresh p hp' a ha; omega) (by rw [hg.rows]; exact ha),
    rowOf_append, if_neg hh, rowOf_const_map hBond _ h (mem_filter_map_fst.mpr hp)]
  rfl

/-! ### `C03.WF` -/

/-- **adding pendant hydrogens keeps a well-formed simple graph well-formed** (sense of `Model/C03Spec.lean`) -/
theorem wf03_extend (hg : C03.WF g) (hnew : NewOK g new) : C03.WF (extend g new) := by
  have hg' : WF g := GraphWF.c12_of_c03 hg
  have ho := wf_extend hg' hnew
  refine ⟨ho.nodup, ho.rows, ?_, ?_, ?_, ?_⟩
  · intro u
    by_cases hu : u ∈ g.nodeIds
    · rw [neighbors_extend_old hg' hnew hu]
      refine List.nodup_append.2 ⟨hg.nbrNodup u, (hnew.distinct.sublist (List.filter_sublist.map _)), ?_⟩
      intro x hx y hy hxy
      subst hxy
      exact new_not_old hnew (mem_filter_map_fst.mp hy) (hg.nbrNode u x hx).2
    · by_cases hn : ∃ a, (u, a) ∈ new
      · obtain ⟨a, ha⟩ := hn
        rw [neighbors_extend_new hg' hnew ha]; simp
      · have : (extend g new).neighbors u = [] := by
          cases hnb : (extend g new).neighbors u with
          | nil => rfl
          | cons v vs =>
            exfalso
            have hv : v ∈ (extend g new).neighbors u := by rw [hnb]; exact List.mem_cons_self
            rcases (mem_neighbors_extend hg' hnew).mp hv with h | h | h
            · exact hu (hg.nbrNode u v h).1
            · exact hu (new_parent_old hnew h)
            · exact hn ⟨v, h⟩
        rw [this]; exact List.nodup_nil
  · intro u v h
    refine ⟨by rw [← ho.rows]; exact GraphWF.mem_keys_of_nbr h, ((GraphWF.c12_iff _).mp ho).2.2 u v h⟩
  · intro u h
    rcases (mem_neighbors_extend hg' hnew).mp h with h | h | h
    · exact hg.noLoop u h
    · exact new_not_old hnew h (new_parent_old hnew h)
    · exact new_not_old hnew h (new_parent_old hnew h)
  · intro u v h
    rcases (mem_neighbors_extend hg' hnew).mp h with h | h | h
    · obtain ⟨h1, h2⟩ := hg.symm u v h
      exact ⟨(mem_neighbors_extend hg' hnew).mpr (Or.inl h1),
        by rw [bond?_extend_old hg' hnew h1, bond?_extend_old hg' hnew h, h2]⟩
    · exact ⟨(mem_neighbors_extend hg' hnew).mpr (Or.inr (Or.inr h)),
        by rw [bond?_extend_new hg' hnew h, bond?_extend_parent hg' hnew h]⟩
    · exact ⟨(mem_neighbors_extend hg' hnew).mpr (Or.inr (Or.inl h)),
        by rw [bond?_extend_new hg' hnew h, bond?_extend_parent hg' hnew h]⟩

/-- conversely: the input of a well-formed completion was well-formed -/
theorem wf03_of_extend (hg : WF g) (hnew : NewOK g new) (ho : C03.WF (extend g new)) : C03.WF g := by
  have hsub : ∀ {u v}, v ∈ g.neighbors u → v ∈ (extend g new).neighbors u :=
    fun h => (mem_neighbors_extend hg hnew).mpr (Or.inl h)
  refine ⟨hg.nodup, hg.rows, ?_, fun u v h => old_of_nbr hg h, fun u h => ho.noLoop u (hsub h), ?_⟩
  · intro u
    by_cases hu : u ∈ g.nodeIds
    · have := ho.nbrNodup u
      rw [neighbors_extend_old hg hnew hu] at this
      exact (List.nodup_append.1 this).1
    · cases hnb : g.neighbors u with
      | nil => exact List.nodup_nil
      | cons v vs => exact absurd (old_of_nbr hg (u := u) (v := v) (by rw [hnb]; exact List.mem_cons_self)).1 hu
  · intro u v h
    obtain ⟨h1, h2⟩ := ho.symm u v (hsub h)
    have hvu : u ∈ g.neighbors v := by
      rcases (mem_neighbors_extend hg hnew).mp h1 with h' | h' | h'
      · exact h'
      · exact absurd (old_of_nbr hg h).1 (new_not_old hnew h')
      · exact absurd (old_of_nbr hg h).2 (new_not_old hnew h')
    refine ⟨hvu, ?_⟩
    rw [← bond?_extend_old hg hnew hvu, ← bond?_extend_old hg hnew h, h2]

theorem wf03_extend_iff (hg : WF g) (hnew : NewOK g new) : C03.WF (extend g new) ↔ C03.WF g :=
  ⟨wf03_of_extend hg hnew, fun h => wf03_extend h hnew⟩

/-! ### reachability in `extend g new` -/

theorem reach_tail_not_avoid {G : Graph} {avoid : List Int} {a b : Int} (h : C03.Reach G avoid a b) :
    b ∉ avoid := by
  induction h with
  | refl ha => exact ha
  | step _ _ _ ih => exact ih

/-- a walk of the input is a walk of the completed graph -/
theorem reach_lift (hg : WF g) (hnew : NewOK g new) {avoid : List Int} {a x : Int}
    (h : C03.Reach g avoid a x) : C03.Reach (extend g new) avoid a x := by
  induction h with
  | refl ha => exact .refl ha
  | step ha hab _ ih => exact .step ha ((mem_neighbors_extend hg hnew).mpr (Or.inl hab)) ih

/-- a walk of the completed graph that ends at an atom of the input, with its excursions to hydrogens cut
    out, is a walk of the input; if it starts at a hydrogen, the walk of the input starts at its heavy atom -/
theorem reach_project (hg : WF g) (hnew : NewOK g new) {avoid : List Int} {a x : Int}
    (h : C03.Reach (extend g new) avoid a x) (hx : x ∈ g.nodeIds) :
    (a ∈ g.nodeIds → C03.Reach g avoid a x) ∧ (∀ p, (a, p) ∈ new → C03.Reach g avoid p x) := by
  induction h with
  | refl ha => exact ⟨fun _ => .refl ha, fun p hp => absurd hx (new_not_old hnew hp)⟩
  | @step a b c ha hab _ ih =>
    have ih := ih hx
    rcases (mem_neighbors_extend hg hnew).mp hab with h | h | h
    · exact ⟨fun _ => .step ha h (ih.1 (old_of_nbr hg h).2),
        fun p hp => absurd (old_of_nbr hg h).1 (new_not_old hnew hp)⟩
    · exact ⟨fun _ => ih.2 a h, fun p hp => absurd (new_parent_old hnew h) (new_not_old hnew hp)⟩
    · refine ⟨fun ha' => absurd ha' (new_not_old hnew h), fun p hp => ?_⟩
      rw [new_functional hnew hp h]
      exact ih.1 (new_parent_old hnew h)

/-- a walk that ends at a hydrogen is trivial or passes through its heavy atom -/
theorem reach_to_new (hg : WF g) (hnew : NewOK g new) {avoid : List Int} {a x q : Int}
    (h : C03.Reach (extend g new) avoid a x) (hxq : (x, q) ∈ new) :
    a = x ∨ C03.Reach (extend g new) avoid a q := by
  induction h with
  | refl _ => exact Or.inl rfl
  | @step a b c ha hab _ ih =>
    rcases ih hxq with rfl | h
    · rcases (mem_neighbors_extend hg hnew).mp hab with h | h | h
      · exact absurd (old_of_nbr hg h).2 (new_not_old hnew hxq)
      · rw [← new_functional hnew h hxq]; exact Or.inr (.refl ha)
      · exact absurd (new_parent_old hnew h) (new_not_old hnew hxq)
    · exact Or.inr (.step ha hab h)

/-- a hydrogen is cut off when its heavy atom is deleted -/
theorem reach_from_leaf (hg : WF g) (hnew : NewOK g new) {h v x : Int} (hp : (h, v) ∈ new)
    (hr : C03.Reach (extend g new) [v] h x) : x = h := by
  cases hr with
  | refl _ => rfl
  | step _ hab hbc =>
    rw [neighbors_extend_new hg hnew hp, List.mem_singleton] at hab
    subst hab
    exact absurd (List.mem_singleton_self _) hbc.head_not_avoid

theorem reach_mem_nodes {G : Graph} (hG : WF G) {avoid : List Int} {a x : Int} (h : C03.Reach G avoid a x)
    (ha : a ∈ G.nodeIds) : x ∈ G.nodeIds := by
  induction h with
  | refl _ => exact ha
  | step _ hab _ ih => exact ih (old_of_nbr hG hab).2

/-! ### `C03.IsForest` -/

/-- **adding pendant hydrogens — fresh leaves with one bond each — keeps a forest a forest** -/
theorem forest_extend (hg : WF g) (hnew : NewOK g new) (hF : C03.IsForest g) : C03.IsForest (extend g new) := by
  have ho := wf_extend hg hnew
  -- a hydrogen `a` of `v` and another neighbour `b` of `v` are separated by deleting `v`
  have leaf : ∀ v a b x, (a, v) ∈ new → a ≠ b →
      C03.Reach (extend g new) [v] a x → C03.Reach (extend g new) [v] b x → False := by
    intro v a b x hav hab hra hrb
    have hxa := reach_from_leaf hg hnew hav hra
    subst hxa
    rcases reach_to_new hg hnew hrb hav with h | h
    · exact hab h.symm
    · exact reach_tail_not_avoid h (List.mem_singleton_self _)
  intro v a b x ha hb hab hra hrb
  rcases (mem_neighbors_extend hg hnew).mp ha with ha | ha | ha
  · rcases (mem_neighbors_extend hg hnew).mp hb with hb | hb | hb
    · -- both neighbours are atoms of the input: project both walks
      have hao := (old_of_nbr hg ha).2
      have hbo := (old_of_nbr hg hb).2
      have hxo : x ∈ (extend g new).nodeIds :=
        reach_mem_nodes ho hra (by rw [nodeIds_extend]; exact List.mem_append_left _ hao)
      rw [nodeIds_extend, List.mem_append] at hxo
      rcases hxo with hx | hx
      · exact hF v a b x ha hb hab ((reach_project hg hnew hra hx).1 hao) ((reach_project hg hnew hrb hx).1 hbo)
      · obtain ⟨p, hp, rfl⟩ := List.mem_map.mp hx
        have hp' : (p.1, p.2) ∈ new := hp
        have hq := new_parent_old hnew hp'
        rcases reach_to_new hg hnew hra hp' with h | h1
        · exact new_not_old hnew hp' (h ▸ hao)
        · rcases reach_to_new hg hnew hrb hp' with h | h2
          · exact new_not_old hnew hp' (h ▸ hbo)
          · exact hF v a b p.2 ha hb hab ((reach_project hg hnew h1 hq).1 hao)
              ((reach_project hg hnew h2 hq).1 hbo)
    · exact leaf v b a x hb (Ne.symm hab) hrb hra
    · exact new_not_old hnew hb (old_of_nbr hg ha).1
  · exact leaf v a b x ha hab hra hrb
  · -- `v` is a hydrogen: it has one neighbour only
    rcases (mem_neighbors_extend hg hnew).mp hb with hb | hb | hb
    · exact new_not_old hnew ha (old_of_nbr hg hb).1
    · exact new_not_old hnew ha (new_parent_old hnew hb)
    · exact hab (new_functional hnew ha hb)

/-- conversely: **a cycle of the input is a cycle of the completed graph** (the input is a sub-graph) -/
theorem forest_of_extend (hg : WF g) (hnew : NewOK g new) (hF : C03.IsForest (extend g new)) : C03.IsForest g :=
  fun v a b x ha hb hab hra hrb =>
    hF v a b x ((mem_neighbors_extend hg hnew).mpr (Or.inl ha)) ((mem_neighbors_extend hg hnew).mpr (Or.inl hb)) hab
      (reach_lift hg hnew hra) (reach_lift hg hnew hrb)

theorem forest_extend_iff (hg : WF g) (hnew : NewOK g new) : C03.IsForest (extend g new) ↔ C03.IsForest g :=
  ⟨forest_of_extend hg hnew, forest_extend hg hnew⟩

end ext

/-! ### the theorems about `add_implicit_hydrogens` -/

/-- the completed graph is an extension of the input by fresh leaves — for ANY valence table (what the table
    decides is only HOW MANY leaves each atom gets: `spec_holds_with`) -/
theorem extension_with (rows : List (String × Int)) {g : Graph} (hg : WF g) :
    ∃ new, addImplicitHydrogensWith rows g = extend g new ∧ NewOK g new := by
  have hnd : (g.nodes.map (·.1)).Nodup := hg.nodup
  obtain ⟨new, hfold, hok, _, _⟩ := fold_extend rows hg (heavy g) [] ⟨by simp, by simp, by simp⟩
    (by rw [heavy_eq]; exact hnd.sublist (heavyOf_ids_sublist g.nodes))
    (by rw [heavy_eq]; intro t ht
        exact (heavyOf_ids_sublist g.nodes).subset (List.mem_map.2 ⟨t, ht, rfl⟩))
    (by simp)
  rw [extend_nil] at hfold
  exact ⟨new, hfold, hok⟩

theorem addImplicitHydrogensWith_wf03_iff (rows : List (String × Int)) {g : Graph} (hg : WF g) :
    C03.WF (addImplicitHydrogensWith rows g) ↔ C03.WF g := by
  obtain ⟨new, h, hok⟩ := extension_with rows hg
  rw [h]; exact wf03_extend_iff hg hok

theorem addImplicitHydrogensWith_forest_iff (rows : List (String × Int)) {g : Graph} (hg : WF g) :
    C03.IsForest (addImplicitHydrogensWith rows g) ↔ C03.IsForest g := by
  obtain ⟨new, h, hok⟩ := extension_with rows hg
  rw [h]; exact forest_extend_iff hg hok

/-- hydrogen completion neither creates nor destroys well-formedness in the sense of C03 -/
theorem addImplicitHydrogens_wf03_iff {g : Graph} (hg : WF g) :
    C03.WF (addImplicitHydrogens g) ↔ C03.WF g := addImplicitHydrogensWith_wf03_iff _ hg

/-- hydrogen completion neither closes nor opens a cycle -/
theorem addImplicitHydrogens_forest_iff {g : Graph} (hg : WF g) :
    C03.IsForest (addImplicitHydrogens g) ↔ C03.IsForest g := addImplicitHydrogensWith_forest_iff _ hg

/-- **C12.addImplicitHydrogens_wf03** — the completed copy of a well-formed simple graph (`C03.WF`: what
    networkx hands over) is a well-formed simple graph.  No hypothesis on labels or symbols. -/
theorem addImplicitHydrogens_wf03 {g : Graph} (hg : C03.WF g) : C03.WF (addImplicitHydrogens g) :=
  (addImplicitHydrogens_wf03_iff (GraphWF.c12_of_c03 hg)).mpr hg

/-- **C12.addImplicitHydrogens_forest** — the completed copy of an acyclic molecule is acyclic -/
theorem addImplicitHydrogens_forest {g : Graph} (hg : C03.WF g) (hF : C03.IsForest g) :
    C03.IsForest (addImplicitHydrogens g) :=
  (addImplicitHydrogens_forest_iff (GraphWF.c12_of_c03 hg)).mpr hF

/-- a cycle in the completed graph is a cycle in the input -/
theorem addImplicitHydrogens_cyclic {g : Graph} (hg : WF g) (hc : ¬ C03.IsForest (addImplicitHydrogens g)) :
    ¬ C03.IsForest g := fun h => hc ((addImplicitHydrogens_forest_iff hg).mpr h)

/-- from the Boolean checkers evaluated on the INPUT -/
theorem addImplicitHydrogens_wfB {g : Graph} (h : C03.wfB g = true) : C03.wfB (addImplicitHydrogens g) = true :=
  GraphWF.wfB_complete (addImplicitHydrogens_wf03 (C03.wfB_sound g h))

theorem addImplicitHydrogens_forest_of_checkers {g : Graph} (h : C03.wfB g = true) (hf : C03.isForestB g = true) :
    C03.WF (addImplicitHydrogens g) ∧ C03.IsForest (addImplicitHydrogens g) :=
  ⟨addImplicitHydrogens_wf03 (C03.wfB_sound g h),
    addImplicitHydrogens_forest (C03.wfB_sound g h) (C03.isForestB_sound g hf)⟩

/-- the theorems of `Proofs/C12.lean` under the well-formedness hypothesis of C03 -/
theorem spec_holds_c03 {g : Graph} (hg : C03.WF g) : Spec g (addImplicitHydrogens g) :=
  spec_holds (GraphWF.c12_of_c03 hg)

/-! ### non-vacuity (tests) -/

/-- acetaldehyde `CC=O` with sparse ids -/
def exAcetaldehyde : Graph :=
  { nodes := [(2, { symbol := some "C" }), (5, { symbol := some "C" }), (9, { symbol := some "O" })],
    adj := [(2, [(5, [(0, .s 2)])]), (5, [(2, [(0, .s 2)]), (9, [(0, .s 4)])]), (9, [(5, [(0, .s 4)])])] }

/-- cyclopropane -/
def exRing : Graph :=
  { nodes := [(0, { symbol := some "C" }), (1, { symbol := some "C" }), (2, { symbol := some "C" })],
    adj := [(0, [(1, [(0, .s 2)]), (2, [(0, .s 2)])]), (1, [(0, [(0, .s 2)]), (2, [(0, .s 2)])]),
            (2, [(1, [(0, .s 2)]), (0, [(0, .s 2)])])] }

-- test: the hypotheses hold of a concrete molecule, so the completed graph (4 hydrogens added) is a
-- well-formed forest by the theorems …
example : C03.WF (addImplicitHydrogens exAcetaldehyde) ∧ C03.IsForest (addImplicitHydrogens exAcetaldehyde) :=
  addImplicitHydrogens_forest_of_checkers (by decide) (by decide)
-- … which agrees with evaluating the checkers on the completed graph
example : (addImplicitHydrogens exAcetaldehyde).nodeIds = [2, 5, 9, 10, 11, 12, 13] ∧
    C03.wfB (addImplicitHydrogens exAcetaldehyde) = true ∧
    C03.isForestB (addImplicitHydrogens exAcetaldehyde) = true := by decide +kernel
-- test (the hypothesis is needed, and the converse direction is not vacuous): a ring stays a ring
example : C03.wfB exRing = true ∧ C03.isForestB exRing = false ∧
    C03.isForestB (addImplicitHydrogens exRing) = false := by decide +kernel

end C12
