import FGVerif.Proofs.C14ConsD
/-!
  C14 — proxy expansion is conservative.

  Property theorems about the *traced* model of `Model/C14.lean` (`buildGraphsT`: the loop of
  `build_graphs` in which every working graph carries the symbols and bond labels of the patterns chosen
  so far, the number of replaced label nodes and the bonds lost to empty patterns), for every
  configuration whose patterns are well-formed graphs on ids `0..m-1` with anchors inside (`cfgOk`), of
  the same graph kind as the core and without a self-loop on a group node (`cfgEdgeOk`), whose group
  nodes carry the symbol "#" (`hashOk`), every such core, every fuel:

  * `C14.traced_projection`      (in `C14ConsA.lean`) forgetting the traces gives exactly `buildGraphs`
  * `C14.conservation_symbols`   symbols of a result + one "#" per replaced node ~ symbols of the chosen patterns
  * `C14.conservation_bonds`     bond labels of a result + bonds of the nodes replaced by the empty
                                 pattern ~ bond labels of the chosen patterns
  * `C14.conservation`           every result passes the executable check `conservedB`

  Proof: the invariant `Q.Inv` on a traced working item (well-formed, contiguous ids, no self-loop on a
  group node, "#" on group nodes, graph kind, the two multiset equations) holds initially and is
  preserved by one replacement (`Q.InvS_preserved` from the C13 node theorem, `Q.bond_step` from the C13
  edge theorem by counting labels between pairs of names); `Q.buildGraphsT_preserves` carries it through
  `stepT` / `buildLoopT`.  Helper lemmas: `C14ConsA` … `C14ConsD`, namespace `C14.Q`.
-/
namespace C14
open C13

namespace Q

/-- the invariant on a traced working item -/
def Inv (cfg : Config) (m : Bool) (gt : Graph × Trace) : Prop :=
  InvS cfg m gt ∧ (bondLabelsOf gt.1 ++ gt.2.dropped).Perm gt.2.bonds

theorem Inv_init (cfg : Config) (core : Graph)
    (hhash : hashOk cfg core = true)
    (hcore : wf core = true ∧ contiguous core = true ∧ noLoopOnGroupNodes cfg core = true) :
    Inv cfg core.multi (core, { symbols := symbolsOf core, bonds := bondLabelsOf core }) :=
  ⟨⟨hcore.1, hcore.2.1, hcore.2.2, hhash, rfl, by simp⟩, by simp⟩

theorem Inv_preserved {cfg : Config} {m : Bool} (c : CfgOk cfg m) : Preserved cfg (Inv cfg m) := by
  intro gt gs hinv hstep g' hg'
  obtain ⟨hS, hB⟩ := hinv
  refine ⟨InvS_preserved c gt gs hS hstep g' hg', ?_⟩
  obtain ⟨anchor, a, name, grp, hn, _, hk, rfl⟩ := replaceNextNodeT_some hstep
  obtain ⟨sg, hsg, rfl⟩ := List.mem_map.mp hg'
  have hp := c.pat (lookup_some hk) hsg
  obtain ⟨hx, hgn⟩ := nextGroupNode_some hn
  have hd := inDomain_of hS.wf hS.cont hS.noloop hS.multi hx hgn hp
  have hstep := bond_step hd
  show (bondLabelsOf (replaceNode gt.1 anchor sg.pattern sg.anchors)
      ++ (if sg.pattern.nodes.isEmpty then gt.2.dropped ++ (gt.1.edgesOf anchor).map (·.2.2.2) else gt.2.dropped)).Perm
    (gt.2.bonds ++ bondLabelsOf sg.pattern)
  -- (g ++ sub) ++ dropped ~ (g ++ dropped) ++ sub ~ bonds ++ sub
  have h2 : ((bondLabelsOf gt.1 ++ bondLabelsOf sg.pattern) ++ gt.2.dropped).Perm
      (gt.2.bonds ++ bondLabelsOf sg.pattern) := by
    refine List.Perm.trans ?_ (List.Perm.append_right _ hB)
    simp only [List.append_assoc]
    exact List.Perm.append_left _ List.perm_append_comm
  refine List.Perm.trans ?_ h2
  by_cases he : sg.pattern.nodes.isEmpty = true
  · simp only [he, if_true] at hstep ⊢
    refine List.Perm.trans ?_ (List.Perm.append_right _ hstep)
    simp only [List.append_assoc]
    exact List.Perm.append_left _ List.perm_append_comm
  · simp only [he, if_false, Bool.false_eq_true, List.append_nil] at hstep ⊢
    exact List.Perm.append_right _ hstep

theorem inv_results (cfg : Config) (fuel : Nat) (core : Graph) (ts : List (Graph × Trace))
    (hcfg : cfgOk cfg = true) (hedge : cfgEdgeOk cfg core.multi = true)
    (hhash : hashOk cfg core = true ∧ cfg.all (fun grp => grp.graphs.all fun pg => hashOk cfg pg.pattern) = true)
    (hcore : wf core = true ∧ contiguous core = true ∧ noLoopOnGroupNodes cfg core = true)
    (h : buildGraphsT cfg fuel core = .ok ts) : ∀ gt ∈ ts, Inv cfg core.multi gt :=
  buildGraphsT_preserves cfg _ (Inv_preserved ⟨hcfg, hedge, hhash.2⟩) fuel core ts
    (Inv_init cfg core hhash.1 hcore) h

end Q

/-- conservation of atom symbols: the symbols of every result, plus one "#" per replaced label node,
    are the symbols of the patterns chosen along its combination (as multisets) -/
theorem conservation_symbols (cfg : Config) (fuel : Nat) (core : Graph) (ts : List (Graph × Trace))
    (hcfg : cfgOk cfg = true) (hedge : cfgEdgeOk cfg core.multi = true)
    (hhash : hashOk cfg core = true ∧ cfg.all (fun grp => grp.graphs.all fun pg => hashOk cfg pg.pattern) = true)
    (hcore : wf core = true ∧ contiguous core = true ∧ noLoopOnGroupNodes cfg core = true)
    (h : buildGraphsT cfg fuel core = .ok ts) :
    ∀ gt ∈ ts, (symbolsOf gt.1 ++ List.replicate gt.2.replaced "#").Perm gt.2.symbols :=
  fun gt hgt => (Q.inv_results cfg fuel core ts hcfg hedge hhash hcore h gt hgt).1.syms

/-- conservation of bond labels: the bond labels of every result, plus the bonds of the nodes that
    were replaced by the empty pattern, are the bond labels of the patterns chosen along its
    combination (as multisets) -/
theorem conservation_bonds (cfg : Config) (fuel : Nat) (core : Graph) (ts : List (Graph × Trace))
    (hcfg : cfgOk cfg = true) (hedge : cfgEdgeOk cfg core.multi = true)
    (hhash : hashOk cfg core = true ∧ cfg.all (fun grp => grp.graphs.all fun pg => hashOk cfg pg.pattern) = true)
    (hcore : wf core = true ∧ contiguous core = true ∧ noLoopOnGroupNodes cfg core = true)
    (h : buildGraphsT cfg fuel core = .ok ts) :
    ∀ gt ∈ ts, (bondLabelsOf gt.1 ++ gt.2.dropped).Perm gt.2.bonds :=
  fun gt hgt => (Q.inv_results cfg fuel core ts hcfg hedge hhash hcore h gt hgt).2

/-- conservation at the build_graphs level: for every result, its symbols are those of the chosen patterns
    minus one "#" per replaced node and its bond labels are those of the chosen patterns minus the bonds of
    nodes replaced by the empty pattern (as multisets) -/
theorem conservation (cfg : Config) (fuel : Nat) (core : Graph) (ts : List (Graph × Trace))
    (hcfg : cfgOk cfg = true) (hedge : cfgEdgeOk cfg core.multi = true)
    (hhash : hashOk cfg core = true ∧ cfg.all (fun grp => grp.graphs.all fun pg => hashOk cfg pg.pattern) = true)
    (hcore : wf core = true ∧ contiguous core = true ∧ noLoopOnGroupNodes cfg core = true)
    (h : buildGraphsT cfg fuel core = .ok ts) : ∀ gt ∈ ts, conservedB gt = true := by
  intro gt hgt
  unfold conservedB
  rw [Bool.and_eq_true]
  exact ⟨List.isPerm_iff.mpr (conservation_symbols cfg fuel core ts hcfg hedge hhash hcore h gt hgt),
    List.isPerm_iff.mpr (conservation_bonds cfg fuel core ts hcfg hedge hhash hcore h gt hgt)⟩

/-- the results of the plain loop are exactly the graphs of the traced results, so every graph
    `build_graphs` returns comes with a trace that satisfies the conservation equations -/
theorem conservation_plain (cfg : Config) (fuel : Nat) (core : Graph) (gs : List Graph)
    (hcfg : cfgOk cfg = true) (hedge : cfgEdgeOk cfg core.multi = true)
    (hhash : hashOk cfg core = true ∧ cfg.all (fun grp => grp.graphs.all fun pg => hashOk cfg pg.pattern) = true)
    (hcore : wf core = true ∧ contiguous core = true ∧ noLoopOnGroupNodes cfg core = true)
    (h : buildGraphs cfg fuel core = .ok gs) :
    ∃ ts, buildGraphsT cfg fuel core = .ok ts ∧ ts.map (·.1) = gs ∧ ∀ gt ∈ ts, conservedB gt = true := by
  have hp := traced_projection cfg fuel core
  rw [h] at hp
  cases ht : buildGraphsT cfg fuel core with
  | error e => rw [ht] at hp; cases hp
  | ok ts =>
    rw [ht] at hp
    refine ⟨ts, rfl, ?_, conservation cfg fuel core ts hcfg hedge hhash hcore ht⟩
    simpa [Except.map] using hp

/-! ### tests (non-vacuity on concrete inputs; these are tests, not part of the proofs) -/
section Tests

private def mkG (multi : Bool) (nodes : List (Int × NodeAttr)) (es : List Edge) : Graph :=
  addEdgesFrom { multi := multi, nodes := nodes, adj := nodes.map fun n => (n.1, []) } es
private def atom (i : Int) (s : String) : Int × NodeAttr := (i, { symbol := some s, labels := some [], isLabeled := some false })
private def lab (i : Int) (l : String) : Int × NodeAttr := (i, { symbol := some "#", labels := some [l], isLabeled := some true })

/-- `C1C{g}(C)1` with a double bond 2=0 given as two parallel bonds -/
private def ring : Graph :=
  mkG true [atom 0 "C", atom 1 "C", lab 2 "g", atom 3 "C"]
    [(0,1,0,.s 2), (1,2,0,.s 4), (2,3,0,.s 6), (2,0,0,.s 8), (2,0,1,.s 10)]
private def no : Graph := mkG true [atom 0 "N", atom 1 "O"] [(0,1,0,.s 3)]
/-- `N{h}` -/
private def nh : Graph := mkG true [atom 0 "N", lab 1 "h"] [(0,1,0,.s 5)]
private def emp : Graph := { multi := true }
/-- group `g`: `NO`, the empty pattern, `N{h}`; group `h`: the empty pattern, `NO` -/
private def cfgT : Config := [
  { key := "g", name := "g", graphs := [⟨no, [0, 1]⟩, ⟨emp, []⟩, ⟨nh, [1]⟩] },
  { key := "h", name := "h", graphs := [⟨emp, []⟩, ⟨no, [1]⟩] }]

private def okOr {α : Type} (d : α) : Except Err α → α
  | .ok a => a
  | .error _ => d

-- the hypotheses of the theorem hold for the test configuration
example : cfgOk cfgT = true ∧ cfgEdgeOk cfgT ring.multi = true := by decide +kernel
example : hashOk cfgT ring = true ∧ cfgT.all (fun grp => grp.graphs.all fun pg => hashOk cfgT pg.pattern) = true := by
  decide +kernel
example : wf ring = true ∧ contiguous ring = true ∧ noLoopOnGroupNodes cfgT ring = true := by decide +kernel
-- the one-replacement statement on an empty pattern: the replaced node has four bonds, all dropped
example : bondLabelsOf (replaceNode ring 2 emp []) = [.s 2]
    ∧ (ring.edgesOf 2).map (·.2.2.2) = [.s 4, .s 6, .s 8, .s 10] := by decide +kernel
-- four results; the second and third lose the bonds of a node replaced by the empty pattern
example : okOr [] ((buildGraphsT cfgT 10 ring).map fun ts => ts.map conservedB) = [true, true, true, true] := by
  decide +kernel
example : okOr [] ((buildGraphsT cfgT 10 ring).map fun ts => ts.map (·.2.dropped))
    = [[], [.s 4, .s 6, .s 8, .s 10], [.s 8, .s 10, .s 4, .s 6, .s 5], []] := by decide +kernel
-- a corrupted trace is rejected by the check
example : conservedB (replaceNode ring 2 emp [],
    { symbols := symbolsOf ring, bonds := bondLabelsOf ring, replaced := 1, dropped := [] }) = false := by
  decide +kernel
-- the theorem applies to the test configuration
example : ∀ ts, buildGraphsT cfgT 10 ring = .ok ts → ∀ gt ∈ ts, conservedB gt = true :=
  fun ts h => conservation cfgT 10 ring ts (by decide +kernel) (by decide +kernel) (by decide +kernel)
    (by decide +kernel) h

end Tests

end C14
