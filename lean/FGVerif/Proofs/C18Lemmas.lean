import FGVerif.Model.C18
/-!
  C18 — list lemmas used by `Proofs/C18.lean` (index of an element, two-element `flatMap`s,
  strictly increasing lists, the insertion sorts of the model).  Core Lean only.
-/
namespace C18

/-! ### `idxOf` -/

theorem idxOf_cons_self {α} [BEq α] [LawfulBEq α] (a : α) (l : List α) : (a :: l).idxOf a = 0 := by
  simp

theorem idxOf_cons_ne {α} [BEq α] [LawfulBEq α] {a b : α} (l : List α) (h : a ≠ b) :
    (a :: l).idxOf b = l.idxOf b + 1 := by
  have : (a == b) = false := by simpa using h
  simp [List.idxOf_cons, this]

/-- an injective map does not change the index -/
theorem idxOf_map_inj {α β} [BEq α] [LawfulBEq α] [BEq β] [LawfulBEq β] (f : α → β) (u : α) :
    ∀ (l : List α), (∀ a ∈ l, f a = f u → a = u) → (l.map f).idxOf (f u) = l.idxOf u := by
  intro l
  induction l with
  | nil => intro _; simp
  | cons a l ih =>
    intro h
    by_cases hau : a = u
    · subst hau; simp
    · have hf : f a ≠ f u := fun e => hau (h a List.mem_cons_self e)
      simp only [List.map_cons]
      rw [idxOf_cons_ne _ hf, idxOf_cons_ne _ hau, ih (fun b hb => h b (List.mem_cons_of_mem _ hb))]

/-- `idxOf` is injective on the members of the list -/
theorem idxOf_inj_of_mem {α} [BEq α] [LawfulBEq α] {l : List α} {a b : α} (ha : a ∈ l)
    (h : l.idxOf a = l.idxOf b) : a = b := by
  have h1 : l.idxOf a < l.length := List.idxOf_lt_length_iff.mpr ha
  have h2 : l.idxOf b < l.length := by rw [← h]; exact h1
  have e1 := List.getElem_idxOf h1
  have e2 := List.getElem_idxOf h2
  rw [← e1, ← e2]
  congr 1

/-- in a duplicate-free list the index of the `i`-th element is `i`; stated through `map idxOf` -/
theorem map_idxOf_sublist {α} [BEq α] [LawfulBEq α] :
    ∀ (l s : List α), l.Nodup → s.Sublist l → (s.map fun a => l.idxOf a).Pairwise (· < ·) := by
  intro l
  induction l with
  | nil => intro s _ hs; cases hs; simp
  | cons a l ih =>
    intro s hnd hs
    obtain ⟨hal, hnd'⟩ := List.nodup_cons.mp hnd
    cases hs with
    | cons _ hs' =>
      -- `a` is not used: all members of `s` are in `l`, hence different from `a`
      have hne : ∀ b ∈ s, a ≠ b := fun b hb e => hal (e ▸ hs'.subset hb)
      have : (s.map fun b => (a :: l).idxOf b) = (s.map fun b => l.idxOf b).map (· + 1) := by
        rw [List.map_map]
        apply List.map_congr_left
        intro b hb
        simp [idxOf_cons_ne _ (hne b hb)]
      rw [this]
      exact (ih s hnd' hs').map _ (fun _ _ h => Nat.succ_lt_succ h)
    | cons_cons _ hs' =>
      rename_i s'
      have hne : ∀ b ∈ s', a ≠ b := fun b hb e => hal (e ▸ hs'.subset hb)
      have : (s'.map fun b => (a :: l).idxOf b) = (s'.map fun b => l.idxOf b).map (· + 1) := by
        rw [List.map_map]
        apply List.map_congr_left
        intro b hb
        simp [idxOf_cons_ne _ (hne b hb)]
      simp only [List.map_cons, idxOf_cons_self, List.pairwise_cons]
      refine ⟨?_, ?_⟩
      · intro x hx
        rw [this] at hx
        obtain ⟨y, _, rfl⟩ := List.mem_map.mp hx
        exact Nat.succ_pos _
      · rw [this]
        exact (ih s' hnd' hs').map _ (fun _ _ h => Nat.succ_lt_succ h)

theorem pos_inj (I : ITS) {a b : Int} (ha : a ∈ I.ids) (h : I.pos a = I.pos b) : a = b :=
  idxOf_inj_of_mem ha h

theorem pos_lt (I : ITS) {a : Int} (ha : a ∈ I.ids) : I.pos a < I.nodes.length := by
  have := List.idxOf_lt_length_iff.mpr ha
  simpa [ITS.pos, ITS.ids] using this

theorem wf_unfold {t : TData} (h : t.wf = true) :
    (∀ p ∈ t.ei, p.1 < t.x.length ∧ p.2 < t.x.length) ∧ t.ei.length = t.ea.length := by
  simp only [TData.wf, Bool.and_eq_true, List.all_eq_true, decide_eq_true_eq, beq_iff_eq] at h
  exact h

/-! ### `flatMap`, `zip` -/

theorem filter_flatMap_pair {α β} (c1 c2 : α → β) (P : β → Bool) (Q : α → Bool) :
    ∀ (l : List α), (∀ e ∈ l, P (c1 e) = Q e ∧ P (c2 e) = Q e) →
      (l.flatMap fun e => [c1 e, c2 e]).filter P = (l.filter Q).flatMap fun e => [c1 e, c2 e] := by
  intro l
  induction l with
  | nil => intro _; rfl
  | cons a l ih =>
    intro h
    have ha := h a List.mem_cons_self
    have ih' := ih (fun e he => h e (List.mem_cons_of_mem _ he))
    simp only [List.flatMap_cons, List.cons_append, List.nil_append]
    cases hq : Q a
    · simp [ha.1, ha.2, hq, ih']
    · simp [ha.1, ha.2, hq, ih']

theorem flatMap_congr_mem {α β} {l : List α} {f g : α → List β} (h : ∀ a ∈ l, f a = g a) :
    l.flatMap f = l.flatMap g := by
  induction l with
  | nil => rfl
  | cons a l ih =>
    simp only [List.flatMap_cons]
    rw [h a List.mem_cons_self, ih (fun b hb => h b (List.mem_cons_of_mem _ hb))]

theorem zip_flatMap_pair {α β γ} (l : List α) (f1 f2 : α → β) (g1 g2 : α → γ) :
    (l.flatMap fun e => [f1 e, f2 e]).zip (l.flatMap fun e => [g1 e, g2 e]) =
      l.flatMap fun e => [(f1 e, g1 e), (f2 e, g2 e)] := by
  induction l with
  | nil => rfl
  | cons a l ih => simp [List.flatMap_cons, ih]

theorem length_flatMap_pair {α β} (l : List α) (f1 f2 : α → β) :
    (l.flatMap fun e => [f1 e, f2 e]).length = 2 * l.length := by
  induction l with
  | nil => rfl
  | cons a l ih => simp [List.flatMap_cons, ih]; omega

theorem getD_flatMap_pair {α β} (f1 f2 : α → β) (d : β) :
    ∀ (l : List α) (k : Nat) (h : k < l.length),
      (l.flatMap fun e => [f1 e, f2 e]).getD (2 * k) d = f1 l[k] ∧
      (l.flatMap fun e => [f1 e, f2 e]).getD (2 * k + 1) d = f2 l[k] := by
  intro l
  induction l with
  | nil => intro k h; simp at h
  | cons a l ih =>
    intro k h
    cases k with
    | zero => simp [List.flatMap_cons]
    | succ k =>
      have hk : k < l.length := by simpa using h
      obtain ⟨h1, h2⟩ := ih k hk
      have e1 : 2 * (k + 1) = (2 * k) + 1 + 1 := by omega
      simp only [List.flatMap_cons, List.cons_append, List.nil_append, List.getElem_cons_succ]
      rw [e1]
      simp only [List.getD_cons_succ]
      exact ⟨h1, h2⟩

/-! ### strictly increasing lists -/

/-- two strictly increasing lists with the same members are equal -/
theorem sorted_ext : ∀ (l₁ l₂ : List Nat), l₁.Pairwise (· < ·) → l₂.Pairwise (· < ·) →
    (∀ x, x ∈ l₁ ↔ x ∈ l₂) → l₁ = l₂ := by
  intro l₁
  induction l₁ with
  | nil =>
    intro l₂ _ _ h
    cases l₂ with
    | nil => rfl
    | cons b l₂ => exact absurd ((h b).mpr List.mem_cons_self) (by simp)
  | cons a l₁ ih =>
    intro l₂ h1 h2 h
    cases l₂ with
    | nil => exact absurd ((h a).mp List.mem_cons_self) (by simp)
    | cons b l₂ =>
      obtain ⟨ha, h1'⟩ := List.pairwise_cons.mp h1
      obtain ⟨hb, h2'⟩ := List.pairwise_cons.mp h2
      have hab : a = b := by
        have m1 := (h a).mp List.mem_cons_self
        have m2 := (h b).mpr List.mem_cons_self
        rcases List.mem_cons.mp m1 with e | m1
        · exact e
        · rcases List.mem_cons.mp m2 with e | m2
          · exact e.symm
          · have := hb a m1; have := ha b m2; omega
      subst hab
      congr 1
      apply ih l₂ h1' h2'
      intro x
      constructor
      · intro hx
        rcases List.mem_cons.mp ((h x).mp (List.mem_cons_of_mem _ hx)) with e | m
        · have := ha x hx; omega
        · exact m
      · intro hx
        rcases List.mem_cons.mp ((h x).mpr (List.mem_cons_of_mem _ hx)) with e | m
        · have := hb x hx; omega
        · exact m

theorem mem_insertU (x y : Nat) : ∀ l : List Nat, y ∈ insertU x l ↔ y = x ∨ y ∈ l := by
  intro l
  induction l with
  | nil => simp [insertU]
  | cons a l ih =>
    simp only [insertU]
    split
    · simp
    · split
      · rename_i _ h; subst h; simp
      · simp only [List.mem_cons, ih]
        constructor
        · rintro (h | h | h) <;> simp [h]
        · rintro (h | h | h) <;> simp [h]

theorem sorted_insertU (x : Nat) : ∀ l : List Nat, l.Pairwise (· < ·) → (insertU x l).Pairwise (· < ·) := by
  intro l
  induction l with
  | nil => intro _; simp [insertU]
  | cons a l ih =>
    intro h
    obtain ⟨ha, hl⟩ := List.pairwise_cons.mp h
    simp only [insertU]
    split
    · rename_i hxa
      refine List.pairwise_cons.mpr ⟨?_, h⟩
      intro y hy
      rcases List.mem_cons.mp hy with e | hy
      · omega
      · have := ha y hy; omega
    · split
      · exact h
      · rename_i h1 h2
        refine List.pairwise_cons.mpr ⟨?_, ih hl⟩
        intro y hy
        rcases (mem_insertU x y l).mp hy with e | hy
        · omega
        · exact ha y hy

theorem mem_uniqueSorted (y : Nat) : ∀ l : List Nat, y ∈ uniqueSorted l ↔ y ∈ l := by
  intro l
  induction l with
  | nil => simp [uniqueSorted]
  | cons a l ih =>
    have : uniqueSorted (a :: l) = insertU a (uniqueSorted l) := rfl
    rw [this, mem_insertU, ih]
    simp

theorem sorted_uniqueSorted : ∀ l : List Nat, (uniqueSorted l).Pairwise (· < ·) := by
  intro l
  induction l with
  | nil => simp [uniqueSorted]
  | cons a l ih => exact sorted_insertU a _ ih

/-- `uniqueSorted l` is THE strictly increasing list with the members of `l` -/
theorem uniqueSorted_eq (l s : List Nat) (hs : s.Pairwise (· < ·)) (h : ∀ x, x ∈ s ↔ x ∈ l) :
    uniqueSorted l = s :=
  sorted_ext _ _ (sorted_uniqueSorted l) hs (fun x => by rw [mem_uniqueSorted, h])

/-! ### the edge sort is a permutation -/

theorem insE_perm (x : Int × Int × List Int) : ∀ l, (insE x l).Perm (x :: l) := by
  intro l
  induction l with
  | nil => exact List.Perm.refl _
  | cons y ys ih =>
    simp only [insE]
    split
    · exact List.Perm.refl _
    · exact ((List.perm_cons y).mpr ih).trans (List.Perm.swap x y ys)

theorem sortE_perm : ∀ l, (sortE l).Perm l := by
  intro l
  induction l with
  | nil => exact List.Perm.refl _
  | cons x xs ih => exact (insE_perm x _).trans ((List.perm_cons x).mpr ih)

/-! ### sums -/

theorem sum_map_pos_iff {α} (f : α → Nat) : ∀ l : List α, 0 < (l.map f).sum ↔ ∃ a ∈ l, 0 < f a := by
  intro l
  induction l with
  | nil => simp
  | cons a l ih =>
    simp only [List.map_cons, List.sum_cons, List.mem_cons, exists_eq_or_imp]
    rw [← ih]
    omega

end C18
