import FGVerif.Proofs.C01Rings
/-!
  C01, layer 3 — event semantics.  An abstract cursor machine (`astep` / `arun`) that has the
  parser's anchor, branch stack, ring table and pending bond but no graph: it *emits* the resolved
  events.  `chain_run` (mutual structural induction over `Chain` / `Items`): running the abstract
  machine over `render c` emits exactly `tableEvs T (events c)`, leaves the branch stack unchanged
  and the table = `tableEnd T (events c)`.
-/
namespace C01

structure AState where
  n : Nat                                    -- atoms so far
  anchor : Option (Nat × Bool)               -- anchor atom and whether it is lower-case
  branches : List (Option (Nat × Bool))
  table : Table
  pend : Option Bond                         -- the bond written since the last edge (`none` = implied)
  out : List REv                             -- emitted so far

def aAtom (a : AState) (x : AtomTok) : AState :=
  match a.anchor with
  | none => { a with n := a.n + 1, anchor := some (a.n, x.low), out := a.out ++ [.node a.n x] }
  | some (p, lowP) =>
    { a with n := a.n + 1, anchor := some (a.n, x.low), pend := none,
             out := a.out ++ [.node a.n x, .edge p a.n (lowP && x.low) a.pend] }

def astep (a : AState) : Token → Option AState
  | .atom s => some (aAtom a (.elem s))
  | .wild => some (aAtom a .wild)
  | .label body => some (aAtom a (.labels (splitComma body)))
  | .bond s =>
    match s with
    | [c] => if (bondOrder? c).isSome then some { a with pend := some (.sym c) } else none
    | _ => none
  | .rc g h => some { a with pend := some (.rc g h) }
  | .bstart => some { a with branches := a.anchor :: a.branches }
  | .bend =>
    match a.branches with
    | x :: r => some { a with anchor := x, branches := r }
    | [] => none
  | .ring d =>
    match a.anchor with
    | none => none
    | some (u, lowU) =>
      match a.table.lookup d with
      | some (p, lowP) =>
        some { a with table := a.table.filter (fun e => e.1 != d), pend := none,
                      out := a.out ++ [.edge u p (lowU && lowP) a.pend] }
      | none => some { a with table := a.table ++ [(d, u, lowU)] }
  | .mismatch _ => none

def arun : AState → List Token → Option AState
  | a, [] => some a
  | a, t :: ts =>
    match astep a t with
    | some a' => arun a' ts
    | none => none

theorem arun_append (xs ys : List Token) : ∀ a, arun a (xs ++ ys) = (arun a xs).bind (arun · ys) := by
  induction xs with
  | nil => intro a; simp [arun]
  | cons x xs ih =>
    intro a
    simp only [List.cons_append, arun]
    cases astep a x with
    | none => simp
    | some a' => simpa using ih a'

/-! ### the table functions over appended event lists -/

theorem tableEvs_append (e1 e2 : List Ev) : ∀ T, tableEvs T (e1 ++ e2) = tableEvs T e1 ++ tableEvs (tableEnd T e1) e2 := by
  induction e1 with
  | nil => intro T; rfl
  | cons e e1 ih =>
    intro T
    cases e with
    | node i a => simp [tableEvs, tableEnd, ih]
    | link u v low b => simp [tableEvs, tableEnd, ih]
    | mark u lowU b id =>
      simp only [List.cons_append, tableEvs, tableEnd]
      cases T.lookup id with
      | none => simp [ih]
      | some pl => obtain ⟨p, l⟩ := pl; simp [ih]

theorem tableEnd_append (e1 e2 : List Ev) : ∀ T, tableEnd T (e1 ++ e2) = tableEnd (tableEnd T e1) e2 := by
  induction e1 with
  | nil => intro T; rfl
  | cons e e1 ih =>
    intro T
    cases e with
    | node i a => simp [tableEnd, ih]
    | link u v low b => simp [tableEnd, ih]
    | mark u lowU b id =>
      simp only [List.cons_append, tableEnd]
      cases T.lookup id <;> simp [ih]

theorem marksGood_append (e1 e2 : List Ev) : ∀ T, marksGood T (e1 ++ e2) = (marksGood T e1 && marksGood (tableEnd T e1) e2) := by
  induction e1 with
  | nil => intro T; simp [marksGood, tableEnd]
  | cons e e1 ih =>
    intro T
    cases e with
    | node i a => simp [marksGood, tableEnd, ih]
    | link u v low b => simp [marksGood, tableEnd, ih]
    | mark u lowU b id =>
      simp only [List.cons_append, marksGood, tableEnd]
      cases T.lookup id <;> simp [ih, Bool.and_assoc]

/-! ### labels: `split(",")` undoes the rendering -/

theorem splitComma_noComma (l : Str) (h : l.all (fun c => isLabelChar c && c != ',') = true) :
    ∀ rest : Str, splitComma (l ++ ',' :: rest) = l :: splitComma rest := by
  induction l with
  | nil => intro rest; simp [splitComma]
  | cons c cs ih =>
    intro rest
    simp only [List.all_cons, Bool.and_eq_true] at h
    have hc : ¬ c = ',' := by simpa using h.1.2
    simp [splitComma, hc, ih h.2 rest]

theorem splitComma_single (l : Str) (h : l.all (fun c => isLabelChar c && c != ',') = true) :
    splitComma l = [l] := by
  induction l with
  | nil => rfl
  | cons c cs ih =>
    simp only [List.all_cons, Bool.and_eq_true] at h
    have hc : ¬ c = ',' := by simpa using h.1.2
    simp [splitComma, hc, ih h.2]

theorem splitComma_joinComma (ls : List Str) (hne : ls ≠ [])
    (h : ls.all (fun l => !l.isEmpty && l.all (fun c => isLabelChar c && c != ',')) = true) :
    splitComma (joinComma ls) = ls := by
  induction ls with
  | nil => exact absurd rfl hne
  | cons l ls ih =>
    simp only [List.all_cons, Bool.and_eq_true] at h
    cases ls with
    | nil => simpa [joinComma] using splitComma_single l h.1.2
    | cons l2 ls =>
      simp only [joinComma]
      rw [splitComma_noComma l h.1.2, ih (by simp) h.2]

/-! ### the last atom of the main chain (the anchor the machine ends on) -/

mutual
  def Chain.lastA : Chain → Nat → Nat × Bool
    | .mk a its, n => its.lastA (n + 1) (n, a.low)
  def Items.lastA : Items → Nat → Nat × Bool → Nat × Bool
    | .nil, _, cur => cur
    | .ring _ _ r, n, cur => r.lastA n cur
    | .branch _ c r, n, cur => r.lastA (n + c.size) cur
    | .next _ c, n, _ => c.lastA n
end

def parAnchor : Option (Nat × Bool × Option Bond) → Option (Nat × Bool)
  | none => none
  | some (p, l, _) => some (p, l)

def parPend : Option (Nat × Bool × Option Bond) → Option Bond
  | none => none
  | some (_, _, b) => b

theorem arun_optTok (b : Option Bond) (hb : ∀ t ∈ optTok b, tokOK t = true)
    (n : Nat) (anc : Option (Nat × Bool)) (B : List (Option (Nat × Bool))) (T : Table) (out : List REv) :
    arun ⟨n, anc, B, T, none, out⟩ (optTok b) = some ⟨n, anc, B, T, b, out⟩ := by
  cases b with
  | none => rfl
  | some b =>
    cases b with
    | sym c =>
      have := hb (.bond [c]) (by simp [optTok, Bond.tok])
      simp only [tokOK] at this
      simp [optTok, Bond.tok, arun, astep, this]
    | rc g h => simp [optTok, Bond.tok, arun, astep]

theorem tok_of_atom (a : AtomTok) (ha : a.ok = true) (s : AState) :
    astep s a.tok = some (aAtom s a) := by
  cases a with
  | elem x => rfl
  | wild => rfl
  | labels ls =>
    simp only [AtomTok.ok, Bool.and_eq_true] at ha
    have hne : ls ≠ [] := by intro e; subst e; simp at ha
    simp [AtomTok.tok, astep, splitComma_joinComma ls hne ha.2]

mutual
  theorem chain_run (c : Chain) (n : Nat) (par : Option (Nat × Bool × Option Bond))
      (B : List (Option (Nat × Bool))) (T : Table) (out : List REv)
      (htok : ∀ t ∈ c.render, tokOK t = true) (hat : c.atomsOK = true)
      (hm : marksGood T (c.events n par) = true) :
      arun ⟨n, parAnchor par, B, T, parPend par, out⟩ c.render =
        some ⟨n + c.size, some (c.lastA n), B, tableEnd T (c.events n par), none,
              out ++ tableEvs T (c.events n par)⟩ := by
    match c with
    | .mk a its =>
      simp only [Chain.render, Chain.atomsOK, Bool.and_eq_true] at htok hat ⊢
      simp only [arun, tok_of_atom a hat.1]
      have htok' : ∀ t ∈ its.render, tokOK t = true := fun t ht => htok t (List.mem_cons_of_mem _ ht)
      cases par with
      | none =>
        simp only [Chain.events, List.nil_append] at hm ⊢
        have hm' : marksGood T (its.events (n + 1) n a.low) = true := by simpa [marksGood] using hm
        have := items_run its (n + 1) n a.low B T (out ++ [.node n a]) htok' hat.2 hm'
        simp only [aAtom, parAnchor, parPend]
        rw [this]
        simp [Chain.size, Chain.lastA, tableEnd, tableEvs]
        omega
      | some par =>
        obtain ⟨p, lowP, b⟩ := par
        simp only [Chain.events, List.cons_append, List.nil_append] at hm ⊢
        have hm' : marksGood T (its.events (n + 1) n a.low) = true := by simpa [marksGood] using hm
        have := items_run its (n + 1) n a.low B T (out ++ [.node n a, .edge p n (lowP && a.low) b]) htok' hat.2 hm'
        simp only [aAtom, parAnchor, parPend]
        rw [this]
        simp [Chain.size, Chain.lastA, tableEnd, tableEvs]
        omega
  theorem items_run (its : Items) (n u : Nat) (lowU : Bool)
      (B : List (Option (Nat × Bool))) (T : Table) (out : List REv)
      (htok : ∀ t ∈ its.render, tokOK t = true) (hat : its.atomsOK = true)
      (hm : marksGood T (its.events n u lowU) = true) :
      arun ⟨n, some (u, lowU), B, T, none, out⟩ its.render =
        some ⟨n + its.size, some (its.lastA n (u, lowU)), B, tableEnd T (its.events n u lowU), none,
              out ++ tableEvs T (its.events n u lowU)⟩ := by
    match its with
    | .nil => simp [Items.render, arun, Items.size, Items.lastA, Items.events, tableEnd, tableEvs]
    | .ring b id r =>
      simp only [Items.render, Items.atomsOK, Items.events] at htok hat hm ⊢
      have hb : ∀ t ∈ optTok b, tokOK t = true := fun t ht => htok t (by simp [ht])
      have hr : ∀ t ∈ r.render, tokOK t = true := fun t ht => htok t (by simp [ht])
      rw [arun_append, arun_optTok b hb]
      simp only [Option.bind_some, arun, astep]
      simp only [marksGood] at hm
      cases hl : T.lookup id with
      | some pl =>
        obtain ⟨p, lowP⟩ := pl
        simp only [hl] at hm
        simp only []
        rw [items_run r n u lowU B _ _ hr hat hm]
        simp [Items.size, Items.lastA, tableEnd, tableEvs, hl]
      | none =>
        simp only [hl, Bool.and_eq_true] at hm
        have hbn : b = none := by simpa using hm.1
        subst hbn
        simp only []
        rw [items_run r n u lowU B _ _ hr hat hm.2]
        simp [Items.size, Items.lastA, tableEnd, tableEvs, hl]
    | .branch b c r =>
      simp only [Items.render, Items.atomsOK, Items.events, Bool.and_eq_true] at htok hat hm ⊢
      have hb : ∀ t ∈ optTok b, tokOK t = true := fun t ht => htok t (by simp [ht])
      have hc : ∀ t ∈ c.render, tokOK t = true := fun t ht => htok t (by simp [ht])
      have hr : ∀ t ∈ r.render, tokOK t = true := fun t ht => htok t (by simp [ht])
      rw [marksGood_append, Bool.and_eq_true] at hm
      simp only [arun, astep]
      rw [arun_append, arun_optTok b hb]
      simp only [Option.bind_some]
      rw [arun_append]
      have h1 := chain_run c n (some (u, lowU, b)) (some (u, lowU) :: B) T out hc hat.1 hm.1
      simp only [parAnchor, parPend] at h1
      rw [h1]
      simp only [Option.bind_some, arun, astep]
      rw [items_run r (n + c.size) u lowU B _ _ hr hat.2 hm.2]
      simp [Items.size, Items.lastA, tableEnd_append, tableEvs_append, Nat.add_assoc]
    | .next b c =>
      simp only [Items.render, Items.atomsOK, Items.events] at htok hat hm ⊢
      have hb : ∀ t ∈ optTok b, tokOK t = true := fun t ht => htok t (by simp [ht])
      have hc : ∀ t ∈ c.render, tokOK t = true := fun t ht => htok t (by simp [ht])
      rw [arun_append, arun_optTok b hb]
      simp only [Option.bind_some]
      have h1 := chain_run c n (some (u, lowU, b)) B T out hc hat hm
      simp only [parAnchor, parPend] at h1
      rw [h1]
      simp [Items.size, Items.lastA]
end

end C01
