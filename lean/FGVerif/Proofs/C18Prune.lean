import FGVerif.Proofs.C18Lemmas
import FGVerif.Proofs.C18Reach
/-!
  C18 — `prune` keeps exactly the rows within `r` steps of the start set (start rows included for
  every `r ≥ 0`), with the columns and edge features among them; `prune_rc` likewise from the
  reaction-centre rows.
-/
namespace C18
open Reach

/-! ### the declarative specification -/

/-- a walk of length `k` along the columns of `edge_index` -/
inductive TWalk (t : TData) : Nat → Nat → Nat → Prop
  | refl (i : Nat) : TWalk t 0 i i
  | snoc {k i m j : Nat} : TWalk t k i m → (m, j) ∈ t.ei → TWalk t (k + 1) i j

/-- `j` is within `r` steps of the start set -/
def Within (t : TData) (starts : List Nat) (r j : Nat) : Prop :=
  ∃ s ∈ starts, ∃ k, k ≤ r ∧ TWalk t k s j

/-- the pruned sample is the node-induced tensor subgraph (`nodeInduced`: feature rows of the kept
    nodes, the columns with both ends kept renumbered by rank, their edge features) on the
    increasing list of exactly the rows within `r` steps of the start set -/
def PruneSpec (t : TData) (starts : List Nat) (r : Nat) (out : TData) : Prop :=
  ∃ kept : List Nat, kept.Pairwise (· < ·) ∧
    (∀ j, j ∈ kept ↔ j < t.x.length ∧ Within t starts r j) ∧ out = nodeInduced t kept

/-- start rows are within every radius -/
theorem within_start (t : TData) (starts : List Nat) (r s : Nat) (hs : s ∈ starts) : Within t starts r s :=
  ⟨s, hs, 0, Nat.zero_le _, TWalk.refl s⟩

/-! ### list matrices against index functions -/

theorem entry_tabulate (n : Nat) (f : Nat → Nat → Nat) (i j : Nat) (hi : i < n) (hj : j < n) :
    entry (tabulate n f) i j = f i j := by
  simp [entry, tabulate, List.getD_eq_getElem?_getD, List.getElem?_map, List.getElem?_range hi,
    List.getElem?_range hj]

def adjFun (t : TData) (i j : Nat) : Nat := if t.ei.contains (i, j) then 1 else 0

theorem powerSum_entry (t : TData) : ∀ (r i j : Nat), i < t.x.length → j < t.x.length →
    entry (powerSum t.x.length (adjMat t) r).1 i j = pw t.x.length (adjFun t) r i j ∧
    entry (powerSum t.x.length (adjMat t) r).2 i j = powsum t.x.length (adjFun t) r i j := by
  intro r
  induction r with
  | zero =>
    intro i j hi hj
    simp [powerSum, eye, entry_tabulate _ _ i j hi hj, pw, powsum]
  | succ r ih =>
    intro i j hi hj
    have hD : entry (matMul t.x.length (powerSum t.x.length (adjMat t) r).1 (adjMat t)) i j
        = pw t.x.length (adjFun t) (r + 1) i j := by
      simp only [matMul, entry_tabulate _ _ i j hi hj, pw]
      apply sumR_congr
      intro m hm
      rw [(ih i m hi hm).1]
      simp only [adjMat, entry_tabulate _ _ m j hm hj, adjFun]
    refine ⟨hD, ?_⟩
    simp only [powerSum, matAdd, entry_tabulate _ _ i j hi hj, powsum]
    rw [(ih i j hi hj).2, hD]

/-! ### walks on the tensor against walks of the index function -/

theorem twalk_iff_walk (t : TData) (hwf : ∀ p ∈ t.ei, p.1 < t.x.length ∧ p.2 < t.x.length)
    (k i j : Nat) : TWalk t k i j ↔ Walk t.x.length (adjFun t) k i j := by
  constructor
  · intro h
    induction h with
    | refl i => exact Walk.refl i
    | snoc _ he ih =>
      refine Walk.snoc ih (hwf _ he).1 ?_
      simp [adjFun, he]
  · intro h
    induction h with
    | refl i => exact TWalk.refl i
    | snoc _ _ hA ih =>
      refine TWalk.snoc ih ?_
      simp only [adjFun] at hA
      split at hA
      · rename_i hc; simpa using hc
      · omega

theorem mem_reachable (t : TData) (starts : List Nat) (r : Nat)
    (hwf : ∀ p ∈ t.ei, p.1 < t.x.length ∧ p.2 < t.x.length) (hst : ∀ s ∈ starts, s < t.x.length) (j : Nat) :
    j ∈ reachable t starts r ↔ j < t.x.length ∧ Within t starts r j := by
  simp only [reachable, List.mem_filter, List.mem_range, decide_eq_true_eq]
  constructor
  · rintro ⟨hj, hpos⟩
    refine ⟨hj, ?_⟩
    obtain ⟨s, hs, hp⟩ := (C18.sum_map_pos_iff _ _).mp hpos
    rw [(powerSum_entry t r s j (hst s hs) hj).2] at hp
    obtain ⟨k, hk, w⟩ := (powsum_pos_iff_walk _ _ r s j).mp hp
    exact ⟨s, hs, k, hk, (twalk_iff_walk t hwf k s j).mpr w⟩
  · rintro ⟨hj, s, hs, k, hk, w⟩
    refine ⟨hj, (C18.sum_map_pos_iff _ _).mpr ⟨s, hs, ?_⟩⟩
    rw [(powerSum_entry t r s j (hst s hs) hj).2]
    exact (powsum_pos_iff_walk _ _ r s j).mpr ⟨k, hk, (twalk_iff_walk t hwf k s j).mp w⟩

/-- the breadth-first search of the executable specification computes the ball -/
theorem mem_bfs (t : TData) (starts : List Nat)
    (hwf : ∀ p ∈ t.ei, p.1 < t.x.length ∧ p.2 < t.x.length) :
    ∀ (r j : Nat), j ∈ bfs t starts r ↔ j < t.x.length ∧ Within t starts r j := by
  intro r
  induction r with
  | zero =>
    intro j
    simp only [bfs, List.mem_filter, List.mem_range, List.contains_iff_mem]
    constructor
    · rintro ⟨hj, hs⟩
      exact ⟨hj, within_start t starts 0 j hs⟩
    · rintro ⟨hj, s, hs, k, hk, w⟩
      have : k = 0 := by omega
      subst this
      cases w
      exact ⟨hj, hs⟩
  | succ r ih =>
    intro j
    simp only [bfs, List.mem_filter, List.mem_range, Bool.or_eq_true, List.contains_iff_mem,
      List.any_eq_true]
    constructor
    · rintro ⟨hj, h⟩
      refine ⟨hj, ?_⟩
      rcases h with h | ⟨m, hm, he⟩
      · obtain ⟨_, s, hs, k, hk, w⟩ := (ih j).mp h
        exact ⟨s, hs, k, by omega, w⟩
      · obtain ⟨_, s, hs, k, hk, w⟩ := (ih m).mp hm
        exact ⟨s, hs, k + 1, by omega, TWalk.snoc w he⟩
    · rintro ⟨hj, s, hs, k, hk, w⟩
      refine ⟨hj, ?_⟩
      cases w with
      | refl => left; exact (ih j).mpr ⟨hj, within_start t starts r j hs⟩
      | snoc w' he =>
        right
        rename_i k' m
        exact ⟨m, (ih m).mpr ⟨(hwf _ he).1, s, hs, k', by omega, w'⟩, he⟩

theorem sorted_bfs (t : TData) (starts : List Nat) (r : Nat) : (bfs t starts r).Pairwise (· < ·) := by
  cases r <;> exact List.Pairwise.filter _ List.pairwise_lt_range

theorem sorted_reachable (t : TData) (starts : List Nat) (r : Nat) :
    (reachable t starts r).Pairwise (· < ·) :=
  List.Pairwise.filter _ List.pairwise_lt_range

/-! ### the theorems -/

theorem prune_eq (t : TData) (starts : List Nat) (r : Nat) :
    prune t starts r = nodeInduced t (reachable t starts r) := rfl

/-- **C18.prune_exact**: on a well-formed tensor graph and start rows that exist, `prune` keeps
    exactly the rows within `r` steps of the start set — start rows included for every `r ≥ 0`
    (`within_start`) — with the columns and edge features among them. -/
theorem prune_exact (t : TData) (starts : List Nat) (r : Nat) (hwf : t.wf = true)
    (hst : ∀ s ∈ starts, s < t.x.length) : PruneSpec t starts r (prune t starts r) :=
  ⟨reachable t starts r, sorted_reachable t starts r,
    mem_reachable t starts r (wf_unfold hwf).1 hst, prune_eq t starts r⟩

/-- start rows are kept, whatever the radius -/
theorem prune_keeps_starts (t : TData) (starts : List Nat) (r : Nat) (hwf : t.wf = true)
    (hst : ∀ s ∈ starts, s < t.x.length) : ∀ s ∈ starts, s ∈ reachable t starts r :=
  fun s hs => (mem_reachable t starts r (wf_unfold hwf).1 hst s).mpr ⟨hst s hs, within_start t starts r s hs⟩

/-- **soundness of the executable prune check** (applied to implementation outputs) -/
theorem pruneCheck_sound (t : TData) (starts : List Nat) (r : Nat) (out : TData) (hwf : t.wf = true)
    (h : pruneCheck t starts r out = true) : PruneSpec t starts r out :=
  ⟨bfs t starts r, sorted_bfs t starts r, mem_bfs t starts (wf_unfold hwf).1 r, by
    simpa [pruneCheck] using h⟩

theorem reachable_eq_bfs (t : TData) (starts : List Nat) (r : Nat) (hwf : t.wf = true)
    (hst : ∀ s ∈ starts, s < t.x.length) : reachable t starts r = bfs t starts r :=
  sorted_ext _ _ (sorted_reachable t starts r) (sorted_bfs t starts r) (fun j => by
    rw [mem_reachable t starts r (wf_unfold hwf).1 hst, mem_bfs t starts (wf_unfold hwf).1])

/-- the model passes the executable check -/
theorem prune_passes_check (t : TData) (starts : List Nat) (r : Nat) (hwf : t.wf = true)
    (hst : ∀ s ∈ starts, s < t.x.length) : pruneCheck t starts r (prune t starts r) = true := by
  simp [pruneCheck, prune_eq, reachable_eq_bfs t starts r hwf hst]

/-! ### `prune_rc` -/

theorem within_congr (t : TData) (s1 s2 : List Nat) (h : ∀ x, x ∈ s1 ↔ x ∈ s2) (r j : Nat) :
    Within t s1 r j ↔ Within t s2 r j := by
  constructor
  · rintro ⟨s, hs, rest⟩; exact ⟨s, (h s).mp hs, rest⟩
  · rintro ⟨s, hs, rest⟩; exact ⟨s, (h s).mpr hs, rest⟩

theorem mem_rcNodes (t : TData) (hwf : ∀ p ∈ t.ei, p.1 < t.x.length ∧ p.2 < t.x.length) (x : Nat) :
    x ∈ rcNodes t ↔ x ∈ (List.range t.x.length).filter (isRcNode t) := by
  simp only [rcNodes, mem_uniqueSorted, List.mem_map, List.mem_filter, List.mem_range, isRcNode,
    List.any_eq_true, Bool.and_eq_true, beq_iff_eq]
  constructor
  · rintro ⟨c, ⟨hc, hrc⟩, rfl⟩
    exact ⟨(hwf _ (List.of_mem_zip hc).1).1, c, hc, rfl, hrc⟩
  · rintro ⟨_, c, hc, rfl, hrc⟩
    exact ⟨c, ⟨hc, hrc⟩, rfl⟩

/-- **C18.prune_rc_exact**: `prune_rc` keeps exactly the rows within `r` steps of the
    reaction-centre rows (sources of columns whose two bond orders differ) -/
theorem prune_rc_exact (t : TData) (r : Nat) (hwf : t.wf = true) :
    PruneSpec t ((List.range t.x.length).filter (isRcNode t)) r (pruneRc t r) := by
  have hw := (wf_unfold hwf).1
  have hst : ∀ s ∈ rcNodes t, s < t.x.length := by
    intro s hs
    have := (mem_rcNodes t hw s).mp hs
    exact List.mem_range.mp (List.mem_filter.mp this).1
  obtain ⟨kept, h1, h2, h3⟩ := prune_exact t (rcNodes t) r hwf hst
  refine ⟨kept, h1, ?_, h3⟩
  intro j
  rw [h2 j, within_congr t _ _ (mem_rcNodes t hw) r j]

theorem pruneRcCheck_sound (t : TData) (r : Nat) (out : TData) (hwf : t.wf = true)
    (h : pruneRcCheck t r out = true) :
    PruneSpec t ((List.range t.x.length).filter (isRcNode t)) r out :=
  pruneCheck_sound t _ r out hwf h

/-! non-vacuity (tests): a lone start node keeps itself at radius 1; parallel columns count once -/
example : prune ⟨[[6], [7], [8]], [(0, 1), (1, 0), (1, 2), (2, 1)], [[2, 2], [2, 2], [2, 0], [2, 0]]⟩ [0] 1
    = ⟨[[6], [7]], [(0, 1), (1, 0)], [[2, 2], [2, 2]]⟩ := by decide +kernel
example : reachable ⟨[[6], [7], [8]], [(0, 1), (0, 1), (1, 2)], [[2, 2], [2, 2], [2, 0]]⟩ [0] 2 = [0, 1, 2] := by
  decide +kernel
example : pruneRc ⟨[[6], [7], [8]], [(0, 1), (1, 0), (1, 2), (2, 1)], [[2, 2], [2, 2], [2, 0], [2, 0]]⟩ 0
    = ⟨[[7], [8]], [(0, 1), (1, 0)], [[2, 0], [2, 0]]⟩ := by decide +kernel

end C18
