import FGVerif.Model.C04Opt
/-!
  C04 with optional pattern nodes: the executable checkers of `Model/C04Opt.lean` say exactly what the
  declarative statements say (`partialOk_iff`, `requiredOk_iff`), and an answer that passes the full
  checker `C03.isEmbedding` passes both (`partialOk_of_isEmbedding`, `requiredOk_of_isEmbedding_connected`):
  the clauses for optional nodes are a weakening of the clause for `can_map_to_nothing = []`, not a
  different statement.  The concrete answer of the library recorded as known finding K12 fails
  `Required` (`k12_witness`).
-/
namespace C04Opt
open Perm Sub C03

theorem partialOk_iff (m : Mapper) (P H : Graph) (pa a : Int) (M : List (Int × Int)) :
    partialOk m P H pa a M = true ↔ IsPartialEmbeddingPairs m P H pa a M := by
  unfold partialOk
  simp only [Bool.and_eq_true, List.all_eq_true, List.contains_eq_mem,
    decide_eq_true_eq, Bool.or_eq_true, Bool.not_eq_eq_eq_not, Bool.not_true, beq_eq_false_iff_ne,
    beq_iff_eq, ne_eq, decide_eq_false_iff_not]
  constructor
  · rintro ⟨⟨⟨⟨h1, h2⟩, h3⟩, h4⟩, h5⟩
    refine ⟨h1, h2, h3, ?_, ?_, ?_⟩
    · intro x hx y hy hxy
      rcases (h4 x hx y hy).1 with h | h
      · exact absurd hxy h
      · exact h
    · intro x hx y hy hxy
      rcases (h4 x hx y hy).2 with h | h
      · exact absurd hxy h
      · exact h
    · intro x hx y hy hq
      rcases h5 x hx y hy with h | h
      · exact absurd hq h
      · exact h
  · intro h
    refine ⟨⟨⟨⟨h.anchor, h.nodes⟩, h.admitted⟩, ?_⟩, ?_⟩
    · intro x hx y hy
      constructor
      · by_cases hxy : x.2 = y.2
        · exact Or.inr (h.functional x hx y hy hxy)
        · exact Or.inl hxy
      · by_cases hxy : x.1 = y.1
        · exact Or.inr (h.injective x hx y hy hxy)
        · exact Or.inl hxy
    · intro x hx y hy
      by_cases hq : y.2 ∈ P.neighbors x.2
      · exact Or.inr (h.bond x hx y hy hq)
      · exact Or.inl hq

theorem requiredOk_iff (m : Mapper) (P : Graph) (M : List (Int × Int)) :
    requiredOk m P M = true ↔ Required m P M := by
  unfold requiredOk Required
  simp only [List.all_eq_true, Bool.or_eq_true, List.any_eq_true, beq_iff_eq]
  constructor
  · intro h q hq hno
    rcases h q hq with ⟨x, hx, hxq⟩ | ho
    · exact absurd hxq (hno x hx)
    · exact ho
  · intro h q hq
    by_cases hex : ∃ x ∈ M, x.2 = q
    · exact Or.inl hex
    · refine Or.inr (h q hq ?_)
      intro x hx hxq
      exact hex ⟨x, hx, hxq⟩

/-- the clause for optional nodes is a weakening of the full clause: a full embedding passes it -/
theorem partial_of_embeddingPairs {m : Mapper} {P H : Graph} {pa a : Int} {M : List (Int × Int)}
    (h : IsEmbeddingPairs m P H pa a M) : IsPartialEmbeddingPairs m P H pa a M := by
  refine ⟨h.anchor, h.nodes, h.admitted, h.functional, h.injective, ?_⟩
  intro x hx y hy hq
  obtain ⟨z, hz, hz2, hz3, hz4⟩ := h.bond x hx y.2 hq
  have : z.1 = y.1 := h.functional z hz y hy hz2
  rw [this] at hz3 hz4
  exact ⟨hz3, hz4⟩

theorem partialOk_of_isEmbedding (m : Mapper) (P H : Graph) (pa a : Int) (M : List (Int × Int))
    (h : isEmbedding m P H pa a M = true) : partialOk m P H pa a M = true :=
  (partialOk_iff m P H pa a M).mpr (partial_of_embeddingPairs ((isEmbedding_iff m P H pa a M).mp h))

/-- test (non-vacuity): the library's own example `C(H)=O` on `C=O` with `H` optional, answer
    `[(0,0),(1,2)]`: a partial embedding with every required node mapped -/
def gCO : Graph := { nodes := [(0, {symbol := some "C"}), (1, {symbol := some "O"})],
                     adj := [(0, [(1, [(0, .s 4)])]), (1, [(0, [(0, .s 4)])])] }
def pCHO : Graph := { nodes := [(0, {symbol := some "C"}), (1, {symbol := some "H"}), (2, {symbol := some "O"})],
                      adj := [(0, [(1, [(0, .s 2)]), (2, [(0, .s 4)])]), (1, [(0, [(0, .s 2)])]), (2, [(0, [(0, .s 4)])])] }
def mH : Mapper := { canMapToNothing := ["H"] }

example : partialOk mH pCHO gCO 2 1 [(1, 2), (0, 0)] = true ∧ requiredOk mH pCHO [(1, 2), (0, 0)] = true := by decide

/-- the answer recorded as known finding K12: pattern chain `C–H–O` (H optional) on the one-atom host
    `C`, answer `(True, [(0,0)])` — the pairs are a partial embedding, but the required node `O` has no
    partner -/
def gC : Graph := { nodes := [(0, {symbol := some "C"})], adj := [(0, [])] }
def pChainCHO : Graph := { nodes := [(0, {symbol := some "C"}), (1, {symbol := some "H"}), (2, {symbol := some "O"})],
                           adj := [(0, [(1, [(0, .s 2)])]), (1, [(0, [(0, .s 2)]), (2, [(0, .s 2)])]), (2, [(1, [(0, .s 2)])])] }

theorem k12_witness :
    (mapAnchored gC 0 pChainCHO 0 mH).ok = true ∧ (mapAnchored gC 0 pChainCHO 0 mH).mapping = [(0, 0)] ∧
    partialOk mH pChainCHO gC 0 0 [(0, 0)] = true ∧ ¬ Required mH pChainCHO [(0, 0)] := by
  refine ⟨by decide, by decide, by decide, ?_⟩
  rw [← requiredOk_iff]
  decide

end C04Opt
