import FGVerif.Proofs.C15RcTables
/-!
  C15 reaction centre: table obligations of `DielsAlderProxy(neg_sample=False)`, closed by kernel evaluation
  (`decide +kernel`, no `native_decide`).  Only the configuration tables and the first `daDepth` substitution
  levels of the two core graphs are evaluated (1 + 1 + 7 + 84 graphs), not the 10 470 samples.
-/
namespace C15
open C13 C14

/-- every pattern of the configuration is listed in the parsed table -/
theorem da_pos_listed :
    ((Gen.Parsed.daPosC.all fun g => g.2.2.all fun r => Gen.Parsed.proxyPatternsC.any (·.1 == r.1)) &&
      Gen.Parsed.daPosCoresC.all fun r => Gen.Parsed.proxyPatternsC.any (·.1 == r.1)) = true := by decide +kernel

/-- the safe groups (all but `diene`, `s-cis_diene`, `s-trans_diene`, `dienophile`): no changing bond, closed -/
theorem da_pos_safe : safeCfgB daCfgPos (safeSet daCfgPos) = true := by decide +kernel

/-- the hypotheses of the C14 theorems -/
theorem da_pos_hyp : daCoresPos.all (hypothesesOk daCfgPos) = true := by decide +kernel

/-- both core graphs have a complete Diels-Alder centre after at most three substitutions, on every branch -/
theorem da_pos_front : daCoresPos.all (frontierB daCfgPos (safeSet daCfgPos) daDepth) = true := by decide +kernel

/-- the core graphs are closed -/
theorem da_pos_closed : daCoresPos.all closedB = true := by decide +kernel

/-- the counting formula of C14 (proved equal to the number of samples: `C14.total`) on this configuration -/
theorem da_pos_total : totalExp daCfgPos daCoresPos = 10470 := by decide +kernel

end C15
