import FGVerif.Proofs.C17Basic
/-!
  C17 — the anchor relabelling `nmap` of `node_induced_connected_subgraphs` is a bijection
  between the node ids and `0 … n-1` that sends the anchor to 0, and the specification is
  transported along such a bijection.
-/
namespace C17

/-! ### `nmap` is the position in `anchor :: (other nodes in node order)` -/

theorem buildNmap_fold (anchor : Nat) : ∀ (nodes L : List Nat),
    nodes.foldl (fun m x => if x == anchor then m else m ++ [(x, m.length)]) L.zipIdx =
      (L ++ nodes.filter (· != anchor)).zipIdx := by
  intro nodes
  induction nodes with
  | nil => intro L; simp
  | cons x xs ih =>
    intro L
    simp only [List.foldl_cons, List.filter_cons]
    by_cases hx : x = anchor
    · have h1 : (x == anchor) = true := by simpa using hx
      have h2 : (x != anchor) = false := by simpa using hx
      simp only [h1, h2, if_true, Bool.false_eq_true, if_false]
      exact ih L
    · have h1 : (x == anchor) = false := by simpa using hx
      have h2 : (x != anchor) = true := by simpa using hx
      simp only [h1, h2, Bool.false_eq_true, if_false, if_true]
      have : L.zipIdx ++ [(x, L.zipIdx.length)] = (L ++ [x]).zipIdx := by
        rw [List.zipIdx_append]; simp
      rw [this, ih (L ++ [x])]
      simp

theorem buildNmap_eq (nodes : List Nat) (anchor : Nat) :
    buildNmap nodes anchor = (anchor :: nodes.filter (· != anchor)).zipIdx := by
  have := buildNmap_fold anchor nodes [anchor]
  simpa [buildNmap] using this

theorem find_snd_zipIdx : ∀ (L : List Nat) (k j : Nat), k ≤ j → j < k + L.length →
    ∃ x, (L.zipIdx k).find? (·.2 == j) = some (x, j) ∧ L[j - k]? = some x := by
  intro L
  induction L with
  | nil => intro k j h1 h2; simp at h2; omega
  | cons a L' ih =>
    intro k j h1 h2
    simp only [List.zipIdx_cons, List.find?_cons]
    by_cases hkj : k = j
    · subst hkj; exact ⟨a, by simp, by simp⟩
    · have : (k == j) = false := by simpa using hkj
      simp only [this]
      obtain ⟨x, hx1, hx2⟩ := ih (k + 1) j (by omega) (by simp at h2; omega)
      refine ⟨x, hx1, ?_⟩
      have : j - k = (j - (k + 1)) + 1 := by omega
      rw [this, List.getElem?_cons_succ]; exact hx2

theorem find_fst_zipIdx : ∀ (L : List Nat) (k x : Nat), x ∈ L →
    ∃ i, (L.zipIdx k).find? (·.1 == x) = some (x, i) ∧ k ≤ i ∧ i < k + L.length ∧ L[i - k]? = some x := by
  intro L
  induction L with
  | nil => intro k x h; simp at h
  | cons a L' ih =>
    intro k x hx
    simp only [List.zipIdx_cons, List.find?_cons]
    by_cases hax : a = x
    · subst hax; exact ⟨k, by simp, Nat.le_refl _, by simp, by simp⟩
    · have : (a == x) = false := by simpa using hax
      simp only [this]
      have hx' : x ∈ L' := by
        rcases List.mem_cons.mp hx with e | e
        · exact absurd e.symm hax
        · exact e
      obtain ⟨i, h1, h2, h3, h4⟩ := ih (k + 1) x hx'
      refine ⟨i, h1, by omega, by simp; omega, ?_⟩
      have : i - k = (i - (k + 1)) + 1 := by omega
      rw [this, List.getElem?_cons_succ]; exact h4

/-- `nmap_inv ∘ nmap = id` on the nodes, `nmap ∘ nmap_inv = id` on `0 … n-1`, anchor ↦ 0 -/
structure NmapBij (nodes : List Nat) (anchor : Nat) : Prop where
  anchor0 : nmapInv (buildNmap nodes anchor) 0 = anchor
  left : ∀ k, k < nodes.length →
    nmapGet (buildNmap nodes anchor) (nmapInv (buildNmap nodes anchor) k) = k ∧
      nmapInv (buildNmap nodes anchor) k ∈ nodes
  right : ∀ x ∈ nodes,
    nmapInv (buildNmap nodes anchor) (nmapGet (buildNmap nodes anchor) x) = x ∧
      nmapGet (buildNmap nodes anchor) x < nodes.length

theorem nmap_bij (nodes : List Nat) (anchor : Nat) (hnd : nodes.Nodup) (ha : anchor ∈ nodes) :
    NmapBij nodes anchor := by
  let L := anchor :: nodes.filter (· != anchor)
  have hm : buildNmap nodes anchor = L.zipIdx := buildNmap_eq nodes anchor
  have hLnd : L.Nodup := by
    simp only [L]
    rw [List.nodup_cons]
    exact ⟨by simp [List.mem_filter], hnd.filter _⟩
  have hLmem : ∀ x, x ∈ L ↔ x ∈ nodes := by
    intro x
    simp only [L, List.mem_cons, List.mem_filter, bne_iff_ne, ne_eq]
    constructor
    · rintro (e | e)
      · subst e; exact ha
      · exact e.1
    · intro hx
      by_cases e : x = anchor
      · left; exact e
      · right; exact ⟨hx, e⟩
  have hLlen : L.length = nodes.length := by
    apply Nat.le_antisymm
    · exact List.Nodup.length_le_of_subset hLnd (fun x hx => (hLmem x).1 hx)
    · exact List.Nodup.length_le_of_subset hnd (fun x hx => (hLmem x).2 hx)
  have hinv : ∀ k, k < L.length → ∃ x, nmapInv (buildNmap nodes anchor) k = x ∧ L[k]? = some x := by
    intro k hk
    obtain ⟨x, h1, h2⟩ := find_snd_zipIdx L 0 k (Nat.zero_le _) (by omega)
    refine ⟨x, ?_, by simpa using h2⟩
    rw [hm]; simp only [nmapInv]; rw [h1]
  have hget : ∀ x, x ∈ L → ∃ i, nmapGet (buildNmap nodes anchor) x = i ∧ i < L.length ∧ L[i]? = some x := by
    intro x hx
    obtain ⟨i, h1, _, h3, h4⟩ := find_fst_zipIdx L 0 x hx
    refine ⟨i, ?_, by omega, by simpa using h4⟩
    rw [hm]; simp only [nmapGet]; rw [h1]
  refine ⟨?_, ?_, ?_⟩
  · obtain ⟨x, h1, h2⟩ := hinv 0 (by simp [L])
    rw [h1]
    simp [L] at h2
    exact h2.symm
  · intro k hk
    obtain ⟨x, h1, h2⟩ := hinv k (by omega)
    have hxL : x ∈ L := List.mem_of_getElem? h2
    obtain ⟨i, h3, h4, h5⟩ := hget x hxL
    rw [h1, h3]
    refine ⟨?_, (hLmem x).1 hxL⟩
    have := (List.getElem?_inj (i := k) (j := i) (by omega) hLnd).1 (by rw [h2, h5])
    exact this.symm
  · intro x hx
    obtain ⟨i, h3, h4, h5⟩ := hget x ((hLmem x).2 hx)
    obtain ⟨x', h1, h2⟩ := hinv i h4
    rw [h3, h1]
    refine ⟨?_, by omega⟩
    rw [h5] at h2; cases h2; rfl

/-! ### the specification does not depend on the neighbour ORDER nor on names -/

theorem Spec.congr_nb {verts nb nb' a out} (h : Spec verts nb a out)
    (hnb : ∀ x ∈ verts, ∀ y, y ∈ nb x ↔ y ∈ nb' x) : Spec verts nb' a out := by
  refine ⟨h.nodup, h.inVerts, ?_, h.distinct, ?_⟩
  · intro U hU
    obtain ⟨h1, h2⟩ := h.connected U hU
    refine ⟨h1, fun v hv => ?_⟩
    obtain ⟨k, hk⟩ := h2 v hv
    exact ⟨k, hk.congr_nb fun x y hx hy => (hnb x (h.inVerts U hU x hx) y).1 hy⟩
  · intro S hS hc
    apply h.complete S hS
    refine ⟨hc.1, fun v hv => ?_⟩
    obtain ⟨k, hk⟩ := hc.2 v hv
    exact ⟨k, hk.congr_nb fun x y hx hy => (hnb x (hS x hx) y).2 hy⟩

/-- transport of the specification along a bijection `π : {0…n-1} → L` with inverse `σ` -/
theorem Spec.transport (n : Nat) (nb : Nat → List Nat) (out : List (List Nat)) (L : List Nat)
    (π σ : Nat → Nat) (hpos : 0 < n)
    (h1 : ∀ k, k < n → σ (π k) = k ∧ π k ∈ L) (h2 : ∀ x ∈ L, π (σ x) = x ∧ σ x < n)
    (hnb : ∀ k, k < n → ∀ j ∈ nb k, j < n)
    (nb' : Nat → List Nat) (hnb' : ∀ x ∈ L, ∀ y, y ∈ nb' x ↔ y ∈ (nb (σ x)).map π)
    (hs : Spec (List.range n) nb 0 out) : Spec L nb' (π 0) (out.map fun U => U.map π) := by
  have hlt : ∀ U ∈ out, ∀ u ∈ U, u < n := fun U hU u hu => List.mem_range.mp (hs.inVerts U hU u hu)
  have hinj : ∀ a b, a < n → b < n → π a = π b → a = b := by
    intro a b ha hb hab
    have := congrArg σ hab
    rw [(h1 a ha).1, (h1 b hb).1] at this
    exact this
  -- walks go forth …
  have hforth : ∀ (U : List Nat), (∀ u ∈ U, u < n) → ∀ v k, Walk nb U 0 v k →
      Walk nb' (U.map π) (π 0) (π v) k := by
    intro U hU v k hw
    induction hw with
    | refl h => exact .refl (List.mem_map_of_mem h)
    | @step v w k hw hadj hwU ih =>
      have hv : v < n := hU v hw.end_mem
      refine .step ih ?_ (List.mem_map_of_mem hwU)
      rw [hnb' (π v) (h1 v hv).2, (h1 v hv).1]
      exact List.mem_map_of_mem hadj
  -- … and back
  have hback : ∀ (S : List Nat), (∀ s ∈ S, s ∈ L) → ∀ y k, Walk nb' S (π 0) y k →
      Walk nb (S.map σ) 0 (σ y) k := by
    intro S hS y k hw
    induction hw with
    | refl h =>
      have := List.mem_map_of_mem (f := σ) h
      rw [(h1 0 hpos).1] at this ⊢
      exact .refl this
    | @step y y' k hw hadj hy'S ih =>
      have hyL : y ∈ L := hS y hw.end_mem
      refine .step ih ?_ (List.mem_map_of_mem hy'S)
      rw [hnb' y hyL, List.mem_map] at hadj
      obtain ⟨j, hj, rfl⟩ := hadj
      have hjn : j < n := hnb (σ y) (h2 y hyL).2 j hj
      rw [(h1 j hjn).1]; exact hj
  refine ⟨?_, ?_, ?_, ?_, ?_⟩
  · intro U' hU'
    obtain ⟨U, hU, rfl⟩ := List.mem_map.mp hU'
    rw [List.Nodup, List.pairwise_map]
    exact (hs.nodup U hU).imp_of_mem fun {a b} ha hb hne e =>
      hne (hinj a b (hlt U hU a ha) (hlt U hU b hb) e)
  · intro U' hU' u' hu'
    obtain ⟨U, hU, rfl⟩ := List.mem_map.mp hU'
    obtain ⟨u, hu, rfl⟩ := List.mem_map.mp hu'
    exact (h1 u (hlt U hU u hu)).2
  · intro U' hU'
    obtain ⟨U, hU, rfl⟩ := List.mem_map.mp hU'
    obtain ⟨hc1, hc2⟩ := hs.connected U hU
    refine ⟨List.mem_map_of_mem hc1, fun v' hv' => ?_⟩
    obtain ⟨v, hv, rfl⟩ := List.mem_map.mp hv'
    obtain ⟨k, hk⟩ := hc2 v hv
    exact ⟨k, hforth U (hlt U hU) v k hk⟩
  · rw [List.pairwise_map]
    apply hs.distinct.imp_of_mem
    intro U V hU hV hne hsame
    apply hne
    intro x
    constructor
    · intro hx
      have := (hsame (π x)).1 (List.mem_map_of_mem hx)
      obtain ⟨y, hy, hxy⟩ := List.mem_map.mp this
      have := hinj y x (hlt V hV y hy) (hlt U hU x hx) hxy
      exact this ▸ hy
    · intro hx
      have := (hsame (π x)).2 (List.mem_map_of_mem hx)
      obtain ⟨y, hy, hxy⟩ := List.mem_map.mp this
      have := hinj y x (hlt U hU y hy) (hlt V hV x hx) hxy
      exact this ▸ hy
  · intro S hS hc
    have hSσ : ∀ s ∈ S.map σ, s ∈ List.range n := by
      intro s hs'
      obtain ⟨y, hy, rfl⟩ := List.mem_map.mp hs'
      exact List.mem_range.mpr (h2 y (hS y hy)).2
    have hconn : ConnectedFrom nb 0 (S.map σ) := by
      refine ⟨?_, ?_⟩
      · have := List.mem_map_of_mem (f := σ) hc.1
        rw [(h1 0 hpos).1] at this; exact this
      · intro s hs'
        obtain ⟨y, hy, rfl⟩ := List.mem_map.mp hs'
        obtain ⟨k, hk⟩ := hc.2 y hy
        exact ⟨k, hback S hS y k hk⟩
    obtain ⟨U, hU, hUS⟩ := hs.complete (S.map σ) hSσ hconn
    refine ⟨U.map π, List.mem_map_of_mem hU, ?_⟩
    intro x
    constructor
    · intro hx
      obtain ⟨u, hu, rfl⟩ := List.mem_map.mp hx
      obtain ⟨y, hy, hyu⟩ := List.mem_map.mp ((hUS u).1 hu)
      rw [← hyu, (h2 y (hS y hy)).1]; exact hy
    · intro hx
      have : σ x ∈ U := (hUS (σ x)).2 (List.mem_map_of_mem hx)
      have := List.mem_map_of_mem (f := π) this
      rw [(h2 x (hS x hx)).1] at this; exact this

/-! ### what the driver's consistency check means -/

theorem relabelConsistent_spec (orig : List (Nat × List Nat)) (anchor : Nat) (adj : List (List Nat))
    (h : relabelConsistent orig anchor adj = true) :
    (orig.map (·.1)).Nodup ∧ anchor ∈ orig.map (·.1) ∧ adj.length = orig.length ∧
    ∀ x ∈ orig.map (·.1), ∀ y, y ∈ nbOrig orig x ↔
      y ∈ (nbrs adj (nmapGet (buildNmap (orig.map (·.1)) anchor) x)).map
        (nmapInv (buildNmap (orig.map (·.1)) anchor)) := by
  simp only [relabelConsistent, Bool.and_eq_true, decide_eq_true_eq, List.contains_eq_mem,
    beq_iff_eq, List.all_eq_true] at h
  obtain ⟨⟨⟨hnd, ha⟩, hlen⟩, hrows⟩ := h
  refine ⟨hnd, ha, hlen, ?_⟩
  intro x hx y
  -- the row `nbOrig` looks up
  have hsome : ∃ r, orig.find? (·.1 == x) = some r := by
    cases hf : orig.find? (·.1 == x) with
    | some r => exact ⟨r, rfl⟩
    | none =>
      rw [List.find?_eq_none] at hf
      obtain ⟨r, hr, hrx⟩ := List.mem_map.mp hx
      exact absurd (by simpa using hrx) (hf r hr)
  obtain ⟨r, hr⟩ := hsome
  have hrmem : r ∈ orig := List.mem_of_find?_eq_some hr
  have hrx : r.1 = x := by simpa using List.find?_some hr
  have hnbo : nbOrig orig x = r.2 := by simp [nbOrig, hr]
  obtain ⟨hfw, hbw⟩ := hrows r hrmem
  rw [hnbo, hrx] at *
  constructor
  · intro hy
    obtain ⟨h1, h2⟩ := hfw y hy
    rw [List.mem_map]
    exact ⟨_, h1, h2⟩
  · intro hy
    obtain ⟨j, hj, rfl⟩ := List.mem_map.mp hy
    exact hbw j hj

end C17
