import FGVerif.Proofs.GenParsedBase
import FGVerif.Generated.C14
import FGVerif.Generated.Parsed
/-!
  GenParsed, C14 part (common table): pattern strings, group references and anchors of the generated proxy
  table against the parser model.  See Proofs/GenParsedBase.lean for the definitions and the method.
-/
namespace GenParsed
open C01 (Str)

set_option synthInstance.maxSize 1024 in
theorem common_chars : Gen.C14.common = Gen.Parsed.commonC.map GroupRowC.toS := by decide +kernel

theorem common_fast : TableFromC Gen.Parsed.commonC [] := by decide +kernel

/-- the same for `common_groups` -/
theorem common_refs_parsed : TableFrom Gen.C14.common [] := by
  rw [common_chars]; exact common_fast.sound

end GenParsed
