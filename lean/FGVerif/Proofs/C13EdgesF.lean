import FGVerif.Proofs.C13EdgesE
/-!
  C13 (edge level), part F: the concrete renumbering of `relabel_graph` on ids `0..N-1` minus `x`.
-/
set_option linter.unusedSimpArgs false
namespace C13.E
open Graph

/-- `0, 1, …, N-1` as integers -/
def upto (N : Nat) : List Int := (List.range N).map Int.ofNat

theorem mem_upto {N : Nat} {a : Int} : a ∈ upto N ↔ 0 ≤ a ∧ a < N := by
  simp only [upto, List.mem_map, List.mem_range, Int.ofNat_eq_natCast]
  constructor
  · rintro ⟨i, hi, rfl⟩; omega
  · intro h; exact ⟨a.toNat, by omega, by omega⟩

theorem upto_succ (N : Nat) : upto (N + 1) = upto N ++ [(N : Int)] := by
  simp [upto, List.range_succ]

theorem upto_add (n m : Nat) : upto (n + m) = upto n ++ (upto m).map (· + (n : Int)) := by
  simp only [upto, List.range_add, List.map_append, List.map_map]
  congr 1
  apply List.map_congr_left
  intro i _
  simp only [Function.comp, Int.ofNat_eq_natCast]; omega

theorem upto_pairwise (N : Nat) : (upto N).Pairwise (· < ·) := by
  unfold upto
  rw [List.pairwise_map]
  exact List.pairwise_lt_range.imp (fun h => by simp only [Int.ofNat_eq_natCast]; omega)

theorem upto_nodup (N : Nat) : (upto N).Nodup :=
  (upto_pairwise N).imp (fun h => by omega)

theorem filter_upto_ge (N : Nat) (x : Int) (h : (N : Int) ≤ x) : (upto N).filter (· != x) = upto N := by
  apply List.filter_eq_self.mpr
  intro a ha
  have := (mem_upto.mp ha).2
  simp only [bne_iff_ne, ne_eq]; omega

theorem unren_inj (x a b : Int) (h : unren x a = unren x b) : a = b := by
  unfold unren at h; split at h <;> split at h <;> omega

/-- the ids `0..N-1` without `x`, in order, are `unren x 0, …, unren x (N-2)` -/
theorem filter_upto_lt (N : Nat) (x : Int) (h0 : 0 ≤ x) (h : x < N) :
    (upto N).filter (· != x) = (List.range (N - 1)).map fun (i : Nat) => unren x (i : Int) := by
  induction N with
  | zero => omega
  | succ K ih =>
    rw [upto_succ, List.filter_append]
    by_cases hx : x < K
    · rw [ih hx]
      have hK : K - 1 + 1 = K := by omega
      have e : K + 1 - 1 = K - 1 + 1 := by omega
      rw [e, List.range_succ, List.map_append]
      congr 1
      have hne : ((K : Int) != x) = true := by simp only [bne_iff_ne, ne_eq]; omega
      simp only [List.filter_cons, hne, if_true, List.filter_nil, List.map_cons, List.map_nil]
      congr 1
      unfold unren
      have : ¬ (((K - 1 : Nat) : Int) < x) := by omega
      simp only [this, if_false]; omega
    · have hxK : x = K := by omega
      rw [filter_upto_ge K x (by omega)]
      have hne : ((K : Int) != x) = false := by simp [hxK]
      simp only [List.filter_cons, hne, List.filter_nil, List.append_nil, Bool.false_eq_true, if_false]
      have e : K + 1 - 1 = K := by omega
      rw [e]
      unfold upto
      apply List.map_congr_left
      intro i hi
      have := List.mem_range.mp hi
      unfold unren
      have : ((i : Int) < x) := by omega
      simp [this]

end C13.E

namespace C13

/-! ### `sorted` is a sorted permutation -/

theorem insertAsc_perm (x : Int) (l : List Int) : (insertAsc x l).Perm (x :: l) := by
  induction l with
  | nil => exact List.Perm.refl _
  | cons y ys ih =>
    unfold insertAsc
    split
    · exact List.Perm.refl _
    · exact (List.Perm.cons y ih).trans (List.Perm.swap x y ys)

theorem sortAsc_perm (l : List Int) : (sortAsc l).Perm l := by
  induction l with
  | nil => exact List.Perm.refl _
  | cons x l ih => exact (insertAsc_perm x (sortAsc l)).trans (List.Perm.cons x ih)

theorem insertAsc_sorted (x : Int) (l : List Int) (h : l.Pairwise (· ≤ ·)) : (insertAsc x l).Pairwise (· ≤ ·) := by
  induction l with
  | nil => simp [insertAsc]
  | cons y ys ih =>
    rw [List.pairwise_cons] at h
    unfold insertAsc
    split
    · rename_i hxy
      rw [List.pairwise_cons]
      refine ⟨?_, List.pairwise_cons.mpr h⟩
      intro z hz
      rcases List.mem_cons.mp hz with rfl | hz
      · exact hxy
      · exact Int.le_trans hxy (h.1 z hz)
    · rename_i hxy
      rw [List.pairwise_cons]
      refine ⟨?_, ih h.2⟩
      intro z hz
      rcases List.mem_cons.mp ((insertAsc_perm x ys).mem_iff.mp hz) with rfl | hz
      · omega
      · exact h.1 z hz

theorem sortAsc_sortedLE (l : List Int) : (sortAsc l).Pairwise (· ≤ ·) := by
  induction l with
  | nil => simp [sortAsc]
  | cons x l ih => exact insertAsc_sorted x _ ih

end C13

namespace C13.E
open Graph

/-! ### `sorted` of an ascending list -/

theorem insertAsc_le (x : Int) (l : List Int) (h : ∀ y ∈ l, x ≤ y) : insertAsc x l = x :: l := by
  cases l with
  | nil => rfl
  | cons y ys => simp [insertAsc, h y List.mem_cons_self]

theorem sortAsc_cons (x : Int) (l : List Int) : sortAsc (x :: l) = insertAsc x (sortAsc l) := rfl

theorem sortAsc_sorted (l : List Int) (h : l.Pairwise (· ≤ ·)) : sortAsc l = l := by
  induction l with
  | nil => rfl
  | cons x xs ih =>
    rw [List.pairwise_cons] at h
    rw [sortAsc_cons, ih h.2, insertAsc_le x xs h.1]

/-! ### `mapping[u] = i + offset for i, u in enumerate(…)` -/

theorem mapId_cons (p : Int × Int) (m : List (Int × Int)) (u : Int) :
    mapId (p :: m) u = if p.1 = u then p.2 else mapId m u := by
  by_cases h : p.1 = u <;> simp [mapId, List.find?_cons, h]

theorem mapId_zipIdx (L : List Int) (off : Int) (hn : L.Nodup) (s i : Nat) (hi : i < L.length) :
    mapId ((L.zipIdx s).map fun p => (p.1, (p.2 : Int) + off)) L[i] = ((s + i : Nat) : Int) + off := by
  induction L generalizing s i with
  | nil => simp at hi
  | cons y ys ih =>
    rw [List.nodup_cons] at hn
    rw [List.zipIdx_cons, List.map_cons, mapId_cons]
    cases i with
    | zero => simp
    | succ j =>
      have hj : j < ys.length := by simpa using hi
      simp only [List.getElem_cons_succ]
      have hne : ¬ (y = ys[j]) := fun e => hn.1 (e ▸ List.getElem_mem hj)
      rw [if_neg hne, ih hn.2 (s + 1) j hj]
      have : s + 1 + j = s + (j + 1) := by omega
      rw [this]

/-- on a graph whose ids are `0..N-1` without `x` — in any node order — `relabel_graph(·, 0)` renames
    by `ren x`, which `unren x` inverts -/
theorem relabel_inverts {g : Graph} {N : Nat} {x : Int} (h0 : 0 ≤ x) (hx : x < N)
    (hids : g.nodeIds.Perm ((upto N).filter (· != x))) :
    Inverts g (mapId (relabelMapping g 0)) (unren x) := by
  have hLs : ((upto N).filter (· != x)).Pairwise (· ≤ ·) :=
    ((upto_pairwise N).imp (fun h => by omega)).sublist List.filter_sublist
  have hsorted : sortAsc g.nodeIds = (upto N).filter (· != x) :=
    List.Perm.eq_of_pairwise (le := (· ≤ ·)) (fun a b _ _ h1 h2 => by omega)
      (C13.sortAsc_sortedLE _) hLs ((C13.sortAsc_perm _).trans hids)
  have hL := filter_upto_lt N x h0 hx
  have hnd : ((upto N).filter (· != x)).Nodup := (upto_nodup N).sublist List.filter_sublist
  intro u hu c
  unfold relabelMapping
  rw [hsorted]
  obtain ⟨i, hi, rfl⟩ := List.getElem_of_mem (hids.mem_iff.mp hu)
  rw [mapId_zipIdx _ 0 hnd 0 i hi]
  have hval : ((upto N).filter (· != x))[i] = unren x (i : Int) := by
    have : (upto N).filter (· != x) = (List.range (N - 1)).map fun (i : Nat) => unren x (i : Int) := hL
    simp [this]
  rw [hval]
  constructor
  · intro e; rw [← e]; simp
  · intro e; have := unren_inj _ _ _ e; rw [← this]; simp

end C13.E
