import FGVerif.Proofs.C13Nodes
import FGVerif.Proofs.C13EdgesH
/-!
  C13 — the offset of the inserted sub-pattern: `idx_offset = max(graph.nodes, default=-1) + 1` (`nextId`).

  `replace_node` numbered the inserted sub-pattern from `len(graph.nodes)`; that is an id in use as soon as
  the parent's ids are not `0..n-1` (`C13.len_offset_collides`).  The repaired function (`replaceNode`) uses the
  first id above every parent id.  This file ties the two together:

  * `C13.nextId_gt`, `C13.nextId_le`      `nextId g` is above every id and is the least such number (`0` for no ids)
  * `C13.offset_eq_of_perm`, `C13.offset_eq_of_inDomainAny`
                                         on parents whose ids are a permutation of `0..n-1`: `maxId + 1 = n`
  * `C13.replaceNode_eq_len`             … so `replaceNode = replaceNodeLen` there (the bridge through which the
                                         theorems developed for `len(graph.nodes)` hold for the repaired model)
  * `C13.replaceNode_closed`, `C13.replaceNode_multi` (unconditional), `C13.replaceNode_nodes`,
    `C13.replaceNode_contiguous`, `C13.replaceNode_nodes_zip` (ordered parents): the node-level lemmas for the
    repaired model (used by C14)
-/
namespace C13
open Graph

/-! ### `max(graph.nodes, default=-1) + 1` -/

theorem foldl_max_spec (l : List Int) : ∀ (a : Int),
    a ≤ l.foldl max a ∧ (∀ y ∈ l, y ≤ l.foldl max a) ∧ (l.foldl max a = a ∨ l.foldl max a ∈ l) := by
  induction l with
  | nil => intro a; simp
  | cons y ys ih =>
    intro a
    simp only [List.foldl_cons]
    obtain ⟨h1, h2, h3⟩ := ih (max a y)
    refine ⟨by omega, ?_, ?_⟩
    · intro z hz
      rcases List.mem_cons.mp hz with rfl | hz
      · omega
      · exact h2 z hz
    · rcases h3 with h3 | h3
      · by_cases hay : a ≤ y
        · right; rw [h3]; simp [Int.max_eq_right hay]
        · left; rw [h3]; omega
      · right; exact List.mem_cons_of_mem _ h3

/-- every id of the graph is below `nextId` -/
theorem nextId_gt (g : Graph) : ∀ a ∈ g.nodeIds, a < nextId g := by
  intro a ha
  unfold nextId
  cases hl : g.nodeIds with
  | nil => rw [hl] at ha; simp at ha
  | cons y ys =>
    rw [hl] at ha
    obtain ⟨h1, h2, _⟩ := foldl_max_spec ys y
    simp only
    rcases List.mem_cons.mp ha with rfl | ha
    · omega
    · have := h2 a ha; omega

/-- the largest id + 1 (non-empty graph) -/
theorem nextId_mem (g : Graph) (hne : g.nodeIds ≠ []) : nextId g - 1 ∈ g.nodeIds := by
  unfold nextId
  cases hl : g.nodeIds with
  | nil => exact absurd hl hne
  | cons y ys =>
    simp only
    have e : ys.foldl max y + 1 - 1 = ys.foldl max y := by omega
    rw [e]
    rcases (foldl_max_spec ys y).2.2 with h | h
    · rw [h]; exact List.mem_cons_self
    · exact List.mem_cons_of_mem _ h

theorem nextId_nil (g : Graph) (h : g.nodeIds = []) : nextId g = 0 := by
  unfold nextId; rw [h]

/-- `nextId` is the least number above every id (non-empty graph) -/
theorem nextId_le (g : Graph) (k : Int) (hne : g.nodeIds ≠ []) (h : ∀ a ∈ g.nodeIds, a < k) : nextId g ≤ k := by
  have := h _ (nextId_mem g hne); omega

/-- on ids `0..n-1` (any order): `max + 1 = n` -/
theorem offset_eq_of_perm (g : Graph) (h : g.nodeIds.Perm (E.upto g.nodes.length)) :
    nextId g = (g.nodes.length : Int) := by
  have hmem : ∀ a, a ∈ g.nodeIds ↔ 0 ≤ a ∧ a < (g.nodes.length : Int) := fun a => h.mem_iff.trans E.mem_upto
  by_cases hn : g.nodes.length = 0
  · have : g.nodeIds = [] := by
      have := h.length_eq
      rw [hn] at this
      exact List.eq_nil_of_length_eq_zero (by simpa [E.upto] using this)
    rw [nextId_nil g this, hn]; rfl
  · have hne : g.nodeIds ≠ [] := by
      intro e
      have := h.length_eq
      rw [e] at this
      simp [E.upto] at this
      exact hn this.symm
    apply Int.le_antisymm
    · exact nextId_le g _ hne (fun a ha => ((hmem a).mp ha).2)
    · have : ((g.nodes.length : Int) - 1) ∈ g.nodeIds := (hmem _).mpr ⟨by omega, by omega⟩
      have := nextId_gt g _ this
      omega

theorem perm_of_contiguousAny {g : Graph} (h : contiguousAny g = true) : g.nodeIds.Perm (E.upto g.nodes.length) := by
  unfold contiguousAny at h
  exact (sortAsc_perm g.nodeIds).symm.trans (List.Perm.of_eq (beq_iff_eq.mp h))

theorem offset_eq_of_contiguousAny (g : Graph) (h : contiguousAny g = true) :
    nextId g = (g.nodes.length : Int) := offset_eq_of_perm g (perm_of_contiguousAny h)

/-- **on the domain `inDomainAny` (parent ids a permutation of `0..n-1`) the repaired offset is `len(graph.nodes)`** -/
theorem offset_eq_of_inDomainAny (g : Graph) (x : Int) (sub : Graph) (anchors : List Nat)
    (hd : inDomainAny g x sub anchors = true) : nextId g = (g.nodes.length : Int) := by
  unfold inDomainAny at hd
  simp only [Bool.and_eq_true] at hd
  exact offset_eq_of_contiguousAny g hd.1.1.1.1.1.1.2

/-! ### the bridge -/

theorem replaceNode_eq_len_of_perm (g : Graph) (x : Int) (sub : Graph) (anchors : List Nat)
    (h : g.nodeIds.Perm (E.upto g.nodes.length)) : replaceNode g x sub anchors = replaceNodeLen g x sub anchors := by
  unfold replaceNode replaceNodeLen; rw [offset_eq_of_perm g h]

theorem replaceNode_eq_len_of_contiguous (g : Graph) (x : Int) (sub : Graph) (anchors : List Nat)
    (h : contiguous g = true) : replaceNode g x sub anchors = replaceNodeLen g x sub anchors := by
  apply replaceNode_eq_len_of_perm
  unfold contiguous at h; exact List.Perm.of_eq (beq_iff_eq.mp h)

/-- **the repaired model and the original one agree on every parent whose ids are `0..n-1` in any order** -/
theorem replaceNode_eq_len (g : Graph) (x : Int) (sub : Graph) (anchors : List Nat)
    (hd : inDomainAny g x sub anchors = true) : replaceNode g x sub anchors = replaceNodeLen g x sub anchors := by
  unfold replaceNode replaceNodeLen; rw [offset_eq_of_inDomainAny g x sub anchors hd]

theorem replaceNode_eq_len_of_dom0 {g : Graph} {x : Int} {sub : Graph} (d : E.Dom0 g x sub) (anchors : List Nat) :
    replaceNode g x sub anchors = replaceNodeLen g x sub anchors := replaceNode_eq_len_of_perm g x sub anchors d.cg

/-! ### node-level lemmas for the repaired model -/

theorem replaceNodeAt_closed (off : Int) (g : Graph) (x : Int) (sub : Graph) (anchors : List Nat) :
    Closed (replaceNodeAt off g x sub anchors) := relabelCopy_closed _ _

theorem replaceNodeAt_multi (off : Int) (g : Graph) (x : Int) (sub : Graph) (anchors : List Nat) :
    (replaceNodeAt off g x sub anchors).multi = g.multi := by
  show (relabelGraph _ 0).multi = _
  unfold relabelGraph
  rw [relabelCopy_multi]
  show (Graph.removeNode _ x).multi = _
  show (if (shiftGraph sub off).nodes.length > 0 then reattach (compose g _) x _ anchors else compose g _).multi = _
  split
  · unfold reattach; rw [reattachLoop_multi, compose_multi]
  · rw [compose_multi]

theorem replaceNode_closed (g : Graph) (x : Int) (sub : Graph) (anchors : List Nat) :
    Closed (replaceNode g x sub anchors) := replaceNodeAt_closed _ g x sub anchors

theorem replaceNode_multi (g : Graph) (x : Int) (sub : Graph) (anchors : List Nat) :
    (replaceNode g x sub anchors).multi = g.multi := replaceNodeAt_multi _ g x sub anchors

theorem replaceNode_nodes_zip (g : Graph) (x : Int) (sub : Graph) (anchors : List Nat) (hd : NodeDom g x sub anchors) :
    (replaceNode g x sub anchors).nodes = zipNodes g x sub := by
  rw [replaceNode_eq_len_of_contiguous g x sub anchors hd.contG]; exact replaceNodeLen_nodes_zip g x sub anchors hd

theorem replaceNode_nodes (g : Graph) (x : Int) (sub : Graph) (anchors : List Nat) (hd : NodeDom g x sub anchors) :
    (replaceNode g x sub anchors).nodes = specNodes g x sub := by
  rw [replaceNode_eq_len_of_contiguous g x sub anchors hd.contG]; exact replaceNodeLen_nodes g x sub anchors hd

theorem replaceNode_contiguous (g : Graph) (x : Int) (sub : Graph) (anchors : List Nat) (hd : NodeDom g x sub anchors) :
    contiguous (replaceNode g x sub anchors) = true := by
  rw [replaceNode_eq_len_of_contiguous g x sub anchors hd.contG]; exact replaceNodeLen_contiguous g x sub anchors hd

/-- the stages of the repaired model on ids `0..n-1` (for proofs that `rw [replaceNode_eq]`) -/
theorem E.Dom0.replaceNode_eq {g : Graph} {x : Int} {sub : Graph} (d : E.Dom0 g x sub) (anchors : List Nat) :
    replaceNode g x sub anchors = relabelGraph ((E.G2 g x sub anchors).removeNode x) 0 := by
  rw [replaceNode_eq_len_of_dom0 d, E.replaceNodeLen_eq]

/-! ### why the repair was needed: `len(graph.nodes)` can be an id in use -/

section Witness
private def atom (i : Int) (s : String) : Int × NodeAttr := (i, { symbol := some s, labels := some [], isLabeled := some false })
private def lab (i : Int) (l : String) : Int × NodeAttr := (i, { symbol := some "#", labels := some [l], isLabeled := some true })
private def mkG (multi : Bool) (nodes : List (Int × NodeAttr)) (es : List Edge) : Graph :=
  addEdgesFrom { multi := multi, nodes := nodes, adj := nodes.map fun n => (n.1, []) } es

/-- `parse("{g}CC", idx_offset=2)` -/
def witnessParent : Graph := mkG true [lab 2 "g", atom 3 "C", atom 4 "C"] [(2,3,0,.s 2), (3,4,0,.s 2)]
/-- `parse("N")` -/
def witnessSub : Graph := mkG true [atom 0 "N"] []

/-- with `idx_offset = len(graph.nodes) = 3` the inserted `N` takes the id of a carbon: the old function returns
    two atoms, one with a self-loop (a carbon is lost); the repaired one the chain `N-C-C` on ids `2,0,1` -/
theorem len_offset_collides :
    (replaceNodeLen witnessParent 2 witnessSub [0]).nodeIds = [0, 1] ∧
    labelsBetween (replaceNodeLen witnessParent 2 witnessSub [0]) 0 0 = [.s 2] ∧
    (replaceNode witnessParent 2 witnessSub [0]).nodeIds = [0, 1, 2] ∧
    labelsBetween (replaceNode witnessParent 2 witnessSub [0]) 0 2 = [.s 2] ∧
    labelsBetween (replaceNode witnessParent 2 witnessSub [0]) 0 1 = [.s 2] ∧
    labelsBetween (replaceNode witnessParent 2 witnessSub [0]) 0 0 = [] := by decide +kernel
end Witness

end C13
