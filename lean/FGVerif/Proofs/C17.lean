import FGVerif.Proofs.C17Dist
import FGVerif.Proofs.C17Relabel
/-!
  C17 — connected induced subgraph enumeration is exact.

  Property theorems about `Model/C17.lean`, for EVERY simple graph (`WF adj`, the decidable
  `wellFormed adj = true` implies it) with at least one vertex; anchor = vertex 0 of the
  relabelled graph (what `node_induced_connected_subgraphs` always passes):

  * `C17.assert_never_fails`   the `assert D[v]+1 <= _D[u]` never fails
  * `C17.fuel_suffices`        fuel = number of vertices is enough (`fuel_ge` : any larger fuel
                               gives the same events)
  * `C17.collect_ok_yields`    hence the consumer sees exactly the yields, no error
  * `C17.sound`                every yielded list: no duplicates, anchor first, vertices of the graph,
                               induces a connected subgraph, inside the anchor's component
  * `C17.sequences_increasing` a yielded sequence is strictly increasing in `(D, id)`
  * `C17.sequences_distinct`   yielded sequences are pairwise distinct
  * `C17.candidates_exact`, `C17.candidates_adjacent`, `C17.labels_never_change`
                               the invariant lemmas on the states of the generator
  * `C17.labels_are_induced_distances`  at every yield, `D[u]` = distance anchor→u inside `G[U]`
  * `C17.unique_sets`          two yielded sequences with the same vertex set are equal
  * `C17.complete`             every connected set containing the anchor is yielded
  * `C17.exact`                the full statement: `Spec` holds for the model's output
  * `C17.relabel_invariant`, `C17.exact_ids`  the same on the ORIGINAL ids, through `nmap`
  * `C17.spec_determines_sets`, `C17.order_independent`  node order / adjacency order / anchor
                               position do not change the yielded node sets
  * `C17.specCheck_sound`      (in C17Basic) the checker run on implementation outputs implies `Spec`
-/
namespace C17

/-- the yielded lists of `_node_induced_connected_subgraphs(G, 0)` in generator order -/
def modelYields (adj : List (List Nat)) : List (List Nat) := yields (enumerateFrom adj 0)

/-! ### the states of the generator (instrumented copy of `enumerateCIS`, for the statements
    that speak about `C` and `D` at the moment of a yield) -/

def enumStates (adj : List (List Nat)) :
    Nat → List Nat → List Nat → List Dist → List (List Nat × List Nat × List Dist)
  | 0, _, _, _ => []
  | fuel + 1, U, C, D =>
      (U, C, D) :: C.flatMap fun v =>
        if U.contains v then []
        else if isValidExtension U v D then
          match relabelD (dget D v) (newCands adj U C v) D with
          | none => []
          | some D' => enumStates adj fuel (U ++ [v]) (C ++ newCands adj U C v) D'
        else []

/-- the states at the yields of `_node_induced_connected_subgraphs(G, 0)` -/
def modelStates (adj : List (List Nat)) : List (List Nat × List Nat × List Dist) :=
  enumStates adj adj.length [0] (nbrs adj 0) (initD adj.length 0 (nbrs adj 0))

/-- the instrumented copy yields the same lists in the same order -/
theorem enumStates_fst (adj : List (List Nat)) : ∀ (fuel : Nat) (U C : List Nat) (D : List Dist)
    (P : List (Option Int)),
    (enumStates adj fuel U C D).map (·.1) = yields (enumerateCIS adj fuel U C D P) := by
  intro fuel
  induction fuel with
  | zero => intro U C D P; rfl
  | succ fuel ih =>
    intro U C D P
    rw [enumerateCIS_succ]
    simp only [enumStates, yields, yields_flatMap, List.map_cons, List.map_flatMap]
    congr 1
    apply flatMap_congr'
    intro v _
    unfold childEvs
    by_cases hvU : v ∈ U
    · simp [hvU, yields]
    · by_cases hval : isValidExtension U v D = true
      · cases hrel : relabelD (dget D v) (newCands adj U C v) D with
        | none => simp [hvU, hval, yields]
        | some D' =>
          simp only [List.contains_eq_mem, hvU, decide_false, Bool.false_eq_true, hval, if_true,
            if_false]
          exact ih _ _ _ _
      · simp [hvU, hval, yields]

theorem modelStates_fst (adj : List (List Nat)) : (modelStates adj).map (·.1) = modelYields adj :=
  enumStates_fst adj _ _ _ _ _

theorem enumStates_inv {adj} (hwf : WF adj) : ∀ (fuel : Nat) (U C : List Nat) (D : List Dist),
    Inv adj U C D → ∀ s ∈ enumStates adj fuel U C D, Inv adj s.1 s.2.1 s.2.2 := by
  intro fuel
  induction fuel with
  | zero => intro U C D _ s hs; simp [enumStates] at hs
  | succ fuel ih =>
    intro U C D h s hs
    simp only [enumStates, List.mem_cons, List.mem_flatMap] at hs
    rcases hs with e | ⟨v, hvC, hv⟩
    · subst e; exact h
    · by_cases hvU : v ∈ U
      · simp [hvU] at hv
      · by_cases hval : isValidExtension U v D = true
        · obtain ⟨D', hD', hInv, _⟩ := h.step hwf hvC hvU hval
          simp only [List.contains_eq_mem, hvU, decide_false, Bool.false_eq_true, if_false, hval,
            if_true, hD'] at hv
          exact ih _ _ _ hInv s hv
        · simp [hvU, hval] at hv

/-- every state at a yield satisfies the invariant -/
theorem modelStates_inv {adj : List (List Nat)} (hwf : WF adj) (hpos : 0 < adj.length) :
    ∀ s ∈ modelStates adj, Inv adj s.1 s.2.1 s.2.2 :=
  enumStates_inv hwf _ _ _ _ (Inv.initial hwf hpos)

theorem modelYields_inv {adj : List (List Nat)} (hwf : WF adj) (hpos : 0 < adj.length) :
    ∀ U ∈ modelYields adj, ∃ C D, Inv adj U C D := by
  intro U hU
  rw [← modelStates_fst, List.mem_map] at hU
  obtain ⟨s, hs, rfl⟩ := hU
  exact ⟨_, _, modelStates_inv hwf hpos s hs⟩

/-! ### the property theorems -/

/-- the `assert` in `enumerateCIS` never fails -/
theorem assert_never_fails {adj : List (List Nat)} (hwf : WF adj) (hpos : 0 < adj.length) :
    Ev.assertFail ∉ enumerateFrom adj 0 :=
  no_assertFail hwf _ _ _ _ _ (Inv.initial hwf hpos)

/-- fuel = number of vertices suffices (each recursion adds a new vertex to `U`) -/
theorem fuel_suffices {adj : List (List Nat)} (hwf : WF adj) (hpos : 0 < adj.length) :
    Ev.outOfFuel ∉ enumerateFrom adj 0 :=
  no_outOfFuel hwf _ _ _ _ _ (Inv.initial hwf hpos) (by simp)

/-- any fuel `≥ n` gives the same events -/
theorem fuel_ge {adj : List (List Nat)} (hwf : WF adj) (hpos : 0 < adj.length) (fuel : Nat)
    (hf : adj.length ≤ fuel) (P : List (Option Int)) :
    enumerateCIS adj fuel [0] (nbrs adj 0) (initD adj.length 0 (nbrs adj 0)) P = enumerateFrom adj 0 := by
  unfold enumerateFrom
  rw [fuel_irrelevant hwf fuel adj.length _ _ _ P (Inv.initial hwf hpos) (by simp; omega) (by simp)]
  -- the parent array is never read
  have hP : ∀ (fuel : Nat) (U C : List Nat) (D : List Dist) (P P' : List (Option Int)),
      enumerateCIS adj fuel U C D P = enumerateCIS adj fuel U C D P' := by
    intro fuel
    induction fuel with
    | zero => intros; rfl
    | succ fuel ih =>
      intro U C D P P'
      rw [enumerateCIS_succ, enumerateCIS_succ]
      congr 1
      apply flatMap_congr'
      intro v _
      unfold childEvs
      split
      · rfl
      · split
        · split
          · rfl
          · exact ih _ _ _ _ _
        · rfl
  exact hP _ _ _ _ _ _

/-- the consumer of the generator sees exactly the yields and no error -/
theorem collect_ok_yields {adj : List (List Nat)} (hwf : WF adj) (hpos : 0 < adj.length) :
    collect (enumerateFrom adj 0) = .ok (modelYields adj) :=
  collect_ok _ (assert_never_fails hwf hpos) (fuel_suffices hwf hpos)

/-- **soundness**: every yielded list is duplicate-free, starts with the anchor, consists of
    vertices, induces a connected subgraph, and lies inside the anchor's component -/
theorem sound {adj : List (List Nat)} (hwf : WF adj) (hpos : 0 < adj.length) :
    ∀ U ∈ modelYields adj,
      U.Nodup ∧ U.head? = some 0 ∧ (∀ u ∈ U, u < adj.length) ∧ ConnectedFrom (nbrs adj) 0 U ∧
      ∀ u ∈ U, Reach (nbrs adj) (List.range adj.length) 0 u := by
  intro U hU
  obtain ⟨C, D, h⟩ := modelYields_inv hwf hpos U hU
  have hc := inv_connected h
  refine ⟨h.nodupU, ?_, h.mem_lt hwf, hc, ?_⟩
  · obtain ⟨T, hT⟩ := h.head; simp [hT]
  · intro u hu
    obtain ⟨k, hk⟩ := hc.2 u hu
    exact ⟨k, hk.mono fun x hx => List.mem_range.mpr (h.mem_lt hwf x hx)⟩

/-- invariant: at every yield `C` is exactly the set of vertices (≠ anchor) adjacent to `U`;
    in particular `C ⊇` the neighbours of `U` outside `U` -/
theorem candidates_exact {adj : List (List Nat)} (hwf : WF adj) (hpos : 0 < adj.length) :
    ∀ s ∈ modelStates adj, ∀ c, c ∈ s.2.1 ↔ c ≠ 0 ∧ ∃ u ∈ s.1, Adj adj u c :=
  fun s hs => (modelStates_inv hwf hpos s hs).memC

/-- invariant: every element of `C` is adjacent to `U` -/
theorem candidates_adjacent {adj : List (List Nat)} (hwf : WF adj) (hpos : 0 < adj.length) :
    ∀ s ∈ modelStates adj, ∀ c ∈ s.2.1, ∃ u ∈ s.1, Adj adj u c :=
  fun s hs c hc => ((modelStates_inv hwf hpos s hs).memC c).1 hc |>.2

/-- invariant: a label, once assigned (vertex in `C` or the anchor), is never changed by an
    extension step; and the step's `assert`s hold -/
theorem labels_never_change {adj U C D} (hwf : WF adj) (h : Inv adj U C D) {v : Nat}
    (hvC : v ∈ C) (hvU : v ∉ U) (hval : isValidExtension U v D = true) :
    ∃ D', relabelD (dget D v) (newCands adj U C v) D = some D' ∧
      ∀ w, w ∈ C ∨ w = 0 → dget D' w = dget D w := by
  obtain ⟨D', h1, _, h3⟩ := h.step hwf hvC hvU hval
  exact ⟨D', h1, h3⟩

/-- a yielded sequence is strictly increasing in `(D, id)` (anchor included: `D[0] = 0`) -/
theorem sequences_increasing {adj : List (List Nat)} (hwf : WF adj) (hpos : 0 < adj.length) :
    ∀ s ∈ modelStates adj, s.1.Pairwise (KeyLt s.2.2) :=
  fun s hs => (modelStates_inv hwf hpos s hs).sorted

/-- the yielded sequences are pairwise distinct -/
theorem sequences_distinct {adj : List (List Nat)} (hwf : WF adj) (hpos : 0 < adj.length) :
    (modelYields adj).Pairwise (· ≠ ·) :=
  yields_distinct hwf _ _ _ _ _ (Inv.initial hwf hpos)

/-- **labels are induced distances**: at every yield, `D[u]` (`u ∈ U`) is the distance from the
    anchor to `u` in the subgraph induced by `U` -/
theorem labels_are_induced_distances {adj : List (List Nat)} (hwf : WF adj) (hpos : 0 < adj.length) :
    ∀ s ∈ modelStates adj, ∀ u ∈ s.1, ∃ d, dget s.2.2 u = some d ∧ IsDist (nbrs adj) s.1 0 u d :=
  fun s hs => inv_labels_are_distances (modelStates_inv hwf hpos s hs)

/-- **uniqueness at the set level**: two yielded sequences with the same vertex set are equal -/
theorem unique_sets {adj : List (List Nat)} (hwf : WF adj) (hpos : 0 < adj.length) :
    ∀ U ∈ modelYields adj, ∀ V ∈ modelYields adj, SameSet U V → U = V := by
  intro U hU V hV hs
  obtain ⟨_, _, h₁⟩ := modelYields_inv hwf hpos U hU
  obtain ⟨_, _, h₂⟩ := modelYields_inv hwf hpos V hV
  exact inv_unique h₁ h₂ hs

/-- **completeness**: every connected vertex set containing the anchor is yielded -/
theorem complete {adj : List (List Nat)} (hwf : WF adj) (hpos : 0 < adj.length) (S : List Nat)
    (hc : ConnectedFrom (nbrs adj) 0 S) : ∃ U ∈ modelYields adj, SameSet U S := by
  obtain ⟨Y, hY, hYS⟩ := complete_from hwf hpos S hc
  exact ⟨Y, (mem_yields _ _).2 hY, hYS⟩

/-- **C17, full statement** (relabelled graph): the generator raises nothing and yields every
    connected vertex set containing the anchor exactly once and nothing else. -/
theorem exact {adj : List (List Nat)} (hwf : WF adj) (hpos : 0 < adj.length) :
    collect (enumerateFrom adj 0) = .ok (modelYields adj) ∧
      Spec (List.range adj.length) (nbrs adj) 0 (modelYields adj) := by
  refine ⟨collect_ok_yields hwf hpos, ?_, ?_, ?_, ?_, ?_⟩
  · exact fun U hU => (sound hwf hpos U hU).1
  · exact fun U hU u hu => List.mem_range.mpr ((sound hwf hpos U hU).2.2.1 u hu)
  · exact fun U hU => (sound hwf hpos U hU).2.2.2.1
  · have hd := sequences_distinct hwf hpos
    exact hd.imp_of_mem fun {U V} hU hV hne hs => hne (unique_sets hwf hpos U hU V hV hs)
  · exact fun S _ hc => complete hwf hpos S hc

/-- **anchor relabelling** (`nmap`): on the ORIGINAL ids the result is the model's result on the
    relabelled graph transported by the bijection `nmap_inv`, and it satisfies the specification
    for the graph pulled back along `nmap` — whatever the ids are and wherever the anchor stands
    in the node order. -/
theorem relabel_invariant (nodes : List Nat) (anchor : Nat) (adj : List (List Nat))
    (hnd : nodes.Nodup) (ha : anchor ∈ nodes) (hlen : adj.length = nodes.length) (hwf : WF adj) :
    nodeInducedCIS nodes anchor adj =
        .ok ((modelYields adj).map fun U => U.map (nmapInv (buildNmap nodes anchor))) ∧
      Spec nodes (fun x => (nbrs adj (nmapGet (buildNmap nodes anchor) x)).map
          (nmapInv (buildNmap nodes anchor))) anchor
        ((modelYields adj).map fun U => U.map (nmapInv (buildNmap nodes anchor))) := by
  have hpos : 0 < adj.length := by rw [hlen]; exact List.length_pos_of_mem ha
  obtain ⟨hcol, hspec⟩ := exact hwf hpos
  refine ⟨by simp [nodeInducedCIS, hcol, Result.map], ?_⟩
  have hb := nmap_bij nodes anchor hnd ha
  have := Spec.transport adj.length (nbrs adj) _ nodes (nmapInv (buildNmap nodes anchor))
    (nmapGet (buildNmap nodes anchor)) hpos
    (fun k hk => hb.left k (by omega)) (fun x hx => ⟨(hb.right x hx).1, by have := (hb.right x hx).2; omega⟩)
    (fun k _ j hj => hwf.lt k j hj) _ (fun x _ y => Iff.rfl) hspec
  rw [hb.anchor0] at this
  exact this

/-- **C17 on the original graph**: when the rows handed to the model are the relabelling of the
    original graph `orig` (`relabelConsistent`, evaluated by the driver on every case) and
    the relabelled graph is simple (`wellFormed`), the function returns without error and its
    output, in the original ids, lists every connected node set of `orig` containing the anchor
    exactly once and nothing else. -/
theorem exact_ids (orig : List (Nat × List Nat)) (anchor : Nat) (adj : List (List Nat))
    (hrc : relabelConsistent orig anchor adj = true) (hwf : wellFormed adj = true) :
    ∃ out, nodeInducedCIS (orig.map (·.1)) anchor adj = .ok out ∧
      Spec (orig.map (·.1)) (nbOrig orig) anchor out := by
  obtain ⟨hnd, ha, hlen, hrows⟩ := relabelConsistent_spec orig anchor adj hrc
  have hW := wellFormed_WF adj hwf
  obtain ⟨h1, h2⟩ := relabel_invariant (orig.map (·.1)) anchor adj hnd ha (by simpa using hlen) hW
  exact ⟨_, h1, h2.congr_nb (fun x hx y => (hrows x hx y).symm)⟩

/-- the specification determines the yielded SETS: two outputs that satisfy it for the same
    graph (vertex lists and neighbour lists equal as sets) contain the same vertex sets -/
theorem spec_determines_sets {verts verts' : List Nat} {nb nb' : Nat → List Nat} {a : Nat}
    {out out' : List (List Nat)} (h : Spec verts nb a out) (h' : Spec verts' nb' a out')
    (hv : ∀ x ∈ verts, x ∈ verts') (hnb : ∀ x ∈ verts, ∀ y, y ∈ nb x ↔ y ∈ nb' x) :
    ∀ U ∈ out, ∃ V ∈ out', SameSet V U := by
  intro U hU
  apply h'.complete U (fun s hs => hv s (h.inVerts U hU s hs))
  obtain ⟨h1, h2⟩ := h.connected U hU
  refine ⟨h1, fun v hv' => ?_⟩
  obtain ⟨k, hk⟩ := h2 v hv'
  exact ⟨k, hk.congr_nb fun x y hx hy => (hnb x (h.inVerts U hU x hx) y).1 hy⟩

/-- **node order, adjacency order and anchor position do not matter**: two presentations of the
    same graph (same node set, same neighbour sets; any node order, any adjacency order, hence
    any `nmap`) give the same yielded node sets -/
theorem order_independent (orig₁ orig₂ : List (Nat × List Nat)) (anchor : Nat)
    (adj₁ adj₂ : List (List Nat))
    (h₁ : relabelConsistent orig₁ anchor adj₁ = true) (w₁ : wellFormed adj₁ = true)
    (h₂ : relabelConsistent orig₂ anchor adj₂ = true) (w₂ : wellFormed adj₂ = true)
    (hnodes : ∀ x, x ∈ orig₁.map (·.1) → x ∈ orig₂.map (·.1))
    (hnb : ∀ x ∈ orig₁.map (·.1), ∀ y, y ∈ nbOrig orig₁ x ↔ y ∈ nbOrig orig₂ x) :
    ∃ out₁ out₂, nodeInducedCIS (orig₁.map (·.1)) anchor adj₁ = .ok out₁ ∧
      nodeInducedCIS (orig₂.map (·.1)) anchor adj₂ = .ok out₂ ∧
      ∀ U ∈ out₁, ∃ V ∈ out₂, SameSet V U := by
  obtain ⟨out₁, e₁, s₁⟩ := exact_ids orig₁ anchor adj₁ h₁ w₁
  obtain ⟨out₂, e₂, s₂⟩ := exact_ids orig₂ anchor adj₂ h₂ w₂
  exact ⟨out₁, out₂, e₁, e₂, spec_determines_sets s₁ s₂ hnodes hnb⟩

/-! ### non-vacuity: concrete instances (tests, labelled as such) -/

/-- triangle with a pendant vertex: 0-1, 0-2, 1-2, 2-3 -/
def exAdj : List (List Nat) := [[1, 2], [0, 2], [0, 1, 3], [2]]

example : wellFormed exAdj = true := by decide
example : collect (enumerateFrom exAdj 0) =
    .ok [[0], [0, 1], [0, 1, 2], [0, 1, 2, 3], [0, 2], [0, 2, 3]] := by decide
example : specCheck (List.range 4) (nbrs exAdj) 0 (modelYields exAdj) = true := by decide
-- a missing set, a duplicated set (other order), a disconnected set are rejected
example : specCheck (List.range 4) (nbrs exAdj) 0 [[0], [0, 1], [0, 1, 2], [0, 1, 2, 3], [0, 2]] = false := by decide
example : specCheck (List.range 4) (nbrs exAdj) 0
    [[0], [0, 1], [0, 1, 2], [0, 2, 1], [0, 1, 2, 3], [0, 2], [0, 2, 3]] = false := by decide
example : specCheck (List.range 4) (nbrs exAdj) 0
    [[0], [0, 1], [0, 1, 2], [0, 1, 2, 3], [0, 2], [0, 2, 3], [0, 3]] = false := by decide
-- the labels at the yield `[0,1,2,3]` are the distances 0,1,1,2
example : ((modelStates exAdj).map (fun s => (s.1, s.2.2))).contains
    ([0, 1, 2, 3], [some 0, some 1, some 1, some 2]) = true := by decide
-- the anchor relabelling: ids 7,5,9,4 in node order, anchor 9 (third node)
example : buildNmap [7, 5, 9, 4] 9 = [(9, 0), (7, 1), (5, 2), (4, 3)] := by decide
example : nodeInducedCIS [7, 5, 9, 4] 9 exAdj =
    .ok [[9], [9, 7], [9, 7, 5], [9, 7, 5, 4], [9, 5], [9, 5, 4]] := by decide
example : relabelConsistent [(7, [9, 5]), (5, [4, 7, 9]), (9, [5, 7]), (4, [5])] 9 exAdj = true := by decide
-- a disconnected graph: nothing outside the anchor's component
example : collect (enumerateFrom [[1], [0], [3], [2]] 0) = .ok [[0], [0, 1]] := by decide

end C17
