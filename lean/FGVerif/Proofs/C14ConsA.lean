import FGVerif.Model.C14
import FGVerif.Proofs.C13
/-!
  C14 conservation, part A: the traced loop is the plain loop with bookkeeping (projection lemmas for
  `replaceNextNodeT`, `stepT`, `buildLoopT`), and the generic loop induction: a predicate on traced
  working items that is preserved by one replacement holds for every result.
  Helper lemmas live in namespace `C14.Q`.
-/
namespace C14.Q
open C13 C14

/-- forget the traces -/
def fsts (l : List (Graph × Trace)) : List Graph := l.map (·.1)

@[simp] theorem fsts_nil : fsts [] = [] := rfl
@[simp] theorem fsts_cons (x : Graph × Trace) (l : List (Graph × Trace)) : fsts (x :: l) = x.1 :: fsts l := rfl
@[simp] theorem fsts_append (l1 l2 : List (Graph × Trace)) : fsts (l1 ++ l2) = fsts l1 ++ fsts l2 := by
  simp [fsts]

theorem fsts_isEmpty (l : List (Graph × Trace)) : (fsts l).isEmpty = l.isEmpty := by
  cases l <;> rfl

/-- one traced replacement, projected -/
theorem replaceNextNodeT_proj (cfg : Config) (gt : Graph × Trace) :
    (replaceNextNodeT cfg gt).map (fun o => o.map fsts) = replaceNextNode cfg gt.1 := by
  unfold replaceNextNodeT replaceNextNode
  cases nextGroupNode cfg gt.1 with
  | none => rfl
  | some p =>
    obtain ⟨anchor, a⟩ := p
    simp only
    split
    · rename_i name _
      cases lookup cfg name with
      | none => rfl
      | some grp =>
        simp only
        split
        · rfl
        · simp [Except.map, fsts, Function.comp_def]
    · rfl

theorem stepT_proj (cfg : Config) (ws : List (Graph × Trace)) :
    (stepT cfg ws).map (fun p => (fsts p.1, fsts p.2)) = step cfg (fsts ws) := by
  induction ws with
  | nil => rfl
  | cons g rest ih =>
    rw [fsts_cons]
    unfold stepT step
    rw [← replaceNextNodeT_proj cfg g, ← ih]
    cases replaceNextNodeT cfg g with
    | error e => rfl
    | ok r =>
      cases stepT cfg rest with
      | error e => rfl
      | ok dn =>
        obtain ⟨done, next⟩ := dn
        cases r with
        | none => rfl
        | some gs => simp [Except.map, bind, Except.bind, pure, Except.pure]

theorem buildLoopT_proj (cfg : Config) (fuel : Nat) (ws res : List (Graph × Trace)) :
    (buildLoopT cfg fuel ws res).map fsts = buildLoop cfg fuel (fsts ws) (fsts res) := by
  induction fuel generalizing ws res with
  | zero =>
    unfold buildLoopT buildLoop
    rw [fsts_isEmpty]
    cases ws.isEmpty <;> rfl
  | succ fuel ih =>
    unfold buildLoopT buildLoop
    rw [fsts_isEmpty]
    cases hw : ws.isEmpty with
    | true => rfl
    | false =>
      simp only [Bool.false_eq_true, if_false]
      rw [← stepT_proj cfg ws]
      cases stepT cfg ws with
      | error e => rfl
      | ok dn =>
        obtain ⟨done, next⟩ := dn
        simp only [Except.map, bind, Except.bind]
        have := ih next (res ++ done)
        rw [fsts_append] at this
        exact this

/-! ### the generic loop induction -/

/-- `P` is preserved by one replacement -/
def Preserved (cfg : Config) (P : Graph × Trace → Prop) : Prop :=
  ∀ gt gs, P gt → replaceNextNodeT cfg gt = .ok (some gs) → ∀ g' ∈ gs, P g'

theorem stepT_preserves (cfg : Config) (P : Graph × Trace → Prop) (hP : Preserved cfg P)
    (ws done next : List (Graph × Trace)) (hws : ∀ gt ∈ ws, P gt) (h : stepT cfg ws = .ok (done, next)) :
    (∀ gt ∈ done, P gt) ∧ (∀ gt ∈ next, P gt) := by
  induction ws generalizing done next with
  | nil =>
    unfold stepT at h
    cases h
    exact ⟨fun _ h => by simp at h, fun _ h => by simp at h⟩
  | cons g rest ih =>
    unfold stepT at h
    cases hr : replaceNextNodeT cfg g with
    | error e => rw [hr] at h; cases h
    | ok r =>
      cases hs : stepT cfg rest with
      | error e => rw [hr, hs] at h; cases h
      | ok dn =>
        obtain ⟨d0, n0⟩ := dn
        have hrest := ih d0 n0 (fun gt hgt => hws gt (List.mem_cons_of_mem _ hgt)) hs
        rw [hr, hs] at h
        cases r with
        | none =>
          simp only [bind, Except.bind, pure, Except.pure] at h
          cases h
          refine ⟨?_, hrest.2⟩
          intro gt hgt
          rcases List.mem_cons.mp hgt with rfl | hgt
          · exact hws _ List.mem_cons_self
          · exact hrest.1 gt hgt
        | some gs =>
          simp only [bind, Except.bind, pure, Except.pure] at h
          cases h
          refine ⟨hrest.1, ?_⟩
          intro gt hgt
          rcases List.mem_append.mp hgt with hgt | hgt
          · exact hP g gs (hws _ List.mem_cons_self) hr gt hgt
          · exact hrest.2 gt hgt

theorem buildLoopT_preserves (cfg : Config) (P : Graph × Trace → Prop) (hP : Preserved cfg P)
    (fuel : Nat) (ws res ts : List (Graph × Trace)) (hws : ∀ gt ∈ ws, P gt) (hres : ∀ gt ∈ res, P gt)
    (h : buildLoopT cfg fuel ws res = .ok ts) : ∀ gt ∈ ts, P gt := by
  induction fuel generalizing ws res with
  | zero =>
    unfold buildLoopT at h
    split at h
    · cases h; exact hres
    · cases h
  | succ fuel ih =>
    unfold buildLoopT at h
    split at h
    · cases h; exact hres
    · cases hs : stepT cfg ws with
      | error e => rw [hs] at h; cases h
      | ok dn =>
        obtain ⟨done, next⟩ := dn
        rw [hs] at h
        simp only [bind, Except.bind] at h
        have hst := stepT_preserves cfg P hP ws done next hws hs
        apply ih next (res ++ done) hst.2 _ h
        intro gt hgt
        rcases List.mem_append.mp hgt with hgt | hgt
        · exact hres gt hgt
        · exact hst.1 gt hgt

/-- a predicate that holds for the initial item and is preserved by one replacement holds for
    every result of the traced expansion -/
theorem buildGraphsT_preserves (cfg : Config) (P : Graph × Trace → Prop) (hP : Preserved cfg P)
    (fuel : Nat) (core : Graph) (ts : List (Graph × Trace))
    (h0 : P (core, { symbols := symbolsOf core, bonds := bondLabelsOf core }))
    (h : buildGraphsT cfg fuel core = .ok ts) : ∀ gt ∈ ts, P gt := by
  unfold buildGraphsT at h
  apply buildLoopT_preserves cfg P hP fuel _ [] ts _ _ h
  · intro gt hgt
    rcases List.mem_cons.mp hgt with rfl | hgt
    · exact h0
    · cases hgt
  · intro gt hgt; cases hgt

end C14.Q

namespace C14
open C13

/-- the traced loop is the plain loop with bookkeeping -/
theorem traced_projection (cfg : Config) (fuel : Nat) (core : Graph) :
    (buildGraphsT cfg fuel core).map (fun ts => ts.map (·.1)) = buildGraphs cfg fuel core := by
  unfold buildGraphsT buildGraphs
  exact Q.buildLoopT_proj cfg fuel _ []

end C14
