import FGVerif.Proofs.GenParsedBase
import FGVerif.Generated.C14
import FGVerif.Generated.Parsed
/-!
  GenParsed, C14 part (neg table): pattern strings, group references and anchors of the generated proxy
  table against the parser model.  See Proofs/GenParsedBase.lean for the definitions and the method.
-/
namespace GenParsed
open C01 (Str)

set_option synthInstance.maxSize 1024 in
theorem da_neg_chars : Gen.C14.daNeg = Gen.Parsed.daNegC.map GroupRowC.toS ∧
    Gen.C14.daNegCores = Gen.Parsed.daNegCoresC.map ProxyGraphRowC.toS := by decide +kernel

theorem da_neg_fast : TableFromC Gen.Parsed.daNegC Gen.Parsed.daNegCoresC := by decide +kernel

/-- the same for `DielsAlderProxy(neg_sample=True)` -/
theorem da_neg_refs_parsed : TableFrom Gen.C14.daNeg Gen.C14.daNegCores := by
  rw [da_neg_chars.1, da_neg_chars.2]; exact da_neg_fast.sound

end GenParsed
