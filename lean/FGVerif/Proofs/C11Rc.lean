import FGVerif.Proofs.C11Graph
/-!
  C11 — `get_rc` is exact.

  * `WF`, `Simple`: the well-formedness facts of a simple undirected networkx graph, extracted from
    the decidable predicates `wellFormed`, `simple` of the model (the driver evaluates them on
    every input; the harness fails if a generated input violates them).
  * `mem_edges_go`, `edges_good`, `bond_in_edges`: `Graph.edges` lists every bond exactly through
    `bond?`.
  * `RcSpec`, `rc_exact`, `specRc_sound`.
-/
namespace C11
open Graph

/-! ### well-formed simple graphs -/

structure WF (g : Graph) : Prop where
  nodup : g.nodeIds.Nodup
  keys : g.keys = g.nodeIds
  rowNodup : ∀ x, ((g.adjRow x).map (·.1)).Nodup
  nbrNode : ∀ x y, y ∈ g.neighbors x → y ∈ g.nodeIds
  symm : ∀ x y, y ∈ g.neighbors x → g.edgeData y x = g.edgeData x y

structure Simple (g : Graph) : Prop where
  multi : g.multi = false
  single : ∀ x y, y ∈ g.neighbors x → ∃ l, g.edgeData x y = [(0, l)]

theorem adjRow_of_not_key (g : Graph) (x : Int) (h : x ∉ g.keys) : g.adjRow x = [] := by
  rw [adjRow_eq]; exact rowOf_of_not_mem _ _ h

theorem adjRow_mem_adj (g : Graph) (x : Int) (h : x ∈ g.keys) : (x, g.adjRow x) ∈ g.adj := by
  rw [adjRow_eq]; exact rowOf_mem_of_key _ _ h

theorem wf_of_wellFormed (g : Graph) (h : wellFormed g = true) : WF g := by
  simp only [wellFormed, Bool.and_eq_true, decide_eq_true_eq, beq_iff_eq, List.all_eq_true,
    List.contains_eq_mem] at h
  obtain ⟨⟨h1, h2⟩, h3⟩ := h
  have hrow : ∀ x, x ∈ g.keys → ((g.adjRow x).map (·.1)).Nodup ∧
      ∀ e, e ∈ g.adjRow x → e.1 ∈ g.nodeIds ∧ g.edgeData e.1 x = e.2 := by
    intro x hx
    have := h3 _ (adjRow_mem_adj g x hx)
    exact ⟨this.1, fun e he => this.2 e he⟩
  refine ⟨h1, h2, ?_, ?_, ?_⟩
  · intro x
    by_cases hx : x ∈ g.keys
    · exact (hrow x hx).1
    · rw [adjRow_of_not_key g x hx]; exact List.nodup_nil
  · intro x y hy
    by_cases hx : x ∈ g.keys
    · obtain ⟨e, he, rfl⟩ := List.mem_map.mp hy
      exact ((hrow x hx).2 e he).1
    · rw [neighbors_eq, adjRow_of_not_key g x hx] at hy; simp at hy
  · intro x y hy
    by_cases hx : x ∈ g.keys
    · obtain ⟨e, he, rfl⟩ := List.mem_map.mp hy
      rw [((hrow x hx).2 e he).2, edgeData_eq]
      exact (rowOf_of_mem _ (hrow x hx).1 e.1 e.2 he).symm
    · rw [neighbors_eq, adjRow_of_not_key g x hx] at hy; simp at hy

theorem simple_of_simple (g : Graph) (hw : WF g) (h : simple g = true) : Simple g := by
  simp only [simple, Bool.and_eq_true, Bool.not_eq_true', List.all_eq_true, beq_iff_eq] at h
  refine ⟨h.1, ?_⟩
  intro x y hy
  by_cases hx : x ∈ g.keys
  · obtain ⟨e, he, rfl⟩ := List.mem_map.mp hy
    have h1 := h.2 _ (adjRow_mem_adj g x hx) e he
    have h2 : g.edgeData x e.1 = e.2 := by
      rw [edgeData_eq]; exact rowOf_of_mem _ (hw.rowNodup x) e.1 e.2 he
    rw [h2]
    match hd : e.2, h1 with
    | [(k, l)], h1 =>
      simp only [List.map_cons, List.map_nil, List.cons.injEq, and_true] at h1
      exact ⟨l, by rw [← h1]⟩
  · rw [neighbors_eq, adjRow_of_not_key g x hx] at hy; simp at hy

theorem edgeData_of_not_nbr (g : Graph) (x y : Int) (h : y ∉ g.neighbors x) : g.edgeData x y = [] := by
  rw [edgeData_eq]; exact rowOf_of_not_mem _ _ h

theorem edgeData_of_mem_row (g : Graph) (hw : WF g) (x : Int) (e : Int × List (Nat × Label))
    (he : e ∈ g.adjRow x) : g.edgeData x e.1 = e.2 := by
  rw [edgeData_eq]; exact rowOf_of_mem _ (hw.rowNodup x) e.1 e.2 he

/-- on a simple well-formed graph `bond?` is defined exactly on neighbours -/
theorem bond?_isSome_iff (g : Graph) (hs : Simple g) (x y : Int) :
    (∃ l, g.bond? x y = some l) ↔ y ∈ g.neighbors x := by
  constructor
  · rintro ⟨l, hl⟩
    apply Classical.byContradiction
    intro hn
    simp [bond?, edgeData_of_not_nbr g x y hn] at hl
  · intro hy
    obtain ⟨l, hl⟩ := hs.single x y hy
    exact ⟨l, by simp [bond?, hl]⟩

theorem edgeData_of_bond? (g : Graph) (hs : Simple g) (x y : Int) (l : Label) (h : g.bond? x y = some l) :
    g.edgeData x y = [(0, l)] := by
  have hy := (bond?_isSome_iff g hs x y).mp ⟨l, h⟩
  obtain ⟨l', hl'⟩ := hs.single x y hy
  simp only [bond?, hl', List.head?_cons, Option.map_some, Option.some.injEq] at h
  rw [hl', h]

theorem bond?_symm (g : Graph) (hw : WF g) (hs : Simple g) (x y : Int) (l : Label) (h : g.bond? x y = some l) :
    g.bond? y x = some l := by
  have hy := (bond?_isSome_iff g hs x y).mp ⟨l, h⟩
  have := edgeData_of_bond? g hs x y l h
  simp [bond?, hw.symm x y hy, this]

/-! ### `Graph.edges` -/

theorem mem_edges_go (adj : List (Int × Row)) (seen : List Int) (a b : Int) (k : Nat) (l : Label) :
    (a, b, k, l) ∈ Graph.edges.go adj seen ↔
      ∃ pre row post, adj = pre ++ (a, row) :: post ∧ b ∉ seen ∧ b ∉ pre.map (·.1) ∧
        ∃ kds, (b, kds) ∈ row ∧ (k, l) ∈ kds := by
  induction adj generalizing seen with
  | nil => simp [Graph.edges.go]
  | cons c adj ih =>
    obtain ⟨u, row0⟩ := c
    simp only [Graph.edges.go, List.mem_append]
    constructor
    · rintro (h | h)
      · simp only [List.mem_flatMap, List.mem_filter, List.mem_map, Bool.not_eq_true',
          List.contains_eq_mem, decide_eq_false_iff_not] at h
        obtain ⟨r, ⟨hr, hseen⟩, kd, hkd, e⟩ := h
        simp only [Prod.mk.injEq] at e
        obtain ⟨rfl, rfl, rfl, rfl⟩ := e
        exact ⟨[], row0, adj, rfl, hseen, by simp, r.2, hr, hkd⟩
      · obtain ⟨pre, row, post, rfl, hs, hp, h⟩ := (ih (u :: seen)).mp h
        have hs' : ¬ b = u ∧ b ∉ seen := by simpa using hs
        refine ⟨(u, row0) :: pre, row, post, rfl, hs'.2, ?_, h⟩
        intro hm
        rcases List.mem_cons.mp (by simpa using hm : b ∈ u :: pre.map (·.1)) with e | e
        · exact hs'.1 e
        · exact hp e
    · rintro ⟨pre, row, post, e, hs, hp, kds, hb, hk⟩
      cases pre with
      | nil =>
        simp only [List.nil_append, List.cons.injEq, Prod.mk.injEq] at e
        obtain ⟨⟨rfl, rfl⟩, rfl⟩ := e
        left
        simp only [List.mem_flatMap, List.mem_filter, List.mem_map, Bool.not_eq_true',
          List.contains_eq_mem, decide_eq_false_iff_not]
        exact ⟨(b, kds), ⟨hb, hs⟩, (k, l), hk, rfl⟩
      | cons p pre =>
        simp only [List.cons_append, List.cons.injEq] at e
        obtain ⟨rfl, rfl⟩ := e
        have hp' : b ∉ u :: pre.map (·.1) := by simpa using hp
        have hp1 : ¬ b = u := fun e => hp' (e ▸ List.mem_cons_self)
        have hp2 : b ∉ pre.map (·.1) := fun e => hp' (List.mem_cons_of_mem _ e)
        refine .inr ((ih (u :: seen)).mpr ⟨pre, row, post, rfl, ?_, hp2, kds, hb, hk⟩)
        intro hm
        rcases List.mem_cons.mp hm with e | e
        · exact hp1 e
        · exact hs e

/-- every listed edge is a bond (in both directions), with key 0 -/
theorem edges_good (g : Graph) (hw : WF g) (hs : Simple g) (a b : Int) (k : Nat) (l : Label)
    (h : (a, b, k, l) ∈ g.edges) : g.bond? a b = some l ∧ g.bond? b a = some l := by
  obtain ⟨pre, row, post, e, -, -, kds, hb, hk⟩ := (mem_edges_go g.adj [] a b k l).mp h
  have hnd : (g.adj.map (·.1)).Nodup := by have := hw.keys; unfold keys at this; rw [this]; exact hw.nodup
  have hrow : g.adjRow a = row := by
    rw [adjRow_eq]; exact rowOf_of_mem _ hnd a row (by rw [e]; simp)
  have hb' : (b, kds) ∈ g.adjRow a := hrow ▸ hb
  have hd : g.edgeData a b = kds := edgeData_of_mem_row g hw a (b, kds) hb'
  have hnb : b ∈ g.neighbors a := List.mem_map.mpr ⟨(b, kds), hb', rfl⟩
  obtain ⟨l', hl'⟩ := hs.single a b hnb
  rw [hd] at hl'
  subst hl'
  simp only [List.mem_singleton, Prod.mk.injEq] at hk
  obtain ⟨rfl, rfl⟩ := hk
  have h1 : g.bond? a b = some l := by simp [bond?, hd]
  exact ⟨h1, bond?_symm g hw hs a b l h1⟩

/-- every bond is listed, from one of its two ends -/
theorem bond_in_edges (g : Graph) (hw : WF g) (hs : Simple g) (a b : Int) (l : Label)
    (h : g.bond? a b = some l) : (a, b, 0, l) ∈ g.edges ∨ (b, a, 0, l) ∈ g.edges := by
  have hnd : (g.adj.map (·.1)).Nodup := by have := hw.keys; unfold keys at this; rw [this]; exact hw.nodup
  have hnb : b ∈ g.neighbors a := (bond?_isSome_iff g hs a b).mp ⟨l, h⟩
  have hd := edgeData_of_bond? g hs a b l h
  have hka : a ∈ g.keys := by
    apply Classical.byContradiction
    intro hn
    rw [neighbors_eq, adjRow_of_not_key g a hn] at hnb; simp at hnb
  have hmem := adjRow_mem_adj g a hka
  obtain ⟨pre, post, e⟩ := List.append_of_mem hmem
  have hba : (b, [(0, l)]) ∈ g.adjRow a := by
    have := rowOf_mem_of_key (g.adjRow a) b hnb
    rwa [← edgeData_eq, hd] at this
  by_cases hp : b ∈ pre.map (·.1)
  · -- `b`'s row comes first: the edge is listed as (b, a)
    right
    obtain ⟨⟨b', rowb⟩, hbr, rfl⟩ := List.mem_map.mp hp
    obtain ⟨pre1, pre2, e2⟩ := List.append_of_mem hbr
    have hsplit : g.adj = pre1 ++ (b', rowb) :: (pre2 ++ (a, g.adjRow a) :: post) := by
      rw [e, e2]; simp
    have hrowb : g.adjRow b' = rowb := by
      rw [adjRow_eq]; exact rowOf_of_mem _ hnd b' rowb (by rw [hsplit]; simp)
    have hsym : g.edgeData b' a = [(0, l)] := by rw [hw.symm a b' hnb, hd]
    have hab : (a, [(0, l)]) ∈ rowb := by
      have hna : a ∈ g.neighbors b' := by
        apply Classical.byContradiction
        intro hn
        rw [edgeData_of_not_nbr g b' a hn] at hsym; simp at hsym
      have := rowOf_mem_of_key (g.adjRow b') a hna
      rwa [← edgeData_eq, hsym, hrowb] at this
    have ha1 : a ∉ pre1.map (·.1) := by
      intro ha
      rw [hsplit] at hnd
      simp only [List.map_append, List.map_cons, List.nodup_append, List.nodup_cons, List.mem_append,
        List.mem_cons, List.mem_map] at hnd
      obtain ⟨x, hx, hxa⟩ := List.mem_map.mp ha
      exact hnd.2.2 x.1 ⟨x, hx, rfl⟩ a (.inr (.inr (.inl rfl))) hxa
    exact (mem_edges_go g.adj [] b' a 0 l).mpr ⟨pre1, rowb, _, hsplit, by simp, ha1, [(0, l)], hab, by simp⟩
  · left
    exact (mem_edges_go g.adj [] a b 0 l).mpr ⟨pre, g.adjRow a, post, e, by simp, hp, [(0, l)], hba, by simp⟩

/-! ### the reaction centre -/

/-- `a – b` is a bond of the ITS whose two label components differ; `l` is its label -/
def IsRcBond (its : Graph) (a b : Int) (l : Label) : Prop := its.bond? a b = some l ∧ isRcLabel l = true

/-- `n` is an end atom of a changed bond -/
def IsRcAtom (its : Graph) (n : Int) : Prop := ∃ b l, IsRcBond its n b l

/-- the edge data the reaction centre must have between `a` and `b` -/
def rcData (its : Graph) (a b : Int) : List (Nat × Label) :=
  ((rcBond its a b).map fun l => [(0, l)]).getD []

/-- **specification of `get_rc`**: the nodes are exactly the end atoms of changed bonds, with the
    symbols of the ITS; the bonds are exactly the changed bonds with their labels -/
structure RcSpec (its rc : Graph) : Prop where
  nodes : ∀ n, n ∈ rc.nodeIds ↔ IsRcAtom its n
  symbols : ∀ n, n ∈ rc.nodeIds → rc.symbol? n = its.symbol? n
  bonds : ∀ a b, rc.edgeData a b = rcData its a b

theorem rcBond_eq_some (its : Graph) (a b : Int) (l : Label) : rcBond its a b = some l ↔ IsRcBond its a b l := by
  unfold rcBond IsRcBond
  cases h : its.bond? a b with
  | none => simp
  | some l' =>
    by_cases hl : isRcLabel l' = true
    · simp only [hl, if_true, Option.some.injEq]
      constructor
      · rintro rfl; exact ⟨rfl, hl⟩
      · rintro ⟨e, _⟩; exact e
    · simp only [hl, Option.some.injEq]
      constructor
      · intro h; cases h
      · rintro ⟨e, h2⟩; exact absurd (e ▸ h2) hl

theorem rcData_of_bond (its : Graph) (a b : Int) (l : Label) (h : IsRcBond its a b l) : rcData its a b = [(0, l)] := by
  simp [rcData, (rcBond_eq_some its a b l).mpr h]

theorem rcData_ne_nil (its : Graph) (a b : Int) (h : rcData its a b ≠ []) : ∃ l, IsRcBond its a b l := by
  unfold rcData at h
  cases hb : rcBond its a b with
  | none => simp [hb] at h
  | some l => exact ⟨l, (rcBond_eq_some its a b l).mp hb⟩

theorem isRcNode_iff (its : Graph) (hs : Simple its) (n : Int) : isRcNode its n = true ↔ IsRcAtom its n := by
  simp only [isRcNode, List.any_eq_true, Option.isSome_iff_exists, IsRcAtom]
  constructor
  · rintro ⟨b, _, l, hl⟩; exact ⟨b, l, (rcBond_eq_some its n b l).mp hl⟩
  · rintro ⟨b, l, h⟩
    exact ⟨b, (bond?_isSome_iff its hs n b).mp ⟨l, h.1⟩, l, (rcBond_eq_some its n b l).mpr h⟩

/-- has a changed bond between `a` and `b` been processed -/
def covered (P : List (Int × Int × Nat × Label)) (a b : Int) : Prop :=
  ∃ e, e ∈ P ∧ isRcLabel e.2.2.2 = true ∧ ((e.1 = a ∧ e.2.1 = b) ∨ (e.1 = b ∧ e.2.1 = a))

/-- loop invariant of `get_rc` after the edges `P` -/
structure RcInv (its : Graph) (P : List (Int × Int × Nat × Label)) (rc : Graph) : Prop where
  multi : rc.multi = false
  keys : rc.keys = rc.nodeIds
  nodes : ∀ n, n ∈ rc.nodeIds ↔ ∃ e, e ∈ P ∧ isRcLabel e.2.2.2 = true ∧ (n = e.1 ∨ n = e.2.1)
  symbols : ∀ n, n ∈ rc.nodeIds → rc.symbol? n = its.symbol? n
  bondsYes : ∀ a b, covered P a b → rc.edgeData a b = rcData its a b
  bondsNo : ∀ a b, ¬ covered P a b → rc.edgeData a b = []

theorem orElse_self {α : Type} (x : Option α) : (x.orElse fun _ => x) = x := by cases x <;> rfl

theorem rcInv_step (its : Graph) (P : List (Int × Int × Nat × Label)) (rc : Graph) (e : Int × Int × Nat × Label)
    (hgood : isRcLabel e.2.2.2 = true → IsRcBond its e.1 e.2.1 e.2.2.2 ∧ IsRcBond its e.2.1 e.1 e.2.2.2)
    (inv : RcInv its P rc) : RcInv its (P ++ [e]) (rcStep its rc e) := by
  obtain ⟨u, v, k, l⟩ := e
  simp only at hgood
  unfold rcStep
  simp only
  by_cases hl : isRcLabel l = true
  · rw [if_pos hl]
    obtain ⟨hg1, hg2⟩ := hgood hl
    -- the two `add_node` calls
    let rc1 := rc.addNode u { symbol := its.symbol? u }
    let rc2 := rc1.addNode v { symbol := its.symbol? v }
    have m1 : rc1.multi = false := (multi_addNode rc u _).trans inv.multi
    have m2 : rc2.multi = false := (multi_addNode rc1 v _).trans m1
    have k1 : rc1.keys = rc1.nodeIds := keys_addNode rc u _ inv.keys
    have k2 : rc2.keys = rc2.nodeIds := keys_addNode rc1 v _ k1
    have n1 : ∀ m, m ∈ rc1.nodeIds ↔ m = u ∨ m ∈ rc.nodeIds := mem_nodeIds_addNode rc u _
    have n2 : ∀ m, m ∈ rc2.nodeIds ↔ m = v ∨ m = u ∨ m ∈ rc.nodeIds := by
      intro m; rw [mem_nodeIds_addNode rc1 v _ m, n1]
    have hu2 : u ∈ rc2.nodeIds := (n2 u).mpr (.inr (.inl rfl))
    have hv2 : v ∈ rc2.nodeIds := (n2 v).mpr (.inl rfl)
    have s1 : ∀ m, m ∈ rc1.nodeIds → rc1.symbol? m = its.symbol? m := by
      intro m hm
      rw [symbol?_addNode]
      by_cases hmu : m = u
      · subst hmu
        by_cases hin : m ∈ rc.nodeIds
        · simp [hin, inv.symbols m hin]
        · simp [hin]
      · rw [if_neg hmu]
        exact inv.symbols m (((n1 m).mp hm).resolve_left hmu)
    have s2 : ∀ m, m ∈ rc2.nodeIds → rc2.symbol? m = its.symbol? m := by
      intro m hm
      rw [symbol?_addNode]
      by_cases hmv : m = v
      · subst hmv
        by_cases hin : m ∈ rc1.nodeIds
        · simp [hin, s1 m hin]
        · simp [hin]
      · rw [if_neg hmv]
        exact s1 m (((mem_nodeIds_addNode rc1 v _ m).mp hm).resolve_left hmv)
    have d2 : ∀ a b, rc2.edgeData a b = rc.edgeData a b := by
      intro a b
      rw [edgeData_eq, edgeData_eq, adjRow_addNode, adjRow_addNode]
    have hcov : ∀ a b, covered (P ++ [(u, v, k, l)]) a b ↔ covered P a b ∨ (a = u ∧ b = v) ∨ (a = v ∧ b = u) := by
      intro a b
      simp only [covered, List.mem_append, List.mem_singleton]
      constructor
      · rintro ⟨e, he | rfl, h1, h2⟩
        · exact .inl ⟨e, he, h1, h2⟩
        · rcases h2 with ⟨rfl, rfl⟩ | ⟨rfl, rfl⟩
          · exact .inr (.inl ⟨rfl, rfl⟩)
          · exact .inr (.inr ⟨rfl, rfl⟩)
      · rintro (⟨e, he, h1, h2⟩ | ⟨rfl, rfl⟩ | ⟨rfl, rfl⟩)
        · exact ⟨e, .inl he, h1, h2⟩
        · exact ⟨_, .inr rfl, hl, .inl ⟨rfl, rfl⟩⟩
        · exact ⟨_, .inr rfl, hl, .inr ⟨rfl, rfl⟩⟩
    show RcInv its (P ++ [(u, v, k, l)]) (rc2.addEdge u v l)
    have hku : u ∈ rc2.keys := k2 ▸ hu2
    have hkv : v ∈ rc2.keys := k2 ▸ hv2
    refine ⟨multi_addEdge rc2 u v l hu2 hv2 m2, ?_, ?_, ?_, ?_, ?_⟩
    · rw [keys_addEdge rc2 u v l hu2 hv2 m2, nodeIds_addEdge rc2 u v l hu2 hv2 m2]; exact k2
    · intro n
      rw [nodeIds_addEdge rc2 u v l hu2 hv2 m2, n2, inv.nodes]
      simp only [List.mem_append, List.mem_singleton]
      constructor
      · rintro (rfl | rfl | ⟨e, he, h1, h2⟩)
        · exact ⟨_, .inr rfl, hl, .inr rfl⟩
        · exact ⟨_, .inr rfl, hl, .inl rfl⟩
        · exact ⟨e, .inl he, h1, h2⟩
      · rintro ⟨e, he | rfl, h1, h2⟩
        · exact .inr (.inr ⟨e, he, h1, h2⟩)
        · rcases h2 with rfl | rfl
          · exact .inr (.inl rfl)
          · exact .inl rfl
    · intro n hn
      rw [nodeIds_addEdge rc2 u v l hu2 hv2 m2] at hn
      simp only [symbol?, attr?_addEdge rc2 u v l hu2 hv2 m2]
      exact s2 n hn
    · intro a b hc
      rw [edgeData_addEdge rc2 u v l hu2 hv2 m2 hku hkv]
      by_cases hm : (a = u ∧ b = v) ∨ (a = v ∧ b = u)
      · rw [if_pos hm]
        rcases hm with ⟨rfl, rfl⟩ | ⟨rfl, rfl⟩
        · exact (rcData_of_bond its _ _ l hg1).symm
        · exact (rcData_of_bond its _ _ l hg2).symm
      · rw [if_neg hm, d2]
        exact inv.bondsYes a b (((hcov a b).mp hc).resolve_right hm)
    · intro a b hc
      rw [hcov] at hc
      have hm : ¬ ((a = u ∧ b = v) ∨ (a = v ∧ b = u)) := fun h => hc (.inr h)
      rw [edgeData_addEdge rc2 u v l hu2 hv2 m2 hku hkv, if_neg hm, d2]
      exact inv.bondsNo a b (fun h => hc (.inl h))
  · rw [if_neg hl]
    have hcov : ∀ a b, covered (P ++ [(u, v, k, l)]) a b ↔ covered P a b := by
      intro a b
      simp only [covered, List.mem_append, List.mem_singleton]
      constructor
      · rintro ⟨e, he | rfl, h1, h2⟩
        · exact ⟨e, he, h1, h2⟩
        · exact absurd h1 hl
      · rintro ⟨e, he, h1, h2⟩; exact ⟨e, .inl he, h1, h2⟩
    refine ⟨inv.multi, inv.keys, ?_, inv.symbols, ?_, ?_⟩
    · intro n
      rw [inv.nodes]
      simp only [List.mem_append, List.mem_singleton]
      constructor
      · rintro ⟨e, he, h1, h2⟩; exact ⟨e, .inl he, h1, h2⟩
      · rintro ⟨e, he | rfl, h1, h2⟩
        · exact ⟨e, he, h1, h2⟩
        · exact absurd h1 hl
    · intro a b hc; exact inv.bondsYes a b ((hcov a b).mp hc)
    · intro a b hc; exact inv.bondsNo a b (fun h => hc ((hcov a b).mpr h))

theorem rcInv_fold (its : Graph) (es : List (Int × Int × Nat × Label))
    (hgood : ∀ e, e ∈ es → isRcLabel e.2.2.2 = true → IsRcBond its e.1 e.2.1 e.2.2.2 ∧ IsRcBond its e.2.1 e.1 e.2.2.2) :
    ∀ (P : List (Int × Int × Nat × Label)) (rc : Graph), RcInv its P rc → RcInv its (P ++ es) (es.foldl (rcStep its) rc) := by
  induction es with
  | nil => intro P rc inv; simpa using inv
  | cons e es ih =>
    intro P rc inv
    have := ih (fun e' he' => hgood e' (List.mem_cons_of_mem _ he')) (P ++ [e]) _
      (rcInv_step its P rc e (hgood e List.mem_cons_self) inv)
    simpa using this

theorem rcInv_empty (its : Graph) : RcInv its [] {} := by
  refine ⟨rfl, rfl, ?_, ?_, ?_, ?_⟩
  · intro n; simp [nodeIds]
  · intro n hn; simp [nodeIds] at hn
  · rintro a b ⟨e, he, _⟩; simp at he
  · intro a b _; rfl

/-- `C11.rc_exact` with the well-formedness facts as hypotheses — on every well-formed simple graph (every networkx `Graph`), the model of
    `get_rc` returns exactly the bonds whose two label components differ, with their end atoms and
    the atoms' symbols. -/
theorem rc_exact_wf (its : Graph) (hw : WF its) (hs : Simple its) : RcSpec its (getRc its) := by
  have hgood : ∀ e, e ∈ its.edges → isRcLabel e.2.2.2 = true →
      IsRcBond its e.1 e.2.1 e.2.2.2 ∧ IsRcBond its e.2.1 e.1 e.2.2.2 := by
    rintro ⟨a, b, k, l⟩ he hl
    have := edges_good its hw hs a b k l he
    exact ⟨⟨this.1, hl⟩, ⟨this.2, hl⟩⟩
  have inv := rcInv_fold its its.edges hgood [] {} (rcInv_empty its)
  simp only [List.nil_append] at inv
  have hcov : ∀ a b l, IsRcBond its a b l → covered its.edges a b := by
    intro a b l h
    rcases bond_in_edges its hw hs a b l h.1 with he | he
    · exact ⟨_, he, h.2, .inl ⟨rfl, rfl⟩⟩
    · exact ⟨_, he, h.2, .inr ⟨rfl, rfl⟩⟩
  refine ⟨?_, inv.symbols, ?_⟩
  · intro n
    show n ∈ (its.edges.foldl (rcStep its) {}).nodeIds ↔ _
    rw [inv.nodes]
    constructor
    · rintro ⟨⟨a, b, k, l⟩, he, hl, rfl | rfl⟩
      · exact ⟨b, l, (hgood _ he hl).1⟩
      · exact ⟨a, l, (hgood _ he hl).2⟩
    · rintro ⟨b, l, h⟩
      rcases bond_in_edges its hw hs n b l h.1 with he | he
      · exact ⟨_, he, h.2, .inl rfl⟩
      · exact ⟨_, he, h.2, .inr rfl⟩
  · intro a b
    show (its.edges.foldl (rcStep its) {}).edgeData a b = _
    by_cases hc : covered its.edges a b
    · exact inv.bondsYes a b hc
    · rw [inv.bondsNo a b hc]
      apply Classical.byContradiction
      intro hne
      obtain ⟨l, hl⟩ := rcData_ne_nil its a b (fun e => hne e.symm)
      exact hc (hcov a b l hl)

/-- the reaction centre's node list has no duplicates and its adjacency rows are its nodes -/
theorem rc_keys (its : Graph) (hw : WF its) (hs : Simple its) : (getRc its).keys = (getRc its).nodeIds := by
  have hgood : ∀ e, e ∈ its.edges → isRcLabel e.2.2.2 = true →
      IsRcBond its e.1 e.2.1 e.2.2.2 ∧ IsRcBond its e.2.1 e.1 e.2.2.2 := by
    rintro ⟨a, b, k, l⟩ he hl
    have := edges_good its hw hs a b k l he
    exact ⟨⟨this.1, hl⟩, ⟨this.2, hl⟩⟩
  exact (rcInv_fold its its.edges hgood [] {} (rcInv_empty its)).keys

/-! ### the executable checker -/

theorem mem_allIds_of_key (g : Graph) (x : Int) (h : x ∈ g.keys) : x ∈ allIds g := by
  obtain ⟨r, hr, rfl⟩ := List.mem_map.mp h
  simp only [allIds, List.mem_append, List.mem_flatMap]
  exact .inr ⟨r, hr, List.mem_cons_self⟩

theorem mem_allIds_of_nbr (g : Graph) (x y : Int) (h : y ∈ g.neighbors x) : y ∈ allIds g := by
  have hx : x ∈ g.keys := by
    apply Classical.byContradiction
    intro hn
    rw [neighbors_eq, adjRow_of_not_key g x hn] at h; simp at h
  simp only [allIds, List.mem_append, List.mem_flatMap]
  exact .inr ⟨_, adjRow_mem_adj g x hx, List.mem_cons_of_mem _ h⟩

/-- **C11.specRc_sound** — what the driver checks on an implementation output implies `RcSpec` -/
theorem specRc_sound (its rc : Graph) (hs : Simple its) (h : specRc its rc = true) : RcSpec its rc := by
  simp only [specRc, Bool.and_eq_true, List.all_eq_true, beq_iff_eq, List.mem_append] at h
  obtain ⟨⟨h1, h2⟩, h3⟩ := h
  have hnone : ∀ (g : Graph) (a b : Int), (a ∉ allIds g ∨ b ∉ allIds g) → g.edgeData a b = [] := by
    intro g a b hab
    apply edgeData_of_not_nbr
    intro hn
    rcases hab with ha | hb
    · have hx : a ∈ g.keys := by
        apply Classical.byContradiction
        intro hk
        rw [neighbors_eq, adjRow_of_not_key g a hk] at hn; simp at hn
      exact ha (mem_allIds_of_key g a hx)
    · exact hb (mem_allIds_of_nbr g a b hn)
  refine ⟨?_, ?_, ?_⟩
  · intro n
    rw [← isRcNode_iff its hs]
    by_cases hn : n ∈ allIds its ∨ n ∈ allIds rc
    · have := h1 n hn
      simp only [List.contains_eq_mem] at this
      constructor
      · intro hm
        have e : decide (n ∈ rc.nodeIds) = true := by simpa using hm
        rw [← this, e]
      · intro hr
        rw [hr] at this
        simpa using this
    · simp only [not_or] at hn
      constructor
      · intro hm; exact absurd (by simp [allIds, hm]) hn.2
      · intro hr
        obtain ⟨b, hb, _⟩ := List.any_eq_true.mp hr
        have hx : n ∈ its.keys := by
          apply Classical.byContradiction
          intro hk
          rw [neighbors_eq, adjRow_of_not_key its n hk] at hb; simp at hb
        exact absurd (mem_allIds_of_key its n hx) hn.1
  · intro n hn; exact h2 n hn
  · intro a b
    by_cases ha : a ∈ allIds its ∨ a ∈ allIds rc
    · by_cases hb : b ∈ allIds its ∨ b ∈ allIds rc
      · have := h3 a ha b hb
        rw [this]; rfl
      · simp only [not_or] at hb
        rw [hnone rc a b (.inr hb.2)]
        unfold rcData rcBond
        have : its.bond? a b = none := by simp [bond?, hnone its a b (.inr hb.1)]
        simp [this]
    · simp only [not_or] at ha
      rw [hnone rc a b (.inl ha.2)]
      unfold rcData rcBond
      have : its.bond? a b = none := by simp [bond?, hnone its a b (.inl ha.1)]
      simp [this]

end C11
