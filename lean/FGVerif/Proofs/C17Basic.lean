import FGVerif.Model.C17
/-!
  C17 — declarative specification and generic lemmas.

  * `Walk`, `Reach`, `ConnectedFrom`, `IsDist` : walks / connectivity / distance inside a vertex set
  * `Spec` : the property (no reference to the algorithm)
  * `specCheck_sound` : the executable checker applied to implementation outputs implies `Spec`
  * `sorted_unique` : two lists strictly sorted for the same asymmetric relation with the same
    members are equal (used for the canonical form of sets and for `unique_sets`)
-/
namespace C17

/-! ### walks inside a vertex set -/

/-- a walk of length `k` from `a` to `v` all of whose vertices lie in `S`;
    `nb v` are the neighbours of `v` -/
inductive Walk (nb : Nat → List Nat) (S : List Nat) : Nat → Nat → Nat → Prop
  | refl {a : Nat} : a ∈ S → Walk nb S a a 0
  | step {a v w k : Nat} : Walk nb S a v k → w ∈ nb v → w ∈ S → Walk nb S a w (k + 1)

def Reach (nb : Nat → List Nat) (S : List Nat) (a v : Nat) : Prop := ∃ k, Walk nb S a v k

/-- `S` contains `a` and every member of `S` is reached from `a` by a walk inside `S`:
    the subgraph induced by `S` is connected (for a symmetric `nb`) -/
def ConnectedFrom (nb : Nat → List Nat) (a : Nat) (S : List Nat) : Prop :=
  a ∈ S ∧ ∀ v ∈ S, Reach nb S a v

/-- `d` is the distance from `a` to `v` in the subgraph induced by `S` -/
def IsDist (nb : Nat → List Nat) (S : List Nat) (a v d : Nat) : Prop :=
  Walk nb S a v d ∧ ∀ k, Walk nb S a v k → d ≤ k

def SameSet (U V : List Nat) : Prop := ∀ x, x ∈ U ↔ x ∈ V

/-- **the property**: `out` lists every connected vertex set containing the anchor exactly once
    and nothing else. -/
structure Spec (verts : List Nat) (nb : Nat → List Nat) (a : Nat) (out : List (List Nat)) : Prop where
  nodup : ∀ U ∈ out, U.Nodup
  inVerts : ∀ U ∈ out, ∀ u ∈ U, u ∈ verts
  connected : ∀ U ∈ out, ConnectedFrom nb a U
  distinct : out.Pairwise fun U V => ¬ SameSet U V
  complete : ∀ S : List Nat, (∀ s ∈ S, s ∈ verts) → ConnectedFrom nb a S → ∃ U ∈ out, SameSet U S

theorem Walk.start_mem {nb S a v k} (h : Walk nb S a v k) : a ∈ S := by
  induction h with
  | refl h => exact h
  | step _ _ _ ih => exact ih

theorem Walk.end_mem {nb S a v k} (h : Walk nb S a v k) : v ∈ S := by
  cases h with
  | refl h => exact h
  | step _ _ h => exact h

theorem Walk.mono {nb S T a v k} (h : Walk nb S a v k) (hst : ∀ x ∈ S, x ∈ T) : Walk nb T a v k := by
  induction h with
  | refl h => exact .refl (hst _ h)
  | step _ hn hm ih => exact .step ih hn (hst _ hm)

theorem Walk.zero_eq {nb S a v} (h : Walk nb S a v 0) : v = a := by
  cases h; rfl

theorem Walk.succ_inv {nb S a v k} (h : Walk nb S a v (k + 1)) :
    ∃ w, Walk nb S a w k ∧ v ∈ nb w ∧ v ∈ S := by
  cases h with
  | step h1 h2 h3 => exact ⟨_, h1, h2, h3⟩

/-- walks for two neighbour functions that agree as sets -/
theorem Walk.congr_nb {nb nb' S a v k} (h : Walk nb S a v k)
    (hnb : ∀ x y, x ∈ S → y ∈ nb x → y ∈ nb' x) : Walk nb' S a v k := by
  induction h with
  | refl h => exact .refl h
  | step h1 hn hm ih => exact .step ih (hnb _ _ h1.end_mem hn) hm

theorem IsDist.unique {nb S a v d d'} (h : IsDist nb S a v d) (h' : IsDist nb S a v d') : d = d' :=
  Nat.le_antisymm (h.2 _ h'.1) (h'.2 _ h.1)

theorem IsDist.sameSet {nb S T a v d} (h : IsDist nb S a v d) (hst : SameSet S T) : IsDist nb T a v d :=
  ⟨h.1.mono fun x hx => (hst x).1 hx, fun k hk => h.2 k (hk.mono fun x hx => (hst x).2 hx)⟩

theorem ConnectedFrom.sameSet {nb a S T} (h : ConnectedFrom nb a S) (hst : SameSet S T) :
    ConnectedFrom nb a T :=
  ⟨(hst a).1 h.1, fun v hv => by
    obtain ⟨k, hk⟩ := h.2 v ((hst v).2 hv)
    exact ⟨k, hk.mono fun x hx => (hst x).1 hx⟩⟩

/-- every non-empty set of naturals has a least element -/
theorem exists_least (P : Nat → Prop) (h : ∃ k, P k) : ∃ m, P m ∧ ∀ k, P k → m ≤ k := by
  obtain ⟨k, hk⟩ := h
  induction k using Nat.strongRecOn with
  | _ k ih =>
    by_cases hmin : ∀ j, P j → k ≤ j
    · exact ⟨k, hk, hmin⟩
    · have : ∃ j, P j ∧ j < k := by
        apply Classical.byContradiction
        intro hne
        apply hmin
        intro j hj
        apply Classical.byContradiction
        intro hlt
        exact hne ⟨j, hj, by omega⟩
      obtain ⟨j, hj, hjk⟩ := this
      exact ih j hjk hj

theorem Reach.exists_isDist {nb S a v} (h : Reach nb S a v) : ∃ d, IsDist nb S a v d :=
  exists_least (fun k => Walk nb S a v k) h

/-! ### strictly sorted lists with the same members are equal -/

theorem sorted_unique {α : Type} {R : α → α → Prop} (asymm : ∀ a b, R a b → R b a → False) :
    ∀ (l₁ l₂ : List α), l₁.Pairwise R → l₂.Pairwise R → (∀ x, x ∈ l₁ ↔ x ∈ l₂) → l₁ = l₂ := by
  intro l₁
  induction l₁ with
  | nil =>
    intro l₂ _ _ h
    cases l₂ with
    | nil => rfl
    | cons b t => exact absurd ((h b).2 List.mem_cons_self) (by simp)
  | cons a t₁ ih =>
    intro l₂ h₁ h₂ h
    cases l₂ with
    | nil => exact absurd ((h a).1 List.mem_cons_self) (by simp)
    | cons b t₂ =>
      rw [List.pairwise_cons] at h₁ h₂
      have hab : a = b := by
        apply Classical.byContradiction
        intro hne
        have ha : a ∈ t₂ := by
          have := (h a).1 List.mem_cons_self
          rcases List.mem_cons.mp this with e | e
          · exact absurd e hne
          · exact e
        have hb : b ∈ t₁ := by
          have := (h b).2 List.mem_cons_self
          rcases List.mem_cons.mp this with e | e
          · exact absurd e.symm hne
          · exact e
        exact asymm a b (h₁.1 b hb) (h₂.1 a ha)
      subst hab
      have hna₁ : a ∉ t₁ := fun hm => asymm a a (h₁.1 a hm) (h₁.1 a hm)
      have hna₂ : a ∉ t₂ := fun hm => asymm a a (h₂.1 a hm) (h₂.1 a hm)
      have : t₁ = t₂ := by
        apply ih t₂ h₁.2 h₂.2
        intro x
        constructor
        · intro hx
          have := (h x).1 (List.mem_cons_of_mem _ hx)
          rcases List.mem_cons.mp this with e | e
          · subst e; exact absurd hx hna₁
          · exact e
        · intro hx
          have := (h x).2 (List.mem_cons_of_mem _ hx)
          rcases List.mem_cons.mp this with e | e
          · subst e; exact absurd hx hna₂
          · exact e
      rw [this]

/-! ### canonical form of a set -/

theorem mem_insertSorted (x y : Nat) (l : List Nat) : y ∈ insertSorted x l ↔ y = x ∨ y ∈ l := by
  induction l with
  | nil => simp [insertSorted]
  | cons z zs ih =>
    simp only [insertSorted]
    split
    · simp
    · split
      · rename_i h1 h2; subst h2; simp
      · simp only [List.mem_cons, ih]
        constructor
        · rintro (h | h | h) <;> simp [h]
        · rintro (h | h | h) <;> simp [h]

theorem insertSorted_sorted (x : Nat) (l : List Nat) (h : l.Pairwise (· < ·)) :
    (insertSorted x l).Pairwise (· < ·) := by
  induction l with
  | nil => simp [insertSorted]
  | cons z zs ih =>
    rw [List.pairwise_cons] at h
    simp only [insertSorted]
    split
    · rename_i hxz
      rw [List.pairwise_cons]
      refine ⟨?_, List.pairwise_cons.mpr h⟩
      intro y hy
      rcases List.mem_cons.mp hy with e | e
      · omega
      · have := h.1 y e; omega
    · split
      · exact List.pairwise_cons.mpr h
      · rename_i h1 h2
        rw [List.pairwise_cons]
        refine ⟨?_, ih h.2⟩
        intro y hy
        rcases (mem_insertSorted x y zs).1 hy with e | e
        · omega
        · exact h.1 y e

theorem mem_canonSet (U : List Nat) (y : Nat) : y ∈ canonSet U ↔ y ∈ U := by
  induction U with
  | nil => simp [canonSet]
  | cons x xs ih =>
    have : canonSet (x :: xs) = insertSorted x (canonSet xs) := rfl
    rw [this, mem_insertSorted, ih]; simp

theorem canonSet_sorted (U : List Nat) : (canonSet U).Pairwise (· < ·) := by
  induction U with
  | nil => simp [canonSet]
  | cons x xs ih =>
    have : canonSet (x :: xs) = insertSorted x (canonSet xs) := rfl
    rw [this]; exact insertSorted_sorted x _ ih

theorem canonSet_eq_iff (U V : List Nat) : canonSet U = canonSet V ↔ SameSet U V := by
  constructor
  · intro h x
    rw [← mem_canonSet U, ← mem_canonSet V, h]
  · intro h
    apply sorted_unique (R := (· < ·)) (fun a b h1 h2 => by omega) _ _ (canonSet_sorted U) (canonSet_sorted V)
    intro x
    rw [mem_canonSet, mem_canonSet]; exact h x

theorem pairwiseDistinct_iff (l : List (List Nat)) : pairwiseDistinct l = true ↔ l.Pairwise (· ≠ ·) := by
  induction l with
  | nil => simp [pairwiseDistinct]
  | cons x xs ih =>
    simp only [pairwiseDistinct, Bool.and_eq_true, List.all_eq_true, bne_iff_ne, ne_eq,
      List.pairwise_cons, ih]

/-! ### the connectivity test -/

section conn
variable (nb : Nat → List Nat) (S : List Nat)

theorem mem_expand (R : List Nat) (x : Nat) :
    x ∈ expand nb S R ↔ x ∈ R ∨ (x ∈ S ∧ x ∉ R ∧ ∃ r ∈ R, x ∈ nb r) := by
  simp [expand, List.mem_append, List.mem_filter]

theorem subset_expand (R : List Nat) : ∀ x ∈ R, x ∈ expand nb S R := fun x hx =>
  (mem_expand nb S R x).2 (Or.inl hx)

theorem subset_grow : ∀ (k : Nat) (R : List Nat), ∀ x ∈ R, x ∈ grow nb S k R := by
  intro k
  induction k with
  | zero => intro R x hx; exact hx
  | succ k ih => intro R x hx; exact ih _ x (subset_expand nb S R x hx)

/-- soundness: everything `grow` collects is reachable -/
theorem grow_reach (a : Nat) : ∀ (k : Nat) (R : List Nat), (∀ r ∈ R, Reach nb S a r) →
    ∀ x ∈ grow nb S k R, Reach nb S a x := by
  intro k
  induction k with
  | zero => intro R h x hx; exact h x hx
  | succ k ih =>
    intro R h x hx
    apply ih (expand nb S R) _ x hx
    intro r hr
    rcases (mem_expand nb S R r).1 hr with h1 | ⟨hs, _, r', hr', hadj⟩
    · exact h r h1
    · obtain ⟨j, hj⟩ := h r' hr'
      exact ⟨j + 1, .step hj hadj hs⟩

theorem connectedB_sound (a : Nat) (h : connectedB nb a S = true) : ConnectedFrom nb a S := by
  simp only [connectedB, Bool.and_eq_true, List.contains_eq_mem, decide_eq_true_eq, List.all_eq_true] at h
  obtain ⟨ha, hall⟩ := h
  refine ⟨ha, fun v hv => ?_⟩
  apply grow_reach nb S a S.length [a] _ v (hall v hv)
  intro r hr
  have : r = a := by simpa using hr
  subst this
  exact ⟨0, .refl ha⟩

/-- `R` is closed under taking neighbours inside `S` -/
def Closed (R : List Nat) : Prop := ∀ r ∈ R, ∀ s ∈ nb r, s ∈ S → s ∈ R

theorem expand_closed (R : List Nat) (h : Closed nb S R) : expand nb S R = R := by
  have : S.filter (fun s => !R.contains s && R.any fun r => (nb r).contains s) = [] := by
    rw [List.filter_eq_nil_iff]
    intro s hs
    simp only [Bool.and_eq_true, Bool.not_eq_true', List.any_eq_true, List.contains_eq_mem,
      decide_eq_true_eq, not_and, not_exists, decide_eq_false_iff_not]
    intro hnot r hr hadj
    exact hnot (h r hr s hadj hs)
  unfold expand
  rw [this]; simp

theorem grow_closed : ∀ (k : Nat) (R : List Nat), Closed nb S R → grow nb S k R = R := by
  intro k
  induction k with
  | zero => intro R _; rfl
  | succ k ih => intro R h; simp only [grow]; rw [expand_closed nb S R h]; exact ih R h

theorem closed_of_length (R : List Nat) (h : (expand nb S R).length ≤ R.length) : Closed nb S R := by
  intro r hr s hadj hs
  apply Classical.byContradiction
  intro hnot
  have hmem : s ∈ S.filter (fun s => !R.contains s && R.any fun r => (nb r).contains s) := by
    rw [List.mem_filter]
    refine ⟨hs, ?_⟩
    simp only [Bool.and_eq_true, Bool.not_eq_true', List.any_eq_true, List.contains_eq_mem,
      decide_eq_true_eq, decide_eq_false_iff_not]
    exact ⟨hnot, r, hr, hadj⟩
  have hpos : 0 < (S.filter (fun s => !R.contains s && R.any fun r => (nb r).contains s)).length :=
    List.length_pos_of_mem hmem
  simp only [expand, List.length_append] at h
  omega

theorem grow_progress : ∀ (k : Nat) (R : List Nat),
    R.length + k ≤ (grow nb S k R).length ∨ Closed nb S (grow nb S k R) := by
  intro k
  induction k with
  | zero => intro R; left; simp [grow]
  | succ k ih =>
    intro R
    simp only [grow]
    by_cases hlen : (expand nb S R).length ≤ R.length
    · right
      have hc := closed_of_length nb S R hlen
      rw [expand_closed nb S R hc, grow_closed nb S k R hc]; exact hc
    · rcases ih (expand nb S R) with h | h
      · left; omega
      · right; exact h

theorem expand_nodup_subset (hS : S.Nodup) (R : List Nat) (hR : R.Nodup) (hsub : ∀ r ∈ R, r ∈ S) :
    (expand nb S R).Nodup ∧ ∀ r ∈ expand nb S R, r ∈ S := by
  constructor
  · simp only [expand]
    rw [List.nodup_append]
    refine ⟨hR, hS.filter _, ?_⟩
    intro x hx y hy hxy
    subst hxy
    rw [List.mem_filter] at hy
    simp only [Bool.and_eq_true, Bool.not_eq_true', List.contains_eq_mem, decide_eq_false_iff_not] at hy
    exact hy.2.1 hx
  · intro r hr
    rcases (mem_expand nb S R r).1 hr with h | h
    · exact hsub r h
    · exact h.1

theorem grow_nodup_subset (hS : S.Nodup) : ∀ (k : Nat) (R : List Nat), R.Nodup → (∀ r ∈ R, r ∈ S) →
    (grow nb S k R).Nodup ∧ ∀ r ∈ grow nb S k R, r ∈ S := by
  intro k
  induction k with
  | zero => intro R h1 h2; exact ⟨h1, h2⟩
  | succ k ih =>
    intro R h1 h2
    obtain ⟨h3, h4⟩ := expand_nodup_subset nb S hS R h1 h2
    exact ih _ h3 h4

/-- completeness of the test (on duplicate-free `S`) -/
theorem connectedB_complete (a : Nat) (hS : S.Nodup) (h : ConnectedFrom nb a S) :
    connectedB nb a S = true := by
  simp only [connectedB, Bool.and_eq_true, List.contains_eq_mem, decide_eq_true_eq, List.all_eq_true]
  refine ⟨h.1, fun v hv => ?_⟩
  have hnd := grow_nodup_subset nb S hS S.length [a] (by simp) (by intro r hr; simp at hr; subst hr; exact h.1)
  have hle : (grow nb S S.length [a]).length ≤ S.length :=
    List.Nodup.length_le_of_subset hnd.1 (fun x hx => hnd.2 x hx)
  have hclosed : Closed nb S (grow nb S S.length [a]) := by
    rcases grow_progress nb S S.length [a] with h1 | h1
    · simp at h1; omega
    · exact h1
  have ha : a ∈ grow nb S S.length [a] := subset_grow nb S _ _ a (by simp)
  obtain ⟨k, hk⟩ := h.2 v hv
  have : ∀ k v, Walk nb S a v k → v ∈ grow nb S S.length [a] := by
    intro k v hw
    induction hw with
    | refl _ => exact ha
    | step _ hadj hs ih => exact hclosed _ ih _ hadj hs
  exact this k v hk

end conn

/-! ### all subsets -/

theorem filter_mem_subsets (p : Nat → Bool) : ∀ l : List Nat, l.filter p ∈ subsets l := by
  intro l
  induction l with
  | nil => simp [subsets]
  | cons x xs ih =>
    simp only [subsets, List.filter_cons, List.mem_append, List.mem_map]
    by_cases hp : p x = true
    · right; exact ⟨_, ih, by simp [hp]⟩
    · left; simpa [hp] using ih

theorem mem_subsets_sublist : ∀ (l s : List Nat), s ∈ subsets l → s.Sublist l := by
  intro l
  induction l with
  | nil => intro s h; simp [subsets] at h; subst h; exact List.Sublist.slnil
  | cons x xs ih =>
    intro s h
    simp only [subsets, List.mem_append, List.mem_map] at h
    rcases h with h | ⟨t, ht, rfl⟩
    · exact (ih s h).cons x
    · exact (ih t ht).cons_cons x

/-! ### the executable checker implies the specification -/

theorem allConnectedSubsets_complete (verts : List Nat) (nb : Nat → List Nat) (a : Nat)
    (hv : verts.Nodup) (S : List Nat) (hS : ∀ s ∈ S, s ∈ verts) (hc : ConnectedFrom nb a S) :
    ∃ T ∈ allConnectedSubsets verts nb a, SameSet T S := by
  let T := a :: (verts.filter (· != a)).filter (fun x => S.contains x)
  have hsame : SameSet T S := by
    intro x
    simp only [T, List.mem_cons, List.mem_filter, bne_iff_ne, ne_eq, List.contains_eq_mem,
      decide_eq_true_eq]
    constructor
    · rintro (h | h)
      · subst h; exact hc.1
      · exact h.2
    · intro hx
      by_cases hxa : x = a
      · left; exact hxa
      · right; exact ⟨⟨hS x hx, hxa⟩, hx⟩
  have hnd : T.Nodup := by
    simp only [T]
    rw [List.nodup_cons]
    constructor
    · simp [List.mem_filter]
    · exact (hv.filter _).filter _
  refine ⟨T, ?_, hsame⟩
  simp only [allConnectedSubsets]
  rw [List.mem_filter]
  refine ⟨List.mem_map.mpr ⟨_, filter_mem_subsets _ _, rfl⟩, ?_⟩
  apply connectedB_complete nb T a hnd
  exact hc.sameSet (fun x => (hsame x).symm)

/-- **soundness of the executable checker**: an output that passes `specCheck` on a graph with
    duplicate-free vertex list satisfies the specification. -/
theorem specCheck_sound (verts : List Nat) (nb : Nat → List Nat) (a : Nat) (out : List (List Nat))
    (hv : verts.Nodup) (h : specCheck verts nb a out = true) : Spec verts nb a out := by
  simp only [specCheck, Bool.and_eq_true, List.all_eq_true, decide_eq_true_eq,
    List.contains_eq_mem] at h
  obtain ⟨⟨h1, h2⟩, h3⟩ := h
  refine ⟨fun U hU => (h1 U hU).1.1, fun U hU u hu => (h1 U hU).1.2 u hu,
    fun U hU => connectedB_sound nb U a (h1 U hU).2, ?_, ?_⟩
  · rw [pairwiseDistinct_iff, List.pairwise_map] at h2
    exact h2.imp fun hne hs => hne ((canonSet_eq_iff _ _).2 hs)
  · intro S hS hc
    obtain ⟨T, hT, hTS⟩ := allConnectedSubsets_complete verts nb a hv S hS hc
    have := h3 T hT
    rw [List.mem_map] at this
    obtain ⟨U, hU, hUT⟩ := this
    refine ⟨U, hU, ?_⟩
    intro x
    rw [← hTS x]
    exact (canonSet_eq_iff U T).1 hUT x

end C17
