import FGVerif.Proofs.C13Nodes
import FGVerif.Proofs.C13Edges
import FGVerif.Proofs.C13Relabel
/-!
  C13 — node substitution re-attaches each bond to the right anchor, nothing else moves.

  Property theorems about `Model/C13.lean` (every well-formed parent on ids `0..n-1`, simple or
  multigraph, any labels; every node of it without a self-loop; every well-formed sub-pattern on ids
  `0..m-1`; every anchor list inside the sub-pattern — `inDomain`, a decidable predicate):

  * `C13.replace_exact`   the model's result satisfies the declarative specification `Spec`:
      same graph kind; node list = all other parent nodes in order with attributes under
      `u ↦ u` / `u − 1`, then a verbatim copy of the sub-pattern's nodes under `j ↦ n − 1 + j`;
      between any two new names exactly the specified bond labels — parent bonds unchanged,
      sub-pattern bonds copied, the k-th incident bond of the node (in the incident order networkx
      reports after the composition step, declaratively `incSpec`) re-attached with its label to
      `anchor[min k (|anchor| − 1)]`, nothing else (`specLabels`; proved as equality of the label
      lists in key order, stated as a multiset)
  * `C13.replace_empty`   an empty sub-pattern deletes the node together with its bonds
  * `C13.specCheck_sound` the executable checker the driver runs on *implementation* outputs implies `Spec`
  * `C13.replace_specCheck` the model passes the checker
  * `C13.replace_wf`, `C13.replace_contiguous`  the result is again a well-formed graph on contiguous
      ids (so the step iterates: C14)
  * `C13.compose_incident_order`  the incident order after the composition step is `incSpec`
  * `C13.replace_exact_any`, … (Proofs/C13Any.lean)  the same theorems on the FULL domain `inDomainAny`: parent ids
      `0..n-1` (and sub-pattern ids `0..m-1`) in ANY node order — every clause of `Spec` holds verbatim; only
      `replace_contiguous` (ids in node order) needs an ordered parent, on the full domain the ids of the
      result are `0..n+m-2` in the inherited order (`replace_contiguousAny`, `replace_ids_perm`)
  * `C13.replace_exact_ids`, … (Proofs/C13Ids.lean, C13IdsA.lean)  ARBITRARY parent ids (`inDomainIds`: distinct integers in any
      order — offset, sparse, shuffled, negative): the result satisfies `SpecIds` (node list with attributes, bond labels
      for all pairs stated with the old names, nothing else created or lost), is well-formed and has ids `0..n+m-2`
  * `C13.offset_eq_of_inDomainAny`, `C13.replaceNode_eq_len` (Proofs/C13Offset.lean)  the model `replaceNode` numbers the
      inserted sub-pattern from `max id + 1` (the repaired `idx_offset`); on ids `0..n-1` that is `len(graph.nodes)`, the
      offset the lemma files `C13Nodes`/`C13Edges*` were developed for (`replaceNodeLen`); every theorem listed here is
      stated for `replaceNode`.  `C13.len_offset_collides`: outside that domain the two functions differ
  * `C13.relabel_exact`, `C13.relabel_spec`, `C13.relabelSpecCheck_sound`, `C13.rank_lt` (Proofs/C13Relabel.lean)
      `relabel_graph` renumbers order-preservingly onto `offset, offset+1, …` and keeps attributes and bonds
-/
namespace C13
open Graph

/-- the declarative specification of `replace_node` -/
structure Spec (g : Graph) (x : Int) (sub : Graph) (anchors : List Nat) (out : Graph) : Prop where
  multi : out.multi = g.multi
  nodes : out.nodes = specNodes g x sub
  labels : ∀ a b : Int, (labelsBetween out a b).Perm (specLabels g x sub anchors a b)

theorem replace_exact (g : Graph) (x : Int) (sub : Graph) (anchors : List Nat)
    (hd : inDomain g x sub anchors = true) : Spec g x sub anchors (replaceNode g x sub anchors) where
  multi := replaceNode_multi g x sub anchors
  nodes := replaceNode_nodes g x sub anchors (nodeDom_of_inDomain g x sub anchors hd)
  labels := fun a b => by rw [replace_labels g x sub anchors hd a b]

theorem replace_contiguous (g : Graph) (x : Int) (sub : Graph) (anchors : List Nat)
    (hd : inDomain g x sub anchors = true) : contiguous (replaceNode g x sub anchors) = true :=
  replaceNode_contiguous g x sub anchors (nodeDom_of_inDomain g x sub anchors hd)

/-! ### empty sub-pattern -/

/-- An empty sub-pattern deletes the node together with its bonds: the remaining nodes keep their
    attributes and mutual bonds (under the renumbering), and nothing else exists. -/
theorem replace_empty (g : Graph) (x : Int) (sub : Graph) (anchors : List Nat)
    (hd : inDomain g x sub anchors = true) (he : sub.nodes = []) :
    (replaceNode g x sub anchors).nodes = (g.nodes.filter (·.1 != x)).map (fun p => (ren x p.1, p.2)) ∧
    ∀ a b : Int, labelsBetween (replaceNode g x sub anchors) a b =
      if a < (g.nodes.length : Int) - 1 ∧ b < (g.nodes.length : Int) - 1
      then labelsBetween g (unren x a) (unren x b) else [] := by
  constructor
  · rw [(replace_exact g x sub anchors hd).nodes]; simp [specNodes, he]
  · intro a b
    rw [replace_labels g x sub anchors hd a b]
    unfold specLabels
    simp only [he, List.isEmpty_nil, if_true]
    split
    · rfl
    · split
      · -- both names in the (empty) sub-pattern range: the empty graph has no bonds
        have hs : wf sub = true := by
          simp only [inDomain, Bool.and_eq_true] at hd; exact hd.1.1.1.2
        have hrows : sub.adj.map (·.1) = sub.nodeIds := by
          simp only [wf, Bool.and_eq_true] at hs; exact eq_of_beq hs.1.1
        have : sub.adj = [] := by
          have : sub.adj.map (·.1) = [] := by rw [hrows]; simp [Graph.nodeIds, he]
          simpa using this
        simp [labelsBetween, Graph.edgeData, Graph.adjRow, this]
      · rfl

/-! ### the executable checker is sound -/

theorem edgeData_nil_of_closed (g : Graph) (hc : Closed g) (a b : Int)
    (h : g.hasNode a = false ∨ g.hasNode b = false) : g.edgeData a b = [] := by
  unfold Graph.edgeData Graph.adjRow
  cases hf : g.adj.find? (·.1 == a) with
  | none => simp
  | some r =>
    have hr := List.mem_of_find?_eq_some hf
    have hra : r.1 = a := by simpa using List.find?_some hf
    simp only
    cases hf2 : r.2.find? (·.1 == b) with
    | none => rfl
    | some e =>
      exfalso
      have he := List.mem_of_find?_eq_some hf2
      have heb : e.1 = b := by simpa using List.find?_some hf2
      have h1 := (hc r hr).1
      have h2 := (hc r hr).2 e he
      rw [hra] at h1; rw [heb] at h2
      rcases h with h | h <;> simp_all

theorem specCheck_sound (g : Graph) (x : Int) (sub : Graph) (anchors : List Nat) (out : Graph)
    (hd : inDomain g x sub anchors = true) (h : specCheck g x sub anchors out = true) :
    Spec g x sub anchors out := by
  simp only [specCheck, Bool.and_eq_true, List.all_eq_true] at h
  obtain ⟨⟨⟨hm, hn⟩, hcl⟩, hall⟩ := h
  have hnodes : out.nodes = specNodes g x sub := eq_of_beq hn
  refine ⟨eq_of_beq hm, hnodes, ?_⟩
  intro a b
  by_cases hab : a ∈ out.nodeIds ∧ b ∈ out.nodeIds
  · exact List.isPerm_iff.mp (hall a hab.1 b hab.2)
  · -- outside the node set both sides are empty
    have hout : out.hasNode a = false ∨ out.hasNode b = false := by
      by_cases ha : a ∈ out.nodeIds
      · right
        cases hb : out.hasNode b with
        | false => rfl
        | true => exact absurd ⟨ha, (hasNode_iff out b).mp hb⟩ hab
      · left
        cases hb : out.hasNode a with
        | false => rfl
        | true => exact absurd ((hasNode_iff out a).mp hb) ha
    have h1 : labelsBetween out a b = [] := by
      unfold labelsBetween; rw [edgeData_nil_of_closed out (closed_of_closedB out hcl) a b hout]; rfl
    -- the model realises the specification and has the same nodes
    have hmn : (replaceNode g x sub anchors).nodes = out.nodes := by
      rw [hnodes]; exact (replace_exact g x sub anchors hd).nodes
    have hmodel : (replaceNode g x sub anchors).hasNode a = false ∨ (replaceNode g x sub anchors).hasNode b = false := by
      rw [hasNode_of_nodes_eq hmn, hasNode_of_nodes_eq hmn]; exact hout
    have h2 : specLabels g x sub anchors a b = [] := by
      rw [← replace_labels g x sub anchors hd a b]
      unfold labelsBetween
      rw [edgeData_nil_of_closed _ (replaceNode_closed g x sub anchors) a b hmodel]; rfl
    rw [h1, h2]

theorem replace_specCheck (g : Graph) (x : Int) (sub : Graph) (anchors : List Nat)
    (hd : inDomain g x sub anchors = true) : specCheck g x sub anchors (replaceNode g x sub anchors) = true := by
  have hs := replace_exact g x sub anchors hd
  have hw := replace_wf g x sub anchors hd
  simp only [specCheck, Bool.and_eq_true, List.all_eq_true, beq_iff_eq]
  refine ⟨⟨⟨hs.multi, hs.nodes⟩, ?_⟩, ?_⟩
  · -- closedB from wf
    have hc := closed_of_wf _ hw
    simp only [closedB, List.all_eq_true, Bool.and_eq_true]
    intro r hr
    exact ⟨by simpa using (hasNode_iff _ _).mp (hc r hr).1, fun e he => by simpa using (hasNode_iff _ _).mp ((hc r hr).2 e he)⟩
  · intro a _ b _
    exact List.isPerm_iff.mpr (hs.labels a b)

/-! ### tests (non-vacuity on concrete inputs; these are tests, not part of the proofs) -/
section Tests

private def mkG (multi : Bool) (nodes : List (Int × NodeAttr)) (es : List Edge) : Graph :=
  addEdgesFrom { multi := multi, nodes := nodes, adj := nodes.map fun n => (n.1, []) } es

private def atom (i : Int) (s : String) : Int × NodeAttr := (i, { symbol := some s, labels := some [], isLabeled := some false })
private def lab (i : Int) (l : String) : Int × NodeAttr := (i, { symbol := some "#", labels := some [l], isLabeled := some true })

/-- `C1C{g}(C)1` as the parser builds it: adjacency of the label node is `[1, 3, 0]` -/
private def ring : Graph :=
  mkG true [atom 0 "C", atom 1 "C", lab 2 "g", atom 3 "C"] [(0,1,0,.s 2), (1,2,0,.s 2), (2,3,0,.s 2), (2,0,0,.s 2)]
/-- `NO` -/
private def no : Graph := mkG true [atom 0 "N", atom 1 "O"] [(0,1,0,.s 2)]

example : ring.neighbors 2 = [1, 3, 0] := by decide
example : inDomain ring 2 no [0, 1] = true := by decide
-- the anchors are handed out in the order 0, 1, 3 (not in adjacency order 1, 3, 0)
example : incSpec ring 2 = [(0, .s 2), (1, .s 2), (3, .s 2)] := by decide
example : (replaceNode ring 2 no [0, 1]).nodeIds = [0, 1, 2, 3, 4] := by decide +kernel
example : labelsBetween (replaceNode ring 2 no [0, 1]) 0 3 = [.s 2]        -- bond of 0 → anchor 0 (N)
    ∧ labelsBetween (replaceNode ring 2 no [0, 1]) 1 4 = [.s 2]            -- bond of 1 → anchor 1 (O)
    ∧ labelsBetween (replaceNode ring 2 no [0, 1]) 2 4 = [.s 2]            -- overflow: last anchor (O)
    ∧ labelsBetween (replaceNode ring 2 no [0, 1]) 2 3 = [] := by decide +kernel
example : specCheck ring 2 no [0, 1] (replaceNode ring 2 no [0, 1]) = true := by decide +kernel
-- a result with the third bond on anchor 0 (mutant m23) is rejected
example : specCheck ring 2 no [0, 1] (replaceNode ring 2 no [0, 1, 0]) = false := by decide +kernel

end Tests

end C13
