import FGVerif.Model.C01Spec
/-!
  C01 — adjacency facts about `Graph.addNode` / `Graph.addEdge` (Model/Graph.lean) used to read the
  denoted graph abstractly: which pairs are adjacent and (simple graph) with which label.
-/
namespace C01

/-- every node has an adjacency row -/
def RowsOK (g : Graph) : Prop := ∀ x, g.hasNode x = true → g.adj.any (fun r => r.1 == x) = true

theorem adjRow_addNode_fresh (g : Graph) (n : Int) (a : NodeAttr) (h : g.hasNode n = false) (x : Int) :
    (g.addNode n a).adjRow x = g.adjRow x := by
  simp only [Graph.addNode, h, Bool.false_eq_true, if_false, Graph.adjRow, List.find?_append]
  cases hf : g.adj.find? (fun r => r.1 == x) with
  | some r => simp
  | none =>
    by_cases hx : n = x
    · subst hx; simp
    · have : (n == x) = false := by simpa using hx
      simp [this]

theorem hasEdge_addNode_fresh (g : Graph) (n : Int) (a : NodeAttr) (h : g.hasNode n = false) (x y : Int) :
    (g.addNode n a).hasEdge x y = g.hasEdge x y := by
  simp [Graph.hasEdge, adjRow_addNode_fresh g n a h]

theorem bond?_addNode_fresh (g : Graph) (n : Int) (a : NodeAttr) (h : g.hasNode n = false) (x y : Int) :
    (g.addNode n a).bond? x y = g.bond? x y := by
  simp [Graph.bond?, Graph.edgeData, adjRow_addNode_fresh g n a h]

theorem RowsOK.addNode {g : Graph} (hr : RowsOK g) (n : Int) (a : NodeAttr) (h : g.hasNode n = false) :
    RowsOK (g.addNode n a) := by
  intro x hx
  have hadj : (g.addNode n a).adj = g.adj ++ [(n, [])] := by simp [Graph.addNode, h]
  have hnodes : (g.addNode n a).nodes = g.nodes ++ [(n, a)] := by simp [Graph.addNode, h]
  rw [hadj]
  simp only [Graph.hasNode, hnodes, List.any_append, List.any_cons, List.any_nil, Bool.or_false, Bool.or_eq_true] at hx
  simp only [List.any_append, List.any_cons, List.any_nil, Bool.or_false, Bool.or_eq_true]
  rcases hx with hx | hx
  · exact Or.inl (hr x hx)
  · exact Or.inr hx

theorem find_map_update {β : Type} (l : List (Int × β)) (w x : Int) (f : β → β) :
    ((l.map fun r => if r.1 == w then (r.1, f r.2) else r).find? (fun r => r.1 == x)).map (·.2) =
      ((l.find? (fun r => r.1 == x)).map (·.2)).map (fun b => if x == w then f b else b) := by
  induction l with
  | nil => rfl
  | cons r l ih =>
    obtain ⟨k, b⟩ := r
    simp only [List.map_cons, List.find?_cons]
    by_cases hk : k = x
    · subst hk
      by_cases hw : k = w
      · subst hw; simp
      · have : (k == w) = false := by simpa using hw
        simp [this]
    · have hk' : (k == x) = false := by simpa using hk
      by_cases hw : k = w
      · subst hw; simp only [beq_self_eq_true, if_true, hk']; exact ih
      · have : (k == w) = false := by simpa using hw
        simp only [this, Bool.false_eq_true, if_false, hk']; exact ih

/-! ### one direction of an edge -/

theorem any_addHalfEdge (multi : Bool) (row : List (Int × List (Nat × Label))) (v : Int) (key : Nat) (l : Label) (y : Int) :
    (Graph.addHalfEdge multi row v key l).any (fun r => r.1 == y) = (row.any (fun r => r.1 == y) || y == v) := by
  simp only [Graph.addHalfEdge]
  cases hv : row.any (fun r => r.1 == v) with
  | false =>
    simp only [Bool.false_eq_true, if_false, List.any_append, List.any_cons, List.any_nil, Bool.or_false]
    congr 1
    rw [Bool.eq_iff_iff]; simp only [beq_iff_eq]; exact eq_comm
  | true =>
    simp only [if_true, List.any_map]
    have : ((fun (r : Int × List (Nat × Label)) => r.1 == y) ∘ fun r =>
        if (r.1 == v) = true then (if multi = true then (r.1, r.2 ++ [(key, l)]) else (r.1, [(0, l)])) else r) =
        fun r => r.1 == y := by
      funext r
      simp only [Function.comp]
      split
      · split <;> rfl
      · rfl
    rw [this]
    by_cases hy : y = v
    · subst hy; simp [hv]
    · have : (y == v) = false := by simpa using hy
      simp [this]

/-- the label found for neighbour `y` after a half edge to `v` in a simple graph -/
theorem find_addHalfEdge_simple (row : List (Int × List (Nat × Label))) (v : Int) (l : Label) (y : Int) :
    ((Graph.addHalfEdge false row v 0 l).find? (fun r => r.1 == y)).map (·.2) =
      if y = v then some [(0, l)] else (row.find? (fun r => r.1 == y)).map (·.2) := by
  simp only [Graph.addHalfEdge, Bool.false_eq_true, if_false]
  cases hany : row.any (fun r => r.1 == v) with
  | true =>
    simp only [if_true]
    have := find_map_update row v y (fun _ => [((0 : Nat), l)])
    simp only [] at this
    rw [this]
    by_cases hy : y = v
    · subst hy
      obtain ⟨r, hr, hp⟩ := List.any_eq_true.mp hany
      cases hf : row.find? (fun r => r.1 == y) with
      | none =>
        rw [List.find?_eq_none] at hf
        exact absurd hp (hf r hr)
      | some r' => simp
    · have : (y == v) = false := by simpa using hy
      simp only [hy, this, if_false, Bool.false_eq_true]
      cases row.find? (fun r => r.1 == y) <;> rfl
  | false =>
    simp only [Bool.false_eq_true, if_false, List.find?_append]
    by_cases hy : y = v
    · subst hy
      have hf : row.find? (fun r => r.1 == y) = none := by
        rw [List.find?_eq_none]
        intro r hr
        have := List.any_eq_false.mp hany r hr
        simpa using this
      simp [hf]
    · have : (v == y) = false := by simpa using (Ne.symm hy)
      simp only [hy, if_false, List.find?_cons, this, List.find?_nil]
      cases row.find? (fun r => r.1 == y) <;> rfl

/-! ### `addEdge` between two present nodes -/

theorem adjRow_eq (g : Graph) (x : Int) : g.adjRow x = ((g.adj.find? (fun r => r.1 == x)).map (·.2)).getD [] := by
  simp only [Graph.adjRow]
  cases g.adj.find? (fun r => r.1 == x) <;> rfl

theorem find_isSome_of_any {adj : List (Int × List (Int × List (Nat × Label)))} {x : Int}
    (h : adj.any (fun r => r.1 == x) = true) : ∃ r, adj.find? (fun r => r.1 == x) = some r := by
  cases hf : adj.find? (fun r => r.1 == x) with
  | some r => exact ⟨r, rfl⟩
  | none =>
    rw [List.find?_eq_none] at hf
    obtain ⟨r, hr, hp⟩ := List.any_eq_true.mp h
    exact absurd hp (hf r hr)

theorem any_map_update {β : Type} (l : List (Int × β)) (w x : Int) (f : β → β) :
    (l.map fun r => if r.1 == w then (r.1, f r.2) else r).any (fun r => r.1 == x) = l.any (fun r => r.1 == x) := by
  induction l with
  | nil => rfl
  | cons r l ih =>
    simp only [List.map_cons, List.any_cons, ih]
    congr 1
    split <;> rfl

def edgeKey (g : Graph) (u v : Int) : Nat := if g.multi then Graph.newKey ((g.edgeData u v).map (·.1)) else 0

theorem addEdge_adj (g : Graph) (u v : Int) (l : Label) (hu : g.hasNode u = true) (hv : g.hasNode v = true) :
    (g.addEdge u v l).adj =
      (if u == v then g.adj.map fun r => if r.1 == u then (r.1, Graph.addHalfEdge g.multi r.2 v (edgeKey g u v) l) else r
       else (g.adj.map fun r => if r.1 == u then (r.1, Graph.addHalfEdge g.multi r.2 v (edgeKey g u v) l) else r).map
          fun r => if r.1 == v then (r.1, Graph.addHalfEdge g.multi r.2 u (edgeKey g u v) l) else r) := by
  simp only [Graph.addEdge, hu, hv, if_true, edgeKey]

/-- the adjacency rows after `add_edge(u, v)` between present nodes that have rows -/
theorem adjRow_addEdge (g : Graph) (u v : Int) (l : Label) (hu : g.hasNode u = true) (hv : g.hasNode v = true)
    (hr : RowsOK g) (x : Int) :
    (g.addEdge u v l).adjRow x =
      if u = v then (if x = u then Graph.addHalfEdge g.multi (g.adjRow x) v (edgeKey g u v) l else g.adjRow x)
      else if x = u then Graph.addHalfEdge g.multi (g.adjRow x) v (edgeKey g u v) l
      else if x = v then Graph.addHalfEdge g.multi (g.adjRow x) u (edgeKey g u v) l
      else g.adjRow x := by
  have hadj := addEdge_adj g u v l hu hv
  generalize edgeKey g u v = key at hadj ⊢
  rw [adjRow_eq, hadj, adjRow_eq]
  by_cases huv : u = v
  · subst huv
    simp only [beq_self_eq_true, if_true]
    rw [find_map_update g.adj u x (fun row => Graph.addHalfEdge g.multi row u key l)]
    cases hfx : (g.adj.find? (fun r => r.1 == x)).map (·.2) with
    | none =>
      have : x ≠ u := by
        intro e; subst e
        obtain ⟨r, hr'⟩ := find_isSome_of_any (hr x hu)
        simp [hr'] at hfx
      simp [this]
    | some row => by_cases hxu : x = u <;> simp [hxu]
  · have huv' : (u == v) = false := by simpa using huv
    simp only [huv', Bool.false_eq_true, if_false, huv]
    rw [find_map_update _ v x (fun row => Graph.addHalfEdge g.multi row u key l),
      find_map_update g.adj u x (fun row => Graph.addHalfEdge g.multi row v key l)]
    cases hfx : (g.adj.find? (fun r => r.1 == x)).map (·.2) with
    | none =>
      have h1 : x ≠ u := by
        intro e; subst e
        obtain ⟨r, hr'⟩ := find_isSome_of_any (hr x hu)
        simp [hr'] at hfx
      have h2 : x ≠ v := by
        intro e; subst e
        obtain ⟨r, hr'⟩ := find_isSome_of_any (hr x hv)
        simp [hr'] at hfx
      simp [h1, h2]
    | some row =>
      by_cases hxu : x = u
      · subst hxu
        have : (x == v) = false := by simpa using huv
        simp [this, huv]
      · by_cases hxv : x = v
        · subst hxv
          have : (x == u) = false := by simpa using hxu
          simp [this, hxu]
        · have h1 : (x == u) = false := by simpa using hxu
          have h2 : (x == v) = false := by simpa using hxv
          simp [h1, h2, hxu, hxv]

theorem hasEdge_addEdge (g : Graph) (u v : Int) (l : Label) (hu : g.hasNode u = true) (hv : g.hasNode v = true)
    (hr : RowsOK g) (x y : Int) :
    (g.addEdge u v l).hasEdge x y = (g.hasEdge x y || (x == u && y == v) || (x == v && y == u)) := by
  have hk := adjRow_addEdge g u v l hu hv hr x
  simp only [Graph.hasEdge, hk]
  by_cases huv : u = v
  · subst huv
    by_cases hxu : x = u
    · subst hxu; simp [any_addHalfEdge]
    · have : (x == u) = false := by simpa using hxu
      simp [hxu, this]
  · simp only [huv, if_false]
    by_cases hxu : x = u
    · subst hxu
      have : (x == v) = false := by simpa using huv
      simp [any_addHalfEdge, this]
    · have h1 : (x == u) = false := by simpa using hxu
      by_cases hxv : x = v
      · subst hxv; simp [any_addHalfEdge, h1, hxu]
      · have h2 : (x == v) = false := by simpa using hxv
        simp [hxu, hxv, h1, h2]

theorem RowsOK.addEdge {g : Graph} (hr : RowsOK g) (u v : Int) (l : Label) (hu : g.hasNode u = true)
    (hv : g.hasNode v = true) : RowsOK (g.addEdge u v l) := by
  intro x hx
  have hn : (g.addEdge u v l).nodes = g.nodes := by simp [Graph.addEdge, hu, hv]
  have hx' : g.hasNode x = true := by simpa [Graph.hasNode, hn] using hx
  have := hr x hx'
  rw [addEdge_adj g u v l hu hv]
  split
  · rw [any_map_update g.adj u x (fun row => Graph.addHalfEdge g.multi row v (edgeKey g u v) l)]; exact this
  · rw [any_map_update _ v x (fun row => Graph.addHalfEdge g.multi row u (edgeKey g u v) l),
      any_map_update g.adj u x (fun row => Graph.addHalfEdge g.multi row v (edgeKey g u v) l)]; exact this

theorem edgeData_eq (g : Graph) (x y : Int) :
    g.edgeData x y = (((g.adjRow x).find? (fun r => r.1 == y)).map (·.2)).getD [] := by
  simp only [Graph.edgeData]
  cases (g.adjRow x).find? (fun r => r.1 == y) <;> rfl

/-- simple graph: the label between `x` and `y` after `add_edge(u, v, l)` -/
theorem bond?_addEdge_simple (g : Graph) (u v : Int) (l : Label) (hm : g.multi = false) (hu : g.hasNode u = true)
    (hv : g.hasNode v = true) (hr : RowsOK g) (x y : Int) :
    (g.addEdge u v l).bond? x y =
      if (x = u ∧ y = v) ∨ (x = v ∧ y = u) then some l else g.bond? x y := by
  have hk := adjRow_addEdge g u v l hu hv hr x
  have hkey : edgeKey g u v = 0 := by simp [edgeKey, hm]
  rw [hkey, hm] at hk
  simp only [Graph.bond?, edgeData_eq, hk]
  by_cases huv : u = v
  · subst huv
    by_cases hxu : x = u
    · subst hxu
      simp only [if_true, find_addHalfEdge_simple]
      by_cases hy : y = x <;> simp [hy]
    · simp [hxu]
  · simp only [huv, if_false]
    by_cases hxu : x = u
    · subst hxu
      simp only [if_true, find_addHalfEdge_simple]
      by_cases hy : y = v
      · simp [hy]
      · simp [hy, huv]
    · by_cases hxv : x = v
      · subst hxv
        simp only [hxu, if_false, if_true, find_addHalfEdge_simple]
        by_cases hy : y = u
        · simp [hy]
        · simp [hy, hxu]
      · simp [hxu, hxv]

/-! ### abstract edge reading of a graph built from an edge list -/

def joins (e : Int × Int × Label) (x y : Int) : Prop := (x = e.1 ∧ y = e.2.1) ∨ (x = e.2.1 ∧ y = e.1)

instance (e : Int × Int × Label) (x y : Int) : Decidable (joins e x y) := by unfold joins; infer_instance

/-- some written bond joins `x` and `y` -/
def edgeBetween (es : List (Int × Int × Label)) (x y : Int) : Bool :=
  es.any fun e => (x == e.1 && y == e.2.1) || (x == e.2.1 && y == e.1)

/-- the label of the last written bond between `x` and `y` -/
def lastLabel : List (Int × Int × Label) → Int → Int → Option Label
  | [], _, _ => none
  | e :: es, x, y =>
    match lastLabel es x y with
    | some l => some l
    | none => if joins e x y then some e.2.2 else none

theorem lastLabel_snoc (es : List (Int × Int × Label)) (e : Int × Int × Label) (x y : Int) :
    lastLabel (es ++ [e]) x y = if joins e x y then some e.2.2 else lastLabel es x y := by
  induction es with
  | nil => simp [lastLabel]
  | cons e' es ih =>
    simp only [List.cons_append, lastLabel, ih]
    by_cases h : joins e x y
    · simp [h]
    · simp [h]

theorem edgeBetween_snoc (es : List (Int × Int × Label)) (e : Int × Int × Label) (x y : Int) :
    edgeBetween (es ++ [e]) x y = (edgeBetween es x y || (x == e.1 && y == e.2.1) || (x == e.2.1 && y == e.1)) := by
  simp [edgeBetween, List.any_append, Bool.or_assoc]

/-- one (optional) edge between two present nodes, read abstractly -/
theorem edge_abs (g : Graph) (u v : Int) (lab : Option Label) (es : List (Int × Int × Label))
    (hu : g.hasNode u = true) (hv : g.hasNode v = true) (hr : RowsOK g)
    (h1 : ∀ x y, g.hasEdge x y = edgeBetween es x y) :
    RowsOK (match lab with | some l => g.addEdge u v l | none => g) ∧
    (∀ x y, (match lab with | some l => g.addEdge u v l | none => g).hasEdge x y =
      edgeBetween (es ++ (match lab with | some l => [(u, v, l)] | none => [])) x y) ∧
    (g.multi = false → (∀ x y, g.bond? x y = lastLabel es x y) →
      ∀ x y, (match lab with | some l => g.addEdge u v l | none => g).bond? x y =
        lastLabel (es ++ (match lab with | some l => [(u, v, l)] | none => [])) x y) := by
  cases lab with
  | none => exact ⟨hr, by simpa using h1, fun _ h => by simpa using h⟩
  | some l =>
    refine ⟨hr.addEdge u v l hu hv, ?_, ?_⟩
    · intro x y
      rw [hasEdge_addEdge g u v l hu hv hr, edgeBetween_snoc, h1]
    · intro hm h2 x y
      rw [bond?_addEdge_simple g u v l hm hu hv hr, lastLabel_snoc, h2]
      rfl

theorem lastLabel_none (es : List (Int × Int × Label)) (x y : Int)
    (h : ∀ e ∈ es, ¬ joins e x y) : lastLabel es x y = none := by
  induction es with
  | nil => rfl
  | cons e es ih =>
    simp only [lastLabel, ih (fun e' he' => h e' (List.mem_cons_of_mem _ he'))]
    simp [h e (List.mem_cons_self ..)]

/-- when no pair is bonded twice, the last label between the ends of a written bond is its own -/
theorem lastLabel_of_mem (es : List (Int × Int × Label)) (hd : pairsDistinct es = true)
    (u v : Int) (l : Label) (hm : (u, v, l) ∈ es) :
    lastLabel es u v = some l ∧ lastLabel es v u = some l := by
  induction es with
  | nil => simp at hm
  | cons e es ih =>
    obtain ⟨a, b, l'⟩ := e
    simp only [pairsDistinct, Bool.and_eq_true] at hd
    rcases List.mem_cons.mp hm with heq | hmem
    · simp only [Prod.mk.injEq] at heq
      obtain ⟨rfl, rfl, rfl⟩ := heq
      have hno : ∀ e ∈ es, ¬ joins e u v ∧ ¬ joins e v u := by
        intro e he
        have := List.all_eq_true.mp hd.1.2 e he
        simp only [Bool.not_eq_true', Bool.or_eq_false_iff, Bool.and_eq_false_iff, beq_eq_false_iff_ne] at this
        simp only [joins]
        constructor
        · rintro (⟨h1, h2⟩ | ⟨h1, h2⟩)
          · rcases this.1 with h | h
            · exact h h1.symm
            · exact h h2.symm
          · rcases this.2 with h | h
            · exact h h2.symm
            · exact h h1.symm
        · rintro (⟨h1, h2⟩ | ⟨h1, h2⟩)
          · rcases this.2 with h | h
            · exact h h1.symm
            · exact h h2.symm
          · rcases this.1 with h | h
            · exact h h2.symm
            · exact h h1.symm
      simp only [lastLabel, lastLabel_none es u v (fun e he => (hno e he).1),
        lastLabel_none es v u (fun e he => (hno e he).2), joins]
      simp
    · obtain ⟨h1, h2⟩ := ih hd.2 hmem
      simp [lastLabel, h1, h2]

end C01
