import FGVerif.Model.C03Spec
import FGVerif.Model.C12Spec
import FGVerif.Proofs.C11Rc
/-!
  The three well-formedness notions of the code base, related.

  | predicate                    | file                    | says                                                        |
  |------------------------------|-------------------------|-------------------------------------------------------------|
  | `C12.WF g`                   | `Model/C12Spec.lean`    | ids distinct, one row per node, adjacency mentions nodes    |
  | `C11.WF g` (+ `C11.Simple`)  | `Proofs/C11Rc.lean`     | … rows duplicate-free, edge DATA symmetric (+ exactly key 0)|
  | `C03.WF g`                   | `Model/C03Spec.lean`    | … rows duplicate-free, no self-loop, neighbourhood and first|
  |                              |                         |   label symmetric                                           |

  with the Boolean checkers `decide (C12.WF g)`, `C11.wellFormed` / `C11.simple`, `C03.wfB`.

  Results (core Lean, no Mathlib):

  * `c12_iff`                      `C12.WF` in terms of `neighbors` (the form the other two use)
  * `c12_of_c03`, `c12_of_c11`     `C12.WF` is the weakest of the three
  * `c03_of_c11`                   `C11.WF → single-keyed → NoLoop → C03.WF`
  * `c11_of_c03`                   `C03.WF → single-keyed → C11.WF`
  * `c03_iff_c11`                  on simple graphs: `C03.WF g ↔ C11.WF g ∧ NoLoop g`
  * `c03_not_of_c11_loop`, `c11_not_of_c03_multi`  neither extra hypothesis can be dropped (witnesses)
  * checkers: `wfB_iff`, `wellFormed_iff`, `simple_iff`, `noLoopB_iff` (each checker is EXACT, not only
    sound), `wfB_iff_checkers`, `c12_decide_of_wfB`, `c12_decide_of_wellFormed`
  * `closed_of_c03` the hypothesis `C05.Closed` (literally the third field of `C12.WF`) follows from `C03.WF`.
-/
namespace GraphWF
open Graph

/-! ### reading rows -/

/-- with distinct row keys, a row that occurs in the adjacency IS the row `adjRow` finds -/
theorem adjRow_of_mem_adj {g : Graph} (hk : g.keys.Nodup) {r : Int × Row} (hr : r ∈ g.adj) :
    g.adjRow r.1 = r.2 := by
  rw [adjRow_eq]; exact rowOf_of_mem g.adj hk r.1 r.2 hr

/-- a node with a neighbour has an adjacency row -/
theorem mem_keys_of_nbr {g : Graph} {u v : Int} (h : v ∈ g.neighbors u) : u ∈ g.keys := by
  apply Classical.byContradiction
  intro hu
  rw [neighbors_eq, C11.adjRow_of_not_key g u hu] at h
  simp at h

/-- every neighbour relation comes from an entry of a row of the adjacency -/
theorem nbr_from_row {g : Graph} {u v : Int} (h : v ∈ g.neighbors u) :
    ∃ r ∈ g.adj, r.1 = u ∧ r.2 = g.adjRow u ∧ ∃ e ∈ r.2, e.1 = v := by
  have hu := mem_keys_of_nbr h
  obtain ⟨e, he, rfl⟩ := List.mem_map.mp h
  exact ⟨(u, g.adjRow u), C11.adjRow_mem_adj g u hu, rfl, rfl, e, he, rfl⟩

/-- … and conversely when the row keys are distinct -/
theorem nbr_of_row {g : Graph} (hk : g.keys.Nodup) {r : Int × Row} (hr : r ∈ g.adj)
    {e : Int × List (Nat × Label)} (he : e ∈ r.2) : e.1 ∈ g.neighbors r.1 := by
  rw [neighbors_eq, adjRow_of_mem_adj hk hr]
  exact List.mem_map.mpr ⟨e, he, rfl⟩

/-! ### `C12.WF` -/

/-- `C12.WF` stated through `neighbors`, the vocabulary of `C03.WF` / `C11.WF` -/
theorem c12_iff (g : Graph) :
    C12.WF g ↔ g.nodeIds.Nodup ∧ g.keys = g.nodeIds ∧ ∀ u v, v ∈ g.neighbors u → v ∈ g.nodeIds := by
  constructor
  · intro h
    refine ⟨h.nodup, h.rows, ?_⟩
    intro u v hv
    obtain ⟨r, hr, _, _, e, he, rfl⟩ := nbr_from_row hv
    exact h.closed r hr e he
  · rintro ⟨h1, h2, h3⟩
    have hk : g.keys.Nodup := by rw [h2]; exact h1
    exact ⟨h1, h2, fun r hr e he => h3 r.1 e.1 (nbr_of_row hk hr he)⟩

/-- **`C03.WF → C12.WF`**: every theorem of `Proofs/C12.lean` applies to the graphs of C03/C04/C05 -/
theorem c12_of_c03 {g : Graph} (h : C03.WF g) : C12.WF g :=
  (c12_iff g).mpr ⟨h.nodup, h.rows, fun u v hv => (h.nbrNode u v hv).2⟩

/-- **`C11.WF → C12.WF`** -/
theorem c12_of_c11 {g : Graph} (h : C11.WF g) : C12.WF g :=
  (c12_iff g).mpr ⟨h.nodup, h.keys, h.nbrNode⟩

/-- the hypothesis `C05.Closed g` of the C05 theorems (the same statement as `C12.WF.closed`) -/
theorem closed_of_c03 {g : Graph} (h : C03.WF g) : ∀ row ∈ g.adj, ∀ nb ∈ row.2, nb.1 ∈ g.nodeIds :=
  (c12_of_c03 h).closed

/-! ### `C03.WF` and `C11.WF` -/

/-- no bond from an atom to itself -/
def NoLoop (g : Graph) : Prop := ∀ u, u ∉ g.neighbors u

/-- every bond carries exactly one key, `0` (the second field of `C11.Simple`) -/
def SingleKey (g : Graph) : Prop := ∀ x y, y ∈ g.neighbors x → ∃ l, g.edgeData x y = [(0, l)]

theorem singleKey_of_simple {g : Graph} (h : C11.Simple g) : SingleKey g := h.single

theorem noLoop_of_c03 {g : Graph} (h : C03.WF g) : NoLoop g := h.noLoop

/-- **`C11.WF → C03.WF`** for single-keyed graphs without self-loops.  (`C11.WF` compares the whole edge
    data, `C03.WF` the first label and the neighbourhood: the latter follows once the data is non-empty.) -/
theorem c03_of_c11 {g : Graph} (hw : C11.WF g) (hs : SingleKey g) (hl : NoLoop g) : C03.WF g := by
  refine ⟨hw.nodup, hw.keys, hw.rowNodup, ?_, hl, ?_⟩
  · intro u v hv
    exact ⟨by rw [← hw.keys]; exact mem_keys_of_nbr hv, hw.nbrNode u v hv⟩
  · intro u v hv
    have hsym := hw.symm u v hv
    obtain ⟨l, hl'⟩ := hs u v hv
    refine ⟨?_, ?_⟩
    · apply Classical.byContradiction
      intro hn
      rw [C11.edgeData_of_not_nbr g v u hn, hl'] at hsym
      cases hsym
    · simp only [Graph.bond?, hsym]

/-- **`C03.WF → C11.WF`** for single-keyed graphs -/
theorem c11_of_c03 {g : Graph} (hw : C03.WF g) (hs : SingleKey g) : C11.WF g := by
  refine ⟨hw.nodup, hw.rows, hw.nbrNodup, fun x y hy => (hw.nbrNode x y hy).2, ?_⟩
  intro x y hy
  obtain ⟨hx, hb⟩ := hw.symm x y hy
  obtain ⟨l, hl⟩ := hs x y hy
  obtain ⟨l', hl'⟩ := hs y x hx
  simp only [Graph.bond?, hl, hl', List.head?_cons, Option.map_some, Option.some.injEq] at hb
  rw [hl, hl', hb]

/-- **on simple graphs the two notions differ by the self-loop clause only** -/
theorem c03_iff_c11 {g : Graph} (hs : C11.Simple g) : C03.WF g ↔ C11.WF g ∧ NoLoop g :=
  ⟨fun h => ⟨c11_of_c03 h hs.single, h.noLoop⟩, fun h => c03_of_c11 h.1 hs.single h.2⟩

/-- a carbon bonded to itself: `C11.WF`, `C11.Simple`, not `C03.WF` — `NoLoop` cannot be dropped -/
def loopGraph : Graph := { nodes := [(0, { symbol := some "C" })], adj := [(0, [(0, [(0, .s 2)])])] }

theorem c03_not_of_c11_loop : C11.WF loopGraph ∧ C11.Simple loopGraph ∧ ¬ C03.WF loopGraph := by
  have hw : C11.WF loopGraph := C11.wf_of_wellFormed _ (by decide)
  exact ⟨hw, C11.simple_of_simple _ hw (by decide), fun h => h.noLoop 0 (by decide)⟩

/-- a two-key bond whose key order differs on the two sides: `C03.WF` (first labels agree), not `C11.WF` —
    `SingleKey` cannot be dropped -/
def twoKeyGraph : Graph :=
  { multi := true, nodes := [(0, {}), (1, {})],
    adj := [(0, [(1, [(0, .s 2), (1, .s 4)])]), (1, [(0, [(0, .s 2), (1, .s 2)])])] }

theorem c11_not_of_c03_multi : C03.WF twoKeyGraph ∧ ¬ C11.WF twoKeyGraph := by
  refine ⟨C03.wfB_sound _ (by decide), fun h => ?_⟩
  have := h.symm 0 1 (by decide)
  revert this
  decide

/-! ### the Boolean checkers are exact -/

theorem nodupB_complete : ∀ l : List Int, l.Nodup → C03.nodupB l = true
  | [], _ => rfl
  | x :: xs, h => by
    rw [List.nodup_cons] at h
    simp only [C03.nodupB, Bool.and_eq_true, Bool.not_eq_eq_eq_not, Bool.not_true,
      List.contains_eq_mem, decide_eq_false_iff_not]
    exact ⟨h.1, nodupB_complete xs h.2⟩

theorem wfB_complete {g : Graph} (h : C03.WF g) : C03.wfB g = true := by
  have hk : g.keys.Nodup := by rw [keys, h.rows]; exact h.nodup
  unfold C03.wfB
  simp only [Bool.and_eq_true, List.all_eq_true, beq_iff_eq, List.contains_eq_mem,
    decide_eq_true_eq, bne_iff_ne, ne_eq]
  refine ⟨⟨nodupB_complete _ h.nodup, h.rows⟩, ?_⟩
  intro r hr
  refine ⟨?_, ?_⟩
  · have := h.nbrNodup r.1
    rw [neighbors_eq, adjRow_of_mem_adj hk hr] at this
    exact nodupB_complete _ this
  · intro e he
    have hn := nbr_of_row hk hr he
    exact ⟨⟨⟨(h.nbrNode _ _ hn).2, fun heq => h.noLoop r.1 (heq ▸ hn)⟩, (h.symm _ _ hn).1⟩, (h.symm _ _ hn).2⟩

/-- **`C03.wfB` decides `C03.WF`** -/
theorem wfB_iff (g : Graph) : C03.wfB g = true ↔ C03.WF g := ⟨C03.wfB_sound g, wfB_complete⟩

theorem wellFormed_complete {g : Graph} (h : C11.WF g) : C11.wellFormed g = true := by
  have hk : g.keys.Nodup := by rw [h.keys]; exact h.nodup
  simp only [C11.wellFormed, Bool.and_eq_true, decide_eq_true_eq, beq_iff_eq, List.all_eq_true,
    List.contains_eq_mem]
  refine ⟨⟨h.nodup, h.keys⟩, ?_⟩
  intro r hr
  have hrow := adjRow_of_mem_adj hk hr
  refine ⟨by rw [← hrow]; exact h.rowNodup r.1, ?_⟩
  intro e he
  have hn := nbr_of_row hk hr he
  refine ⟨h.nbrNode _ _ hn, ?_⟩
  rw [h.symm _ _ hn]
  exact C11.edgeData_of_mem_row g h r.1 e (by rw [hrow]; exact he)

/-- **`C11.wellFormed` decides `C11.WF`** -/
theorem wellFormed_iff (g : Graph) : C11.wellFormed g = true ↔ C11.WF g :=
  ⟨C11.wf_of_wellFormed g, wellFormed_complete⟩

theorem simple_complete {g : Graph} (hw : C11.WF g) (h : C11.Simple g) : C11.simple g = true := by
  have hk : g.keys.Nodup := by rw [hw.keys]; exact hw.nodup
  simp only [C11.simple, Bool.and_eq_true, Bool.not_eq_true', List.all_eq_true, beq_iff_eq]
  refine ⟨h.multi, ?_⟩
  intro r hr e he
  obtain ⟨l, hl⟩ := h.single _ _ (nbr_of_row hk hr he)
  rw [C11.edgeData_of_mem_row g hw r.1 e (by rw [adjRow_of_mem_adj hk hr]; exact he)] at hl
  rw [hl]; rfl

/-- **`C11.simple` decides `C11.Simple`** on well-formed graphs -/
theorem simple_iff {g : Graph} (hw : C11.WF g) : C11.simple g = true ↔ C11.Simple g :=
  ⟨C11.simple_of_simple g hw, simple_complete hw⟩

def noLoopB (g : Graph) : Bool := g.adj.all fun r => r.2.all fun e => e.1 != r.1

theorem noLoopB_iff {g : Graph} (hk : g.keys.Nodup) : noLoopB g = true ↔ NoLoop g := by
  simp only [noLoopB, List.all_eq_true, bne_iff_ne, ne_eq]
  constructor
  · intro h u hu
    obtain ⟨r, hr, hru, _, e, he, heu⟩ := nbr_from_row hu
    exact h r hr e he (by rw [heu, hru])
  · intro h r hr e he heq
    exact h r.1 (heq ▸ nbr_of_row hk hr he)

/-- the three checkers agree on simple graphs: `wfB = wellFormed ∧ noLoopB` -/
theorem wfB_iff_checkers {g : Graph} (hs : C11.simple g = true) :
    C03.wfB g = true ↔ C11.wellFormed g = true ∧ noLoopB g = true := by
  constructor
  · intro h
    have h3 := C03.wfB_sound g h
    have hk : g.keys.Nodup := by rw [keys, h3.rows]; exact h3.nodup
    -- `Simple` needs `C11.WF` for its extraction; get the single-key clause directly from the checker
    have hsk : SingleKey g := by
      simp only [C11.simple, Bool.and_eq_true, Bool.not_eq_true', List.all_eq_true, beq_iff_eq] at hs
      intro x y hy
      obtain ⟨r, hr, hrx, hrow, e, he, hey⟩ := nbr_from_row hy
      have h1 := hs.2 r hr e he
      have h2 : g.edgeData x y = e.2 := by
        rw [edgeData_eq, ← hey]
        exact rowOf_of_mem _ (h3.nbrNodup x) e.1 e.2 (by rw [← hrow]; exact he)
      rw [h2]
      match hd : e.2, h1 with
      | [(k, l)], h1 =>
        simp only [List.map_cons, List.map_nil, List.cons.injEq, and_true] at h1
        exact ⟨l, by rw [← h1]⟩
    exact ⟨wellFormed_complete (c11_of_c03 h3 hsk), (noLoopB_iff hk).mpr h3.noLoop⟩
  · rintro ⟨h1, h2⟩
    have hw := C11.wf_of_wellFormed g h1
    have hk : g.keys.Nodup := by rw [hw.keys]; exact hw.nodup
    exact wfB_complete (c03_of_c11 hw (C11.simple_of_simple g hw hs).single ((noLoopB_iff hk).mp h2))

/-- `C12.WF` is decidable (`instance` in `Model/C12Spec.lean`); the stronger checkers imply its decision -/
theorem c12_decide_of_wfB {g : Graph} (h : C03.wfB g = true) : decide (C12.WF g) = true :=
  decide_eq_true (c12_of_c03 (C03.wfB_sound g h))

theorem c12_decide_of_wellFormed {g : Graph} (h : C11.wellFormed g = true) : decide (C12.WF g) = true :=
  decide_eq_true (c12_of_c11 (C11.wf_of_wellFormed g h))

/-! ### non-vacuity (tests) -/

/-- methanol with offset ids -/
def exCO : Graph :=
  { nodes := [(3, { symbol := some "C" }), (7, { symbol := some "O" })],
    adj := [(3, [(7, [(0, .s 2)])]), (7, [(3, [(0, .s 2)])])] }

-- test: all three notions hold of a concrete molecule, each obtained from the other through the lemmas above
example : C03.WF exCO := C03.wfB_sound _ (by decide)
example : C11.WF exCO ∧ NoLoop exCO :=
  (c03_iff_c11 (C11.simple_of_simple _ (C11.wf_of_wellFormed _ (by decide)) (by decide))).mp
    (C03.wfB_sound _ (by decide))
example : C12.WF exCO := c12_of_c03 (C03.wfB_sound _ (by decide))
example : C03.wfB exCO = true ∧ C11.wellFormed exCO = true ∧ C11.simple exCO = true ∧ noLoopB exCO = true := by
  decide

end GraphWF
