import FGVerif.Proofs.C11Unreach
import FGVerif.Proofs.C11Rc
/-!
  C11 — `prune_its_to_rc` / `ITS.prune` is exact.

  * `Kept`, `PruneSpecK`, `PruneSpec`: the declarative description of the pruned graph
  * `specPrune_sound`: the executable checker implies it
  * `prune_exact`: the model satisfies it on every well-formed simple graph, for every radius and
    both values of `insert_hydrogens`
-/
namespace C11
open Graph Reach

/-- `v` is kept by pruning to radius `r`: some end atom of a changed bond has distance `≤ r` to `v` -/
def Kept (its : Graph) (r : Nat) (v : Int) : Prop := ∃ s, IsRcAtom its s ∧ GDistLe its s v r

theorem Kept.mem {its : Graph} {r : Nat} {v : Int} (h : Kept its r v) : v ∈ its.nodeIds := by
  obtain ⟨s, _, k, _, w⟩ := h
  exact w.right_mem

/-- the edge data of an inserted hydrogen bond: key 0, label `(1,1)` -/
abbrev hData : List (Nat × Label) := [(0, hBond)]

/-- the pruned graph `out`, described relative to a list `K` of the kept atoms -/
structure PruneSpecK (its : Graph) (K : List Int) (insertH : Bool) (out : Graph) : Prop where
  /-- of the old atoms exactly the kept ones survive -/
  kept_nodes : ∀ v, v ∈ its.nodeIds → (v ∈ out.nodeIds ↔ v ∈ K)
  /-- with unchanged attributes -/
  attrs : ∀ v, v ∈ K → out.attr? v = its.attr? v
  /-- bonds among kept atoms are unchanged -/
  bonds : ∀ a b, a ∈ K → b ∈ K → out.edgeData a b = its.edgeData a b
  /-- node ids are pairwise distinct -/
  nodup : out.nodeIds.Nodup
  /-- adjacency mentions only nodes of `out` -/
  closed : ∀ a, a ∈ allIds out → a ∈ out.nodeIds
  /-- without `insert_hydrogens` there are no new nodes -/
  no_new : insertH = false → ∀ h, h ∈ out.nodeIds → h ∈ its.nodeIds
  /-- every new node is an `H` on an id above every old id with exactly one bond, `(1,1)`, to a kept atom -/
  new_nodes : ∀ h, h ∈ out.nodeIds → h ∉ its.nodeIds →
      (∀ n, n ∈ its.nodeIds → n < h) ∧ out.symbol? h = some "H" ∧
      ∃ v, v ∈ K ∧ out.neighbors h = [v] ∧ out.edgeData h v = hData ∧ out.edgeData v h = hData
  /-- a kept atom is bonded only to kept atoms and to hydrogens that hang on it alone -/
  kept_nbrs : ∀ v, v ∈ K → ∀ w, w ∈ out.neighbors v →
      w ∈ K ∨ (w ∈ out.nodeIds ∧ w ∉ its.nodeIds ∧ out.neighbors w = [v])
  /-- one new hydrogen per cut bond: the anchors of the new nodes are, as a multiset, the kept
      ends of the bonds between a removed and a kept atom -/
  one_per_cut :
    ((newIds its out).map fun h => (out.neighbors h).headD 0).Perm
      (if insertH then cutAnchors its K else [])

/-- **specification of `prune_its_to_rc`** -/
def PruneSpec (its : Graph) (r : Nat) (insertH : Bool) (out : Graph) : Prop :=
  ∃ K, (∀ v, v ∈ K ↔ Kept its r v) ∧ PruneSpecK its K insertH out

theorem mem_newIds (its out : Graph) (h : Int) : h ∈ newIds its out ↔ h ∈ out.nodeIds ∧ h ∉ its.nodeIds := by
  simp [newIds, List.mem_filter]

theorem mem_keptList (its : Graph) (hs : Simple its) (r : Nat) (v : Int) :
    v ∈ keptList its r ↔ Kept its r v := by
  unfold keptList
  rw [mem_withinList]
  unfold GWithin
  rw [within_iff_distLe]
  constructor
  · rintro ⟨s, hs', hd⟩
    have := (List.mem_filter.mp hs').2
    exact ⟨s, (isRcNode_iff its hs s).mp this, hd⟩
  · rintro ⟨s, hs', hd⟩
    obtain ⟨k, _, w⟩ := hd
    exact ⟨s, List.mem_filter.mpr ⟨w.left_mem, (isRcNode_iff its hs s).mpr hs'⟩, k, ‹_›, w⟩

/-- **C11.specPrune_sound** — what the driver checks on an implementation output implies `PruneSpec` -/
theorem specPrune_sound (its : Graph) (hs : Simple its) (r : Nat) (insertH : Bool) (out : Graph)
    (h : specPrune its r insertH out = true) : PruneSpec its r insertH out := by
  refine ⟨keptList its r, mem_keptList its hs r, ?_⟩
  simp only [specPrune, Bool.and_eq_true, List.all_eq_true, beq_iff_eq, List.contains_eq_mem,
    decide_eq_true_eq, Bool.or_eq_true, List.isEmpty_iff, List.isPerm_iff] at h
  obtain ⟨⟨⟨⟨⟨⟨⟨⟨h1, h2⟩, h3⟩, h4⟩, h5⟩, h6⟩, h7⟩, h8⟩, h9⟩ := h
  refine ⟨?_, h2, fun a b ha hb => h3 a ha b hb, h4, h5, ?_, ?_, ?_, ?_⟩
  · intro v hv
    have := h1 v hv
    constructor
    · intro hm
      have e : decide (v ∈ out.nodeIds) = true := by simpa using hm
      rw [e] at this; simpa using this.symm
    · intro hk
      have e : decide (v ∈ keptList its r) = true := by simpa using hk
      rw [e] at this; simpa using this
  · intro hf h hh
    rcases h6 with h6 | h6
    · rw [hf] at h6; cases h6
    · apply Classical.byContradiction
      intro hn
      have : h ∈ newIds its out := (mem_newIds its out h).mpr ⟨hh, hn⟩
      rw [h6] at this; simp at this
  · intro h hh hn
    have := h7 h ((mem_newIds its out h).mpr ⟨hh, hn⟩)
    obtain ⟨⟨ha, hb⟩, hc⟩ := this
    refine ⟨ha, hb, ?_⟩
    match hnb : out.neighbors h, hc with
    | [v], hc =>
      simp only [Bool.and_eq_true, decide_eq_true_eq, beq_iff_eq] at hc
      exact ⟨v, hc.1.1, rfl, hc.1.2, hc.2⟩
  · intro v hv w hw
    have := h8 v hv w hw
    rcases this with h | h
    · exact .inl h
    · have h' := (mem_newIds its out w).mp h.1
      exact .inr ⟨h'.1, h'.2, h.2⟩
  · exact h9

/-! ### fresh ids -/

theorem foldl_max_ge_init (xs : List Int) (a : Int) : a ≤ xs.foldl max a := by
  induction xs generalizing a with
  | nil => simp
  | cons x xs ih => simp only [List.foldl_cons]; exact Int.le_trans (Int.le_max_left a x) (ih _)

theorem foldl_max_ge_mem (xs : List Int) (a : Int) : ∀ x, x ∈ xs → x ≤ xs.foldl max a := by
  induction xs generalizing a with
  | nil => simp
  | cons y ys ih =>
    intro x hx
    simp only [List.foldl_cons]
    rcases List.mem_cons.mp hx with rfl | h
    · exact Int.le_trans (Int.le_max_right a x) (foldl_max_ge_init ys _)
    · exact ih _ x h

/-- `max(its.nodes, default=-1) + 1` is above every node id -/
theorem lt_freshId (g : Graph) (n : Int) (h : n ∈ g.nodeIds) : n < freshId g := by
  unfold freshId
  have hne : g.nodeIds.isEmpty = false := by
    cases hl : g.nodeIds with
    | nil => rw [hl] at h; simp at h
    | cons a l => rfl
  rw [hne]
  simp only [Bool.false_eq_true, if_false, maxId]
  have := foldl_max_ge_mem g.nodeIds (g.nodeIds.headD 0) n h
  omega

/-! ### the loop invariant of `prune_its_to_rc` -/

/-- state after the unreachable nodes `U` have been removed and the hydrogens `hs` (id, anchor)
    have been inserted -/
structure PInv (its : Graph) (unr U : List Int) (hs : List (Int × Int)) (p : Graph) (nid : Int) : Prop where
  nid_eq : nid = freshId its + (hs.length : Int)
  hids : hs.map (·.1) = (List.range hs.length).map (fun (i : Nat) => freshId its + (i : Int))
  nodes : p.nodeIds = its.nodeIds.filter (fun x => !U.contains x) ++ hs.map (·.1)
  keys : p.keys = p.nodeIds
  multi : p.multi = false
  attrs : ∀ x, x ∈ its.nodeIds → x ∉ U → p.attr? x = its.attr? x
  hsym : ∀ h, h ∈ hs.map (·.1) → p.symbol? h = some "H"
  oldRow : ∀ x, x ∈ its.nodeIds → x ∉ U → ∀ e, e ∈ p.adjRow x ↔
      (e ∈ its.adjRow x ∧ e.1 ∉ U) ∨ (∃ h, (h, x) ∈ hs ∧ e = (h, hData))
  oldRowNodup : ∀ x, x ∈ its.nodeIds → x ∉ U → ((p.adjRow x).map (·.1)).Nodup
  newRow : ∀ h a, (h, a) ∈ hs → p.adjRow h = [(a, hData)]
  anchors : ∀ h a, (h, a) ∈ hs → a ∈ its.nodeIds ∧ a ∉ unr

theorem PInv.hid_range {its : Graph} {unr U : List Int} {hs : List (Int × Int)} {p : Graph} {nid : Int}
    (inv : PInv its unr U hs p nid) {h : Int} (hh : h ∈ hs.map (·.1)) : freshId its ≤ h ∧ h < nid := by
  rw [inv.hids] at hh
  obtain ⟨i, hi, rfl⟩ := List.mem_map.mp hh
  have := List.mem_range.mp hi
  rw [inv.nid_eq]
  omega

theorem PInv.hid_not_old {its : Graph} {unr U : List Int} {hs : List (Int × Int)} {p : Graph} {nid : Int}
    (inv : PInv its unr U hs p nid) {h : Int} (hh : h ∈ hs.map (·.1)) : h ∉ its.nodeIds := by
  intro hm
  have := lt_freshId its h hm
  have := (inv.hid_range hh).1
  omega

theorem pinv_init (its : Graph) (unr : List Int) (hw : WF its) (hs : Simple its) :
    PInv its unr [] [] its (freshId its) := by
  refine ⟨by simp, rfl, ?_, hw.keys, hs.multi, fun _ _ _ => rfl, ?_, ?_, fun x _ _ => hw.rowNodup x, ?_, ?_⟩
  · simp only [List.contains_nil, Bool.not_false, List.map_nil, List.append_nil]
    exact (List.filter_eq_self.mpr (fun _ _ => rfl)).symm
  · intro h hh; simp at hh
  · intro x _ _ e; simp
  · intro h a hh; simp at hh
  · intro h a hh; simp at hh

/-- `its_pruned.add_node(new_node_id, symbol="H"); its_pruned.add_edge(new_node_id, v, bond=(1,1))` -/
theorem pinv_insert {its : Graph} {unr U : List Int} {hs : List (Int × Int)} {p : Graph} {nid : Int}
    (hw : WF its) (hU : ∀ u, u ∈ U → u ∈ unr) (inv : PInv its unr U hs p nid)
    {v : Int} (hv : v ∈ its.nodeIds) (hvu : v ∉ unr) :
    PInv its unr U (hs ++ [(nid, v)])
      ((p.addNode nid { symbol := some "H" }).addEdge nid v hBond) (nid + 1) := by
  have hvU : v ∉ U := fun h => hvu (hU v h)
  have hfresh : ∀ n, n ∈ its.nodeIds → n < nid := by
    intro n hn; have := lt_freshId its n hn; rw [inv.nid_eq]; omega
  have hnid_old : nid ∉ its.nodeIds := fun h => by have := hfresh nid h; omega
  have hnid_hs : nid ∉ hs.map (·.1) := fun h => by have := (inv.hid_range h).2; omega
  have hnid_p : nid ∉ p.nodeIds := by
    rw [inv.nodes, List.mem_append]
    rintro (h | h)
    · exact hnid_old (List.mem_filter.mp h).1
    · exact hnid_hs h
  have hv_p : v ∈ p.nodeIds := by
    rw [inv.nodes, List.mem_append]
    exact .inl (List.mem_filter.mpr ⟨hv, by simpa using hvU⟩)
  have hne : nid ≠ v := fun e => hnid_old (e ▸ hv)
  -- after add_node
  let p1 := p.addNode nid { symbol := some "H" }
  have n1 : p1.nodeIds = p.nodeIds ++ [nid] := nodeIds_addNode_new p nid _ hnid_p
  have k1 : p1.keys = p1.nodeIds := keys_addNode p nid _ inv.keys
  have m1 : p1.multi = false := (multi_addNode p nid _).trans inv.multi
  have hnid1 : nid ∈ p1.nodeIds := by rw [n1]; simp
  have hv1 : v ∈ p1.nodeIds := by rw [n1]; exact List.mem_append_left _ hv_p
  have r1 : ∀ x, p1.adjRow x = p.adjRow x := adjRow_addNode p nid _
  have a1 : ∀ m, p1.attr? m = if m = nid then some { symbol := some "H" } else p.attr? m :=
    attr?_addNode_new p nid _ hnid_p
  have hrow_nid : p.adjRow nid = [] := adjRow_of_not_key p nid (inv.keys ▸ hnid_p)
  -- after add_edge
  show PInv its unr U (hs ++ [(nid, v)]) (p1.addEdge nid v hBond) (nid + 1)
  have n2 : (p1.addEdge nid v hBond).nodeIds = p.nodeIds ++ [nid] :=
    (nodeIds_addEdge p1 nid v hBond hnid1 hv1 m1).trans n1
  have hnid_rowv : nid ∉ (p.adjRow v).map (·.1) := by
    intro h
    obtain ⟨e, he, e1⟩ := List.mem_map.mp h
    rcases (inv.oldRow v hv hvU e).mp he with ⟨h1, _⟩ | ⟨h', hh', rfl⟩
    · exact hnid_old (e1 ▸ hw.nbrNode v e.1 (List.mem_map.mpr ⟨e, h1, rfl⟩))
    · exact hnid_hs (e1 ▸ List.mem_map.mpr ⟨(h', v), hh', rfl⟩)
  have r2 : ∀ x, (p1.addEdge nid v hBond).adjRow x =
      if x = nid then [(v, hData)] else if x = v then p.adjRow v ++ [(nid, hData)] else p.adjRow x := by
    intro x
    rw [adjRow_addEdge p1 nid v hBond hnid1 hv1 m1 (k1 ▸ hnid1) (k1 ▸ hv1), if_neg hne, r1, r1, r1, hrow_nid]
    rw [addHalfEdge_new [] v hBond (by simp), addHalfEdge_new (p.adjRow v) nid hBond hnid_rowv]
    rfl
  have hlen : (hs ++ [(nid, v)]).length = hs.length + 1 := by simp
  refine ⟨?_, ?_, ?_, ?_, multi_addEdge p1 nid v hBond hnid1 hv1 m1, ?_, ?_, ?_, ?_, ?_, ?_⟩
  · rw [hlen, inv.nid_eq]; simp; omega
  · rw [hlen, List.range_succ, List.map_append, List.map_append, inv.hids]
    simp [inv.nid_eq]
  · rw [n2, inv.nodes]; simp
  · rw [keys_addEdge p1 nid v hBond hnid1 hv1 m1, k1, nodeIds_addEdge p1 nid v hBond hnid1 hv1 m1]
  · intro x hx hxU
    rw [attr?_addEdge p1 nid v hBond hnid1 hv1 m1, a1, if_neg (fun (e : x = nid) => hnid_old (e ▸ hx))]
    exact inv.attrs x hx hxU
  · intro h hh
    simp only [symbol?, attr?_addEdge p1 nid v hBond hnid1 hv1 m1, a1]
    rw [List.map_append, List.mem_append] at hh
    rcases hh with hh | hh
    · have : h ≠ nid := fun e => hnid_hs (e ▸ hh)
      rw [if_neg this]
      exact inv.hsym h hh
    · have : h = nid := by simpa using hh
      rw [if_pos this]; rfl
  · intro x hx hxU e
    have hxn : x ≠ nid := fun e => hnid_old (e ▸ hx)
    rw [r2, if_neg hxn]
    by_cases hxv : x = v
    · subst hxv
      rw [if_pos rfl, List.mem_append, inv.oldRow x hx hxU]
      simp only [List.mem_singleton, List.mem_append]
      constructor
      · rintro ((h | ⟨h, hh, rfl⟩) | rfl)
        · exact .inl h
        · exact .inr ⟨h, .inl hh, rfl⟩
        · exact .inr ⟨nid, .inr rfl, rfl⟩
      · rintro (h | ⟨h, hh | hh, rfl⟩)
        · exact .inl (.inl h)
        · exact .inl (.inr ⟨h, hh, rfl⟩)
        · simp only [Prod.mk.injEq] at hh
          rw [hh.1]; exact .inr rfl
    · rw [if_neg hxv, inv.oldRow x hx hxU]
      simp only [List.mem_singleton, List.mem_append]
      constructor
      · rintro (h | ⟨h, hh, rfl⟩)
        · exact .inl h
        · exact .inr ⟨h, .inl hh, rfl⟩
      · rintro (h | ⟨h, hh | hh, rfl⟩)
        · exact .inl h
        · exact .inr ⟨h, hh, rfl⟩
        · simp only [Prod.mk.injEq] at hh
          exact absurd hh.2 hxv
  · intro x hx hxU
    have hxn : x ≠ nid := fun e => hnid_old (e ▸ hx)
    rw [r2, if_neg hxn]
    by_cases hxv : x = v
    · subst hxv
      rw [if_pos rfl, List.map_append, List.nodup_append]
      refine ⟨inv.oldRowNodup x hx hxU, by simp, ?_⟩
      intro a ha b hb
      have : b = nid := by simpa using hb
      subst this
      exact fun e => hnid_rowv (e ▸ ha)
    · rw [if_neg hxv]; exact inv.oldRowNodup x hx hxU
  · intro h a hh
    rw [List.mem_append] at hh
    rcases hh with hh | hh
    · have hmem : h ∈ hs.map (·.1) := List.mem_map.mpr ⟨(h, a), hh, rfl⟩
      have h1 : h ≠ nid := fun e => hnid_hs (e ▸ hmem)
      have h2 : h ≠ v := fun e => inv.hid_not_old hmem (e ▸ hv)
      rw [r2, if_neg h1, if_neg h2]
      exact inv.newRow h a hh
    · simp only [List.mem_singleton, Prod.mk.injEq] at hh
      obtain ⟨rfl, rfl⟩ := hh
      rw [r2, if_pos rfl]
  · intro h a hh
    rw [List.mem_append] at hh
    rcases hh with hh | hh
    · exact inv.anchors h a hh
    · simp only [List.mem_singleton, Prod.mk.injEq] at hh
      obtain ⟨rfl, rfl⟩ := hh
      exact ⟨hv, hvu⟩

/-- `for v in its.neighbors(u): if v not in unreachable_nodes: …` -/
theorem pinv_insertHs_fold {its : Graph} {unr U : List Int} (hw : WF its) (hU : ∀ u, u ∈ U → u ∈ unr) :
    ∀ (L : List Int) (hs : List (Int × Int)) (p : Graph) (nid : Int), (∀ v, v ∈ L → v ∈ its.nodeIds) →
      PInv its unr U hs p nid →
      ∃ hs', PInv its unr U hs' (L.foldl (insertHs unr) (p, nid)).1 (L.foldl (insertHs unr) (p, nid)).2 ∧
        hs'.map (·.2) = hs.map (·.2) ++ L.filter (fun v => !unr.contains v) := by
  intro L
  induction L with
  | nil => intro hs p nid _ inv; exact ⟨hs, inv, by simp⟩
  | cons v L ih =>
    intro hs p nid hL inv
    have hv := hL v List.mem_cons_self
    have hL' : ∀ w, w ∈ L → w ∈ its.nodeIds := fun w hw' => hL w (List.mem_cons_of_mem _ hw')
    simp only [List.foldl_cons]
    cases hc : unr.contains v with
    | true =>
      have e : insertHs unr (p, nid) v = (p, nid) := by unfold insertHs; rw [if_pos hc]
      rw [e]
      obtain ⟨hs', inv', hmap⟩ := ih hs p nid hL' inv
      refine ⟨hs', inv', ?_⟩
      rw [hmap, List.filter_cons, hc]
      rfl
    | false =>
      have hvu : v ∉ unr := by
        intro h
        have : unr.contains v = true := by simpa using h
        rw [hc] at this; cases this
      have e : insertHs unr (p, nid) v =
          ((p.addNode nid { symbol := some "H" }).addEdge nid v hBond, nid + 1) := by
        unfold insertHs; rw [if_neg (by rw [hc]; simp)]
      rw [e]
      obtain ⟨hs', inv', hmap⟩ := ih _ _ _ hL' (pinv_insert hw hU inv hv hvu)
      refine ⟨hs', inv', ?_⟩
      rw [hmap, List.filter_cons, hc]
      simp

theorem filter_ne_of_forall_ne (l : List Int) (u : Int) (h : ∀ x, x ∈ l → x ≠ u) : l.filter (· != u) = l :=
  List.filter_eq_self.mpr (fun x hx => by simpa using h x hx)

/-- `its_pruned.remove_node(u)` -/
theorem pinv_remove {its : Graph} {unr U : List Int} {hs : List (Int × Int)} {p : Graph} {nid : Int}
    (inv : PInv its unr U hs p nid) {u : Int} (hu : u ∈ unr) (hun : u ∈ its.nodeIds) :
    PInv its unr (U ++ [u]) hs (p.removeNode u) nid := by
  have hhs_ne : ∀ h, h ∈ hs.map (·.1) → h ≠ u := fun h hh e => inv.hid_not_old hh (e ▸ hun)
  have hnotU : ∀ x, x ∉ U ++ [u] ↔ x ∉ U ∧ x ≠ u := by intro x; simp
  refine ⟨inv.nid_eq, inv.hids, ?_, ?_, inv.multi, ?_, ?_, ?_, ?_, ?_, inv.anchors⟩
  · rw [nodeIds_removeNode, inv.nodes, List.filter_append, filter_ne_of_forall_ne _ u hhs_ne, List.filter_filter]
    congr 1
    apply List.filter_congr
    intro x _
    by_cases h1 : x = u <;> by_cases h2 : x ∈ U <;> simp [h1, h2]
  · rw [keys_removeNode, nodeIds_removeNode, inv.keys]
  · intro x hx hxU
    obtain ⟨h1, h2⟩ := (hnotU x).mp hxU
    rw [attr?_removeNode, if_neg h2]
    exact inv.attrs x hx h1
  · intro h hh
    simp only [symbol?, attr?_removeNode, if_neg (hhs_ne h hh)]
    exact inv.hsym h hh
  · intro x hx hxU e
    obtain ⟨h1, h2⟩ := (hnotU x).mp hxU
    rw [adjRow_removeNode, if_neg h2, List.mem_filter, inv.oldRow x hx h1]
    constructor
    · rintro ⟨h | ⟨h, hh, rfl⟩, hne⟩
      · refine .inl ⟨h.1, (hnotU _).mpr ⟨h.2, by simpa using hne⟩⟩
      · exact .inr ⟨h, hh, rfl⟩
    · rintro (⟨h, hU⟩ | ⟨h, hh, rfl⟩)
      · obtain ⟨h3, h4⟩ := (hnotU _).mp hU
        exact ⟨.inl ⟨h, h3⟩, by simpa using h4⟩
      · refine ⟨.inr ⟨h, hh, rfl⟩, ?_⟩
        have := hhs_ne h (List.mem_map.mpr ⟨(h, x), hh, rfl⟩)
        simpa using this
  · intro x hx hxU
    obtain ⟨h1, h2⟩ := (hnotU x).mp hxU
    rw [adjRow_removeNode, if_neg h2]
    exact ((List.filter_sublist).map _).nodup (inv.oldRowNodup x hx h1)
  · intro h a hh
    have hmem : h ∈ hs.map (·.1) := List.mem_map.mpr ⟨(h, a), hh, rfl⟩
    rw [adjRow_removeNode, if_neg (hhs_ne h hmem), inv.newRow h a hh]
    have : a ≠ u := fun e => (inv.anchors h a hh).2 (e ▸ hu)
    simp [this]

/-- the whole loop `for u in unreachable_nodes` -/
theorem pinv_prune_fold {its : Graph} {unr : List Int} (insertH : Bool) (hw : WF its)
    (hun : ∀ u, u ∈ unr → u ∈ its.nodeIds) :
    ∀ (R U : List Int) (hs : List (Int × Int)) (p : Graph) (nid : Int),
      (∀ u, u ∈ R → u ∈ unr) → (∀ u, u ∈ U → u ∈ unr) → PInv its unr U hs p nid →
      ∃ hs', PInv its unr (U ++ R) hs' (R.foldl (pruneStep its unr insertH) (p, nid)).1
                (R.foldl (pruneStep its unr insertH) (p, nid)).2 ∧
        hs'.map (·.2) = hs.map (·.2) ++
          (if insertH then R.flatMap (fun u => (its.neighbors u).filter fun v => !unr.contains v) else []) := by
  intro R
  induction R with
  | nil => intro U hs p nid _ _ inv; exact ⟨hs, by simpa using inv, by simp⟩
  | cons u R ih =>
    intro U hs p nid hR hU inv
    have hu := hR u List.mem_cons_self
    have hR' : ∀ w, w ∈ R → w ∈ unr := fun w hw' => hR w (List.mem_cons_of_mem _ hw')
    have hU' : ∀ w, w ∈ U ++ [u] → w ∈ unr := by
      intro w hw'
      rcases List.mem_append.mp hw' with h | h
      · exact hU w h
      · have : w = u := by simpa using h
        exact this ▸ hu
    simp only [List.foldl_cons]
    cases insertH with
    | false =>
      have e : pruneStep its unr false (p, nid) u = (p.removeNode u, nid) := rfl
      rw [e]
      obtain ⟨hs', inv', hmap⟩ := ih (U ++ [u]) hs _ nid hR' hU' (pinv_remove inv hu (hun u hu))
      refine ⟨hs', by simpa using inv', by simpa using hmap⟩
    | true =>
      obtain ⟨hs1, inv1, hmap1⟩ := pinv_insertHs_fold hw hU (its.neighbors u) hs p nid (hw.nbrNode u) inv
      have e : pruneStep its unr true (p, nid) u =
          (((its.neighbors u).foldl (insertHs unr) (p, nid)).1.removeNode u,
           ((its.neighbors u).foldl (insertHs unr) (p, nid)).2) := rfl
      rw [e]
      obtain ⟨hs', inv', hmap⟩ := ih (U ++ [u]) hs1 _ _ hR' hU' (pinv_remove inv1 hu (hun u hu))
      refine ⟨hs', by simpa using inv', ?_⟩
      rw [hmap, hmap1]
      simp

/-! ### from the invariant to the specification -/

theorem flatMap_congr' {α β : Type} (l : List α) (f g : α → List β) (h : ∀ x, x ∈ l → f x = g x) :
    l.flatMap f = l.flatMap g := by
  induction l with
  | nil => rfl
  | cons a l ih =>
    simp only [List.flatMap_cons]
    rw [h a List.mem_cons_self, ih (fun x hx => h x (List.mem_cons_of_mem _ hx))]

/-- the final state of the loop satisfies the description of the pruned graph -/
theorem pruneSpecK_of_pinv {its : Graph} {unr : List Int} {hs : List (Int × Int)} {P : Graph} {nid : Int}
    (insertH : Bool) (hw : WF its) (hun : ∀ u, u ∈ unr → u ∈ its.nodeIds) (hund : unr.Nodup)
    (inv : PInv its unr unr hs P nid)
    (hmap : hs.map (·.2) =
      if insertH then unr.flatMap (fun u => (its.neighbors u).filter fun v => !unr.contains v) else []) :
    PruneSpecK its (its.nodeIds.filter fun x => !unr.contains x) insertH P := by
  have hK : ∀ v, v ∈ its.nodeIds.filter (fun x => !unr.contains x) ↔ v ∈ its.nodeIds ∧ v ∉ unr := by
    intro v; simp [List.mem_filter]
  have hnodes : ∀ v, v ∈ P.nodeIds ↔ v ∈ its.nodeIds.filter (fun x => !unr.contains x) ∨ v ∈ hs.map (·.1) := by
    intro v; rw [inv.nodes, List.mem_append]
  have hanchor : ∀ h, h ∈ hs.map (·.1) → ∃ a, (h, a) ∈ hs := by
    intro h hh
    obtain ⟨⟨h', a⟩, hm, rfl⟩ := List.mem_map.mp hh
    exact ⟨a, hm⟩
  -- the rows of kept atoms
  have N1 : ∀ x, x ∈ its.nodeIds → x ∉ unr → ∀ e, e ∈ P.adjRow x →
      (e ∈ its.adjRow x ∧ e.1 ∈ its.nodeIds ∧ e.1 ∉ unr) ∨ (∃ h, (h, x) ∈ hs ∧ e = (h, hData)) := by
    intro x hx hxu e he
    rcases (inv.oldRow x hx hxu e).mp he with ⟨h1, h2⟩ | h
    · exact .inl ⟨h1, hw.nbrNode x e.1 (List.mem_map.mpr ⟨e, h1, rfl⟩), h2⟩
    · exact .inr h
  have hHrow : ∀ h x, (h, x) ∈ hs → x ∈ its.nodeIds → x ∉ unr → rowOf (P.adjRow x) h = hData := by
    intro h x hh hx hxu
    exact rowOf_of_mem _ (inv.oldRowNodup x hx hxu) h hData ((inv.oldRow x hx hxu _).mpr (.inr ⟨h, hh, rfl⟩))
  refine ⟨?_, ?_, ?_, ?_, ?_, ?_, ?_, ?_, ?_⟩
  · -- kept_nodes
    intro v hv
    rw [hnodes]
    constructor
    · rintro (h | h)
      · exact h
      · exact absurd hv (inv.hid_not_old h)
    · exact .inl
  · -- attrs
    intro v hv
    obtain ⟨h1, h2⟩ := (hK v).mp hv
    exact inv.attrs v h1 h2
  · -- bonds
    intro a b ha hb
    obtain ⟨ha1, ha2⟩ := (hK a).mp ha
    obtain ⟨hb1, hb2⟩ := (hK b).mp hb
    rw [edgeData_eq, edgeData_eq]
    by_cases hn : b ∈ its.neighbors a
    · have hmem := rowOf_mem_of_key (its.adjRow a) b hn
      have : (b, rowOf (its.adjRow a) b) ∈ P.adjRow a := (inv.oldRow a ha1 ha2 _).mpr (.inl ⟨hmem, hb2⟩)
      exact rowOf_of_mem _ (inv.oldRowNodup a ha1 ha2) b _ this
    · rw [rowOf_of_not_mem (its.adjRow a) b hn]
      apply rowOf_of_not_mem
      intro hm
      obtain ⟨e, he, e1⟩ := List.mem_map.mp hm
      rcases N1 a ha1 ha2 e he with ⟨h1, _, _⟩ | ⟨h, hh, rfl⟩
      · exact hn (e1 ▸ List.mem_map.mpr ⟨e, h1, rfl⟩)
      · exact inv.hid_not_old (List.mem_map.mpr ⟨(h, a), hh, rfl⟩) (e1 ▸ hb1)
  · -- nodup
    rw [inv.nodes, List.nodup_append]
    refine ⟨hw.nodup.filter _, ?_, ?_⟩
    · rw [inv.hids, List.Nodup, List.pairwise_map]
      refine List.Pairwise.imp ?_ List.nodup_range
      intro i j hij e
      apply hij
      omega
    · intro a ha b hb e
      exact inv.hid_not_old hb (e ▸ (List.mem_filter.mp ha).1)
  · -- closed
    intro a ha
    simp only [allIds, List.mem_append, List.mem_flatMap] at ha
    rcases ha with ha | ⟨⟨x, row⟩, hr, ha⟩
    · exact ha
    · have hxk : x ∈ P.keys := List.mem_map.mpr ⟨(x, row), hr, rfl⟩
      have hxn : x ∈ P.nodeIds := inv.keys ▸ hxk
      rcases List.mem_cons.mp ha with rfl | ha
      · exact hxn
      · have hknd : (P.adj.map (·.1)).Nodup := by
          have := inv.keys; unfold keys at this; rw [this]
          rw [inv.nodes, List.nodup_append]
          refine ⟨hw.nodup.filter _, ?_, ?_⟩
          · rw [inv.hids, List.Nodup, List.pairwise_map]
            refine List.Pairwise.imp ?_ List.nodup_range
            intro i j hij e
            apply hij
            omega
          · intro a ha b hb e
            exact inv.hid_not_old hb (e ▸ (List.mem_filter.mp ha).1)
        have hrow : P.adjRow x = row := by rw [adjRow_eq]; exact rowOf_of_mem _ hknd x row hr
        obtain ⟨e, he, rfl⟩ := List.mem_map.mp ha
        rw [← hrow] at he
        rcases (hnodes x).mp hxn with hx | hx
        · obtain ⟨hx1, hx2⟩ := (hK x).mp hx
          rcases N1 x hx1 hx2 e he with ⟨_, h2, h3⟩ | ⟨h, hh, rfl⟩
          · exact (hnodes _).mpr (.inl ((hK _).mpr ⟨h2, h3⟩))
          · exact (hnodes _).mpr (.inr (List.mem_map.mpr ⟨(h, x), hh, rfl⟩))
        · obtain ⟨a, hxa⟩ := hanchor x hx
          rw [inv.newRow x a hxa] at he
          have : e = (a, hData) := by simpa using he
          subst this
          exact (hnodes _).mpr (.inl ((hK _).mpr (inv.anchors x a hxa)))
  · -- no_new
    intro hf h hh
    rw [hf] at hmap
    have : hs = [] := by simpa using hmap
    rw [inv.nodes, this] at hh
    simp only [List.map_nil, List.append_nil] at hh
    exact (List.mem_filter.mp hh).1
  · -- new_nodes
    intro h hh hn
    have hh' : h ∈ hs.map (·.1) := by
      rcases (hnodes h).mp hh with h1 | h1
      · exact absurd (List.mem_filter.mp h1).1 hn
      · exact h1
    obtain ⟨a, ha⟩ := hanchor h hh'
    obtain ⟨ha1, ha2⟩ := inv.anchors h a ha
    refine ⟨?_, inv.hsym h hh', a, (hK a).mpr ⟨ha1, ha2⟩, ?_, ?_, ?_⟩
    · intro n hn'
      have := lt_freshId its n hn'
      have := (inv.hid_range hh').1
      omega
    · rw [neighbors_eq, inv.newRow h a ha]; rfl
    · rw [edgeData_eq, inv.newRow h a ha, rowOf_cons, if_pos rfl]
    · rw [edgeData_eq]; exact hHrow h a ha ha1 ha2
  · -- kept_nbrs
    intro v hv w hw'
    obtain ⟨hv1, hv2⟩ := (hK v).mp hv
    rw [neighbors_eq] at hw'
    obtain ⟨e, he, rfl⟩ := List.mem_map.mp hw'
    rcases N1 v hv1 hv2 e he with ⟨_, h2, h3⟩ | ⟨h, hh, rfl⟩
    · exact .inl ((hK _).mpr ⟨h2, h3⟩)
    · have hm : h ∈ hs.map (·.1) := List.mem_map.mpr ⟨(h, v), hh, rfl⟩
      refine .inr ⟨(hnodes h).mpr (.inr hm), inv.hid_not_old hm, ?_⟩
      rw [neighbors_eq, inv.newRow h v hh]; rfl
  · -- one_per_cut
    have hnew : newIds its P = hs.map (·.1) := by
      unfold newIds
      rw [inv.nodes, List.filter_append]
      have e1 : (its.nodeIds.filter fun x => !unr.contains x).filter (fun h => !its.nodeIds.contains h) = [] := by
        rw [List.filter_eq_nil_iff]
        intro a ha
        simp [(List.mem_filter.mp ha).1]
      have e2 : (hs.map (·.1)).filter (fun h => !its.nodeIds.contains h) = hs.map (·.1) := by
        rw [List.filter_eq_self]
        intro a ha
        simp [inv.hid_not_old ha]
      rw [e1, e2, List.nil_append]
    have hanch : (newIds its P).map (fun h => (P.neighbors h).headD 0) = hs.map (·.2) := by
      rw [hnew, List.map_map]
      apply List.map_congr_left
      rintro ⟨h, a⟩ hh
      simp only [Function.comp, neighbors_eq, inv.newRow h a hh]
      rfl
    rw [hanch, hmap]
    cases insertH with
    | false => exact List.Perm.refl _
    | true =>
      simp only [if_true]
      unfold cutAnchors
      have hperm : unr.Perm (its.nodeIds.filter fun u => !(its.nodeIds.filter fun x => !unr.contains x).contains u) := by
        rw [List.perm_ext_iff_of_nodup hund (hw.nodup.filter _)]
        intro u
        simp only [List.mem_filter, List.contains_eq_mem, decide_eq_false_iff_not,
          Bool.not_eq_eq_eq_not, Bool.not_true, not_and, Classical.not_not]
        constructor
        · intro hu; exact ⟨hun u hu, fun _ => hu⟩
        · rintro ⟨h1, h2⟩; exact h2 h1
      refine (List.Perm.flatMap_right _ hperm).trans ?_
      rw [flatMap_congr']
      intro u _
      apply List.filter_congr
      intro v hv
      have hvn : v ∈ its.nodeIds := hw.nbrNode u v hv
      by_cases hvu : v ∈ unr <;> simp [hvu, hvn, List.mem_filter]

/-- the unreachable nodes of the pruning step are the atoms that are not kept -/
theorem mem_pruneUnreachable (its : Graph) (hw : WF its) (hs : Simple its) (r : Nat) (u : Int) :
    u ∈ getUnreachable its (getRc its).nodeIds r ↔ u ∈ its.nodeIds ∧ ¬ Kept its r u := by
  rw [unreachable_exact its hw.nodup _ r u]
  have hrc := (rc_exact_wf its hw hs).nodes
  constructor
  · rintro ⟨h1, h2⟩
    exact ⟨h1, fun ⟨s, hs', hd⟩ => h2 s ((hrc s).mpr hs') hd⟩
  · rintro ⟨h1, h2⟩
    exact ⟨h1, fun s hs' hd => h2 ⟨s, (hrc s).mp hs', hd⟩⟩

/-- `C11.prune_exact` with the well-formedness facts as hypotheses — for every well-formed simple ITS graph (any node ids), every radius
    `r ≥ 0` and both values of `insert_hydrogens`, the model of `prune_its_to_rc` / `ITS.prune`
    keeps exactly the atoms within distance `r` of the reaction centre (with their attributes),
    leaves all bonds among them unchanged, and — when asked — adds exactly one new `H` with a
    `(1,1)` bond per cut bond, on pairwise distinct ids above every id in use; nothing else. -/
theorem prune_exact_wf (its : Graph) (hw : WF its) (hs : Simple its) (r : Nat) (insertH : Bool) :
    PruneSpec its r insertH (pruneItsToRc its r insertH) := by
  have hU := mem_pruneUnreachable its hw hs r
  have hun : ∀ u, u ∈ getUnreachable its (getRc its).nodeIds r → u ∈ its.nodeIds := fun u hu => ((hU u).mp hu).1
  have hund := unreachable_nodup its hw.nodup (getRc its).nodeIds r
  obtain ⟨hs', inv, hmap⟩ := pinv_prune_fold insertH hw hun (getUnreachable its (getRc its).nodeIds r) [] [] its
    (freshId its) (fun _ h => h) (by simp) (pinv_init its _ hw hs)
  simp only [List.nil_append, List.map_nil] at inv hmap
  refine ⟨its.nodeIds.filter fun x => !(getUnreachable its (getRc its).nodeIds r).contains x, ?_, ?_⟩
  · intro v
    simp only [List.mem_filter, List.contains_eq_mem, Bool.not_eq_eq_eq_not, Bool.not_true,
      decide_eq_false_iff_not]
    constructor
    · rintro ⟨h1, h2⟩
      apply Classical.byContradiction
      intro hk
      exact h2 ((hU v).mpr ⟨h1, hk⟩)
    · intro hk
      exact ⟨hk.mem, fun hu => ((hU v).mp hu).2 hk⟩
  · exact pruneSpecK_of_pinv insertH hw hun hund inv hmap

/-- the ids after pruning are pairwise distinct and every new id is above every old id -/
theorem prune_ids_fresh (its : Graph) (hw : WF its) (hs : Simple its) (r : Nat) (insertH : Bool) :
    (pruneItsToRc its r insertH).nodeIds.Nodup ∧
    ∀ h, h ∈ (pruneItsToRc its r insertH).nodeIds → h ∉ its.nodeIds → ∀ n, n ∈ its.nodeIds → n < h := by
  obtain ⟨K, _, spec⟩ := prune_exact_wf its hw hs r insertH
  exact ⟨spec.nodup, fun h hh hn => (spec.new_nodes h hh hn).1⟩

end C11
