import FGVerif.Model.C08
/-!
  C08 — the permutation mapper returns each admissible assignment exactly once.

  Theorems about `Model/Permutation.lean` (the model of `fgutils/permutation.py`), for every
  pattern list, structure list and mapper configuration — no bound on lengths.  Core Lean only.

  * `Perm.mem_picks`, `Perm.mem_arrangements`, `Perm.arrangements_nodup`, `Perm.mem_arrangements_general`
        `arrangements k l` (the model of the prefixes of `itertools.permutations`) lists exactly
        the duplicate-free length-`k` lists over a duplicate-free `l`, each once
  * `Perm.mem_dedup`, `Perm.dedup_nodup`, `Perm.dedup_sublist`     first-occurrence de-duplication
  * `C08.mem_generate`              `generate_mapping_permutations` = injective accepted slot lists
  * `C08.permute_exact`             `a ∈ permute pat str ↔ Admissible m pat str a`   (full strength,
                                    including `can_map_to_nothing`, wildcard and case folding)
  * `C08.permute_nodup`             no assignment is returned twice
  * `C08.count_dummies`, `C08.mem_dummies`   the dummy multiset in closed form: `max 0 (#pat c − #str c)`
                                    copies of every non-wildcard `c` that may map to nothing
  * `C08.nothing_only_if_allowed`, `C08.mapped_symbols`, `C08.structure_wildcard_never_matches`,
    `C08.permute_nil`, `C08.permute_length`                          corollaries
  * `C08.matrix_agrees` (true by definition of the repaired constructor) and
    `C08.matrix_characterisation`, `C08.isMapping_eq_spec`          the symbol matrix
  * `C08.admissible_iff`, `C08.specCheck_sound`, `C08.specCheck_complete`, `C08.specCheckCall_sound`,
    `C08.permute_specCheck`         the executable specification the driver applies to implementation
                                    outputs decides the declarative one; the model passes it

  The specification `Admissible'`/`Admissible` is declarative: it speaks of an assignment only
  (entries, distinctness, accepted symbols, an injective choice of dummy slots), not of
  permutations, padded positions or de-duplication.  The dummy slots are `C08.dummies`
  (`Model/C08.lean`), which mirrors the constructor order and the padding loop; `count_dummies`
  gives their closed form for every symbol except the wildcard (the number of wildcard dummies is
  `max 0 (|pat| − |structure incl. the dummies added before|)`, which depends on the constructor's
  order and is therefore left as the loop states it).
-/
namespace Perm
open List

/-! ### `picks` -/

theorem mem_picks {α} {x : α} {r l : List α} :
    (x, r) ∈ picks l ↔ ∃ l₁ l₂, l = l₁ ++ x :: l₂ ∧ r = l₁ ++ l₂ := by
  induction l generalizing r with
  | nil => simp [picks]
  | cons y ys ih =>
    simp only [picks, mem_cons, mem_map, Prod.mk.injEq]
    constructor
    · rintro (⟨rfl, rfl⟩ | ⟨⟨x', r'⟩, h, rfl, rfl⟩)
      · exact ⟨[], _, rfl, rfl⟩
      · obtain ⟨l₁, l₂, rfl, rfl⟩ := ih.mp h
        exact ⟨y :: l₁, l₂, rfl, rfl⟩
    · rintro ⟨l₁, l₂, h, rfl⟩
      cases l₁ with
      | nil =>
        simp only [nil_append, cons.injEq] at h
        left; exact ⟨h.1.symm, h.2.symm⟩
      | cons z zs =>
        simp only [cons_append, cons.injEq] at h
        obtain ⟨rfl, rfl⟩ := h
        right
        exact ⟨(x, zs ++ l₂), ih.mpr ⟨zs, l₂, rfl, rfl⟩, rfl, rfl⟩

theorem picks_map_fst {α} (l : List α) : (picks l).map (·.1) = l := by
  induction l with
  | nil => rfl
  | cons y ys ih => simp [picks, Function.comp_def, ih]

theorem picks_nodup_rest {α} {x : α} {r l : List α} (hl : l.Nodup) (h : (x, r) ∈ picks l) :
    r.Nodup ∧ x ∉ r ∧ ∀ y, y ∈ r ↔ (y ∈ l ∧ y ≠ x) := by
  obtain ⟨l₁, l₂, rfl, rfl⟩ := mem_picks.mp h
  simp only [nodup_append, nodup_cons, mem_cons, ne_eq, forall_eq_or_imp] at hl
  obtain ⟨h1, ⟨h2, h3⟩, h4⟩ := hl
  refine ⟨?_, ?_, ?_⟩
  · exact nodup_append.mpr ⟨h1, h3, fun a ha b hb => (h4 a ha).2 b hb⟩
  · simp only [mem_append, not_or]
    exact ⟨fun hx => (h4 x hx).1 rfl, h2⟩
  · intro y
    simp only [mem_append, mem_cons]
    constructor
    · rintro (hy | hy)
      · exact ⟨Or.inl hy, (h4 y hy).1⟩
      · exact ⟨Or.inr (Or.inr hy), fun e => h2 (e ▸ hy)⟩
    · rintro ⟨hy | hy | hy, hne⟩
      · exact Or.inl hy
      · exact absurd hy hne
      · exact Or.inr hy

/-! ### `arrangements` -/

/-- **`arrangements k l` are exactly the `k`-arrangements of `l`** (for a duplicate-free `l`) -/
theorem mem_arrangements {α} {k : Nat} {l p : List α} (hl : l.Nodup) :
    p ∈ arrangements k l ↔ p.length = k ∧ p.Nodup ∧ ∀ x ∈ p, x ∈ l := by
  induction k generalizing l p with
  | zero =>
    simp only [arrangements, mem_singleton]
    constructor
    · rintro rfl; simp
    · rintro ⟨h, -, -⟩; exact length_eq_zero_iff.mp h
  | succ k ih =>
    simp only [arrangements, mem_flatMap, mem_map]
    constructor
    · rintro ⟨⟨x, r⟩, hxr, q, hq, rfl⟩
      obtain ⟨hr, hxnr, hmem⟩ := picks_nodup_rest hl hxr
      obtain ⟨h1, h2, h3⟩ := (ih hr).mp hq
      refine ⟨by simp [h1], nodup_cons.mpr ⟨fun hx => hxnr (h3 x hx), h2⟩, ?_⟩
      intro y hy
      rcases mem_cons.mp hy with rfl | hy
      · obtain ⟨l₁, l₂, rfl, -⟩ := mem_picks.mp hxr
        simp
      · exact ((hmem y).mp (h3 y hy)).1
    · rintro ⟨h1, h2, h3⟩
      cases p with
      | nil => simp at h1
      | cons x q =>
        obtain ⟨l₁, l₂, rfl⟩ := append_of_mem (h3 x (by simp))
        have hxr : (x, l₁ ++ l₂) ∈ picks (l₁ ++ x :: l₂) := mem_picks.mpr ⟨l₁, l₂, rfl, rfl⟩
        obtain ⟨hr, -, hmem⟩ := picks_nodup_rest hl hxr
        obtain ⟨hxq, hq⟩ := nodup_cons.mp h2
        refine ⟨(x, l₁ ++ l₂), hxr, q, (ih hr).mpr ⟨by simpa using h1, hq, ?_⟩, rfl⟩
        intro y hy
        exact (hmem y).mpr ⟨h3 y (mem_cons_of_mem _ hy), fun e => hxq (e ▸ hy)⟩

theorem nodup_map_cons {α} (x : α) {L : List (List α)} (h : L.Nodup) : (L.map (x :: ·)).Nodup := by
  rw [nodup_iff_pairwise_ne] at *
  rw [pairwise_map]
  exact h.imp (fun hne e => hne (by simpa using e))

/-- **no arrangement is listed twice** -/
theorem arrangements_nodup {α} {k : Nat} {l : List α} (hl : l.Nodup) : (arrangements k l).Nodup := by
  induction k generalizing l with
  | zero => simp [arrangements]
  | succ k ih =>
    simp only [arrangements]
    rw [nodup_iff_pairwise_ne, pairwise_flatMap]
    constructor
    · rintro ⟨x, r⟩ hxr
      rw [← nodup_iff_pairwise_ne]
      exact nodup_map_cons x (ih (picks_nodup_rest hl hxr).1)
    · have hp : (picks l).Pairwise (fun a b => a.1 ≠ b.1) := by
        have := picks_map_fst l ▸ hl
        rw [nodup_iff_pairwise_ne, pairwise_map] at this
        exact this
      refine hp.imp ?_
      intro a b hab x hx y hy e
      simp only [mem_map] at hx hy
      obtain ⟨q, -, rfl⟩ := hx
      obtain ⟨q', -, e'⟩ := hy
      rw [← e'] at e
      simp only [cons.injEq] at e
      exact hab e.1

/-- `arrangements k l` for an arbitrary list (duplicates allowed): the length-`k` rearrangements
    of sublists of `l` -/
theorem mem_arrangements_general {α} {k : Nat} {l p : List α} :
    p ∈ arrangements k l ↔ p.length = k ∧ ∃ q, q.Sublist l ∧ p.Perm q := by
  induction k generalizing l p with
  | zero =>
    simp only [arrangements, mem_singleton]
    constructor
    · rintro rfl; exact ⟨rfl, [], nil_sublist _, Perm.refl _⟩
    · rintro ⟨h, -⟩; exact length_eq_zero_iff.mp h
  | succ k ih =>
    simp only [arrangements, mem_flatMap, mem_map]
    constructor
    · rintro ⟨⟨x, r⟩, hxr, p', hp', rfl⟩
      obtain ⟨l₁, l₂, rfl, rfl⟩ := mem_picks.mp hxr
      obtain ⟨hlen, q', hq', hperm⟩ := ih.mp hp'
      obtain ⟨q₁, q₂, rfl, h1, h2⟩ := sublist_append_iff.mp hq'
      refine ⟨by simp [hlen], q₁ ++ x :: q₂, h1.append (h2.cons_cons x), ?_⟩
      exact (hperm.cons x).trans perm_middle.symm
    · rintro ⟨hlen, q, hq, hperm⟩
      cases p with
      | nil => simp at hlen
      | cons x p' =>
        have hx : x ∈ q := hperm.mem_iff.mp mem_cons_self
        obtain ⟨q₁, q₂, rfl⟩ := append_of_mem hx
        obtain ⟨l₁, l₂', rfl, h1, h2⟩ := append_sublist_iff.mp hq
        obtain ⟨r₁, r₂, rfl, hxr, h3⟩ := cons_sublist_iff.mp h2
        obtain ⟨s₁, s₂, rfl⟩ := append_of_mem hxr
        have hp' : p'.Perm (q₁ ++ q₂) := (hperm.trans perm_middle).cons_inv
        refine ⟨(x, (l₁ ++ s₁) ++ (s₂ ++ r₂)), mem_picks.mpr ⟨l₁ ++ s₁, s₂ ++ r₂, by simp, rfl⟩, p', ?_, rfl⟩
        refine ih.mpr ⟨by simpa using hlen, q₁ ++ q₂, ?_, hp'⟩
        exact (h1.trans (sublist_append_left _ _)).append (h3.trans (sublist_append_right _ _))

/-! ### `dedup` -/

theorem mem_dedup {α} [BEq α] [LawfulBEq α] {x : α} {l seen : List α} :
    x ∈ dedup l seen ↔ x ∈ l ∧ x ∉ seen := by
  induction l generalizing seen with
  | nil => simp [dedup]
  | cons y ys ih =>
    simp only [dedup]
    split
    · rename_i h
      have hy : y ∈ seen := by simpa using h
      rw [ih]
      constructor
      · rintro ⟨h1, h2⟩; exact ⟨mem_cons_of_mem _ h1, h2⟩
      · rintro ⟨h1, h2⟩
        rcases mem_cons.mp h1 with rfl | h1
        · exact absurd hy h2
        · exact ⟨h1, h2⟩
    · rename_i h
      have hy : y ∉ seen := by simpa using h
      simp only [mem_cons, ih, not_or]
      constructor
      · rintro (rfl | ⟨h1, h2, h3⟩)
        · exact ⟨Or.inl rfl, hy⟩
        · exact ⟨Or.inr h1, h3⟩
      · rintro ⟨rfl | h1, h2⟩
        · exact Or.inl rfl
        · by_cases e : x = y
          · exact Or.inl e
          · exact Or.inr ⟨h1, e, h2⟩

theorem dedup_nodup {α} [BEq α] [LawfulBEq α] (l seen : List α) : (dedup l seen).Nodup := by
  induction l generalizing seen with
  | nil => simp [dedup]
  | cons y ys ih =>
    simp only [dedup]
    split
    · exact ih _
    · refine nodup_cons.mpr ⟨?_, ih _⟩
      intro h
      have := (mem_dedup.mp h).2
      simp at this

/-- the first occurrences are kept in their order -/
theorem dedup_sublist {α} [BEq α] (l seen : List α) : (dedup l seen).Sublist l := by
  induction l generalizing seen with
  | nil => simp [dedup]
  | cons y ys ih =>
    simp only [dedup]
    split
    · exact (ih _).cons _
    · exact (ih _).cons_cons _

end Perm
namespace C08
open List Perm

/-! ### the padding loop -/

theorem pad_cons (w : Option String) (pat : List String) (c : String) (cs struct : List String)
    (adds : List Nat) :
    pad w pat (c :: cs) struct adds =
      pad w pat cs (struct ++ List.replicate (padCount w pat struct c) c)
        (adds ++ (List.range (padCount w pat struct c)).map (· + struct.length)) := rfl

theorem pad_eq (w : Option String) (pat : List String) : ∀ (cs struct : List String) (adds : List Nat),
    pad w pat cs struct adds =
      (struct ++ dummiesFrom w pat cs struct,
       adds ++ (List.range (dummiesFrom w pat cs struct).length).map (· + struct.length)) := by
  intro cs
  induction cs with
  | nil => intro struct adds; simp [pad, dummiesFrom]
  | cons c cs ih =>
    intro struct adds
    rw [pad_cons, ih]
    simp only [dummiesFrom, append_assoc, length_append, length_replicate, Prod.mk.injEq, true_and]
    rw [range_add]
    simp only [map_append, map_map, append_cancel_left_eq]
    apply map_congr_left
    intro x _
    simp only [Function.comp_def]
    omega

/-- the rewrite of dummy positions to `-1`, as `permute` does it -/
def rwSlot (s n : Nat) (si : Nat) : Int :=
  if ((List.range n).map (· + s)).contains si then (-1 : Int) else (si : Int)

theorem rwSlot_eq (s n si : Nat) : rwSlot s n si = if s ≤ si ∧ si < s + n then (-1 : Int) else (si : Int) := by
  unfold rwSlot
  have : ((List.range n).map (· + s)).contains si = true ↔ s ≤ si ∧ si < s + n := by
    simp only [contains_iff_mem, mem_map, mem_range]
    constructor
    · rintro ⟨a, h, rfl⟩; omega
    · rintro ⟨h1, h2⟩; exact ⟨si - s, by omega, by omega⟩
  by_cases h : s ≤ si ∧ si < s + n
  · rw [if_pos h, if_pos (this.mpr h)]
  · rw [if_neg h, if_neg (fun h' => h (this.mp h'))]

/-- `permute` = de-duplication of the rewritten matching arrangements over structure ++ dummies -/
theorem permute_unfold (m : Mapper) (pat str : List String) :
    m.permute pat str =
      dedup ((generate (fpat m pat) (fstr m str ++ dummies m pat str) (wild m)).map
        fun g => g.map (rwSlot (fstr m str).length (dummies m pat str).length)) [] := by
  simp only [Mapper.permute, pad_eq, nil_append]
  rfl

/-! ### `generate` -/

theorem mem_indexed {S : List String} {j : Nat} {s : String} :
    (j, s) ∈ (List.range S.length).zip S ↔ S[j]? = some s := by
  rw [mem_iff_getElem?]
  constructor
  · rintro ⟨i, hi⟩
    rw [getElem?_zip_eq_some] at hi
    obtain ⟨h1, h2⟩ := hi
    obtain ⟨hlt, h1⟩ := List.getElem?_eq_some_iff.mp h1
    simp only [getElem_range] at h1
    subst h1
    exact h2
  · intro h
    refine ⟨j, getElem?_zip_eq_some.mpr ⟨?_, h⟩⟩
    obtain ⟨hlt, -⟩ := List.getElem?_eq_some_iff.mp h
    exact getElem?_range hlt

theorem indexed_nodup (S : List String) : ((List.range S.length).zip S).Nodup := by
  have h : (((List.range S.length).zip S).map Prod.fst).Nodup := by
    rw [map_fst_zip (by simp)]; exact nodup_range
  rw [nodup_iff_pairwise_ne] at *
  rw [pairwise_map] at h
  exact h.imp (fun hne e => hne (by rw [e]))

/-- pattern symbol `p` accepts structure symbol `s` -/
def Accepts (w : Option String) (p s : String) : Prop := some p = w ∨ p = s

theorem symMatch_iff {w : Option String} {p s : String} : symMatch w p s = true ↔ Accepts w p s := by
  simp [symMatch, Accepts]

/-- **`generate` lists exactly the injective, symbol-respecting slot lists** -/
theorem mem_generate {P S : List String} {w : Option String} {g : List Nat} :
    g ∈ generate P S w ↔
      P ≠ [] ∧ g.length = P.length ∧ g.Nodup ∧
      ∀ (i : Nat) (p : String) (j : Nat), P[i]? = some p → g[i]? = some j → ∃ s, S[j]? = some s ∧ Accepts w p s := by
  unfold generate
  by_cases hP : P = []
  · subst hP; simp
  · have hE : P.isEmpty = false := by cases P <;> simp_all
    simp only [hE, Bool.false_eq_true, ↓reduceIte, mem_filterMap, ne_eq, hP, not_false_eq_true, true_and]
    constructor
    · rintro ⟨arr, harr, hsome⟩
      split at hsome
      · rename_i hall
        simp only [Option.some.injEq] at hsome
        subst hsome
        obtain ⟨h1, h2, h3⟩ := (mem_arrangements (indexed_nodup S)).mp harr
        refine ⟨by simp [h1], ?_, ?_⟩
        · rw [nodup_iff_pairwise_ne] at *
          rw [pairwise_map]
          refine h2.imp_of_mem ?_
          rintro ⟨j, s⟩ ⟨j', s'⟩ ha hb hne e
          simp only at e
          subst e
          have e1 := mem_indexed.mp (h3 _ ha)
          have e2 := mem_indexed.mp (h3 _ hb)
          rw [e1] at e2
          simp only [Option.some.injEq] at e2
          subst e2
          exact hne rfl
        · intro i p j hp hj
          rw [getElem?_map] at hj
          cases harri : arr[i]? with
          | none => simp [harri] at hj
          | some js =>
            obtain ⟨j', s⟩ := js
            simp only [harri, Option.map_some, Option.some.injEq] at hj
            subst hj
            refine ⟨s, mem_indexed.mp (h3 _ (mem_of_getElem? harri)), ?_⟩
            rw [all_eq_true] at hall
            have hz : (p, (j', s)) ∈ P.zip arr :=
              mem_of_getElem? (getElem?_zip_eq_some.mpr ⟨hp, harri⟩)
            have := hall _ hz
            exact symMatch_iff.mp this
      · simp at hsome
    · rintro ⟨hlen, hnd, hmatch⟩
      have hget : ∀ j ∈ g, ∃ s, S[j]? = some s := by
        intro j hj
        obtain ⟨i, hi⟩ := mem_iff_getElem?.mp hj
        have hlt : i < P.length := by
          rw [← hlen]; exact (List.getElem?_eq_some_iff.mp hi).1
        obtain ⟨s, hs, -⟩ := hmatch i P[i] j (getElem?_eq_getElem hlt) hi
        exact ⟨s, hs⟩
      refine ⟨g.map (fun j => (j, S[j]?.getD "")), ?_, ?_⟩
      · rw [mem_arrangements (indexed_nodup S)]
        refine ⟨by simp [hlen], ?_, ?_⟩
        · rw [nodup_iff_pairwise_ne] at *
          rw [pairwise_map]
          exact hnd.imp (fun hne e => hne (by simpa using congrArg Prod.fst e))
        · intro x hx
          obtain ⟨j, hj, rfl⟩ := mem_map.mp hx
          obtain ⟨s, hs⟩ := hget j hj
          rw [mem_indexed, hs]; rfl
      · have hall : ((P.zip (g.map fun j => (j, S[j]?.getD ""))).all
            fun ps => some ps.1 == w || ps.1 == ps.2.2) = true := by
          rw [all_eq_true]
          rintro ⟨p, j, s⟩ hz
          obtain ⟨i, hi⟩ := mem_iff_getElem?.mp hz
          rw [getElem?_zip_eq_some] at hi
          obtain ⟨hp, hj⟩ := hi
          rw [getElem?_map] at hj
          cases hgi : g[i]? with
          | none => simp [hgi] at hj
          | some j' =>
            simp only [hgi, Option.map_some, Option.some.injEq, Prod.mk.injEq] at hj
            obtain ⟨rfl, rfl⟩ := hj
            obtain ⟨s, hs, hacc⟩ := hmatch i p j' hp hgi
            simp only [hs, Option.getD_some]
            exact symMatch_iff.mpr hacc
        rw [if_pos hall]
        simp [Function.comp_def]


/-! ### the declarative specification -/

/-- `a` is an admissible assignment of the pattern `P` to the structure `S` with dummy slots `D`
    and pattern-side wildcard `w` (all symbols already case-folded).  No reference to
    permutations, padding positions or de-duplication. -/
structure Admissible' (w : Option String) (P S D : List String) (a : List Int) : Prop where
  /-- the empty pattern has no assignment -/
  nonempty : P ≠ []
  /-- one entry per pattern position -/
  length : a.length = P.length
  /-- an entry is "nothing" or a structure position -/
  range : ∀ x ∈ a, x = -1 ∨ (0 ≤ x ∧ x < (S.length : Int))
  /-- structure positions are used at most once -/
  distinct : ∀ (i j : Nat) (x : Int), 0 ≤ x → a[i]? = some x → a[j]? = some x → i = j
  /-- a pattern position that got a structure position accepts the symbol there -/
  accepts : ∀ (i : Nat) (p : String) (j : Nat), P[i]? = some p → a[i]? = some (j : Int) →
      ∃ s, S[j]? = some s ∧ Accepts w p s
  /-- the positions mapped to nothing can be given pairwise different dummy slots they accept -/
  nothing : ∃ f : Nat → Nat,
      (∀ (i : Nat) (p : String), P[i]? = some p → a[i]? = some (-1) →
          ∃ d, D[f i]? = some d ∧ Accepts w p d) ∧
      (∀ i j : Nat, a[i]? = some (-1) → a[j]? = some (-1) → f i = f j → i = j)

theorem rwSlot_lt {s n si : Nat} (h : si < s) : rwSlot s n si = (si : Int) := by
  rw [rwSlot_eq, if_neg (by omega)]

theorem rwSlot_ge {s n si : Nat} (h1 : s ≤ si) (h2 : si < s + n) : rwSlot s n si = -1 := by
  rw [rwSlot_eq, if_pos ⟨h1, h2⟩]

theorem getElem?_lt {α} {l : List α} {i : Nat} {x : α} (h : l[i]? = some x) : i < l.length :=
  (List.getElem?_eq_some_iff.mp h).1

/-- forward direction: a rewritten matching slot list is admissible -/
theorem admissible_of_generate {w : Option String} {P S D : List String} {g : List Nat}
    (hg : g ∈ generate P (S ++ D) w) :
    Admissible' w P S D (g.map (rwSlot S.length D.length)) := by
  obtain ⟨hne, hlen, hnd, hm⟩ := mem_generate.mp hg
  -- every slot is inside structure ++ dummies
  have hslot : ∀ (i j : Nat), g[i]? = some j → j < S.length + D.length := by
    intro i j hj
    have hi : i < P.length := hlen ▸ getElem?_lt hj
    obtain ⟨s, hs, -⟩ := hm i P[i] j (getElem?_eq_getElem hi) hj
    have := getElem?_lt hs
    simpa using this
  -- an entry of the rewritten list comes from a slot
  have hentry : ∀ (i : Nat) (x : Int), (g.map (rwSlot S.length D.length))[i]? = some x →
      ∃ j, g[i]? = some j ∧ x = rwSlot S.length D.length j := by
    intro i x hx
    rw [getElem?_map] at hx
    cases hgi : g[i]? with
    | none => simp [hgi] at hx
    | some j => exact ⟨j, rfl, by simpa [hgi] using hx.symm⟩
  refine ⟨hne, by simp [hlen], ?_, ?_, ?_, ?_⟩
  · intro x hx
    obtain ⟨i, hi⟩ := mem_iff_getElem?.mp hx
    obtain ⟨j, hj, rfl⟩ := hentry i x hi
    have := hslot i j hj
    by_cases h : j < S.length
    · right; rw [rwSlot_lt h]; omega
    · left; exact rwSlot_ge (by omega) this
  · intro i j x hx hi hj
    obtain ⟨gi, hgi, rfl⟩ := hentry i _ hi
    obtain ⟨gj, hgj, e⟩ := hentry j _ hj
    have b1 := hslot i gi hgi
    have b2 := hslot j gj hgj
    have h1 : gi < S.length := by
      by_cases h : gi < S.length
      · exact h
      · rw [rwSlot_ge (by omega) b1] at hx; omega
    rw [rwSlot_lt h1] at e hx
    have h2 : gj < S.length := by
      by_cases h : gj < S.length
      · exact h
      · rw [rwSlot_ge (by omega) b2] at e; omega
    rw [rwSlot_lt h2] at e
    have : gi = gj := by omega
    subst this
    exact (getElem?_inj (getElem?_lt hgi) hnd).mp (hgi.trans hgj.symm)
  · intro i p j hp hi
    obtain ⟨gi, hgi, e⟩ := hentry i _ hi
    have b1 := hslot i gi hgi
    have h1 : gi < S.length := by
      by_cases h : gi < S.length
      · exact h
      · rw [rwSlot_ge (by omega) b1] at e; omega
    rw [rwSlot_lt h1] at e
    have : j = gi := by omega
    subst this
    obtain ⟨s, hs, hacc⟩ := hm i p j hp hgi
    rw [getElem?_append_left h1] at hs
    exact ⟨s, hs, hacc⟩
  · refine ⟨fun i => g[i]?.getD 0 - S.length, ?_, ?_⟩
    · intro i p hp hi
      obtain ⟨gi, hgi, e⟩ := hentry i _ hi
      have h1 : S.length ≤ gi := by
        by_cases h : gi < S.length
        · rw [rwSlot_lt h] at e; omega
        · omega
      obtain ⟨s, hs, hacc⟩ := hm i p gi hp hgi
      rw [getElem?_append_right h1] at hs
      exact ⟨s, by simpa [hgi] using hs, hacc⟩
    · intro i j hi hj hf
      obtain ⟨gi, hgi, e1⟩ := hentry i _ hi
      obtain ⟨gj, hgj, e2⟩ := hentry j _ hj
      have h1 : S.length ≤ gi := by
        by_cases h : gi < S.length
        · rw [rwSlot_lt h] at e1; omega
        · omega
      have h2 : S.length ≤ gj := by
        by_cases h : gj < S.length
        · rw [rwSlot_lt h] at e2; omega
        · omega
      simp only [hgi, hgj, Option.getD_some] at hf
      have : gi = gj := by omega
      subst this
      exact (getElem?_inj (getElem?_lt hgi) hnd).mp (hgi.trans hgj.symm)

/-- the slot given to position `i` by an admissible assignment with dummy choice `f` -/
def slotOf (S : List String) (a : List Int) (f : Nat → Nat) (i : Nat) : Nat :=
  if a[i]?.getD 0 = -1 then S.length + f i else (a[i]?.getD 0).toNat

/-- backward direction: an admissible assignment is the rewrite of a matching slot list -/
theorem generate_of_admissible {w : Option String} {P S D : List String} {a : List Int}
    (h : Admissible' w P S D a) :
    ∃ g ∈ generate P (S ++ D) w, a = g.map (rwSlot S.length D.length) := by
  obtain ⟨hne, hlen, hrange, hdist, hacc, f, hf1, hf2⟩ := h
  have hg? : ∀ i, ((List.range a.length).map (slotOf S a f))[i]? =
      if i < a.length then some (slotOf S a f i) else none := by
    intro i
    rw [getElem?_map]
    by_cases hi : i < a.length
    · rw [getElem?_range hi, if_pos hi]; rfl
    · rw [if_neg hi, getElem?_eq_none_iff.mpr (by simpa using hi)]; rfl
  -- the three kinds of entries
  have hcase : ∀ i, i < a.length →
      (a[i]? = some (-1) ∧ slotOf S a f i = S.length + f i ∧
          ∃ d, D[f i]? = some d ∧ Accepts w P[i]?.get! d) ∨
      (∃ j : Nat, a[i]? = some (j : Int) ∧ slotOf S a f i = j ∧ j < S.length) := by
    intro i hi
    have hai : a[i]? = some a[i] := getElem?_eq_getElem hi
    rcases hrange a[i] (getElem_mem hi) with hx | ⟨hx1, hx2⟩
    · left
      have hp : P[i]? = some P[i] := getElem?_eq_getElem (hlen ▸ hi)
      obtain ⟨d, hd, had⟩ := hf1 i P[i] hp (hx ▸ hai)
      refine ⟨hx ▸ hai, ?_, d, hd, ?_⟩
      · simp [slotOf, hai, hx]
      · simpa [hp] using had
    · right
      refine ⟨a[i].toNat, ?_, ?_, by omega⟩
      · rw [hai]; congr 1; omega
      · have : a[i] ≠ -1 := by omega
        simp [slotOf, hai, this]
  refine ⟨(List.range a.length).map (slotOf S a f), mem_generate.mpr ⟨hne, by simp [hlen], ?_, ?_⟩, ?_⟩
  · rw [nodup_iff_pairwise_ne, pairwise_iff_getElem]
    intro i j hi hj hij
    simp only [length_map, length_range] at hi hj
    simp only [getElem_map, getElem_range]
    intro e
    rcases hcase i hi with ⟨ai, si, -⟩ | ⟨x, ai, si, bi⟩ <;>
      rcases hcase j hj with ⟨aj, sj, -⟩ | ⟨y, aj, sj, bj⟩
    · have := hf2 i j ai aj (by omega); omega
    · omega
    · omega
    · have : (x : Int) = y := by omega
      have := hdist i j x (by omega) ai (this ▸ aj)
      omega
  · intro i p j hp hj
    rw [hg?] at hj
    have hi : i < a.length := hlen ▸ getElem?_lt hp
    rw [if_pos hi] at hj
    simp only [Option.some.injEq] at hj
    rcases hcase i hi with ⟨ai, si, d, hd, had⟩ | ⟨x, ai, si, bi⟩
    · refine ⟨d, ?_, ?_⟩
      · rw [← hj, si, getElem?_append_right (by omega)]
        simpa using hd
      · simpa [hp] using had
    · obtain ⟨s, hs, hacc'⟩ := hacc i p x hp ai
      refine ⟨s, ?_, hacc'⟩
      rw [← hj, si, getElem?_append_left bi]
      exact hs
  · apply ext_getElem?
    intro i
    rw [getElem?_map, hg?]
    by_cases hi : i < a.length
    · rw [if_pos hi]
      rcases hcase i hi with ⟨ai, si, d, hd, -⟩ | ⟨x, ai, si, bi⟩
      · have := getElem?_lt hd
        rw [ai, si]
        simp only [Option.map_some, Option.some.injEq]
        exact (rwSlot_ge (by omega) (by omega)).symm
      · rw [ai, si]
        simp only [Option.map_some, Option.some.injEq]
        exact (rwSlot_lt bi).symm
    · rw [if_neg hi, getElem?_eq_none_iff.mpr (by omega)]; rfl


/-- **the declarative specification of C08** for a mapper configuration and the caller's lists -/
def Admissible (m : Mapper) (pat str : List String) (a : List Int) : Prop :=
  Admissible' (wild m) (fpat m pat) (fstr m str) (dummies m pat str) a

/-- **C08, exactness**: the mapper returns precisely the admissible assignments -/
theorem permute_exact (m : Mapper) (pat str : List String) (a : List Int) :
    a ∈ m.permute pat str ↔ Admissible m pat str a := by
  rw [permute_unfold, mem_dedup]
  simp only [mem_map, not_mem_nil, not_false_eq_true, and_true]
  constructor
  · rintro ⟨g, hg, rfl⟩
    exact admissible_of_generate hg
  · intro h
    obtain ⟨g, hg, e⟩ := generate_of_admissible h
    exact ⟨g, hg, e.symm⟩

/-- **C08, "exactly once"**: no assignment is returned twice -/
theorem permute_nodup (m : Mapper) (pat str : List String) : (m.permute pat str).Nodup := by
  rw [permute_unfold]
  exact dedup_nodup _ _

/-! ### soundness and completeness of the executable specification -/

theorem nodupB_iff {α} [BEq α] [LawfulBEq α] (l : List α) : nodupB l = true ↔ l.Nodup := by
  induction l with
  | nil => simp [nodupB]
  | cons x xs ih => simp [nodupB, ih]

theorem assign_iff (w : Option String) (D : List String) (ps : List (String × Int)) (used : List Nat) :
    assign w D ps used = true ↔
      ∃ f : Nat → Nat,
        (∀ (i : Nat) (p : String), ps[i]? = some (p, -1) →
            f i ∉ used ∧ ∃ d, D[f i]? = some d ∧ Accepts w p d) ∧
        (∀ (i j : Nat) (p q : String), ps[i]? = some (p, -1) → ps[j]? = some (q, -1) →
            f i = f j → i = j) := by
  induction ps generalizing used with
  | nil => simp [assign]
  | cons px rest ih =>
    obtain ⟨p, x⟩ := px
    by_cases hx : x = -1
    · subst hx
      simp only [assign, ↓reduceIte, any_eq_true, mem_range, Bool.and_eq_true, Bool.not_eq_true',
        contains_eq_mem, decide_eq_false_iff_not]
      constructor
      · rintro ⟨j, hj, ⟨hju, hd⟩, hrest⟩
        obtain ⟨f', h1, h2⟩ := (ih _).mp hrest
        cases hDj : D[j]? with
        | none => simp [hDj] at hd
        | some d =>
          simp only [hDj] at hd
          refine ⟨fun i => match i with | 0 => j | k + 1 => f' k, ?_, ?_⟩
          · intro i p' hi
            cases i with
            | zero =>
              simp only [getElem?_cons_zero, Option.some.injEq, Prod.mk.injEq] at hi
              exact ⟨hju, d, hDj, hi.1 ▸ symMatch_iff.mp hd⟩
            | succ k =>
              simp only [getElem?_cons_succ] at hi
              obtain ⟨hk, hk'⟩ := h1 k p' hi
              exact ⟨fun hmem => hk (mem_cons_of_mem _ hmem), hk'⟩
          · intro i i' p' q' hi hi' e
            cases i with
            | zero =>
              cases i' with
              | zero => rfl
              | succ k' =>
                simp only [getElem?_cons_succ] at hi'
                exact absurd (by simp only at e; rw [← e]; exact mem_cons_self) (h1 k' q' hi').1
            | succ k =>
              simp only [getElem?_cons_succ] at hi
              cases i' with
              | zero =>
                exact absurd (by simp only at e; rw [e]; exact mem_cons_self) (h1 k p' hi).1
              | succ k' =>
                simp only [getElem?_cons_succ] at hi'
                have := h2 k k' p' q' hi hi' e
                omega
      · rintro ⟨f, h1, h2⟩
        obtain ⟨h0u, d, hd, hacc⟩ := h1 0 p (by simp)
        refine ⟨f 0, getElem?_lt hd, ⟨h0u, by simp only [hd]; exact symMatch_iff.mpr hacc⟩, ?_⟩
        refine (ih _).mpr ⟨fun i => f (i + 1), ?_, ?_⟩
        · intro i p' hi
          obtain ⟨hu, hd'⟩ := h1 (i + 1) p' (by simpa using hi)
          refine ⟨?_, hd'⟩
          intro hmem
          rcases mem_cons.mp hmem with e | hmem
          · have := h2 (i + 1) 0 p' p (by simpa using hi) (by simp) e
            omega
          · exact hu hmem
        · intro i j p' q' hi hj e
          have := h2 (i + 1) (j + 1) p' q' (by simpa using hi) (by simpa using hj) e
          omega
    · simp only [assign, hx, ↓reduceIte]
      rw [ih]
      constructor
      · rintro ⟨f', h1, h2⟩
        refine ⟨fun i => match i with | 0 => 0 | k + 1 => f' k, ?_, ?_⟩
        · intro i p' hi
          cases i with
          | zero =>
            simp only [getElem?_cons_zero, Option.some.injEq, Prod.mk.injEq] at hi
            exact absurd hi.2 hx
          | succ k => simp only [getElem?_cons_succ] at hi; exact h1 k p' hi
        · intro i i' p' q' hi hi' e
          cases i with
          | zero =>
            simp only [getElem?_cons_zero, Option.some.injEq, Prod.mk.injEq] at hi
            exact absurd hi.2 hx
          | succ k =>
            cases i' with
            | zero =>
              simp only [getElem?_cons_zero, Option.some.injEq, Prod.mk.injEq] at hi'
              exact absurd hi'.2 hx
            | succ k' =>
              simp only [getElem?_cons_succ] at hi hi'
              have := h2 k k' p' q' hi hi' e
              omega
      · rintro ⟨f, h1, h2⟩
        refine ⟨fun i => f (i + 1), ?_, ?_⟩
        · intro i p' hi
          exact h1 (i + 1) p' (by simpa using hi)
        · intro i j p' q' hi hj e
          have := h2 (i + 1) (j + 1) p' q' (by simpa using hi) (by simpa using hj) e
          omega

/-- the filtered list is duplicate-free iff no filtered value occurs at two positions -/
theorem nodup_filter_iff (a : List Int) :
    (a.filter fun x => decide (0 ≤ x)).Nodup ↔
      ∀ (i j : Nat) (x : Int), 0 ≤ x → a[i]? = some x → a[j]? = some x → i = j := by
  rw [nodup_iff_pairwise_ne, pairwise_filter, pairwise_iff_getElem]
  constructor
  · intro h i j x hx hi hj
    obtain ⟨hi', ei⟩ := List.getElem?_eq_some_iff.mp hi
    obtain ⟨hj', ej⟩ := List.getElem?_eq_some_iff.mp hj
    rcases Nat.lt_trichotomy i j with hlt | heq | hgt
    · exact absurd (ei.trans ej.symm) (h i j hi' hj' hlt (by simpa [ei] using hx) (by simpa [ej] using hx))
    · exact heq
    · exact absurd (ej.trans ei.symm) (h j i hj' hi' hgt (by simpa [ej] using hx) (by simpa [ei] using hx))
  · intro h i j hi hj hij h1 _ e
    have := h i j a[i] (by simpa using h1) (getElem?_eq_getElem hi) (by rw [e]; exact getElem?_eq_getElem hj)
    omega

/-- **the executable `admissible` decides the declarative `Admissible`** -/
theorem admissible_iff (m : Mapper) (pat str : List String) (a : List Int) :
    admissible m pat str a = true ↔ Admissible m pat str a := by
  unfold admissible Admissible
  simp only [Bool.and_eq_true]
  constructor
  · rintro ⟨⟨⟨⟨⟨h1, h2⟩, h3⟩, h4⟩, h5⟩, h6⟩
    refine ⟨?_, by simpa using h2, ?_, (nodup_filter_iff a).mp ((nodupB_iff _).mp h4), ?_, ?_⟩
    · intro e; simp [e] at h1
    · intro x hx
      have := all_eq_true.mp h3 x hx
      simp only [Bool.and_eq_true, decide_eq_true_eq] at this
      omega
    · intro i p j hp hj
      have hz : (p, (j : Int)) ∈ (fpat m pat).zip a :=
        mem_of_getElem? (getElem?_zip_eq_some.mpr ⟨hp, hj⟩)
      have := all_eq_true.mp h5 _ hz
      simp only [Bool.or_eq_true, decide_eq_true_eq, Int.toNat_natCast] at this
      rcases this with h | h
      · omega
      · cases hs : (fstr m str)[j]? with
        | none => simp [hs] at h
        | some s => exact ⟨s, rfl, symMatch_iff.mp (by simpa [hs] using h)⟩
    · obtain ⟨f, hf1, hf2⟩ := (assign_iff _ _ _ _).mp h6
      refine ⟨f, ?_, ?_⟩
      · intro i p hp hi
        exact (hf1 i p (getElem?_zip_eq_some.mpr ⟨hp, hi⟩)).2
      · intro i j hi hj e
        have hli : i < (fpat m pat).length := by
          have := getElem?_lt hi
          have h2' : a.length = (fpat m pat).length := by simpa using h2
          omega
        have hlj : j < (fpat m pat).length := by
          have := getElem?_lt hj
          have h2' : a.length = (fpat m pat).length := by simpa using h2
          omega
        exact hf2 i j _ _ (getElem?_zip_eq_some.mpr ⟨getElem?_eq_getElem hli, hi⟩)
          (getElem?_zip_eq_some.mpr ⟨getElem?_eq_getElem hlj, hj⟩) e
  · rintro ⟨hne, hlen, hrange, hdist, hacc, f, hf1, hf2⟩
    refine ⟨⟨⟨⟨⟨?_, by simpa using hlen⟩, ?_⟩, ?_⟩, ?_⟩, ?_⟩
    · cases h : fpat m pat with
      | nil => exact absurd h hne
      | cons _ _ => rfl
    · rw [all_eq_true]
      intro x hx
      have := hrange x hx
      simp only [Bool.and_eq_true, decide_eq_true_eq]
      omega
    · exact (nodupB_iff _).mpr ((nodup_filter_iff a).mpr hdist)
    · rw [all_eq_true]
      rintro ⟨p, x⟩ hz
      obtain ⟨i, hi⟩ := mem_iff_getElem?.mp hz
      obtain ⟨hp, hx⟩ := getElem?_zip_eq_some.mp hi
      simp only [Bool.or_eq_true, decide_eq_true_eq]
      by_cases hneg : x < 0
      · exact Or.inl hneg
      · right
        have ex : x = ((x.toNat : Nat) : Int) := by omega
        obtain ⟨s, hs, hacc'⟩ := hacc i p x.toNat hp (by simpa [← ex] using hx)
        simp only [hs]
        exact symMatch_iff.mpr hacc'
    · rw [assign_iff]
      refine ⟨f, ?_, ?_⟩
      · intro i p hi
        obtain ⟨hp, hx⟩ := getElem?_zip_eq_some.mp hi
        exact ⟨not_mem_nil, hf1 i p hp hx⟩
      · intro i j p q hi hj e
        exact hf2 i j (getElem?_zip_eq_some.mp hi).2 (getElem?_zip_eq_some.mp hj).2 e

theorem mem_product {α} {os : List (List α)} {l : List α} (hlen : l.length = os.length)
    (h : ∀ (i : Nat) (x : α) (o : List α), l[i]? = some x → os[i]? = some o → x ∈ o) :
    l ∈ product os := by
  induction os generalizing l with
  | nil =>
    simp only [product, mem_singleton]
    exact length_eq_zero_iff.mp hlen
  | cons o os ih =>
    cases l with
    | nil => simp at hlen
    | cons x l =>
      simp only [product, mem_flatMap, mem_map]
      refine ⟨x, h 0 x o (by simp) (by simp), l, ih (by simpa using hlen) ?_, rfl⟩
      intro i y o' hy ho'
      exact h (i + 1) y o' (by simpa using hy) (by simpa using ho')

/-- every admissible assignment is among the enumerated candidates -/
theorem mem_candidates {m : Mapper} {pat str : List String} {a : List Int}
    (h : Admissible m pat str a) : a ∈ candidates m pat str := by
  obtain ⟨hne, hlen, hrange, hdist, hacc, f, hf1, hf2⟩ := h
  unfold candidates
  apply mem_product (by simpa using hlen)
  intro i x o hx ho
  rw [getElem?_map] at ho
  cases hp : (fpat m pat)[i]? with
  | none => simp [hp] at ho
  | some p =>
    simp only [hp, Option.map_some, Option.some.injEq] at ho
    subst ho
    unfold slotCands
    rw [mem_append]
    rcases hrange x (mem_of_getElem? hx) with hneg | ⟨h0, h1⟩
    · left
      subst hneg
      obtain ⟨d, hd, -⟩ := hf1 i p hp hx
      have : dummies m pat str ≠ [] := by
        intro e; rw [e] at hd; simp at hd
      cases hD : dummies m pat str with
      | nil => exact absurd hD this
      | cons _ _ => simp
    · right
      have ex : x = ((x.toNat : Nat) : Int) := by omega
      obtain ⟨s, hs, hacc'⟩ := hacc i p x.toNat hp (by simpa [← ex] using hx)
      rw [mem_map]
      refine ⟨x.toNat, ?_, ex.symm⟩
      rw [mem_filter, mem_range]
      exact ⟨getElem?_lt hs, by simp only [hs]; exact symMatch_iff.mpr hacc'⟩

/-- **soundness of the checker the driver applies to implementation outputs**: an accepted result
    list contains exactly the admissible assignments, each once -/
theorem specCheck_sound {m : Mapper} {pat str : List String} {out : List (List Int)}
    (h : specCheck m pat str out = true) :
    (∀ a, a ∈ out ↔ Admissible m pat str a) ∧ out.Nodup := by
  unfold specCheck at h
  simp only [Bool.and_eq_true, all_eq_true, Bool.or_eq_true, Bool.not_eq_true'] at h
  obtain ⟨⟨h1, h2⟩, h3⟩ := h
  refine ⟨fun a => ⟨fun ha => (admissible_iff _ _ _ _).mp (h1 a ha), fun ha => ?_⟩, (nodupB_iff _).mp h2⟩
  rcases h3 a (mem_candidates ha) with hf | hc
  · rw [(admissible_iff _ _ _ _).mpr ha] at hf; cases hf
  · simpa using hc

/-- completeness of the checker: it accepts every list with that property -/
theorem specCheck_complete {m : Mapper} {pat str : List String} {out : List (List Int)}
    (h1 : ∀ a, a ∈ out ↔ Admissible m pat str a) (h2 : out.Nodup) :
    specCheck m pat str out = true := by
  unfold specCheck
  simp only [Bool.and_eq_true, all_eq_true, Bool.or_eq_true, Bool.not_eq_true']
  refine ⟨⟨fun a ha => (admissible_iff _ _ _ _).mpr ((h1 a).mp ha), (nodupB_iff _).mpr h2⟩, ?_⟩
  intro c _
  cases hc : admissible m pat str c with
  | false => exact Or.inl rfl
  | true => right; simpa using (h1 c).mpr ((admissible_iff _ _ _ _).mp hc)

/-- the model's output passes the executable specification, for every input -/
theorem permute_specCheck (m : Mapper) (pat str : List String) :
    specCheck m pat str (m.permute pat str) = true :=
  specCheck_complete (permute_exact m pat str) (permute_nodup m pat str)

/-- the caller's lists: `specCheckCall` accepts exactly when the result list is right and both
    lists are what they were -/
theorem specCheckCall_sound {m : Mapper} {pat str : List String} {out : List (List Int)}
    {patAfter strAfter : List String}
    (h : specCheckCall m pat str out patAfter strAfter = true) :
    ((∀ a, a ∈ out ↔ Admissible m pat str a) ∧ out.Nodup) ∧ patAfter = pat ∧ strAfter = str := by
  unfold specCheckCall at h
  simp only [Bool.and_eq_true, beq_iff_eq] at h
  exact ⟨specCheck_sound h.1.1, h.1.2, h.2⟩


/-! ### what the dummy slots are -/

theorem mem_dummiesFrom {w : Option String} {pat : List String} {d : String} :
    ∀ {cs cur : List String}, d ∈ dummiesFrom w pat cs cur → d ∈ cs := by
  intro cs
  induction cs with
  | nil => intro cur h; simp [dummiesFrom] at h
  | cons c cs ih =>
    intro cur h
    simp only [dummiesFrom, mem_append, mem_replicate] at h
    rcases h with ⟨-, rfl⟩ | h
    · exact mem_cons_self
    · exact mem_cons_of_mem _ (ih h)

theorem padCount_ne_wild {w : Option String} {pat cur : List String} {c : String} (hc : some c ≠ w) :
    padCount w pat cur c = pat.count c - cur.count c := by
  unfold padCount
  have : (some c == w) = false := by simpa using hc
  simp only [this, Bool.false_eq_true, ↓reduceIte, count_eq_countP, countP_eq_length_filter]
  have e : ∀ l : List String, (l.filter fun x => x == c) = l.filter (· == c) := fun _ => rfl
  omega

/-- a symbol `c` other than the wildcard gets `max 0 (#pat c − #str c)` dummies if it may map to
    nothing and none otherwise — whatever the order and multiplicity in `can_map_to_nothing` -/
theorem count_dummiesFrom {w : Option String} {pat : List String} {c : String} (hc : some c ≠ w) :
    ∀ (cs cur : List String),
      (dummiesFrom w pat cs cur).count c = if c ∈ cs then pat.count c - cur.count c else 0 := by
  intro cs
  induction cs with
  | nil => intro cur; simp [dummiesFrom]
  | cons c' cs ih =>
    intro cur
    simp only [dummiesFrom, count_append, ih, count_replicate]
    by_cases e : c' = c
    · subst e
      simp only [beq_self_eq_true, ↓reduceIte, mem_cons, true_or, padCount_ne_wild hc]
      split <;> omega
    · have e' : (c' == c) = false := by simpa using e
      have e'' : ¬ c = c' := fun h => e h.symm
      simp only [e', Bool.false_eq_true, ↓reduceIte, Nat.add_zero, Nat.zero_add, mem_cons, e'', false_or]

theorem mem_cmtnSorted (m : Mapper) (x : String) : x ∈ m.cmtnSorted ↔ x ∈ m.canMapToNothing := by
  unfold Mapper.cmtnSorted
  simp only [mem_append, mem_filter, Bool.not_eq_true']
  constructor
  · rintro (⟨h, -⟩ | ⟨h, -⟩) <;> exact h
  · intro h
    cases hb : (match m.wildcard with | some w => isSubstr x w | none => false) with
    | false => exact Or.inl ⟨h, hb⟩
    | true => exact Or.inr ⟨h, hb⟩

theorem mem_cmtn_fold (m : Mapper) (x : String) :
    x ∈ m.cmtnSorted.map (fold m) ↔ x ∈ m.canMapToNothing.map (fold m) := by
  simp only [mem_map, mem_cmtnSorted]

/-- **the dummy multiset, declaratively** (non-wildcard symbols) -/
theorem count_dummies (m : Mapper) (pat str : List String) (c : String) (hc : some c ≠ wild m) :
    (dummies m pat str).count c =
      if c ∈ m.canMapToNothing.map (fold m) then (fpat m pat).count c - (fstr m str).count c else 0 := by
  unfold dummies
  rw [count_dummiesFrom hc]
  simp only [mem_cmtn_fold]

/-- every dummy slot carries a symbol of `can_map_to_nothing` -/
theorem mem_dummies {m : Mapper} {pat str : List String} {d : String} (h : d ∈ dummies m pat str) :
    d ∈ m.canMapToNothing.map (fold m) :=
  (mem_cmtn_fold m d).mp (mem_dummiesFrom h)

/-! ### corollaries of exactness -/

/-- the empty pattern has no assignment -/
theorem permute_nil (m : Mapper) (str : List String) : m.permute [] str = [] := by
  apply eq_nil_iff_forall_not_mem.mpr
  intro a ha
  exact ((permute_exact m [] str a).mp ha).nonempty rfl

theorem permute_length {m : Mapper} {pat str : List String} {a : List Int}
    (h : a ∈ m.permute pat str) : a.length = pat.length := by
  have := ((permute_exact m pat str a).mp h).length
  simpa [fpat] using this

/-- **"nothing" is used only for the wildcard and for symbols allowed to map to nothing** -/
theorem nothing_only_if_allowed {m : Mapper} {pat str : List String} {a : List Int}
    (h : a ∈ m.permute pat str) {i : Nat} {p : String} (hp : pat[i]? = some p)
    (hi : a[i]? = some (-1)) :
    some (fold m p) = wild m ∨ fold m p ∈ m.canMapToNothing.map (fold m) := by
  obtain ⟨f, hf1, -⟩ := ((permute_exact m pat str a).mp h).nothing
  obtain ⟨d, hd, hacc⟩ := hf1 i (fold m p) (by simp [fpat, hp]) hi
  rcases hacc with hw | rfl
  · exact Or.inl hw
  · exact Or.inr (mem_dummies (mem_of_getElem? hd))

/-- **a structure-side wildcard never matches a concrete pattern symbol**: if position `i` of the
    pattern is mapped to a structure position carrying the wildcard symbol, the pattern symbol
    is the wildcard itself.  (More generally: mapped symbols are equal unless the *pattern*
    symbol is the wildcard.) -/
theorem mapped_symbols {m : Mapper} {pat str : List String} {a : List Int}
    (h : a ∈ m.permute pat str) {i j : Nat} {p s : String}
    (hp : pat[i]? = some p) (hi : a[i]? = some (j : Int)) (hs : str[j]? = some s) :
    some (fold m p) = wild m ∨ fold m p = fold m s := by
  obtain ⟨s', hs', hacc⟩ := ((permute_exact m pat str a).mp h).accepts i (fold m p) j
    (by simp [fpat, hp]) hi
  have : s' = fold m s := by simpa [fstr, hs] using hs'.symm
  subst this
  exact hacc

theorem structure_wildcard_never_matches {m : Mapper} {pat str : List String} {a : List Int}
    (h : a ∈ m.permute pat str) {i j : Nat} {p s : String}
    (hp : pat[i]? = some p) (hi : a[i]? = some (j : Int)) (hs : str[j]? = some s)
    (hsw : some (fold m s) = wild m) :
    some (fold m p) = wild m := by
  rcases mapped_symbols h hp hi hs with hw | e
  · exact hw
  · rw [e]; exact hsw

/-! ### the symbol matrix -/

/-- by definition of the (repaired) constructor -/
theorem matrix_agrees (m : Mapper) (ps ss : String) :
    m.isMapping ps ss = true ↔ m.permute [ps] [ss] ≠ [] := by
  simp [Mapper.isMapping]

/-- dummies of a one-symbol pattern against a non-empty structure -/
theorem dummiesFrom_single (w : Option String) (p : String) :
    ∀ (cs cur : List String), 1 ≤ cur.length →
      dummiesFrom w [p] cs cur = if p ∈ cs ∧ some p ≠ w ∧ p ∉ cur then [p] else [] := by
  intro cs
  induction cs with
  | nil => intro cur _; simp [dummiesFrom]
  | cons c cs ih =>
    intro cur hcur
    simp only [dummiesFrom]
    by_cases hw : some c = w
    · have hk : padCount w [p] cur c = 0 := by
        unfold padCount
        have : (some c == w) = true := by simpa using hw
        simp only [this, ↓reduceIte, length_cons, length_nil]
        omega
      rw [hk]
      simp only [replicate_zero, nil_append, append_nil, ih cur hcur, mem_cons]
      by_cases e : p = c
      · subst e; simp [hw]
      · simp [e]
    · rw [padCount_ne_wild hw]
      by_cases e : p = c
      · subst e
        by_cases hin : p ∈ cur
        · have : 1 ≤ cur.count p := count_pos_iff.mpr hin
          have hk : [p].count p - cur.count p = 0 := by simp; omega
          rw [hk]
          simp only [replicate_zero, nil_append, append_nil, ih cur hcur]
          simp [hin]
        · have hk : [p].count p - cur.count p = 1 := by
            simp [count_eq_zero_of_not_mem hin]
          rw [hk, ih _ (by simp)]
          simp [hin, hw]
      · have hk : [p].count c - cur.count c = 0 := by
          have : ¬ (p == c) = true := by simpa using e
          simp [count_cons, this]
        rw [hk]
        simp only [replicate_zero, nil_append, append_nil, ih cur hcur, mem_cons, e, false_or]

/-- **the matrix answers: wildcard, or equal symbols, or a symbol that may map to nothing**
    (all after case folding; multi-letter symbols are ordinary symbols) -/
theorem matrix_characterisation (m : Mapper) (ps ss : String) :
    m.isMapping ps ss = true ↔
      (some (fold m ps) = wild m ∨ fold m ps = fold m ss ∨
        fold m ps ∈ m.canMapToNothing.map (fold m)) := by
  rw [matrix_agrees]
  have hD : dummies m [ps] [ss] =
      if fold m ps ∈ m.cmtnSorted.map (fold m) ∧ some (fold m ps) ≠ wild m ∧ fold m ps ∉ [fold m ss]
      then [fold m ps] else [] := by
    unfold dummies
    exact dummiesFrom_single _ _ _ _ (by simp [fstr])
  constructor
  · intro hne
    obtain ⟨a, ha⟩ := exists_mem_of_ne_nil _ hne
    have hA := (permute_exact m [ps] [ss] a).mp ha
    have hlen : a.length = 1 := by simpa [fpat] using hA.length
    obtain ⟨x, rfl⟩ : ∃ x, a = [x] := by
      match a, hlen with
      | [x], _ => exact ⟨x, rfl⟩
    rcases hA.range x (by simp) with rfl | ⟨h0, h1⟩
    · obtain ⟨f, hf1, -⟩ := hA.nothing
      obtain ⟨d, hd, -⟩ := hf1 0 (fold m ps) (by simp [fpat]) (by simp)
      right; right
      by_cases hc : fold m ps ∈ m.cmtnSorted.map (fold m) ∧ some (fold m ps) ≠ wild m ∧
          fold m ps ∉ [fold m ss]
      · exact (mem_cmtn_fold m _).mp hc.1
      · rw [hD, if_neg hc] at hd; simp at hd
    · have hx : x = ((0 : Nat) : Int) := by simp [fstr] at h1; omega
      subst hx
      obtain ⟨s, hs, hacc⟩ := hA.accepts 0 (fold m ps) 0 (by simp [fpat]) (by simp)
      have : s = fold m ss := by simpa [fstr] using hs.symm
      subst this
      rcases hacc with h | h
      · exact Or.inl h
      · exact Or.inr (Or.inl h)
  · intro h
    by_cases h0 : some (fold m ps) = wild m ∨ fold m ps = fold m ss
    · -- the assignment [0]
      have hA : Admissible m [ps] [ss] [0] := by
        refine ⟨by simp [fpat], by simp [fpat], ?_, ?_, ?_, ?_⟩
        · intro x hx; simp at hx; subst hx; right; simp [fstr]
        · intro i j x _ hi hj
          have := getElem?_lt hi; have := getElem?_lt hj
          simp at *; omega
        · intro i p j hp hj
          have hi0 : i = 0 := by have := getElem?_lt hj; simp at this; omega
          subst hi0
          simp only [fpat, map_cons, map_nil, getElem?_cons_zero, Option.some.injEq] at hp hj
          have hj0 : j = 0 := by omega
          subst hj0 hp
          exact ⟨fold m ss, by simp [fstr], h0⟩
        · refine ⟨fun _ => 0, ?_, ?_⟩
          · intro i p _ hi
            have hi0 : i = 0 := by have := getElem?_lt hi; simp at this; omega
            subst hi0; simp at hi
          · intro i j hi _ _
            have hi0 : i = 0 := by have := getElem?_lt hi; simp at this; omega
            subst hi0; simp at hi
      exact ne_nil_of_mem ((permute_exact m [ps] [ss] [0]).mpr hA)
    · -- the assignment [-1]
      have hcm : fold m ps ∈ m.canMapToNothing.map (fold m) := by
        rcases h with h | h | h
        · exact absurd (Or.inl h) h0
        · exact absurd (Or.inr h) h0
        · exact h
      have hc : fold m ps ∈ m.cmtnSorted.map (fold m) ∧ some (fold m ps) ≠ wild m ∧
          fold m ps ∉ [fold m ss] := by
        refine ⟨(mem_cmtn_fold m _).mpr hcm, fun e => h0 (Or.inl e), ?_⟩
        simp only [mem_singleton]; exact fun e => h0 (Or.inr e)
      have hA : Admissible m [ps] [ss] [-1] := by
        refine ⟨by simp [fpat], by simp [fpat], ?_, ?_, ?_, ?_⟩
        · intro x hx; simp at hx; subst hx; left; rfl
        · intro i j x hx hi hj
          have hi0 : i = 0 := by have := getElem?_lt hi; simp at this; omega
          subst hi0; simp at hi; omega
        · intro i p j _ hj
          have hi0 : i = 0 := by have := getElem?_lt hj; simp at this; omega
          subst hi0; simp at hj
        · refine ⟨fun _ => 0, ?_, ?_⟩
          · intro i p hp hi
            have hi0 : i = 0 := by have := getElem?_lt hi; simp at this; omega
            subst hi0
            simp only [fpat, map_cons, map_nil, getElem?_cons_zero, Option.some.injEq] at hp
            subst hp
            refine ⟨fold m ps, ?_, Or.inr rfl⟩
            show (dummies m [ps] [ss])[0]? = _
            rw [hD, if_pos hc]; rfl
          · intro i j hi hj _
            have := getElem?_lt hi; have := getElem?_lt hj
            simp at *; omega
      exact ne_nil_of_mem ((permute_exact m [ps] [ss] [-1]).mpr hA)

/-- the executable specification of the matrix that the driver compares implementation answers
    with is this characterisation -/
theorem isMapping_eq_spec (m : Mapper) (ps ss : String) : m.isMapping ps ss = isMappingSpec m ps ss := by
  rw [Bool.eq_iff_iff, matrix_characterisation]
  simp [isMappingSpec, or_assoc]


/-! ### non-vacuity: the theorems on concrete inputs (these are tests) -/

/-- wildcard `R`, hydrogens may map to nothing -/
def exMapper : Mapper := { wildcard := some "R", canMapToNothing := ["H"] }
/-- wildcard `R`, both the wildcard and hydrogens may map to nothing -/
def exMapper2 : Mapper := { wildcard := some "R", canMapToNothing := ["R", "H"] }

-- `mem_picks`
example : ((2 : Nat), [1, 3]) ∈ picks [1, 2, 3] := mem_picks.mpr ⟨[1], [3], rfl, rfl⟩
example : picks [1, 2, 3] = [(1, [2, 3]), (2, [1, 3]), (3, [1, 2])] := by decide
-- `mem_arrangements`, `arrangements_nodup`
example : [3, 1] ∈ arrangements 2 [1, 2, 3] := (mem_arrangements (by decide)).mpr (by decide)
example : [1, 1] ∉ arrangements 2 [1, 2, 3] := fun h => absurd ((mem_arrangements (by decide)).mp h).2.1 (by decide)
example : arrangements 2 [1, 2, 3] = [[1, 2], [1, 3], [2, 1], [2, 3], [3, 1], [3, 2]] := by decide
example : (arrangements 2 [1, 2, 3]).Nodup := arrangements_nodup (by decide)
example : [2, 2] ∈ arrangements 2 [2, 1, 2] := mem_arrangements_general.mpr ⟨rfl, [2, 2], by decide, Perm.refl _⟩
/-- the hypothesis `l.Nodup` of `arrangements_nodup` is needed -/
example : ¬ (arrangements 1 [1, 1]).Nodup := by decide
-- `mem_dedup`, `dedup_nodup`
example : dedup [1, 2, 1, 3, 2] [] = [1, 2, 3] := by decide
-- `permute_nodup`: the two hydrogen dummies are interchangeable; without de-duplication (or with
-- de-duplication against the last entry only, mutant m15) `[-1, 0, -1]` would be listed twice
example : exMapper.permute ["H", "H", "H"] ["H"] = [[0, -1, -1], [-1, 0, -1], [-1, -1, 0]] := by decide
example : (generate ["H", "H", "H"] ["H", "H", "H"] (some "R")).map (·.map (rwSlot 1 2)) =
    [[0, -1, -1], [0, -1, -1], [-1, 0, -1], [-1, -1, 0], [-1, 0, -1], [-1, -1, 0]] := by decide
-- `permute_exact`
example : Admissible exMapper ["H", "H", "H"] ["H"] [-1, 0, -1] :=
  (permute_exact _ _ _ _).mp (by decide)
example : ¬ Admissible exMapper ["H", "H", "H"] ["H"] [-1, -1, -1] :=
  fun h => absurd ((permute_exact _ _ _ _).mpr h) (by decide)
example : exMapper2.permute ["R", "H", "C"] ["C", "O"] = [[1, -1, 0]] := by decide
example : exMapper2.permute ["R", "H", "C"] ["C"] = [[-1, -1, 0]] := by decide
-- `admissible_iff`, `specCheck_sound`, `permute_specCheck`
example : admissible exMapper ["H", "H", "H"] ["H"] [-1, 0, -1] = true := by decide
example : admissible exMapper ["H", "H", "H"] ["H"] [-1, -1, -1] = false := by decide
example : admissible exMapper ["H", "H"] ["H", "H"] [0, 0] = false := by decide
example : specCheck exMapper ["H", "H", "H"] ["H"] [[0, -1, -1], [-1, 0, -1], [-1, -1, 0]] = true := by decide
example : specCheck exMapper ["H", "H", "H"] ["H"] [[0, -1, -1], [-1, 0, -1], [-1, -1, 0], [-1, 0, -1]] = false := by decide
example : specCheck exMapper ["H", "H", "H"] ["H"] [[0, -1, -1], [-1, 0, -1]] = false := by decide
example : specCheckCall exMapper ["H"] ["H"] [[0]] ["H"] ["H", "H"] = false := by decide
-- `count_dummies`
example : dummies exMapper ["H", "H", "H"] ["H"] = ["H", "H"] := by decide
example : dummies exMapper2 ["R", "H", "C"] ["C", "O"] = ["H"] := by decide
example : dummies exMapper2 ["R", "H", "C"] ["C"] = ["H", "R"] := by decide
-- `structure_wildcard_never_matches`: `R -> C` matches, `C -> R` does not
example : exMapper.permute ["R"] ["C"] = [[0]] := by decide
example : exMapper.permute ["C"] ["R"] = [] := by decide
example : exMapper.permute ["R", "C"] ["R", "C"] = [[0, 1]] := by decide
-- `nothing_only_if_allowed`
example : exMapper.permute ["C", "H"] ["C"] = [[0, -1]] := by decide
example : exMapper.permute ["H", "C"] ["H"] = [] := by decide
-- `matrix_characterisation` with multi-letter symbols (the witness of F6)
example : exMapper.isMapping "Cl" "Cl" = true := by decide
example : exMapper.isMapping "Cl" "C" = false := by decide
example : exMapper.isMapping "C" "Cl" = false := by decide
example : exMapper.isMapping "R" "Cl" = true := by decide
example : exMapper.isMapping "Cl" "R" = false := by decide
example : exMapper.isMapping "H" "Cl" = true := by decide

end C08
