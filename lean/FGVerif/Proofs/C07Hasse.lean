import FGVerif.Proofs.C07Core
/-!
  C07 — the invariant "the DAG is the Hasse diagram of `R` on the inserted prefix" and its
  preservation by one insertion (positions; see `C07Core.lean` for the setting).
-/
namespace C07

/-- hypotheses on the relation over positions -/
structure RelHyps (R : Nat → Nat → Bool) : Prop where
  lt : ∀ i j, R i j = true → i < j
  trans : ∀ i j k, R i j = true → R j k = true → R i k = true

/-- `j` covers `i` among the positions `< n` -/
def Cov (R : Nat → Nat → Bool) (n i j : Nat) : Prop :=
  R i j = true ∧ ∀ z, z < n → ¬ (R i z = true ∧ R z j = true)

/-- `m` is a maximal position `< n` below the new position `n` -/
def MaxSub (R : Nat → Nat → Bool) (n m : Nat) : Prop :=
  m < n ∧ R m n = true ∧ ∀ z, z < n → ¬ (R m z = true ∧ R z n = true)

/-- `i` has nothing below it among the positions `< n` -/
def MinAt (R : Nat → Nat → Bool) (n i : Nat) : Prop := ∀ z, z < n → R z i = false

/-- every set-iteration order the environment supplies is a permutation of the set -/
def Env.Valid (env : Env) : Prop := ∀ k l, (env.order k l).Perm l

/-- the invariant of `build_config_tree_from_list` after `n` insertions -/
structure Inv (R : Nat → Nat → Bool) (n : Nat) (st : State) : Prop where
  len : st.nodes.length = n
  chi : ∀ i j, j ∈ ch st.nodes i ↔ (j < n ∧ Cov R n i j)
  rts : ∀ i, i ∈ st.roots ↔ (i < n ∧ MinAt R n i)
  par : ∀ i j, i ∈ pa st.nodes j ↔ j ∈ ch st.nodes i
  rnd : st.roots.Nodup

variable {R : Nat → Nat → Bool}

/-- between a position and anything above it there is a covering step -/
theorem chain (h : RelHyps R) (n : Nat) : ∀ z i, z < n → R i z = true →
    ∃ j, j < n ∧ Cov R n i j ∧ (j = z ∨ R j z = true) := by
  intro z
  induction z using Nat.strongRecOn with
  | _ z ih =>
    intro i hz hiz
    by_cases hc : ∃ w, w < n ∧ R i w = true ∧ R w z = true
    · obtain ⟨w, hw, hiw, hwz⟩ := hc
      have hwlt : w < z := h.lt _ _ hwz
      obtain ⟨j, hj, hcov, hjw⟩ := ih w hwlt i hw hiw
      refine ⟨j, hj, hcov, Or.inr ?_⟩
      rcases hjw with rfl | hjw
      · exact hwz
      · exact h.trans _ _ _ hjw hwz
    · refine ⟨z, hz, ⟨hiz, ?_⟩, Or.inl rfl⟩
      intro w hw hh
      exact hc ⟨w, hw, hh.1, hh.2⟩

/-- above every position below `n` there is a maximal one -/
theorem exists_max (h : RelHyps R) (n : Nat) : ∀ d i, n - i ≤ d → i < n → R i n = true →
    ∃ m, MaxSub R n m ∧ (m = i ∨ R i m = true) := by
  intro d
  induction d with
  | zero => intro i hd hi; omega
  | succ d ih =>
    intro i hd hi hin
    by_cases hc : ∃ z, z < n ∧ R i z = true ∧ R z n = true
    · obtain ⟨z, hz, hiz, hzn⟩ := hc
      have : i < z := h.lt _ _ hiz
      obtain ⟨m, hm, hzm⟩ := ih z (by omega) hz hzn
      refine ⟨m, hm, Or.inr ?_⟩
      rcases hzm with rfl | hzm
      · exact hiz
      · exact h.trans _ _ _ hiz hzm
    · refine ⟨i, ⟨hi, hin, ?_⟩, Or.inl rfl⟩
      intro z hz hh
      exact hc ⟨z, hz, hh.1, hh.2⟩

/-- below every position there is a minimal one -/
theorem exists_root (h : RelHyps R) (n : Nat) : ∀ m, m < n →
    ∃ r, r < n ∧ MinAt R n r ∧ (r = m ∨ R r m = true) := by
  intro m
  induction m using Nat.strongRecOn with
  | _ m ih =>
    intro hm
    by_cases hc : ∃ z, z < n ∧ R z m = true
    · obtain ⟨z, hz, hzm⟩ := hc
      have : z < m := h.lt _ _ hzm
      obtain ⟨r, hr, hmin, hrz⟩ := ih z this hz
      refine ⟨r, hr, hmin, Or.inr ?_⟩
      rcases hrz with rfl | hrz
      · exact hzm
      · exact h.trans _ _ _ hrz hzm
    · refine ⟨m, hm, ?_, Or.inl rfl⟩
      intro z hz
      cases hv : R z m with
      | false => rfl
      | true => exact absurd ⟨z, hz, hv⟩ hc

/-- `M i m`: `m` is a maximal subsumer of the new position at or above `i` -/
def M (R : Nat → Nat → Bool) (n i m : Nat) : Prop := (m = i ∨ R i m = true) ∧ MaxSub R n m

/-- the contribution of a matching node `i` is the set of maximal subsumers at or above it -/
theorem res_spec (h : RelHyps R) {n : Nat} {st : State} (inv : Inv R n st) :
    ∀ f i, i < n → n - i ≤ f → R i n = true →
      ∀ m, m ∈ res R st.nodes n f i ↔ M R n i m := by
  intro f
  induction f with
  | zero => intro i hi hf; omega
  | succ f ih =>
    intro i hi hf hin m
    -- members of the recursive call on the children of `i`
    have hS : ∀ m, m ∈ searchParents R st.nodes n (f + 1) (ch st.nodes i) ↔
        ∃ j, j < n ∧ Cov R n i j ∧ R j n = true ∧ M R n j m := by
      intro m
      rw [mem_sp_succ]
      constructor
      · rintro ⟨j, hj, hjn, hm⟩
        obtain ⟨hjlt, hcov⟩ := (inv.chi i j).mp hj
        have hij : i < j := h.lt _ _ hcov.1
        exact ⟨j, hjlt, hcov, hjn, (ih j hjlt (by omega) hjn m).mp hm⟩
      · rintro ⟨j, hjlt, hcov, hjn, hm⟩
        have hij : i < j := h.lt _ _ hcov.1
        exact ⟨j, (inv.chi i j).mpr ⟨hjlt, hcov⟩, hjn, (ih j hjlt (by omega) hjn m).mpr hm⟩
    by_cases he : (searchParents R st.nodes n (f + 1) (ch st.nodes i)).isEmpty = true
    · rw [res_of_empty R st.nodes n (f + 1) i he]
      have hnil : searchParents R st.nodes n (f + 1) (ch st.nodes i) = [] := List.isEmpty_iff.mp he
      -- no child of `i` is a subsumer
      have hno : ∀ j, j < n → Cov R n i j → R j n = true → False := by
        intro j hj hcov hjn
        obtain ⟨m', hm', _⟩ := exists_max h n (n - j) j (Nat.le_refl _) hj hjn
        have : m' ∈ searchParents R st.nodes n (f + 1) (ch st.nodes i) :=
          (hS m').mpr ⟨j, hj, hcov, hjn, ⟨by
            rcases ‹m' = j ∨ R j m' = true› with e | e
            · exact Or.inl e
            · exact Or.inr e, hm'⟩⟩
        rw [hnil] at this
        simp at this
      have hmax : MaxSub R n i := by
        refine ⟨hi, hin, ?_⟩
        intro z hz hh
        obtain ⟨j, hj, hcov, hjz⟩ := chain h n z i hz hh.1
        apply hno j hj hcov
        rcases hjz with rfl | hjz
        · exact hh.2
        · exact h.trans _ _ _ hjz hh.2
      simp only [List.mem_singleton]
      constructor
      · rintro rfl; exact ⟨Or.inl rfl, hmax⟩
      · rintro ⟨hm1, hm2⟩
        rcases hm1 with e | e
        · exact e
        · exfalso
          exact hmax.2.2 m hm2.1 ⟨e, hm2.2.1⟩
    · rw [res_of_nonempty R st.nodes n (f + 1) i he, hS]
      have hne : searchParents R st.nodes n (f + 1) (ch st.nodes i) ≠ [] := by
        intro e; exact he (List.isEmpty_iff.mpr e)
      obtain ⟨m0, hm0⟩ := List.exists_mem_of_ne_nil _ hne
      obtain ⟨j0, hj0, hcov0, hj0n, _⟩ := (hS m0).mp hm0
      constructor
      · rintro ⟨j, hj, hcov, hjn, hjm, hmax⟩
        refine ⟨Or.inr ?_, hmax⟩
        rcases hjm with rfl | hjm
        · exact hcov.1
        · exact h.trans _ _ _ hcov.1 hjm
      · rintro ⟨him, hmax⟩
        have him' : R i m = true := by
          rcases him with rfl | e
          · exfalso; exact hmax.2.2 j0 hj0 ⟨hcov0.1, hj0n⟩
          · exact e
        obtain ⟨j, hj, hcov, hjm⟩ := chain h n m i hmax.1 him'
        refine ⟨j, hj, hcov, ?_, ?_, hmax⟩
        · rcases hjm with rfl | hjm
          · exact hmax.2.1
          · exact h.trans _ _ _ hjm hmax.2.1
        · rcases hjm with rfl | hjm
          · exact Or.inl rfl
          · exact Or.inr hjm

/-- `search_parents(roots, child)` returns exactly the maximal inserted subsumers of the child -/
theorem sp_spec (h : RelHyps R) {n : Nat} {st : State} (inv : Inv R n st) (m : Nat) :
    m ∈ searchParents R st.nodes n (n + 1) st.roots ↔ MaxSub R n m := by
  rw [mem_sp_succ]
  constructor
  · rintro ⟨r, hr, hrn, hm⟩
    obtain ⟨hrlt, _⟩ := (inv.rts r).mp hr
    exact ((res_spec h inv n r hrlt (by omega) hrn m).mp hm).2
  · intro hmax
    obtain ⟨r, hr, hmin, hrm⟩ := exists_root h n m hmax.1
    have hrn : R r n = true := by
      rcases hrm with rfl | hrm
      · exact hmax.2.1
      · exact h.trans _ _ _ hrm hmax.2.1
    refine ⟨r, (inv.rts r).mpr ⟨hr, hmin⟩, hrn, ?_⟩
    refine (res_spec h inv n r hr (by omega) hrn m).mpr ⟨?_, hmax⟩
    rcases hrm with e | e
    · exact Or.inl e.symm
    · exact Or.inr e

/-- covering pairs after one more insertion -/
theorem cov_succ (h : RelHyps R) (n i j : Nat) :
    (j < n + 1 ∧ Cov R (n + 1) i j) ↔ ((j < n ∧ Cov R n i j) ∨ (j = n ∧ MaxSub R n i)) := by
  constructor
  · rintro ⟨hj, hij, hcov⟩
    by_cases hjn : j = n
    · subst hjn
      refine Or.inr ⟨rfl, h.lt _ _ hij, hij, ?_⟩
      intro z hz; exact hcov z (by omega)
    · refine Or.inl ⟨by omega, hij, ?_⟩
      intro z hz; exact hcov z (by omega)
  · rintro (⟨hj, hij, hcov⟩ | ⟨rfl, hi, hin, hmax⟩)
    · refine ⟨by omega, hij, ?_⟩
      intro z hz hh
      by_cases hzn : z = n
      · subst hzn
        have := h.lt _ _ hh.2
        omega
      · exact hcov z (by omega) hh
    · refine ⟨by omega, hin, ?_⟩
      intro z hz hh
      by_cases hzn : z = j
      · subst hzn
        have := h.lt _ _ hh.2
        omega
      · exact hmax z (by omega) hh

theorem inv_zero : Inv R 0 (State.mk [] []) where
  len := rfl
  chi := by intro i j; simp [ch]
  rts := by intro i; simp
  par := by intro i j; simp [ch, pa]
  rnd := by simp

/-- one insertion preserves the invariant -/
theorem inv_step (h : RelHyps R) (K : Nat → Nat → Bool) (env : Env) (henv : env.Valid)
    {n : Nat} {st : State} (inv : Inv R n st) : Inv R (n + 1) (step R K env st) := by
  have hlen := inv.len
  have hsp := sp_spec h inv
  unfold step
  simp only [hlen]
  by_cases he : (searchParents R st.nodes n (n + 1) st.roots).isEmpty = true
  · -- no subsumer at all: the new node becomes a root
    simp only [he, if_true]
    have hnil : searchParents R st.nodes n (n + 1) st.roots = [] := List.isEmpty_iff.mp he
    have hnomax : ∀ m, ¬ MaxSub R n m := by
      intro m hm
      have := (hsp m).mpr hm
      rw [hnil] at this; simp at this
    have hnosub : ∀ i, i < n → R i n = false := by
      intro i hi
      cases hv : R i n with
      | false => rfl
      | true =>
        obtain ⟨m, hm, _⟩ := exists_max h n (n - i) i (Nat.le_refl _) hi hv
        exact absurd hm (hnomax m)
    refine ⟨by simp [hlen], ?_, ?_, ?_, ?_⟩
    · intro i j
      rw [ch_append_new, inv.chi, cov_succ h]
      constructor
      · intro hh; exact Or.inl hh
      · rintro (hh | ⟨_, hm⟩)
        · exact hh
        · exact absurd hm (hnomax i)
    · intro i
      simp only [List.mem_append, List.mem_singleton, inv.rts]
      constructor
      · rintro (⟨hi, hmin⟩ | rfl)
        · refine ⟨by omega, ?_⟩
          intro z hz
          by_cases hzn : z = n
          · subst hzn
            cases hv : R z i with
            | false => rfl
            | true => have := h.lt _ _ hv; omega
          · exact hmin z (by omega)
        · refine ⟨by omega, ?_⟩
          intro z hz
          by_cases hzn : z = i
          · subst hzn
            cases hv : R z z with
            | false => rfl
            | true => have := h.lt _ _ hv; omega
          · exact hnosub z (by omega)
      · rintro ⟨hi, hmin⟩
        by_cases hin : i = n
        · exact Or.inr hin
        · exact Or.inl ⟨by omega, fun z hz => hmin z (by omega)⟩
    · intro i j
      rw [pa_append_new, ch_append_new]
      exact inv.par i j
    · rw [List.nodup_append]
      refine ⟨inv.rnd, by simp, ?_⟩
      intro a ha b hb
      simp at hb
      subst hb
      have := ((inv.rts a).mp ha).1
      omega
  · -- the new node is attached to every maximal subsumer
    have he' : (searchParents R st.nodes n (n + 1) st.roots).isEmpty = false := by simpa using he
    simp only [he', Bool.false_eq_true, if_false]
    have hne : searchParents R st.nodes n (n + 1) st.roots ≠ [] := fun e => he (List.isEmpty_iff.mpr e)
    obtain ⟨m0, hm0⟩ := List.exists_mem_of_ne_nil _ hne
    have hmax0 := (hsp m0).mp hm0
    have hP : ∀ x, x ∈ env.order n (searchParents R st.nodes n (n + 1) st.roots) ↔ MaxSub R n x := by
      intro x; rw [(henv n _).mem_iff]; exact hsp x
    have hfold : (List.foldl (fun ns p => addChild K ns p n) (st.nodes ++ [Node.mk [] []])
        (env.order n (searchParents R st.nodes n (n + 1) st.roots))) =
        addChildren K n (st.nodes ++ [Node.mk [] []]) (env.order n (searchParents R st.nodes n (n + 1) st.roots)) := rfl
    rw [hfold]
    refine ⟨by rw [length_addChildren]; simp [hlen], ?_, ?_, ?_, inv.rnd⟩
    · intro i j
      rw [mem_ch_addChildren, ch_append_new, inv.chi, cov_succ h, hP]
      constructor
      · rintro (hh | ⟨hm, _, hj⟩)
        · exact Or.inl hh
        · exact Or.inr ⟨hj, hm⟩
      · rintro (hh | ⟨hj, hm⟩)
        · exact Or.inl hh
        · refine Or.inr ⟨hm, ?_, hj⟩
          have := hm.1
          simp [hlen]; omega
    · intro i
      rw [inv.rts]
      constructor
      · rintro ⟨hi, hmin⟩
        refine ⟨by omega, ?_⟩
        intro z hz
        by_cases hzn : z = n
        · subst hzn
          cases hv : R z i with
          | false => rfl
          | true => have := h.lt _ _ hv; omega
        · exact hmin z (by omega)
      · rintro ⟨hi, hmin⟩
        by_cases hin : i = n
        · subst hin
          have := hmin m0 (by have := hmax0.1; omega)
          rw [hmax0.2.1] at this
          exact absurd this (by simp)
        · exact ⟨by omega, fun z hz => hmin z (by omega)⟩
    · intro i j
      have hk : n ∉ env.order n (searchParents R st.nodes n (n + 1) st.roots) := by
        intro hh
        have := ((hP n).mp hh).1
        omega
      rw [mem_pa_addChildren _ _ _ _ _ _ hk, mem_ch_addChildren, pa_append_new, ch_append_new, inv.par]
      constructor
      · rintro (hh | ⟨hj, _, hi⟩)
        · exact Or.inl hh
        · refine Or.inr ⟨hi, ?_, hj⟩
          have := ((hP i).mp hi).1
          simp [hlen]; omega
      · rintro (hh | ⟨hi, _, hj⟩)
        · exact Or.inl hh
        · exact Or.inr ⟨hj, by simp [hlen], hi⟩

/-- the DAG after `n` insertions is the Hasse diagram of `R` on `0 … n-1`, for every
    set-iteration order -/
theorem buildIdx_inv (h : RelHyps R) (K : Nat → Nat → Bool) (env : Env) (henv : env.Valid) :
    ∀ n, Inv R n (buildIdx R K env n) := by
  intro n
  induction n with
  | zero => exact inv_zero
  | succ n ih => exact inv_step h K env henv ih

end C07
