import FGVerif.Model.C01Ref
import FGVerif.Proofs.C01Lex
/-!
  C01 — the specification over the tables regenerated from the source (`WF`, `denote`) IS the
  specification over the hand-written reference tables (`WFRef`, `denoteRef`, Model/C01Ref.lean).

  Table obligations (closed by `decide` on the generated tables; they break when the source drifts
  from the documented syntax):

  * `tbl_atom_reachable`            every alternative of the ATOM alternation is itself lexed as that
                                    atom (first-alternative-wins reaches it: `C` before `Cl` breaks it)
  * `tbl_atom_alphabet_documented`  the ATOM alternatives are, as a set, the documented alphabet
  * `tbl_bond_orders_documented`    `bond_to_order_map` is, as a map, the documented one
                                    (`-` 1, `=` 2, `#` 3, `$` 4, `:` 1.5, `.` 0)

  Theorems: `tokensOK_eq_tokensOKRef`, `WFcore_eq_WFcoreRef`, `WF_eq_WFRef`, `labelOf_eq_labelOfRef`,
  `denote_eq_denoteRef`, `denoteEdges_eq_denoteEdgesRef` — for every syntax tree.
-/
namespace C01

/-! ### table obligations on the generated tables against the reference -/

/-- every ATOM alternative is reached: lexing the alternative's own text yields that alternative -/
theorem tbl_atom_reachable :
    (atomAlts.all fun a => decide (firstAlt .atom atomAlts a = .hit (.atom a) [])) = true := by decide

/-- the generated atom alphabet equals the documented one, as a set -/
theorem tbl_atom_alphabet_documented :
    (atomAlts.all (fun a => refAtoms.contains a) && refAtoms.all (fun a => atomAlts.contains a)) = true := by
  decide

/-- agreement of two association lists on every key of either -/
def sameMap (t1 t2 : List (Str × Int)) : Bool :=
  (t1.map (·.1)).all (fun k => t1.lookup k == t2.lookup k) &&
  (t2.map (·.1)).all (fun k => t1.lookup k == t2.lookup k)

/-- the generated `bond_to_order_map` equals the documented one, as a map -/
theorem tbl_bond_orders_documented : sameMap bondTable refBondTable = true := by decide

/-! ### consequences for single lookups -/

theorem atomAlts_contains (s : Str) : atomAlts.contains s = refAtoms.contains s := by
  have h := tbl_atom_alphabet_documented
  simp only [Bool.and_eq_true, List.all_eq_true] at h
  rw [Bool.eq_iff_iff]
  constructor
  · intro hs
    exact h.1 s (by simpa using hs)
  · intro hs
    exact h.2 s (by simpa using hs)

theorem lookup_none_of_not_key (t : List (Str × Int)) (k : Str) (h : k ∉ t.map (·.1)) :
    t.lookup k = none := by
  induction t with
  | nil => rfl
  | cons e t ih =>
    obtain ⟨k2, v⟩ := e
    simp only [List.map_cons, List.mem_cons, not_or] at h
    have hne : (k == k2) = false := by simpa using h.1
    simp only [List.lookup, hne]
    exact ih h.2

theorem lookup_of_sameMap (t1 t2 : List (Str × Int)) (h : sameMap t1 t2 = true) (k : Str) :
    t1.lookup k = t2.lookup k := by
  simp only [sameMap, Bool.and_eq_true, List.all_eq_true, beq_iff_eq] at h
  by_cases h1 : k ∈ t1.map (·.1)
  · exact h.1 k h1
  · by_cases h2 : k ∈ t2.map (·.1)
    · exact h.2 k h2
    · rw [lookup_none_of_not_key t1 k h1, lookup_none_of_not_key t2 k h2]

theorem bondOrder_eq_bondOrderRef (c : Char) : bondOrder? c = bondOrderRef? c :=
  lookup_of_sameMap _ _ tbl_bond_orders_documented [c]

/-! ### the longest symbol wins, for a first-alternative-wins alternation in which every
    alternative is reachable -/

theorem stripPrefix_append_of_some (a s r y : Str) (h : stripPrefix a s = some r) :
    stripPrefix a (s ++ y) = some (r ++ y) := by
  induction a generalizing s with
  | nil =>
    cases s <;> simp_all [stripPrefix]
  | cons p ps ih =>
    cases s with
    | nil => simp [stripPrefix] at h
    | cons x xs =>
      simp only [List.cons_append, stripPrefix] at h ⊢
      split
      · rename_i hpx
        simp only [hpx, if_true] at h
        exact ih xs h
      · rename_i hpx
        simp [hpx] at h

/-- a prefix of `s ++ [c]` that is not a prefix of `s` is `s ++ [c]` itself -/
theorem stripPrefix_new (a s r : Str) (c : Char) (h0 : stripPrefix a s = none)
    (h1 : stripPrefix a (s ++ [c]) = some r) : a = s ++ [c] := by
  induction a generalizing s with
  | nil => cases s <;> simp [stripPrefix] at h0
  | cons p ps ih =>
    cases s with
    | nil =>
      simp only [List.nil_append, stripPrefix] at h1
      split at h1
      · rename_i hpc
        cases ps with
        | nil => simp [hpc]
        | cons q qs => simp [stripPrefix] at h1
      · simp at h1
    | cons x xs =>
      simp only [List.cons_append, stripPrefix] at h0 h1
      split at h1
      · rename_i hpx
        simp only [hpx, if_true] at h0
        rw [ih xs h0 h1, hpx]
        rfl
      · simp at h1

theorem firstAlt_next_char (alts : List Str) (s : Str) (c : Char)
    (hne : ∀ a ∈ alts, a ≠ [])
    (hr : firstAlt .atom alts s = .hit (.atom s) [])
    (hn : (s ++ [c]) ∉ alts) :
    firstAlt .atom alts (s ++ [c]) = .hit (.atom s) [c] := by
  induction alts with
  | nil => simp [firstAlt] at hr
  | cons a as ih =>
    cases a with
    | nil => exact absurd rfl (hne [] (by simp))
    | cons a0 a' =>
      simp only [firstAlt] at hr ⊢
      cases hs : stripPrefix (a0 :: a') s with
      | some r =>
        simp only [hs] at hr
        simp only [Try.hit.injEq, Token.atom.injEq] at hr
        obtain ⟨ha, hrr⟩ := hr
        rw [stripPrefix_append_of_some _ _ _ [c] hs]
        simp [ha, hrr]
      | none =>
        simp only [hs] at hr
        cases hs2 : stripPrefix (a0 :: a') (s ++ [c]) with
        | some r =>
          have := stripPrefix_new _ _ _ _ hs hs2
          exact absurd (by simp [← this]) hn
        | none =>
          simp only []
          exact ih (fun a ha => hne a (List.mem_cons_of_mem _ ha)) hr
            (fun hmem => hn (List.mem_cons_of_mem _ hmem))

theorem atomAlts_nonempty : ∀ a ∈ atomAlts, a ≠ [] := by
  intro a ha e
  have hb := tbl_atom_bounded
  simp only [altsBounded, List.all_eq_true] at hb
  have := hb a ha
  simp [e] at this

theorem atom_reachable (s : Str) (hs : atomAlts.contains s = true) :
    firstAlt .atom atomAlts s = .hit (.atom s) [] := by
  have h := tbl_atom_reachable
  simp only [List.all_eq_true, decide_eq_true_eq] at h
  exact h s (by simpa using hs)

/-! ### token streams -/

theorem tokOK_eq_tokOKRef (t : Token) : tokOK t = tokOKRef t := by
  cases t with
  | atom s => exact atomAlts_contains s
  | bond s =>
    match s with
    | [c] => simp [tokOK, tokOKRef, bondOrder_eq_bondOrderRef]
    | [] => rfl
    | _ :: _ :: _ => rfl
  | _ => rfl

theorem sepOK_eq_sepOKRef (t : Token) (c : Option Char) (ht : tokOK t = true) :
    sepOK t c = sepOKRef t c := by
  cases t with
  | atom s =>
    simp only [tokOK] at ht
    have hr := atom_reachable s ht
    cases c with
    | none => simp [sepOK, sepOKRef, hr]
    | some c =>
      simp only [sepOK, sepOKRef, Option.toList_some]
      rw [← atomAlts_contains]
      cases hc : atomAlts.contains (s ++ [c]) with
      | true =>
        have hr2 := atom_reachable _ hc
        simp [hr2]
      | false =>
        have hn : (s ++ [c]) ∉ atomAlts := by
          intro hm
          have : atomAlts.contains (s ++ [c]) = true := by simpa using hm
          rw [hc] at this
          exact absurd this (by simp)
        simp [firstAlt_next_char atomAlts s c atomAlts_nonempty hr hn]
  | _ => rfl

theorem tokensOK_eq_tokensOKRef (ts : List Token) : tokensOK ts = tokensOKRef ts := by
  induction ts with
  | nil => rfl
  | cons t ts ih =>
    simp only [tokensOK, tokensOKRef, ih, ← tokOK_eq_tokOKRef]
    cases ht : tokOK t with
    | false => simp
    | true => rw [sepOK_eq_sepOKRef t _ ht]

/-! ### denotation -/

theorem labelOf_eq_labelOfRef (its low : Bool) (b : Option Bond) : labelOf its low b = labelOfRef its low b := by
  cases b with
  | none => rfl
  | some b =>
    cases b with
    | sym c =>
      simp only [labelOf, labelOfRef, bondOrder_eq_bondOrderRef]
      cases bondOrderRef? c <;> rfl
    | rc g h => rfl

theorem applyREv_eq_applyREvRef (its aam : Bool) (off : Int) (g : Graph) (e : REv) :
    applyREv its aam off g e = applyREvRef its aam off g e := by
  cases e with
  | node i a => rfl
  | edge u v low b =>
    simp only [applyREv, applyREvRef, labelOf_eq_labelOfRef]
    cases labelOfRef its low b <;> rfl

theorem buildGraph_eq_buildGraphRef (its aam : Bool) (off : Int) (evs : List REv) :
    ∀ g : Graph, buildGraph its aam off g evs = buildGraphRef its aam off g evs := by
  induction evs with
  | nil => intro g; rfl
  | cons e evs ih =>
    intro g
    simp only [buildGraph, buildGraphRef, List.foldl_cons] at ih ⊢
    rw [applyREv_eq_applyREvRef]
    exact ih _

/-- **the denotation does not depend on the regenerated bond table** (as long as it is the documented one) -/
theorem denote_eq_denoteRef (c : Chain) (off : Int) (aam multi : Bool) :
    denote c off aam multi = denoteRef c off aam multi :=
  buildGraph_eq_buildGraphRef _ _ _ _ _

theorem revEdges_eq_revEdgesRef (its : Bool) (off : Int) (evs : List REv) :
    revEdges its off evs = revEdgesRef its off evs := by
  induction evs with
  | nil => rfl
  | cons e evs ih =>
    cases e with
    | node i a => simpa [revEdges, revEdgesRef] using ih
    | edge u v low b =>
      simp only [revEdges, revEdgesRef, labelOf_eq_labelOfRef, ih]
      cases labelOfRef its low b <;> rfl

theorem denoteEdges_eq_denoteEdgesRef (c : Chain) (off : Int) : denoteEdges c off = denoteEdgesRef c off :=
  revEdges_eq_revEdgesRef _ _ _

/-! ### well-formedness -/

theorem WFcore_eq_WFcoreRef (c : Chain) : WFcore c = WFcoreRef c := by
  simp only [WFcore, WFcoreRef, tokensOK_eq_tokensOKRef]

/-- **validity of a writing does not depend on the regenerated tables** (as long as they are the
    documented ones and every atom alternative is reachable) -/
theorem WF_eq_WFRef (multi : Bool) (c : Chain) : WF multi c = WFRef multi c := by
  simp only [WF, WFRef, WFcore_eq_WFcoreRef, denoteEdges_eq_denoteEdgesRef]

/-! ### non-vacuity (tests) -/

/-- `Cl`, `Se`, `Sn` are atoms of the documented syntax; `S` directly followed by `n` is not a writing
    of sulfur + nitrogen -/
example : WFRef false (.mk (.elem ['C', 'l']) (.next (some (.sym '#')) (.mk (.elem ['S', 'e']) .nil))) = true := by decide
example : denoteEdgesRef (.mk (.elem ['C', 'l']) (.next (some (.sym '#')) (.mk (.elem ['S', 'e']) .nil))) 0
    = [(0, 1, .s 6)] := by decide
example : WFcoreRef (.mk (.elem ['S']) (.next none (.mk (.elem ['n']) .nil))) = false := by decide
example : WFcoreRef (.mk (.elem ['N', 'a']) .nil) = false := by decide
example : WFcoreRef (.mk (.elem ['C']) (.ring none ['1'] (.ring none ['2'] .nil))) = false := by decide

end C01
