import FGVerif.Model.C06
import FGVerif.Proofs.C07
/-!
  C06 — functional-group queries are deterministic and pure: the logic part.

  Property theorems (about `Model/C06.lean` + `Model/C07.lean`):

  * `C06.history_independent`  for every list of earlier queries on the same object the answer
                               equals that of a fresh object (cache invariant, induction over the
                               history);
  * `C06.env_independent`      for configurations with pairwise distinct sort keys the tree as the
                               query sees it — items, the ORDER of the roots list and of every
                               children list — depends neither on the set-iteration order (`Env`)
                               nor on the order of the configuration list;
  * `C06.deterministic`        a COROLLARY that only rewrites with the two theorems above: any two
                               objects, histories, environments, list orders give the same answer.
                               That equal arguments give equal answers is not proved at all — it is
                               Lean's typing (every model function is pure); the theorem adds nothing
                               beyond `history_independent` + `env_independent`;
  * `C06.input_untouched`      is `rfl`: the model's `get` returns the caller's graph as a record
                               field, so the statement holds BY CONSTRUCTION of the model and carries
                               no information about the code.  Purity of the code ("never modifies
                               the graph it is given") is established only at run time, by the harness'
                               snapshots of the caller's graph around every call (including
                               `require_implicit_hydrogen=False`, the one path without `deepcopy`);
  * `C06.hash_dependent_witness_unrepaired`
                               for the UNREPAIRED key `(pattern_len, size, hash(pattern_str))` two
                               hash functions give different children orders and different
                               answers on a molecule matching two siblings (why F4 was needed).

  Honest reading: the theorems of this file WITH CONTENT are `history_independent`,
  `view_env_independent(E)`, `env_independent(_ofKey)` and the decided witness; together with
  `C06.env_independent_strings/_fg/_default`, `query_end_to_end(_total/_checked)`,
  `history_end_to_end`, `default_*` (`Proofs/C06Full.lean`, `C06Total.lean`, `C06Default.lean`) they
  are the proved part of the property.  `input_untouched` (`rfl`) and the functional reading of
  `deterministic` (typing) are listed in the audit for completeness, not as evidence.

  What is NOT claimed by these theorems: that CPython's runtime behaves like the model's `Env`,
  that the code keeps no state BETWEEN query objects (module globals, shared providers, caches on
  the mapper), or that it leaves the caller's graph alone (all three exercised by the subprocess
  harness: fresh interpreters × hash seeds × histories × kinds of query objects built earlier).  Here the query `q` is a parameter that reads only the
  `View`; the statement for the COMPOSED model (tree builder of C07 + cache + the actual query
  algorithm of C05, `q` instantiated) is `C06.query_end_to_end` / `C06.query_end_to_end_total` in
  `Proofs/C06Full.lean` / `Proofs/C06Total.lean`; "key injective on the list" is discharged from
  "pattern strings pairwise distinct" by `C06.env_independent_strings` (`Proofs/C06Full.lean`).
  The `parents` list of a node that never got a child keeps the set-iteration order — it is not part
  of the `View`, `FGQuery` never reads it (only `tree2str` prints it).
-/
namespace C06
open C07

/-! ### cache and history -/

/-- the cached tree, if any, is the one `get_tree` would build -/
def CacheOk {α} (c : Cfg α) (env : Env) (o : FGQueryObj α) : Prop :=
  ∀ t, o.cache = some t → t = buildTree c env o.cfgs

theorem getTree_spec {α} (c : Cfg α) (env : Env) (o : FGQueryObj α) (h : CacheOk c env o) :
    (getTree c env o).2 = buildTree c env o.cfgs ∧ CacheOk c env (getTree c env o).1 ∧
      (getTree c env o).1.cfgs = o.cfgs := by
  unfold getTree
  split
  · rename_i t hc
    exact ⟨h t hc, h, rfl⟩
  · rename_i hc
    refine ⟨rfl, ?_, rfl⟩
    intro t ht
    simp at ht
    exact ht.symm

theorem get_spec {α Mol Result} (c : Cfg α) (env : Env) (q : View α → Mol → Result)
    (o : FGQueryObj α) (m : Mol) (h : CacheOk c env o) :
    (get c env q o m).result = q (view (buildTree c env o.cfgs)) m ∧
      CacheOk c env (get c env q o m).obj ∧ (get c env q o m).obj.cfgs = o.cfgs := by
  obtain ⟨h1, h2, h3⟩ := getTree_spec c env o h
  unfold get
  simp only
  exact ⟨by rw [h1], h2, h3⟩

theorem run_spec {α Mol Result} (c : Cfg α) (env : Env) (q : View α → Mol → Result) :
    ∀ (ms : List Mol) (o : FGQueryObj α), CacheOk c env o →
      CacheOk c env (run c env q o ms) ∧ (run c env q o ms).cfgs = o.cfgs := by
  intro ms
  induction ms with
  | nil => intro o h; exact ⟨h, rfl⟩
  | cons m ms ih =>
    intro o h
    obtain ⟨_, h2, h3⟩ := get_spec c env q o m h
    obtain ⟨i1, i2⟩ := ih _ h2
    simp only [run]
    exact ⟨i1, i2.trans h3⟩

theorem cacheOk_new {α} (c : Cfg α) (env : Env) (cfgs : List α) : CacheOk c env (new cfgs) := by
  intro t ht; simp [new] at ht

/-- **C06.history_independent** — whatever was asked before on the same object, the answer is
    that of a fresh object. -/
theorem history_independent {α Mol Result} (c : Cfg α) (env : Env) (q : View α → Mol → Result)
    (cfgs : List α) (ms : List Mol) (m : Mol) :
    (get c env q (run c env q (new cfgs) ms) m).result = (get c env q (new cfgs) m).result := by
  obtain ⟨h1, h2⟩ := run_spec c env q ms (new cfgs) (cacheOk_new c env cfgs)
  rw [(get_spec c env q _ m h1).1, (get_spec c env q _ m (cacheOk_new c env cfgs)).1, h2]

/-- **C06.input_untouched** — `rfl`: true by construction of the model (whose `get` hands the caller's
    graph back as a field); NOT evidence about the code, whose purity is checked by runtime snapshots. -/
theorem input_untouched {α Mol Result} (c : Cfg α) (env : Env) (q : View α → Mol → Result)
    (o : FGQueryObj α) (m : Mol) : (get c env q o m).callerGraph = m := rfl

/-! ### independence of the set-iteration order -/

/-- `searchParents` reads the nodes only through their children lists -/
theorem sp_congr (R : Nat → Nat → Bool) (n1 n2 : List Node) (c : Nat) (h : ∀ i, ch n1 i = ch n2 i) :
    ∀ f L, searchParents R n1 c f L = searchParents R n2 c f L := by
  intro f
  induction f with
  | zero => intro L; rfl
  | succ f ih =>
    intro L
    simp only [searchParents]
    congr 1
    funext parents r
    rw [h r, ih]

/-- the children lists after the loop `for parent in parents: parent.add_child(node)`, exactly -/
theorem ch_addChildren_exact (K : Nat → Nat → Bool) (k : Nat) :
    ∀ (P : List Nat) (nodes : List Node), P.Nodup → ∀ i,
      ch (addChildren K k nodes P) i =
        if i ∈ P ∧ i < nodes.length then sortDesc K (ch nodes i ++ [k]) else ch nodes i := by
  intro P
  induction P with
  | nil => intro nodes _ i; simp [addChildren]
  | cons p ps ih =>
    intro nodes hnd i
    rw [List.nodup_cons] at hnd
    have hstep : addChildren K k nodes (p :: ps) = addChildren K k (addChild K nodes p k) ps := rfl
    rw [hstep, ih _ hnd.2 i, length_addChild, ch_addChild]
    by_cases hips : i ∈ ps
    · have hip : i ≠ p := fun e => hnd.1 (e ▸ hips)
      simp [hips, hip]
    · by_cases hip : i = p
      · subst hip
        by_cases hl : i < nodes.length <;> simp [hips, hl]
      · simp [hips, hip]

/-- two states that look the same to the query -/
structure ViewRel (s1 s2 : State) : Prop where
  roots : s1.roots = s2.roots
  len : s1.nodes.length = s2.nodes.length
  chs : ∀ i, ch s1.nodes i = ch s2.nodes i

theorem viewRel_step (R K : Nat → Nat → Bool) (env₁ env₂ : Env) (h₁ : env₁.Valid) (h₂ : env₂.Valid)
    (s1 s2 : State) (h : ViewRel s1 s2) : ViewRel (step R K env₁ s1) (step R K env₂ s2) := by
  unfold step
  simp only
  rw [← h.len, ← h.roots, ← sp_congr R s1.nodes s2.nodes s1.nodes.length h.chs]
  have hbase : ∀ i, ch (s1.nodes ++ [Node.mk [] []]) i = ch (s2.nodes ++ [Node.mk [] []]) i := by
    intro i; rw [ch_append_new, ch_append_new]; exact h.chs i
  by_cases he : (searchParents R s1.nodes s1.nodes.length (s1.nodes.length + 1) s1.roots).isEmpty = true
  · simp only [he, if_true]
    exact ⟨rfl, by simp [h.len], hbase⟩
  · have he' : (searchParents R s1.nodes s1.nodes.length (s1.nodes.length + 1) s1.roots).isEmpty = false := by
      simpa using he
    simp only [he', Bool.false_eq_true, if_false]
    have hnd := nodup_sp R s1.nodes s1.nodes.length (s1.nodes.length + 1) s1.roots
    have hp1 := h₁ s1.nodes.length (searchParents R s1.nodes s1.nodes.length (s1.nodes.length + 1) s1.roots)
    have hp2 := h₂ s1.nodes.length (searchParents R s1.nodes s1.nodes.length (s1.nodes.length + 1) s1.roots)
    refine ⟨rfl, ?_, ?_⟩
    · show (addChildren K _ _ _).length = (addChildren K _ _ _).length
      rw [length_addChildren, length_addChildren]; simp [h.len]
    · intro i
      show ch (addChildren K _ _ _) i = ch (addChildren K _ _ _) i
      rw [ch_addChildren_exact K _ _ _ (hp1.nodup_iff.mpr hnd), ch_addChildren_exact K _ _ _ (hp2.nodup_iff.mpr hnd),
        hbase i]
      simp only [List.length_append, h.len]
      by_cases hi : i ∈ env₁.order s2.nodes.length (searchParents R s1.nodes s2.nodes.length (s2.nodes.length + 1) s1.roots)
      · have hi2 : i ∈ env₂.order s2.nodes.length (searchParents R s1.nodes s2.nodes.length (s2.nodes.length + 1) s1.roots) := by
          rw [← h.len] at hi ⊢
          exact hp2.mem_iff.mpr (hp1.mem_iff.mp hi)
        simp only [hi, hi2]
      · have hi2 : ¬ i ∈ env₂.order s2.nodes.length (searchParents R s1.nodes s2.nodes.length (s2.nodes.length + 1) s1.roots) := by
          rw [← h.len] at hi ⊢
          exact fun hh => hi (hp1.mem_iff.mpr (hp2.mem_iff.mp hh))
        simp only [hi, hi2]

theorem viewRel_buildIdx (R K : Nat → Nat → Bool) (env₁ env₂ : Env) (h₁ : env₁.Valid) (h₂ : env₂.Valid) :
    ∀ n, ViewRel (buildIdx R K env₁ n) (buildIdx R K env₂ n) := by
  intro n
  induction n with
  | zero => exact ⟨rfl, rfl, fun _ => rfl⟩
  | succ n ih => exact viewRel_step R K env₁ env₂ h₁ h₂ _ _ ih

theorem children_eq_of_viewRel {s1 s2 : State} (h : ViewRel s1 s2) :
    s1.nodes.map (·.children) = s2.nodes.map (·.children) := by
  apply List.ext_getElem?
  intro i
  simp only [List.getElem?_map]
  have hc := h.chs i
  unfold ch at hc
  by_cases hi : i < s1.nodes.length
  · have hi2 : i < s2.nodes.length := h.len ▸ hi
    rw [List.getElem?_eq_getElem hi, List.getElem?_eq_getElem hi2] at hc ⊢
    simp only at hc
    simp [hc]
  · have hi2 : ¬ i < s2.nodes.length := h.len ▸ hi
    rw [List.getElem?_eq_none (Nat.le_of_not_lt hi), List.getElem?_eq_none (Nat.le_of_not_lt hi2)]

/-- for one list, the query's view of the tree does not depend on the set-iteration order
    (no hypothesis on `sub` or on the keys is needed for this part) -/
theorem view_env_independent {α} (c : Cfg α) (env₁ env₂ : Env) (h₁ : env₁.Valid) (h₂ : env₂.Valid)
    (l : List α) : view (buildTree c env₁ l) = view (buildTree c env₂ l) := by
  have h := viewRel_buildIdx (relOn c.sub (sortByKey c.klt l)) (relOn c.klt (sortByKey c.klt l))
    env₁ env₂ h₁ h₂ (sortByKey c.klt l).length
  simp only [view, buildTree]
  rw [h.roots, children_eq_of_viewRel h]

/-! ### independence of the order of the configuration list -/

/-- two sorted permutations of each other are equal when no two distinct elements tie -/
theorem eq_of_perm_sorted {α} (klt : α → α → Bool) :
    ∀ (l₁ l₂ : List α), l₁.Perm l₂ →
      (∀ a, a ∈ l₁ → ∀ b, b ∈ l₁ → klt a b = false → klt b a = false → a = b) →
      l₁.Pairwise (fun a b => klt b a = false) → l₂.Pairwise (fun a b => klt b a = false) → l₁ = l₂ := by
  intro l₁
  induction l₁ with
  | nil => intro l₂ hp _ _ _; exact List.Perm.nil_eq hp
  | cons x xs ih =>
    intro l₂ hp htot hs1 hs2
    cases l₂ with
    | nil => exact absurd hp.length_eq (by simp)
    | cons y ys =>
      rw [List.pairwise_cons] at hs1 hs2
      have hxy : x = y := by
        by_cases e : x = y
        · exact e
        · have hx : x ∈ ys := by
            have : x ∈ y :: ys := hp.mem_iff.mp (by simp)
            rcases List.mem_cons.mp this with h | h
            · exact absurd h e
            · exact h
          have hy : y ∈ xs := by
            have : y ∈ x :: xs := hp.mem_iff.mpr (by simp)
            rcases List.mem_cons.mp this with h | h
            · exact absurd h.symm e
            · exact h
          exact htot x (by simp) y (List.mem_cons_of_mem _ hy) (hs2.1 x hx) (hs1.1 y hy)
      subst hxy
      have hp' : xs.Perm ys := (List.perm_cons x).mp hp
      rw [ih ys hp' (fun a ha b hb => htot a (List.mem_cons_of_mem _ ha) b (List.mem_cons_of_mem _ hb)) hs1.2 hs2.2]

theorem sortByKey_perm_eq {α} {klt : α → α → Bool} (hk : KeyOrder klt) (l₁ l₂ : List α) (hp : l₁.Perm l₂)
    (hinj : ∀ a, a ∈ l₁ → ∀ b, b ∈ l₁ → klt a b = false → klt b a = false → a = b) :
    sortByKey klt l₁ = sortByKey klt l₂ := by
  apply eq_of_perm_sorted klt
  · exact (sortByKey_perm klt l₁).trans (hp.trans (sortByKey_perm klt l₂).symm)
  · intro a ha b hb
    exact hinj a ((sortByKey_perm klt l₁).mem_iff.mp ha) b ((sortByKey_perm klt l₁).mem_iff.mp hb)
  · exact sortByKey_sorted hk l₁
  · exact sortByKey_sorted hk l₂

/-- **C06.env_independent** — for configurations with pairwise distinct sort keys the tree as the
    query reads it (items, ordered roots, ordered children lists) is the same for every
    set-iteration order and every order of the configuration list. -/
theorem env_independent {α} (c : Cfg α) (hk : KeyOrder c.klt) (env₁ env₂ : Env) (h₁ : env₁.Valid) (h₂ : env₂.Valid)
    (l₁ l₂ : List α) (hp : l₁.Perm l₂)
    (hinj : ∀ a, a ∈ l₁ → ∀ b, b ∈ l₁ → c.klt a b = false → c.klt b a = false → a = b) :
    view (buildTree c env₁ l₁) = view (buildTree c env₂ l₂) := by
  rw [view_env_independent c env₁ env₂ h₁ h₂ l₁]
  simp only [view, buildTree]
  rw [sortByKey_perm_eq hk l₁ l₂ hp hinj]

/-- the same for a key function into tuples compared lexicographically (the real key
    `(pattern_len, |V|, |E|, pattern_str)`): it suffices that the key is injective on the list,
    which distinct pattern strings guarantee (the string is the last component) -/
theorem env_independent_ofKey {α} (sub : α → α → Bool) (key : α → List Nat) (env₁ env₂ : Env)
    (h₁ : env₁.Valid) (h₂ : env₂.Valid) (l₁ l₂ : List α) (hp : l₁.Perm l₂)
    (hinj : ∀ a, a ∈ l₁ → ∀ b, b ∈ l₁ → key a = key b → a = b) :
    view (buildTree (Cfg.ofKey sub key lexLt) env₁ l₁) = view (buildTree (Cfg.ofKey sub key lexLt) env₂ l₂) :=
  env_independent _ (keyOrder_ofKey sub key) env₁ env₂ h₁ h₂ l₁ l₂ hp
    (fun a ha b hb e1 e2 => hinj a ha b hb (lexLt_total _ _ e1 e2))

/-- **C06.deterministic** — two objects with permuted configuration lists, arbitrary histories and
    arbitrary (valid) environments answer alike.  (Corollary by rewriting with `history_independent` and
    `env_independent`; "same arguments, same answer" itself is typing, not a proof.) -/
theorem deterministic {α Mol Result} (c : Cfg α) (hk : KeyOrder c.klt) (q : View α → Mol → Result)
    (env₁ env₂ : Env) (h₁ : env₁.Valid) (h₂ : env₂.Valid) (l₁ l₂ : List α) (hp : l₁.Perm l₂)
    (hinj : ∀ a, a ∈ l₁ → ∀ b, b ∈ l₁ → c.klt a b = false → c.klt b a = false → a = b)
    (ms₁ ms₂ : List Mol) (m : Mol) :
    (get c env₁ q (run c env₁ q (new l₁) ms₁) m).result = (get c env₂ q (run c env₂ q (new l₂) ms₂) m).result := by
  rw [history_independent, history_independent,
    (get_spec c env₁ q _ m (cacheOk_new c env₁ l₁)).1, (get_spec c env₂ q _ m (cacheOk_new c env₂ l₂)).1]
  simp only [new]
  rw [env_independent c hk env₁ env₂ h₁ h₂ l₁ l₂ hp hinj]

/-! ### the unrepaired key is hash dependent -/

/-- carbonyl (0) with its children aldehyde (1) and acyl chloride (2): both children have
    `pattern_len = 3` and 4 nodes, so the unrepaired key leaves their order to `hash(pattern_str)` -/
def wItems : List WItem := [⟨1, 3, 4⟩, ⟨0, 2, 2⟩, ⟨2, 3, 4⟩]
def wSub (a b : WItem) : Bool := a.id == 0 && (b.id == 1 || b.id == 2)
def wCfg (hash : Nat → Nat) : Cfg WItem := Cfg.ofKey wSub (unrepairedKey hash) lexLt
/-- two "string hashes" (think: two values of PYTHONHASHSEED) -/
def hashA : Nat → Nat := fun i => [5, 11, 42].getD i 0
def hashB : Nat → Nat := fun i => [5, 42, 11].getD i 0

/-- the ids of the children of the (only) root, in list order -/
def rootChildIds (v : View WItem) : List (Option Nat) :=
  (v.children.getD (v.roots.getD 0 0) []).map fun i => v.items[i]?.map (·.id)

/-- the id of the group `__find_best_node_rec` returns when every group matches -/
def answerId (v : View WItem) : Option Nat :=
  (findBest ⟨List.range v.items.length, v.roots, v.children⟩ (fun _ => true) 3 v.roots).bind
    fun i => v.items[i]?.map (·.id)

/-- **C06.hash_dependent_witness_unrepaired** — with the unrepaired key two hash functions give
    different children orders, and a molecule on which carbonyl, aldehyde and acyl chloride all
    match (`O=CCl`) gets two different answers (the last matching sibling wins). -/
theorem hash_dependent_witness_unrepaired :
    view (buildTree (wCfg hashA) (Env.ofSeed 0) wItems) ≠ view (buildTree (wCfg hashB) (Env.ofSeed 0) wItems) ∧
    rootChildIds (view (buildTree (wCfg hashA) (Env.ofSeed 0) wItems)) = [some 2, some 1] ∧
    rootChildIds (view (buildTree (wCfg hashB) (Env.ofSeed 0) wItems)) = [some 1, some 2] ∧
    answerId (view (buildTree (wCfg hashA) (Env.ofSeed 0) wItems)) = some 1 ∧
    answerId (view (buildTree (wCfg hashB) (Env.ofSeed 0) wItems)) = some 2 := by
  decide

/-- the repaired key on the witness items (the id stands for the pattern string) -/
def wCfgRepaired : Cfg WItem := Cfg.ofKey wSub (fun x => [x.patternLen, x.size, 0, x.id]) lexLt

/-- non-vacuity (test): with the repaired key two set orders and two list orders give the same
    ordered tree (items, roots, children lists) -/
example :
    let v₁ := view (buildTree wCfgRepaired (Env.ofSeed 0) wItems)
    let v₂ := view (buildTree wCfgRepaired (Env.ofSeed 1) [⟨2, 3, 4⟩, ⟨0, 2, 2⟩, ⟨1, 3, 4⟩])
    v₁.items = v₂.items ∧ v₁.roots = v₂.roots ∧ v₁.children = v₂.children ∧ v₁.children = [[2, 1], [], []] := by
  decide

end C06
