import FGVerif.Model.C01Spec
/-!
  C01, layer 1 — the lexer reads back every valid token stream:
  `lex_tokens : tokensOK ts → lex (tokensChars ts) = ts`.
  Table obligations (closed by `decide` on the generated alternations) are the `tbl_*` theorems.
-/
namespace C01

/-! ### ordered alternation -/

theorem stripPrefix_append (a k : Str) : stripPrefix a (a ++ k) = some k := by
  induction a with
  | nil => cases k <;> rfl
  | cons x xs ih => simp [stripPrefix, ih]

/-- a prefix no longer than `x` is decided inside `x` -/
theorem stripPrefix_extend (a x y : Str) (h : a.length ≤ x.length) :
    stripPrefix a (x ++ y) = (stripPrefix a x).map (· ++ y) := by
  induction a generalizing x with
  | nil => cases x <;> cases y <;> simp [stripPrefix]
  | cons p ps ih =>
    cases x with
    | nil => simp at h
    | cons c cs =>
      simp only [List.cons_append, stripPrefix]
      split
      · exact ih cs (by simpa using h)
      · rfl

def Try.mapRest (f : Str → Str) : Try → Try
  | .hit t r => .hit t (f r)
  | .stop => .stop
  | .miss => .miss

/-- all alternatives are non-empty and at most `n` long -/
def altsBounded (n : Nat) (alts : List Str) : Bool := alts.all fun a => !a.isEmpty && a.length ≤ n

theorem firstAlt_extend (mk : Str → Token) (alts : List Str) (x y : Str)
    (h : altsBounded x.length alts = true) :
    firstAlt mk alts (x ++ y) = (firstAlt mk alts x).mapRest (· ++ y) := by
  induction alts with
  | nil => simp [firstAlt, Try.mapRest]
  | cons a as ih =>
    simp only [altsBounded, List.all_cons, Bool.and_eq_true] at h
    have ih := ih (by simpa [altsBounded] using h.2)
    cases a with
    | nil => simp at h
    | cons a0 a' =>
      simp only [firstAlt]
      rw [stripPrefix_extend _ _ _ (by simpa using h.1.2)]
      cases hx : stripPrefix (a0 :: a') x with
      | none => simpa using ih
      | some r => simp [Try.mapRest]

/-- no alternative starts with `c` -/
def noStart (c : Char) (alts : List Str) : Bool :=
  alts.all fun a => match a with
    | d :: _ => d != c
    | [] => false

theorem firstAlt_miss (mk : Str → Token) (c : Char) (k : Str) (alts : List Str)
    (h : noStart c alts = true) : firstAlt mk alts (c :: k) = .miss := by
  induction alts with
  | nil => rfl
  | cons a as ih =>
    simp only [noStart, List.all_cons, Bool.and_eq_true] at h
    have ih := ih (by simpa [noStart] using h.2)
    cases a with
    | nil => simp at h
    | cons d ds =>
      have hd : d ≠ c := by simpa using h.1
      simp [firstAlt, stripPrefix, hd, ih]

/-- single-character alternatives: the result depends on the first character only -/
theorem firstAlt_single (mk : Str → Token) (c : Char) (k : Str) (alts : List Str)
    (h1 : (alts.all fun a => a.length == 1) = true) (hc : alts.contains [c] = true) :
    firstAlt mk alts (c :: k) = .hit (mk [c]) k := by
  induction alts with
  | nil => simp at hc
  | cons a as ih =>
    simp only [List.all_cons, Bool.and_eq_true] at h1
    match a, h1 with
    | [d], h1 =>
      by_cases hd : d = c
      · subst hd; simp [firstAlt, stripPrefix]
      · have : as.contains [c] = true := by
          simp only [List.contains_cons, Bool.or_eq_true] at hc
          rcases hc with hc | hc
          · exact absurd (by simpa using hc : c = d).symm hd
          · exact hc
        simp [firstAlt, stripPrefix, hd, ih h1.2 this]
    | [], h1 => simp at h1
    | _ :: _ :: _, h1 => simp at h1

/-! ### table obligations on the generated alternations -/

/-- every ATOM alternative is one or two characters -/
theorem tbl_atom_bounded : altsBounded 2 atomAlts = true := by decide
/-- no ATOM / BOND alternative starts with a digit -/
theorem tbl_atom_no_digit : (atomAlts.all fun a => match a with | d :: _ => !d.isDigit | [] => false) = true := by decide
theorem tbl_bond_no_digit : (bondAlts.all fun a => match a with | d :: _ => !d.isDigit | [] => false) = true := by decide
/-- the punctuation that starts the other token kinds starts no ATOM / BOND alternative -/
theorem tbl_punct : (['(', ')', 'R', '<', '{'].all fun c => noStart c atomAlts && noStart c bondAlts) = true := by decide
/-- every BOND alternative is a single character (this is what an unescaped `$` breaks) -/
theorem tbl_bond_single : (bondAlts.all fun a => a.length == 1) = true := by decide
/-- every key of `bond_to_order_map` is one character, is a BOND alternative and starts no atom -/
theorem tbl_bond_keys : (bondTable.all fun kv =>
    match kv.1 with
    | [c] => bondAlts.contains [c] && noStart c atomAlts
    | _ => false) = true := by decide

theorem noStart_of_digit {alts : List Str} {c : Char} (hc : c.isDigit = true)
    (h : (alts.all fun a => match a with | d :: _ => !d.isDigit | [] => false) = true) : noStart c alts = true := by
  simp only [noStart, List.all_eq_true] at *
  intro a ha
  have := h a ha
  cases a with
  | nil => simp at this
  | cons d ds =>
    simp only [Bool.not_eq_true', bne_iff_ne, ne_eq] at *
    intro e; subst e; simp [hc] at this

theorem bondKey_facts {c : Char} (h : (bondOrder? c).isSome = true) :
    bondAlts.contains [c] = true ∧ noStart c atomAlts = true := by
  have hk := tbl_bond_keys
  simp only [List.all_eq_true] at hk
  simp only [bondOrder?] at h
  obtain ⟨o, ho⟩ := Option.isSome_iff_exists.mp h
  have hm : ([c], o) ∈ bondTable := by
    clear hk h
    generalize bondTable = tb at ho
    induction tb with
    | nil => simp [List.lookup] at ho
    | cons kv tb ih =>
      obtain ⟨k, v⟩ := kv
      simp only [List.lookup] at ho
      split at ho
      · rename_i heq
        have : [c] = k := by simpa using heq
        simp at ho; subst this; subst ho; simp
      · exact List.mem_cons_of_mem _ (ih ho)
  have := hk _ hm
  simpa using this

/-! ### one token -/

theorem head?_toList_append_drop (k : Str) : k.head?.toList ++ k.drop 1 = k := by
  cases k <;> simp

theorem isDigit_ne {c d : Char} (hc : c.isDigit = true) (hd : d.isDigit = false) : ¬ c = d := by
  intro e; subst e; simp [hc] at hd

theorem takeWhile_sep (p : Char → Bool) (k : Str) (h : ∀ c, k.head? = some c → p c = false) :
    k.takeWhile p = [] ∧ k.dropWhile p = k := by
  cases k with
  | nil => simp
  | cons c cs => simp [List.takeWhile, List.dropWhile, h c rfl]

theorem takeWhile_run (p : Char → Bool) (w k : Str) (hw : w.all p = true)
    (h : ∀ c, k.head? = some c → p c = false) :
    (w ++ k).takeWhile p = w ∧ (w ++ k).dropWhile p = k := by
  have hw' : ∀ a ∈ w, p a = true := by simpa [List.all_eq_true] using hw
  obtain ⟨h1, h2⟩ := takeWhile_sep p k h
  constructor
  · rw [List.takeWhile_append_of_pos hw', h1]; simp
  · rw [List.dropWhile_append_of_pos hw', h2]

theorem next_atom (s k : Str) (hs : atomAlts.contains s = true)
    (hsep : firstAlt .atom atomAlts (s ++ k.head?.toList) = .hit (.atom s) k.head?.toList) :
    ∃ c w, s = c :: w ∧ next c (w ++ k) = .hit (.atom s) k := by
  have hb := tbl_atom_bounded
  have hne : s ≠ [] := by
    intro e; subst e
    simp only [altsBounded, List.all_eq_true] at hb
    have := hb [] (by simpa using hs)
    simp at this
  obtain ⟨c, w, rfl⟩ : ∃ c w, s = c :: w := by
    cases s with
    | nil => exact absurd rfl hne
    | cons c w => exact ⟨c, w, rfl⟩
  refine ⟨c, w, rfl, ?_⟩
  have key : firstAlt .atom atomAlts ((c :: w) ++ k) = .hit (.atom (c :: w)) k := by
    cases k with
    | nil => simpa using hsep
    | cons k0 k' =>
      have hlen : altsBounded ((c :: w) ++ [k0]).length atomAlts = true := by
        simp only [altsBounded, List.all_eq_true] at hb ⊢
        intro a ha
        have := hb a ha
        simp only [Bool.and_eq_true, decide_eq_true_eq] at this ⊢
        exact ⟨this.1, by simp; omega⟩
      have := firstAlt_extend .atom atomAlts ((c :: w) ++ [k0]) k' hlen
      simp only [List.head?_cons, Option.toList_some] at hsep
      rw [hsep] at this
      simpa [Try.mapRest] using this
  simp only [next, Gen.tokenKinds, tryKinds, tryKind, if_true]
  simp only [List.cons_append] at key
  rw [key]

/-- the ATOM and BOND kinds miss at a character that starts neither -/
theorem next_skip2 (c : Char) (cs : Str) (h1 : noStart c atomAlts = true) (h2 : noStart c bondAlts = true) :
    next c cs = tryKinds ["BRANCH_START", "BRANCH_END", "RING_NUM", "WILDCARD", "RC_BOND", "NODE_LABEL", "MISMATCH"] c cs := by
  simp only [next, Gen.tokenKinds]
  rw [tryKinds, tryKinds]
  have a1 : tryKind "ATOM" c cs = .miss := by simp [tryKind, firstAlt_miss _ c cs atomAlts h1]
  have a2 : tryKind "BOND" c cs = .miss := by
    simp only [tryKind]
    simp [firstAlt_miss _ c cs bondAlts h2]
  rw [a1, a2]

theorem punct_noStart {c : Char} (h : c ∈ ['(', ')', 'R', '<', '{']) :
    noStart c atomAlts = true ∧ noStart c bondAlts = true := by
  have := tbl_punct
  simp only [List.all_eq_true, Bool.and_eq_true] at this
  exact this c h

theorem next_bond (c : Char) (k : Str) (h : (bondOrder? c).isSome = true) :
    next c k = .hit (.bond [c]) k := by
  obtain ⟨h1, h2⟩ := bondKey_facts h
  simp only [next, Gen.tokenKinds]
  rw [tryKinds]
  have a1 : tryKind "ATOM" c k = .miss := by simp [tryKind, firstAlt_miss _ c k atomAlts h2]
  rw [a1, tryKinds]
  have a2 : tryKind "BOND" c k = .hit (.bond [c]) k := by
    simp only [tryKind]
    simp [firstAlt_single .bond c k bondAlts tbl_bond_single h1]
  rw [a2]

theorem next_bstart (k : Str) : next '(' k = .hit .bstart k := by
  obtain ⟨h1, h2⟩ := punct_noStart (c := '(') (by simp)
  rw [next_skip2 _ _ h1 h2]; simp [tryKinds, tryKind]

theorem next_bend (k : Str) : next ')' k = .hit .bend k := by
  obtain ⟨h1, h2⟩ := punct_noStart (c := ')') (by simp)
  rw [next_skip2 _ _ h1 h2]; simp [tryKinds, tryKind]

theorem next_wild (k : Str) : next 'R' k = .hit .wild k := by
  obtain ⟨h1, h2⟩ := punct_noStart (c := 'R') (by simp)
  rw [next_skip2 _ _ h1 h2]
  simp [tryKinds, tryKind, show Char.isDigit 'R' = false by decide]

theorem next_ring (c : Char) (w k : Str) (hc : c.isDigit = true) (hw : w.all Char.isDigit = true)
    (hk : ∀ d, k.head? = some d → d.isDigit = false) :
    next c (w ++ k) = .hit (.ring (c :: w)) k := by
  rw [next_skip2 _ _ (noStart_of_digit hc tbl_atom_no_digit) (noStart_of_digit hc tbl_bond_no_digit)]
  obtain ⟨t1, t2⟩ := takeWhile_run Char.isDigit w k hw hk
  have e1 : ¬ c = '(' := isDigit_ne hc (by decide)
  have e2 : ¬ c = ')' := isDigit_ne hc (by decide)
  simp [tryKinds, tryKind, e1, e2, hc, t1, t2]

theorem next_rc (g h k : Str) (hg : g.all Char.isDigit = true) (hh : h.all Char.isDigit = true) :
    next '<' (g ++ ',' :: (h ++ '>' :: k)) = .hit (.rc g h) k := by
  obtain ⟨h1, h2⟩ := punct_noStart (c := '<') (by simp)
  rw [next_skip2 _ _ h1 h2]
  obtain ⟨t1, t2⟩ := takeWhile_run Char.isDigit g (',' :: (h ++ '>' :: k)) hg
    (by intro d hd; simp at hd; subst hd; decide)
  obtain ⟨t3, t4⟩ := takeWhile_run Char.isDigit h ('>' :: k) hh
    (by intro d hd; simp at hd; subst hd; decide)
  simp [tryKinds, tryKind, show Char.isDigit '<' = false by decide, t1, t2, t3, t4]

theorem next_label (b0 : Char) (b k : Str) (hb : (b0 :: b).all isLabelChar = true) :
    next '{' ((b0 :: b) ++ '}' :: k) = .hit (.label (b0 :: b)) k := by
  obtain ⟨h1, h2⟩ := punct_noStart (c := '{') (by simp)
  rw [next_skip2 _ _ h1 h2]
  obtain ⟨t1, t2⟩ := takeWhile_run isLabelChar (b0 :: b) ('}' :: k) hb
    (by intro d hd; simp at hd; subst hd; decide)
  simp only [List.cons_append] at t1 t2
  simp only [tryKinds, tryKind, List.cons_append]
  simp [show Char.isDigit '{' = false by decide, t1, t2]

/-- every valid token, followed by anything its separator condition allows, is read back -/
theorem next_token (t : Token) (k : Str) (ht : tokOK t = true) (hs : sepOK t k.head? = true) :
    ∃ c w, t.chars = c :: w ∧ next c (w ++ k) = .hit t k := by
  cases t with
  | atom s =>
    simp only [tokOK] at ht
    simp only [sepOK, decide_eq_true_eq] at hs
    exact next_atom s k ht hs
  | bond s =>
    match s, ht with
    | [c], ht => exact ⟨c, [], rfl, by simpa using next_bond c k (by simpa [tokOK] using ht)⟩
    | [], ht => simp [tokOK] at ht
    | _ :: _ :: _, ht => simp [tokOK] at ht
  | bstart => exact ⟨'(', [], rfl, by simpa using next_bstart k⟩
  | bend => exact ⟨')', [], rfl, by simpa using next_bend k⟩
  | wild => exact ⟨'R', [], rfl, by simpa using next_wild k⟩
  | ring d =>
    cases d with
    | nil => simp [tokOK] at ht
    | cons c w =>
      simp only [tokOK, isDigits, List.all_cons, Bool.and_eq_true] at ht
      refine ⟨c, w, rfl, next_ring c w k ht.2.1 ht.2.2 ?_⟩
      intro d hd
      simp only [sepOK, hd] at hs
      simpa using hs
  | rc g h =>
    simp only [tokOK, isDigits, Bool.and_eq_true] at ht
    refine ⟨'<', g ++ ',' :: (h ++ ['>']), rfl, ?_⟩
    have := next_rc g h k ht.1 ht.2
    simpa [List.append_assoc] using this
  | label b =>
    cases b with
    | nil => simp [tokOK] at ht
    | cons b0 b =>
      simp only [tokOK, Bool.and_eq_true] at ht
      refine ⟨'{', (b0 :: b) ++ ['}'], rfl, ?_⟩
      have := next_label b0 b k ht.2
      simpa [List.append_assoc] using this
  | mismatch c => simp [tokOK] at ht

/-! ### the token stream -/

theorem lexFuel_tokens (ts : List Token) (h : tokensOK ts = true) :
    ∀ f, (tokensChars ts).length < f → lexFuel f (tokensChars ts) = ts := by
  induction ts with
  | nil => intro f hf; cases f <;> simp [tokensChars, lexFuel]
  | cons t ts ih =>
    intro f hf
    simp only [tokensOK, Bool.and_eq_true] at h
    obtain ⟨c, w, hcw, hn⟩ := next_token t (tokensChars ts) h.1.1 h.1.2
    have e : tokensChars (t :: ts) = c :: (w ++ tokensChars ts) := by
      simp [tokensChars, hcw]
    rw [e] at hf ⊢
    cases f with
    | zero => simp at hf
    | succ f =>
      simp only [lexFuel, hn]
      rw [ih h.2 f (by simp at hf; omega)]

/-- **the lexer reads back every valid token stream** -/
theorem lex_tokens (ts : List Token) (h : tokensOK ts = true) : lex (tokensChars ts) = ts :=
  lexFuel_tokens ts h _ (Nat.lt_succ_self _)

end C01
