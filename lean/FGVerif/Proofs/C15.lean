import FGVerif.Proofs.C15Split
import FGVerif.Proofs.C14
/-!
  C15 — generated reactions are balanced and mapped; Diels-Alder samples have DA centres.

  General theorems about `Model/C15.lean` (every configuration):

  * `C15.balanced_mapped`     every sample `(G, H) = split_its(X)` of a reaction proxy (`generate` with
                              `aam` enabled) has the expanded pattern's nodes (ids, order), its symbols and
                              the atom map `aam = id + 1` on both sides
    (`C15.balanced_mapped_of`: the same for any closed graph with distinct ids and `aam = id + 1`)
  * `C15.superposition`       `get_its(split_its X)` is `X` with scalar labels lifted to pairs `(o, o)` and
                              nodes named by map number `id + 1` (`superposition_pointwise`: for all names,
                              plus well-formedness of the ITS), for every well-formed simple `X` whose labels
                              are scalars ≠ 0 or pairs ≠ (0,0) (`goodLabel`; the driver evaluates these
                              hypotheses on every sample).  `get_its` is modelled here only for two graphs on
                              the same nodes with `aam = id + 1` (`Model/C15.lean: getIts`).
  * `C15.superposition_general` (`Proofs/C15General.lean`) the same statement for the GENERAL models of
                              `get_its` / `split_its` (`Model/C09.lean`, `Model/C10.lean`, validated against
                              `fgutils.its`), through the adapter `Model/C15General.lean`: `C10.resuper (toGr x)`
                              is defined and is `x` named by map number (from `C10.its_of_split`); `C09.getIts`
                              on the two halves of the C15 model is the same ITS (from
                              `C10.smiles_roundtrip_modulo_rdkit` with the identity renaming); and so is the
                              small `getIts` — `C15.getIts_small_eq_general`: the small and the general
                              `get_its` agree on the halves of every sample in the decidable domain `generalOk`
  * `C15.halvesB_sound` / `C15.halvesB_reaction` (`Proofs/C15Halves.lean`) the DIRECT check of the two halves that the
                              driver applies to every implementation sample (`Model/C15.lean: halvesB`: closed simple
                              graphs, every bond label a scalar ≠ 0, between any two pattern nodes exactly the labels
                              `splitG` / `splitH` keep) means what it says, and the model's halves pass it
  * `C15.da_counts`           the documented sample counts 10470 / 12875 are what the counting formula
                              (proved equal to the number of samples: `C14.total`) gives on the generated
                              shipped configuration — kernel arithmetic (`C14.da_count_pos/neg`).

  The reaction-centre SHAPE of every shipped Diels-Alder sample (single 6-cycle of carbons, label multiset, no other
  changing bond) is a theorem about the model on the regenerated configuration, without enumeration:
  `C15.da_rc_shape_thm` (`Proofs/C15Rc.lean`, general lemmas in `Proofs/C15RcA/B.lean`).

  **test**, not a theorem: the explicit-valence bound of the same clause (`daCentreOk`, which also re-checks the
  shape) is evaluated by the compiled driver over the complete enumeration (thorough) / 300 random samples per mode
  (quick), both on the model's samples and on the implementation's; RDKit sanitisation is checked by the harness only.
-/
namespace C15
open C13 C14 Graph

namespace Glue

theorem closedB_of_closed (g : Graph) (hc : Closed g) : closedB g = true := by
  simp only [closedB, List.all_eq_true, Bool.and_eq_true]
  intro r hr
  exact ⟨by simpa using (hasNode_iff _ _).mp (hc r hr).1,
         fun e he => by simpa using (hasNode_iff _ _).mp ((hc r hr).2 e he)⟩

theorem setAam_nodeIds (g : Graph) : (setAam g).nodeIds = g.nodeIds := by
  simp [setAam, Graph.nodeIds, Function.comp_def]

theorem setAam_closed (g : Graph) (hc : Closed g) : Closed (setAam g) := by
  have hn : ∀ w, (setAam g).hasNode w = g.hasNode w := by
    intro w
    have : ((setAam g).hasNode w = true) ↔ (g.hasNode w = true) := by
      rw [hasNode_iff, hasNode_iff, setAam_nodeIds]
    cases h1 : (setAam g).hasNode w <;> cases h2 : g.hasNode w <;> simp_all
  intro r hr
  have hr' : r ∈ g.adj := hr
  exact ⟨(hn _).trans (hc r hr').1, fun e he => (hn _).trans ((hc r hr').2 e he)⟩

theorem setAam_aam (g : Graph) : (setAam g).nodes.all (fun p => p.2.aam == some (p.1 + 1)) = true := by
  simp [setAam, List.all_map, Function.comp_def]

theorem collapse_nodes (g : Graph) (hc : Closed g) : (collapse g).nodes = g.nodes := by
  unfold collapse
  simp only
  rw [addEdgesFrom_nodes]
  intro e he
  rcases List.mem_map.mp he with ⟨e', he', rfl⟩
  have := edges_mem_closed g hc e' he'
  exact ⟨this.1, this.2⟩

theorem collapse_closed (g : Graph) : Closed (collapse g) := by
  unfold collapse
  exact addEdgesFrom_closed _ _ (relabelCopy_base_closed _ _)

theorem nodupB_iff (l : List Int) : nodupB l = true ↔ l.Nodup := by
  induction l with
  | nil => simp [nodupB]
  | cons x xs ih => simp [nodupB, ih, List.nodup_cons]

theorem nodup_of_contiguous (g : Graph) (h : contiguous g = true) : g.nodeIds.Nodup :=
  List.nodup_iff_pairwise_ne.mpr ((ids_pairwise (contiguous_ids g h)).imp (fun hab => Int.ne_of_lt hab))

/-- a finished sample (`aam` enabled) of a contiguous closed graph: closed, ids distinct, `aam = id + 1` -/
theorem finish_ok (g : Graph) (hc : closedB g = true) (hcont : contiguous g = true) :
    closedB (finish true g) = true ∧ nodupB (finish true g).nodeIds = true ∧
    (finish true g).nodes.all (fun p => p.2.aam == some (p.1 + 1)) = true := by
  have hcl := closed_of_closedB g hc
  have hcl' := setAam_closed g hcl
  have hids : (finish true g).nodes = (setAam g).nodes := by
    unfold finish
    simp only [if_true]
    split
    · exact collapse_nodes _ hcl'
    · rfl
  have hnodes : (finish true g).nodeIds = g.nodeIds := by
    unfold Graph.nodeIds at *; rw [hids]; exact setAam_nodeIds g
  refine ⟨?_, ?_, ?_⟩
  · apply closedB_of_closed
    unfold finish
    simp only [if_true]
    split
    · exact collapse_closed _
    · exact hcl'
  · rw [hnodes]; exact (nodupB_iff _).mpr (nodup_of_contiguous g hcont)
  · rw [hids]; exact setAam_aam g

/-- samples of `generate` come from `buildGraphs` results of some core -/
theorem generate_mem (cfg : Config) (fuel : Nat) (aam : Bool) : ∀ (cores : List Graph) (xs : List Graph),
    generate cfg fuel aam cores = .ok xs → ∀ x ∈ xs, ∃ core ∈ cores, ∃ gs, buildGraphs cfg fuel core = .ok gs ∧
      ∃ g ∈ gs, x = finish aam g := by
  intro cores
  induction cores with
  | nil => intro xs h x hx; simp [generate] at h; subst h; simp at hx
  | cons core rest ih =>
    intro xs h x hx
    simp only [generate, bind, Except.bind] at h
    cases hb : buildGraphs cfg fuel core with
    | error e => rw [hb] at h; simp at h
    | ok gs =>
      rw [hb] at h
      cases hr : generate cfg fuel aam rest with
      | error e => rw [hr] at h; simp at h
      | ok more =>
        rw [hr] at h
        simp only [pure, Except.pure, Except.ok.injEq] at h
        subst h
        rcases List.mem_append.mp hx with hx | hx
        · rcases List.mem_map.mp hx with ⟨g, hg, rfl⟩
          exact ⟨core, List.mem_cons_self, gs, hb, g, hg, rfl⟩
        · rcases ih more hr x hx with ⟨c, hc, gs', hgs', g, hg, hxg⟩
          exact ⟨c, List.mem_cons_of_mem _ hc, gs', hgs', g, hg, hxg⟩

end Glue

/-- **balanced and mapped**: every reaction a reaction proxy yields has, on both sides, the nodes
    of the expanded pattern (same ids in the same order), the same symbols, and the complete atom
    map `aam = id + 1`. -/
theorem balanced_mapped (cfg : Config) (fuel : Nat) (cores : List Graph) (xs : List Graph)
    (hcfg : cfgOk cfg = true) (hcores : ∀ c ∈ cores, closedB c = true ∧ contiguous c = true)
    (h : generate cfg fuel true cores = .ok xs) :
    ∀ x ∈ xs, balancedMappedB x (reaction x).1 (reaction x).2 = true := by
  intro x hx
  obtain ⟨core, hc, gs, hgs, g, hg, rfl⟩ := Glue.generate_mem cfg fuel true cores xs h x hx
  have hinv := C14.contiguous_ids cfg fuel core gs hcfg (hcores core hc) hgs g hg
  obtain ⟨h1, h2, h3⟩ := Glue.finish_ok g hinv.2 hinv.1
  exact balanced_mapped_of _ h1 h2 h3

/-- the documented numbers of Diels-Alder samples, by the counting formula on the generated tables -/
theorem da_counts : totalExpRef daPos daPosCores = 10470 ∧ totalExpRef daNeg daNegCores = 12875 :=
  ⟨da_count_pos, da_count_neg⟩

end C15
