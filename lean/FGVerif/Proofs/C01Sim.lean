import FGVerif.Proofs.C01Events
import FGVerif.Proofs.C01Graph
/-!
  C01, layer 4 — the parser machine (`step` / `run` of Model/C01.lean, which works on a networkx
  graph and reads atom symbols back from it) simulates the abstract machine of layer 3
  token by token: `run_sim`.
-/
namespace C01

/-! ### facts about `Graph.addNode` / `Graph.addEdge` (only the node list matters here) -/

theorem addNode_nodes_fresh (g : Graph) (n : Int) (a : NodeAttr) (h : g.hasNode n = false) :
    (g.addNode n a).nodes = g.nodes ++ [(n, a)] := by
  simp [Graph.addNode, h]

theorem addEdge_nodes (g : Graph) (u v : Int) (l : Label) (hu : g.hasNode u = true) (hv : g.hasNode v = true) :
    (g.addEdge u v l).nodes = g.nodes := by
  simp [Graph.addEdge, hu, hv]

theorem addEdge_multi (g : Graph) (u v : Int) (l : Label) (hu : g.hasNode u = true) (hv : g.hasNode v = true) :
    (g.addEdge u v l).multi = g.multi := by
  simp [Graph.addEdge, hu, hv]

theorem addNode_multi (g : Graph) (n : Int) (a : NodeAttr) : (g.addNode n a).multi = g.multi := by
  simp only [Graph.addNode]; split <;> rfl

theorem hasNode_of_nodes {g g' : Graph} (h : g'.nodes = g.nodes) (x : Int) : g'.hasNode x = g.hasNode x := by
  simp [Graph.hasNode, h]

theorem symbol?_of_nodes {g g' : Graph} (h : g'.nodes = g.nodes) (x : Int) : g'.symbol? x = g.symbol? x := by
  simp [Graph.symbol?, Graph.attr?, h]

theorem count_of_nodes {g g' : Graph} (h : g'.nodes = g.nodes) : g'.numberOfNodes = g.numberOfNodes := by
  simp [Graph.numberOfNodes, h]

theorem find?_none_of_hasNode_false (g : Graph) (n : Int) (h : g.hasNode n = false) :
    g.nodes.find? (fun p => p.1 == n) = none := by
  simp only [Graph.hasNode] at h
  rw [List.find?_eq_none]
  intro p hp
  have := List.any_eq_false.mp h p hp
  simpa using this

theorem hasNode_of_symbol? {g : Graph} {x : Int} {s : String} (h : g.symbol? x = some s) : g.hasNode x = true := by
  simp only [Graph.symbol?, Graph.attr?] at h
  cases hf : g.nodes.find? (fun p => p.1 == x) with
  | none => simp [hf] at h
  | some p =>
    have hm := List.mem_of_find?_eq_some hf
    have hp := List.find?_some hf
    simp only [Graph.hasNode, List.any_eq_true]
    exact ⟨p, hm, hp⟩

theorem hasNode_addNode_fresh (g : Graph) (n : Int) (a : NodeAttr) (h : g.hasNode n = false) (x : Int) :
    (g.addNode n a).hasNode x = (g.hasNode x || x == n) := by
  simp only [Graph.hasNode, addNode_nodes_fresh g n a h, List.any_append, List.any_cons, List.any_nil, Bool.or_false]
  congr 1
  rw [Bool.eq_iff_iff]
  simp only [beq_iff_eq]
  exact eq_comm

theorem symbol?_addNode_other (g : Graph) (n : Int) (a : NodeAttr) (h : g.hasNode n = false) (x : Int) (hx : x ≠ n) :
    (g.addNode n a).symbol? x = g.symbol? x := by
  have hne : (n == x) = false := by simpa using (Ne.symm hx)
  simp [Graph.symbol?, Graph.attr?, addNode_nodes_fresh g n a h, List.find?_append, hne]

theorem symbol?_addNode_self (g : Graph) (n : Int) (a : NodeAttr) (h : g.hasNode n = false) :
    (g.addNode n a).symbol? n = a.symbol := by
  simp [Graph.symbol?, Graph.attr?, addNode_nodes_fresh g n a h, List.find?_append,
    find?_none_of_hasNode_false g n h]

theorem count_addNode_fresh (g : Graph) (n : Int) (a : NodeAttr) (h : g.hasNode n = false) :
    (g.addNode n a).numberOfNodes = g.numberOfNodes + 1 := by
  simp [Graph.numberOfNodes, addNode_nodes_fresh g n a h]

/-! ### the simulation relation -/

/-- node `x` carries a symbol whose case is `low` -/
def SymLow (g : Graph) (x : Int) (low : Bool) : Prop :=
  ∃ s, g.symbol? x = some s ∧ isLowerPy s.toList = low

def encA (off : Int) (x : Nat × Bool) : Int := (x.1 : Int) + off

def encR (off : Int) (T : Table) : List (Str × Int) := T.map fun e => (e.1, (e.2.1 : Int) + off)

/-- `bond_order` / `is_default_bond` while the bond `b` is pending -/
def pending (its : Bool) : Option Bond → Label × Bool
  | none => (liftOrder its (.s 2), true)
  | some (.sym c) => (liftOrder its (.s ((bondOrder? c).getD 0)), false)
  | some (.rc g h) => (.p (rcVal g) (rcVal h), false)

structure Sim (cfg : Cfg) (off : Int) (its : Bool) (st : PState) (a : AState) : Prop where
  isIts : st.isIts = its
  graph : st.g = buildGraph its cfg.aam off { multi := cfg.multi } a.out
  count : st.g.numberOfNodes = a.n
  nodes : st.g.nodes = revNodes cfg.aam off a.out
  multi : st.g.multi = cfg.multi
  rows : RowsOK st.g
  edgeIff : ∀ x y, st.g.hasEdge x y = edgeBetween (revEdges its off a.out) x y
  bondLast : cfg.multi = false → ∀ x y, st.g.bond? x y = lastLabel (revEdges its off a.out) x y
  ids : ∀ x, st.g.hasNode x = true → ∃ i : Nat, i < a.n ∧ x = (i : Int) + off
  anchor : st.anchor = a.anchor.map (encA off)
  anchorLow : ∀ x, a.anchor = some x → SymLow st.g (encA off x) x.2
  branches : st.branches = a.branches.map (Option.map (encA off))
  branchesLow : ∀ x, some x ∈ a.branches → SymLow st.g (encA off x) x.2
  rings : st.rings = encR off a.table
  ringsLow : ∀ e ∈ a.table, SymLow st.g ((e.2.1 : Int) + off) e.2.2
  bond : (st.bond, st.isDefault) = pending its a.pend

theorem SymLow.hasNode {g : Graph} {x : Int} {low : Bool} (h : SymLow g x low) : g.hasNode x = true := by
  obtain ⟨s, hs, _⟩ := h
  exact hasNode_of_symbol? hs

theorem SymLow.of_nodes {g g' : Graph} (h : g'.nodes = g.nodes) {x : Int} {low : Bool} (hs : SymLow g x low) :
    SymLow g' x low := by
  obtain ⟨s, h1, h2⟩ := hs
  exact ⟨s, by rw [symbol?_of_nodes h]; exact h1, h2⟩

theorem SymLow.addNode {g : Graph} {n : Int} {a : NodeAttr} (h : g.hasNode n = false) {x : Int} {low : Bool}
    (hs : SymLow g x low) : SymLow (g.addNode n a) x low := by
  have hx : x ≠ n := by
    intro e; subst e
    have := hs.hasNode
    simp [h] at this
  obtain ⟨s, h1, h2⟩ := hs
  exact ⟨s, by rw [symbol?_addNode_other g n a h x hx]; exact h1, h2⟩

theorem lookup_encR (off : Int) (T : Table) (d : Str) :
    (encR off T).lookup d = (T.lookup d).map fun pl => (pl.1 : Int) + off := by
  induction T with
  | nil => rfl
  | cons e T ih =>
    obtain ⟨k, p, l⟩ := e
    simp only [encR, List.map_cons, List.lookup] at ih ⊢
    split <;> simp_all [encR]

theorem filter_encR (off : Int) (T : Table) (d : Str) :
    (encR off T).filter (fun e => e.1 != d) = encR off (T.filter fun e => e.1 != d) := by
  induction T with
  | nil => rfl
  | cons e T ih =>
    obtain ⟨k, p, l⟩ := e
    simp only [encR, List.map_cons, List.filter_cons] at ih ⊢
    split <;> simp_all [encR]

theorem mem_of_lookup {T : Table} {d : Str} {pl : Nat × Bool} (h : T.lookup d = some pl) : (d, pl) ∈ T := by
  induction T with
  | nil => simp [List.lookup] at h
  | cons e T ih =>
    obtain ⟨k, v⟩ := e
    simp only [List.lookup] at h
    split at h
    · rename_i heq
      have : d = k := by simpa using heq
      simp at h; subst this; subst h; simp
    · exact List.mem_cons_of_mem _ (ih h)

/-! ### `bondTo`: promotion + edge + reset, in terms of the pending written bond -/

theorem liftOrder_ne_zero (its : Bool) (o : Int) (h : o ≠ 0) : (liftOrder its (.s o) != .s 0) = true := by
  cases its <;> simp [liftOrder, h]

theorem bondTo_spec (its : Bool) (pend : Option Bond) (g : Graph) (anc : Option Int) (B : List (Option Int))
    (R : List (Str × Int)) (bd : Label) (isD : Bool) (h : (bd, isD) = pending its pend)
    (u v : Int) (lowU lowV : Bool) :
    bondTo ⟨g, anc, B, R, bd, isD, its⟩ u v lowU lowV =
      ⟨(match labelOf its (lowU && lowV) pend with
        | some l => g.addEdge u v l
        | none => g), anc, B, R, liftOrder its (.s 2), true, its⟩ := by
  cases pend with
  | none =>
    simp only [pending, Prod.mk.injEq] at h
    obtain ⟨rfl, rfl⟩ := h
    cases hl : (lowU && lowV)
    · have : (lowU && lowV) = false := hl
      have h2 := liftOrder_ne_zero its 2 (by decide)
      simp only [bondTo, labelOf, Bool.true_and]
      rw [show (lowU && lowV) = false from hl]
      simp only [Bool.false_eq_true, if_false, h2, if_true, setBond]
    · have h3 := liftOrder_ne_zero its 3 (by decide)
      simp only [bondTo, labelOf, Bool.true_and]
      rw [show (lowU && lowV) = true from hl]
      simp only [if_true, setBond, h3]
  | some b =>
    cases b with
    | sym c =>
      simp only [pending, Prod.mk.injEq] at h
      obtain ⟨rfl, rfl⟩ := h
      cases ho : bondOrder? c with
      | none =>
        have : (liftOrder its (.s 0) != .s 0) = false := by cases its <;> simp [liftOrder]
        simp [bondTo, labelOf, ho, setBond, this]
      | some o =>
        by_cases hz : o = 0
        · subst hz
          have : (liftOrder its (.s 0) != .s 0) = false := by cases its <;> simp [liftOrder]
          simp [bondTo, labelOf, ho, setBond, this]
        · have := liftOrder_ne_zero its o hz
          simp [bondTo, labelOf, ho, setBond, this, hz]
    | rc gg hh =>
      simp only [pending, Prod.mk.injEq] at h
      obtain ⟨rfl, rfl⟩ := h
      simp [bondTo, labelOf, setBond]

/-! ### one token -/

theorem revNodes_append (aam : Bool) (off : Int) (o1 o2 : List REv) :
    revNodes aam off (o1 ++ o2) = revNodes aam off o1 ++ revNodes aam off o2 := by
  induction o1 with
  | nil => rfl
  | cons e o1 ih => cases e <;> simp [revNodes, ih]

theorem buildGraph_snoc (its aam : Bool) (off : Int) (g : Graph) (out : List REv) (e : REv) :
    buildGraph its aam off g (out ++ [e]) = applyREv its aam off (buildGraph its aam off g out) e := by
  simp [buildGraph, List.foldl_append]

theorem buildGraph_snoc2 (its aam : Bool) (off : Int) (g : Graph) (out : List REv) (e1 e2 : REv) :
    buildGraph its aam off g (out ++ [e1, e2]) =
      applyREv its aam off (applyREv its aam off (buildGraph its aam off g out) e1) e2 := by
  simp [buildGraph, List.foldl_append]

/-- the graph after an (optional) edge between two existing nodes has the same node list -/
theorem edge_nodes (its : Bool) (g : Graph) (u v : Int) (low : Bool) (pend : Option Bond)
    (hu : g.hasNode u = true) (hv : g.hasNode v = true) :
    (match labelOf its low pend with
      | some l => g.addEdge u v l
      | none => g).nodes = g.nodes := by
  cases labelOf its low pend with
  | none => rfl
  | some l => exact addEdge_nodes g u v l hu hv

theorem revEdges_append (its : Bool) (off : Int) (o1 o2 : List REv) :
    revEdges its off (o1 ++ o2) = revEdges its off o1 ++ revEdges its off o2 := by
  induction o1 with
  | nil => rfl
  | cons e o1 ih =>
    cases e with
    | node i a => simp [revEdges, ih]
    | edge u v low b =>
      simp only [List.cons_append, revEdges, ih]
      cases labelOf its low b <;> simp

theorem revEdges_edge (its : Bool) (off : Int) (u v : Nat) (low : Bool) (b : Option Bond) :
    revEdges its off [.edge u v low b] =
      (match labelOf its low b with
        | some l => [((u : Int) + off, (v : Int) + off, l)]
        | none => []) := by
  simp only [revEdges]
  cases labelOf its low b <;> rfl

theorem edge_multi (its : Bool) (g : Graph) (u v : Int) (low : Bool) (pend : Option Bond)
    (hu : g.hasNode u = true) (hv : g.hasNode v = true) :
    (match labelOf its low pend with
      | some l => g.addEdge u v l
      | none => g).multi = g.multi := by
  cases labelOf its low pend with
  | none => rfl
  | some l => exact addEdge_multi g u v l hu hv

theorem step_atom (cfg : Cfg) (off : Int) (its : Bool) (st : PState) (a : AState) (x : AtomTok)
    (h : Sim cfg off its st a) :
    ∃ st', addNodeStep cfg st x.sym x.labelList x.isLabeled ((st.g.numberOfNodes : Int) + off) = .ok st' ∧
      Sim cfg off its st' (aAtom a x) := by
  obtain ⟨g, anc, B, R, bd, isD, its'⟩ := st
  have hits : its = its' := h.isIts.symm
  subst hits
  have hcount : g.numberOfNodes = a.n := h.count
  have hfresh : g.hasNode ((a.n : Int) + off) = false := by
    cases hh : g.hasNode ((a.n : Int) + off) with
    | false => rfl
    | true =>
      obtain ⟨i, hi, he⟩ := h.ids _ hh
      omega
  have hattr : ({ symbol := some (String.ofList x.sym), labels := some (x.labelList.map String.ofList),
                  isLabeled := some x.isLabeled,
                  aam := if cfg.aam then some ((a.n : Int) + off + 1) else none } : NodeAttr) =
      nodeAttr cfg.aam off a.n x := rfl
  have hsymNew : SymLow (g.addNode ((a.n : Int) + off) (nodeAttr cfg.aam off a.n x)) ((a.n : Int) + off) x.low :=
    ⟨String.ofList x.sym, by rw [symbol?_addNode_self _ _ _ hfresh]; rfl, by simp [AtomTok.low]⟩
  have hids1 : ∀ y, (g.addNode ((a.n : Int) + off) (nodeAttr cfg.aam off a.n x)).hasNode y = true →
      ∃ i : Nat, i < a.n + 1 ∧ y = (i : Int) + off := by
    intro y hy
    rw [hasNode_addNode_fresh _ _ _ hfresh] at hy
    rcases Bool.or_eq_true _ _ |>.mp hy with hy | hy
    · obtain ⟨i, hi, he⟩ := h.ids y hy
      exact ⟨i, by omega, he⟩
    · exact ⟨a.n, by omega, by simpa using hy⟩
  simp only [addNodeStep, linkNew, hcount, hattr]
  cases hanc : a.anchor with
  | none =>
    have : anc = none := by simpa [hanc] using h.anchor
    subst this
    refine ⟨_, rfl, ?_⟩
    simp only [aAtom, hanc]
    exact {
      isIts := rfl
      graph := by
        simp only [buildGraph_snoc, applyREv]
        rw [← h.graph]
      count := by simp only []; rw [count_addNode_fresh _ _ _ hfresh, hcount]
      nodes := by
        simp only [revNodes_append, revNodes]
        rw [← h.nodes]
        exact addNode_nodes_fresh _ _ _ hfresh
      multi := by simp only []; rw [addNode_multi]; exact h.multi
      rows := h.rows.addNode _ _ hfresh
      edgeIff := by
        intro x' y'
        simp only [revEdges_append, revEdges, List.append_nil]
        rw [hasEdge_addNode_fresh _ _ _ hfresh]; exact h.edgeIff x' y'
      bondLast := by
        intro hm x' y'
        simp only [revEdges_append, revEdges, List.append_nil]
        rw [bond?_addNode_fresh _ _ _ hfresh]; exact h.bondLast hm x' y'
      ids := hids1
      anchor := by simp [encA]
      anchorLow := by
        intro y hy
        simp only [Option.some.injEq] at hy
        subst hy
        exact hsymNew
      branches := h.branches
      branchesLow := fun y hy => (h.branchesLow y hy).addNode hfresh
      rings := h.rings
      ringsLow := fun e he => (h.ringsLow e he).addNode hfresh
      bond := h.bond }
  | some pl =>
    obtain ⟨p, lowP⟩ := pl
    have hanc' : anc = some ((p : Int) + off) := by simpa [hanc, encA] using h.anchor
    subst hanc'
    have hlowP : SymLow g ((p : Int) + off) lowP := by simpa [encA] using h.anchorLow (p, lowP) hanc
    have hlowP1 := hlowP.addNode (n := (a.n : Int) + off) (a := nodeAttr cfg.aam off a.n x) hfresh
    obtain ⟨asym, hasym, hlow⟩ := hlowP1
    simp only [hasym, hlow]
    refine ⟨_, rfl, ?_⟩
    have hb : (bd, isD) = pending its a.pend := h.bond
    rw [bondTo_spec its a.pend _ _ _ _ bd isD hb]
    have hu : (g.addNode ((a.n : Int) + off) (nodeAttr cfg.aam off a.n x)).hasNode ((p : Int) + off) = true :=
      hasNode_of_symbol? hasym
    have hv : (g.addNode ((a.n : Int) + off) (nodeAttr cfg.aam off a.n x)).hasNode ((a.n : Int) + off) = true :=
      hsymNew.hasNode
    have hnodes := edge_nodes its _ _ _ (lowP && isLowerPy x.sym) a.pend hu hv
    have habs := edge_abs (g.addNode ((a.n : Int) + off) (nodeAttr cfg.aam off a.n x)) ((p : Int) + off) ((a.n : Int) + off)
      (labelOf its (lowP && isLowerPy x.sym) a.pend) (revEdges its off a.out) hu hv (h.rows.addNode _ _ hfresh)
      (by intro x' y'; rw [hasEdge_addNode_fresh _ _ _ hfresh]; exact h.edgeIff x' y')
    have hrev : revEdges its off (a.out ++ [REv.node a.n x, REv.edge p a.n (lowP && x.low) a.pend]) =
        revEdges its off a.out ++ (match labelOf its (lowP && isLowerPy x.sym) a.pend with
          | some l => [((p : Int) + off, (a.n : Int) + off, l)]
          | none => []) := by
      rw [revEdges_append]
      congr 1
    simp only [aAtom, hanc]
    exact {
      isIts := rfl
      graph := by
        simp only [buildGraph_snoc2, applyREv]
        rw [← h.graph]
        rfl
      count := by
        simp only []
        rw [count_of_nodes hnodes, count_addNode_fresh _ _ _ hfresh, hcount]
      nodes := by
        simp only [revNodes_append, revNodes, List.append_nil]
        rw [← h.nodes, hnodes]
        exact addNode_nodes_fresh _ _ _ hfresh
      multi := by
        simp only []
        rw [edge_multi its _ _ _ _ a.pend hu hv, addNode_multi]; exact h.multi
      rows := habs.1
      edgeIff := by
        intro x' y'
        simp only []
        rw [hrev]; exact habs.2.1 x' y'
      bondLast := by
        intro hm x' y'
        simp only []
        rw [hrev]
        exact habs.2.2 (by rw [addNode_multi, h.multi]; exact hm)
          (by intro x2 y2; rw [bond?_addNode_fresh _ _ _ hfresh]; exact h.bondLast hm x2 y2) x' y'
      ids := by
        intro y hy
        simp only [] at hy
        rw [hasNode_of_nodes hnodes] at hy
        exact hids1 y hy
      anchor := by simp [encA]
      anchorLow := by
        intro y hy
        simp only [Option.some.injEq] at hy
        subst hy
        exact hsymNew.of_nodes hnodes
      branches := h.branches
      branchesLow := fun y hy => ((h.branchesLow y hy).addNode hfresh).of_nodes hnodes
      rings := h.rings
      ringsLow := fun e he => ((h.ringsLow e he).addNode hfresh).of_nodes hnodes
      bond := rfl }

theorem step_sim (cfg : Cfg) (off : Int) (its : Bool) (st : PState) (a a' : AState) (t : Token)
    (h : Sim cfg off its st a) (ha : astep a t = some a') :
    ∃ st', step cfg off st t = .ok st' ∧ Sim cfg off its st' a' := by
  cases t with
  | atom s =>
    simp only [astep, Option.some.injEq] at ha; subst ha
    exact step_atom cfg off its st a (.elem s) h
  | wild =>
    simp only [astep, Option.some.injEq] at ha; subst ha
    exact step_atom cfg off its st a .wild h
  | label body =>
    simp only [astep, Option.some.injEq] at ha; subst ha
    exact step_atom cfg off its st a (.labels (splitComma body)) h
  | mismatch c => simp [astep] at ha
  | bond s =>
    match s, ha with
    | [c], ha =>
      simp only [astep] at ha
      split at ha
      · rename_i hc
        simp only [Option.some.injEq] at ha; subst ha
        obtain ⟨o, ho⟩ := Option.isSome_iff_exists.mp hc
        have ho' : bondTable.lookup [c] = some o := ho
        refine ⟨setBond st (.s o) false, by simp [step, ho'], ?_⟩
        exact { h with
          isIts := h.isIts
          bond := by simp [setBond, pending, ho, h.isIts] }
      · simp at ha
    | [], ha => simp [astep] at ha
    | _ :: _ :: _, ha => simp [astep] at ha
  | rc gg hh =>
    simp only [astep, Option.some.injEq] at ha; subst ha
    refine ⟨setBond st (.p (rcVal gg) (rcVal hh)) false, rfl, ?_⟩
    exact { h with
      isIts := h.isIts
      bond := by simp [setBond, pending, liftOrder] }
  | bstart =>
    simp only [astep, Option.some.injEq] at ha; subst ha
    refine ⟨{ st with branches := st.anchor :: st.branches }, rfl, ?_⟩
    exact { h with
      branches := by simp [h.anchor, h.branches]
      branchesLow := by
        intro y hy
        simp only [List.mem_cons] at hy
        rcases hy with hy | hy
        · exact h.anchorLow y hy.symm
        · exact h.branchesLow y hy }
  | bend =>
    simp only [astep] at ha
    cases hb : a.branches with
    | nil => simp [hb] at ha
    | cons x r =>
      simp only [hb, Option.some.injEq] at ha; subst ha
      have hbr : st.branches = x.map (encA off) :: r.map (Option.map (encA off)) := by
        simpa [hb] using h.branches
      refine ⟨{ st with anchor := x.map (encA off), branches := r.map (Option.map (encA off)) }, by simp [step, hbr], ?_⟩
      exact { h with
        anchor := rfl
        anchorLow := by
          intro y hy
          simp only [] at hy
          exact h.branchesLow y (by rw [hb, ← hy]; simp)
        branches := rfl
        branchesLow := by
          intro y hy
          exact h.branchesLow y (by rw [hb]; exact List.mem_cons_of_mem _ hy) }
  | ring d =>
    simp only [astep] at ha
    cases hanc : a.anchor with
    | none => simp [hanc] at ha
    | some ul =>
      obtain ⟨u, lowU⟩ := ul
      obtain ⟨g, anc, B, R, bd, isD, its'⟩ := st
      have hits : its = its' := h.isIts.symm
      subst hits
      have hanc' : anc = some ((u : Int) + off) := by simpa [hanc, encA] using h.anchor
      subst hanc'
      have hR : R = encR off a.table := h.rings
      subst hR
      have hlowU : SymLow g ((u : Int) + off) lowU := by simpa [encA] using h.anchorLow (u, lowU) hanc
      simp only [hanc] at ha
      cases hl : a.table.lookup d with
      | none =>
        simp only [hl, Option.some.injEq] at ha; subst ha
        have hstep : step cfg off ⟨g, some ((u : Int) + off), B, encR off a.table, bd, isD, its⟩ (.ring d) =
            .ok ⟨g, some ((u : Int) + off), B, encR off a.table ++ [(d, (u : Int) + off)], bd, isD, its⟩ := by
          simp [step, ringStep, lookup_encR, hl]
        refine ⟨_, hstep, ?_⟩
        exact {
          isIts := rfl
          graph := h.graph
          count := h.count
          nodes := h.nodes
          multi := h.multi
          rows := h.rows
          edgeIff := h.edgeIff
          bondLast := h.bondLast
          ids := h.ids
          anchor := by simp [encA]
          anchorLow := by
            intro y hy
            exact h.anchorLow y (by rw [hanc]; exact hy)
          branches := h.branches
          branchesLow := h.branchesLow
          rings := by simp [encR]
          ringsLow := by
            intro e he
            simp only [List.mem_append, List.mem_singleton] at he
            rcases he with he | he
            · exact h.ringsLow e he
            · subst he; exact hlowU
          bond := h.bond }
      | some pl =>
        obtain ⟨p, lowP⟩ := pl
        simp only [hl, Option.some.injEq] at ha; subst ha
        have hlowP : SymLow g ((p : Int) + off) lowP := h.ringsLow (d, p, lowP) (mem_of_lookup hl)
        obtain ⟨asym, hasym, hal⟩ := hlowU
        obtain ⟨rsym, hrsym, hrl⟩ := hlowP
        have hb : (bd, isD) = pending its a.pend := h.bond
        have hnodes := edge_nodes its g ((u : Int) + off) ((p : Int) + off) (lowU && lowP) a.pend
          (hasNode_of_symbol? hasym) (hasNode_of_symbol? hrsym)
        have hstep : step cfg off ⟨g, some ((u : Int) + off), B, encR off a.table, bd, isD, its⟩ (.ring d) =
            .ok ⟨(match labelOf its (lowU && lowP) a.pend with
                  | some l => g.addEdge ((u : Int) + off) ((p : Int) + off) l
                  | none => g), some ((u : Int) + off), B, (encR off a.table).filter (fun e => e.1 != d),
                 liftOrder its (.s 2), true, its⟩ := by
          simp only [step, ringStep, lookup_encR, hl, Option.map_some, hasym, hrsym, hal, hrl]
          rw [bondTo_spec its a.pend _ _ _ _ bd isD hb]
        have habs := edge_abs g ((u : Int) + off) ((p : Int) + off) (labelOf its (lowU && lowP) a.pend)
          (revEdges its off a.out) (hasNode_of_symbol? hasym) (hasNode_of_symbol? hrsym) h.rows h.edgeIff
        have hrev : revEdges its off (a.out ++ [REv.edge u p (lowU && lowP) a.pend]) =
            revEdges its off a.out ++ (match labelOf its (lowU && lowP) a.pend with
              | some l => [((u : Int) + off, (p : Int) + off, l)]
              | none => []) := by
          rw [revEdges_append, revEdges_edge]
        refine ⟨_, hstep, ?_⟩
        exact {
          isIts := rfl
          graph := by
            simp only [buildGraph_snoc, applyREv]
            rw [← h.graph]
            rfl
          rows := habs.1
          edgeIff := by
            intro x' y'
            simp only []
            rw [hrev]; exact habs.2.1 x' y'
          bondLast := by
            intro hm x' y'
            simp only []
            rw [hrev]
            exact habs.2.2 (by rw [h.multi]; exact hm) (h.bondLast hm) x' y'
          count := by simp only []; rw [count_of_nodes hnodes]; exact h.count
          nodes := by
            simp only [revNodes_append, revNodes, List.append_nil]
            rw [← h.nodes]; exact hnodes
          multi := by
            simp only []
            rw [edge_multi its g _ _ _ a.pend (hasNode_of_symbol? hasym) (hasNode_of_symbol? hrsym)]; exact h.multi
          ids := by
            intro y hy
            simp only [] at hy
            rw [hasNode_of_nodes hnodes] at hy
            exact h.ids y hy
          anchor := by simp [hanc, encA]
          anchorLow := by
            intro y hy
            simp only [] at hy
            exact (h.anchorLow y (by rw [hanc]; exact hy)).of_nodes hnodes
          branches := h.branches
          branchesLow := fun y hy => (h.branchesLow y hy).of_nodes hnodes
          rings := by simp only []; exact filter_encR off a.table d
          ringsLow := by
            intro e he
            simp only [] at he
            exact (h.ringsLow e (List.mem_filter.mp he).1).of_nodes hnodes
          bond := rfl }

/-- **the parser machine follows the abstract machine** -/
theorem run_sim (cfg : Cfg) (off : Int) (its : Bool) (ts : List Token) :
    ∀ (st : PState) (a a' : AState), Sim cfg off its st a → arun a ts = some a' →
      ∃ st', run cfg off st ts = .ok st' ∧ Sim cfg off its st' a' := by
  induction ts with
  | nil =>
    intro st a a' h ha
    simp only [arun, Option.some.injEq] at ha; subst ha
    exact ⟨st, rfl, h⟩
  | cons t ts ih =>
    intro st a a' h ha
    simp only [arun] at ha
    cases h1 : astep a t with
    | none => simp [h1] at ha
    | some a1 =>
      simp only [h1] at ha
      obtain ⟨st1, hs1, hsim1⟩ := step_sim cfg off its st a a1 t h h1
      obtain ⟨st', hs', hsim'⟩ := ih st1 a1 a' hsim1 ha
      exact ⟨st', by simp [run, hs1, hs'], hsim'⟩

end C01
