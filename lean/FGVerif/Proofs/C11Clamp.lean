import FGVerif.Proofs.C11Unreach
import FGVerif.Proofs.C11Prune
/-!
  C11 — the clamping loop of `get_unreachable_nodes` (repair 5e2d069:
  `D = (np.matmul(D, A) > 0).astype(A.dtype)`) and the walk-counting loop return the same answer.

  * `Reach.cpow_pos_iff`, `Reach.cpowsum_pos_iff`   the clamped powers / their sum have the zero pattern
                                                  of `A^k` / `Σ_{k≤r} A^k`
  * `Reach.cpowsum_le`                             every entry of the clamped sum is `≤ r + 1`
                                                  (so the code's int64 numbers cannot wrap)
  * `Reach.powSumMatC_entry_zero_iff`              the same for the executable matrices, any row index
  * `C11.getUnreachableClamped_eq`                 `getUnreachableClamped g S r = getUnreachable g S r`
                                                  for EVERY graph, start list and radius
  * `C11.pruneItsToRcClamped_eq`                   hence the same pruned graph
  * `C11.unreachable_exact_clamped` (and `C11.prune_exact_clamped` in `Proofs/C11.lean`)   the property
                                                  theorems, restated for the functions the driver evaluates

  Core Lean only.
-/
namespace Reach

/-- `(A^k > 0)` computed the way the code does: clamp after every multiplication -/
def cpow (n : Nat) (A : Nat → Nat → Nat) : Nat → Nat → Nat → Nat
  | 0 => ident
  | k + 1 => fun i j => if 0 < mul n (cpow n A k) A i j then 1 else 0

/-- `I + Σ_{1≤k≤r} (clamped power k)` -/
def cpowsum (n : Nat) (A : Nat → Nat → Nat) : Nat → Nat → Nat → Nat
  | 0 => ident
  | r + 1 => fun i j => cpowsum n A r i j + cpow n A (r + 1) i j

theorem cpow_pos_iff (n : Nat) (A : Nat → Nat → Nat) (k : Nat) :
    ∀ i j, 0 < cpow n A k i j ↔ 0 < pow n A k i j := by
  induction k with
  | zero => intro i j; exact Iff.rfl
  | succ k ih =>
    intro i j
    have hmul : 0 < mul n (cpow n A k) A i j ↔ 0 < mul n (pow n A k) A i j := by
      simp only [mul, sumTo_pos_iff]
      constructor
      · rintro ⟨m, hm, hp⟩
        exact ⟨m, hm, Nat.mul_pos ((ih i m).mp (Nat.pos_of_mul_pos_right hp)) (Nat.pos_of_mul_pos_left hp)⟩
      · rintro ⟨m, hm, hp⟩
        exact ⟨m, hm, Nat.mul_pos ((ih i m).mpr (Nat.pos_of_mul_pos_right hp)) (Nat.pos_of_mul_pos_left hp)⟩
    show 0 < (if 0 < mul n (cpow n A k) A i j then 1 else 0) ↔ 0 < mul n (pow n A k) A i j
    rw [← hmul]
    by_cases h : 0 < mul n (cpow n A k) A i j
    · simp [h]
    · simp [h]

theorem cpow_le_one (n : Nat) (A : Nat → Nat → Nat) (k : Nat) (i j : Nat) : cpow n A k i j ≤ 1 := by
  cases k with
  | zero => simp only [cpow, ident]; split <;> omega
  | succ k => simp only [cpow]; split <;> omega

theorem cpowsum_pos_iff (n : Nat) (A : Nat → Nat → Nat) (r : Nat) :
    ∀ i j, 0 < cpowsum n A r i j ↔ 0 < powsum n A r i j := by
  induction r with
  | zero => intro i j; exact Iff.rfl
  | succ r ih =>
    intro i j
    have h1 := ih i j
    have h2 := cpow_pos_iff n A (r + 1) i j
    simp only [cpowsum, powsum]
    omega

/-- the numbers the repaired code adds up stay tiny: no int64 can wrap -/
theorem cpowsum_le (n : Nat) (A : Nat → Nat → Nat) (r : Nat) (i j : Nat) : cpowsum n A r i j ≤ r + 1 := by
  induction r with
  | zero => simp only [cpowsum, ident]; split <;> omega
  | succ r ih =>
    have := cpow_le_one n A (r + 1) i j
    simp only [cpowsum]
    omega

theorem represents_clampMat {n : Nat} {D : Mat} {d : Nat → Nat → Nat} (hD : Represents n D d) :
    Represents n (clampMat n D) (fun i j => if 0 < d i j then 1 else 0) := by
  intro i j hi hj
  simp only [clampMat, entry_tab n _ hi hj, hD i j hi hj]

/-- loop invariant of `for _ in range(r): D = (D·A > 0); D_sum += D` -/
theorem powLoopC_represents {n : Nat} {A : Mat} {a : Nat → Nat → Nat} (hA : Represents n A a) :
    ∀ (r k : Nat) (D S : Mat), Represents n D (cpow n a k) → Represents n S (cpowsum n a k) →
      Represents n (powLoopC n A r (D, S)).2 (cpowsum n a (k + r)) := by
  intro r
  induction r with
  | zero => intro k D S _ hS; exact hS
  | succ r ih =>
    intro k D S hD hS
    simp only [powLoopC]
    have hD' : Represents n (clampMat n (matMul n D A)) (cpow n a (k + 1)) :=
      represents_clampMat (represents_matMul hD hA)
    have hS' : Represents n (matAdd n S (clampMat n (matMul n D A))) (cpowsum n a (k + 1)) :=
      represents_matAdd hS hD'
    have := ih (k + 1) _ _ hD' hS'
    have e : k + 1 + r = k + (r + 1) := by omega
    rw [e] at this
    exact this

theorem powSumMatC_entry {n : Nat} {A : Mat} {a : Nat → Nat → Nat} (hA : Represents n A a) (r : Nat)
    {i j : Nat} (hi : i < n) (hj : j < n) : entry (powSumMatC n A r) i j = cpowsum n a r i j := by
  have := powLoopC_represents hA r 0 (identity n) (identity n) (represents_identity n) (represents_identity n)
  simp only [Nat.zero_add] at this
  exact this i j hi hj

theorem powLoopC_snd_tab (n : Nat) (A : Mat) : ∀ (r : Nat) (D S : Mat), (∃ f, S = tab n f) →
    ∃ f, (powLoopC n A r (D, S)).2 = tab n f := by
  intro r
  induction r with
  | zero => intro D S h; exact h
  | succ r ih => intro D S _; simp only [powLoopC]; exact ih _ _ ⟨_, rfl⟩

theorem powSumMatC_entry_oob (n : Nat) (A : Mat) (r : Nat) {i : Nat} (j : Nat) (hi : n ≤ i) :
    entry (powSumMatC n A r) i j = 0 := by
  obtain ⟨f, hf⟩ := powLoopC_snd_tab n A r (identity n) (identity n) ⟨_, rfl⟩
  simp only [powSumMatC, hf]
  exact entry_tab_row_oob n f j hi

/-- the clamped sum and the counting sum vanish at the same places (any row index, columns `< n`) -/
theorem powSumMatC_entry_zero_iff {n : Nat} {A : Mat} {a : Nat → Nat → Nat} (hA : Represents n A a) (r : Nat)
    (i : Nat) {j : Nat} (hj : j < n) :
    entry (powSumMatC n A r) i j = 0 ↔ entry (powSumMat n A r) i j = 0 := by
  by_cases hi : i < n
  · rw [powSumMatC_entry hA r hi hj, powSumMat_entry hA r hi hj]
    have := cpowsum_pos_iff n a r i j
    omega
  · have hi' : n ≤ i := Nat.le_of_not_lt hi
    rw [powSumMatC_entry_oob n A r j hi', powSumMat_entry_oob n A r j hi']

end Reach

namespace C11
open Reach

/-- **C11.getUnreachableClamped_eq** — for every graph, start list and radius the loop that clamps
    every power to 0/1 (the code since 5e2d069) and the loop that counts walks in unbounded naturals
    report the same list of nodes. -/
theorem getUnreachableClamped_eq (g : Graph) (S : List Int) (r : Nat) :
    getUnreachableClamped g S r = getUnreachable g S r := by
  simp only [getUnreachableClamped, getUnreachable]
  congr 1
  apply List.filter_congr
  intro j hj
  have hj' : j < (sortedIds g).length := List.mem_range.mp hj
  have hA := adjMatrix_represents g (sortedIds g)
  have key : colSum (powSumMatC (sortedIds g).length (adjMatrix g (sortedIds g)) r)
        (S.map fun s => (sortedIds g).idxOf s) j = 0 ↔
      colSum (powSumMat (sortedIds g).length (adjMatrix g (sortedIds g)) r)
        (S.map fun s => (sortedIds g).idxOf s) j = 0 := by
    rw [colSum_eq_zero_iff, colSum_eq_zero_iff]
    constructor
    · intro h i hi; exact (powSumMatC_entry_zero_iff hA r i hj').mp (h i hi)
    · intro h i hi; exact (powSumMatC_entry_zero_iff hA r i hj').mpr (h i hi)
  rw [Bool.eq_iff_iff, beq_iff_eq, beq_iff_eq]
  exact key

/-- **C11.pruneItsToRcClamped_eq** — hence `prune_its_to_rc` on top of either loop gives the same graph -/
theorem pruneItsToRcClamped_eq (its : Graph) (r : Nat) (insertH : Bool) :
    pruneItsToRcClamped its r insertH = pruneItsToRc its r insertH := by
  simp only [pruneItsToRcClamped, pruneItsToRc, getUnreachableClamped_eq]

/-- **C11.unreachable_exact**, for the function the driver evaluates (the code's clamping loop) -/
theorem unreachable_exact_clamped (g : Graph) (hnd : g.nodeIds.Nodup) (S : List Int) (r : Nat) :
    UnreachableSpec g S r (getUnreachableClamped g S r) := by
  rw [getUnreachableClamped_eq]; exact unreachable_exact g hnd S r

/-- a start node is never reported, whatever the radius (clamping loop) -/
theorem start_nodes_never_unreachable_clamped (g : Graph) (hnd : g.nodeIds.Nodup) (S : List Int) (r : Nat)
    (s : Int) (hs : s ∈ S) : s ∉ getUnreachableClamped g S r := by
  rw [getUnreachableClamped_eq]; exact start_nodes_never_unreachable g hnd S r s hs

/-! ### non-vacuity (tests) -/

/-- a chain of three spiro-fused four-rings `0–{1,2}–3–{4,5}–6–{7,8}–9`: 2·2·2 = 8 shortest walks from 0 to 9 -/
def spiro3 : Graph :=
  let e : List (Int × Int) := [(0, 1), (0, 2), (1, 3), (2, 3), (3, 4), (3, 5), (4, 6), (5, 6), (6, 7), (6, 8), (7, 9), (8, 9)]
  e.foldl (fun g p => g.addEdge p.1 p.2 (.s 2))
    ((List.range 10).foldl (fun g i => g.addNode (Int.ofNat i) { symbol := some "C" }) {})

example : getUnreachableClamped spiro3 [0] 5 = [9] ∧ getUnreachable spiro3 [0] 5 = [9] ∧
    getUnreachableClamped spiro3 [0] 6 = [] ∧ getUnreachable spiro3 [0] 6 = [] := by decide +kernel
/-- the counting loop holds 8 where the clamping loop holds 1 -/
example : entry (powLoop 10 (adjMatrix spiro3 (sortedIds spiro3)) 6 (identity 10, identity 10)).1 0 9 = 8 ∧
    entry (powLoopC 10 (adjMatrix spiro3 (sortedIds spiro3)) 6 (identity 10, identity 10)).1 0 9 = 1 := by decide +kernel

end C11
