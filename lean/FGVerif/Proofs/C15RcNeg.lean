import FGVerif.Proofs.C15RcTables
/-!
  C15 reaction centre: table obligations of `DielsAlderProxy(neg_sample=True)`, closed by kernel evaluation
  (`decide +kernel`, no `native_decide`).  Only the configuration tables and the first `daDepth` substitution
  levels of the two core graphs are evaluated (1 + 1 + 7 + 70 graphs), not the 12 875 samples.
-/
namespace C15
open C13 C14

/-- every pattern of the configuration is listed in the parsed table -/
theorem da_neg_listed :
    ((Gen.Parsed.daNegC.all fun g => g.2.2.all fun r => Gen.Parsed.proxyPatternsC.any (·.1 == r.1)) &&
      Gen.Parsed.daNegCoresC.all fun r => Gen.Parsed.proxyPatternsC.any (·.1 == r.1)) = true := by decide +kernel

/-- the safe groups (all but `diene`, `s-cis_diene`, `s-trans_diene`, `dienophile`): no changing bond, closed -/
theorem da_neg_safe : safeCfgB daCfgNeg (safeSet daCfgNeg) = true := by decide +kernel

/-- the hypotheses of the C14 theorems -/
theorem da_neg_hyp : daCoresNeg.all (hypothesesOk daCfgNeg) = true := by decide +kernel

/-- both core graphs have a complete Diels-Alder centre after at most three substitutions, on every branch -/
theorem da_neg_front : daCoresNeg.all (frontierB daCfgNeg (safeSet daCfgNeg) daDepth) = true := by decide +kernel

/-- the core graphs are closed -/
theorem da_neg_closed : daCoresNeg.all closedB = true := by decide +kernel

/-- the counting formula of C14 (proved equal to the number of samples: `C14.total`) on this configuration -/
theorem da_neg_total : totalExp daCfgNeg daCoresNeg = 12875 := by decide +kernel

end C15
