import FGVerif.Model.C12Spec
import FGVerif.Generated.C12
/-!
  C12 — theorems about the model `C12.addImplicitHydrogens` (Model/C12.lean) and the executable
  specification `C12.Spec` / `C12.specCheck` (Model/C12Spec.lean).

  Plan: every intermediate graph of the loop is `extend g new` (the input graph extended by a list
  of (hydrogen, heavy atom) pairs); one `add_node` + `add_edge` appends one pair (`addH_eq`,
  `extend_snoc`), the inner loop appends `hs n k next` (`addHs_extend`), one outer iteration
  appends the prescribed number for its atom because the atom has no hydrogens yet
  (`step_extend`), and the fold over the snapshot keeps the bookkeeping invariant `NewOK` and
  counts per atom (`fold_extend`).  The valence table enters only through `TableOK`, which is
  discharged by `decide` on the regenerated table.
-/
namespace C12

/-- every id occurring in `o` (node ids, adjacency keys, neighbours) is below `b` -/
def Below (o : Graph) (b : Int) : Prop :=
  (∀ x ∈ o.nodes, x.1 < b) ∧ (∀ r ∈ o.adj, r.1 < b ∧ ∀ e ∈ r.2, e.1 < b)

theorem hasNode_iff (g : Graph) (n : Int) : g.hasNode n = true ↔ n ∈ g.nodeIds := by
  simp [Graph.hasNode, Graph.nodeIds]

theorem adjRow_mem {g : Graph} {u : Int} {e} (h : e ∈ g.adjRow u) : ∃ r ∈ g.adj, r.1 = u ∧ e ∈ r.2 := by
  unfold Graph.adjRow at h
  split at h
  · next r hr =>
    have := List.mem_of_find?_eq_some hr
    have h2 := List.find?_some hr
    exact ⟨r, this, by simpa using h2, h⟩
  · simp at h

theorem newKey_nil : Graph.newKey [] = 0 := by decide

/-- adding one hydrogen `next` (an id above everything in `o`) to the node `n` of `o` -/
theorem addH_eq (o : Graph) (n next : Int) (hn : n ∈ o.nodeIds) (hb : Below o next) :
    (o.addNode next hAttr).addEdge n next (.s 2) =
      { multi := o.multi, nodes := o.nodes ++ [(next, hAttr)],
        adj := o.adj.map (fun r => if r.1 == n then (r.1, r.2 ++ [(next, hBond)]) else r)
                ++ [(next, [(n, hBond)])] } := by
  obtain ⟨hb1, hb2⟩ := hb
  have hlt : n < next := by
    simp only [Graph.nodeIds, List.mem_map] at hn
    obtain ⟨x, hx, rfl⟩ := hn
    exact hb1 x hx
  have hne : (n == next) = false := by simp; omega
  have hne' : (next == n) = false := by simp; omega
  have h1 : o.hasNode next = false := by
    simp only [Graph.hasNode, List.any_eq_false]
    intro x hx
    have := hb1 x hx
    simp; omega
  have hn' : o.hasNode n = true := (hasNode_iff o n).2 hn
  -- the graph after add_node
  have e1 : o.addNode next hAttr = { o with nodes := o.nodes ++ [(next, hAttr)], adj := o.adj ++ [(next, [])] } := by
    simp [Graph.addNode, h1]
  rw [e1]
  have h2 : Graph.hasNode { o with nodes := o.nodes ++ [(next, hAttr)], adj := o.adj ++ [(next, [])] } n = true := by
    simp only [Graph.hasNode, List.any_append] ; simp [Graph.hasNode] at hn'; simp [hn']
  have h3 : Graph.hasNode { o with nodes := o.nodes ++ [(next, hAttr)], adj := o.adj ++ [(next, [])] } next = true := by
    simp [Graph.hasNode]
  have h4 : Graph.edgeData { o with nodes := o.nodes ++ [(next, hAttr)], adj := o.adj ++ [(next, [])] } n next = [] := by
    unfold Graph.edgeData
    split
    · next r hr =>
      have hm := List.mem_of_find?_eq_some hr
      have hk := List.find?_some hr
      obtain ⟨row, hrow, _, hin⟩ := adjRow_mem hm
      simp only [List.mem_append, List.mem_singleton] at hrow
      rcases hrow with hrow | rfl
      · have := (hb2 row hrow).2 r hin
        simp at hk; omega
      · simp at hin
    · rfl
  unfold Graph.addEdge
  simp only [h2, h3, h4, if_true, List.map_nil, newKey_nil, ite_self, hne, Bool.false_eq_true, if_false]
  simp only [List.map_append, List.map_map, List.map_cons, List.map_nil]
  simp only [hne', Bool.false_eq_true, if_false, BEq.rfl, if_true]
  congr 2
  · apply List.map_congr_left
    intro r hr
    have hr1 := (hb2 r hr).1
    have hr2 := (hb2 r hr).2
    simp only [Function.comp]
    by_cases hrn : (r.1 == n) = true
    · have : (r.1 == next) = false := by simp; omega
      simp only [hrn, if_true, this, Bool.false_eq_true, if_false]
      have hany : (r.2.any (·.1 == next)) = false := by
        simp only [List.any_eq_false]
        intro e he
        have := hr2 e he
        simp; omega
      simp [Graph.addHalfEdge, hany, hBond]
    · have : (r.1 == next) = false := by simp; omega
      simp [hrn, this]

theorem extend_nil (g : Graph) : extend g [] = g := by
  cases g
  simp [extend, extNodes, extAdj]

/-- the result of `addH_eq` on an extension of `g` is the extension by one more pair -/
theorem extend_snoc (g : Graph) (new : List (Int × Int)) (n next : Int) (hnew : ∀ p ∈ new, p.1 ≠ n) :
    ({ multi := (extend g new).multi, nodes := (extend g new).nodes ++ [(next, hAttr)],
       adj := (extend g new).adj.map (fun r => if r.1 == n then (r.1, r.2 ++ [(next, hBond)]) else r)
                ++ [(next, [(n, hBond)])] } : Graph) = extend g (new ++ [(next, n)]) := by
  simp only [extend, extNodes, extAdj, List.map_append, List.map_map, List.filter_append, List.append_assoc,
    List.map_cons, List.map_nil]
  congr 2
  · apply List.map_congr_left
    intro r _
    simp only [Function.comp]
    by_cases hrn : (r.1 == n) = true
    · have : (n == r.1) = true := by simp at hrn; simp [hrn]
      simp [hrn, this]
    · have : (n == r.1) = false := by
        simp at hrn ⊢; omega
      simp [hrn, this]
  · congr 1
    apply List.map_congr_left
    intro p hp
    have := hnew p hp
    simp [this]

/-- the bookkeeping invariant on the list of (hydrogen, heavy atom) pairs -/
structure NewOK (g : Graph) (new : List (Int × Int)) : Prop where
  distinct : (new.map (·.1)).Nodup
  fresh : ∀ p ∈ new, ∀ n ∈ g.nodeIds, n < p.1
  parent : ∀ p ∈ new, p.2 ∈ g.nodeIds

theorem nodeIds_extend (g : Graph) (new : List (Int × Int)) :
    (extend g new).nodeIds = g.nodeIds ++ new.map (·.1) := by
  simp [extend, extNodes, Graph.nodeIds, Function.comp_def]

theorem below_extend {g : Graph} (hg : WF g) {new : List (Int × Int)} (hp : ∀ p ∈ new, p.2 ∈ g.nodeIds)
    {b : Int} (h1 : ∀ n ∈ g.nodeIds, n < b) (h2 : ∀ p ∈ new, p.1 < b) : Below (extend g new) b := by
  constructor
  · intro x hx
    simp only [extend, extNodes, List.mem_append, List.mem_map] at hx
    rcases hx with hx | ⟨p, hp', rfl⟩
    · exact h1 _ (by simp only [Graph.nodeIds, List.mem_map]; exact ⟨x, hx, rfl⟩)
    · exact h2 p hp'
  · intro r hr
    simp only [extend, extAdj, List.mem_append, List.mem_map] at hr
    rcases hr with ⟨r0, hr0, rfl⟩ | ⟨p, hp', rfl⟩
    · have hk : r0.1 ∈ g.nodeIds := by
        rw [← hg.rows]; exact List.mem_map.2 ⟨r0, hr0, rfl⟩
      refine ⟨h1 _ hk, ?_⟩
      intro e he
      simp only [List.mem_append, List.mem_map, List.mem_filter] at he
      rcases he with he | ⟨p, ⟨hp', _⟩, rfl⟩
      · exact h1 _ (hg.closed r0 hr0 e he)
      · exact h2 p hp'
    · refine ⟨h2 p hp', ?_⟩
      intro e he
      simp only [List.mem_singleton] at he
      subst he
      exact h1 _ (hp p hp')

/-- the pairs the inner loop creates: ids `next, next+1, …`, all bonded to `n` -/
def hs (n : Int) : Nat → Int → List (Int × Int)
  | 0, _ => []
  | k + 1, next => (next, n) :: hs n k (next + 1)

theorem hs_mem {n : Int} : ∀ {k : Nat} {next : Int} {p : Int × Int}, p ∈ hs n k next → p.2 = n ∧ next ≤ p.1
  | 0, _, _, h => by simp [hs] at h
  | k + 1, next, p, h => by
    simp only [hs, List.mem_cons] at h
    rcases h with rfl | h
    · simp
    · have := hs_mem h
      exact ⟨this.1, by omega⟩

theorem hs_length (n : Int) : ∀ (k : Nat) (next : Int), (hs n k next).length = k
  | 0, _ => rfl
  | k + 1, next => by simp [hs, hs_length n k]

theorem hs_nodup (n : Int) : ∀ (k : Nat) (next : Int), ((hs n k next).map (·.1)).Nodup
  | 0, _ => by simp [hs]
  | k + 1, next => by
    simp only [hs, List.map_cons, List.nodup_cons]
    refine ⟨?_, hs_nodup n k (next + 1)⟩
    intro h
    obtain ⟨p, hp, he⟩ := List.mem_map.1 h
    have := (hs_mem hp).2
    omega

theorem addHs_extend {g : Graph} (hg : WF g) {n : Int} (hn : n ∈ g.nodeIds) :
    ∀ (k : Nat) (new : List (Int × Int)) (next : Int), NewOK g new →
      (∀ m ∈ g.nodeIds, m < next) → (∀ p ∈ new, p.1 < next) →
      addHs (extend g new) n k next = extend g (new ++ hs n k next)
  | 0, new, next, _, _, _ => by simp [addHs, hs]
  | k + 1, new, next, hnew, h1, h2 => by
    have hn' : n ∈ (extend g new).nodeIds := by rw [nodeIds_extend]; exact List.mem_append_left _ hn
    have hne : ∀ p ∈ new, p.1 ≠ n := fun p hp => by have := hnew.fresh p hp n hn; omega
    show addHs (((extend g new).addNode next hAttr).addEdge n next (.s 2)) n k (next + 1) = _
    rw [addH_eq (extend g new) n next hn' (below_extend hg hnew.parent h1 h2), extend_snoc g new n next hne]
    have hnew' : NewOK g (new ++ [(next, n)]) := by
      refine ⟨?_, ?_, ?_⟩
      · simp only [List.map_append, List.map_cons, List.map_nil]
        refine List.nodup_append.2 ⟨hnew.distinct, by simp, ?_⟩
        intro a ha b hb
        simp only [List.mem_singleton] at hb
        obtain ⟨p, hp, rfl⟩ := List.mem_map.1 ha
        have := h2 p hp
        omega
      · intro p hp m hm
        simp only [List.mem_append, List.mem_singleton] at hp
        rcases hp with hp | rfl
        · exact hnew.fresh p hp m hm
        · exact h1 m hm
      · intro p hp
        simp only [List.mem_append, List.mem_singleton] at hp
        rcases hp with hp | rfl
        · exact hnew.parent p hp
        · exact hn
    rw [addHs_extend hg hn k (new ++ [(next, n)]) (next + 1) hnew'
      (fun m hm => by have := h1 m hm; omega)
      (fun p hp => by
        simp only [List.mem_append, List.mem_singleton] at hp
        rcases hp with hp | rfl
        · have := h2 p hp; omega
        · show next < next + 1; omega)]
    simp [hs, List.append_assoc]

theorem newOK_append_hs {g : Graph} {new : List (Int × Int)} (hnew : NewOK g new) {n : Int} (hn : n ∈ g.nodeIds)
    (k : Nat) {next : Int} (h1 : ∀ m ∈ g.nodeIds, m < next) (h2 : ∀ p ∈ new, p.1 < next) :
    NewOK g (new ++ hs n k next) := by
  refine ⟨?_, ?_, ?_⟩
  · rw [List.map_append]
    refine List.nodup_append.2 ⟨hnew.distinct, hs_nodup n k next, ?_⟩
    intro a ha b hb
    obtain ⟨p, hp, rfl⟩ := List.mem_map.1 ha
    obtain ⟨q, hq, rfl⟩ := List.mem_map.1 hb
    have := h2 p hp
    have := (hs_mem hq).2
    omega
  · intro p hp m hm
    rcases List.mem_append.1 hp with hp | hp
    · exact hnew.fresh p hp m hm
    · have := (hs_mem hp).2
      have := h1 m hm
      omega
  · intro p hp
    rcases List.mem_append.1 hp with hp | hp
    · exact hnew.parent p hp
    · rw [(hs_mem hp).1]; exact hn

theorem foldl_max_ge (l : List Int) : ∀ init : Int, init ≤ l.foldl max init ∧ ∀ n ∈ l, n ≤ l.foldl max init := by
  induction l with
  | nil => intro init; simp
  | cons a l ih =>
    intro init
    simp only [List.foldl_cons, List.mem_cons]
    have := ih (max init a)
    refine ⟨by omega, ?_⟩
    rintro n (rfl | hn)
    · omega
    · exact this.2 n hn

theorem le_maxId {g : Graph} {n : Int} (h : n ∈ g.nodeIds) : n ≤ g.maxId :=
  (foldl_max_ge g.nodeIds _).2 n h

theorem foldl_add_eq_sum {α : Type} (f : α → Int) (l : List α) :
    ∀ init : Int, l.foldl (fun acc e => acc + f e) init = init + (l.map f).sum := by
  induction l with
  | nil => intro init; simp
  | cons a l ih => intro init; simp only [List.foldl_cons, List.map_cons, List.sum_cons, ih]; omega

theorem bondSum2_eq (g : Graph) (a : Int) : bondSum2 g a = orderSum2 g a := by
  unfold bondSum2 orderSum2 Graph.edgesOf
  rw [foldl_add_eq_sum]
  simp only [Int.zero_add]
  congr 1
  generalize g.adjRow a = row
  induction row with
  | nil => rfl
  | cons r row ih =>
    simp only [List.flatMap_cons, List.map_append, ih, List.map_map]
    congr 1

/-- the adjacency row of an old atom in an extension: the old row, then its hydrogens -/
theorem adjRow_extend (g : Graph) (new : List (Int × Int)) (a : Int) (h1 : ∀ p ∈ new, p.1 ≠ a)
    (ha : a ∈ g.adj.map (·.1)) :
    (extend g new).adjRow a = g.adjRow a ++ (new.filter (·.2 == a)).map fun p => (p.1, hBond) := by
  unfold Graph.adjRow
  simp only [extend, extAdj, List.find?_append, List.find?_map]
  have hf : ((fun x : Int × List (Int × List (Nat × Label)) => x.1 == a) ∘
      fun (r : Int × List (Int × List (Nat × Label))) =>
      (r.1, r.2 ++ (new.filter (fun x => x.2 == r.1)).map fun p => (p.1, hBond))) = fun r => r.1 == a := rfl
  rw [hf]
  cases h : g.adj.find? (fun r => r.1 == a) with
  | some r =>
    have hk := List.find?_some h
    simp only [beq_iff_eq] at hk
    simp [hk]
  | none =>
    exfalso
    obtain ⟨r, hr, rfl⟩ := List.mem_map.1 ha
    have := List.find?_eq_none.1 h r hr
    simp at this

theorem orderSum2_extend (g : Graph) (new : List (Int × Int)) (a : Int) (h1 : ∀ p ∈ new, p.1 ≠ a)
    (ha : a ∈ g.adj.map (·.1)) :
    orderSum2 (extend g new) a = orderSum2 g a + 2 * ((new.filter (·.2 == a)).length : Int) := by
  unfold orderSum2
  rw [adjRow_extend g new a h1 ha]
  simp only [List.flatMap_append, List.map_append, List.sum_append]
  congr 1
  generalize new.filter (·.2 == a) = l
  induction l with
  | nil => rfl
  | cons p l ih =>
    simp only [List.map_cons, List.flatMap_cons, List.map_append, List.sum_append, ih, List.length_cons]
    simp [hBond, order2]
    omega

/-- the number of hydrogens one loop iteration adds for the snapshot entry `t` -/
def added (rows : List (String × Int)) (g : Graph) (t : Int × String) : Nat :=
  match valence? rows t.2 with
  | none => 0
  | some v => (hCount v (bondSum2 g t.1)).toNat

theorem step_extend (rows : List (String × Int)) {g : Graph} (hg : WF g) {new : List (Int × Int)}
    (hnew : NewOK g new) (t : Int × String) (ht : t.1 ∈ g.nodeIds) (hfree : ∀ p ∈ new, p.2 ≠ t.1) :
    step rows (extend g new) t = extend g (new ++ hs t.1 (added rows g t) ((extend g new).maxId + 1)) ∧
    NewOK g (new ++ hs t.1 (added rows g t) ((extend g new).maxId + 1)) := by
  have h1 : ∀ m ∈ g.nodeIds, m < (extend g new).maxId + 1 := fun m hm => by
    have := le_maxId (g := extend g new) (n := m) (by rw [nodeIds_extend]; exact List.mem_append_left _ hm)
    omega
  have h2 : ∀ p ∈ new, p.1 < (extend g new).maxId + 1 := fun p hp => by
    have := le_maxId (g := extend g new) (n := p.1)
      (by rw [nodeIds_extend]; exact List.mem_append_right _ (List.mem_map.2 ⟨p, hp, rfl⟩))
    omega
  refine ⟨?_, newOK_append_hs hnew ht _ h1 h2⟩
  unfold step added
  cases valence? rows t.2 with
  | none => simp [hs]
  | some v =>
    have hne : ∀ p ∈ new, p.1 ≠ t.1 := fun p hp => by have := hnew.fresh p hp t.1 ht; omega
    have hrow : t.1 ∈ g.adj.map (·.1) := by rw [hg.rows]; exact ht
    have hb : bondSum2 (extend g new) t.1 = bondSum2 g t.1 := by
      rw [bondSum2_eq, bondSum2_eq, orderSum2_extend g new t.1 hne hrow]
      have : new.filter (·.2 == t.1) = [] := by
        simp only [List.filter_eq_nil_iff, beq_iff_eq]
        exact fun p hp => hfree p hp
      simp [this]
    simp only [hb]
    exact addHs_extend hg ht _ new _ hnew h1 h2

/-- number of hydrogens of atom `a` in the list of pairs -/
def cnt (new : List (Int × Int)) (a : Int) : Nat := (new.filter (·.2 == a)).length

theorem cnt_append (l₁ l₂ : List (Int × Int)) (a : Int) : cnt (l₁ ++ l₂) a = cnt l₁ a + cnt l₂ a := by
  simp [cnt, List.filter_append]

theorem cnt_hs (n a : Int) : ∀ (k : Nat) (next : Int), cnt (hs n k next) a = if n = a then k else 0
  | 0, _ => by simp [cnt, hs]
  | k + 1, next => by
    have ih := cnt_hs n a k (next + 1)
    unfold cnt at ih ⊢
    by_cases h : n = a
    · simp only [hs, List.filter_cons, h, BEq.rfl, if_true, List.length_cons] at ih ⊢
      omega
    · have : (n == a) = false := by simp [h]
      simp only [hs, List.filter_cons, this, Bool.false_eq_true, if_false, h] at ih ⊢
      exact ih

theorem fold_extend (rows : List (String × Int)) {g : Graph} (hg : WF g) :
    ∀ (todo : List (Int × String)) (new : List (Int × Int)), NewOK g new →
      (todo.map (·.1)).Nodup → (∀ t ∈ todo, t.1 ∈ g.nodeIds) → (∀ t ∈ todo, ∀ p ∈ new, p.2 ≠ t.1) →
      ∃ new', todo.foldl (step rows) (extend g new) = extend g new' ∧ NewOK g new' ∧
        (∀ a, cnt new' a = cnt new a + ((todo.filter (·.1 == a)).map (added rows g)).sum) ∧
        (∀ p ∈ new', p ∈ new ∨ ∃ t ∈ todo, p.2 = t.1 ∧ 0 < added rows g t) := by
  intro todo
  induction todo with
  | nil => intro new hnew _ _ _; exact ⟨new, rfl, hnew, by simp, fun p hp => Or.inl hp⟩
  | cons t todo ih =>
    intro new hnew hnd hmem hfree
    simp only [List.map_cons, List.nodup_cons] at hnd
    obtain ⟨hst, hok⟩ := step_extend rows hg hnew t (hmem t List.mem_cons_self)
      (hfree t List.mem_cons_self)
    have hfree' : ∀ t' ∈ todo, ∀ p ∈ new ++ hs t.1 (added rows g t) ((extend g new).maxId + 1), p.2 ≠ t'.1 := by
      intro t' ht' p hp
      rcases List.mem_append.1 hp with hp | hp
      · exact hfree t' (List.mem_cons_of_mem _ ht') p hp
      · rw [(hs_mem hp).1]
        intro he
        exact hnd.1 (he ▸ List.mem_map.2 ⟨t', ht', rfl⟩)
    obtain ⟨new', hfold, hok', hcnt, hpar⟩ := ih _ hok hnd.2
      (fun t' ht' => hmem t' (List.mem_cons_of_mem _ ht')) hfree'
    refine ⟨new', ?_, hok', ?_, ?_⟩
    · simp only [List.foldl_cons, hst, hfold]
    · intro a
      rw [hcnt a, cnt_append, cnt_hs]
      by_cases h : t.1 = a
      · simp only [List.filter_cons, h, BEq.rfl, if_true, List.map_cons, List.sum_cons]
        omega
      · have : (t.1 == a) = false := by simp [h]
        simp only [List.filter_cons, this, h, if_false, Bool.false_eq_true]
        omega
    · intro p hp
      rcases hpar p hp with h | ⟨t', ht', h1, h2⟩
      · rcases List.mem_append.1 h with h | h
        · exact Or.inl h
        · refine Or.inr ⟨t, List.mem_cons_self, (hs_mem h).1, ?_⟩
          have hl := hs_length t.1 (added rows g t) ((extend g new).maxId + 1)
          cases hk : added rows g t with
          | zero => rw [hk] at h; simp [hs] at h
          | succ k => omega
      · exact Or.inr ⟨t', List.mem_cons_of_mem _ ht', h1, h2⟩

/-! ### the snapshot `heavy g` -/

def heavyOf (nodes : List (Int × NodeAttr)) : List (Int × String) :=
  nodes.filterMap fun x =>
    match x.2.symbol with
    | some s => if s == "R" || s == "H" then none else some (x.1, s)
    | none => none

def symOf (nodes : List (Int × NodeAttr)) (a : Int) : Option String :=
  ((nodes.find? (·.1 == a)).map (·.2)).bind (·.symbol)

theorem heavy_eq (g : Graph) : heavy g = heavyOf g.nodes := rfl
theorem symbol?_eq (g : Graph) (a : Int) : g.symbol? a = symOf g.nodes a := rfl

theorem heavyOf_ids_sublist (nodes : List (Int × NodeAttr)) :
    ((heavyOf nodes).map (·.1)).Sublist (nodes.map (·.1)) := by
  induction nodes with
  | nil => simp [heavyOf]
  | cons x nodes ih =>
    unfold heavyOf at ih ⊢
    simp only [List.filterMap_cons, List.map_cons]
    split
    · exact ih.cons _
    · next b hb =>
      have : b.1 = x.1 := by
        split at hb
        · split at hb <;> simp at hb; rw [← hb]
        · simp at hb
      simp only [List.map_cons, this]
      exact ih.cons_cons _

theorem heavyOf_filter (nodes : List (Int × NodeAttr)) (hnd : (nodes.map (·.1)).Nodup) (a : Int) :
    (heavyOf nodes).filter (·.1 == a) =
      match symOf nodes a with
      | some s => if s == "R" || s == "H" then [] else [(a, s)]
      | none => [] := by
  induction nodes with
  | nil => simp [heavyOf, symOf]
  | cons x nodes ih =>
    simp only [List.map_cons, List.nodup_cons] at hnd
    by_cases hx : x.1 = a
    · -- the tail has no node `a`
      have htail : (heavyOf nodes).filter (·.1 == a) = [] := by
        simp only [List.filter_eq_nil_iff, beq_iff_eq]
        intro t ht he
        have : t.1 ∈ nodes.map (·.1) := (heavyOf_ids_sublist nodes).subset (List.mem_map.2 ⟨t, ht, rfl⟩)
        exact hnd.1 (hx ▸ he ▸ this)
      have hsym : symOf (x :: nodes) a = x.2.symbol := by simp [symOf, hx]
      rw [hsym]
      unfold heavyOf at htail ⊢
      simp only [List.filterMap_cons]
      cases hs : x.2.symbol with
      | none => simpa using htail
      | some s =>
        by_cases hrh : (s == "R" || s == "H") = true
        · simp only [hrh, if_true]; exact htail
        · simp only [hrh, if_false, Bool.false_eq_true, List.filter_cons, hx, BEq.rfl, if_true, htail]
    · have hsym : symOf (x :: nodes) a = symOf nodes a := by
        have : (x.1 == a) = false := by simp [hx]
        simp [symOf, this]
      rw [hsym, ← ih hnd.2]
      unfold heavyOf
      simp only [List.filterMap_cons]
      split
      · rfl
      · next b hb =>
        have : b.1 = x.1 := by
          split at hb
          · split at hb <;> simp at hb; rw [← hb]
          · simp at hb
        have : (b.1 == a) = false := by simp [this, hx]
        simp [this]

/-- the table obligation in the form the proofs use -/
def TableOK (rows : List (String × Int)) : Prop := ∀ s, valence? rows s = refValence? s

theorem added_eq_expected {rows : List (String × Int)} (htab : TableOK rows) (g : Graph) (a : Int) (s : String)
    (hs : g.symbol? a = some s) (hrh : (s == "R" || s == "H") = false) :
    added rows g (a, s) = expected g a := by
  have h1 : ¬ (s = "R" ∨ s = "H") := by simpa using hrh
  simp only [added, expected, hs, htab s, h1, if_false, bondSum2_eq, hCount, bonds]
  cases refValence? s <;> rfl

/-- main invariant result: the model's output is an extension of the input that meets every clause -/
theorem spec_holds_with {rows : List (String × Int)} (htab : TableOK rows) {g : Graph} (hg : WF g) :
    ∃ new, addImplicitHydrogensWith rows g = extend g new ∧ NewOK g new ∧
      SpecWith g (addImplicitHydrogensWith rows g) new := by
  have hnd : (g.nodes.map (·.1)).Nodup := hg.nodup
  obtain ⟨new, hfold, hok, hcnt, hpar⟩ := fold_extend rows hg (heavy g) [] ⟨by simp, by simp, by simp⟩
    (by rw [heavy_eq]; exact hnd.sublist (heavyOf_ids_sublist g.nodes))
    (by rw [heavy_eq]; intro t ht
        exact (heavyOf_ids_sublist g.nodes).subset (List.mem_map.2 ⟨t, ht, rfl⟩))
    (by simp)
  rw [extend_nil] at hfold
  have hout : addImplicitHydrogensWith rows g = extend g new := hfold
  refine ⟨new, hout, hok, ?_⟩
  rw [hout]
  refine ⟨rfl, rfl, rfl, hok.distinct, fun p hp hin => by have := hok.fresh p hp p.1 hin; omega, ?_, ?_⟩
  · intro p hp
    refine ⟨hok.parent p hp, ?_⟩
    rcases hpar p hp with h | ⟨t, ht, hpt, hadd⟩
    · simp at h
    · have hmem : t ∈ (heavy g).filter (·.1 == p.2) := by
        simp only [List.mem_filter, beq_iff_eq]; exact ⟨ht, hpt.symm⟩
      rw [heavy_eq, heavyOf_filter g.nodes hnd p.2, ← symbol?_eq] at hmem
      unfold heavyTab
      cases hs : g.symbol? p.2 with
      | none => rw [hs] at hmem; simp at hmem
      | some s =>
        rw [hs] at hmem
        by_cases hrh : (s == "R" || s == "H") = true
        · simp [hrh] at hmem
        · simp only [hrh, if_false, Bool.false_eq_true, List.mem_singleton] at hmem
          subst hmem
          have hv : (valence? rows s).isSome = true := by
            unfold added at hadd
            cases hv : valence? rows s with
            | none => simp [hv] at hadd
            | some v => rfl
          rw [htab s] at hv
          simp only [Bool.or_eq_true, beq_iff_eq, not_or] at hrh
          simp [hrh.1, hrh.2, hv]
  · intro a _
    have := hcnt a
    simp only [cnt, List.filter_nil, List.length_nil, Nat.zero_add] at this
    rw [this, heavy_eq, heavyOf_filter g.nodes hnd a, ← symbol?_eq]
    cases hs : g.symbol? a with
    | none => simp [expected, hs]
    | some s =>
      by_cases hrh : (s == "R" || s == "H") = true
      · have : s = "R" ∨ s = "H" := by simpa using hrh
        simp [hrh, expected, hs, this]
      · have hrh' : (s == "R" || s == "H") = false := by simpa using hrh
        simp only [hrh', Bool.false_eq_true, if_false, List.map_cons, List.map_nil, List.sum_cons, List.sum_nil,
          Nat.add_zero]
        exact added_eq_expected htab g a s hs hrh'

/-! ### the table obligation -/

theorem tableOK_of_rows {rows : List (String × Int)}
    (h1 : (rows.all fun r => refValence? r.1 == some r.2) = true)
    (h2 : (refRows.all fun r => valence? rows r.1 == some r.2) = true) : TableOK rows := by
  intro s
  simp only [List.all_eq_true, beq_iff_eq] at h1 h2
  cases hv : valence? rows s with
  | some v =>
    unfold valence? at hv
    cases hf : rows.reverse.find? (·.1 == s) with
    | none => simp [hf] at hv
    | some r =>
      simp only [hf, Option.map_some, Option.some.injEq] at hv
      have hm : r ∈ rows := List.mem_reverse.1 (List.mem_of_find?_eq_some hf)
      have hk := List.find?_some hf
      simp only [beq_iff_eq] at hk
      rw [← hk, ← hv]
      exact (h1 r hm).symm
  | none =>
    cases hr : refValence? s with
    | none => rfl
    | some v =>
      exfalso
      unfold refValence? at hr
      cases hf : refRows.find? (·.1 == s) with
      | none => simp [hf] at hr
      | some r =>
        have hm : r ∈ refRows := List.mem_of_find?_eq_some hf
        have hk := List.find?_some hf
        simp only [beq_iff_eq] at hk
        have := h2 r hm
        rw [hk, hv] at this
        simp at this


/-- table obligation: the integer table the model uses lost nothing of the source's row keys
    (the shared translator truncates with `int(v)`; the C12 translator emits exact fractions) -/
theorem valence_table_exact :
    Gen.C12.valenceRowsQ = Gen.valenceRows.map (fun r => (r.1, r.2, 1)) := by decide

/-- table obligation: the regenerated `valence_dict` assigns exactly the reference main-group
    valences (groups 2, 13–17 ↦ 2,3,4,5,6,7) to exactly the reference elements -/
theorem valence_table_main_group : ∀ s, valence? Gen.valenceRows s = refValence? s :=
  tableOK_of_rows (by decide) (by decide)

/-! ### well-formedness is preserved -/

theorem wf_extend {g : Graph} (hg : WF g) {new : List (Int × Int)} (hnew : NewOK g new) : WF (extend g new) := by
  refine ⟨?_, ?_, ?_⟩
  · rw [nodeIds_extend]
    refine List.nodup_append.2 ⟨hg.nodup, hnew.distinct, ?_⟩
    intro a ha b hb
    obtain ⟨p, hp, rfl⟩ := List.mem_map.1 hb
    have := hnew.fresh p hp a ha
    omega
  · rw [nodeIds_extend, ← hg.rows]
    simp [extend, extAdj, Function.comp_def]
  · intro r hr e he
    rw [nodeIds_extend]
    simp only [extend, extAdj, List.mem_append, List.mem_map] at hr
    rcases hr with ⟨r0, hr0, rfl⟩ | ⟨p, hp, rfl⟩
    · simp only [List.mem_append, List.mem_map, List.mem_filter] at he
      rcases he with he | ⟨p, ⟨hp, _⟩, rfl⟩
      · exact List.mem_append_left _ (hg.closed r0 hr0 e he)
      · exact List.mem_append_right _ (List.mem_map.2 ⟨p, hp, rfl⟩)
    · simp only [List.mem_singleton] at he
      subst he
      exact List.mem_append_left _ (hnew.parent p hp)

/-! ### the property theorems (about the model with the table of the current source) -/

/-- the model meets the specification on every well-formed graph, for any node ids -/
theorem spec_holds {g : Graph} (hg : WF g) : Spec g (addImplicitHydrogens g) := by
  obtain ⟨new, _, _, h⟩ := spec_holds_with valence_table_main_group hg
  exact ⟨new, h⟩

theorem wf_preserved {g : Graph} (hg : WF g) : WF (addImplicitHydrogens g) := by
  obtain ⟨new, h, hok, _⟩ := spec_holds_with valence_table_main_group hg
  unfold addImplicitHydrogens
  rw [h]
  exact wf_extend hg hok

theorem find?_of_nodup_keys {β : Type} : ∀ (l : List (Int × β)), (l.map (·.1)).Nodup → ∀ p ∈ l,
    l.find? (·.1 == p.1) = some p
  | [], _, p, hp => by simp at hp
  | x :: l, hnd, p, hp => by
    simp only [List.map_cons, List.nodup_cons] at hnd
    simp only [List.mem_cons] at hp
    rcases hp with rfl | hp
    · simp
    · have hne : (x.1 == p.1) = false := by
        simp only [beq_eq_false_iff_ne, ne_eq]
        intro he
        exact hnd.1 (he ▸ List.mem_map.2 ⟨p, hp, rfl⟩)
      simp only [List.find?_cons, hne]
      exact find?_of_nodup_keys l hnd.2 p hp

/-- the adjacency row of a new hydrogen: exactly one entry, a single bond to its heavy atom -/
theorem adjRow_extend_new {g : Graph} (hg : WF g) {new : List (Int × Int)} (hnew : NewOK g new)
    (p : Int × Int) (hp : p ∈ new) : (extend g new).adjRow p.1 = [(p.2, hBond)] := by
  unfold Graph.adjRow
  simp only [extend, extAdj, List.find?_append, List.find?_map]
  have h1 : g.adj.find? ((fun x : Int × List (Int × List (Nat × Label)) => x.1 == p.1) ∘
      fun (r : Int × List (Int × List (Nat × Label))) =>
        (r.1, r.2 ++ (new.filter (fun x => x.2 == r.1)).map fun q => (q.1, hBond))) = none := by
    rw [List.find?_eq_none]
    intro r hr
    have hk : r.1 ∈ g.nodeIds := by rw [← hg.rows]; exact List.mem_map.2 ⟨r, hr, rfl⟩
    have := hnew.fresh p hp r.1 hk
    simp only [Function.comp, beq_iff_eq]
    omega
  have h2 : new.find? ((fun x : Int × List (Int × List (Nat × Label)) => x.1 == p.1) ∘
      fun (q : Int × Int) => (q.1, [(q.2, hBond)])) = some p :=
    find?_of_nodup_keys new hnew.distinct p hp
  rw [h1, h2]
  rfl

/-- **only hydrogens are added**: the old nodes with their attributes are a prefix of the new node
    list, every further node is a bare `H`; the row of every old atom is its old row followed by
    single bonds to its new hydrogens; every new hydrogen has exactly one bond, a single bond to a
    node of `g` whose symbol is tabulated and neither `H` nor `R` -/
theorem only_adds_hydrogens {g : Graph} (hg : WF g) :
    ∃ new : List (Int × Int),
      (addImplicitHydrogens g).multi = g.multi ∧
      (addImplicitHydrogens g).nodes = g.nodes ++ new.map (fun p => (p.1, hAttr)) ∧
      (addImplicitHydrogens g).adj.map (·.1) = (addImplicitHydrogens g).nodeIds ∧
      (∀ a ∈ g.nodeIds, (addImplicitHydrogens g).adjRow a =
          g.adjRow a ++ (new.filter (·.2 == a)).map fun p => (p.1, hBond)) ∧
      (∀ p ∈ new, (addImplicitHydrogens g).adjRow p.1 = [(p.2, hBond)] ∧
          p.2 ∈ g.nodeIds ∧ heavyTab g p.2 = true) := by
  obtain ⟨new, h, hok, hs⟩ := spec_holds_with valence_table_main_group hg
  have hwf := wf_extend hg hok
  unfold addImplicitHydrogens
  rw [h]
  refine ⟨new, rfl, rfl, hwf.rows, ?_, ?_⟩
  · intro a ha
    exact adjRow_extend g new a (fun p hp => by have := hok.fresh p hp a ha; omega) (by rw [hg.rows]; exact ha)
  · intro p hp
    exact ⟨adjRow_extend_new hg hok p hp, hs.heavy p hp⟩

/-- **fresh ids**, for any node ids: the ids after completion are pairwise distinct, the old ids
    are a prefix, and every new id is larger than every old id (so it was not in use) -/
theorem fresh_ids {g : Graph} (hg : WF g) :
    (addImplicitHydrogens g).nodeIds.Nodup ∧
    ∃ newIds, (addImplicitHydrogens g).nodeIds = g.nodeIds ++ newIds ∧ ∀ h ∈ newIds, ∀ n ∈ g.nodeIds, n < h := by
  obtain ⟨new, h, hok, _⟩ := spec_holds_with valence_table_main_group hg
  refine ⟨(wf_preserved hg).nodup, new.map (·.1), ?_, ?_⟩
  · unfold addImplicitHydrogens; rw [h, nodeIds_extend]
  · intro x hx
    obtain ⟨p, hp, rfl⟩ := List.mem_map.1 hx
    exact hok.fresh p hp

/-- the stronger fact about the MODEL (not demanded by the statement, hence not a clause of `Spec`; review 3, M6):
    the pairs `new` by which the model extends the input carry ids above every id of the input (the code takes
    `max(graph.nodes) + 1`) -/
theorem new_ids_above {g : Graph} (hg : WF g) :
    ∃ new, addImplicitHydrogens g = extend g new ∧ SpecWith g (addImplicitHydrogens g) new ∧
      ∀ p ∈ new, ∀ n ∈ g.nodeIds, n < p.1 := by
  obtain ⟨new, h, hok, hs⟩ := spec_holds_with valence_table_main_group hg
  exact ⟨new, h, hs, hok.fresh⟩

/-- **count**: an old atom gains exactly `expected g a` neighbours, i.e.
    `max 0 (trunc ((2·bonds(v) − Σ doubled orders)/2))` for a tabulated non-`H` non-`R` symbol with `v`
    reference valence electrons, and none otherwise -/
theorem count {g : Graph} (hg : WF g) : ∀ a ∈ g.nodeIds,
    ((addImplicitHydrogens g).adjRow a).length = (g.adjRow a).length + expected g a := by
  obtain ⟨new, h, hok, hs⟩ := spec_holds_with valence_table_main_group hg
  intro a ha
  unfold addImplicitHydrogens
  rw [h, adjRow_extend g new a (fun p hp => by have := hok.fresh p hp a ha; omega) (by rw [hg.rows]; exact ha)]
  simp [hs.count a ha]

/-! ### idempotence -/

theorem tdiv_second (x : Int) : ((x - 2 * ((x.tdiv 2).toNat : Int)).tdiv 2).toNat = 0 := by
  by_cases hx : 0 ≤ x
  · rw [Int.tdiv_eq_ediv_of_nonneg hx]
    have h2 : 0 ≤ x - 2 * ((x / 2).toNat : Int) := by omega
    rw [Int.tdiv_eq_ediv_of_nonneg h2]
    omega
  · have h1 : x.tdiv 2 ≤ 0 := by
      have := Int.tdiv_le_tdiv (a := x) (b := 0) (c := 2) (by omega) (by omega)
      simpa using this
    have h3 : (x.tdiv 2).toNat = 0 := by omega
    rw [h3]
    have h4 : x - 2 * ((0 : Nat) : Int) = x := by omega
    rw [h4]
    omega

theorem find?_append_left {β : Type} (l l' : List (Int × β)) (a : Int) (h : a ∈ l.map (·.1)) :
    (l ++ l').find? (·.1 == a) = l.find? (·.1 == a) := by
  rw [List.find?_append]
  obtain ⟨x, hx, rfl⟩ := List.mem_map.1 h
  cases hf : l.find? (·.1 == x.1) with
  | some r => rfl
  | none => have := List.find?_eq_none.1 hf x hx; simp at this

theorem symbol?_extend_old (g : Graph) (new : List (Int × Int)) (a : Int) (ha : a ∈ g.nodeIds) :
    (extend g new).symbol? a = g.symbol? a := by
  unfold Graph.symbol? Graph.attr?
  simp only [extend, extNodes]
  rw [find?_append_left g.nodes _ a ha]

theorem symbol?_extend_new {g : Graph} {new : List (Int × Int)} (hnew : NewOK g new) (p : Int × Int) (hp : p ∈ new) :
    (extend g new).symbol? p.1 = some "H" := by
  unfold Graph.symbol? Graph.attr?
  simp only [extend, extNodes, List.find?_append]
  have h1 : g.nodes.find? (·.1 == p.1) = none := by
    rw [List.find?_eq_none]
    intro x hx
    have := hnew.fresh p hp x.1 (List.mem_map.2 ⟨x, hx, rfl⟩)
    simp only [beq_iff_eq]; omega
  rw [h1, List.find?_map]
  have h2 : new.find? ((fun x : Int × NodeAttr => x.1 == p.1) ∘ fun (q : Int × Int) => (q.1, hAttr)) = some p :=
    find?_of_nodup_keys new hnew.distinct p hp
  rw [h2]
  rfl

theorem expected_extend {g : Graph} (hg : WF g) {new : List (Int × Int)} (hnew : NewOK g new)
    (hc : ∀ a ∈ g.nodeIds, (new.filter (·.2 == a)).length = expected g a) :
    ∀ a ∈ (extend g new).nodeIds, expected (extend g new) a = 0 := by
  intro a ha
  rw [nodeIds_extend] at ha
  rcases List.mem_append.1 ha with ha | ha
  · have hne : ∀ p ∈ new, p.1 ≠ a := fun p hp => by have := hnew.fresh p hp a ha; omega
    have hrow : a ∈ g.adj.map (·.1) := by rw [hg.rows]; exact ha
    have hcount := hc a ha
    unfold expected at hcount ⊢
    rw [symbol?_extend_old g new a ha, orderSum2_extend g new a hne hrow]
    cases hs : g.symbol? a with
    | none => rfl
    | some s =>
      simp only [hs] at hcount ⊢
      split
      · rfl
      · next hrh =>
        simp only [hrh, if_false] at hcount
        cases hv : refValence? s with
        | none => rfl
        | some v =>
          simp only [hv] at hcount ⊢
          rw [hcount]
          have := tdiv_second (2 * bonds v - orderSum2 g a)
          rw [← this]
          congr 2
          omega
  · obtain ⟨p, hp, rfl⟩ := List.mem_map.1 ha
    unfold expected
    rw [symbol?_extend_new hnew p hp]
    simp

theorem idempotent_with {rows : List (String × Int)} (htab : TableOK rows) {g : Graph} (hg : WF g) :
    addImplicitHydrogensWith rows (addImplicitHydrogensWith rows g) = addImplicitHydrogensWith rows g := by
  obtain ⟨new, h, hok, hs⟩ := spec_holds_with htab hg
  rw [h]
  have hwf := wf_extend hg hok
  obtain ⟨new2, h2, hok2, hs2⟩ := spec_holds_with htab hwf
  have hzero := expected_extend hg hok hs.count
  have hnil : new2 = [] := by
    rw [List.eq_nil_iff_forall_not_mem]
    intro p hp
    have hpar := hok2.parent p hp
    have hc := hs2.count p.2 hpar
    rw [hzero p.2 hpar] at hc
    have : p ∈ new2.filter (·.2 == p.2) := by simp [hp]
    rw [List.length_eq_zero_iff.1 hc] at this
    simp at this
  rw [h2, hnil, extend_nil]

/-- **idempotent**: completing a second time adds nothing (the graph is returned unchanged) -/
theorem idempotent {g : Graph} (hg : WF g) :
    addImplicitHydrogens (addImplicitHydrogens g) = addImplicitHydrogens g :=
  idempotent_with valence_table_main_group hg

/-! ### soundness of the executable checker -/

/-- what the driver evaluates on implementation outputs implies the declarative specification -/
theorem specCheck_sound (g o : Graph) (h : specCheck g o = true) : Spec g o := by
  unfold specCheck at h
  split at h
  · next new _ =>
    simp only [clauses, List.all_cons, List.all_nil, Bool.and_true, Bool.and_eq_true, decide_eq_true_eq] at h
    exact ⟨new, h.1, h.2.1, h.2.2.1, h.2.2.2.1, h.2.2.2.2.1, h.2.2.2.2.2.1, h.2.2.2.2.2.2⟩
  · simp at h

/-! ### non-vacuity (tests): concrete graphs, kernel-evaluated -/

/-- methanol with ids from 1 (`parse('CO', idx_offset=1)`, the F9 witness) -/
def exCO : Graph :=
  { nodes := [(1, { symbol := some "C" }), (2, { symbol := some "O" })],
    adj := [(1, [(2, [(0, .s 2)])]), (2, [(1, [(0, .s 2)])])] }

example : WF exCO := by decide
example : (addImplicitHydrogens exCO).nodeIds = [1, 2, 3, 4, 5, 6] := by decide
example : (addImplicitHydrogens exCO).symbol? 2 = some "O" := by decide
example : expected exCO 1 = 3 ∧ expected exCO 2 = 1 := by decide
example : specCheck exCO (addImplicitHydrogens exCO) = true := by decide
/-- the pre-repair behaviour (hydrogen ids from `len(graph)` = 2: the oxygen is overwritten) is rejected -/
example : specCheck exCO
    { nodes := [(1, { symbol := some "C" }), (2, { symbol := some "H" }), (3, { symbol := some "H" })],
      adj := [(1, [(2, [(0, .s 2)]), (3, [(0, .s 2)])]), (2, [(1, [(0, .s 2)])]), (3, [(1, [(0, .s 2)])])] } = false := by
  decide
/-- the statement says "an id not previously in use", not "an id above all old ids": a completion of methanol
    (ids 1, 2) whose hydrogens sit on 0, -1, -2 and 7 meets the specification (test of the weakened clause) -/
example : specCheck exCO
    { nodes := [(1, { symbol := some "C" }), (2, { symbol := some "O" }), (0, hAttr), (-1, hAttr), (-2, hAttr), (7, hAttr)],
      adj := [(1, [(2, [(0, .s 2)]), (0, hBond), (-1, hBond), (-2, hBond)]), (2, [(1, [(0, .s 2)]), (7, hBond)]),
              (0, [(1, hBond)]), (-1, [(1, hBond)]), (-2, [(1, hBond)]), (7, [(2, hBond)])] } = true := by
  decide
/-- aromatic carbon with one aromatic bond: trunc(4 − 1.5) = 2; over-valent sulfur: none -/
example : hCount 4 3 = 2 ∧ (hCount 6 14).toNat = 0 ∧ hCount 5 3 = 1 := by decide
example : graphEq (addImplicitHydrogens (addImplicitHydrogens exCO)) (addImplicitHydrogens exCO) = true := by decide

end C12
