import FGVerif.Model.C14
import FGVerif.Generated.C14
/-!
  C14/C15 — table obligations on the shipped collections.  `Gen.C14.*` is regenerated from /repo's
  working tree on every run (harness/gen_tables_c14.py: the effective `Proxy.__groups` dictionaries
  of `DielsAlderProxy(neg_sample=False/True)` and of `common_groups`, with the group references of
  every pattern's label nodes extracted by the real parser).  The theorems below are closed by kernel
  evaluation of the counting formula (`decide +kernel`; no enumeration, no `native_decide`), so they are
  re-checked against what the code says *now*.  The driver cross-checks on every run that the
  references in the tables are the ones of the patterns as parsed (op `table`).
-/
namespace C14

abbrev GroupTable := List (String × String × List (String × List Nat × List (List String)))
abbrev CoreTable := List (String × List Nat × List (List String))

/-- the part of a generated table the count depends on -/
def refTableOf (t : GroupTable) : RefConfig := t.map fun g => (g.1, g.2.2.map (·.2.2))
def coreRefsOf (t : CoreTable) : List RefGraph := t.map (·.2.2)

def daPos : RefConfig := refTableOf Gen.C14.daPos
def daNeg : RefConfig := refTableOf Gen.C14.daNeg
def daPosCores : List RefGraph := coreRefsOf Gen.C14.daPosCores
def daNegCores : List RefGraph := coreRefsOf Gen.C14.daNegCores
def commonRef : RefConfig := refTableOf Gen.C14.common

/-- number of samples of `DielsAlderProxy(neg_sample=False)` by the formula: 10470 -/
theorem da_count_pos : totalExpRef daPos daPosCores = 10470 := by decide +kernel

/-- number of samples of `DielsAlderProxy(neg_sample=True)` by the formula: 12875 -/
theorem da_count_neg : totalExpRef daNeg daNegCores = 12875 := by decide +kernel

/-- the shipped configurations are acyclic (so the formula is the number of results: `C14.count`) -/
theorem da_acyclic_pos : acyclicB daPos = true := by decide +kernel
theorem da_acyclic_neg : acyclicB daNeg = true := by decide +kernel
theorem common_acyclic : acyclicB commonRef = true := by decide +kernel

/-- dictionary keys and group names agree in the shipped tables -/
theorem da_keys_are_names :
    (Gen.C14.daPos.all fun g => g.1 == g.2.1) = true ∧ (Gen.C14.daNeg.all fun g => g.1 == g.2.1) = true ∧
    (Gen.C14.common.all fun g => g.1 == g.2.1) = true := by decide +kernel

/-- every group node of a shipped pattern carries exactly one group label (no `RuntimeError`) -/
theorem da_single_labels :
    (daPos.all fun g => g.2.all fun rg => rg.all fun ls => ls.length == 1) = true ∧
    (daNeg.all fun g => g.2.all fun rg => rg.all fun ls => ls.length == 1) = true ∧
    (daPosCores.all fun rg => rg.all fun ls => ls.length == 1) = true := by decide +kernel

/-- `C{any}` over `common_groups`: 144 molecules (test value from the real iterator; kernel-evaluated formula) -/
example : nodesExp commonRef (depthOf commonRef) [["any"]] = 144 := by decide +kernel

end C14
