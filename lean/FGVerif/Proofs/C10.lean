import FGVerif.Model.C10
import FGVerif.Proofs.C09
/-!
  C10 — ITS round trips: splitting and re-superimposing lose nothing.

  Property theorems (about `Model/C10.lean` and `Model/C09.lean`):

  * `C10.split_exact`      `Simple I → view (splitIts I).1 = sideSpec false I ∧ view (splitIts I).2 = sideSpec true I`
                           (same nodes; `{u,v}` bonded with scalar `o` iff the ITS label's component
                           is `o ≠ 0`; scalar labels kept).  `splitIts_eq`: even as lists;
                           `split_scalar`: no pair label is left; `splitCheck_iff`: the checker decides it
  * `C10.its_of_split`     `ItsOK I → ∃ J, resuper I = some J ∧ view J = view (nameByAam I)` — stronger
                           than planned: node ids need not be the map numbers and nodes without a
                           number are allowed (they drop out); `its_of_split_named` is the planned
                           form `get_its(split_its I) = I` for nodes named by map number
  * `C10.split_of_its`     `FullyMapped G H → view (splitOfIts G H).i = view (namedMol G / H)`
  * `C10.smiles_roundtrip_modulo_rdkit`  for *any* injective renamings/reorderings `Renamed π`,
                           `Renamed ρ` of the two halves (what RDKit's writer+reader is assumed to
                           do), superimposing what comes back gives `I` named by map number

  Not modelled (assumption, exercised per case by the harness): that RDKit's SMILES writer followed
  by its reader *is* such a renaming (it is not when sanitisation re-perceives aromaticity, e.g. the
  three-ring `[N:4]1[O:7][PH:13]1`); which fresh numbers `ITS.__init__` hands out (C20).
-/
namespace C10
open C09

/-! ### `split_its` in closed form -/

/-- at most one edge per unordered pair of nodes -/
def Simple {σ β} (I : Gr σ β) : Prop :=
  I.edges.Pairwise (fun e f => ¬ samePair e.1 e.2.1 f.1 f.2.1 = true)

theorem simple_of_simpleOk {σ β} {I : Gr σ β} (h : simpleOk I = true) : Simple I := by
  unfold simpleOk at h
  rw [pairwiseB_iff] at h
  exact h.imp (by intro a b hab; simpa using hab)

/-- the loop body seen from one side -/
def sideStep {σ} (k : Bool) (g : Gr σ Lab) (e : Int × Int × Lab) : Gr σ Lab :=
  match e.2.2 with
  | .p a b => setRcEdge g e.1 e.2.1 (if k then b else a)
  | .s _ => g

theorem foldl_splitStep {σ} (L : List (Int × Int × Lab)) (g h : Gr σ Lab) :
    L.foldl splitStep (g, h) = (L.foldl (sideStep false) g, L.foldl (sideStep true) h) := by
  induction L generalizing g h with
  | nil => rfl
  | cons e es ih =>
    rw [List.foldl_cons, List.foldl_cons, List.foldl_cons]
    have : splitStep (g, h) e = (sideStep false g e, sideStep true h e) := by
      unfold splitStep sideStep
      cases e.2.2 <;> simp
    rw [this, ih]

/-- what side `k` keeps of edge `e` -/
def sideF (k : Bool) (e : Int × Int × Lab) : Option (Int × Int × Lab) :=
  (comp k e.2.2).map fun o => (e.1, e.2.1, Lab.s o)

theorem samePair_self (u v : Int) : samePair u v u v = true := by simp [samePair]

theorem map_relabel_id (u v : Int) (l' : Lab) (l : List (Int × Int × Lab))
    (h : ∀ x ∈ l, ¬ samePair x.1 x.2.1 u v = true) :
    l.map (fun e => if samePair e.1 e.2.1 u v then (e.1, e.2.1, l') else e) = l := by
  induction l with
  | nil => rfl
  | cons x xs ih =>
    rw [List.map_cons, if_neg (h x List.mem_cons_self), ih fun y hy => h y (List.mem_cons_of_mem _ hy)]

theorem foldl_sideStep {σ} (k : Bool) (N : List (Int × σ × Option Int)) :
    ∀ (L P : List (Int × Int × Lab)),
      L.Pairwise (fun e f => ¬ samePair e.1 e.2.1 f.1 f.2.1 = true) →
      (∀ x ∈ P, ∀ e ∈ L, ¬ samePair x.1 x.2.1 e.1 e.2.1 = true) →
      L.foldl (sideStep k) (⟨N, P ++ L⟩ : Gr σ Lab) = ⟨N, P ++ L.filterMap (sideF k)⟩ := by
  intro L
  induction L with
  | nil => intro P _ _; simp
  | cons e es ih =>
    intro P hpw hP
    rw [List.pairwise_cons] at hpw
    obtain ⟨u, v, lab⟩ := e
    have hPe : ∀ x ∈ P, ¬ samePair x.1 x.2.1 u v = true := fun x hx => hP x hx _ List.mem_cons_self
    have hPes : ∀ x ∈ P, ∀ f ∈ es, ¬ samePair x.1 x.2.1 f.1 f.2.1 = true :=
      fun x hx f hf => hP x hx f (List.mem_cons_of_mem _ hf)
    have hes : ∀ f ∈ es, ¬ samePair f.1 f.2.1 u v = true := fun f hf h => by
      rw [samePair_symm] at h; exact hpw.1 f hf h
    -- a new front element with the end points of `e` is still unrelated to the rest
    have hP' : ∀ (l' : Lab), ∀ x ∈ P ++ [(u, v, l')], ∀ f ∈ es, ¬ samePair x.1 x.2.1 f.1 f.2.1 = true := by
      intro l' x hx f hf
      rcases List.mem_append.mp hx with hx | hx
      · exact hPes x hx f hf
      · simp only [List.mem_singleton] at hx; subst hx; exact hpw.1 f hf
    rw [List.foldl_cons, List.filterMap_cons]
    cases lab with
    | s o =>
      have h1 : sideStep k (⟨N, P ++ (u, v, Lab.s o) :: es⟩ : Gr σ Lab) (u, v, Lab.s o) =
          ⟨N, (P ++ [(u, v, Lab.s o)]) ++ es⟩ := by simp [sideStep]
      rw [h1, ih _ hpw.2 (hP' _)]
      simp [sideF, comp]
    | p a b =>
      by_cases hc : (if k then b else a) = 0
      · -- the edge is removed
        have h1 : sideStep k (⟨N, P ++ (u, v, Lab.p a b) :: es⟩ : Gr σ Lab) (u, v, Lab.p a b) = ⟨N, P ++ es⟩ := by
          simp only [sideStep, setRcEdge, hc, beq_self_eq_true, if_true, removeEdge]
          congr 1
          rw [List.filter_append, List.filter_cons_of_neg (by simp [samePair_self]),
            List.filter_eq_self.mpr, List.filter_eq_self.mpr]
          · intro f hf; simpa using hes f hf
          · intro x hx; simpa using hPe x hx
        rw [h1, ih _ hpw.2 hPes]
        have : sideF k (u, v, Lab.p a b) = none := by
          simp only [sideF, comp]; rw [if_pos hc]; rfl
        rw [this]
      · -- the edge gets the scalar label
        have h1 : sideStep k (⟨N, P ++ (u, v, Lab.p a b) :: es⟩ : Gr σ Lab) (u, v, Lab.p a b) =
            ⟨N, (P ++ [(u, v, Lab.s (if k then b else a))]) ++ es⟩ := by
          have hb : ((if k then b else a) == 0) = false := by simpa using hc
          simp only [sideStep, setRcEdge, hb, setLabel]
          rw [List.map_append, List.map_cons, map_relabel_id u v _ P hPe, map_relabel_id u v _ es hes]
          simp [samePair_self]
        rw [h1, ih _ hpw.2 (hP' _)]
        have : sideF k (u, v, Lab.p a b) = some (u, v, Lab.s (if k then b else a)) := by
          simp only [sideF, comp]; rw [if_neg hc]; rfl
        rw [this]
        simp

/-- under the simple-graph invariant `split_its` is: keep the nodes, filter/relabel the edges -/
theorem splitIts_eq {σ} {I : Gr σ Lab} (h : Simple I) : splitIts I = (side false I, side true I) := by
  obtain ⟨N, E⟩ := I
  unfold splitIts
  rw [foldl_splitStep]
  have h0 := foldl_sideStep (σ := σ) false N E [] h (by intro x hx; cases hx)
  have h1 := foldl_sideStep (σ := σ) true N E [] h (by intro x hx; cases hx)
  simp only [List.nil_append] at h0 h1
  rw [h0, h1]
  rfl

/-- **side `k` of an ITS, declaratively**: the node set of `I`; `{u, v}` is bonded with the scalar
    label `o` iff `I` has an edge `{u, v}` whose `k`-th component is `o ≠ 0` (a scalar label is
    seen by both sides) -/
def sideSpec {σ} (k : Bool) (I : Gr σ Lab) : Abs σ Lab :=
  ⟨fun x => x ∈ I.nodes, fun u v l => ∃ lab o, UE I.edges u v lab ∧ comp k lab = some o ∧ l = Lab.s o⟩

theorem comp_p (k : Bool) (g h : Int) :
    comp k (.p g h) = if (if k then h else g) = 0 then none else some (if k then h else g) := rfl

theorem comp_ne_zero {k : Bool} {g h o : Int} (hc : comp k (.p g h) = some o) : o ≠ 0 := by
  rw [comp_p] at hc
  by_cases hz : (if k then h else g) = 0
  · rw [if_pos hz] at hc; cases hc
  · rw [if_neg hz] at hc; cases hc; exact hz

theorem view_side {σ} (k : Bool) (I : Gr σ Lab) : view (side k I) = sideSpec k I := by
  simp only [view, sideSpec, side, Abs.mk.injEq, true_and]
  funext u v l
  apply propext
  simp only [UE, List.mem_filterMap]
  constructor
  · rintro (⟨e, he, hF⟩ | ⟨e, he, hF⟩)
    · cases hc : comp k e.2.2 with
      | none => rw [hc] at hF; cases hF
      | some o =>
        rw [hc] at hF
        simp only [Option.map_some, Option.some.injEq, Prod.mk.injEq] at hF
        obtain ⟨rfl, rfl, rfl⟩ := hF
        exact ⟨e.2.2, o, Or.inl he, hc, rfl⟩
    · cases hc : comp k e.2.2 with
      | none => rw [hc] at hF; cases hF
      | some o =>
        rw [hc] at hF
        simp only [Option.map_some, Option.some.injEq, Prod.mk.injEq] at hF
        obtain ⟨rfl, rfl, rfl⟩ := hF
        exact ⟨e.2.2, o, Or.inr he, hc, rfl⟩
  · rintro ⟨lab, o, he | he, hc, rfl⟩
    · exact Or.inl ⟨(u, v, lab), he, by simp [hc]⟩
    · exact Or.inr ⟨(v, u, lab), he, by simp [hc]⟩

/-- **C10, split.**  Splitting returns two graphs on the ITS's node set whose bonds are exactly
    the first, respectively second, components of the labels, order-0 bonds absent, scalar
    labels kept. -/
theorem split_exact {σ} {I : Gr σ Lab} (h : Simple I) :
    view (splitIts I).1 = sideSpec false I ∧ view (splitIts I).2 = sideSpec true I := by
  rw [splitIts_eq h]
  exact ⟨view_side false I, view_side true I⟩

theorem sameGr_iff {σ} [DecidableEq σ] (A B : Gr σ Lab) : sameGr A B = true ↔ view A = view B := by
  unfold sameGr
  rw [Bool.and_eq_true, sameSet_iff, sameEdges_iff, view_eq_iff]

/-- the checker applied to implementation outputs decides the split specification -/
theorem splitCheck_iff {σ} [DecidableEq σ] (I g h : Gr σ Lab) :
    splitCheck I g h = true ↔ view g = sideSpec false I ∧ view h = sideSpec true I := by
  unfold splitCheck
  rw [Bool.and_eq_true, sameGr_iff, sameGr_iff, view_side, view_side]

theorem splitCheck_sound {σ} [DecidableEq σ] {I g h : Gr σ Lab} (hc : splitCheck I g h = true) :
    view g = sideSpec false I ∧ view h = sideSpec true I := (splitCheck_iff I g h).mp hc

/-- after the split no pair label is left -/
theorem split_scalar {σ} {I : Gr σ Lab} (h : Simple I) :
    (∀ e ∈ (splitIts I).1.edges, ∃ o, e.2.2 = Lab.s o) ∧ (∀ e ∈ (splitIts I).2.edges, ∃ o, e.2.2 = Lab.s o) := by
  rw [splitIts_eq h]
  constructor <;>
  · intro e he
    simp only [side, List.mem_filterMap] at he
    obtain ⟨f, _, hF⟩ := he
    cases hc : comp _ f.2.2 with
    | none => rw [hc] at hF; cases hF
    | some o => rw [hc] at hF; cases hF; exact ⟨o, rfl⟩

/-! ### `get_its ∘ split_its` -/

/-- side `k` of `I` as a molecular graph -/
def mside (k : Bool) (I : Gr String Lab) : Mol :=
  ⟨I.nodes, I.edges.filterMap fun e => (comp k e.2.2).map fun o => (e.1, e.2.1, o)⟩

theorem toMol_side (k : Bool) (I : Gr String Lab) : toMol (side k I) = some (mside k I) := by
  obtain ⟨N, E⟩ := I
  unfold toMol side mside
  simp only
  have : ∀ L : List (Int × Int × Lab),
      (L.filterMap fun e => (comp k e.2.2).map fun o => (e.1, e.2.1, Lab.s o)).mapM scalarEdge =
      some (L.filterMap fun e => (comp k e.2.2).map fun o => (e.1, e.2.1, o)) := by
    intro L
    induction L with
    | nil => rfl
    | cons e es ih =>
      rw [List.filterMap_cons, List.filterMap_cons]
      cases hc : comp k e.2.2 with
      | none => simpa using ih
      | some o =>
        simp only [Option.map_some]
        rw [List.mapM_cons, ih]
        rfl
  rw [this]
  rfl

/-- domain of the re-superposition theorem: node ids distinct, map numbers `≥ 1` and distinct,
    simple graph, no label says "no bond on either side" -/
structure ItsOK (I : Gr String Lab) : Prop where
  ids : I.nodes.Pairwise (fun x y => x.1 ≠ y.1)
  pos : ∀ a ∈ I.nodes.filterMap (fun x => x.2.2), 1 ≤ a
  inj : (I.nodes.filterMap fun x => x.2.2).Pairwise (fun a b => a ≠ b)
  simple : Simple I
  lab : ∀ e ∈ I.edges, pairOf e.2.2 ≠ (0, 0)

theorem itsOK_of_itsOk {I : Gr String Lab} (h : itsOk I = true) : ItsOK I := by
  simp only [itsOk, Bool.and_eq_true, pairwiseB_iff, List.all_eq_true] at h
  obtain ⟨⟨⟨⟨h1, h2⟩, h3⟩, h4⟩, h5⟩ := h
  refine ⟨h1.imp ?_, ?_, h3.imp ?_, simple_of_simpleOk h4, ?_⟩
  · intro a b hab; simpa using hab
  · intro a ha; simpa using h2 a ha
  · intro a b hab; simpa using hab
  · intro e he
    have := (h5 e he).2
    cases hl : e.2.2 with
    | s o =>
      rw [hl] at this
      simp only [bne_iff_ne, ne_eq] at this
      simp only [pairOf, ne_eq, Prod.mk.injEq, and_self]
      exact this
    | p g h' =>
      rw [hl] at this
      simp only [Bool.not_eq_true', Bool.and_eq_false_iff, beq_eq_false_iff_ne, ne_eq] at this
      simp only [pairOf, ne_eq, Prod.mk.injEq, not_and]
      intro hg hh
      rcases this with h | h
      · exact h hg
      · exact h hh

/-- component `k` of a pair -/
def sel (k : Bool) (p : Int × Int) : Int := if k then p.2 else p.1

theorem comp_some {k : Bool} {lab : Lab} {o : Int} (h : comp k lab = some o) : o = sel k (pairOf lab) := by
  cases lab with
  | s o' => simp only [comp, Option.some.injEq] at h; subst h; cases k <;> rfl
  | p g h' =>
    rw [comp_p] at h
    by_cases hz : (if k then h' else g) = 0
    · rw [if_pos hz] at h; cases h
    · rw [if_neg hz] at h; cases h; rfl

theorem comp_none {k : Bool} {lab : Lab} (h : comp k lab = none) : sel k (pairOf lab) = 0 := by
  cases lab with
  | s o' => simp [comp] at h
  | p g h' =>
    rw [comp_p] at h
    by_cases hz : (if k then h' else g) = 0
    · exact hz
    · rw [if_neg hz] at h; cases h

section resuper
variable {I : Gr String Lab}

theorem dom_mside (h : ItsOK I) (k : Bool) : Dom (mside k I) := by
  refine ⟨h.ids, h.pos, h.inj, ?_, ?_⟩
  · have := h.simple
    unfold Simple at this
    show List.Pairwise _ (List.filterMap _ I.edges)
    rw [List.pairwise_filterMap]
    refine this.imp ?_
    intro e f hef e' he' f' hf'
    cases hc : comp k e.2.2 with
    | none => rw [hc] at he'; cases he'
    | some o =>
      cases hd : comp k f.2.2 with
      | none => rw [hd] at hf'; cases hf'
      | some o' =>
        rw [hc] at he'; rw [hd] at hf'
        cases he'; cases hf'
        exact hef
  · intro e' he'
    simp only [mside, List.mem_filterMap] at he'
    obtain ⟨e, he, hF⟩ := he'
    cases hc : comp k e.2.2 with
    | none => rw [hc] at hF; cases hF
    | some o =>
      rw [hc] at hF; cases hF
      simp only
      cases hl : e.2.2 with
      | s o' =>
        rw [hl] at hc
        simp only [comp, Option.some.injEq] at hc
        subst hc
        have := h.lab e he
        rw [hl] at this
        simpa [pairOf] using this
      | p g h' => rw [hl] at hc; exact comp_ne_zero hc

theorem aamOf_mside (k : Bool) (u : Int) : aamOf (mside k I) u = aamOfI I u := rfl

/-- the order side `k` sees between the atoms numbered `a` and `b`, given the ITS edge between them -/
theorem ordOf_mside (h : ItsOK I) (k : Bool) {e : Int × Int × Lab} (he : e ∈ I.edges) {a b : Int}
    (h1 : aamOfI I e.1 = some a) (h2 : aamOfI I e.2.1 = some b) :
    ordOf (mside k I) a b = sel k (pairOf e.2.2) := by
  have hD := dom_mside h k
  cases hc : comp k e.2.2 with
  | some o =>
    have hm : (e.1, e.2.1, o) ∈ (mside k I).edges := by
      simp only [mside, List.mem_filterMap]
      exact ⟨e, he, by rw [hc]; rfl⟩
    rw [ordOf_of_edge hD hm h1 h2]
    exact comp_some hc
  | none =>
    rw [comp_none hc]
    apply ordOf_zero_of_not_bonded
    rw [List.any_eq_false]
    intro f' hf' hj
    simp only [mside, List.mem_filterMap] at hf'
    obtain ⟨f, hf, hF⟩ := hf'
    cases hd : comp k f.2.2 with
    | none => rw [hd] at hF; cases hF
    | some o =>
      rw [hd] at hF; cases hF
      have hsp : samePair f.1 f.2.1 e.1 e.2.1 = true := by
        rcases joins_iff.mp hj with ⟨j1, j2⟩ | ⟨j1, j2⟩
        · exact aam_pair_inj hD j1 j2 h1 h2 (samePair_self a b)
        · exact aam_pair_inj hD j1 j2 h1 h2 (by rw [samePair_swap]; exact samePair_self b a)
      have : f = e := eq_of_pairwise_not (P := fun (e f : Int × Int × Lab) => samePair e.1 e.2.1 f.1 f.2.1 = true)
        (fun x y h => by rw [samePair_symm]; exact h) h.simple hf he hsp
      rw [this, hc] at hd; cases hd

/-- an ITS edge between mapped atoms is the specification's edge of the two halves -/
theorem named_edge_in_spec (h : ItsOK I) {e : Int × Int × Lab} (he : e ∈ I.edges) {a b : Int}
    (h1 : aamOfI I e.1 = some a) (h2 : aamOfI I e.2.1 = some b) :
    (a, b, pairOf e.2.2) ∈ specEdges (mside false I) (mside true I) := by
  have hD := dom_mside h false
  rw [mem_specEdges, ordOf_mside h false he h1 h2, ordOf_mside h true he h1 h2]
  have ha : a ∈ mapNums (mside false I) := mem_mapNums.mpr ⟨_, (aamOf_some_iff hD).mp h1⟩
  have hb : b ∈ mapNums (mside false I) := mem_mapNums.mpr ⟨_, (aamOf_some_iff hD).mp h2⟩
  refine ⟨mem_specNums.mpr ⟨ha, hD.pos a ha, ha⟩, mem_specNums.mpr ⟨hb, hD.pos b hb, hb⟩, rfl, ?_⟩
  intro hz
  apply h.lab e he
  simp only [sel] at hz
  exact Prod.ext hz.1 hz.2

theorem edge_of_ordOf_ne_zero (k : Bool) {a b : Int} (hne : ordOf (mside k I) a b ≠ 0) :
    ∃ e ∈ I.edges, (aamOfI I e.1 = some a ∧ aamOfI I e.2.1 = some b) ∨
      (aamOfI I e.1 = some b ∧ aamOfI I e.2.1 = some a) := by
  obtain ⟨e', he', hj, _⟩ := ordOf_ne_zero hne
  simp only [mside, List.mem_filterMap] at he'
  obtain ⟨e, he, hF⟩ := he'
  cases hc : comp k e.2.2 with
  | none => rw [hc] at hF; cases hF
  | some o =>
    rw [hc] at hF; cases hF
    exact ⟨e, he, joins_iff.mp hj⟩

theorem mem_nameByAam_edges {a b : Int} {l : Int × Int} :
    (a, b, l) ∈ (nameByAam I).edges ↔
      ∃ e ∈ I.edges, aamOfI I e.1 = some a ∧ aamOfI I e.2.1 = some b ∧ l = pairOf e.2.2 := by
  simp only [nameByAam, List.mem_filterMap]
  constructor
  · rintro ⟨e, he, hF⟩
    cases h1 : aamOfI I e.1 with
    | none => rw [h1] at hF; cases hF
    | some a' =>
      cases h2 : aamOfI I e.2.1 with
      | none => rw [h1, h2] at hF; cases hF
      | some b' =>
        rw [h1, h2] at hF
        simp only [Option.some.injEq, Prod.mk.injEq] at hF
        obtain ⟨rfl, rfl, rfl⟩ := hF
        exact ⟨e, he, h1, h2, rfl⟩
  · rintro ⟨e, he, h1, h2, rfl⟩
    exact ⟨e, he, by rw [h1, h2]⟩

/-- the specification of the two halves is the ITS itself, named by map number -/
theorem itsSpec_mside (h : ItsOK I) : itsSpec (mside false I) (mside true I) = view (nameByAam I) := by
  have hD := dom_mside h false
  unfold itsSpec
  rw [view_eq_iff]
  constructor
  · intro x
    simp only
    rw [mem_specNodes]
    simp only [nameByAam, List.mem_filterMap]
    constructor
    · rintro ⟨a, ha, rfl⟩
      obtain ⟨n, s, hn⟩ := mem_mapNums.mp (mem_specNums.mp ha).1
      exact ⟨(n, s, some a), hn, by rw [symOf_of_mem hD hn rfl]; rfl⟩
    · rintro ⟨⟨n, s, a?⟩, hn, hF⟩
      cases a? with
      | none => cases hF
      | some a =>
        simp only [Option.map_some, Option.some.injEq] at hF
        subst hF
        have ha : a ∈ mapNums (mside false I) := mem_mapNums.mpr ⟨n, s, hn⟩
        exact ⟨a, mem_specNums.mpr ⟨ha, hD.pos a ha, ha⟩, by rw [symOf_of_mem hD hn rfl]⟩
  · intro a b l
    constructor
    · intro hs
      have hs' : (a, b, l) ∈ specEdges (mside false I) (mside true I) := hs.elim id specEdges_symm
      obtain ⟨_, _, rfl, hz⟩ := mem_specEdges.mp hs'
      have : ∃ e ∈ I.edges, (aamOfI I e.1 = some a ∧ aamOfI I e.2.1 = some b) ∨
          (aamOfI I e.1 = some b ∧ aamOfI I e.2.1 = some a) := by
        by_cases hg : ordOf (mside false I) a b = 0
        · exact edge_of_ordOf_ne_zero true (fun hh => hz ⟨hg, hh⟩)
        · exact edge_of_ordOf_ne_zero false hg
      obtain ⟨e, he, ⟨h1, h2⟩ | ⟨h1, h2⟩⟩ := this
      · refine Or.inl (mem_nameByAam_edges.mpr ⟨e, he, h1, h2, ?_⟩)
        rw [ordOf_mside h false he h1 h2, ordOf_mside h true he h1 h2]; rfl
      · refine Or.inr (mem_nameByAam_edges.mpr ⟨e, he, h1, h2, ?_⟩)
        rw [ordOf_comm _ a b, ordOf_comm _ a b, ordOf_mside h false he h1 h2, ordOf_mside h true he h1 h2]; rfl
    · rintro (hm | hm)
      · obtain ⟨e, he, h1, h2, rfl⟩ := mem_nameByAam_edges.mp hm
        exact Or.inl (named_edge_in_spec h he h1 h2)
      · obtain ⟨e, he, h1, h2, rfl⟩ := mem_nameByAam_edges.mp hm
        exact Or.inr (named_edge_in_spec h he h1 h2)

/-- **C10, re-superposition.**  For an ITS graph whose nodes carry injective map numbers and none of
    whose labels is "no bond on both sides", `get_its(*split_its(I))` is `I` with every node named
    by its map number (same atoms, same edges, same labels; a scalar label `o` reads `(o, o)`;
    nodes without a map number, and their bonds, do not reappear). -/
theorem its_of_split (h : ItsOK I) :
    ∃ J, resuper I = some J ∧ view J = view (nameByAam I) := by
  refine ⟨getIts (mside false I) (mside true I), ?_, ?_⟩
  · unfold resuper
    rw [splitIts_eq h.simple]
    simp [toMol_side]
  · rw [its_exact (dom_mside h false) (dom_mside h true), itsSpec_mside h]

/-- the two graphs `split_its` returns, as molecular graphs -/
theorem split_halves (h : ItsOK I) :
    toMol (splitIts I).1 = some (mside false I) ∧ toMol (splitIts I).2 = some (mside true I) := by
  rw [splitIts_eq h.simple]
  exact ⟨toMol_side false I, toMol_side true I⟩

/-- every node is named by its map number (ITS graphs as `get_its` / `ITS.from_smiles` make them) -/
def NodesNamedByAam (I : Gr String Lab) : Prop := ∀ x ∈ I.nodes, x.2.2 = some x.1

/-- `I` as a value of the type `get_its` returns (a scalar label `o` reads `(o, o)`) -/
def asIts (I : Gr String Lab) : Its :=
  ⟨I.nodes.map fun x => (x.1, some x.2.1, x.2.2), I.edges.map fun e => (e.1, e.2.1, pairOf e.2.2)⟩

theorem nameByAam_of_named (hn : NodesNamedByAam I)
    (hends : ∀ e ∈ I.edges, hasNode I e.1 = true ∧ hasNode I e.2.1 = true) : nameByAam I = asIts I := by
  have haam : ∀ u, hasNode I u = true → aamOfI I u = some u := by
    intro u hu
    unfold aamOfI
    cases hf : I.nodes.find? (fun x => x.1 == u) with
    | none =>
      rw [List.find?_eq_none] at hf
      obtain ⟨x, hx, hxu⟩ := List.any_eq_true.mp hu
      exact absurd hxu (hf x hx)
    | some x =>
      have := List.find?_some hf
      simp only [beq_iff_eq] at this
      simp only [Option.bind_some]
      rw [hn x (List.mem_of_find?_eq_some hf), this]
  unfold nameByAam asIts
  congr 1
  · have : ∀ L : List (Int × String × Option Int), (∀ x ∈ L, x.2.2 = some x.1) →
        L.filterMap (fun x => x.2.2.map fun a => (a, some x.2.1, some a)) =
        L.map fun x => (x.1, some x.2.1, x.2.2) := by
      intro L hL
      induction L with
      | nil => rfl
      | cons x xs ih =>
        rw [List.filterMap_cons, List.map_cons, ih fun y hy => hL y (List.mem_cons_of_mem _ hy),
          hL x List.mem_cons_self]
        rfl
    exact this _ hn
  · have : ∀ L : List (Int × Int × Lab), (∀ e ∈ L, aamOfI I e.1 = some e.1 ∧ aamOfI I e.2.1 = some e.2.1) →
        L.filterMap (fun e => match aamOfI I e.1, aamOfI I e.2.1 with
          | some a, some b => some (a, b, pairOf e.2.2)
          | _, _ => none) = L.map fun e => (e.1, e.2.1, pairOf e.2.2) := by
      intro L hL
      induction L with
      | nil => rfl
      | cons x xs ih =>
        rw [List.filterMap_cons, List.map_cons, ih fun y hy => hL y (List.mem_cons_of_mem _ hy),
          (hL x List.mem_cons_self).1, (hL x List.mem_cons_self).2]
    exact this _ fun e he => ⟨haam _ (hends e he).1, haam _ (hends e he).2⟩

/-- `C10.its_of_split` in the form of the statement: nodes named by map number, labels not both
    zero ⇒ `get_its(split_its I) = I` as a set of nodes and undirected labelled edges -/
theorem its_of_split_named (h : ItsOK I) (hn : NodesNamedByAam I)
    (hends : ∀ e ∈ I.edges, hasNode I e.1 = true ∧ hasNode I e.2.1 = true) :
    ∃ J, resuper I = some J ∧ view J = view (asIts I) := by
  obtain ⟨J, h1, h2⟩ := its_of_split h
  exact ⟨J, h1, by rw [h2, nameByAam_of_named hn hends]⟩

/-- **C10, SMILES round trip modulo RDKit.**  Writing each half to SMILES and reading it back is
    assumed to apply a symbol-, bond- and map-preserving bijection to it (node ids and the order
    of atoms and bonds change: `Renamed`).  Then superimposing what comes back gives the ITS,
    named by map number — whatever those bijections are. -/
theorem smiles_roundtrip_modulo_rdkit (h : ItsOK I) {g' h' : Mol} {π ρ : Int → Int}
    (hg' : Dom g') (hh' : Dom h') (rg : Renamed π (mside false I) g') (rh : Renamed ρ (mside true I) h') :
    view (getIts g' h') = view (nameByAam I) := by
  rw [renumbering_invariant (dom_mside h false) (dom_mside h true) hg' hh' rg rh,
    its_exact (dom_mside h false) (dom_mside h true), itsSpec_mside h]

end resuper

/-! ### `split_its ∘ get_its` -/

/-- a fully mapped reaction: both sides in the domain, every atom mapped, the same map numbers
    with the same symbols on both sides -/
structure FullyMapped (G H : Mol) : Prop where
  domG : Dom G
  domH : Dom H
  allG : ∀ x ∈ G.nodes, ∃ a, x.2.2 = some a
  allH : ∀ x ∈ H.nodes, ∃ a, x.2.2 = some a
  same : ∀ a, a ∈ mapNums G ↔ a ∈ mapNums H
  syms : ∀ a ∈ mapNums G, symOf G a = symOf H a

theorem fullyMapped_of_check {G H : Mol} (h : fullyMapped G H = true) : FullyMapped G H := by
  simp only [fullyMapped, Bool.and_eq_true, List.all_eq_true, sameSet_iff] at h
  obtain ⟨⟨⟨⟨⟨h1, h2⟩, h3⟩, h4⟩, h5⟩, h6⟩ := h
  refine ⟨dom_of_domOk h1, dom_of_domOk h2, ?_, ?_, h5, ?_⟩
  · intro x hx; exact Option.isSome_iff_exists.mp (h3 x hx)
  · intro x hx; exact Option.isSome_iff_exists.mp (h4 x hx)
  · intro a ha; simpa using h6 a ha

section splitOfIts
variable {G H : Mol}

theorem simple_liftIts (hG : Dom G) (hH : Dom H) : Simple (liftIts (getIts G H)) := by
  unfold Simple liftIts
  simp only
  rw [List.pairwise_map]
  exact getIts_simple hG hH

theorem UE_liftIts {I : Its} {u v : Int} {lab : Lab} :
    UE (liftIts I).edges u v lab ↔ ∃ g h, lab = Lab.p g h ∧ UE I.edges u v (g, h) := by
  simp only [UE, liftIts, List.mem_map]
  constructor
  · rintro (⟨e, he, hq⟩ | ⟨e, he, hq⟩)
    · simp only [Prod.mk.injEq] at hq
      obtain ⟨rfl, rfl, rfl⟩ := hq
      exact ⟨_, _, rfl, Or.inl he⟩
    · simp only [Prod.mk.injEq] at hq
      obtain ⟨rfl, rfl, rfl⟩ := hq
      exact ⟨_, _, rfl, Or.inr he⟩
  · rintro ⟨g, h, rfl, he | he⟩
    · exact Or.inl ⟨_, he, rfl⟩
    · exact Or.inr ⟨_, he, rfl⟩

/-- the edges of side `k` of the ITS of a reaction: the pairs of common atoms that side bonds -/
theorem side_edge_iff (hG : Dom G) (hH : Dom H) (k : Bool) (u v : Int) (l : Lab) :
    (sideSpec k (liftIts (getIts G H))).edge u v l ↔
      u ∈ specNums G H ∧ v ∈ specNums G H ∧ sel k (ordOf G u v, ordOf H u v) ≠ 0 ∧
        l = Lab.s (sel k (ordOf G u v, ordOf H u v)) := by
  have hx := its_exact hG hH
  unfold itsSpec at hx
  rw [view_eq_iff] at hx
  have hE : ∀ g h, UE (getIts G H).edges u v (g, h) ↔ (u, v, (g, h)) ∈ specEdges G H := fun g h =>
    ⟨fun hh => ((hx.2 u v (g, h)).mp hh).elim id specEdges_symm, fun hh => (hx.2 u v (g, h)).mpr (Or.inl hh)⟩
  show (∃ lab o, UE (liftIts (getIts G H)).edges u v lab ∧ comp k lab = some o ∧ l = Lab.s o) ↔ _
  constructor
  · rintro ⟨lab, o, hu, hc, rfl⟩
    obtain ⟨g, h, rfl, hgh⟩ := UE_liftIts.mp hu
    obtain ⟨h1, h2, heq, _⟩ := mem_specEdges.mp ((hE g h).mp hgh)
    have ho := comp_some hc
    have hne := comp_ne_zero hc
    simp only [pairOf] at ho
    rw [heq] at ho
    exact ⟨h1, h2, ho ▸ hne, by rw [ho]⟩
  · rintro ⟨h1, h2, hne, rfl⟩
    refine ⟨Lab.p (ordOf G u v) (ordOf H u v), _, UE_liftIts.mpr ⟨_, _, rfl, (hE _ _).mpr ?_⟩, ?_, rfl⟩
    · rw [mem_specEdges]
      refine ⟨h1, h2, rfl, ?_⟩
      intro hz
      apply hne
      cases k
      · exact hz.1
      · exact hz.2
    · rw [comp_p]
      cases k
      · have : ordOf G u v ≠ 0 := hne
        simp [sel, this]
      · have : ordOf H u v ≠ 0 := hne
        simp [sel, this]

theorem mem_namedMol_edges {K : Mol} {a b : Int} {l : Lab} :
    (a, b, l) ∈ (namedMol K).edges ↔
      ∃ e ∈ K.edges, aamOf K e.1 = some a ∧ aamOf K e.2.1 = some b ∧ l = Lab.s e.2.2 := by
  simp only [namedMol, List.mem_filterMap]
  constructor
  · rintro ⟨e, he, hF⟩
    cases h1 : aamOf K e.1 with
    | none => rw [h1] at hF; cases hF
    | some a' =>
      cases h2 : aamOf K e.2.1 with
      | none => rw [h1, h2] at hF; cases hF
      | some b' =>
        rw [h1, h2] at hF
        simp only [Option.some.injEq, Prod.mk.injEq] at hF
        obtain ⟨rfl, rfl, rfl⟩ := hF
        exact ⟨e, he, h1, h2, rfl⟩
  · rintro ⟨e, he, h1, h2, rfl⟩
    exact ⟨e, he, by rw [h1, h2]⟩

/-- the undirected edges of a molecular graph named by map number, through `ordOf` -/
theorem UE_namedMol {K : Mol} (hK : Dom K) (a b : Int) (l : Lab) :
    UE (namedMol K).edges a b l ↔ ordOf K a b ≠ 0 ∧ l = Lab.s (ordOf K a b) := by
  constructor
  · rintro (hm | hm)
    · obtain ⟨e, he, h1, h2, rfl⟩ := mem_namedMol_edges.mp hm
      rw [ordOf_of_edge hK he h1 h2]
      exact ⟨hK.nz e he, rfl⟩
    · obtain ⟨e, he, h1, h2, rfl⟩ := mem_namedMol_edges.mp hm
      rw [ordOf_comm, ordOf_of_edge hK he h1 h2]
      exact ⟨hK.nz e he, rfl⟩
  · rintro ⟨hne, rfl⟩
    obtain ⟨x, y, hxy | hxy, h1, h2⟩ := (ordOf_eq_iff hK hne).mp rfl
    · exact Or.inl (mem_namedMol_edges.mpr ⟨_, hxy, h1, h2, rfl⟩)
    · exact Or.inr (mem_namedMol_edges.mpr ⟨_, hxy, h2, h1, rfl⟩)

theorem mem_namedMol_nodes {K : Mol} (hK : Dom K) (x : INode) :
    x ∈ (namedMol K).nodes ↔ ∃ a, a ∈ mapNums K ∧ x = (a, symOf K a, some a) := by
  simp only [namedMol, List.mem_filterMap]
  constructor
  · rintro ⟨⟨n, s, a?⟩, hn, hF⟩
    cases a? with
    | none => cases hF
    | some a =>
      simp only [Option.map_some, Option.some.injEq] at hF
      subst hF
      exact ⟨a, mem_mapNums.mpr ⟨n, s, hn⟩, by rw [symOf_of_mem hK hn rfl]⟩
  · rintro ⟨a, ha, rfl⟩
    obtain ⟨n, s, hn⟩ := mem_mapNums.mp ha
    exact ⟨(n, s, some a), hn, by rw [symOf_of_mem hK hn rfl]; rfl⟩

theorem ordOf_ne_zero_mapped {K : Mol} (hK : Dom K) {a b : Int} (h : ordOf K a b ≠ 0) :
    a ∈ mapNums K ∧ b ∈ mapNums K := by
  obtain ⟨x, y, _, h1, h2⟩ := (ordOf_eq_iff hK h).mp rfl
  exact ⟨mem_mapNums.mpr ⟨x, (aamOf_some_iff hK).mp h1⟩, mem_mapNums.mpr ⟨y, (aamOf_some_iff hK).mp h2⟩⟩

/-- **C10, split of a superposition.**  For a fully mapped reaction, `split_its(get_its(G, H))`
    returns the reaction: each half is the corresponding side with its atoms named by map number
    (same atoms and symbols, same bonds and orders). -/
theorem split_of_its (h : FullyMapped G H) :
    view (splitOfIts G H).1 = view (namedMol G) ∧ view (splitOfIts G H).2 = view (namedMol H) := by
  have hG := h.domG
  have hH := h.domH
  have hnum : ∀ a, a ∈ specNums G H ↔ a ∈ mapNums G := fun a => by
    rw [mem_specNums]
    exact ⟨fun hh => hh.1, fun hh => ⟨hh, hG.pos a hh, (h.same a).mp hh⟩⟩
  have hx := its_exact hG hH
  unfold itsSpec at hx
  rw [view_eq_iff] at hx
  have hnodes : ∀ x, x ∈ (liftIts (getIts G H)).nodes ↔ ∃ a, a ∈ mapNums G ∧ x = (a, symOf G a, some a) := by
    intro x
    show x ∈ (getIts G H).nodes ↔ _
    rw [hx.1 x]
    simp only
    rw [mem_specNodes]
    constructor
    · rintro ⟨a, ha, rfl⟩; exact ⟨a, (hnum a).mp ha, rfl⟩
    · rintro ⟨a, ha, rfl⟩; exact ⟨a, (hnum a).mpr ha, rfl⟩
  unfold splitOfIts
  have hs := split_exact (simple_liftIts hG hH)
  rw [hs.1, hs.2]
  constructor
  · -- reactant side
    show sideSpec false _ = view (namedMol G)
    simp only [view, sideSpec, Abs.mk.injEq]
    constructor
    · funext x
      apply propext
      rw [hnodes, mem_namedMol_nodes hG]
    · funext u v l
      apply propext
      have := side_edge_iff hG hH false u v l
      simp only [sideSpec] at this
      rw [this, UE_namedMol hG, hnum, hnum]
      simp only [sel, Bool.false_eq_true, if_false]
      constructor
      · rintro ⟨_, _, h3, h4⟩; exact ⟨h3, h4⟩
      · rintro ⟨h3, h4⟩
        obtain ⟨m1, m2⟩ := ordOf_ne_zero_mapped hG h3
        exact ⟨m1, m2, h3, h4⟩
  · -- product side
    show sideSpec true _ = view (namedMol H)
    simp only [view, sideSpec, Abs.mk.injEq]
    constructor
    · funext x
      apply propext
      rw [hnodes, mem_namedMol_nodes hH]
      constructor
      · rintro ⟨a, ha, rfl⟩; exact ⟨a, (h.same a).mp ha, by rw [h.syms a ha]⟩
      · rintro ⟨a, ha, rfl⟩; exact ⟨a, (h.same a).mpr ha, by rw [h.syms a ((h.same a).mpr ha)]⟩
    · funext u v l
      apply propext
      have := side_edge_iff hG hH true u v l
      simp only [sideSpec] at this
      rw [this, UE_namedMol hH, hnum, hnum]
      simp only [sel, if_true]
      constructor
      · rintro ⟨_, _, h3, h4⟩; exact ⟨h3, h4⟩
      · rintro ⟨h3, h4⟩
        obtain ⟨m1, m2⟩ := ordOf_ne_zero_mapped hH h3
        exact ⟨(h.same u).mpr m1, (h.same v).mpr m2, h3, h4⟩

/-- the checker applied to implementation outputs decides the statement -/
theorem splitOfItsCheck_iff (g h : Gr (Option String) Lab) :
    splitOfItsCheck G H g h = true ↔ view g = view (namedMol G) ∧ view h = view (namedMol H) := by
  unfold splitOfItsCheck
  rw [Bool.and_eq_true, sameGr_iff, sameGr_iff]

end splitOfIts

theorem sameIts_iff (A B : Its) : sameIts A B = true ↔ view A = view B := by
  unfold sameIts
  rw [Bool.and_eq_true, sameSet_iff, sameEdges_iff, view_eq_iff]

/-! ### non-vacuity (tests on concrete inputs; not part of the proofs) -/

/-- ids = shuffled map numbers, edges reported larger id first, an unchanged bond, a broken and a
    formed bond -/
def I1 : Gr String Lab :=
  ⟨[(2, "C", some 2), (1, "O", some 1), (3, "C", some 3)], [(2, 1, .p 2 2), (2, 3, .p 4 0), (3, 1, .p 0 2)]⟩
/-- ids differ from map numbers, one scalar label, one triple bond (doubled: 6), a node without map number -/
def I2 : Gr String Lab :=
  ⟨[(7, "C", some 4), (0, "N", some 9), (5, "C", some 1), (6, "H", none)],
   [(7, 0, .p 6 2), (5, 7, .s 2), (6, 5, .p 2 2)]⟩

example : Simple I1 ∧ Simple I2 := ⟨simple_of_simpleOk (by decide), simple_of_simpleOk (by decide)⟩
example : (splitIts I1).1.edges = [(2, 1, .s 2), (2, 3, .s 4)] ∧ (splitIts I1).2.edges = [(2, 1, .s 2), (3, 1, .s 2)] := by decide
-- an order-3 component survives the split (mutant m18 drops it)
example : (splitIts I2).1.edges = [(7, 0, .s 6), (5, 7, .s 2), (6, 5, .s 2)] := by decide
example : splitCheck I2 (splitIts I2).1 (splitIts I2).2 = true := by decide
example : splitCheck I2 ⟨I2.nodes, [(5, 7, .s 2), (6, 5, .s 2)]⟩ (splitIts I2).2 = false := by decide
example : view (splitIts I2).1 = sideSpec false I2 ∧ view (splitIts I2).2 = sideSpec true I2 :=
  split_exact (simple_of_simpleOk (by decide))
example : ItsOK I1 ∧ ItsOK I2 := ⟨itsOK_of_itsOk (by decide), itsOK_of_itsOk (by decide)⟩
example : ∃ J, resuper I1 = some J ∧ view J = view (asIts I1) :=
  its_of_split_named (itsOK_of_itsOk (by decide)) (by unfold NodesNamedByAam; decide) (by decide)
example : ∃ J, resuper I2 = some J ∧ view J = view (nameByAam I2) := its_of_split (itsOK_of_itsOk (by decide))
example : (nameByAam I2).nodes = [(4, some "C", some 4), (9, some "N", some 9), (1, some "C", some 1)] ∧
    (nameByAam I2).edges = [(4, 9, (6, 2)), (1, 4, (2, 2))] := by decide
example : (resuper I2).map (fun J => (canonIts J).edges) = some [(1, 4, (2, 2)), (4, 9, (6, 2))] := by decide
-- RDKit's part, instantiated with a renaming that really renames, reverses and flips
example : view (getIts (renameFlip (· + 10) (mside false I2)) (renameFlip (fun n => 3 * n) (mside true I2))) =
    view (nameByAam I2) :=
  smiles_roundtrip_modulo_rdkit (itsOK_of_itsOk (by decide)) (dom_of_domOk (by decide)) (dom_of_domOk (by decide))
    (renamed_renameFlip (by intro x y h; omega) _) (renamed_renameFlip (by intro x y h; omega) _)

def G2 : Mol := ⟨[(5, "C", some 2), (3, "O", some 1), (1, "C", some 3)], [(5, 3, 2), (5, 1, 4)]⟩
def H2 : Mol := ⟨[(0, "O", some 1), (4, "C", some 3), (2, "C", some 2)], [(2, 0, 2), (4, 0, 2), (4, 2, 2)]⟩
example : FullyMapped G2 H2 := fullyMapped_of_check (by decide)
example : view (splitOfIts G2 H2).1 = view (namedMol G2) ∧ view (splitOfIts G2 H2).2 = view (namedMol H2) :=
  split_of_its (fullyMapped_of_check (by decide))
example : (canonGr (splitOfIts G2 H2).2).edges = [(1, 2, .s 2), (1, 3, .s 2), (2, 3, .s 2)] := by decide

end C10
