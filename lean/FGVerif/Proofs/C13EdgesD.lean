import FGVerif.Proofs.C13EdgesC
/-!
  C13 (edge level), part D: `shiftGraph`, `compose`, `removeNode`, `relabelCopy` at the level of
  `edgeData`, and preservation of `WF` by each of them.
-/
set_option linter.unusedSimpArgs false
namespace C13.E
open Graph

/-! ### `shiftGraph` -/

theorem shift_nodeIds (h : Graph) (k : Int) : (shiftGraph h k).nodeIds = h.nodeIds.map (· + k) := by
  simp [shiftGraph, Graph.nodeIds, Function.comp_def]

theorem shift_multi (h : Graph) (k : Int) : (shiftGraph h k).multi = h.multi := rfl

theorem shift_nodes_length (h : Graph) (k : Int) : (shiftGraph h k).nodes.length = h.nodes.length := by
  simp [shiftGraph]

theorem shift_adjRow (h : Graph) (k a : Int) :
    (shiftGraph h k).adjRow a = (h.adjRow (a - k)).map fun e => (e.1 + k, e.2) := by
  rw [adjRow_eq, adjRow_eq]
  have : (shiftGraph h k).adj = h.adj.map fun r => (r.1 + k, (fun row : Row => row.map fun e => (e.1 + k, e.2)) r.2) := rfl
  rw [this, lk_shift]
  by_cases hm : a - k ∈ ids h.adj
  · simp [hm]
  · simp [hm, lk_eq_nil hm]

theorem shift_neighbors (h : Graph) (k a : Int) :
    (shiftGraph h k).neighbors a = (h.neighbors (a - k)).map (· + k) := by
  rw [neighbors_row, shift_adjRow, neighbors_row]
  simp [ids, Function.comp_def]

theorem shift_edgeData (h : Graph) (k a b : Int) :
    (shiftGraph h k).edgeData a b = h.edgeData (a - k) (b - k) := by
  rw [edgeData_row, shift_adjRow, edgeData_row]
  have := lk_shift (h.adjRow (a - k)) (fun kd : KeyDict => kd) k b
  rw [this]
  by_cases hm : b - k ∈ ids (h.adjRow (a - k))
  · simp [hm]
  · simp [hm, lk_eq_nil hm]

theorem nodup_map_inj_on {α β : Type} {f : α → β} {l : List α} (hn : l.Nodup)
    (hf : ∀ a ∈ l, ∀ b ∈ l, f a = f b → a = b) : (l.map f).Nodup := by
  induction l with
  | nil => simp
  | cons x xs ih =>
    rw [List.nodup_cons] at hn
    rw [List.map_cons, List.nodup_cons]
    refine ⟨?_, ih hn.2 (fun a ha b hb => hf a (List.mem_cons_of_mem _ ha) b (List.mem_cons_of_mem _ hb))⟩
    intro hm
    obtain ⟨y, hy, e⟩ := List.mem_map.mp hm
    have := hf y (List.mem_cons_of_mem _ hy) x List.mem_cons_self e
    exact hn.1 (this ▸ hy)

theorem nodup_map_add {l : List Int} (hn : l.Nodup) (k : Int) : (l.map (· + k)).Nodup := by
  apply nodup_map_inj_on hn
  intro x _ y _ h; omega

theorem mem_map_add {l : List Int} {k v : Int} : v ∈ l.map (· + k) ↔ v - k ∈ l := by
  simp only [List.mem_map]
  constructor
  · rintro ⟨x, hx, rfl⟩; have : x + k - k = x := by omega
    rw [this]; exact hx
  · intro h; exact ⟨v - k, h, by omega⟩

theorem WF_shift {h : Graph} (w : WF h) (k : Int) : WF (shiftGraph h k) := by
  refine ⟨?_, ?_, ?_, ?_, ?_, ?_, ?_, ?_⟩
  · show ids (shiftGraph h k).adj = (shiftGraph h k).nodeIds
    rw [shift_nodeIds, ← w.rows]
    exact ids_shift h.adj (fun row : Row => row.map fun e => (e.1 + k, e.2)) k
  · rw [shift_nodeIds]; exact nodup_map_add w.nodup k
  · intro u; rw [shift_neighbors]; exact nodup_map_add (w.nbrNodup _) k
  · intro u v hv
    rw [shift_neighbors, mem_map_add] at hv
    rw [shift_nodeIds, mem_map_add]; exact w.closed _ _ hv
  · intro u v hv
    rw [shift_neighbors, mem_map_add] at hv
    rw [shift_edgeData]; exact w.nonempty _ _ hv
  · intro u v; rw [shift_edgeData]; exact w.keysNodup _ _
  · intro hm u v; rw [shift_edgeData]; exact w.simple hm _ _
  · intro u v; rw [shift_edgeData, shift_edgeData]; exact w.symm _ _

/-! ### one stage of `compose`: add the nodes, then the edges, of `g` to `r` -/

/-- `add_nodes_from(g.nodes); add_edges_from(g.edges)` -/
def stage (r g : Graph) : Graph := addEdgesFrom (addNodesFrom r g.nodes) g.edges

theorem compose_eq (g h : Graph) : compose g h = stage (stage { multi := g.multi } g) h := rfl

/-- the graph after the nodes were added -/
def withNodes (r g : Graph) : Graph :=
  { r with nodes := r.nodes ++ g.nodes, adj := r.adj ++ g.nodes.map fun n => (n.1, []) }

structure StageOk (r g : Graph) : Prop where
  wr : WF r
  wg : WF g
  disj : ∀ a ∈ g.nodeIds, a ∉ r.nodeIds

theorem stage_eq {r g : Graph} (s : StageOk r g) : stage r g = addEdgesFrom (withNodes r g) g.edges := by
  unfold stage withNodes
  rw [addNodesFrom_eq r g.nodes s.wg.nodup s.disj]

theorem withNodes_nodeIds (r g : Graph) : (withNodes r g).nodeIds = r.nodeIds ++ g.nodeIds := by
  simp [withNodes, Graph.nodeIds]

theorem withNodes_adjRow (r g : Graph) (a : Int) : (withNodes r g).adjRow a = r.adjRow a := by
  rw [adjRow_eq, adjRow_eq]; exact lk_extend r.adj g.nodes a

theorem WF_withNodes {r g : Graph} (s : StageOk r g) : WF (withNodes r g) := by
  apply WF_of_adjRow_eq s.wr
  · show ids (withNodes r g).adj = (withNodes r g).nodeIds
    rw [withNodes_nodeIds, ← s.wr.rows]
    simp [withNodes, ids, Function.comp_def, Graph.nodeIds]
  · rw [withNodes_nodeIds, List.nodup_append]
    refine ⟨s.wr.nodup, s.wg.nodup, ?_⟩
    intro a ha b hb e; subst e; exact s.disj a hb ha
  · rfl
  · intro a ha; rw [withNodes_nodeIds]; exact List.mem_append_left _ ha
  · exact withNodes_adjRow r g

theorem stage_endsIn {r g : Graph} (s : StageOk r g) : EndsIn (withNodes r g).nodeIds g.edges := by
  intro e he
  have := edges_endsIn s.wg e he
  rw [withNodes_nodeIds]
  exact ⟨List.mem_append_right _ this.1, List.mem_append_right _ this.2⟩

theorem WF_stage {r g : Graph} (s : StageOk r g) (hmulti : g.multi = r.multi) : WF (stage r g) := by
  rw [stage_eq s]
  apply WF_addEdgesFrom (WF_withNodes s) (stage_endsIn s)
  intro hm
  have : g.multi = false := by rw [hmulti]; exact hm
  exact edges_key_zero s.wg this

theorem stage_nodes {r g : Graph} (s : StageOk r g) : (stage r g).nodes = r.nodes ++ g.nodes := by
  rw [stage_eq s, addEdgesFrom_nodes (stage_endsIn s)]; rfl

theorem stage_nodeIds {r g : Graph} (s : StageOk r g) : (stage r g).nodeIds = r.nodeIds ++ g.nodeIds := by
  unfold Graph.nodeIds; rw [stage_nodes s]; simp

theorem stage_multi {r g : Graph} (s : StageOk r g) : (stage r g).multi = r.multi := by
  rw [stage_eq s, addEdgesFrom_multi (stage_endsIn s)]; rfl

theorem stage_edgeData {r g : Graph} (s : StageOk r g) (a b : Int) :
    (stage r g).edgeData a b = r.edgeData a b ++ g.edgeData a b := by
  have h0 : (withNodes r g).edgeData a b = r.edgeData a b := edgeData_congr (withNodes_adjRow r g a) b
  rw [stage_eq s, edgeData_addEdgesFrom (WF_withNodes s).rows (stage_endsIn s), sel_edges s.wg, h0]
  rw [sel_edges s.wg, h0]
  by_cases hr : r.edgeData a b = []
  · rw [hr]; simpa using s.wg.keysNodup a b
  · have : g.edgeData a b = [] := by
      apply Classical.byContradiction
      intro hg
      exact s.disj a (s.wg.left_mem hg) (s.wr.left_mem hr)
    rw [this]; simpa using s.wr.keysNodup a b

/-! ### `compose` -/

/-- the empty graph `compose` starts from -/
theorem WF_empty (m : Bool) : WF { multi := m } :=
  WF_of_rows_nil rfl (by simp [Graph.nodeIds]) (fun a => by rw [adjRow_eq]; rfl)

structure ComposeOk (g h : Graph) : Prop where
  wg : WF g
  wh : WF h
  disj : ∀ a ∈ h.nodeIds, a ∉ g.nodeIds

theorem ComposeOk.s1 {g h : Graph} (c : ComposeOk g h) : StageOk { multi := g.multi } g :=
  ⟨WF_empty _, c.wg, fun _ _ => by simp [Graph.nodeIds]⟩

theorem ComposeOk.s2 {g h : Graph} (c : ComposeOk g h) : StageOk (stage { multi := g.multi } g) h := by
  refine ⟨WF_stage c.s1 rfl, c.wh, ?_⟩
  intro a ha; rw [stage_nodeIds c.s1]; simpa [Graph.nodeIds] using c.disj a ha

theorem WF_compose {g h : Graph} (c : ComposeOk g h) (hm : h.multi = g.multi) : WF (compose g h) := by
  rw [compose_eq]; exact WF_stage c.s2 (by rw [stage_multi c.s1]; exact hm)

theorem compose_nodes {g h : Graph} (c : ComposeOk g h) : (compose g h).nodes = g.nodes ++ h.nodes := by
  rw [compose_eq, stage_nodes c.s2, stage_nodes c.s1]; rfl

theorem compose_nodeIds {g h : Graph} (c : ComposeOk g h) : (compose g h).nodeIds = g.nodeIds ++ h.nodeIds := by
  unfold Graph.nodeIds; rw [compose_nodes c]; simp

theorem compose_multi {g h : Graph} (c : ComposeOk g h) : (compose g h).multi = g.multi := by
  rw [compose_eq, stage_multi c.s2, stage_multi c.s1]

theorem compose_edgeData {g h : Graph} (c : ComposeOk g h) (a b : Int) :
    (compose g h).edgeData a b = g.edgeData a b ++ h.edgeData a b := by
  rw [compose_eq, stage_edgeData c.s2, stage_edgeData c.s1]
  have : ({ multi := g.multi } : Graph).edgeData a b = [] := by rw [edgeData_eq]; rfl
  rw [this]; rfl

/-! ### `removeNode` -/

theorem removeNode_nodeIds (g : Graph) (x : Int) : (g.removeNode x).nodeIds = g.nodeIds.filter (· != x) := by
  show ids (g.nodes.filter (·.1 != x)) = _
  exact ids_filter g.nodes (· != x)

theorem removeNode_adjRow (g : Graph) (x a : Int) :
    (g.removeNode x).adjRow a = if a = x then [] else (g.adjRow a).filter (·.1 != x) := by
  rw [adjRow_eq, adjRow_eq]
  have e0 : (g.removeNode x).adj
      = (g.adj.filter fun r => r.1 != x).map fun r => (r.1, r.2.filter (·.1 != x)) := rfl
  have e1 := lk_map_val (g.adj.filter fun r => r.1 != x) (fun row : Row => row.filter (·.1 != x)) a
  have e2 := lk_filter g.adj (fun i => i != x) a
  have e3 := ids_filter g.adj (fun i => i != x)
  rw [e0, e1, e2, e3]
  by_cases ha : a = x
  · simp [ha]
  · by_cases hm : a ∈ ids g.adj
    · simp [ha, hm]
    · simp [ha, hm, lk_eq_nil hm]

theorem removeNode_neighbors (g : Graph) (x a : Int) :
    (g.removeNode x).neighbors a = if a = x then [] else (g.neighbors a).filter (· != x) := by
  rw [neighbors_row, removeNode_adjRow, neighbors_row]
  by_cases ha : a = x
  · simp [ha]
  · simp only [ha, if_false]; exact ids_filter (g.adjRow a) (· != x)

theorem removeNode_edgeData (g : Graph) (x a b : Int) :
    (g.removeNode x).edgeData a b = if a = x ∨ b = x then [] else g.edgeData a b := by
  rw [edgeData_row, removeNode_adjRow, edgeData_row]
  by_cases ha : a = x
  · simp [ha]
  · simp only [ha, if_false, false_or]
    have := lk_filter (g.adjRow a) (fun i => i != x) b
    rw [this]
    by_cases hb : b = x <;> simp [hb]

theorem removeNode_multi (g : Graph) (x : Int) : (g.removeNode x).multi = g.multi := rfl

theorem WF_removeNode {g : Graph} (w : WF g) (x : Int) : WF (g.removeNode x) := by
  refine ⟨?_, ?_, ?_, ?_, ?_, ?_, ?_, ?_⟩
  · show ids (g.removeNode x).adj = (g.removeNode x).nodeIds
    rw [removeNode_nodeIds, ← w.rows]
    have e0 : (g.removeNode x).adj
      = (g.adj.filter fun r => r.1 != x).map fun r => (r.1, r.2.filter (·.1 != x)) := rfl
    have e1 := ids_map_val (g.adj.filter fun r => r.1 != x) (fun row : Row => row.filter (·.1 != x))
    have e3 := ids_filter g.adj (fun i => i != x)
    rw [e0, e1, e3]
  · rw [removeNode_nodeIds]; exact w.nodup.sublist List.filter_sublist
  · intro u
    rw [removeNode_neighbors]
    by_cases hu : u = x
    · simp [hu]
    · simp only [hu, if_false]; exact (w.nbrNodup u).sublist List.filter_sublist
  · intro u v hv
    rw [removeNode_neighbors] at hv
    by_cases hu : u = x
    · simp [hu] at hv
    · simp only [hu, if_false, List.mem_filter] at hv
      rw [removeNode_nodeIds, List.mem_filter]
      exact ⟨w.closed _ _ hv.1, hv.2⟩
  · intro u v hv
    rw [removeNode_neighbors] at hv
    by_cases hu : u = x
    · simp [hu] at hv
    · simp only [hu, if_false, List.mem_filter, bne_iff_ne, ne_eq] at hv
      rw [removeNode_edgeData]
      simp only [hu, hv.2, or_self, if_false]
      exact w.nonempty _ _ hv.1
  · intro u v
    rw [removeNode_edgeData]
    split
    · simp [keys]
    · exact w.keysNodup _ _
  · intro hm u v
    rw [removeNode_edgeData]
    split
    · intro h; exact absurd rfl h
    · exact w.simple hm _ _
  · intro u v
    rw [removeNode_edgeData, removeNode_edgeData, w.symm u v]
    have : (v = x ∨ u = x) ↔ (u = x ∨ v = x) := Or.comm
    simp only [this]

/-! ### `relabelCopy` for a renaming that is inverted by `inv` on the nodes -/

/-- `ρ` restricted to the nodes of `g` is a bijection with inverse `inv` -/
def Inverts (g : Graph) (ρ inv : Int → Int) : Prop := ∀ u ∈ g.nodeIds, ∀ c, ρ u = c ↔ u = inv c

/-- the graph `relabelCopy` starts from -/
def relabelBase (g : Graph) (m : List (Int × Int)) : Graph :=
  { multi := g.multi, nodes := g.nodes.map fun n => (mapId m n.1, n.2),
    adj := (g.nodes.map fun n => (mapId m n.1, n.2)).map fun n => (n.1, []) }

theorem relabelCopy_eq (g : Graph) (m : List (Int × Int)) :
    relabelCopy g m
      = addEdgesFrom (relabelBase g m) (g.edges.map fun e => (mapId m e.1, mapId m e.2.1, e.2.2.1, e.2.2.2)) := rfl

theorem relabelBase_nodeIds (g : Graph) (m : List (Int × Int)) :
    (relabelBase g m).nodeIds = g.nodeIds.map (mapId m) := by
  simp [relabelBase, Graph.nodeIds, Function.comp_def]

theorem WF_relabelBase {g : Graph} (w : WF g) {m : List (Int × Int)} {inv : Int → Int}
    (hi : Inverts g (mapId m) inv) : WF (relabelBase g m) := by
  apply WF_of_rows_nil
  · show ids (relabelBase g m).adj = (relabelBase g m).nodeIds
    simp [relabelBase, Graph.nodeIds, ids, Function.comp_def]
  · rw [relabelBase_nodeIds]
    apply nodup_map_inj_on w.nodup
    intro a ha b hb e
    have h1 := (hi a ha (mapId m b)).mp e
    have h2 := (hi b hb (mapId m b)).mp rfl
    rw [h1, ← h2]
  · intro a; rw [adjRow_eq]; exact lk_const_nil _ a

theorem relabel_endsIn {g : Graph} (w : WF g) (m : List (Int × Int)) :
    EndsIn (relabelBase g m).nodeIds (g.edges.map fun e => (mapId m e.1, mapId m e.2.1, e.2.2.1, e.2.2.2)) := by
  intro e he
  obtain ⟨e0, he0, rfl⟩ := List.mem_map.mp he
  have := edges_endsIn w e0 he0
  rw [relabelBase_nodeIds]
  exact ⟨List.mem_map_of_mem this.1, List.mem_map_of_mem this.2⟩

theorem WF_relabelCopy {g : Graph} (w : WF g) {m : List (Int × Int)} {inv : Int → Int}
    (hi : Inverts g (mapId m) inv) : WF (relabelCopy g m) := by
  rw [relabelCopy_eq]
  apply WF_addEdgesFrom (WF_relabelBase w hi) (relabel_endsIn w m)
  intro hm e he
  obtain ⟨e0, he0, rfl⟩ := List.mem_map.mp he
  exact edges_key_zero w hm e0 he0

theorem relabelCopy_nodes {g : Graph} (w : WF g) (m : List (Int × Int)) :
    (relabelCopy g m).nodes = g.nodes.map fun n => (mapId m n.1, n.2) := by
  rw [relabelCopy_eq, addEdgesFrom_nodes (relabel_endsIn w m)]; rfl

theorem relabelCopy_edgeData {g : Graph} (w : WF g) {m : List (Int × Int)} {inv : Int → Int}
    (hi : Inverts g (mapId m) inv) (a b : Int) :
    (relabelCopy g m).edgeData a b = g.edgeData (inv a) (inv b) := by
  have hsel : sel a b (g.edges.map fun e => (mapId m e.1, mapId m e.2.1, e.2.2.1, e.2.2.2))
      = g.edgeData (inv a) (inv b) := by
    rw [sel_map (mapId m) inv g.edges, sel_edges w]
    intro e he c
    have := edges_endsIn w e he
    exact ⟨hi _ this.1 c, hi _ this.2 c⟩
  have h0 : (relabelBase g m).edgeData a b = [] := by
    rw [edgeData_eq]
    have : lk (relabelBase g m).adj a = [] := lk_const_nil _ a
    rw [this]; rfl
  rw [relabelCopy_eq, edgeData_addEdgesFrom (WF_relabelBase w hi).rows (relabel_endsIn w m), hsel, h0]
  · rfl
  · rw [hsel, h0]; simpa using w.keysNodup _ _

end C13.E
