import FGVerif.Proofs.C18Lemmas
/-!
  C18 — batches: `_its_from_torch_databatch` inverts the concatenation-with-offsets `batchOf`
  (the assumed contract of `Batch.from_data_list`), graph by graph.
-/
namespace C18

/-! ### `listMax`, `getD` on appended lists -/

theorem foldl_max_ge_init (l : List Nat) : ∀ a, a ≤ l.foldl max a := by
  induction l with
  | nil => intro a; simp
  | cons x l ih => intro a; simp only [List.foldl_cons]; exact Nat.le_trans (Nat.le_max_left a x) (ih _)

theorem foldl_max_ge_mem (l : List Nat) : ∀ a, ∀ x ∈ l, x ≤ l.foldl max a := by
  induction l with
  | nil => intro a x h; simp at h
  | cons y l ih =>
    intro a x hx
    simp only [List.foldl_cons]
    rcases List.mem_cons.mp hx with rfl | h
    · exact Nat.le_trans (Nat.le_max_right a x) (foldl_max_ge_init l _)
    · exact ih _ x h

theorem foldl_max_le (l : List Nat) (m : Nat) : ∀ a, a ≤ m → (∀ x ∈ l, x ≤ m) → l.foldl max a ≤ m := by
  induction l with
  | nil => intro a h _; simpa using h
  | cons y l ih =>
    intro a ha h
    simp only [List.foldl_cons]
    apply ih
    · have := h y List.mem_cons_self; omega
    · intro x hx; exact h x (List.mem_cons_of_mem _ hx)

theorem listMax_eq (l : List Nat) (m : Nat) (hm : m ∈ l) (hle : ∀ x ∈ l, x ≤ m) : listMax l = m := by
  have h1 : listMax l ≤ m := foldl_max_le l m 0 (Nat.zero_le _) hle
  have h2 : m ≤ listMax l := foldl_max_ge_mem l 0 m hm
  omega

theorem getD_append3 {α} (a m p : List α) (i : Nat) (d : α) :
    (a ++ (m ++ p)).getD i d =
      if i < a.length then a.getD i d
      else if i < a.length + m.length then m.getD (i - a.length) d
      else p.getD (i - a.length - m.length) d := by
  simp only [List.getD_eq_getElem?_getD]
  split
  · rename_i h; rw [List.getElem?_append_left h]
  · rename_i h
    rw [List.getElem?_append_right (by omega)]
    split
    · rw [List.getElem?_append_left (by omega)]
    · rw [List.getElem?_append_right (by omega)]

theorem getD_mem {α} (l : List α) (i : Nat) (d : α) (h : i < l.length) : l.getD i d ∈ l := by
  rw [List.getD_eq_getElem?_getD, List.getElem?_eq_getElem h]
  exact List.getElem_mem h

/-- the rows of graph `j` in a batch vector `pre ++ [j, …, j] ++ post` -/
theorem nodeIdx_block (pre post : List Nat) (n j : Nat) (hpre : ∀ b ∈ pre, b ≠ j)
    (hpost : ∀ b ∈ post, b ≠ j) :
    (List.range (pre ++ (List.replicate n j ++ post)).length).filter
        (fun i => (pre ++ (List.replicate n j ++ post)).getD i 0 == j)
      = List.range' pre.length n := by
  apply sorted_ext _ _ (List.Pairwise.filter _ List.pairwise_lt_range) (List.pairwise_lt_range' 1)
  intro i
  simp only [List.mem_filter, List.mem_range, List.mem_range'_1, beq_iff_eq, getD_append3,
    List.length_append, List.length_replicate]
  constructor
  · rintro ⟨hi, hget⟩
    split at hget
    · rename_i h
      exact absurd hget (hpre _ (getD_mem pre i 0 h))
    · split at hget
      · omega
      · exact absurd hget (hpost _ (getD_mem post _ 0 (by omega)))
  · rintro ⟨h1, h2⟩
    refine ⟨by omega, ?_⟩
    rw [if_neg (by omega), if_pos (by omega)]
    simp only [List.getD_eq_getElem?_getD, List.getElem?_replicate]
    rw [if_pos (by omega)]
    rfl

theorem map_getD_block {α} (A M P : List α) (d : α) :
    (List.range' A.length M.length).map (fun i => (A ++ (M ++ P)).getD i d) = M := by
  apply List.ext_getElem?
  intro i
  by_cases h : i < M.length
  · rw [List.getElem?_map, List.getElem?_range' h, List.getElem?_eq_getElem h]
    simp only [Option.map_some, getD_append3]
    rw [if_neg (by omega), if_pos (by omega)]
    have : A.length + 1 * i - A.length = i := by omega
    rw [this, List.getD_eq_getElem?_getD, List.getElem?_eq_getElem h]
    rfl
  · rw [List.getElem?_eq_none (by simp; omega), List.getElem?_eq_none (by omega)]

theorem filter_zip_block (EI S REI : List (Nat × Nat)) (EA TA REA : List (List Int)) (off n : Nat)
    (h1 : EI.length = EA.length) (h2 : S.length = TA.length)
    (hpre : ∀ p ∈ EI, p.1 < off) (hmid : ∀ p ∈ S, off ≤ p.1 ∧ p.1 < off + n)
    (hpost : ∀ p ∈ REI, off + n ≤ p.1) :
    ((EI ++ (S ++ REI)).zip (EA ++ (TA ++ REA))).filter (fun c => (List.range' off n).contains c.1.1)
      = S.zip TA := by
  rw [List.zip_append h1, List.zip_append h2, List.filter_append, List.filter_append]
  have e1 : (EI.zip EA).filter (fun c => (List.range' off n).contains c.1.1) = [] := by
    rw [List.filter_eq_nil_iff]
    rintro ⟨a, b⟩ hc
    have := hpre a (List.of_mem_zip hc).1
    simp only [List.contains_iff_mem, List.mem_range'_1]
    omega
  have e2 : (S.zip TA).filter (fun c => (List.range' off n).contains c.1.1) = S.zip TA := by
    rw [List.filter_eq_self]
    rintro ⟨a, b⟩ hc
    have := hmid a (List.of_mem_zip hc).1
    simp only [List.contains_iff_mem, List.mem_range'_1]
    omega
  have e3 : (REI.zip REA).filter (fun c => (List.range' off n).contains c.1.1) = [] := by
    rw [List.filter_eq_nil_iff]
    rintro ⟨a, b⟩ hc
    have := hpost a (List.of_mem_zip hc).1
    simp only [List.contains_iff_mem, List.mem_range'_1]
    omega
  rw [e1, e2, e3]
  simp

theorem unshift_cols (S : List (Nat × Nat)) (TA : List (List Int)) (off : Nat) :
    ((S.map fun p => (p.1 + off, p.2 + off)).zip TA).map
        (fun c => (((c.1.1 : Int) - off, (c.1.2 : Int) - off), c.2))
      = (S.map fun p => ((p.1 : Int), (p.2 : Int))).zip TA := by
  rw [List.zip_map_left, List.zip_map_left, List.map_map]
  apply List.map_congr_left
  rintro ⟨⟨a, b⟩, c⟩ _
  simp only [Function.comp, Prod.map, id]
  congr 2 <;> omega

/-! ### facts about `batchGo` -/

theorem batchGo_cons (t : TData) (rest : List TData) (off j : Nat) :
    batchGo (t :: rest) off j =
      ({ x := t.x ++ (batchGo rest (off + t.x.length) (j + 1)).1.x
         ei := t.ei.map (fun p => (p.1 + off, p.2 + off)) ++ (batchGo rest (off + t.x.length) (j + 1)).1.ei
         ea := t.ea ++ (batchGo rest (off + t.x.length) (j + 1)).1.ea },
       List.replicate t.x.length j ++ (batchGo rest (off + t.x.length) (j + 1)).2) := rfl

theorem batchGo_bv_mem : ∀ (ts : List TData) (off j : Nat), (∀ t ∈ ts, t.x ≠ []) →
    ∀ b, b ∈ (batchGo ts off j).2 ↔ j ≤ b ∧ b < j + ts.length := by
  intro ts
  induction ts with
  | nil => intro off j _ b; simp [batchGo]
  | cons t rest ih =>
    intro off j h b
    have hn : t.x.length ≠ 0 := by
      have := h t List.mem_cons_self
      simpa using this
    rw [batchGo_cons]
    simp only [List.mem_append, List.mem_replicate, List.length_cons,
      ih (off + t.x.length) (j + 1) (fun t ht => h t (List.mem_cons_of_mem _ ht))]
    omega

theorem batchGo_ei_ge : ∀ (ts : List TData) (off j : Nat), ∀ p ∈ (batchGo ts off j).1.ei, off ≤ p.1 := by
  intro ts
  induction ts with
  | nil => intro off j p hp; simp [batchGo] at hp
  | cons t rest ih =>
    intro off j p hp
    rw [batchGo_cons] at hp
    rcases List.mem_append.mp hp with h | h
    · obtain ⟨q, _, rfl⟩ := List.mem_map.mp h
      simp
    · have := ih _ _ p h; omega

theorem batchGo_len : ∀ (ts : List TData) (off j : Nat), (∀ t ∈ ts, t.ei.length = t.ea.length) →
    (batchGo ts off j).1.ei.length = (batchGo ts off j).1.ea.length := by
  intro ts
  induction ts with
  | nil => intro off j _; simp [batchGo]
  | cons t rest ih =>
    intro off j h
    rw [batchGo_cons]
    simp only [List.length_append, List.length_map]
    rw [h t List.mem_cons_self, ih _ _ (fun t ht => h t (List.mem_cons_of_mem _ ht))]

/-- what `_its_from_torch_data` builds from one tensor graph -/
def build (nft : NFT) (t : TData) : NxG :=
  buildIts (t.x.map nft) ((t.ei.map fun p => ((p.1 : Int), (p.2 : Int))).zip t.ea)

theorem fromTorchWith_wf (nft : NFT) (t : TData) (hwf : t.wf = true) (hne : t.ei ≠ []) :
    fromTorchWith nft t = some (build nft t) := by
  have hlen := (wf_unfold hwf).2
  simp [fromTorchWith, build, hne, hlen]

theorem fromBatchGo_batchGo (nft : NFT) : ∀ (ts : List TData),
    (∀ t ∈ ts, t.wf = true ∧ t.ei ≠ []) →
    ∀ (off j : Nat) (X : List (List Int)) (EI : List (Nat × Nat)) (EA : List (List Int)) (BV : List Nat),
      X.length = off → BV.length = off → EI.length = EA.length →
      (∀ b ∈ BV, b < j) → (∀ p ∈ EI, p.1 < off) →
      fromBatchGo nft
          ⟨X ++ (batchGo ts off j).1.x, EI ++ (batchGo ts off j).1.ei, EA ++ (batchGo ts off j).1.ea⟩
          (BV ++ (batchGo ts off j).2) (List.range' j ts.length) off
        = some (ts.map (build nft)) := by
  intro ts
  induction ts with
  | nil => intro _ off j X EI EA BV _ _ _ _ _; simp [fromBatchGo]
  | cons t rest ih =>
    intro hts off j X EI EA BV hX hBV hE hbv hei
    obtain ⟨hwf, hne⟩ := hts t List.mem_cons_self
    obtain ⟨hidx, hlen⟩ := wf_unfold hwf
    have hrest : ∀ t ∈ rest, t.wf = true ∧ t.ei ≠ [] := fun t ht => hts t (List.mem_cons_of_mem _ ht)
    have hxne : ∀ t ∈ rest, t.x ≠ [] := by
      intro t' ht' hx
      obtain ⟨hw, hn⟩ := hrest t' ht'
      obtain ⟨p, hp⟩ := List.exists_mem_of_ne_nil _ hn
      have := ((wf_unfold hw).1 p hp).1
      simp [hx] at this
    have hn : 0 < t.x.length := by
      obtain ⟨p, hp⟩ := List.exists_mem_of_ne_nil _ hne
      have := (hidx p hp).1
      omega
    rw [batchGo_cons]
    generalize hR : batchGo rest (off + t.x.length) (j + 1) = R
    have hRbv : ∀ b ∈ R.2, b ≠ j := by
      intro b hb
      rw [← hR] at hb
      have := (batchGo_bv_mem rest _ _ hxne b).mp hb
      omega
    have hRei : ∀ p ∈ R.1.ei, off + t.x.length ≤ p.1 := by
      intro p hp; rw [← hR] at hp; exact batchGo_ei_ge rest _ _ p hp
    have hBVne : ∀ b ∈ BV, b ≠ j := fun b hb => by have := hbv b hb; omega
    -- the pieces of one round of the loop
    have hnodeIdx := nodeIdx_block BV R.2 t.x.length j hBVne hRbv
    rw [hBV] at hnodeIdx
    have hattrs := map_getD_block X t.x R.1.x ([] : List Int)
    rw [hX] at hattrs
    have hattrs' : (List.range' off t.x.length).map (fun i => nft ((X ++ (t.x ++ R.1.x)).getD i []))
        = t.x.map nft := by
      have := congrArg (List.map nft) hattrs
      simpa [List.map_map, Function.comp_def] using this
    have hcols := filter_zip_block EI (t.ei.map fun p => (p.1 + off, p.2 + off)) R.1.ei EA t.ea R.1.ea
      off t.x.length hE (by simpa using hlen) hei (by
        intro p hp
        obtain ⟨q, hq, rfl⟩ := List.mem_map.mp hp
        have := (hidx q hq).1
        simp only
        omega) hRei
    have hmax : listMax (List.range' off t.x.length) + 1 = off + t.x.length := by
      rw [listMax_eq _ (off + t.x.length - 1) (by rw [List.mem_range'_1]; omega)
        (by intro x hx; rw [List.mem_range'_1] at hx; omega)]
      omega
    have hzne : ((t.ei.map fun p => (p.1 + off, p.2 + off)).zip t.ea).isEmpty = false := by
      cases hei' : t.ei with
      | nil => exact absurd hei' hne
      | cons p ps =>
        cases hea' : t.ea with
        | nil => rw [hei', hea'] at hlen; simp at hlen
        | cons a as => simp
    have ih' := ih hrest (off + t.x.length) (j + 1) (X ++ t.x)
      (EI ++ t.ei.map fun p => (p.1 + off, p.2 + off)) (EA ++ t.ea) (BV ++ List.replicate t.x.length j)
      (by simp [hX]) (by simp [hBV]) (by simp [hE, hlen])
      (by
        intro b hb
        rcases List.mem_append.mp hb with h | h
        · have := hbv b h; omega
        · have := (List.mem_replicate.mp h).2; omega)
      (by
        intro p hp
        rcases List.mem_append.mp hp with h | h
        · have := hei p h; omega
        · obtain ⟨q, hq, rfl⟩ := List.mem_map.mp h
          have := (hidx q hq).1
          simp only
          omega)
    rw [hR] at ih'
    simp only [List.append_assoc] at ih'
    simp only [List.length_cons, List.range'_succ, List.map_cons]
    unfold fromBatchGo
    simp only [hnodeIdx, hattrs', hcols, hzne, hmax, unshift_cols, Bool.false_eq_true, ↓reduceIte]
    rw [ih']
    rfl

/-- **`fromTorchBatch` inverts `batchOf`**: for well-formed tensor graphs with at least one edge
    each, converting the concatenation-with-offsets back yields, graph by graph, what
    `_its_from_torch_data` yields for the member alone. -/
theorem batch_inverse (nft : NFT) (ts : List TData) (hne : ts ≠ [])
    (hts : ∀ t ∈ ts, t.wf = true ∧ t.ei ≠ []) :
    fromTorchBatchWith nft (batchOf ts).1 (batchOf ts).2 = some (ts.map (build nft)) := by
  have hxne : ∀ t ∈ ts, t.x ≠ [] := by
    intro t' ht' hx
    obtain ⟨hw, hn⟩ := hts t' ht'
    obtain ⟨p, hp⟩ := List.exists_mem_of_ne_nil _ hn
    have := ((wf_unfold hw).1 p hp).1
    simp [hx] at this
  have hmem := batchGo_bv_mem ts 0 0 hxne
  have hk : 0 < ts.length := List.length_pos_iff.mpr hne
  have huniq : uniqueSorted (batchOf ts).2 = List.range' 0 ts.length := by
    apply uniqueSorted_eq _ _ (List.pairwise_lt_range' 1)
    intro x
    rw [batchOf, hmem, List.mem_range'_1]
  have hmax : listMax (batchOf ts).2 = ts.length - 1 := by
    apply listMax_eq
    · rw [batchOf, hmem]; omega
    · intro x hx; rw [batchOf, hmem] at hx; omega
  unfold fromTorchBatchWith
  simp only [huniq, hmax, List.length_range']
  have : (ts.length != ts.length - 1 + 1) = false := by
    have : ts.length - 1 + 1 = ts.length := by omega
    simp [this]
  simp only [this, Bool.false_eq_true, ↓reduceIte]
  have := fromBatchGo_batchGo nft ts hts 0 0 [] [] [] [] rfl rfl rfl (by simp) (by simp)
  simpa [batchOf] using this

end C18
