import FGVerif.Proofs.C01Lex
import FGVerif.Proofs.C01Sim
import FGVerif.Proofs.C01Ref
/-!
  C01 — the pattern parser is faithful.

  Property theorems (about `Model/C01.lean` = lexer + parser machine, and the specification
  `Model/C01Spec.lean` = `Chain`, `render`, `denote`, `WF`; for every syntax tree, offset,
  `init_aam`, `use_multigraph` — no bound on size or nesting):

  * `C01.lex_render`       a valid writing lexes back to its token stream
  * `C01.parse_faithful`   `WF multi c → parse ⟨multi, aam⟩ (renderStr c) off = .ok (denote c off aam multi)`
                           (exact `Graph` equality: node order, adjacency order, multigraph keys);
                           `parse_faithful_core` is the same under the weaker `WFcore`
  * `C01.parse_nodes`      the parsed graph has one node per atom in textual order, numbered from `off`,
                           with the written symbol, label list and `aam = id + 1`
  * `C01.parse_edges` / `C01.denote_hasEdge`  two nodes are adjacent in the parsed graph iff the text bonds them
                           (`denoteEdges`: one entry per written bond whose order is not 0); simple and multigraph
  * `C01.denote_bond`      simple graph: the edge carries the written bond order (pair of orders in ITS mode)
                           — for parallel bonds of a multigraph the labels are covered by the exact `Graph`
                           equality of `parse_faithful` only (no separate abstract statement: partial)
  * `C01.ring_table_pairs` (Proofs/C01Rings.lean) the open/close table is the declarative pairing
  * `C01.dot_never_bonds`, `C01.all_declared_orders_accepted`, `C01.quadruple_declared`
  * `C01.offset_shift`     (Proofs/C01Shift.lean)
  * `C01.parse_faithful_ref` / `parse_nodes_ref` / `parse_edges_ref`: the same statements against the
                           specification over the HAND-WRITTEN reference tables (`WFRef`, `denoteRef`,
                           Model/C01Ref.lean) — via `WF_eq_WFRef`, `denote_eq_denoteRef` (Proofs/C01Ref.lean),
                           which rest on the table obligations `tbl_atom_reachable`,
                           `tbl_atom_alphabet_documented`, `tbl_bond_orders_documented`.  These are the
                           statements the driver's executable specification corresponds to.
-/
namespace C01

/-! ### the lexer on a rendered chain -/

theorem toList_renderStr (c : Chain) : (renderStr c).toList = tokensChars c.render := by
  simp [renderStr, renderChars]

/-- **a valid writing lexes back to its token stream** -/
theorem lex_render (c : Chain) (h : WFcore c = true) : lex (renderStr c).toList = c.render := by
  simp only [WFcore, Bool.and_eq_true] at h
  rw [toList_renderStr]
  exact lex_tokens _ h.1.1

theorem tokOK_of_tokensOK (ts : List Token) (h : tokensOK ts = true) : ∀ t ∈ ts, tokOK t = true := by
  induction ts with
  | nil => intro t ht; simp at ht
  | cons x xs ih =>
    simp only [tokensOK, Bool.and_eq_true] at h
    intro t ht
    rcases List.mem_cons.mp ht with rfl | ht
    · exact h.1.1
    · exact ih h.2 t ht

theorem any_optTok (b : Option Bond) : (optTok b).any Token.isRc = optIsRc b := by
  cases b with
  | none => rfl
  | some b => cases b <;> rfl

mutual
  theorem chain_any_isRc (c : Chain) : c.render.any Token.isRc = c.hasRc := by
    match c with
    | .mk a its =>
      simp only [Chain.render, Chain.hasRc, List.any_cons]
      rw [items_any_isRc its]
      cases a <;> simp [AtomTok.tok, Token.isRc]
  theorem items_any_isRc (its : Items) : its.render.any Token.isRc = its.hasRc := by
    match its with
    | .nil => rfl
    | .ring b id r =>
      simp only [Items.render, Items.hasRc, List.any_append, List.any_cons, any_optTok]
      rw [items_any_isRc r]; simp [Token.isRc]
    | .branch b c r =>
      simp only [Items.render, Items.hasRc, List.any_append, List.any_cons, any_optTok]
      rw [items_any_isRc r, chain_any_isRc c]; simp [Token.isRc]
    | .next b c =>
      simp only [Items.render, Items.hasRc, List.any_append, any_optTok]
      rw [chain_any_isRc c]
end

/-! ### the parse theorem -/

theorem sim_init (cfg : Cfg) (off : Int) (its : Bool) :
    Sim cfg off its (initState cfg its) ⟨0, none, [], [], none, []⟩ where
  isIts := rfl
  graph := rfl
  count := rfl
  nodes := rfl
  multi := rfl
  rows := by intro x hx; simp [initState, setBond, Graph.hasNode] at hx
  edgeIff := by intro x y; rfl
  bondLast := by intro _ x y; rfl
  ids := by intro x hx; simp [initState, setBond, Graph.hasNode] at hx
  anchor := rfl
  anchorLow := by intro x hx; simp at hx
  branches := rfl
  branchesLow := by intro x hx; simp at hx
  rings := rfl
  ringsLow := by intro e he; simp at he
  bond := rfl

/-- the token-level statement: the parser machine run over `render c` builds `denote c` -/
theorem parseTokens_render (c : Chain) (off : Int) (aam multi : Bool) (h : WFcore c = true) :
    parseTokens ⟨multi, aam⟩ c.render off = .ok (denote c off aam multi) := by
  simp only [WFcore, Bool.and_eq_true] at h
  obtain ⟨⟨htoks, hat⟩, hmarks⟩ := h
  have hrun := chain_run c 0 none [] [] [] (tokOK_of_tokensOK _ htoks) hat (marksGood_of_marksOK _ hmarks)
  simp only [parAnchor, parPend] at hrun
  obtain ⟨st', hst', hsim⟩ := run_sim ⟨multi, aam⟩ off c.hasRc c.render _ _ _ (sim_init ⟨multi, aam⟩ off c.hasRc) hrun
  simp only [parseTokens, chain_any_isRc, hst']
  rw [hsim.graph]
  simp only [List.nil_append, ring_table_pairs]
  rfl

/-- **parse theorem** under the part of `WF` it needs -/
theorem parse_faithful_core (c : Chain) (off : Int) (aam multi : Bool) (h : WFcore c = true) :
    parse ⟨multi, aam⟩ (renderStr c) off = .ok (denote c off aam multi) := by
  simp only [parse, lex_render c h]
  exact parseTokens_render c off aam multi h

/-- **C01: the pattern parser is faithful.**  For every syntax tree that is a valid writing, parsing
    its text yields exactly the graph the text denotes (as a networkx object: same node order,
    same adjacency order, same multigraph keys). -/
theorem parse_faithful (c : Chain) (off : Int) (aam multi : Bool) (h : WF multi c = true) :
    parse ⟨multi, aam⟩ (renderStr c) off = .ok (denote c off aam multi) := by
  simp only [WF, Bool.and_eq_true] at h
  exact parse_faithful_core c off aam multi h.1.1

/-- one node per atom in textual order, numbered consecutively from `off`, with the written symbol,
    the label list and `aam = id + 1` when asked -/
theorem denote_nodes (c : Chain) (off : Int) (aam multi : Bool) (h : WFcore c = true) :
    (denote c off aam multi).nodes = denoteNodes c off aam := by
  simp only [WFcore, Bool.and_eq_true] at h
  obtain ⟨⟨htoks, hat⟩, hmarks⟩ := h
  have hrun := chain_run c 0 none [] [] [] (tokOK_of_tokensOK _ htoks) hat (marksGood_of_marksOK _ hmarks)
  simp only [parAnchor, parPend] at hrun
  obtain ⟨st', _, hsim⟩ := run_sim ⟨multi, aam⟩ off c.hasRc c.render _ _ _ (sim_init ⟨multi, aam⟩ off c.hasRc) hrun
  have hg := hsim.graph
  have hn := hsim.nodes
  simp only [List.nil_append, ring_table_pairs] at hg hn
  simp only [denote, denoteNodes]
  rw [← hn, hg]

theorem denote_multi (c : Chain) (off : Int) (aam multi : Bool) (h : WFcore c = true) :
    (denote c off aam multi).multi = multi := by
  simp only [WFcore, Bool.and_eq_true] at h
  obtain ⟨⟨htoks, hat⟩, hmarks⟩ := h
  have hrun := chain_run c 0 none [] [] [] (tokOK_of_tokensOK _ htoks) hat (marksGood_of_marksOK _ hmarks)
  simp only [parAnchor, parPend] at hrun
  obtain ⟨st', _, hsim⟩ := run_sim ⟨multi, aam⟩ off c.hasRc c.render _ _ _ (sim_init ⟨multi, aam⟩ off c.hasRc) hrun
  have hg := hsim.graph
  have hm := hsim.multi
  simp only [List.nil_append, ring_table_pairs] at hg
  simp only [denote]
  rw [← hg]; exact hm

theorem parse_nodes (c : Chain) (off : Int) (aam multi : Bool) (h : WF multi c = true) :
    ∃ g, parse ⟨multi, aam⟩ (renderStr c) off = .ok g ∧ g.nodes = denoteNodes c off aam ∧ g.multi = multi := by
  simp only [WF, Bool.and_eq_true] at h
  exact ⟨_, parse_faithful_core c off aam multi h.1.1, denote_nodes c off aam multi h.1.1,
    denote_multi c off aam multi h.1.1⟩

theorem revEdges_shift (its : Bool) (off : Int) (evs : List REv) :
    revEdges its off evs = (revEdges its 0 evs).map fun e => (e.1 + off, e.2.1 + off, e.2.2) := by
  induction evs with
  | nil => rfl
  | cons e evs ih =>
    cases e with
    | node i a => simpa [revEdges] using ih
    | edge u v low b =>
      simp only [revEdges]
      cases labelOf its low b with
      | none => exact ih
      | some l => simp [ih]

theorem denoteEdges_shift (c : Chain) (off : Int) :
    (denoteEdges c 0).map (fun e => (e.1 + off, e.2.1 + off, e.2.2)) = denoteEdges c off := by
  simp only [denoteEdges]; exact (revEdges_shift _ off _).symm

theorem pairsDistinct_shift (es : List (Int × Int × Label)) (off : Int) :
    pairsDistinct (es.map fun e => (e.1 + off, e.2.1 + off, e.2.2)) = pairsDistinct es := by
  induction es with
  | nil => rfl
  | cons e es ih =>
    obtain ⟨u, v, l⟩ := e
    simp only [List.map_cons, pairsDistinct, ih, List.all_map]
    congr 1
    congr 1
    · rw [Bool.eq_iff_iff]; simp
    · congr 1; funext e'; simp only [Function.comp]
      congr 1
      rw [Bool.eq_iff_iff]; simp

/-- the final simulation state of a valid writing (shared by the abstract-reading theorems) -/
theorem final_sim (c : Chain) (off : Int) (aam multi : Bool) (h : WFcore c = true) :
    ∃ st' a', Sim ⟨multi, aam⟩ off c.hasRc st' a' ∧ a'.out = resolve (c.events 0 none) ∧
      st'.g = denote c off aam multi := by
  simp only [WFcore, Bool.and_eq_true] at h
  obtain ⟨⟨htoks, hat⟩, hmarks⟩ := h
  have hrun := chain_run c 0 none [] [] [] (tokOK_of_tokensOK _ htoks) hat (marksGood_of_marksOK _ hmarks)
  simp only [parAnchor, parPend] at hrun
  obtain ⟨st', _, hsim⟩ := run_sim ⟨multi, aam⟩ off c.hasRc c.render _ _ _ (sim_init ⟨multi, aam⟩ off c.hasRc) hrun
  refine ⟨st', _, hsim, by simp [ring_table_pairs], ?_⟩
  have hg := hsim.graph
  simp only [List.nil_append, ring_table_pairs] at hg
  exact hg

/-- **an edge between two nodes if and only if the text bonds them** (simple and multigraph) -/
theorem denote_hasEdge (c : Chain) (off : Int) (aam multi : Bool) (h : WFcore c = true) (x y : Int) :
    (denote c off aam multi).hasEdge x y = edgeBetween (denoteEdges c off) x y := by
  obtain ⟨st', a', hsim, hout, hg⟩ := final_sim c off aam multi h
  rw [← hg, hsim.edgeIff x y, hout]
  rfl

/-- **carrying the written bond order** (simple graph, no pair bonded twice): the label between the
    two ends of a written bond is the label of that bond, in both directions -/
theorem denote_bond (c : Chain) (off : Int) (aam : Bool) (h : WF false c = true)
    (u v : Int) (l : Label) (hm : (u, v, l) ∈ denoteEdges c off) :
    (denote c off aam false).bond? u v = some l ∧ (denote c off aam false).bond? v u = some l := by
  simp only [WF, Bool.and_eq_true, Bool.false_eq_true, if_false] at h
  obtain ⟨st', a', hsim, hout, hg⟩ := final_sim c off aam false h.1.1
  have hd : pairsDistinct (denoteEdges c off) = true := by
    have := pairsDistinct_shift (denoteEdges c 0) off
    rw [denoteEdges_shift] at this
    rw [this]; exact h.2
  have hl := lastLabel_of_mem (denoteEdges c off) hd u v l hm
  have hb := hsim.bondLast rfl
  rw [hout] at hb
  rw [← hg, hb u v, hb v u]
  exact hl

/-- the parsed graph, read abstractly -/
theorem parse_edges (c : Chain) (off : Int) (aam multi : Bool) (h : WF multi c = true) :
    ∃ g, parse ⟨multi, aam⟩ (renderStr c) off = .ok g ∧
      ∀ x y, g.hasEdge x y = edgeBetween (denoteEdges c off) x y := by
  have hc : WFcore c = true := by simp only [WF, Bool.and_eq_true] at h; exact h.1.1
  exact ⟨_, parse_faithful_core c off aam multi hc, denote_hasEdge c off aam multi hc⟩

/-! ### the same, against the documented syntax (reference tables, nothing regenerated) -/

/-- **C01 against the documented syntax.**  For every syntax tree that is a valid writing of the
    documented syntax (`WFRef`: reference atom alphabet, longest symbol wins, reference bond symbols),
    parsing its text yields exactly the graph the text denotes under the documented bond orders. -/
theorem parse_faithful_ref (c : Chain) (off : Int) (aam multi : Bool) (h : WFRef multi c = true) :
    parse ⟨multi, aam⟩ (renderStr c) off = .ok (denoteRef c off aam multi) := by
  rw [← denote_eq_denoteRef]
  exact parse_faithful c off aam multi (by rw [WF_eq_WFRef]; exact h)

theorem parse_nodes_ref (c : Chain) (off : Int) (aam multi : Bool) (h : WFRef multi c = true) :
    ∃ g, parse ⟨multi, aam⟩ (renderStr c) off = .ok g ∧ g.nodes = denoteNodes c off aam ∧ g.multi = multi :=
  parse_nodes c off aam multi (by rw [WF_eq_WFRef]; exact h)

theorem parse_edges_ref (c : Chain) (off : Int) (aam multi : Bool) (h : WFRef multi c = true) :
    ∃ g, parse ⟨multi, aam⟩ (renderStr c) off = .ok g ∧
      ∀ x y, g.hasEdge x y = edgeBetween (denoteEdgesRef c off) x y := by
  rw [← denoteEdges_eq_denoteEdgesRef]
  exact parse_edges c off aam multi (by rw [WF_eq_WFRef]; exact h)

/-! ### corollaries -/

/-- **a component separator never creates an edge**: a link or ring closure written with `.` adds
    nothing to the graph, in plain and in ITS patterns alike (generated table: `"." ↦ 0`) -/
theorem dot_never_bonds (its aam : Bool) (off : Int) (g : Graph) (u v : Nat) (low : Bool) :
    labelOf its low (some (.sym '.')) = none ∧
    applyREv its aam off g (.edge u v low (some (.sym '.'))) = g := by
  have h : bondOrder? '.' = some 0 := by decide
  constructor
  · simp [labelOf, h]
  · simp [applyREv, labelOf, h]

/-- no edge of the denoted graph comes from a `.`: every edge of `denoteEdges` carries the label of a
    bond that is not the separator -/
theorem dot_never_bonds_edges (its : Bool) (off : Int) (evs : List REv) :
    revEdges its off (evs.filter fun e => match e with
      | .edge _ _ _ (some (.sym '.')) => false
      | _ => true) = revEdges its off evs := by
  have h : bondOrder? '.' = some 0 := by decide
  induction evs with
  | nil => rfl
  | cons e evs ih =>
    cases e with
    | node i a => simp [List.filter, revEdges, ih]
    | edge u v low b =>
      by_cases hb : b = some (.sym '.')
      · subst hb; simp [List.filter, revEdges, labelOf, h, ih]
      · have : (match (REv.edge u v low b) with
            | .edge _ _ _ (some (.sym '.')) => false
            | _ => true) = true := by
          split
          · rename_i heq; simp at heq; exact absurd heq.2.2.2 hb
          · rfl
        simp only [List.filter, this, revEdges, ih]

/-- **every bond order the syntax declares is accepted**: every key of the generated
    `bond_to_order_map` is one character, lexes as a BOND token whatever follows, and the parser
    takes it with its declared order (this is the obligation an unescaped `$` breaks) -/
theorem all_declared_orders_accepted :
    ∀ kv ∈ bondTable, ∃ c, kv.1 = [c] ∧
      (∀ k, next c k = .hit (.bond [c]) k) ∧
      (∀ cfg off st, step cfg off st (.bond [c]) = .ok (setBond st (.s kv.2) false)) := by
  intro kv hkv
  have hk := tbl_bond_keys
  simp only [List.all_eq_true] at hk
  have hkv' := hk kv hkv
  have hnodup : (bondTable.map (·.1)).Nodup := by decide
  obtain ⟨key, o⟩ := kv
  match key, hkv' with
  | [c], _ =>
    have hl : bondTable.lookup [c] = some o := by
      clear hk hkv'
      generalize bondTable = tb at hkv hnodup
      induction tb with
      | nil => simp at hkv
      | cons e tb ih =>
        obtain ⟨k2, o2⟩ := e
        simp only [List.map_cons, List.nodup_cons] at hnodup
        rcases List.mem_cons.mp hkv with heq | hmem
        · simp only [Prod.mk.injEq] at heq
          obtain ⟨rfl, rfl⟩ := heq
          simp [List.lookup]
        · have hne : ¬ [c] = k2 := by
            intro e; subst e
            exact hnodup.1 (List.mem_map.mpr ⟨([c], o), hmem, rfl⟩)
          have : ([c] == k2) = false := by simpa using hne
          simp only [List.lookup, this]
          exact ih hmem hnodup.2
    refine ⟨c, rfl, ?_, ?_⟩
    · intro k
      exact next_bond c k (by simp [bondOrder?, hl])
    · intro cfg off st
      simp [step, hl]
  | [], h => simp at h
  | _ :: _ :: _, h => simp at h

/-- quadruple bonds are declared (`$ ↦ 4`) -/
theorem quadruple_declared : bondOrder? '$' = some 8 := by decide

/-! ### non-vacuity (tests, on concrete inputs) -/

/-- `C1(=O)c2ccccc2<1,2>N(.{g,a_1})<2,1>C$1.R` — 12 atoms, ITS pattern, two rings, dots, a label node -/
def ex12 : Chain :=
  (.mk (.elem ['C']) (.ring none ['1'] (.branch (some (.sym '=')) (.mk (.elem ['O']) .nil) (.next none (.mk (.elem ['c']) (.ring none ['2'] (.next none (.mk (.elem ['c']) (.next none (.mk (.elem ['c']) (.next none (.mk (.elem ['c']) (.next none (.mk (.elem ['c']) (.next none (.mk (.elem ['c']) (.ring none ['2'] (.next (some (.rc ['1'] ['2'])) (.mk (.elem ['N']) (.branch (some (.sym '.')) (.mk (.labels [['g'], ['a', '_', '1']]) .nil) (.next (some (.rc ['2'] ['1'])) (.mk (.elem ['C']) (.ring (some (.sym '$')) ['1'] (.next (some (.sym '.')) (.mk .wild .nil)))))))))))))))))))))))))

example : renderChars ex12 = "C1(=O)c2ccccc2<1,2>N(.{g,a_1})<2,1>C$1.R".toList := by decide
example : WF false ex12 = true := by decide
example : WF true ex12 = true := by decide
/-- the parse theorem applies to it (offset 3, `init_aam`) -/
example : parse ⟨false, true⟩ (renderStr ex12) 3 = .ok (denote ex12 3 true false) :=
  parse_faithful ex12 3 true false (by decide)
/-- and the denoted graph is the expected one: 12 nodes, 11 bonds, every order a pair, no bond to the
    label node nor to `R` (dots), aromatic ring `(1.5,1.5)`, the `$` ring closure `(4,4)` -/
example : denoteEdges ex12 3 =
    [(3, 4, .p 4 4), (3, 5, .p 2 2), (5, 6, .p 3 3), (6, 7, .p 3 3), (7, 8, .p 3 3), (8, 9, .p 3 3),
     (9, 10, .p 3 3), (10, 5, .p 3 3), (10, 11, .p 2 4), (11, 13, .p 4 2), (13, 3, .p 8 8)] := by decide
example : (denoteNodes ex12 3 true).map (fun n => (n.1, n.2.symbol, n.2.aam)) =
    [(3, some "C", some 4), (4, some "O", some 5), (5, some "c", some 6), (6, some "c", some 7), (7, some "c", some 8),
     (8, some "c", some 9), (9, some "c", some 10), (10, some "c", some 11), (11, some "N", some 12),
     (12, some "#", some 13), (13, some "C", some 14), (14, some "R", some 15)] := by decide
example : WFRef false ex12 = true ∧ WFRef true ex12 = true := by decide
example : parse ⟨false, true⟩ (renderStr ex12) 3 = .ok (denoteRef ex12 3 true false) :=
  parse_faithful_ref ex12 3 true false (by decide)
/-- lexer non-vacuity -/
example : lex "C$C{a,b}<,2>Sn12".toList =
    [.atom ['C'], .bond ['$'], .atom ['C'], .label ['a', ',', 'b'], .rc [] ['2'], .atom ['S', 'n'], .ring ['1', '2']] := by decide
/-- the side conditions are not idle: `Sn` is tin, adjacent ring digits fuse, a bond before an opening mark -/
example : WFcore (.mk (.elem ['S']) (.next none (.mk (.elem ['n']) .nil))) = false := by decide
example : WFcore (.mk (.elem ['C']) (.ring none ['1'] (.ring none ['2'] .nil))) = false := by decide
example : WFcore (.mk (.elem ['C']) (.ring (some (.sym '=')) ['1'] .nil)) = false := by decide

end C01
