import FGVerif.Proofs.C07
import FGVerif.Proofs.C07DefaultRows0
import FGVerif.Proofs.C07DefaultRows1
import FGVerif.Proofs.C07DefaultRows2
import FGVerif.Proofs.C07DefaultRows3
/-!
  C07 — the default functional-group list (regenerated from /repo on every run) satisfies the
  hypotheses of `C07.hasse`, with `sub` computed by the matcher model.  All by kernel evaluation
  (`decide +kernel`) of tables; the 31×31 matcher table is decided in four row blocks.

  * `C07.default_emb_eq`, `default_anti_eq`, `default_keys_eq`
        the matcher model / the model's key reproduce the code's answers on the default list
        (kernel-checked correspondence on 961 + 961 pairs and 31 keys);
  * `C07.default_instance`      `HasseHyps` for the default list: distinct items, `sub` transitive
        (anti-pattern carriers included), every `sub` pair strictly increases the key;
  * `C07.default_sub_model`     the relation used is the one the matcher model computes;
  * `C07.default_assertion_free` the both-directions assertion never fires on the default list;
  * `C07.default_true_order`, `default_true_anti`  the matcher's answers on the default list are the
        true embedding order (enumeration of injective maps), so `sub` is the specificity order;
  * `C07.default_hasse`         hence every permutation of the default list and every set order
        gives the Hasse diagram.
-/
namespace C07
open Gen.C07

theorem embRows_append (a b : List FGConfig) : embRows (a ++ b) = embRows a ++ embRows b := by
  simp [embRows]

theorem split4 {α} (l : List α) (c : Nat) :
    l = (l.drop (0 * c)).take c ++ ((l.drop (1 * c)).take c ++ ((l.drop (2 * c)).take c ++ l.drop (3 * c))) := by
  have h1 : l = l.take c ++ l.drop c := (List.take_append_drop c l).symm
  have h2 : l.drop c = (l.drop c).take c ++ (l.drop c).drop c := (List.take_append_drop c _).symm
  have h3 : (l.drop c).drop c = ((l.drop c).drop c).take c ++ ((l.drop c).drop c).drop c :=
    (List.take_append_drop c _).symm
  have e2 : (l.drop c).drop c = l.drop (2 * c) := by rw [List.drop_drop]; congr 1; omega
  have e3 : ((l.drop c).drop c).drop c = l.drop (3 * c) := by rw [List.drop_drop, List.drop_drop]; congr 1; omega
  rw [e3, e2] at h3
  rw [e2] at h2
  simp only [Nat.zero_mul, List.drop_zero, Nat.one_mul]
  rw [← h3, ← h2, ← h1]

/-- the matcher model reproduces the code's answers on all pairs of the default list -/
theorem default_emb_eq : embModel = embImpl := by
  unfold embModel
  rw [split4 configs chunk, embRows_append, embRows_append, embRows_append,
    default_emb_rows0, default_emb_rows1, default_emb_rows2, default_emb_rows3]
  exact (split4 embImpl chunk).symm

theorem default_anti_eq : antiModel = antiImpl := by decide +kernel

/-- the model's sort key reproduces `order_id()` of the code on the default list -/
theorem default_keys_eq : configs.map FGConfig.key = keysImpl := by decide +kernel

/-- the default hierarchy over positions `0 … 30`: `sub` and the key read off the code's tables
    (which are the model's, by `default_emb_eq`, `default_anti_eq`, `default_keys_eq`) -/
def defaultCfg : Cfg Nat :=
  Cfg.ofKey (fun i j => tabB embImpl i j && !tabB embImpl j i && !tabB antiImpl i j)
    (fun i => keysImpl.getD i []) lexLt

/-- **C07.default_instance** — the hypotheses of `hasse` hold for the generated default list:
    `sub` is transitive (the three anti-pattern carriers included) and every `sub` pair strictly
    increases `(pattern_len, |V|, |E|, pattern_str)`; irreflexivity follows (`sub_irrefl`). -/
theorem default_instance : HasseHyps defaultCfg (List.range configs.length) where
  nodup := List.nodup_range
  key := keyOrder_ofKey _ _
  trans := by decide +kernel
  strict := by decide +kernel

/-- the relation of `default_instance` is the one the matcher model computes from the generated
    patterns (`C07.isSubgroup`) -/
theorem default_sub_model (i j : Nat) (a b : FGConfig) (hi : configs[i]? = some a) (hj : configs[j]? = some b) :
    defaultCfg.sub i j = isSubgroup mapper a b := by
  have he : ∀ (i j : Nat) (a b : FGConfig), configs[i]? = some a → configs[j]? = some b →
      tabB embImpl i j = Sub.mapSubgraphToGraph b.pattern a.pattern mapper := by
    intro i j a b hi hj
    rw [← default_emb_eq]
    simp [tabB, embModel, embRows, List.getElem?_map, hi, hj]
  have ha : tabB antiImpl i j = a.antiPatterns.any fun ap => Sub.mapSubgraphToGraph b.pattern ap mapper := by
    rw [← default_anti_eq]
    simp [tabB, antiModel, List.getElem?_map, hi, hj]
  simp only [defaultCfg, Cfg.ofKey, isSubgroup]
  rw [he i j a b hi hj, he j i b a hj hi, ha]

/-- … and its key comparison is the model's `order_id` comparison -/
theorem default_klt_model (i j : Nat) (a b : FGConfig) (hi : configs[i]? = some a) (hj : configs[j]? = some b) :
    defaultCfg.klt i j = fgKlt a b := by
  have hk : ∀ (i : Nat) (a : FGConfig), configs[i]? = some a → keysImpl.getD i [] = a.key := by
    intro i a hi
    rw [← default_keys_eq]
    simp [List.getD_eq_getElem?_getD, List.getElem?_map, hi]
  simp only [defaultCfg, Cfg.ofKey, fgKlt]
  rw [hk i a hi, hk j b hj]

/-- the "matches in both directions" assertion of `is_subgroup` cannot fire on the default list -/
theorem default_assertion_free :
    ∀ i, i ∈ List.range configs.length → ∀ j, j ∈ List.range configs.length → i ≠ j →
      (tabB embImpl i j && tabB embImpl j i) = false := by decide +kernel

/-- **C07.default_hasse** — every permutation of the default list, under every set-iteration
    order, yields the Hasse diagram of the matcher's subgroup relation. -/
theorem default_hasse (env : Env) (henv : env.Valid) (l : List Nat) (hp : l.Perm (List.range configs.length)) :
    (∀ a b, (buildTree defaultCfg env l).Link a b ↔ Covers defaultCfg.sub l a b) ∧
    (∀ a, (buildTree defaultCfg env l).IsRoot a ↔ Minimal defaultCfg.sub l a) ∧
    (∀ a b, (buildTree defaultCfg env l).Anc a b ↔ (a ∈ l ∧ b ∈ l ∧ defaultCfg.sub a b = true)) ∧
    (∀ a, ¬ (buildTree defaultCfg env l).Anc a a) := by
  obtain ⟨h1, h2, h3, h4, _, _⟩ := hasse defaultCfg env henv l (default_instance.perm hp.symm)
  exact ⟨h1, h2, h3, h4⟩

/-- on the default list the matcher's answers coincide with the TRUE embedding order (exhaustive
    enumeration of injective maps, `C07.embeds`) — so the hierarchy proved above is the
    specificity order of the property statement; the cyclic pattern `epoxid` included -/
theorem default_true_order :
    (configs.map fun a => configs.map fun b => embeds mapper a.pattern b.pattern) = embImpl := by
  decide +kernel

theorem default_true_anti :
    (configs.map fun a => configs.map fun b => a.antiPatterns.any fun ap => embeds mapper ap b.pattern) = antiImpl := by
  decide +kernel

/-- non-vacuity (test): the default list has 31 configs, 32 covering pairs and 6 roots -/
example : configs.length = 31 := by decide
example : (coverPairs configs.length defaultCfg.sub).length = 32 ∧
    (minimalIdx configs.length defaultCfg.sub).length = 6 ∧
    ((minimalIdx configs.length defaultCfg.sub).all fun i =>
      match configs[i]? with
      | some c => ["carbonyl", "ether", "thioether", "amine", "nitrile", "nitrose"].contains c.name
      | none => false) = true := by decide +kernel

end C07
