import FGVerif.Proofs.C14CountA
/-!
  C14 counting, part B (graph level): what one replacement does to the list of group nodes
  (`refs_step`), case analysis of `replaceNextNode` / `step`, the invariant of the working set.
-/
namespace C14.P
open C13 C14

/-! ### group-node references of a node list -/

def refsL (cfg : Config) (ns : List (Int × NodeAttr)) : RefGraph :=
  (ns.map fun p => groupLabels cfg p.2).filter fun ls => !ls.isEmpty

theorem refsOf_eq (cfg : Config) (g : Graph) : refsOf cfg g = refsL cfg g.nodes := rfl

theorem refsL_append (cfg : Config) (a b : List (Int × NodeAttr)) :
    refsL cfg (a ++ b) = refsL cfg a ++ refsL cfg b := by
  simp only [refsL, List.map_append, List.filter_append]

theorem refsL_map_id (cfg : Config) (f : Int × NodeAttr → Int) (ns : List (Int × NodeAttr)) :
    refsL cfg (ns.map fun p => (f p, p.2)) = refsL cfg ns := by
  simp only [refsL, List.map_map]
  rfl

theorem refsL_nil_of_no_group (cfg : Config) (ns : List (Int × NodeAttr))
    (h : ∀ p ∈ ns, isGroupNode cfg p.2 = false) : refsL cfg ns = [] := by
  unfold refsL
  rw [List.filter_eq_nil_iff]
  intro ls hls
  rcases List.mem_map.mp hls with ⟨p, hp, rfl⟩
  have := h p hp
  unfold isGroupNode at this
  simp [this]

theorem refsL_cons_group (cfg : Config) (x : Int) (a : NodeAttr) (post : List (Int × NodeAttr)) (name : String)
    (hl : groupLabels cfg a = [name]) : refsL cfg ((x, a) :: post) = [name] :: refsL cfg post := by
  simp [refsL, hl]

/-! ### removing the node `x` from a node list with increasing ids -/

theorem filter_ne_split {α : Type} (pre post : List (Int × α)) (x : Int) (a : α)
    (h : ((pre ++ (x, a) :: post).map (·.1)).Pairwise (· < ·)) :
    (pre ++ (x, a) :: post).filter (·.1 != x) = pre ++ post := by
  rw [List.map_append, List.map_cons, List.pairwise_append, List.pairwise_cons] at h
  obtain ⟨_, ⟨hpost, _⟩, hpre⟩ := h
  have h1 : pre.filter (·.1 != x) = pre := by
    rw [List.filter_eq_self]
    intro p hp
    have := hpre p.1 (List.mem_map.mpr ⟨p, hp, rfl⟩) x (List.mem_cons_self)
    simp only [bne_iff_ne, ne_eq]
    omega
  have h2 : post.filter (·.1 != x) = post := by
    rw [List.filter_eq_self]
    intro p hp
    have := hpost p.1 (List.mem_map.mpr ⟨p, hp, rfl⟩)
    simp only [bne_iff_ne, ne_eq]
    omega
  rw [List.filter_append, List.filter_cons, h1, h2]
  simp

/-! ### the first group node -/

theorem next_split {cfg : Config} {g : Graph} {x : Int} {a : NodeAttr}
    (h : nextGroupNode cfg g = some (x, a)) :
    ∃ pre post, g.nodes = pre ++ (x, a) :: post ∧ ∀ p ∈ pre, isGroupNode cfg p.2 = false := by
  unfold nextGroupNode at h
  obtain ⟨_, pre, post, hs, hpre⟩ := List.find?_eq_some_iff_append.mp h
  refine ⟨pre, post, hs, fun p hp => ?_⟩
  simpa using hpre p hp

theorem next_hasNode {cfg : Config} {g : Graph} {x : Int} {a : NodeAttr}
    (h : nextGroupNode cfg g = some (x, a)) : g.hasNode x = true := by
  have := List.mem_of_find?_eq_some h
  simp only [Graph.hasNode, List.any_eq_true]
  exact ⟨(x, a), this, by simp⟩

theorem refs_none {cfg : Config} {g : Graph} (h : nextGroupNode cfg g = none) : refsOf cfg g = [] := by
  rw [refsOf_eq]
  apply refsL_nil_of_no_group
  intro p hp
  unfold nextGroupNode at h
  have := List.find?_eq_none.mp h p hp
  simpa using this

/-- one replacement removes the first group node from the list of group nodes and appends the group
    nodes of the pattern -/
theorem refs_step {cfg : Config} {g : Graph} {x : Int} {a : NodeAttr} {name : String} {sub : Graph}
    {anchors : List Nat} (hn : nextGroupNode cfg g = some (x, a)) (hl : groupLabels cfg a = [name])
    (hd : NodeDom g x sub anchors) :
    ∃ t, refsOf cfg g = [name] :: t ∧ refsOf cfg (replaceNode g x sub anchors) = t ++ refsOf cfg sub := by
  obtain ⟨pre, post, hs, hpre⟩ := next_split hn
  refine ⟨refsL cfg post, ?_, ?_⟩
  · rw [refsOf_eq, hs, refsL_append, refsL_nil_of_no_group cfg pre hpre, refsL_cons_group cfg x a post name hl]
    rfl
  · have hpw : ((pre ++ (x, a) :: post).map (·.1)).Pairwise (· < ·) := by
      rw [← hs]; exact ids_pairwise (contiguous_ids g hd.contG)
    rw [refsOf_eq, replaceNode_nodes g x sub anchors hd]
    unfold specNodes
    rw [refsL_append, refsL_map_id cfg (fun p => ren x p.1), refsL_map_id cfg (fun p => p.1 + ((g.nodes.length : Int) - 1)),
      hs, filter_ne_split pre post x a hpw, refsL_append, refsL_nil_of_no_group cfg pre hpre]
    rfl

/-! ### the configuration predicates, unfolded -/

theorem lookup_mem {cfg : Config} {name : String} {grp : Group} (h : lookup cfg name = some grp) :
    grp ∈ cfg ∧ grp.key = name := by
  unfold lookup at h
  exact ⟨List.mem_of_find?_eq_some h, by simpa using List.find?_some h⟩

theorem cfgOk_spec {cfg : Config} (h : cfgOk cfg = true) {grp : Group} (hg : grp ∈ cfg) :
    ∀ sg ∈ grp.graphs, wf sg.pattern = true ∧ contiguous sg.pattern = true ∧ anchorsOk sg.pattern sg.anchors = true := by
  simp only [cfgOk, List.all_eq_true, Bool.and_eq_true] at h
  intro sg hsg
  have := (h grp hg).2 sg hsg
  exact ⟨this.1.1, this.1.2, this.2⟩

theorem toRef_find (cfg : Config) (name : String) :
    (toRef cfg).find? (·.1 == name)
      = (lookup cfg name).map fun grp => (grp.key, grp.graphs.map fun pg => refsOf cfg pg.pattern) := by
  unfold toRef lookup
  rw [List.find?_map]
  rfl

/-! ### invariant of the working set -/

def Inv (g : Graph) : Prop := contiguous g = true ∧ Closed g

theorem closedB_of_closed (g : Graph) (h : Closed g) : closedB g = true := by
  simp only [closedB, List.all_eq_true, Bool.and_eq_true]
  intro r hr
  have := h r hr
  refine ⟨by simpa using (hasNode_iff g _).mp this.1, fun e he => by simpa using (hasNode_iff g _).mp (this.2 e he)⟩

theorem inv_of_core {g : Graph} (h : closedB g = true ∧ contiguous g = true) : Inv g :=
  ⟨h.2, closed_of_closedB g h.1⟩

theorem nodeDom_of {cfg : Config} (hcfg : cfgOk cfg = true) {g : Graph} (hi : Inv g) {x : Int} {a : NodeAttr}
    (hn : nextGroupNode cfg g = some (x, a)) {name : String} {grp : Group} (hlk : lookup cfg name = some grp)
    {sg : PGraph} (hsg : sg ∈ grp.graphs) : NodeDom g x sg.pattern sg.anchors := by
  have := cfgOk_spec hcfg (lookup_mem hlk).1 sg hsg
  exact ⟨hi.1, next_hasNode hn, this.2.1, hi.2, closed_of_wf _ this.1, this.2.2⟩

/-! ### case analysis of `replaceNextNode` -/

theorem rnn_none {cfg : Config} {g : Graph} (h : replaceNextNode cfg g = .ok none) :
    nextGroupNode cfg g = none := by
  unfold replaceNextNode at h
  split at h
  · assumption
  · split at h
    · split at h
      · split at h <;> cases h
      · cases h
    · cases h

theorem rnn_some {cfg : Config} {g : Graph} {gs : List Graph} (h : replaceNextNode cfg g = .ok (some gs)) :
    ∃ x a name grp, nextGroupNode cfg g = some (x, a) ∧ groupLabels cfg a = [name] ∧ lookup cfg name = some grp ∧
      gs = grp.graphs.map fun sg => replaceNode g x sg.pattern sg.anchors := by
  unfold replaceNextNode at h
  split at h
  · cases h
  · rename_i x a hn
    split at h
    · rename_i name hl
      split at h
      · rename_i grp hlk
        split at h
        · cases h
        · injection h with h
          injection h with h
          exact ⟨x, a, name, grp, hn, hl, hlk, h.symm⟩
      · cases h
    · cases h

theorem rnn_not_fuel (cfg : Config) (g : Graph) : replaceNextNode cfg g ≠ .error .fuel := by
  unfold replaceNextNode
  intro h
  split at h
  · cases h
  · split at h
    · split at h
      · split at h <;> cases h
      · cases h
    · cases h

/-! ### case analysis of `step` -/

theorem step_nil (cfg : Config) : step cfg [] = .ok ([], []) := rfl

theorem step_cons {cfg : Config} {g : Graph} {rest done next : List Graph}
    (h : step cfg (g :: rest) = .ok (done, next)) :
    ∃ done' next', step cfg rest = .ok (done', next') ∧
      ((replaceNextNode cfg g = .ok none ∧ done = g :: done' ∧ next = next') ∨
       (∃ gs, replaceNextNode cfg g = .ok (some gs) ∧ done = done' ∧ next = gs ++ next')) := by
  simp only [step, bind, Except.bind] at h
  cases hr : replaceNextNode cfg g with
  | error e => rw [hr] at h; cases h
  | ok r =>
    rw [hr] at h
    cases hs : step cfg rest with
    | error e => rw [hs] at h; cases h
    | ok dn =>
      rw [hs] at h
      obtain ⟨done', next'⟩ := dn
      refine ⟨done', next', rfl, ?_⟩
      cases r with
      | none =>
        simp only [pure, Except.pure] at h
        injection h with h
        injection h with h1 h2
        exact Or.inl ⟨rfl, h1.symm, h2.symm⟩
      | some gs =>
        simp only [pure, Except.pure] at h
        injection h with h
        injection h with h1 h2
        exact Or.inr ⟨gs, rfl, h1.symm, h2.symm⟩

theorem step_not_fuel (cfg : Config) : ∀ ws, step cfg ws ≠ .error .fuel := by
  intro ws
  induction ws with
  | nil => intro h; cases h
  | cons g rest ih =>
    intro h
    simp only [step, bind, Except.bind] at h
    cases hr : replaceNextNode cfg g with
    | error e =>
      rw [hr] at h
      injection h with h
      exact rnn_not_fuel cfg g (hr.trans (by rw [h]))
    | ok r =>
      rw [hr] at h
      cases hs : step cfg rest with
      | error e =>
        rw [hs] at h
        injection h with h
        exact ih (hs.trans (by rw [h]))
      | ok dn =>
        rw [hs] at h
        obtain ⟨done', next'⟩ := dn
        cases r <;> cases h

end C14.P
