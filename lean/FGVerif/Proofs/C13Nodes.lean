import FGVerif.Model.C13
/-!
  C13, node level: the node list of `replaceNodeLen` (ids, order, attributes), closedness of the
  adjacency (it mentions only nodes) and contiguity of the ids are preserved.  These are what
  C14's counting theorem needs; the bond-level theorems are in `Proofs/C13Edges*.lean`.
-/
namespace C13
open Graph

/-- the adjacency mentions only nodes -/
def Closed (g : Graph) : Prop :=
  ∀ r ∈ g.adj, g.hasNode r.1 = true ∧ ∀ e ∈ r.2, g.hasNode e.1 = true

theorem hasNode_iff (g : Graph) (n : Int) : g.hasNode n = true ↔ n ∈ g.nodeIds := by
  simp [Graph.hasNode, Graph.nodeIds]

theorem hasNode_of_nodes_eq {g g' : Graph} (h : g'.nodes = g.nodes) (n : Int) : g'.hasNode n = g.hasNode n := by
  simp [Graph.hasNode, h]

/-! ### addNode / ensureNode -/

theorem addNode_nodes_of_not (g : Graph) (n : Int) (a : NodeAttr) (h : g.hasNode n = false) :
    (g.addNode n a).nodes = g.nodes ++ [(n, a)] := by
  simp [Graph.addNode, h]

theorem addNode_adj_of_not (g : Graph) (n : Int) (a : NodeAttr) (h : g.hasNode n = false) :
    (g.addNode n a).adj = g.adj ++ [(n, [])] := by
  simp [Graph.addNode, h]

theorem ensureNode_of_has (g : Graph) (u : Int) (h : g.hasNode u = true) : ensureNode g u = g := by
  simp [ensureNode, h]

theorem ensureNode_has (g : Graph) (u : Int) : (ensureNode g u).hasNode u = true := by
  unfold ensureNode
  by_cases h : g.hasNode u = true
  · simp [h]
  · have h' : g.hasNode u = false := by simpa using h
    simp only [h', Bool.false_eq_true, if_false]
    simp [Graph.hasNode, addNode_nodes_of_not g u {} h']

theorem ensureNode_has_mono (g : Graph) (u w : Int) (h : g.hasNode w = true) : (ensureNode g u).hasNode w = true := by
  unfold ensureNode
  by_cases hu : g.hasNode u = true
  · simp [hu, h]
  · have h' : g.hasNode u = false := by simpa using hu
    simp only [h', Bool.false_eq_true, if_false]
    rw [Graph.hasNode, addNode_nodes_of_not g u {} h']
    simp only [List.any_append, Bool.or_eq_true]
    left; exact h

theorem ensureNode_closed (g : Graph) (u : Int) (hc : Closed g) : Closed (ensureNode g u) := by
  unfold ensureNode
  by_cases hu : g.hasNode u = true
  · simp [hu]; exact hc
  · have h' : g.hasNode u = false := by simpa using hu
    simp only [h', Bool.false_eq_true, if_false]
    have hm : ∀ w, g.hasNode w = true → (g.addNode u {}).hasNode w = true := by
      intro w hw
      rw [Graph.hasNode, addNode_nodes_of_not g u {} h']
      simp only [List.any_append, Bool.or_eq_true]; left; exact hw
    intro r hr
    rw [addNode_adj_of_not g u {} h'] at hr
    rcases List.mem_append.mp hr with hr | hr
    · exact ⟨hm _ (hc r hr).1, fun e he => hm _ ((hc r hr).2 e he)⟩
    · simp at hr; subst hr
      refine ⟨?_, by simp⟩
      simp [Graph.hasNode, addNode_nodes_of_not g u {} h']

/-! ### addEdgeKey -/

theorem halfEdge_mem (row : Row) (v : Int) (k : Nat) (l : Label) (e : Int × KeyDict)
    (he : e ∈ halfEdge row v k l) : e.1 = v ∨ ∃ e' ∈ row, e'.1 = e.1 := by
  unfold halfEdge at he
  split at he
  · rcases List.mem_map.mp he with ⟨e', he', rfl⟩
    right; refine ⟨e', he', ?_⟩
    split <;> rfl
  · rcases List.mem_append.mp he with h | h
    · right; exact ⟨e, h, rfl⟩
    · simp at h; left; simp [h]

theorem updRow_mem (adj : List (Int × Row)) (u v : Int) (k : Nat) (l : Label) (r : Int × Row)
    (hr : r ∈ updRow adj u v k l) :
    ∃ r' ∈ adj, r'.1 = r.1 ∧ ∀ e ∈ r.2, e.1 = v ∨ ∃ e' ∈ r'.2, e'.1 = e.1 := by
  unfold updRow at hr
  rcases List.mem_map.mp hr with ⟨r', hr', rfl⟩
  refine ⟨r', hr', ?_, ?_⟩
  · split <;> rfl
  · intro e he
    split at he
    · exact halfEdge_mem _ _ _ _ _ he
    · right; exact ⟨e, he, rfl⟩

theorem addEdgeKey_nodes (g : Graph) (u v : Int) (k : Nat) (l : Label)
    (hu : g.hasNode u = true) (hv : g.hasNode v = true) : (addEdgeKey g u v k l).nodes = g.nodes := by
  unfold addEdgeKey
  simp only [ensureNode_of_has g u hu, ensureNode_of_has g v hv]

theorem addEdgeKey_nodes' (g : Graph) (u v : Int) (k : Nat) (l : Label) :
    (addEdgeKey g u v k l).nodes = (ensureNode (ensureNode g u) v).nodes := by
  unfold addEdgeKey; rfl

theorem addEdgeKey_multi (g : Graph) (u v : Int) (k : Nat) (l : Label) : (addEdgeKey g u v k l).multi = g.multi := by
  unfold addEdgeKey ensureNode
  by_cases hu : g.hasNode u = true <;> by_cases hv : g.hasNode v = true <;>
    simp [hu, hv, Graph.addNode] <;> split <;> simp

/-- `addEdgeKey` once both end nodes exist -/
def addEdgeCore (g : Graph) (u v : Int) (k : Nat) (l : Label) : Graph :=
  { g with adj := if u == v then updRow g.adj u v k l else updRow (updRow g.adj u v k l) v u k l }

theorem addEdgeKey_eq_core (g : Graph) (u v : Int) (k : Nat) (l : Label) :
    addEdgeKey g u v k l = addEdgeCore (ensureNode (ensureNode g u) v) u v k l := rfl

theorem updRow_closed_step (g : Graph) (adj : List (Int × Row)) (u v : Int) (k : Nat) (l : Label)
    (hv : g.hasNode v = true)
    (h : ∀ r ∈ adj, g.hasNode r.1 = true ∧ ∀ e ∈ r.2, g.hasNode e.1 = true) :
    ∀ r ∈ updRow adj u v k l, g.hasNode r.1 = true ∧ ∀ e ∈ r.2, g.hasNode e.1 = true := by
  intro r hr
  rcases updRow_mem adj u v k l r hr with ⟨r', hr', h1, h2⟩
  refine ⟨h1 ▸ (h r' hr').1, ?_⟩
  intro e he
  rcases h2 e he with h3 | ⟨e', he', h3⟩
  · rw [h3]; exact hv
  · rw [← h3]; exact (h r' hr').2 e' he'

theorem addEdgeCore_closed (g : Graph) (u v : Int) (k : Nat) (l : Label) (hc : Closed g)
    (hu : g.hasNode u = true) (hv : g.hasNode v = true) : Closed (addEdgeCore g u v k l) := by
  intro r hr
  have hn : ∀ w, (addEdgeCore g u v k l).hasNode w = g.hasNode w := fun w => rfl
  simp only [hn]
  unfold addEdgeCore at hr
  simp only at hr
  split at hr
  · exact updRow_closed_step g g.adj u v k l hv hc r hr
  · exact updRow_closed_step g _ v u k l hu (updRow_closed_step g g.adj u v k l hv hc) r hr

theorem addEdgeKey_closed (g : Graph) (u v : Int) (k : Nat) (l : Label) (hc : Closed g) :
    Closed (addEdgeKey g u v k l) := by
  rw [addEdgeKey_eq_core]
  exact addEdgeCore_closed _ u v k l (ensureNode_closed _ _ (ensureNode_closed _ _ hc))
    (ensureNode_has_mono _ _ _ (ensureNode_has _ _)) (ensureNode_has _ _)

theorem addEdgeKey_has_mono (g : Graph) (u v : Int) (k : Nat) (l : Label) (w : Int) (h : g.hasNode w = true) :
    (addEdgeKey g u v k l).hasNode w = true := by
  rw [addEdgeKey_eq_core]
  show (ensureNode (ensureNode g u) v).hasNode w = true
  exact ensureNode_has_mono _ _ _ (ensureNode_has_mono _ _ _ h)

/-! ### addEdgesFrom -/

theorem addEdgesFrom_nodes (es : List Edge) : ∀ (g : Graph),
    (∀ e ∈ es, g.hasNode e.1 = true ∧ g.hasNode e.2.1 = true) → (addEdgesFrom g es).nodes = g.nodes := by
  induction es with
  | nil => intro g _; rfl
  | cons e es ih =>
    intro g h
    have he := h e (List.mem_cons_self)
    have hn : (addEdgeKey g e.1 e.2.1 e.2.2.1 e.2.2.2).nodes = g.nodes := addEdgeKey_nodes g _ _ _ _ he.1 he.2
    show (addEdgesFrom (addEdgeKey g e.1 e.2.1 e.2.2.1 e.2.2.2) es).nodes = g.nodes
    rw [ih _ ?_, hn]
    intro e' he'
    have := h e' (List.mem_cons_of_mem _ he')
    rw [hasNode_of_nodes_eq hn, hasNode_of_nodes_eq hn]; exact this

theorem addEdgesFrom_closed (es : List Edge) : ∀ (g : Graph), Closed g → Closed (addEdgesFrom g es) := by
  induction es with
  | nil => intro g h; exact h
  | cons e es ih => intro g h; exact ih _ (addEdgeKey_closed g _ _ _ _ h)

theorem addEdgesFrom_multi (es : List Edge) : ∀ (g : Graph), (addEdgesFrom g es).multi = g.multi := by
  induction es with
  | nil => intro g; rfl
  | cons e es ih => intro g; show (addEdgesFrom (addEdgeKey g _ _ _ _) es).multi = _; rw [ih, addEdgeKey_multi]

/-! ### membership in `Graph.edges` -/

theorem edges_go_mem (rows : List (Int × Row)) : ∀ (seen : List Int) (e : Edge), e ∈ Graph.edges.go rows seen →
    ∃ r ∈ rows, r.1 = e.1 ∧ ∃ x ∈ r.2, x.1 = e.2.1 := by
  induction rows with
  | nil => intro seen e h; simp [Graph.edges.go] at h
  | cons r rows ih =>
    intro seen e h
    obtain ⟨u, row⟩ := r
    simp only [Graph.edges.go, List.mem_append, List.mem_flatMap, List.mem_filter, List.mem_map] at h
    rcases h with ⟨x, ⟨hx, _⟩, kd, _, rfl⟩ | h
    · exact ⟨(u, row), List.mem_cons_self, rfl, x, hx, rfl⟩
    · rcases ih _ e h with ⟨r, hr, h1, h2⟩
      exact ⟨r, List.mem_cons_of_mem _ hr, h1, h2⟩

theorem edges_mem_closed (g : Graph) (hc : Closed g) (e : Edge) (he : e ∈ g.edges) :
    g.hasNode e.1 = true ∧ g.hasNode e.2.1 = true := by
  rcases edges_go_mem g.adj [] e he with ⟨r, hr, h1, x, hx, h2⟩
  exact ⟨h1 ▸ (hc r hr).1, h2 ▸ (hc r hr).2 x hx⟩

/-! ### addNodesFrom -/

theorem addNode_closed (g : Graph) (n : Int) (a : NodeAttr) (hc : Closed g) : Closed (g.addNode n a) := by
  by_cases hn : g.hasNode n = true
  · -- merge: ids unchanged
    have hnodes : (g.addNode n a).nodes = g.nodes.map (fun x => if x.1 == n then (x.1, mergeAttr x.2 a) else x) := by
      simp [Graph.addNode, hn]
    have hid : ∀ w, (g.addNode n a).hasNode w = g.hasNode w := by
      intro w
      simp only [Graph.hasNode, hnodes, List.any_map]
      congr 1; funext x; simp only [Function.comp]; split <;> rfl
    have hadj : (g.addNode n a).adj = g.adj := by simp [Graph.addNode, hn]
    intro r hr; rw [hadj] at hr; simp only [hid]; exact hc r hr
  · have h' : g.hasNode n = false := by simpa using hn
    have hm : ∀ w, g.hasNode w = true → (g.addNode n a).hasNode w = true := by
      intro w hw
      rw [Graph.hasNode, addNode_nodes_of_not g n a h']
      simp only [List.any_append, Bool.or_eq_true]; left; exact hw
    intro r hr
    rw [addNode_adj_of_not g n a h'] at hr
    rcases List.mem_append.mp hr with hr | hr
    · exact ⟨hm _ (hc r hr).1, fun e he => hm _ ((hc r hr).2 e he)⟩
    · simp at hr; subst hr
      refine ⟨?_, by simp⟩
      simp [Graph.hasNode, addNode_nodes_of_not g n a h']

theorem addNodesFrom_closed (ns : List (Int × NodeAttr)) : ∀ g, Closed g → Closed (addNodesFrom g ns) := by
  induction ns with
  | nil => intro g h; exact h
  | cons n ns ih => intro g h; exact ih _ (addNode_closed g _ _ h)

/-- ids pairwise distinct -/
def NodupIds (l : List (Int × NodeAttr)) : Prop := (l.map (·.1)).Nodup

theorem addNodesFrom_nodes (ns : List (Int × NodeAttr)) : ∀ (g : Graph),
    (ns.map (·.1)).Nodup → (∀ n ∈ ns, g.hasNode n.1 = false) → (addNodesFrom g ns).nodes = g.nodes ++ ns := by
  induction ns with
  | nil => intro g _ _; simp [addNodesFrom]
  | cons n ns ih =>
    intro g hnd hdis
    have hn := hdis n List.mem_cons_self
    show (addNodesFrom (g.addNode n.1 n.2) ns).nodes = _
    simp only [List.map_cons, List.nodup_cons] at hnd
    rw [ih _ hnd.2 ?_, addNode_nodes_of_not g n.1 n.2 hn]
    · simp
    · intro m hm
      rw [Graph.hasNode, addNode_nodes_of_not g n.1 n.2 hn]
      simp only [List.any_append, List.any_cons, List.any_nil, Bool.or_false, Bool.or_eq_false_iff]
      refine ⟨hdis m (List.mem_cons_of_mem _ hm), ?_⟩
      simp only [beq_eq_false_iff_ne, ne_eq]
      intro heq
      exact hnd.1 (List.mem_map.mpr ⟨m, hm, heq.symm⟩)

theorem addNodesFrom_multi (ns : List (Int × NodeAttr)) : ∀ (g : Graph), (addNodesFrom g ns).multi = g.multi := by
  induction ns with
  | nil => intro g; rfl
  | cons n ns ih =>
    intro g
    show (addNodesFrom (g.addNode n.1 n.2) ns).multi = _
    rw [ih]; simp only [Graph.addNode]; split <;> rfl

/-! ### compose -/

theorem closed_empty (m : Bool) : Closed { multi := m } := by intro r hr; simp at hr

theorem compose_closed (g h : Graph) : Closed (compose g h) := by
  unfold compose
  exact addEdgesFrom_closed _ _ (addNodesFrom_closed _ _ (addEdgesFrom_closed _ _ (addNodesFrom_closed _ _ (closed_empty _))))

theorem compose_multi (g h : Graph) : (compose g h).multi = g.multi := by
  unfold compose
  simp only [addEdgesFrom_multi, addNodesFrom_multi]

theorem compose_nodes (g h : Graph) (hg : Closed g) (hh : Closed h)
    (hnd : ((g.nodes ++ h.nodes).map (·.1)).Nodup) : (compose g h).nodes = g.nodes ++ h.nodes := by
  have hndg : (g.nodes.map (·.1)).Nodup := by
    rw [List.map_append] at hnd; exact (List.nodup_append.mp hnd).1
  have hndh : (h.nodes.map (·.1)).Nodup := by
    rw [List.map_append] at hnd; exact (List.nodup_append.mp hnd).2.1
  have hdisj : ∀ a ∈ g.nodes.map (·.1), ∀ b ∈ h.nodes.map (·.1), a ≠ b := by
    rw [List.map_append] at hnd; exact (List.nodup_append.mp hnd).2.2
  unfold compose
  have h1 : (addNodesFrom ({ multi := g.multi } : Graph) g.nodes).nodes = g.nodes := by
    rw [addNodesFrom_nodes _ _ hndg]; · simp
    · intro n _; simp [Graph.hasNode]
  have h2 : (addEdgesFrom (addNodesFrom ({ multi := g.multi } : Graph) g.nodes) g.edges).nodes = g.nodes := by
    rw [addEdgesFrom_nodes, h1]
    intro e he
    rw [hasNode_of_nodes_eq h1, hasNode_of_nodes_eq h1]
    exact edges_mem_closed g hg e he
  have h3 : (addNodesFrom (addEdgesFrom (addNodesFrom ({ multi := g.multi } : Graph) g.nodes) g.edges) h.nodes).nodes
      = g.nodes ++ h.nodes := by
    rw [addNodesFrom_nodes _ _ hndh, h2]
    intro n hn
    rw [hasNode_of_nodes_eq h2]
    cases hb : g.hasNode n.1 with
    | false => rfl
    | true =>
      exfalso
      have := (hasNode_iff g n.1).mp hb
      exact hdisj n.1 this n.1 (List.mem_map.mpr ⟨n, hn, rfl⟩) rfl
  simp only
  rw [addEdgesFrom_nodes, h3]
  intro e he
  have := edges_mem_closed h hh e he
  have t1 := this.1
  have t2 := this.2
  rw [hasNode_iff] at t1 t2
  constructor
  · rw [hasNode_iff, Graph.nodeIds, h3]; simp only [List.map_append, List.mem_append]; right; exact t1
  · rw [hasNode_iff, Graph.nodeIds, h3]; simp only [List.map_append, List.mem_append]; right; exact t2

/-! ### the re-attachment loop -/

theorem addEdgeNew_closed (g : Graph) (u v : Int) (l : Label) (hc : Closed g) : Closed (addEdgeNew g u v l) :=
  addEdgeKey_closed g u v _ l hc

theorem addEdgeNew_nodes (g : Graph) (u v : Int) (l : Label) (hu : g.hasNode u = true) (hv : g.hasNode v = true) :
    (addEdgeNew g u v l).nodes = g.nodes := addEdgeKey_nodes g u v _ l hu hv

theorem addEdgeNew_multi (g : Graph) (u v : Int) (l : Label) : (addEdgeNew g u v l).multi = g.multi :=
  addEdgeKey_multi g u v _ l

theorem reattachLoop_closed (off : Int) (anchors : List Nat) (es : List (Edge × Nat)) :
    ∀ g, Closed g → Closed (reattachLoop off anchors g es) := by
  induction es with
  | nil => intro g h; exact h
  | cons e es ih => intro g h; obtain ⟨e, i⟩ := e; exact ih _ (addEdgeNew_closed g _ _ _ h)

theorem reattachLoop_multi (off : Int) (anchors : List Nat) (es : List (Edge × Nat)) :
    ∀ g, (reattachLoop off anchors g es).multi = g.multi := by
  induction es with
  | nil => intro g; rfl
  | cons e es ih =>
    intro g; obtain ⟨e, i⟩ := e
    show (reattachLoop off anchors (addEdgeNew g _ _ _) es).multi = _
    rw [ih, addEdgeNew_multi]

theorem reattachLoop_nodes (off : Int) (anchors : List Nat) (es : List (Edge × Nat)) :
    ∀ g, (∀ e ∈ es, g.hasNode (off + (anchorAt anchors e.2 : Nat)) = true ∧ g.hasNode e.1.2.1 = true) →
      (reattachLoop off anchors g es).nodes = g.nodes := by
  induction es with
  | nil => intro g _; rfl
  | cons e es ih =>
    intro g h
    obtain ⟨e, i⟩ := e
    have he := h (e, i) List.mem_cons_self
    have hn := addEdgeNew_nodes g (off + (anchorAt anchors i : Nat)) e.2.1 e.2.2.2 he.1 he.2
    show (reattachLoop off anchors (addEdgeNew g _ _ _) es).nodes = _
    rw [ih _ ?_, hn]
    intro e' he'
    have := h e' (List.mem_cons_of_mem _ he')
    rw [hasNode_of_nodes_eq hn, hasNode_of_nodes_eq hn]; exact this

theorem adjRow_mem (g : Graph) (n : Int) (x : Int × KeyDict) (hx : x ∈ g.adjRow n) : ∃ r ∈ g.adj, x ∈ r.2 := by
  unfold Graph.adjRow at hx
  split at hx
  · rename_i r hr; exact ⟨r, List.mem_of_find?_eq_some hr, hx⟩
  · simp at hx

theorem edgesOf_mem_closed (g : Graph) (hc : Closed g) (n : Int) (e : Edge) (he : e ∈ g.edgesOf n) :
    g.hasNode e.2.1 = true := by
  simp only [Graph.edgesOf, List.mem_flatMap, List.mem_map] at he
  rcases he with ⟨x, hx, kd, _, rfl⟩
  rcases adjRow_mem g n x hx with ⟨r, hr, hxr⟩
  exact (hc r hr).2 x hxr

theorem anchorAt_mem (anchors : List Nat) (i : Nat) (h : anchors ≠ []) : anchorAt anchors i ∈ anchors := by
  unfold anchorAt
  have hl : 0 < anchors.length := List.length_pos_iff.mpr h
  rw [List.getD_eq_getElem?_getD]
  split
  · have : anchors.length - 1 < anchors.length := by omega
    simp [List.getElem?_eq_getElem this]
  · rename_i hi
    have : i < anchors.length := by omega
    simp [List.getElem?_eq_getElem this]

theorem reattach_nodes (g : Graph) (node off : Int) (anchors : List Nat) (hc : Closed g)
    (ha : ∀ i, g.hasNode (off + (anchorAt anchors i : Nat)) = true) :
    (reattach g node off anchors).nodes = g.nodes := by
  unfold reattach
  apply reattachLoop_nodes
  intro e he
  refine ⟨ha _, ?_⟩
  have : e.1 ∈ g.edgesOf node := by
    rcases List.mem_zipIdx_iff_getElem?.mp he with h
    exact List.mem_of_getElem? h
  exact edgesOf_mem_closed g hc node e.1 this

theorem reattach_closed (g : Graph) (node off : Int) (anchors : List Nat) (hc : Closed g) :
    Closed (reattach g node off anchors) := reattachLoop_closed _ _ _ _ hc

/-! ### removeNode -/

theorem removeNode_nodes (g : Graph) (x : Int) : (g.removeNode x).nodes = g.nodes.filter (·.1 != x) := rfl

theorem removeNode_has (g : Graph) (x w : Int) (hw : g.hasNode w = true) (hne : w ≠ x) : (g.removeNode x).hasNode w = true := by
  simp only [Graph.hasNode, removeNode_nodes, List.any_filter, List.any_eq_true] at hw ⊢
  rcases hw with ⟨p, hp, hpw⟩
  refine ⟨p, hp, ?_⟩
  have : p.1 = w := by simpa using hpw
  simp [this, hne]

theorem removeNode_closed (g : Graph) (x : Int) (hc : Closed g) : Closed (g.removeNode x) := by
  intro r hr
  simp only [Graph.removeNode, List.mem_map, List.mem_filter] at hr
  rcases hr with ⟨r', ⟨hr', hne⟩, rfl⟩
  have hne' : r'.1 ≠ x := by simpa using hne
  refine ⟨removeNode_has g x _ (hc r' hr').1 hne', ?_⟩
  intro e he
  simp only [List.mem_filter] at he
  have hne2 : e.1 ≠ x := by simpa using he.2
  exact removeNode_has g x _ ((hc r' hr').2 e he.1) hne2

/-! ### relabelCopy -/

theorem relabelCopy_base_closed (m : Bool) (nodes : List (Int × NodeAttr)) :
    Closed { multi := m, nodes := nodes, adj := nodes.map fun n => (n.1, []) } := by
  intro r hr
  simp only [List.mem_map] at hr
  rcases hr with ⟨n, hn, rfl⟩
  refine ⟨?_, by simp⟩
  simp only [Graph.hasNode, List.any_eq_true]
  exact ⟨n, hn, by simp⟩

theorem relabelCopy_closed (g : Graph) (m : List (Int × Int)) : Closed (relabelCopy g m) := by
  unfold relabelCopy
  exact addEdgesFrom_closed _ _ (relabelCopy_base_closed _ _)

theorem relabelCopy_multi (g : Graph) (m : List (Int × Int)) : (relabelCopy g m).multi = g.multi := by
  unfold relabelCopy
  simp only [addEdgesFrom_multi]

theorem relabelCopy_nodes (g : Graph) (m : List (Int × Int)) (hc : Closed g) :
    (relabelCopy g m).nodes = g.nodes.map fun n => (mapId m n.1, n.2) := by
  unfold relabelCopy
  simp only
  rw [addEdgesFrom_nodes]
  intro e he
  simp only [List.mem_map] at he
  rcases he with ⟨e', he', rfl⟩
  have h := edges_mem_closed g hc e' he'
  have key : ∀ w, g.hasNode w = true →
      Graph.hasNode { multi := g.multi, nodes := g.nodes.map fun n => (mapId m n.1, n.2),
                      adj := (g.nodes.map fun n => (mapId m n.1, n.2)).map fun n => (n.1, []) } (mapId m w) = true := by
    intro w hw
    simp only [Graph.hasNode, List.any_eq_true, List.any_map] at hw ⊢
    rcases hw with ⟨p, hp, hpw⟩
    refine ⟨p, hp, ?_⟩
    have : p.1 = w := by simpa using hpw
    simp [this]
  exact ⟨key _ h.1, key _ h.2⟩

/-! ### renumbering -/

theorem insertAsc_le_head (x : Int) (l : List Int) (h : ∀ y ∈ l, x ≤ y) : insertAsc x l = x :: l := by
  cases l with
  | nil => rfl
  | cons y ys => simp [insertAsc, h y List.mem_cons_self]

theorem sortAsc_sorted (l : List Int) (h : l.Pairwise (· ≤ ·)) : sortAsc l = l := by
  induction l with
  | nil => rfl
  | cons a l ih =>
    rw [List.pairwise_cons] at h
    show insertAsc a (sortAsc l) = a :: l
    rw [ih h.2]; exact insertAsc_le_head a l h.1

theorem mapId_zipIdx (off : Int) (ids : List Int) : ∀ (c : Nat), ids.Nodup → ∀ u i, (u, i) ∈ ids.zipIdx c →
    mapId ((ids.zipIdx c).map fun p => (p.1, (p.2 : Int) + off)) u = (i : Int) + off := by
  induction ids with
  | nil => intro c _ u i h; simp at h
  | cons a ids ih =>
    intro c hnd u i h
    rw [List.nodup_cons] at hnd
    simp only [List.zipIdx_cons, List.mem_cons, Prod.mk.injEq] at h
    simp only [List.zipIdx_cons, List.map_cons, mapId, List.find?_cons]
    rcases h with ⟨rfl, rfl⟩ | h
    · simp
    · have hne : a ≠ u := by
        intro heq; subst heq
        exact hnd.1 (List.fst_mem_of_mem_zipIdx h)
      have : (a == u) = false := by simpa using hne
      simp only [this]
      exact ih (c + 1) hnd.2 u i h


theorem map_mapId_eq_zipIdx {α : Type} (m : List (Int × Int)) (l : List (Int × α)) : ∀ (c : Nat),
    (∀ p i, (p, i) ∈ l.zipIdx c → mapId m p.1 = (i : Int)) →
    l.map (fun p => (mapId m p.1, p.2)) = (l.zipIdx c).map fun q => ((q.2 : Int), q.1.2) := by
  induction l with
  | nil => intro c _; rfl
  | cons a l ih =>
    intro c h
    simp only [List.map_cons, List.zipIdx_cons, List.cons.injEq]
    refine ⟨?_, ih (c + 1) ?_⟩
    · rw [h a c (by simp [List.zipIdx_cons])]
    · intro p i hp; exact h p i (by simp [List.zipIdx_cons, hp])

/-- ids `s, s+1, …` with `x < s`: every element keeps position `id - 1` -/
theorem renumber_after {α : Type} (x : Int) (l : List (Int × α)) : ∀ (s c : Nat),
    l.map (·.1) = (List.range' s l.length).map Int.ofNat → x < (s : Int) → c + 1 = s →
    ((l.filter (·.1 != x)).zipIdx c).map (fun q => ((q.2 : Int), q.1.2)) = (l.filter (·.1 != x)).map fun p => (ren x p.1, p.2) := by
  induction l with
  | nil => intro s c _ _ _; rfl
  | cons a l ih =>
    intro s c hid hx hc
    simp only [List.map_cons, List.length_cons, List.range'_succ, List.cons.injEq] at hid
    have ha : a.1 = (s : Int) := hid.1
    have hne : (a.1 != x) = true := by simp [ha]; omega
    simp only [List.filter_cons, hne, if_true, List.zipIdx_cons, List.map_cons, List.cons.injEq]
    refine ⟨?_, ih (s + 1) (c + 1) hid.2 (by omega) (by omega)⟩
    simp only [ren, ha]
    have : ¬ ((s : Int) < x) := by omega
    simp [this]; omega

/-- ids `s, s+1, …` with `s ≤ x`: ids below `x` keep their position, ids above move down by one -/
theorem renumber_from {α : Type} (x : Int) (l : List (Int × α)) : ∀ (s : Nat),
    l.map (·.1) = (List.range' s l.length).map Int.ofNat → (s : Int) ≤ x →
    ((l.filter (·.1 != x)).zipIdx s).map (fun q => ((q.2 : Int), q.1.2)) = (l.filter (·.1 != x)).map fun p => (ren x p.1, p.2) := by
  induction l with
  | nil => intro s _ _; rfl
  | cons a l ih =>
    intro s hid hx
    simp only [List.map_cons, List.length_cons, List.range'_succ, List.cons.injEq] at hid
    have ha : a.1 = (s : Int) := hid.1
    by_cases hxs : x = (s : Int)
    · have hne : (a.1 != x) = false := by simp [ha, hxs]
      simp only [List.filter_cons, hne, Bool.false_eq_true, if_false]
      exact renumber_after x l (s + 1) s hid.2 (by omega) rfl
    · have hne : (a.1 != x) = true := by simp [ha]; omega
      simp only [List.filter_cons, hne, if_true, List.zipIdx_cons, List.map_cons, List.cons.injEq]
      refine ⟨?_, ih (s + 1) hid.2 (by omega)⟩
      simp only [ren, ha]
      have : ((s : Int) < x) := by omega
      simp [this]


theorem filter_len_after {α : Type} (x : Int) (l : List (Int × α)) : ∀ (s : Nat),
    l.map (·.1) = (List.range' s l.length).map Int.ofNat → x < (s : Int) → l.filter (·.1 != x) = l := by
  induction l with
  | nil => intro s _ _; rfl
  | cons a l ih =>
    intro s hid hx
    simp only [List.map_cons, List.length_cons, List.range'_succ, List.cons.injEq] at hid
    have ha : a.1 = (s : Int) := hid.1
    have hne : (a.1 != x) = true := by simp [ha]; omega
    simp only [List.filter_cons, hne, if_true, List.cons.injEq, true_and]
    exact ih (s + 1) hid.2 (by omega)

theorem filter_len_from {α : Type} (x : Int) (l : List (Int × α)) : ∀ (s : Nat),
    l.map (·.1) = (List.range' s l.length).map Int.ofNat → (s : Int) ≤ x → x < (s : Int) + l.length →
    (l.filter (·.1 != x)).length + 1 = l.length := by
  induction l with
  | nil => intro s _ h1 h2; simp at h2; omega
  | cons a l ih =>
    intro s hid h1 h2
    simp only [List.map_cons, List.length_cons, List.range'_succ, List.cons.injEq] at hid
    have ha : a.1 = (s : Int) := hid.1
    by_cases hxs : x = (s : Int)
    · have hne : (a.1 != x) = false := by simp [ha, hxs]
      simp only [List.filter_cons, hne, Bool.false_eq_true, if_false, List.length_cons]
      rw [filter_len_after x l (s + 1) hid.2 (by omega)]
    · have hne : (a.1 != x) = true := by simp [ha]; omega
      simp only [List.filter_cons, hne, if_true, List.length_cons]
      have := ih (s + 1) hid.2 (by omega) (by simp only [List.length_cons] at h2; omega)
      omega

theorem shift_part {α : Type} (n : Int) (l : List (Int × α)) : ∀ (s c : Nat),
    l.map (·.1) = (List.range' s l.length).map Int.ofNat → (c : Int) = s + (n - 1) →
    ((l.map fun p => (p.1 + n, p.2)).zipIdx c).map (fun q => ((q.2 : Int), q.1.2)) = l.map fun p => (p.1 + (n - 1), p.2) := by
  induction l with
  | nil => intro s c _ _; rfl
  | cons a l ih =>
    intro s c hid hc
    simp only [List.map_cons, List.length_cons, List.range'_succ, List.cons.injEq] at hid
    have ha : a.1 = (s : Int) := hid.1
    simp only [List.map_cons, List.zipIdx_cons, List.cons.injEq]
    refine ⟨?_, ih (s + 1) (c + 1) hid.2 (by push_cast; omega)⟩
    simp only [ha, hc]


/-! ### assembling the node list of `replaceNodeLen` -/

theorem contiguous_ids (g : Graph) (h : contiguous g = true) :
    g.nodes.map (·.1) = (List.range' 0 g.nodes.length).map Int.ofNat := by
  have := eq_of_beq h
  rw [List.range_eq_range'] at this; exact this

theorem ids_bounds {l : List (Int × NodeAttr)} {s : Nat} (h : l.map (·.1) = (List.range' s l.length).map Int.ofNat)
    {a : Int} (ha : a ∈ l.map (·.1)) : (s : Int) ≤ a ∧ a < (s : Int) + l.length := by
  rw [h] at ha
  rcases List.mem_map.mp ha with ⟨k, hk, rfl⟩
  have := List.mem_range'_1.mp hk
  constructor
  · exact Int.ofNat_le.mpr this.1
  · have h2 : ((k : Nat) : Int) < ((s + l.length : Nat) : Int) := Int.ofNat_lt.mpr this.2
    simpa using h2

theorem ids_pairwise {l : List (Int × NodeAttr)} {s : Nat} (h : l.map (·.1) = (List.range' s l.length).map Int.ofNat) :
    (l.map (·.1)).Pairwise (· < ·) := by
  rw [h]
  exact (List.pairwise_lt_range' (s := s) (n := l.length)).map Int.ofNat (fun a b hab => Int.ofNat_lt.mpr hab)

theorem shiftGraph_nodes (h : Graph) (k : Int) : (shiftGraph h k).nodes = h.nodes.map fun n => (n.1 + k, n.2) := rfl

theorem shiftGraph_closed (h : Graph) (k : Int) (hc : Closed h) : Closed (shiftGraph h k) := by
  have hn : ∀ w, h.hasNode w = true → (shiftGraph h k).hasNode (w + k) = true := by
    intro w hw
    simp only [Graph.hasNode, shiftGraph_nodes, List.any_map, List.any_eq_true] at hw ⊢
    rcases hw with ⟨p, hp, hpw⟩
    refine ⟨p, hp, ?_⟩
    have : p.1 = w := by simpa using hpw
    simp [this]
  intro r hr
  simp only [shiftGraph, List.mem_map] at hr
  rcases hr with ⟨r', hr', rfl⟩
  refine ⟨hn _ (hc r' hr').1, ?_⟩
  intro e he
  simp only [List.mem_map] at he
  rcases he with ⟨e', he', rfl⟩
  exact hn _ ((hc r' hr').2 e' he')

/-- node-level domain of the substitution -/
structure NodeDom (g : Graph) (x : Int) (sub : Graph) (anchors : List Nat) : Prop where
  contG : contiguous g = true
  hasX : g.hasNode x = true
  contS : contiguous sub = true
  closedG : Closed g
  closedS : Closed sub
  anchors : anchorsOk sub anchors = true

/-- the nodes before relabelling, numbered by position -/
def zipNodes (g : Graph) (x : Int) (sub : Graph) : List (Int × NodeAttr) :=
  ((g.nodes.filter (·.1 != x) ++ (shiftGraph sub g.nodes.length).nodes).zipIdx 0).map fun q => ((q.2 : Int), q.1.2)

theorem replaceNodeLen_nodes_zip (g : Graph) (x : Int) (sub : Graph) (anchors : List Nat) (hd : NodeDom g x sub anchors) :
    (replaceNodeLen g x sub anchors).nodes = zipNodes g x sub := by
  obtain ⟨hcg, hx, hcs, hclg, hcls, hanch⟩ := hd
  have hidg := contiguous_ids g hcg
  have hids := contiguous_ids sub hcs
  -- bounds on x
  have hxb := ids_bounds hidg ((hasNode_iff g x).mp hx)
  -- the shifted pattern
  let n : Int := g.nodes.length
  let h := shiftGraph sub n
  have hhn : h.nodes = sub.nodes.map fun p => (p.1 + n, p.2) := rfl
  have hclh : Closed h := shiftGraph_closed sub n hcls
  have hhid : h.nodes.map (·.1) = (sub.nodes.map (·.1)).map (· + n) := by
    rw [hhn]; simp [List.map_map, Function.comp_def]
  have hhb : ∀ b ∈ h.nodes.map (·.1), n ≤ b := by
    intro b hb
    rw [hhid] at hb
    rcases List.mem_map.mp hb with ⟨a, ha, rfl⟩
    have := (ids_bounds hids ha).1
    omega
  -- composition
  have hpw : ((g.nodes ++ h.nodes).map (·.1)).Pairwise (· < ·) := by
    rw [List.map_append, List.pairwise_append]
    refine ⟨ids_pairwise hidg, ?_, ?_⟩
    · rw [hhid]
      exact (ids_pairwise hids).map (· + n) (fun a b hab => by omega)
    · intro a ha b hb
      have := (ids_bounds hidg ha).2
      have := hhb b hb
      omega
  have hnd : ((g.nodes ++ h.nodes).map (·.1)).Nodup :=
    List.nodup_iff_pairwise_ne.mpr (hpw.imp (fun hab => Int.ne_of_lt hab))
  have hcn : (compose g h).nodes = g.nodes ++ h.nodes := compose_nodes g h hclg hclh hnd
  have hcc : Closed (compose g h) := compose_closed g h
  -- re-attachment
  let c' := if h.nodes.length > 0 then reattach (compose g h) x n anchors else compose g h
  have hc'n : c'.nodes = g.nodes ++ h.nodes := by
    show (if h.nodes.length > 0 then reattach (compose g h) x n anchors else compose g h).nodes = _
    split
    · rename_i hpos
      rw [reattach_nodes _ _ _ _ hcc, hcn]
      intro i
      have hne : sub.nodes.isEmpty = false := by
        have : sub.nodes.length > 0 := by rw [hhn] at hpos; simpa using hpos
        cases hs : sub.nodes with
        | nil => simp [hs] at this
        | cons _ _ => rfl
      simp only [anchorsOk, hne, Bool.false_or, Bool.and_eq_true, List.all_eq_true, decide_eq_true_eq] at hanch
      have hane : anchors ≠ [] := by
        intro he; rw [he] at hanch; simp at hanch
      have hlt := hanch.2 _ (anchorAt_mem anchors i hane)
      rw [hasNode_iff, Graph.nodeIds, hcn, List.map_append, List.mem_append]
      right
      rw [hhid, hids]
      refine List.mem_map.mpr ⟨(anchorAt anchors i : Int), ?_, by omega⟩
      exact List.mem_map.mpr ⟨anchorAt anchors i, List.mem_range'_1.mpr ⟨by omega, by omega⟩, rfl⟩
    · exact hcn
  have hc'c : Closed c' := by
    show Closed (if h.nodes.length > 0 then reattach (compose g h) x n anchors else compose g h)
    split
    · exact reattach_closed _ _ _ _ hcc
    · exact hcc
  -- removal
  have hg4n : (c'.removeNode x).nodes = g.nodes.filter (·.1 != x) ++ h.nodes := by
    rw [removeNode_nodes, hc'n, List.filter_append]
    congr 1
    apply List.filter_eq_self.mpr
    intro p hp
    have := hhb p.1 (List.mem_map.mpr ⟨p, hp, rfl⟩)
    simp; omega
  have hg4c : Closed (c'.removeNode x) := removeNode_closed _ _ hc'c
  -- ids of the graph before relabelling are strictly increasing
  have hg4pw : ((c'.removeNode x).nodes.map (·.1)).Pairwise (· < ·) := by
    rw [hg4n]
    have hsub : (g.nodes.filter (·.1 != x) ++ h.nodes).Sublist (g.nodes ++ h.nodes) :=
      List.Sublist.append List.filter_sublist (List.Sublist.refl _)
    exact List.Pairwise.sublist (hsub.map (·.1)) hpw
  -- relabelling
  show (relabelGraph (c'.removeNode x) 0).nodes = _
  unfold relabelGraph
  rw [relabelCopy_nodes _ _ hg4c]
  have hsort : sortAsc (c'.removeNode x).nodeIds = (c'.removeNode x).nodeIds :=
    sortAsc_sorted _ (hg4pw.imp (fun hab => Int.le_of_lt hab))
  have hnd4 : (c'.removeNode x).nodeIds.Nodup := List.nodup_iff_pairwise_ne.mpr (hg4pw.imp (fun hab => Int.ne_of_lt hab))
  rw [map_mapId_eq_zipIdx _ _ 0]
  · rw [hg4n]; rfl
  · intro p i hp
    unfold relabelMapping
    rw [hsort]
    have : (p.1, i) ∈ (c'.removeNode x).nodeIds.zipIdx 0 := by
      unfold Graph.nodeIds
      rw [List.zipIdx_map]
      exact List.mem_map.mpr ⟨(p, i), hp, rfl⟩
    have := mapId_zipIdx 0 _ 0 hnd4 p.1 i this
    simpa using this


theorem zipNodes_eq_spec (g : Graph) (x : Int) (sub : Graph) (hcg : contiguous g = true) (hx : g.hasNode x = true)
    (hcs : contiguous sub = true) : zipNodes g x sub = specNodes g x sub := by
  have hidg := contiguous_ids g hcg
  have hids := contiguous_ids sub hcs
  have hxb := ids_bounds hidg ((hasNode_iff g x).mp hx)
  unfold zipNodes specNodes
  rw [List.zipIdx_append, List.map_append]
  congr 1
  · exact renumber_from x g.nodes 0 hidg (by simpa using hxb.1)
  · rw [shiftGraph_nodes]
    apply shift_part (g.nodes.length : Int) sub.nodes 0 _ hids
    have := filter_len_from x g.nodes 0 hidg (by simpa using hxb.1) (by simpa using hxb.2)
    simp only [Nat.zero_add]
    show ((List.filter (fun p => p.1 != x) g.nodes).length : Int) = ((0 : Nat) : Int) + ((g.nodes.length : Int) - 1)
    omega

theorem replaceNodeLen_nodes (g : Graph) (x : Int) (sub : Graph) (anchors : List Nat) (hd : NodeDom g x sub anchors) :
    (replaceNodeLen g x sub anchors).nodes = specNodes g x sub := by
  rw [replaceNodeLen_nodes_zip g x sub anchors hd]
  exact zipNodes_eq_spec g x sub hd.contG hd.hasX hd.contS

theorem zipIdx_ids {α : Type} (l : List (α)) : ∀ (c : Nat),
    ((l.zipIdx c).map fun q => ((q.2 : Int))) = (List.range' c l.length).map Int.ofNat := by
  induction l with
  | nil => intro c; rfl
  | cons a l ih => intro c; simp only [List.zipIdx_cons, List.map_cons, List.length_cons, List.range'_succ, ih (c + 1)]; rfl

theorem replaceNodeLen_contiguous (g : Graph) (x : Int) (sub : Graph) (anchors : List Nat) (hd : NodeDom g x sub anchors) :
    contiguous (replaceNodeLen g x sub anchors) = true := by
  unfold contiguous Graph.nodeIds
  rw [replaceNodeLen_nodes_zip g x sub anchors hd]
  unfold zipNodes
  simp only [List.map_map, List.length_map, List.length_zipIdx, beq_iff_eq]
  rw [List.range_eq_range']
  exact zipIdx_ids _ 0

theorem replaceNodeLen_closed (g : Graph) (x : Int) (sub : Graph) (anchors : List Nat) :
    Closed (replaceNodeLen g x sub anchors) := relabelCopy_closed _ _

theorem replaceNodeLen_multi (g : Graph) (x : Int) (sub : Graph) (anchors : List Nat) :
    (replaceNodeLen g x sub anchors).multi = g.multi := by
  show (relabelGraph _ 0).multi = _
  unfold relabelGraph
  rw [relabelCopy_multi]
  show (Graph.removeNode _ x).multi = _
  show (if (shiftGraph sub g.nodes.length).nodes.length > 0 then reattach (compose g _) x _ anchors else compose g _).multi = _
  split
  · unfold reattach; rw [reattachLoop_multi, compose_multi]
  · rw [compose_multi]

/-! ### from the decidable predicates -/

theorem closed_of_closedB (g : Graph) (h : closedB g = true) : Closed g := by
  intro r hr
  simp only [closedB, List.all_eq_true, Bool.and_eq_true] at h
  have := h r hr
  refine ⟨(hasNode_iff g _).mpr (by simpa using this.1), fun e he => (hasNode_iff g _).mpr (by simpa using this.2 e he)⟩

theorem closed_of_wf (g : Graph) (h : wf g = true) : Closed g := by
  simp only [wf, Bool.and_eq_true, List.all_eq_true] at h
  obtain ⟨⟨hrows, _⟩, hall⟩ := h
  have hrows' : g.adj.map (·.1) = g.nodeIds := eq_of_beq hrows
  intro r hr
  refine ⟨(hasNode_iff g _).mpr (hrows' ▸ List.mem_map.mpr ⟨r, hr, rfl⟩), fun e he => ?_⟩
  have := (hall r hr).2 e he
  exact (hasNode_iff g _).mpr (by simpa using this.1.1.1.1)

theorem nodeDom_of_inDomain (g : Graph) (x : Int) (sub : Graph) (anchors : List Nat)
    (h : inDomain g x sub anchors = true) : NodeDom g x sub anchors := by
  simp only [inDomain, Bool.and_eq_true] at h
  obtain ⟨⟨⟨⟨⟨⟨⟨hwg, hcg⟩, hx⟩, _⟩, hws⟩, hcs⟩, ha⟩, _⟩ := h
  exact ⟨hcg, hx, hcs, closed_of_wf g hwg, closed_of_wf sub hws, ha⟩

end C13
