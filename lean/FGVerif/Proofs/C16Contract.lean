import FGVerif.Proofs.C16Mono
namespace C16

/-! ### the assumed contract of VF2 and its executable check -/

/-- **assumed contract of `GraphMatcher.subgraph_monomorphisms_iter`**: every yielded mapping is a
    label- and bond-preserving monomorphism of `l` into `g`, every such monomorphism is yielded,
    and none twice -/
structure MatchesContract (g l : MolGraph) (ms : List Match) : Prop where
  sound : ∀ m ∈ ms, IsMono g l m
  complete : ∀ m, IsMono g l m → ∃ m' ∈ ms, SameMap m m'
  once : ms.Pairwise fun a b => ¬ SameMap a b

theorem mapOpt_some {α β : Type} (f : α → Option β) : ∀ (as : List α) (bs : List β),
    mapOpt f as = some bs ↔ Forall2 (fun a b => f a = some b) as bs := by
  intro as
  induction as with
  | nil =>
    intro bs
    simp only [mapOpt, Option.some.injEq]
    constructor
    · rintro rfl; exact Forall2.nil
    · intro h; cases h; rfl
  | cons a as ih =>
    intro bs
    rw [mapOpt]
    constructor
    · intro h
      cases h1 : f a with
      | none => simp [h1] at h
      | some b =>
        cases h2 : mapOpt f as with
        | none => simp [h1, h2] at h
        | some bs' =>
          simp only [h1, h2, Option.some.injEq] at h
          subst h
          exact Forall2.cons h1 ((ih bs').mp h2)
    · intro h
      cases h with
      | cons h1 h2 =>
        rw [h1, (ih _).mpr h2]

theorem mapOpt_total {α β : Type} (f : α → Option β) (as : List α) (h : ∀ a ∈ as, (f a).isSome = true) :
    ∃ bs, mapOpt f as = some bs := by
  induction as with
  | nil => exact ⟨[], rfl⟩
  | cons a as ih =>
    obtain ⟨bs, hbs⟩ := ih fun a' ha' => h a' (List.mem_cons_of_mem _ ha')
    have := h a (by simp)
    cases h1 : f a with
    | none => rw [h1] at this; simp at this
    | some b => exact ⟨b :: bs, by rw [mapOpt, h1, hbs]⟩

theorem invM_congr (a b : Match) (ha : MatchInj a) (hb : MatchInj b) (hs : SameMap a b) (x : Int) :
    invM a x = invM b x := by
  cases h : invM a x with
  | some u => exact (invM_of_mem b hb.vals u x ((hs _).mp (invM_some_mem a u x h))).symm
  | none =>
    cases h' : invM b x with
    | none => rfl
    | some u =>
      have := invM_of_mem a ha.vals u x ((hs _).mpr (invM_some_mem b u x h'))
      rw [h] at this; simp at this

theorem getM_congr (a b : Match) (ha : MatchInj a) (hb : MatchInj b) (hs : SameMap a b) (u : Int) :
    getM a u = getM b u := by
  cases h : getM a u with
  | some x => exact (getM_of_mem b hb.keys u x ((hs _).mp (getM_some_mem a u x h))).symm
  | none =>
    cases h' : getM b u with
    | none => rfl
    | some x =>
      have := getM_of_mem a ha.keys u x ((hs _).mpr (getM_some_mem b u x h'))
      rw [h] at this; simp at this

/-- what a successful normalisation says -/
theorem normMatch_some (l : MolGraph) (m n' : Match) (h : normMatch l m = some n') :
    MatchInj m ∧ (∀ p ∈ m, p.2 ∈ l.nodeIds) ∧
      Forall2 (fun (n : Int × String) (q : Int × Int) => invM m n.1 = some q.1 ∧ q.2 = n.1) l.nodes n' := by
  unfold normMatch at h
  split at h
  · rename_i hc
    simp only [Bool.and_eq_true, decide_eq_true_eq, List.all_eq_true, List.contains_eq_mem] at hc
    refine ⟨⟨hc.1.1, hc.1.2⟩, fun p hp => by simpa using hc.2 p hp, ?_⟩
    have := (mapOpt_some _ _ _).mp h
    clear h
    generalize l.nodes = ns at this ⊢
    induction this with
    | nil => exact Forall2.nil
    | @cons a b as bs h1 _ ih =>
      refine Forall2.cons ?_ ih
      cases hi : invM m a.1 with
      | none => rw [hi] at h1; simp at h1
      | some u => rw [hi] at h1; simp at h1; subst h1; exact ⟨rfl, rfl⟩
  · exact absurd h (by simp)

theorem normMatch_vals (l : MolGraph) (m n' : Match) (h : normMatch l m = some n') :
    n'.map (·.2) = l.nodeIds := by
  have := (normMatch_some l m n' h).2.2
  clear h
  unfold MolGraph.nodeIds
  generalize l.nodes = ns at this ⊢
  induction this with
  | nil => rfl
  | cons h1 _ ih => simp [ih, h1.2]

theorem normMatch_sameMap (l : MolGraph) (m n' : Match) (h : normMatch l m = some n') : SameMap m n' := by
  obtain ⟨hinj, hdom, hf⟩ := normMatch_some l m n' h
  intro p
  constructor
  · intro hp
    have hx := hdom p hp
    unfold MolGraph.nodeIds at hx
    obtain ⟨n, hn, hn1⟩ := List.mem_map.mp hx
    obtain ⟨q, hq, hi, hq2⟩ := forall2_mem_left hf n hn
    have := invM_of_mem m hinj.vals p.1 p.2 hp
    rw [← hn1, hi] at this
    have : q = p := by
      have h1 : q.1 = p.1 := by simpa using this
      have h2 : q.2 = p.2 := by rw [hq2, hn1]
      exact Prod.ext h1 h2
    rw [← this]; exact hq
  · intro hp
    obtain ⟨n, _, hi, hq2⟩ := forall2_mem_right hf p hp
    have := invM_some_mem m p.1 n.1 hi
    rw [← hq2] at this
    exact this

theorem normMatch_inj (l : MolGraph) (hl : l.nodeIds.Nodup) (m n' : Match) (h : normMatch l m = some n') :
    MatchInj n' := by
  have hv := normMatch_vals l m n' h
  have hs := normMatch_sameMap l m n' h
  have hinj := (normMatch_some l m n' h).1
  refine ⟨?_, by rw [hv]; exact hl⟩
  have hvals : (n'.map (·.2)).Nodup := by rw [hv]; exact hl
  unfold List.Nodup at hvals ⊢
  rw [List.pairwise_map] at hvals ⊢
  refine hvals.imp_of_mem ?_
  intro a b ha hb hab hc
  apply hab
  have h1 := getM_of_mem m hinj.keys a.1 a.2 ((hs a).mpr ha)
  have h2 := getM_of_mem m hinj.keys b.1 b.2 ((hs b).mpr hb)
  rw [hc, h2] at h1
  exact (Option.some.inj h1).symm

theorem normMatch_congr (l : MolGraph) (a b na nb : Match) (ha : normMatch l a = some na)
    (hb : normMatch l b = some nb) (hs : SameMap a b) : na = nb := by
  obtain ⟨ia, _, fa⟩ := normMatch_some l a na ha
  obtain ⟨ib, _, fb⟩ := normMatch_some l b nb hb
  have hc := invM_congr a b ia ib hs
  clear ha hb
  generalize l.nodes = ns at fa fb
  induction fa generalizing nb with
  | nil => cases fb; rfl
  | cons h1 _ ih =>
    cases fb with
    | cons h2 h3 =>
      rw [ih _ h3]
      congr 1
      rw [hc, h2.1] at h1
      exact Prod.ext (Option.some.inj h1.1).symm (by rw [h1.2, h2.2])

theorem normMatch_total (g l : MolGraph) (m : Match) (h : IsMono g l m) : ∃ n', normMatch l m = some n' := by
  unfold normMatch
  have hc : (decide (m.map (·.1)).Nodup && decide (m.map (·.2)).Nodup
      && m.all (fun p => l.nodeIds.contains p.2)) = true := by
    simp only [Bool.and_eq_true, decide_eq_true_eq, List.all_eq_true, List.contains_eq_mem]
    refine ⟨⟨h.inj.keys, h.inj.vals⟩, fun p hp => ?_⟩
    have := (h.dom p.2).mp (List.mem_map.mpr ⟨p, hp, rfl⟩)
    simpa using this
  rw [if_pos hc]
  apply mapOpt_total
  intro n hn
  have : n.1 ∈ l.nodeIds := List.mem_map.mpr ⟨n, hn, rfl⟩
  obtain ⟨p, hp, hp2⟩ := List.mem_map.mp ((h.dom n.1).mpr this)
  have := invM_of_mem m h.inj.vals p.1 p.2 hp
  rw [hp2] at this
  simp [this]

theorem SameMap.symm {a b : Match} (h : SameMap a b) : SameMap b a := fun p => (h p).symm
theorem SameMap.trans {a b c : Match} (h1 : SameMap a b) (h2 : SameMap b c) : SameMap a c :=
  fun p => (h1 p).trans (h2 p)

theorem forall2_pairwise {α β : Type} {R : α → β → Prop} {S : β → β → Prop} {T : α → α → Prop}
    {as : List α} {bs : List β} (h : Forall2 R as bs) (hp : bs.Pairwise S)
    (hst : ∀ a a' b b', R a b → R a' b' → S b b' → T a a') : as.Pairwise T := by
  induction h with
  | nil => exact List.Pairwise.nil
  | cons h1 h2 ih =>
    rw [List.pairwise_cons] at hp ⊢
    refine ⟨?_, ih hp.2⟩
    intro a' ha'
    obtain ⟨b', hb', hr⟩ := forall2_mem_left h2 a' ha'
    exact hst _ _ _ _ h1 hr (hp.1 b' hb')

/-- the executable check of the contract (own enumerator) is sound -/
theorem contractOk_sound (g l : MolGraph) (hl : l.nodeIds.Nodup) (ms : List Match)
    (h : contractOk g l ms = true) : MatchesContract g l ms := by
  unfold contractOk at h
  cases hm : mapOpt (normMatch l) ms with
  | none => rw [hm] at h; simp at h
  | some ns =>
    rw [hm] at h
    simp only [Bool.and_eq_true, List.all_eq_true, List.contains_eq_mem, decide_eq_true_eq] at h
    obtain ⟨⟨h1, h2⟩, h3⟩ := h
    have hf := (mapOpt_some _ _ _).mp hm
    refine ⟨?_, ?_, ?_⟩
    · intro m hmem
      obtain ⟨n', hn', hnm⟩ := forall2_mem_left hf m hmem
      have hmono := (mem_monos_isMono g l hl n' (by simpa using h1 n' hn')).1
      exact hmono.of_sameMap (normMatch_sameMap l m n' hnm).symm (normMatch_some l m n' hnm).1
    · intro m hmono
      obtain ⟨n', hnm⟩ := normMatch_total g l m hmono
      have hs := normMatch_sameMap l m n' hnm
      have hn'mono := hmono.of_sameMap hs (normMatch_inj l hl m n' hnm)
      have hown := isMono_mem_monos g l hl n' hn'mono (normMatch_vals l m n' hnm)
      have hin : n' ∈ ns := by simpa using h2 n' hown
      obtain ⟨m', hm', hnm'⟩ := forall2_mem_right hf n' hin
      exact ⟨m', hm', hs.trans (normMatch_sameMap l m' n' hnm').symm⟩
    · refine forall2_pairwise hf h3 ?_
      intro a a' b b' hab hab' hne hs
      exact hne (normMatch_congr l a a' b b' hab hab' hs)

end C16
