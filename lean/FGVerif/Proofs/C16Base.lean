import FGVerif.Model.C16
/-!
  C16 — basic lemmas: unordered lookup in edge lists, the overlay step of `apply_rule`.
-/
namespace C16

theorem hit_symm (a b u v : Int) : hit a b u v = hit a b v u := by
  simp only [hit]; rw [Bool.or_comm]

theorem hit_iff (a b u v : Int) : hit a b u v = true ↔ (a = u ∧ b = v) ∨ (a = v ∧ b = u) := by
  simp [hit]

theorem hit_swap (a b u v : Int) : hit a b u v = hit b a u v := by
  rw [Bool.eq_iff_iff, hit_iff, hit_iff]; omega

theorem hit_false_iff (a b u v : Int) : hit a b u v = false ↔ ¬ ((a = u ∧ b = v) ∨ (a = v ∧ b = u)) := by
  rw [← hit_iff]; simp

theorem lookupE_nil {α} (u v : Int) : lookupE ([] : List (E α)) u v = none := rfl

theorem lookupE_cons {α} (e : E α) (es : List (E α)) (u v : Int) :
    lookupE (e :: es) u v = if hit e.1 e.2.1 u v then some e.2.2 else lookupE es u v := by
  simp only [lookupE, List.find?_cons]
  split <;> simp_all

theorem lookupE_symm {α} (es : List (E α)) (u v : Int) : lookupE es u v = lookupE es v u := by
  induction es with
  | nil => rfl
  | cons e es ih => rw [lookupE_cons, lookupE_cons, ih, hit_symm]

theorem lookupE_append {α} (as bs : List (E α)) (u v : Int) :
    lookupE (as ++ bs) u v = (lookupE as u v).or (lookupE bs u v) := by
  induction as with
  | nil => simp [lookupE_nil]
  | cons e es ih =>
    rw [List.cons_append, lookupE_cons, lookupE_cons, ih]
    split <;> simp

/-- a relabelling that keeps the end points -/
theorem lookupE_map {α β} (f : E α → β) (es : List (E α)) (u v : Int) :
    lookupE (es.map fun e => (e.1, e.2.1, f e)) u v
      = ((es.find? fun e => hit e.1 e.2.1 u v).map f) := by
  induction es with
  | nil => rfl
  | cons e es ih =>
    rw [List.map_cons, lookupE_cons, List.find?_cons]
    simp only
    split <;> simp_all

theorem lookupE_eq_none {α} (es : List (E α)) (u v : Int) :
    lookupE es u v = none ↔ ∀ e ∈ es, hit e.1 e.2.1 u v = false := by
  induction es with
  | nil => simp [lookupE_nil]
  | cons e es ih =>
    rw [lookupE_cons]
    by_cases h : hit e.1 e.2.1 u v = true
    · simp [h]
    · simp [h, ih]

theorem lookupE_some_mem {α} (es : List (E α)) (u v : Int) (a : α) (h : lookupE es u v = some a) :
    ∃ e ∈ es, hit e.1 e.2.1 u v = true ∧ e.2.2 = a := by
  induction es with
  | nil => simp [lookupE_nil] at h
  | cons e es ih =>
    rw [lookupE_cons] at h
    by_cases hh : hit e.1 e.2.1 u v = true
    · simp [hh] at h; exact ⟨e, by simp, hh, h⟩
    · simp [hh] at h
      obtain ⟨e', he', h1, h2⟩ := ih h
      exact ⟨e', by simp [he'], h1, h2⟩

/-- no two entries of the edge list join the same pair of nodes -/
def NodupPairs {α} (es : List (E α)) : Prop :=
  es.Pairwise fun e f => hit e.1 e.2.1 f.1 f.2.1 = false

theorem hit_trans {a b c d u v : Int} (h1 : hit a b u v = true) (h2 : hit c d u v = true) :
    hit a b c d = true := by
  rw [hit_iff] at *
  omega

theorem lookupE_of_mem {α} (es : List (E α)) (hn : NodupPairs es) (e : E α) (he : e ∈ es) (u v : Int)
    (hh : hit e.1 e.2.1 u v = true) : lookupE es u v = some e.2.2 := by
  induction es with
  | nil => simp at he
  | cons x xs ih =>
    rw [lookupE_cons]
    have hn' := List.pairwise_cons.mp hn
    rcases List.mem_cons.mp he with rfl | hmem
    · simp [hh]
    · have hx : hit x.1 x.2.1 e.1 e.2.1 = false := hn'.1 e hmem
      have : hit x.1 x.2.1 u v = false := by
        cases hc : hit x.1 x.2.1 u v with
        | false => rfl
        | true => rw [hit_trans hc hh] at hx; exact absurd hx (by simp)
      simp [this, ih hn'.2 hmem]


/-- the relabelling step of `overlayEdge` -/
def setRight (a b d : Int) (e : E (Int × Int)) : E (Int × Int) :=
  if hit e.1 e.2.1 a b then (e.1, e.2.1, (e.2.2.1, d)) else e

theorem setRight_fst (a b d : Int) (e : E (Int × Int)) : (setRight a b d e).1 = e.1 := by
  unfold setRight; split <;> rfl
theorem setRight_snd (a b d : Int) (e : E (Int × Int)) : (setRight a b d e).2.1 = e.2.1 := by
  unfold setRight; split <;> rfl

theorem lookupE_map_setRight (es : List (E (Int × Int))) (a b d u v : Int) :
    lookupE (es.map (setRight a b d)) u v
      = if hit a b u v then (lookupE es u v).map (fun l => (l.1, d)) else lookupE es u v := by
  induction es with
  | nil => simp [lookupE_nil]
  | cons e es ih =>
    rw [List.map_cons, lookupE_cons, lookupE_cons, ih, setRight_fst, setRight_snd]
    by_cases h1 : hit e.1 e.2.1 u v = true
    · simp only [h1, if_true]
      by_cases h2 : hit a b u v = true
      · have h3 : hit e.1 e.2.1 a b = true := by rw [hit_iff] at *; omega
        simp [h2, setRight, h3]
      · have h3 : hit e.1 e.2.1 a b = false := by
          rw [Bool.not_eq_true] at h2; rw [hit_false_iff] at *; rw [hit_iff] at h1; omega
        simp [h2, setRight, h3]
    · simp only [h1]
      by_cases h2 : hit a b u v = true <;> simp [h2]

theorem lookupE_overlayEdge (es : List (E (Int × Int))) (a b d u v : Int) :
    lookupE (overlayEdge es a b d) u v
      = if hit a b u v then some (((lookupE es u v).map (·.1)).getD 0, d) else lookupE es u v := by
  unfold overlayEdge
  split
  · rename_i hany
    have := lookupE_map_setRight es a b d u v
    unfold setRight at this
    rw [this]
    by_cases h2 : hit a b u v = true
    · simp only [h2, if_true]
      cases hl : lookupE es u v with
      | some l => simp
      | none =>
        exfalso
        rw [lookupE_eq_none] at hl
        rw [List.any_eq_true] at hany
        obtain ⟨e, he, hh⟩ := hany
        have := hl e he
        rw [hit_false_iff] at this; rw [hit_iff] at hh h2; omega
    · simp [h2]
  · rename_i hany
    rw [lookupE_append, lookupE_cons, lookupE_nil]
    by_cases h2 : hit a b u v = true
    · have hl : lookupE es u v = none := by
        rw [lookupE_eq_none]
        intro e he
        have : ¬ (hit e.1 e.2.1 a b = true) := by
          intro hc; exact hany (List.any_eq_true.mpr ⟨e, he, hc⟩)
        rw [Bool.not_eq_true] at this
        rw [hit_false_iff] at *; rw [hit_iff] at h2; omega
      simp [h2, hl]
    · simp [h2]

/-- the order of the last of the triples `(a, b, d)` that joins `u` and `v` -/
def lastHit : List (E Int) → Int → Int → Option Int
  | [], _, _ => none
  | t :: ts, u, v => (lastHit ts u v).or (if hit t.1 t.2.1 u v then some t.2.2 else none)

theorem lookupE_foldl_overlayEdge (ts : List (E Int)) (es : List (E (Int × Int))) (u v : Int) :
    lookupE (ts.foldl (fun es t => overlayEdge es t.1 t.2.1 t.2.2) es) u v
      = match lastHit ts u v with
        | some d => some (((lookupE es u v).map (·.1)).getD 0, d)
        | none => lookupE es u v := by
  induction ts generalizing es with
  | nil => simp [lastHit]
  | cons t ts ih =>
    rw [List.foldl_cons, ih, lastHit, lookupE_overlayEdge]
    cases hl : lastHit ts u v with
    | some d =>
      by_cases h2 : hit t.1 t.2.1 u v = true
      · simp [h2]
      · simp [h2]
    | none =>
      simp only [Option.none_or]
      by_cases h2 : hit t.1 t.2.1 u v = true
      · simp [h2]
      · simp [h2]

end C16
