import FGVerif.Proofs.C11Reach
import FGVerif.Proofs.C11Graph
import FGVerif.Proofs.C11Unreach
import FGVerif.Proofs.C11Rc
import FGVerif.Proofs.C11Prune
import FGVerif.Proofs.C11Clamp
/-!
  C11 — reaction centre and radius pruning are exact.  Property theorems about `Model/C11.lean`.

  Hypotheses are the decidable predicates `g.nodeIds.Nodup`, `wellFormed its = true`,
  `simple its = true` (distinct node ids; one adjacency row per node, distinct neighbours per
  row, symmetric edge data; exactly key 0 per bond) — every networkx `Graph` satisfies them; the
  driver evaluates them on every input and the harness fails if a generated input violates them.

  | theorem | statement |
  |---|---|
  | `Reach.powsum_pos_iff_walk` | `0 < (Σ_{k≤r} A^k) s v ↔ ∃ walk s→v with ≤ r edges` (C11Reach) |
  | `Reach.walk_le_iff_dist`, `Reach.within_iff_distLe` | walks of length ≤ r ↔ distance ≤ r ↔ breadth-first layer r |
  | `C11.unreachable_exact` | reported ↔ node ∧ every start node has distance > r (any ids, any r ≥ 0) |
  | `C11.unreachable_iff_not_within`, `C11.unreachable_dist` | the same in breadth-first / explicit-distance reading |
  | `C11.start_nodes_never_unreachable` | for every r ≥ 0 |
  | `C11.rc_exact` | nodes = end atoms of changed bonds (with symbols), bonds = changed bonds (with labels) |
  | `C11.prune_exact` (+ corollaries `prune_kept_iff`, `prune_bonds_unchanged`, `prune_new_nodes`, `prune_one_per_cut`, `prune_ids_fresh`) | the pruned graph is exactly the declarative description |
  | `C11.specUnreachable_sound`, `C11.specRc_sound`, `C11.specPrune_sound` | the driver's checkers imply the specifications |

  | `C11.getUnreachableClamped_eq`, `C11.pruneItsToRcClamped_eq` (C11Clamp) | the code's loop since 5e2d069 (every power clamped to 0/1) returns the same list / graph as the walk-counting loop, for every input |
  | `C11.unreachable_exact_clamped`, `C11.prune_exact_clamped` | the two main theorems restated for the functions the driver evaluates |
  | `Reach.cpowsum_le` | the numbers of the clamping loop are `≤ r + 1`: nothing can wrap |

  Numbers: the theorems are about walk COUNTS in unbounded `Nat` (`getUnreachable`); the code clamps
  every power to 0/1 (`getUnreachableClamped`, what the driver evaluates) — proved equal, so there is
  no radius or graph size the theorems do not speak about.
-/
namespace C11
open Graph Reach

/-- **C11.rc_exact** — for every well-formed simple graph: the model of `get_rc` returns exactly the
    bonds whose two label components differ, with their end atoms and the atoms' symbols. -/
theorem rc_exact (its : Graph) (hwf : wellFormed its = true) (hsim : simple its = true) :
    RcSpec its (getRc its) :=
  rc_exact_wf its (wf_of_wellFormed its hwf) (simple_of_simple its (wf_of_wellFormed its hwf) hsim)

/-- **C11.prune_exact** — for every well-formed simple ITS graph (any node ids), every radius `r ≥ 0`
    and both values of `insert_hydrogens`: the model of `prune_its_to_rc` / `ITS.prune` keeps exactly
    the atoms within distance `r` of the reaction centre (with their attributes), leaves all bonds
    among them unchanged, and — when asked — adds exactly one new `H` with a `(1,1)` bond per cut
    bond, on pairwise distinct ids above every id in use; nothing else. -/
theorem prune_exact (its : Graph) (hwf : wellFormed its = true) (hsim : simple its = true) (r : Nat)
    (insertH : Bool) : PruneSpec its r insertH (pruneItsToRc its r insertH) :=
  prune_exact_wf its (wf_of_wellFormed its hwf) (simple_of_simple its (wf_of_wellFormed its hwf) hsim) r insertH

/-- **C11.prune_exact**, for the function the driver evaluates (pruning on top of the clamping loop) -/
theorem prune_exact_clamped (its : Graph) (hwf : wellFormed its = true) (hsim : simple its = true) (r : Nat)
    (insertH : Bool) : PruneSpec its r insertH (pruneItsToRcClamped its r insertH) := by
  rw [pruneItsToRcClamped_eq]; exact prune_exact its hwf hsim r insertH

/-! ### corollaries of `prune_exact` that do not mention the auxiliary list of kept atoms -/

/-- kept nodes = those within `r` of the reaction centre -/
theorem prune_kept_iff (its : Graph) (hwf : wellFormed its = true) (hsim : simple its = true) (r : Nat)
    (insertH : Bool) (v : Int) (hv : v ∈ its.nodeIds) :
    v ∈ (pruneItsToRc its r insertH).nodeIds ↔ Kept its r v := by
  obtain ⟨K, hK, spec⟩ := prune_exact its hwf hsim r insertH
  rw [spec.kept_nodes v hv, hK]

/-- bonds (and attributes) among kept nodes are unchanged -/
theorem prune_bonds_unchanged (its : Graph) (hwf : wellFormed its = true) (hsim : simple its = true) (r : Nat)
    (insertH : Bool) (a b : Int) (ha : Kept its r a) (hb : Kept its r b) :
    (pruneItsToRc its r insertH).edgeData a b = its.edgeData a b ∧
    (pruneItsToRc its r insertH).attr? a = its.attr? a := by
  obtain ⟨K, hK, spec⟩ := prune_exact its hwf hsim r insertH
  exact ⟨spec.bonds a b ((hK a).mpr ha) ((hK b).mpr hb), spec.attrs a ((hK a).mpr ha)⟩

/-- every node that was not in the ITS exists only with `insert_hydrogens`, sits on an id above
    every old id, is an `H`, and has exactly one bond: `(1,1)` to a kept atom -/
theorem prune_new_nodes (its : Graph) (hwf : wellFormed its = true) (hsim : simple its = true) (r : Nat)
    (insertH : Bool) (h : Int) (hh : h ∈ (pruneItsToRc its r insertH).nodeIds) (hn : h ∉ its.nodeIds) :
    insertH = true ∧ (∀ n, n ∈ its.nodeIds → n < h) ∧ (pruneItsToRc its r insertH).symbol? h = some "H" ∧
    ∃ v, Kept its r v ∧ (pruneItsToRc its r insertH).neighbors h = [v] ∧
      (pruneItsToRc its r insertH).edgeData h v = hData ∧ (pruneItsToRc its r insertH).edgeData v h = hData := by
  obtain ⟨K, hK, spec⟩ := prune_exact its hwf hsim r insertH
  obtain ⟨h1, h2, v, hv, h3, h4, h5⟩ := spec.new_nodes h hh hn
  refine ⟨?_, h1, h2, v, (hK v).mp hv, h3, h4, h5⟩
  cases hi : insertH with
  | true => rfl
  | false => exact absurd (spec.no_new hi h hh) hn

/-- one new hydrogen per cut bond: for every atom `v`, the number of new nodes whose (only) bond goes
    to `v` equals the number of pairs (removed atom `u`, neighbour entry `v` of `u`) with `v` kept -/
theorem prune_one_per_cut (its : Graph) (hwf : wellFormed its = true) (hsim : simple its = true) (r : Nat)
    (v : Int) :
    ∃ K, (∀ x, x ∈ K ↔ Kept its r x) ∧
      (((newIds its (pruneItsToRc its r true)).map fun h => ((pruneItsToRc its r true).neighbors h).headD 0).count v
        = (cutAnchors its K).count v) := by
  obtain ⟨K, hK, spec⟩ := prune_exact its hwf hsim r true
  exact ⟨K, hK, spec.one_per_cut.count_eq v⟩

/-- the checkers with the decidable hypotheses -/
theorem specRc_sound_checked (its rc : Graph) (hwf : wellFormed its = true) (hsim : simple its = true)
    (h : specRc its rc = true) : RcSpec its rc :=
  specRc_sound its rc (simple_of_simple its (wf_of_wellFormed its hwf) hsim) h

theorem specPrune_sound_checked (its : Graph) (hwf : wellFormed its = true) (hsim : simple its = true) (r : Nat)
    (insertH : Bool) (out : Graph) (h : specPrune its r insertH out = true) : PruneSpec its r insertH out :=
  specPrune_sound its (simple_of_simple its (wf_of_wellFormed its hwf) hsim) r insertH out h

/-! ### non-vacuity: the theorems on a concrete input (tests, not proofs of the property)

  `gT`: the chain 1–2–3–4 with sparse ids and an isolated atom 7; bond 1–2 changes `(1,2)`,
  the other bonds are `(1,1)`. -/

def nd (i : Int) (s : String) : Int × NodeAttr := (i, { symbol := some s })

def gT : Graph :=
  { multi := false
    nodes := [nd 2 "C", nd 1 "C", nd 3 "O", nd 4 "C", nd 7 "N"]
    adj := [(2, [(1, [(0, .p 2 4)]), (3, [(0, .p 2 2)])]), (1, [(2, [(0, .p 2 4)])]),
            (3, [(2, [(0, .p 2 2)]), (4, [(0, .p 2 2)])]), (4, [(3, [(0, .p 2 2)])]), (7, [])] }

/-- test: the hypotheses of the theorems hold for `gT` -/
example : gT.nodeIds.Nodup ∧ wellFormed gT = true ∧ simple gT = true := by decide

/-- test: the model on `gT` (start node 1 is lone: none of its neighbours is a start node) -/
example : getUnreachable gT [1] 1 = [3, 4, 7] ∧ getUnreachable gT [1] 0 = [2, 3, 4, 7] ∧
    getUnreachable gT [1] 3 = [7] ∧ getUnreachable gT [] 2 = [1, 2, 3, 4, 7] ∧
    getUnreachable gT [7, 4] 1 = [1, 2] := by decide

theorem gT_walk : GWalk gT 2 1 3 := by
  have h0 : GWalk gT 0 1 1 := .zero (show (1 : Int) ∈ gT.nodeIds by decide)
  have h1 : GWalk gT 1 1 2 := .snoc h0 (show (2 : Int) ∈ gT.nodeIds by decide) (show 0 < adjCount gT 1 2 by decide)
  exact .snoc h1 (show (3 : Int) ∈ gT.nodeIds by decide) (show 0 < adjCount gT 2 3 by decide)

/-- test: `unreachable_exact` gives a genuine distance fact: 3 is not within 1 bond of 1 … -/
example : ¬ GDistLe gT 1 3 1 :=
  ((unreachable_exact gT (by decide) [1] 1 3).mp (by decide)).2 1 (by simp)

/-- … but within 2 (walk 1 → 2 → 3), so it is not reported at radius 2 -/
example : GDistLe gT 1 3 2 ∧ (3 : Int) ∉ getUnreachable gT [1] 2 := by
  have w := gT_walk
  refine ⟨⟨2, Nat.le_refl 2, w⟩, fun h => ?_⟩
  exact ((unreachable_exact gT (by decide) [1] 2 3).mp h).2 1 (by simp) ⟨2, Nat.le_refl 2, w⟩

/-- test: the distance from 1 to 3 is exactly 2 -/
example : GIsDist gT 1 3 2 := by
  have w := gT_walk
  refine ⟨w, fun k hk wk => ?_⟩
  have hno := ((unreachable_exact gT (by decide) [1] 1 3).mp (by decide)).2 1 (by simp)
  exact hno ⟨k, by omega, wk⟩

/-- test: the checker accepts the right answer and rejects the answers of the three parts of defect F8 -/
example : specUnreachable gT [1] 1 [3, 4, 7] = true ∧
    specUnreachable gT [1] 1 [1, 3, 4, 7] = false ∧       -- start node reported (identity only for r = 0)
    specUnreachable gT [1] 1 [2, 3, 4] = false ∧           -- indices instead of ids
    specUnreachable gT [1] 1 [4, 7] = false := by decide

/-- test: reaction centre of `gT` -/
example : (getRc gT).nodeIds = [2, 1] ∧ (getRc gT).edgeData 1 2 = [(0, .p 2 4)] ∧
    (getRc gT).edgeData 2 3 = [] ∧ specRc gT (getRc gT) = true := by decide

example : IsRcAtom gT 1 ∧ ¬ IsRcAtom gT 3 := by
  refine ⟨⟨2, .p 2 4, by decide, by decide⟩, ?_⟩
  intro h
  have := ((rc_exact gT (by decide) (by decide)).nodes 3).mpr h
  revert this; decide

/-- test: pruning `gT` to radius 0 with hydrogens: atoms 1, 2 kept, one `H` on the fresh id 8 bonded to 2 -/
example : (pruneItsToRc gT 0 true).nodeIds = [2, 1, 8] ∧
    (pruneItsToRc gT 0 true).edgeData 8 2 = hData ∧ (pruneItsToRc gT 0 true).edgeData 1 2 = [(0, .p 2 4)] ∧
    (pruneItsToRc gT 0 false).nodeIds = [2, 1] ∧ (pruneItsToRc gT 1 true).nodeIds = [2, 1, 3, 8] ∧
    specPrune gT 0 true (pruneItsToRc gT 0 true) = true := by decide

/-- test: `prune_kept_iff` instantiated: 3 is removed at radius 0, kept at radius 1 -/
example : ¬ Kept gT 0 3 ∧ Kept gT 1 3 :=
  ⟨fun h => absurd ((prune_kept_iff gT (by decide) (by decide) 0 true 3 (by decide)).mpr h) (by decide),
   (prune_kept_iff gT (by decide) (by decide) 1 true 3 (by decide)).mp (by decide)⟩

/-- what defect F8c returned: the hydrogen on id `len(nodes) = 5`, which is not above the old id 7 -/
def gBadFresh : Graph :=
  { multi := false
    nodes := [nd 2 "C", nd 1 "C", nd 5 "H"]
    adj := [(2, [(1, [(0, .p 2 4)]), (5, [(0, .p 2 2)])]), (1, [(2, [(0, .p 2 4)])]), (5, [(2, [(0, .p 2 2)])])] }

/-- a pruned graph without the hydrogen for the cut bond 2–3 -/
def gNoH : Graph :=
  { multi := false
    nodes := [nd 2 "C", nd 1 "C"]
    adj := [(2, [(1, [(0, .p 2 4)])]), (1, [(2, [(0, .p 2 4)])])] }

/-- test: the pruned-graph checker rejects both, and accepts `gNoH` without `insert_hydrogens` -/
example : specPrune gT 0 true gBadFresh = false ∧ specPrune gT 0 true gNoH = false ∧
    specPrune gT 0 false gNoH = true := by decide

end C11
