import FGVerif.Proofs.C06Full
import FGVerif.Proofs.C06Relabel
import FGVerif.Proofs.C05
import FGVerif.Proofs.C07Default
/-!
  C06 — the end-to-end model on the DEFAULT functional-group list (regenerated from /repo on every
  run: `Generated/C06.lean` = the constructor arguments, `Generated/C07.lean` = the constructed
  configs as C07 reads them, `Generated/C05.lean` = the hierarchy extracted from the real
  `FGConfigProvider().get_tree()`).  Kernel evaluation (`decide +kernel`) of closed terms.

  * `C06.default_inputs_c07`        the model of the constructor (`FullConfig.ofParsed`) on the generated
                                    arguments gives, projected, exactly the configs of Generated/C07.lean;
  * `C06.default_strings_distinct_full`, `C06.default_assertion_free_full`
                                    the two hypotheses of `query_end_to_end` hold for the default list
                                    (the second from `C07.default_assertion_free` + `C07.default_emb_eq`);
  * `C06.default_end_to_end`        the adapter applied to the hierarchy the MODEL builds from the default
                                    list equals the generated default tree of Generated/C05.lean, up to
                                    the numbering of the nodes (`relabel` by the permutation that lists
                                    the nodes in the generated tree's order of names);
  * `C06.default_query_end_to_end`  hence, for EVERY set-iteration order, every permutation of the default
                                    list and every history, `FGQuery().get(g)` of the composed model is
                                    C05's model on the generated default tree (about which
                                    Proofs/C05*.lean speaks).
-/
namespace C06
open C07

deriving instance DecidableEq for Graph
deriving instance DecidableEq for C05.FGConfig
deriving instance DecidableEq for C05.TreeNode
deriving instance DecidableEq for C05.Tree
deriving instance DecidableEq for C07.FGConfig

/-- the mapper of the generated tables is the default mapper of the end-to-end model -/
theorem default_mapper_eq : Gen.C07.mapper = defaultMapper := rfl

/-- **C06.default_inputs_c07** — constructor model on generated arguments = generated configs -/
theorem default_inputs_c07 : Gen.C06.defaultFull.map FullConfig.toC07 = Gen.C07.configs := by decide +kernel

theorem default_strings_distinct_full : (Gen.C06.defaultFull.map fun a => a.patternStr).Nodup := by
  decide +kernel

/-- position of a default config in the generated list of C07 -/
theorem default_index (a : FullConfig) (ha : a ∈ Gen.C06.defaultFull) :
    ∃ i : Nat, Gen.C06.defaultFull[i]? = some a ∧ Gen.C07.configs[i]? = some a.toC07 := by
  obtain ⟨i, hi, rfl⟩ := List.getElem_of_mem ha
  refine ⟨i, List.getElem?_eq_getElem hi, ?_⟩
  rw [← default_inputs_c07, List.getElem?_map, List.getElem?_eq_getElem hi]
  rfl

/-- the both-directions assertion cannot fire on the default list (from the kernel-checked
    31×31 matcher table of `Proofs/C07Default.lean`) -/
theorem default_assertion_free_full : AssertionFree defaultMapper Gen.C06.defaultFull := by
  intro a ha b hb hab hboth
  obtain ⟨i, hia, hi⟩ := default_index a ha
  obtain ⟨j, hjb, hj⟩ := default_index b hb
  have hij : i ≠ j := by
    intro e; subst e
    rw [hia] at hjb
    exact hab (Option.some.inj hjb)
  have hil : i < Gen.C07.configs.length := (List.getElem?_eq_some_iff.mp hi).1
  have hjl : j < Gen.C07.configs.length := (List.getElem?_eq_some_iff.mp hj).1
  have he : ∀ (i j : Nat) (a b : FGConfig), Gen.C07.configs[i]? = some a → Gen.C07.configs[j]? = some b →
      tabB Gen.C07.embImpl i j = Sub.mapSubgraphToGraph b.pattern a.pattern Gen.C07.mapper := by
    intro i j a b hi hj
    rw [← default_emb_eq]
    simp [tabB, embModel, embRows, List.getElem?_map, hi, hj]
  have := default_assertion_free i (List.mem_range.mpr hil) j (List.mem_range.mpr hjl) hij
  rw [he i j _ _ hi hj, he j i _ _ hj hi, default_mapper_eq] at this
  have h1 : Sub.mapSubgraphToGraph b.toC07.pattern a.toC07.pattern defaultMapper = true := hboth.1
  have h2 : Sub.mapSubgraphToGraph a.toC07.pattern b.toC07.pattern defaultMapper = true := hboth.2
  rw [h1, h2] at this
  exact absurd this (by decide)

/-- the hierarchy the model builds from the default list (one concrete set-iteration order) -/
def defaultBuilt : Option (Tree FullConfig) := buildFull defaultMapper (Env.ofSeed 0) Gen.C06.defaultFull

/-- the permutation that lists the nodes of the adapter's tree in the generated tree's order -/
def defaultSigma : Option (List Nat) := defaultBuilt.map fun t => alignByName C05.defaultTree (toTree t)

/-- **C06.default_end_to_end** — adapter ∘ model-built hierarchy = the generated default tree of
    Generated/C05.lean (extracted from the real `get_tree()`): same configs (name, pattern, group
    atoms, anti-patterns in stored order, max pattern size), same ORDERED roots list, same ORDERED
    children lists — after renumbering the nodes by a permutation of `0 … 30`. -/
theorem default_end_to_end :
    ∃ t σ, defaultBuilt = some t ∧ σ.Perm (List.range (toTree t).nodes.length) ∧
      relabel σ (toTree t) = C05.defaultTree := by
  have h : (defaultBuilt.bind fun t =>
      let σ := alignByName C05.defaultTree (toTree t)
      if isPermOfRange σ (toTree t).nodes.length && decide (relabel σ (toTree t) = C05.defaultTree)
      then some (t, σ) else none).isSome = true := by decide +kernel
  cases hb : defaultBuilt with
  | none => rw [hb] at h; exact absurd h (by simp)
  | some t =>
    rw [hb] at h
    simp only [Option.bind_some] at h
    split at h
    · rename_i hc
      simp only [Bool.and_eq_true, decide_eq_true_eq] at hc
      exact ⟨t, _, rfl, perm_of_isPermOfRange _ _ hc.1, hc.2⟩
    · exact absurd h (by simp)

/-- **C06.default_query_end_to_end** — for the default configuration the composed model
    (tree builder + cache + query), under EVERY set-iteration order, every order of the configuration
    list and after every history of earlier queries, answers exactly as C05's query model on the
    generated default tree. -/
theorem default_query_end_to_end (rh : Bool) (env : Env) (henv : env.Valid)
    (l : List FullConfig) (hp : Gen.C06.defaultFull.Perm l) (gs : List Graph) (g : Graph) :
    (objGet defaultMapper env rh (objRun defaultMapper env rh (new l) gs) g).2 =
      some (C05.getFunctionalGroups C05.defaultTree g defaultMapper rh) := by
  obtain ⟨t, σ, hb, hσ, hrel⟩ := default_end_to_end
  obtain ⟨h1, h2, _, _⟩ := query_end_to_end defaultMapper rh (Env.ofSeed 0) env (ofSeed_valid 0) henv
    Gen.C06.defaultFull l hp default_strings_distinct_full default_assertion_free_full [] gs g
  rw [← h1, h2]
  show (defaultBuilt.map fun t => C05.getFunctionalGroups (toTree t) g defaultMapper rh) = _
  rw [hb, Option.map_some, ← hrel, getFunctionalGroups_relabel σ (toTree t) hσ]

/-- non-vacuity (test): acetic acid and methyl acetate through the whole composed model, under two
    set-iteration orders and the reversed list -/
example :
    fgQueryGet Gen.C06.defaultFull (Env.ofSeed 0) C05.aceticAcid true = some [("carboxylic_acid", [1, 2, 3])] ∧
    fgQueryGet Gen.C06.defaultFull.reverse (Env.ofSeed 1) C05.methylAcetate true = some [("ester", [1, 2, 4])] := by
  decide +kernel

end C06
