import FGVerif.Proofs.GenParsedBase
import FGVerif.Generated.C14
import FGVerif.Generated.Parsed
/-!
  GenParsed, C14 part (pos table): pattern strings, group references and anchors of the generated proxy
  table against the parser model.  See Proofs/GenParsedBase.lean for the definitions and the method.
-/
namespace GenParsed
open C01 (Str)

set_option synthInstance.maxSize 1024 in
theorem da_pos_chars : Gen.C14.daPos = Gen.Parsed.daPosC.map GroupRowC.toS ∧
    Gen.C14.daPosCores = Gen.Parsed.daPosCoresC.map ProxyGraphRowC.toS := by decide +kernel

theorem da_pos_fast : TableFromC Gen.Parsed.daPosC Gen.Parsed.daPosCoresC := by decide +kernel

/-- **C14/C15 tables.**  Every pattern of every group and core of `DielsAlderProxy(neg_sample=False)`
    parses under the parser model; the group references the table lists (what the counting formula and the
    model of the expansion consume) are exactly those of the parse; the anchors are nodes of the parse. -/
theorem da_pos_refs_parsed : TableFrom Gen.C14.daPos Gen.C14.daPosCores := by
  rw [da_pos_chars.1, da_pos_chars.2]; exact da_pos_fast.sound

end GenParsed
