import FGVerif.Model.C01
/-!
  C01 — `idx_offset` only renames: `parse cfg s off = (parse cfg s 0).map (shiftGraph off)` for
  *every* string (errors included).  Other builders (C05, C13, C14) rely on this to reason about
  patterns parsed at an offset.
-/
namespace C01

def shiftAttr (d : Int) (a : NodeAttr) : NodeAttr := { a with aam := a.aam.map (· + d) }

/-- rename node `x` to `x + d` everywhere (and `aam`, which is `id + 1`, with it) -/
def shiftGraph (d : Int) (g : Graph) : Graph :=
  { multi := g.multi
    nodes := g.nodes.map fun n => (n.1 + d, shiftAttr d n.2)
    adj := g.adj.map fun r => (r.1 + d, r.2.map fun e => (e.1 + d, e.2)) }

def shiftState (d : Int) (st : PState) : PState :=
  { st with g := shiftGraph d st.g
            anchor := st.anchor.map (· + d)
            branches := st.branches.map (Option.map (· + d))
            rings := st.rings.map fun e => (e.1, e.2 + d) }

theorem beq_add (x n d : Int) : (x + d == n + d) = (x == n) := by
  rw [Bool.eq_iff_iff]; simp

theorem hasNode_shift (d : Int) (g : Graph) (x : Int) : (shiftGraph d g).hasNode (x + d) = g.hasNode x := by
  simp only [Graph.hasNode, shiftGraph, List.any_map]
  congr 1; funext n; simp [beq_add]

theorem attr?_shift (d : Int) (g : Graph) (x : Int) :
    (shiftGraph d g).attr? (x + d) = (g.attr? x).map (shiftAttr d) := by
  simp only [Graph.attr?, shiftGraph, List.find?_map, Option.map_map]
  have : ((fun (p : Int × NodeAttr) => p.1 == x + d) ∘ fun (n : Int × NodeAttr) => (n.1 + d, shiftAttr d n.2)) =
      fun p => p.1 == x := by funext p; simp [beq_add]
  rw [this]
  cases g.nodes.find? (fun p => p.1 == x) <;> rfl

theorem symbol?_shift (d : Int) (g : Graph) (x : Int) : (shiftGraph d g).symbol? (x + d) = g.symbol? x := by
  simp only [Graph.symbol?, attr?_shift]
  cases g.attr? x <;> rfl

theorem count_shift (d : Int) (g : Graph) : (shiftGraph d g).numberOfNodes = g.numberOfNodes := by
  simp [Graph.numberOfNodes, shiftGraph]

theorem mergeAttr_shift (d : Int) (o n : NodeAttr) :
    Graph.mergeAttr (shiftAttr d o) (shiftAttr d n) = shiftAttr d (Graph.mergeAttr o n) := by
  simp only [Graph.mergeAttr, shiftAttr]
  cases n.aam <;> simp

theorem addNode_shift (d : Int) (g : Graph) (n : Int) (a : NodeAttr) :
    (shiftGraph d g).addNode (n + d) (shiftAttr d a) = shiftGraph d (g.addNode n a) := by
  simp only [Graph.addNode, hasNode_shift]
  cases g.hasNode n with
  | true =>
    simp only [if_true, shiftGraph, List.map_map]
    congr 1
    apply List.map_congr_left
    intro x _
    simp only [Function.comp, beq_add]
    cases x.1 == n <;> simp [mergeAttr_shift]
  | false => simp [shiftGraph]

theorem adjRow_shift (d : Int) (g : Graph) (u : Int) :
    (shiftGraph d g).adjRow (u + d) = (g.adjRow u).map fun e => (e.1 + d, e.2) := by
  simp only [Graph.adjRow, shiftGraph, List.find?_map]
  have : ((fun (p : Int × List (Int × List (Nat × Label))) => p.1 == u + d) ∘
      fun (r : Int × List (Int × List (Nat × Label))) => (r.1 + d, r.2.map fun e => (e.1 + d, e.2))) =
      fun p => p.1 == u := by funext p; simp [beq_add]
  rw [this]
  cases g.adj.find? (fun p => p.1 == u) <;> simp

theorem edgeData_shift (d : Int) (g : Graph) (u v : Int) :
    (shiftGraph d g).edgeData (u + d) (v + d) = g.edgeData u v := by
  simp only [Graph.edgeData, adjRow_shift, List.find?_map]
  have : ((fun (p : Int × List (Nat × Label)) => p.1 == v + d) ∘ fun (e : Int × List (Nat × Label)) => (e.1 + d, e.2)) =
      fun p => p.1 == v := by funext p; simp [beq_add]
  rw [this]
  cases (g.adjRow u).find? (fun p => p.1 == v) <;> simp

theorem addHalfEdge_shift (d : Int) (multi : Bool) (row : List (Int × List (Nat × Label))) (v : Int) (key : Nat) (l : Label) :
    Graph.addHalfEdge multi (row.map fun e => (e.1 + d, e.2)) (v + d) key l =
      (Graph.addHalfEdge multi row v key l).map fun e => (e.1 + d, e.2) := by
  simp only [Graph.addHalfEdge, List.any_map]
  have : ((fun (p : Int × List (Nat × Label)) => p.1 == v + d) ∘ fun (e : Int × List (Nat × Label)) => (e.1 + d, e.2)) =
      fun p => p.1 == v := by funext p; simp [beq_add]
  rw [this]
  cases row.any (fun p => p.1 == v) with
  | false => simp
  | true =>
    simp only [if_true, List.map_map]
    apply List.map_congr_left
    intro x _
    simp only [Function.comp, beq_add]
    cases x.1 == v <;> cases multi <;> simp

theorem shiftGraph_multi (d : Int) (g : Graph) : (shiftGraph d g).multi = g.multi := rfl

theorem shiftAttr_empty (d : Int) : shiftAttr d {} = {} := rfl

theorem addEdge_shift (d : Int) (g : Graph) (u v : Int) (l : Label) :
    (shiftGraph d g).addEdge (u + d) (v + d) l = shiftGraph d (g.addEdge u v l) := by
  unfold Graph.addEdge
  simp only [hasNode_shift]
  -- first optional node
  have e1 : (if g.hasNode u = true then shiftGraph d g else (shiftGraph d g).addNode (u + d) {}) =
      shiftGraph d (if g.hasNode u = true then g else g.addNode u {}) := by
    split
    · rfl
    · have := addNode_shift d g u {}
      rw [shiftAttr_empty] at this; exact this
  rw [e1]
  generalize (if g.hasNode u = true then g else g.addNode u {}) = g1
  simp only [hasNode_shift]
  have e2 : (if g1.hasNode v = true then shiftGraph d g1 else (shiftGraph d g1).addNode (v + d) {}) =
      shiftGraph d (if g1.hasNode v = true then g1 else g1.addNode v {}) := by
    split
    · rfl
    · have := addNode_shift d g1 v {}
      rw [shiftAttr_empty] at this; exact this
  rw [e2]
  generalize (if g1.hasNode v = true then g1 else g1.addNode v {}) = g2
  simp only [edgeData_shift, shiftGraph_multi, beq_add]
  generalize (if g2.multi = true then Graph.newKey ((g2.edgeData u v).map (·.1)) else 0) = key
  simp only [shiftGraph, List.map_map]
  congr 1
  have hrow : ∀ (w x : Int) (adj : List (Int × List (Int × List (Nat × Label)))),
      (adj.map fun r => (r.1 + d, r.2.map fun e => (e.1 + d, e.2))).map
        (fun r => if r.1 == w + d then (r.1, Graph.addHalfEdge g2.multi r.2 (x + d) key l) else r) =
      (adj.map fun r => if r.1 == w then (r.1, Graph.addHalfEdge g2.multi r.2 x key l) else r).map
        fun r => (r.1 + d, r.2.map fun e => (e.1 + d, e.2)) := by
    intro w x adj
    simp only [List.map_map]
    apply List.map_congr_left
    intro r _
    simp only [Function.comp, beq_add]
    cases r.1 == w <;> simp [addHalfEdge_shift]
  cases huv : u == v with
  | true => simp only [if_true]; rw [← List.map_map, hrow u v g2.adj, List.map_map]
  | false =>
    simp only [Bool.false_eq_true, if_false]
    rw [← List.map_map, ← List.map_map, hrow u v g2.adj, hrow v u]
    simp only [List.map_map, Function.comp_def]

/-! ### the parser machine commutes with the renaming -/

theorem bondTo_shift (d : Int) (st : PState) (u v : Int) (lu lv : Bool) :
    bondTo (shiftState d st) (u + d) (v + d) lu lv = shiftState d (bondTo st u v lu lv) := by
  obtain ⟨g, anc, B, R, bd, isD, its⟩ := st
  have key : ∀ (b0 : Label) (dflt : Bool),
      (if (b0 != .s 0) = true then
          ({ g := (shiftGraph d g).addEdge (u + d) (v + d) b0, anchor := anc.map (· + d),
             branches := B.map (Option.map (· + d)), rings := R.map (fun e => (e.1, e.2 + d)),
             bond := b0, isDefault := dflt, isIts := its } : PState)
        else { g := shiftGraph d g, anchor := anc.map (· + d), branches := B.map (Option.map (· + d)),
               rings := R.map (fun e => (e.1, e.2 + d)), bond := b0, isDefault := dflt, isIts := its }) =
      shiftState d (if (b0 != .s 0) = true then
          ({ g := g.addEdge u v b0, anchor := anc, branches := B, rings := R, bond := b0, isDefault := dflt, isIts := its } : PState)
        else { g := g, anchor := anc, branches := B, rings := R, bond := b0, isDefault := dflt, isIts := its }) := by
    intro b0 dflt
    cases (b0 != .s 0) <;> simp [shiftState, addEdge_shift]
  cases isD <;> cases lu <;> cases lv <;> simp only [bondTo, shiftState, setBond, Bool.and_self, Bool.and_true,
    Bool.and_false, Bool.false_eq_true, if_false, if_true] <;> rw [key] <;> rfl

theorem lookup_shiftRings (d : Int) (R : List (Str × Int)) (k : Str) :
    (R.map fun e => (e.1, e.2 + d)).lookup k = (R.lookup k).map (· + d) := by
  induction R with
  | nil => rfl
  | cons e R ih =>
    obtain ⟨k2, a⟩ := e
    simp only [List.map_cons, List.lookup]
    cases k == k2 <;> simp [ih]

theorem filter_shiftRings (d : Int) (R : List (Str × Int)) (k : Str) :
    (R.map fun e => (e.1, e.2 + d)).filter (fun e => e.1 != k) =
      (R.filter fun e => e.1 != k).map fun e => (e.1, e.2 + d) := by
  induction R with
  | nil => rfl
  | cons e R ih =>
    obtain ⟨k2, a⟩ := e
    simp only [List.map_cons, List.filter_cons]
    cases (k2 != k) <;> simp [ih]

def mapOk (f : PState → PState) : Except PErr PState → Except PErr PState
  | .ok s => .ok (f s)
  | .error e => .error e

theorem linkNew_shift (d : Int) (st : PState) (sym : Str) (idx : Int) :
    linkNew (shiftState d st) sym (idx + d) = mapOk (shiftState d) (linkNew st sym idx) := by
  obtain ⟨g, anc, B, R, bd, isD, its⟩ := st
  simp only [linkNew, shiftState]
  cases anc with
  | none => simp [mapOk, shiftState]
  | some a =>
    simp only [Option.map_some, symbol?_shift]
    cases hs : g.symbol? a with
    | none => simp [mapOk]
    | some asym =>
      simp only [mapOk]
      have := bondTo_shift d ⟨g, some a, B, R, bd, isD, its⟩ a idx (isLowerPy asym.toList) (isLowerPy sym)
      simp only [shiftState, Option.map_some] at this
      rw [this]
      rfl

theorem addNodeStep_shift (cfg : Cfg) (d : Int) (st : PState) (sym : Str) (labels : List Str) (isL : Bool) (idx : Int) :
    addNodeStep cfg (shiftState d st) sym labels isL (idx + d) =
      mapOk (shiftState d) (addNodeStep cfg st sym labels isL idx) := by
  have hattr : ({ symbol := some (String.ofList sym), labels := some (labels.map String.ofList), isLabeled := some isL,
                  aam := if cfg.aam then some (idx + d + 1) else none } : NodeAttr) =
      shiftAttr d { symbol := some (String.ofList sym), labels := some (labels.map String.ofList), isLabeled := some isL,
                    aam := if cfg.aam then some (idx + 1) else none } := by
    simp only [shiftAttr]
    cases cfg.aam <;> simp [Int.add_right_comm]
  simp only [addNodeStep, hattr]
  rw [← linkNew_shift]
  simp only [shiftState, addNode_shift]

theorem ringStep_shift (d : Int) (st : PState) (k : Str) :
    ringStep (shiftState d st) k = mapOk (shiftState d) (ringStep st k) := by
  obtain ⟨g, anc, B, R, bd, isD, its⟩ := st
  simp only [ringStep, shiftState, lookup_shiftRings]
  cases hl : R.lookup k with
  | none =>
    cases anc with
    | none => simp [mapOk]
    | some a => simp [mapOk, shiftState]
  | some ra =>
    cases anc with
    | none => simp [mapOk]
    | some a =>
      simp only [Option.map_some, symbol?_shift]
      cases h1 : g.symbol? a with
      | none => simp [mapOk]
      | some asym =>
        cases h2 : g.symbol? ra with
        | none => simp [mapOk]
        | some rsym =>
          simp only [mapOk]
          have := bondTo_shift d ⟨g, some a, B, R, bd, isD, its⟩ a ra (isLowerPy asym.toList) (isLowerPy rsym.toList)
          simp only [shiftState, Option.map_some] at this
          rw [this]
          simp [shiftState, filter_shiftRings]

theorem step_shift (cfg : Cfg) (o d : Int) (st : PState) (t : Token) :
    step cfg (o + d) (shiftState d st) t = mapOk (shiftState d) (step cfg o st t) := by
  have hidx : ((shiftState d st).g.numberOfNodes : Int) + (o + d) = ((st.g.numberOfNodes : Int) + o) + d := by
    simp only [shiftState, count_shift]; omega
  cases t with
  | atom s => simp only [step, hidx]; exact addNodeStep_shift ..
  | wild => simp only [step, hidx]; exact addNodeStep_shift ..
  | label b => simp only [step, hidx]; exact addNodeStep_shift ..
  | bond s =>
    simp only [step]
    cases bondTable.lookup s <;> simp [mapOk, shiftState, setBond]
  | rc g h => simp [step, mapOk, shiftState, setBond]
  | bstart => simp [step, mapOk, shiftState]
  | bend =>
    simp only [step, shiftState]
    cases st.branches <;> simp [mapOk, shiftState]
  | ring k => simp only [step]; exact ringStep_shift d st k
  | mismatch c => simp [step, mapOk]

theorem run_shift (cfg : Cfg) (o d : Int) (ts : List Token) : ∀ st,
    run cfg (o + d) (shiftState d st) ts = mapOk (shiftState d) (run cfg o st ts) := by
  induction ts with
  | nil => intro st; rfl
  | cons t ts ih =>
    intro st
    simp only [run, step_shift]
    cases step cfg o st t with
    | error e => rfl
    | ok st' => simp only [mapOk]; exact ih st'

def mapGraph (f : Graph → Graph) : Except PErr Graph → Except PErr Graph
  | .ok g => .ok (f g)
  | .error e => .error e

theorem shiftState_init (cfg : Cfg) (its : Bool) (d : Int) : shiftState d (initState cfg its) = initState cfg its := rfl

/-- **`idx_offset` only renames the nodes** (and `aam` with them), for every string, errors included -/
theorem offset_shift (cfg : Cfg) (s : String) (off : Int) :
    parse cfg s off = mapGraph (shiftGraph off) (parse cfg s 0) := by
  simp only [parse, parseTokens]
  have := run_shift cfg 0 off (lex s.toList) (initState cfg ((lex s.toList).any Token.isRc))
  rw [shiftState_init, Int.zero_add] at this
  rw [this]
  cases run cfg 0 (initState cfg ((lex s.toList).any Token.isRc)) (lex s.toList) <;> rfl

/-- non-vacuity (tests): ids and map numbers move with the offset; an error stays the same error -/
example : (match parse ⟨false, true⟩ "C1(=O)c.C1" 5 with
    | .ok g => g.nodes.map (fun n => (n.1, n.2.aam))
    | .error _ => []) = [(5, some 6), (6, some 7), (7, some 8), (8, some 9)] := by decide
example : (match parse ⟨false, true⟩ "C1(=O)c.C1" 5 with
    | .ok g => g.edges.map (fun e => (e.1, e.2.1))
    | .error _ => []) = [(5, 6), (5, 7), (5, 8)] := by decide
example : (match parse ⟨false, false⟩ "C)C" 7 with
    | .ok _ => none
    | .error e => some e) = some .indexError := by decide

end C01
