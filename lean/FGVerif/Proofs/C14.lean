import FGVerif.Proofs.C14Count
import FGVerif.Proofs.C14Cons
import FGVerif.Proofs.C14Tables
import FGVerif.Proofs.C14Iter
import FGVerif.Proofs.C14EnumMultiset
import FGVerif.Proofs.C14EnumValid
/-!
  C14 — proxy expansion is exhaustive and conservative.

  Property theorems about `Model/C14.lean` (every configuration; hypotheses are the decidable
  predicates `cfgOk` (patterns well-formed on ids `0..m-1`, anchors inside, key = name),
  `acyclicB` (a checked rank certificate), `cfgEdgeOk`/`hashOk`/`noLoopOnGroupNodes` (same graph
  kind, "#" on label nodes, no self-loop on a label node) — the driver evaluates them on every
  configuration the harness uses):

  * `C14.count`                 `build_graphs` yields exactly `numExp` results: the product over the
                                core's group nodes of the sum over the group's graphs, recursively
  * `C14.total`                 `iter(Proxy)` yields `totalExp` = Σ over core graphs, then stops
  * `C14.terminates`            for an acyclic configuration the explicit fuel `fuelBound` suffices and
                                the result is fuel-independent above it (`count_at_bound`)
  * `C14.no_group_label_left`   no result carries a configured group label
  * `C14.contiguous_ids`        every result has ids `0..n-1` (in order)
  * `C14.conservation`          (`_symbols`, `_bonds`, `_plain`, `traced_projection`) at the
                                `build_graphs` level: symbols = those of the chosen patterns minus one
                                "#" per replaced node; bond labels = those of the chosen patterns minus
                                the bonds of nodes replaced by the empty pattern (multisets)
  * table obligations on the *generated* shipped collections (`Proofs/C14Tables.lean`):
    `C14.da_count_pos : totalExpRef daPos daPosCores = 10470`, `C14.da_count_neg : … = 12875`
    (kernel evaluation of the formula), `da_acyclic_pos/neg`, `common_acyclic`, `da_keys_are_names`,
    `da_single_labels`.

  * conservation at the `iter(Proxy)` level (`Proofs/C14Iter.lean`, about the traced enumeration `generateT`,
    `generateT_projection`: forgetting the bookkeeping gives `generate`):
    `C14.conservation_iter_symbols` — symbols of every sample (+ one "#" per replaced node) ~ symbols of the
    chosen patterns, unconditionally; `C14.conservation_iter` — every sample passes `conservedIterB`: bond labels
    (+ bonds dropped with empty patterns) ~ bond labels of the chosen patterns whenever the `build_graphs`
    result it was finished from is simple or has no parallel bonds (`sideOk`, decidable), the labels between
    any two names are unchanged by `finish`, ids are unchanged, the sample is well-formed and carries
    `aam = id + 1` when enabled; `C14.collapse_exact`, `finish_symbols/_bonds/_labels/_aam/_wf`.
    `C14.collapse_loses_parallel`: the side condition is needed — the final `nx.Graph(multigraph)` collapse
    keeps one of several parallel bonds (deliberately).  The harness reports per run how often the side
    condition fails and the driver applies the conservation check to the implementation's samples for which
    it holds (symbols: to all).

  * **exact enumeration** (`Model/C14Choice.lean`, `Proofs/C14EnumA/B`, `C14Enum`, `C14EnumMultiset`) — "exactly one graph
    per combination of choices" as a statement about a declaratively defined set of combinations, not only a cardinality:
    `Choice` / `allChoices cfg p` (choice trees; cartesian product over the group nodes, concatenation over the graphs of a
    group: the count formula on lists, `C14.allChoices_length : (allChoices cfg p).length = numExp cfg p` for every
    configuration) and `expand cfg p cs` (substitute the chosen graphs with `C13.replaceNode`, first group node first;
    the order is observable: `C14.substitution_order_matters`);
    `C14.enumeration_exact : buildGraphs cfg fuel core = .ok res → res ~ (allChoices cfg core).map (expand cfg core)`
    (`List.Perm`, equality of graphs; `enumeration_exact_traced`, `enumeration_mem`),
    `C14.enumeration_total` (`generate`: `out ~ allSamples cfg aam cores`), `count_of_enumeration` / `total_of_enumeration`
    (`count` / `total` re-derived), `C14.enumeration_multiset` (+ `_matched`, `_iter`, `expandT_trace`): the result of every
    combination has the symbol and bond-label multisets computed from the configuration for that combination
    (`chosenSymbols`, `chosenBonds`, minus one "#" per replaced node and the bonds lost with empty patterns).
    The SET of combinations is the inductive predicate `ValidCombo` (`Model/C14Choice.lean`); `C14.mem_allChoices_iff`,
    `C14.allChoices_nodup` (`Proofs/C14EnumValid.lean`): `allChoices` lists exactly the valid combinations, each once;
    `C14.enumeration_bijective` puts the three facts together.
    Not proved: the level-synchronous ORDER of the result list (the statements are permutations).

  Proof files: `C14CountA–C`, `C14Count` (counting, invariants, termination), `C14ConsA–D`, `C14Cons`
  (conservation), `C14Iter` (iter level), `C14Tables`; they build on `Proofs/C13*.lean`.
-/
namespace C14

/-- the shipped Diels-Alder tables satisfy what `count`/`total` need of the reference structure, and
    the formula evaluates to the documented numbers (summary of `Proofs/C14Tables.lean`) -/
theorem da_tables :
    totalExpRef daPos daPosCores = 10470 ∧ totalExpRef daNeg daNegCores = 12875 ∧
    acyclicB daPos = true ∧ acyclicB daNeg = true :=
  ⟨da_count_pos, da_count_neg, da_acyclic_pos, da_acyclic_neg⟩

end C14
